package main

import (
	"bytes"
	"encoding/json"
	"errors"
	"fmt"
	"sort"
	"strconv"
	"strings"
	"time"

	wasmvm "github.com/CosmWasm/wasmvm/v3"
	wasmvmtypes "github.com/CosmWasm/wasmvm/v3/types"

	sdk "github.com/cosmos/cosmos-sdk/types"

	wasmtesting "github.com/cosmos/ibc-go/modules/light-clients/08-wasm/v11/testing"
	wasmtypes "github.com/cosmos/ibc-go/modules/light-clients/08-wasm/v11/types"
	clienttypes "github.com/cosmos/ibc-go/v11/modules/core/02-client/types"
	host "github.com/cosmos/ibc-go/v11/modules/core/24-host"
	ibcexported "github.com/cosmos/ibc-go/v11/modules/core/exported"

	"verif/ibcsim/sim"
)

// WasmOptions are the per-world knobs of the `wasm` profile (drawn from the world seed).
type WasmOptions struct {
	NClients    int     `json:"n_clients"`    // wasm light clients on the chain (>= 3)
	Recoveries  int     `json:"recoveries"`   // recovery attempts per world
	MaxOps      int     `json:"max_ops"`      // scripted store operations per recovery (<= 30)
	OddChecksum bool    `json:"odd_checksum"` // the last client runs another byte code
	PFail       float64 `json:"p_fail"`       // a recovery ends in a scripted error / panic
	PBadSetup   float64 `json:"p_bad_setup"`  // statuses / pair are not prepared for recovery
	PFinish     float64 `json:"p_finish"`     // the script ends like an honest contract (copies the client state)
	// weights of key shapes
	WSubject    int `json:"w_subject"`
	WSubstitute int `json:"w_substitute"`
	WNone       int `json:"w_none"`
	WDouble     int `json:"w_double"`
	WPrefixOnly int `json:"w_prefix_only"`
	WNil        int `json:"w_nil"`
	// weights of operation kinds: get has set del cp it rit
	WKinds [7]int `json:"w_kinds"`
}

func DefaultWasmOptions() WasmOptions {
	return WasmOptions{NClients: 4, Recoveries: 4, MaxOps: 30, PFail: 0.3, PBadSetup: 0.1, PFinish: 0.5,
		WSubject: 30, WSubstitute: 30, WNone: 20, WDouble: 8, WPrefixOnly: 6, WNil: 3,
		WKinds: [7]int{18, 10, 22, 16, 6, 16, 12}}
}

var opKinds = [7]string{"get", "has", "set", "del", "cp", "it", "rit"}

const maxScript = 30

// wasmProf is the `wasm` profile: one chain, several wasm clients, a scripted contract.
type wasmProf struct {
	opt            WasmOptions
	c              *WChain
	ids            []string          // client ids in creation order
	status         map[string]string // what the contract answers to a status query, per client id
	checksums      [][]byte
	pending        []sop
	pendTag        int64
	run            *scriptRun
	recDone        int
	unexpectedSudo int
}

func NewWasmProfile(o WasmOptions) *wasmProf {
	return &wasmProf{opt: o, status: map[string]string{}}
}

func (p *wasmProf) Name() string { return "wasm" }

func codeFor(i int) []byte {
	return append(append([]byte{}, wasmtesting.WasmMagicNumber...), []byte(fmt.Sprintf("verif-wasmsim-contract-%d-0123456789", i))...)
}

func clientHeight(i int) clienttypes.Height { return clienttypes.NewHeight(1, uint64(10*(i+1))) }

// extrasFor is the private data a client's contract keeps in its own store (written at
// instantiation). Every value names its owner so that a misrouted read is visible.
func extrasFor(clientID string) []kv {
	n := 0
	if i := strings.LastIndex(clientID, "-"); i >= 0 {
		n, _ = strconv.Atoi(clientID[i+1:])
	}
	v := func(s string) []byte { return []byte(s + "@" + clientID) }
	out := []kv{
		{[]byte("a"), v("A")}, {[]byte("b"), v("B")}, {[]byte("k/1"), v("K1")}, {[]byte("k/2"), v("K2")}, {[]byte("k/3"), v("K3")},
		{[]byte("m"), v("M")}, {[]byte("z"), v("Z")},
		{[]byte("subject/zz"), v("SZ")}, {[]byte("substitute/zz"), v("TZ")}, {[]byte("subject/clientState"), v("fakeCS")},
		{[]byte{0x00}, v("nul")}, {[]byte{0xff, 0xfe}, v("hi")},
		{[]byte(fmt.Sprintf("own/%d", n)), v("O")},
	}
	if n%2 == 1 {
		out = append(out, kv{[]byte("odd"), v("ODD")}, kv{[]byte("substitute/odd"), v("TODD")})
	} else {
		out = append(out, kv{[]byte("even"), v("EVEN")}, kv{[]byte("subject/even"), v("SEVEN")})
	}
	return out
}

func (p *wasmProf) Setup(w *sim.World) {
	o := &p.opt
	if o.NClients < 3 {
		o.NClients = 3
	}
	if o.MaxOps <= 0 || o.MaxOps > maxScript {
		o.MaxOps = maxScript
	}
	vm := wasmtesting.NewMockWasmEngine()
	codes := [][]byte{codeFor(0), codeFor(1)}
	for _, code := range codes {
		cs, err := wasmtypes.CreateChecksum(code)
		sim.Must(err, "checksum")
		p.checksums = append(p.checksums, cs)
	}

	// instantiate: what an honest contract does — store client state, consensus state and its
	// private data in its own client store.
	vm.InstantiateFn = func(checksum wasmvm.Checksum, env wasmvmtypes.Env, _ wasmvmtypes.MessageInfo, initMsg []byte, store wasmvm.KVStore, _ wasmvm.GoAPI, _ wasmvm.Querier, _ wasmvm.GasMeter, _ uint64, _ wasmvmtypes.UFraction) (*wasmvmtypes.ContractResult, uint64, error) {
		var payload wasmtypes.InstantiateMessage
		if err := json.Unmarshal(initMsg, &payload); err != nil {
			return nil, 0, err
		}
		hs := strings.TrimPrefix(string(payload.ClientState), "cs/")
		hn, err := strconv.ParseUint(hs, 10, 64)
		if err != nil {
			return nil, 0, err
		}
		height := clienttypes.NewHeight(1, hn)
		cdc := p.c.App.AppCodec()
		store.Set(host.ClientStateKey(), clienttypes.MustMarshalClientState(cdc, wasmtypes.NewClientState(payload.ClientState, payload.Checksum, height)))
		store.Set(host.ConsensusStateKey(height), clienttypes.MustMarshalConsensusState(cdc, wasmtypes.NewConsensusState(payload.ConsensusState)))
		for _, e := range extrasFor(env.Contract.Address) {
			store.Set(e.K, e.V)
		}
		resp, _ := json.Marshal(wasmtypes.EmptyResult{})
		return &wasmvmtypes.ContractResult{Ok: &wasmvmtypes.Response{Data: resp}}, wasmtesting.DefaultGasUsed, nil
	}
	// status: scripted per client
	vm.RegisterQueryCallback(wasmtypes.StatusMsg{}, func(_ wasmvm.Checksum, env wasmvmtypes.Env, _ []byte, _ wasmvm.KVStore, _ wasmvm.GoAPI, _ wasmvm.Querier, _ wasmvm.GasMeter, _ uint64, _ wasmvmtypes.UFraction) (*wasmvmtypes.QueryResult, uint64, error) {
		st, ok := p.status[env.Contract.Address]
		if !ok {
			st = ibcexported.Active.String()
		}
		resp, _ := json.Marshal(wasmtypes.StatusResult{Status: st})
		return &wasmvmtypes.QueryResult{Ok: resp}, wasmtesting.DefaultGasUsed, nil
	})
	// migrate_client_store: the untrusted contract under recovery
	vm.RegisterSudoCallback(wasmtypes.MigrateClientStoreMsg{}, func(_ wasmvm.Checksum, _ wasmvmtypes.Env, _ []byte, store wasmvm.KVStore, _ wasmvm.GoAPI, _ wasmvm.Querier, _ wasmvm.GasMeter, _ uint64, _ wasmvmtypes.UFraction) (*wasmvmtypes.ContractResult, uint64, error) {
		r := p.run
		if r == nil {
			p.unexpectedSudo++
			return nil, 0, errors.New("unexpected sudo call")
		}
		func() {
			defer func() {
				if x := recover(); x != nil {
					r.panicked, r.panicVal = true, fmt.Sprint(x)
					panic(x)
				}
			}()
			r.contract(store)
		}()
		resp, _ := json.Marshal(wasmtypes.EmptyResult{})
		switch r.mode {
		case modeContractErr:
			return &wasmvmtypes.ContractResult{Err: "scripted contract error"}, wasmtesting.DefaultGasUsed, nil
		case modeVMErr:
			return nil, wasmtesting.DefaultGasUsed, errors.New("scripted vm error")
		case modePanic:
			r.panicked, r.panicVal = true, "scripted contract panic"
			panic("scripted contract panic")
		case modeBadResponse:
			return &wasmvmtypes.ContractResult{Ok: &wasmvmtypes.Response{Data: resp, Attributes: []wasmvmtypes.EventAttribute{{Key: "k", Value: "v"}}}}, wasmtesting.DefaultGasUsed, nil
		}
		return &wasmvmtypes.ContractResult{Ok: &wasmvmtypes.Response{Data: resp}}, wasmtesting.DefaultGasUsed, nil
	})

	p.c = NewWChain("wasmchain-1", vm, codes, w.Stats)
	w.Data = p

	creator := p.c.Accounts[accCreator]
	for i := 0; i < o.NClients; i++ {
		cs := p.checksums[0]
		if o.OddChecksum && i == o.NClients-1 {
			cs = p.checksums[1]
		}
		h := clientHeight(i)
		clientState := wasmtypes.NewClientState([]byte(fmt.Sprintf("cs/%d", h.RevisionHeight)), cs, h)
		consState := wasmtypes.NewConsensusState([]byte(fmt.Sprintf("cons/%d", i)))
		msg, err := clienttypes.NewMsgCreateClient(clientState, consState, creator.Addr.String())
		sim.Must(err, "MsgCreateClient")
		r := p.c.Block(5*time.Second, creator, []sdk.Msg{msg})
		if !r.OK() {
			sim.Failf("create wasm client %d: %s", i, r.Log)
		}
		id := fmt.Sprintf("%s-%d", wasmtypes.Wasm, i)
		if p.c.Dump(ibcexported.StoreKey)[clientPrefix(id)+"clientState"] == nil {
			sim.Failf("client %s was not created", id)
		}
		p.ids = append(p.ids, id)
	}
}

func clientPrefix(id string) string { return "clients/" + id + "/" }

// heightOf reads the latest height of a client from committed state.
func (p *wasmProf) clientInfo(dump map[string][]byte, id string) (h clienttypes.Height, checksum []byte, ok bool) {
	bz := dump[clientPrefix(id)+"clientState"]
	if len(bz) == 0 {
		return h, nil, false
	}
	ci, err := clienttypes.UnmarshalClientState(p.c.App.AppCodec(), bz)
	if err != nil {
		return h, nil, false
	}
	cs, isWasm := ci.(*wasmtypes.ClientState)
	if !isWasm {
		return h, nil, false
	}
	return cs.LatestHeight, cs.Checksum, true
}

// ---- generator ---------------------------------------------------------------------------------

var (
	freshKeys = []string{"n1", "n2", "k/0", "k/9", "zz", "clientState0", "consensusStates/", "subject", "substitute"}
	nearMiss  = []string{"subject", "substitute", "Subject/a", "/subject/a", "subjec/a", "subject\x00/a", " subject/a", "substitut/a", "SUBSTITUTE/a", "subject:a", "sub"}
	alphabet  = []byte{0x00, 'a', 'k', '/', 'z', 0xff, '1'}
)

type genCtx struct {
	w     *sim.World
	p     *wasmProf
	pool  []string // store-relative keys present in the subject or the substitute store
	used  [][]byte // keys this script has used so far
	subj  string
	subst string
}

func (g *genCtx) rest() []byte {
	w := g.w
	switch w.Pick(62, 20, 14, 4) {
	case 0:
		if len(g.pool) > 0 {
			return []byte(g.pool[w.Intn(len(g.pool))])
		}
		return []byte("a")
	case 1:
		return []byte(freshKeys[w.Intn(len(freshKeys))])
	case 2:
		n := 1 + w.Intn(3)
		b := make([]byte, n)
		for i := range b {
			b[i] = alphabet[w.Intn(len(alphabet))]
		}
		return b
	}
	return []byte{}
}

func cat(parts ...[]byte) []byte {
	out := []byte{}
	for _, p := range parts {
		out = append(out, p...)
	}
	return out
}

func (g *genCtx) prefix() []byte {
	if g.w.Chance(0.5) {
		return pfxSubject
	}
	return pfxSubstitute
}

// key draws a key: sometimes one the script has used before (read-your-writes, delete-then-read,
// overwrite), otherwise a fresh one of the shapes named in the property statement.
func (g *genCtx) key() []byte {
	if len(g.used) > 0 && g.w.Chance(0.25) {
		k := g.used[g.w.Intn(len(g.used))]
		if k == nil {
			return nil
		}
		return append([]byte{}, k...)
	}
	k := g.freshKey()
	g.used = append(g.used, k)
	return k
}

func (g *genCtx) freshKey() []byte {
	w, o := g.w, g.p.opt
	switch w.Pick(o.WSubject, o.WSubstitute, o.WNone, o.WDouble, o.WPrefixOnly, o.WNil) {
	case 0:
		return cat(pfxSubject, g.rest())
	case 1:
		return cat(pfxSubstitute, g.rest())
	case 2:
		switch w.Pick(50, 30, 20) {
		case 0:
			return g.rest() // a raw key, very often one that exists in a store
		case 1:
			return []byte(nearMiss[w.Intn(len(nearMiss))])
		}
		id := g.subj
		if w.Chance(0.5) {
			id = g.subst
		}
		return cat([]byte(clientPrefix(id)), g.rest()) // the absolute path of a client key
	case 3:
		return cat(g.prefix(), g.prefix(), g.rest())
	case 4:
		return append([]byte{}, g.prefix()...)
	}
	return nil
}

var hiKeys = [][]byte{{0xff, 0xff, 0xff}, []byte("zzzz"), []byte("l"), {}}

// bounds draws an iteration range.
func (g *genCtx) bounds() (start, end []byte) {
	w := g.w
	lo := func() []byte {
		if w.Chance(0.55) {
			return []byte{}
		}
		return g.rest()
	}
	hi := func() []byte {
		if w.Chance(0.55) {
			return hiKeys[w.Intn(len(hiKeys))]
		}
		return g.rest()
	}
	ordered := func() ([]byte, []byte) {
		a, b := lo(), hi()
		if bytes.Compare(a, b) > 0 && w.Chance(0.8) {
			a, b = b, a
		}
		return a, b
	}
	switch w.Pick(46, 16, 12, 10, 10, 6) {
	case 0: // one consistent prefix
		p := g.prefix()
		a, b := ordered()
		return cat(p, a), cat(p, b)
	case 1: // bounds carry different prefixes
		a, b := ordered()
		if w.Chance(0.5) {
			return cat(pfxSubject, a), cat(pfxSubstitute, b)
		}
		return cat(pfxSubstitute, a), cat(pfxSubject, b)
	case 2: // nil bounds
		a, b := ordered()
		switch w.Pick(40, 40, 20) {
		case 0:
			return nil, cat(g.prefix(), b)
		case 1:
			return cat(g.prefix(), a), nil
		}
		return nil, nil
	case 3: // no prefix at all (raw or absolute ranges over populated key space)
		if w.Chance(0.3) {
			id := g.subj
			if w.Chance(0.5) {
				id = g.subst
			}
			return []byte(clientPrefix(id)), cat([]byte(clientPrefix(id)), []byte{0xff})
		}
		return ordered()
	case 4: // only one bound prefixed
		a, b := ordered()
		if w.Chance(0.5) {
			return cat(g.prefix(), a), b
		}
		return a, cat(g.prefix(), b)
	}
	// doubled prefixes: a range inside the routed store over keys that look prefixed
	p, q := g.prefix(), g.prefix()
	a, b := ordered()
	return cat(p, q, a), cat(p, q, b)
}

func (g *genCtx) value(tag int64, i int) []byte {
	w := g.w
	switch w.Pick(86, 8, 3, 3) {
	case 0:
		return []byte(fmt.Sprintf("w%d.%d", tag, i))
	case 1:
		return bytes.Repeat([]byte{byte('A' + i%26)}, 1+w.Intn(300))
	case 2:
		return []byte{}
	}
	return nil
}

func (p *wasmProf) Gen(w *sim.World) []sim.Op {
	if p.recDone >= p.opt.Recoveries {
		return nil
	}
	o := p.opt
	dump := p.c.Dump(ibcexported.StoreKey)
	n := len(p.ids)
	tag := w.Tag()
	var ops []sim.Op

	// pick the pair
	subj, subst := w.Intn(n), w.Intn(n)
	bad := w.Chance(o.PBadSetup)
	if !bad {
		type pair struct{ a, b int }
		var good []pair
		for a := 0; a < n; a++ {
			for b := 0; b < n; b++ {
				ha, ca, oka := p.clientInfo(dump, p.ids[a])
				hb, cb, okb := p.clientInfo(dump, p.ids[b])
				if a != b && oka && okb && ha.LT(hb) && bytes.Equal(ca, cb) {
					good = append(good, pair{a, b})
				}
			}
		}
		if len(good) > 0 {
			g := good[w.Intn(len(good))]
			subj, subst = g.a, g.b
		}
	}
	// statuses
	if !bad || w.Chance(0.5) {
		st := ibcexported.Expired.String()
		if w.Chance(0.4) {
			st = ibcexported.Frozen.String()
		}
		ops = append(ops, sim.Op{K: "st", P: subj, S: st, T: tag})
		ops = append(ops, sim.Op{K: "st", P: subst, S: ibcexported.Active.String(), T: tag})
	} else {
		ops = append(ops, sim.Op{K: "st", P: w.Intn(n), S: []string{"Active", "Expired", "Frozen", "Unknown"}[w.Intn(4)], T: tag})
	}

	// the script
	g := &genCtx{w: w, p: p, subj: p.ids[subj], subst: p.ids[subst]}
	seen := map[string]bool{}
	for _, id := range []string{g.subj, g.subst} {
		for k := range subStore(dump, clientPrefix(id)) {
			seen[k] = true
		}
	}
	for k := range seen {
		g.pool = append(g.pool, k)
	}
	sort.Strings(g.pool)

	L := 1 + w.Intn(o.MaxOps)
	finish := w.Chance(o.PFinish)
	if finish {
		L--
	}
	for i := 0; i < L; i++ {
		kind := opKinds[w.Pick(o.WKinds[:]...)]
		switch kind {
		case "get", "has", "del":
			ops = append(ops, encOp(kind, tag, g.key(), nil, 0))
		case "set":
			ops = append(ops, encOp(kind, tag, g.key(), g.value(tag, i), 0))
		case "cp":
			ops = append(ops, encOp(kind, tag, g.key(), g.key(), 0))
		default:
			s, e := g.bounds()
			lim := 40
			if w.Chance(0.25) {
				lim = w.Intn(4)
			}
			ops = append(ops, encOp(kind, tag, s, e, lim))
		}
	}
	if finish {
		// what the real contracts do: adopt the substitute's client state
		ops = append(ops, encOp("cp", tag, cat(pfxSubstitute, host.ClientStateKey()), cat(pfxSubject, host.ClientStateKey()), 0))
	}
	mode, failPos := modeOK, 0
	if w.Chance(o.PFail) {
		mode = 1 + w.Intn(numModes-1)
		nScript := 0
		for _, op := range ops {
			if op.K != "st" {
				nScript++
			}
		}
		failPos = w.Intn(nScript + 1)
	}
	ops = append(ops, sim.Op{K: "rec", P: subj, N: int64(subst), X: int64(mode), M: int64(failPos), T: tag})
	return ops
}

func (p *wasmProf) Drain(w *sim.World) []sim.Op { return nil }

// ---- executor -------------------------------------------------------------------------------------

func (p *wasmProf) Exec(w *sim.World, op sim.Op) {
	switch op.K {
	case "st":
		if op.P < 0 || op.P >= len(p.ids) {
			w.Noop()
			return
		}
		switch op.S {
		case "Active", "Expired", "Frozen", "Unknown", "Unauthorized":
			p.status[p.ids[op.P]] = op.S
		default:
			w.Noop()
		}
	case "get", "has", "set", "del", "cp", "it", "rit":
		s, ok := decOp(op)
		if !ok || len(p.pending) >= maxScript {
			w.Noop()
			return
		}
		p.pending = append(p.pending, s)
	case "rec":
		p.execRecover(w, op)
	default:
		w.Noop()
	}
}

func (p *wasmProf) Finish(w *sim.World) {
	if p.unexpectedSudo > 0 {
		sim.Failf("the contract was called %d times outside a recovery", p.unexpectedSudo)
	}
}
