// Command wasmsim is the deterministic simulator for the 08-wasm light client module of
// cosmos/ibc-go (a separate Go module, hence a separate binary). It reuses the world / runner /
// replay machinery of verif/ibcsim/sim.
//
//	wasmsim check  -prop C29 [-tier quick|thorough] [-verif /verif]    run a property check (VERIF_SEED, VERIF_TIER honoured)
//	wasmsim worker ...                                                   internal: one worker process of a check
//	wasmsim replay [-trace] <file>                                       re-execute a replay file
//	wasmsim world  -prop C29 -seed N -i K [-trace]                       run a single world from its generator
//	wasmsim selftest-determinism -prop C29 -n 6                          print one digest line per world
//	wasmsim list
package main

import (
	"encoding/json"
	"flag"
	"fmt"
	"os"
	"path/filepath"
	"runtime"
	"strconv"
	"time"

	"verif/ibcsim/sim"
)

func main() {
	if len(os.Args) < 2 {
		fmt.Fprintln(os.Stderr, "usage: wasmsim check|worker|replay|world|selftest-determinism|list ...")
		os.Exit(sim.ExitHarness)
	}
	cmd, args := os.Args[1], os.Args[2:]
	switch cmd {
	case "list":
		for _, p := range Props() {
			fmt.Println(p)
		}
	case "check":
		os.Exit(cmdCheck(args))
	case "worker":
		os.Exit(cmdWorker(args))
	case "replay":
		os.Exit(cmdReplay(args))
	case "world":
		os.Exit(cmdWorld(args))
	case "selftest-determinism":
		os.Exit(cmdDeterminism(args))
	default:
		fmt.Fprintf(os.Stderr, "unknown command %q\n", cmd)
		os.Exit(sim.ExitHarness)
	}
}

func envSeed() int64 {
	if s := os.Getenv("VERIF_SEED"); s != "" {
		if v, err := strconv.ParseInt(s, 10, 64); err == nil {
			return v
		}
	}
	return 1
}

func cmdCheck(args []string) int {
	fs := flag.NewFlagSet("check", flag.ExitOnError)
	prop := fs.String("prop", "", "property id")
	tier := fs.String("tier", "", "quick|thorough")
	verif := fs.String("verif", "/verif", "verif directory")
	workers := fs.Int("workers", 0, "worker processes (default: min(16, NumCPU))")
	worlds := fs.Int("worlds", 0, "override number of worlds")
	fs.Parse(args)
	if *tier == "" {
		*tier = os.Getenv("VERIF_TIER")
	}
	if *tier == "" {
		*tier = "quick"
	}
	ck := Lookup(*prop)
	if ck == nil {
		fmt.Fprintf(os.Stderr, "unknown property %q\n", *prop)
		return sim.ExitHarness
	}
	n := *workers
	if n == 0 {
		n = runtime.NumCPU()
		if n > 16 {
			n = 16
		}
	}
	exe, err := os.Executable()
	if err != nil {
		fmt.Fprintln(os.Stderr, err)
		return sim.ExitHarness
	}
	seed := envSeed()
	fmt.Printf("wasmsim check %s tier=%s VERIF_SEED=%d workers=%d\n", *prop, *tier, seed, n)
	opts := sim.RunOptions{Tier: *tier, Seed: seed, Workers: n, VerifDir: *verif, SelfExe: exe, MaxWorlds: *worlds}
	if ck.Custom != nil {
		return ck.Custom(opts)
	}
	return sim.RunCheck(ck, opts)
}

func cmdWorker(args []string) int {
	fs := flag.NewFlagSet("worker", flag.ExitOnError)
	prop := fs.String("prop", "", "")
	tier := fs.String("tier", "quick", "")
	seed := fs.Int64("seed", 1, "")
	from := fs.Int("from", 0, "")
	to := fs.Int("to", 1, "")
	step := fs.Int("step", 1, "")
	verif := fs.String("verif", "/verif", "")
	budget := fs.Duration("budget", 0, "")
	fs.Parse(args)
	ck := Lookup(*prop)
	if ck == nil {
		fmt.Fprintf(os.Stderr, "unknown property %q\n", *prop)
		return sim.ExitHarness
	}
	known := sim.LoadKnownFindings(filepath.Join(*verif, "known_findings.json"))
	var dl time.Time
	if *budget > 0 {
		dl = time.Now().Add(*budget)
	}
	res := sim.Worker(ck, *tier, *seed, *from, *to, *step, known, dl)
	bz, _ := json.Marshal(res)
	os.Stdout.Write(bz)
	return 0
}

func cmdReplay(args []string) int {
	fs := flag.NewFlagSet("replay", flag.ExitOnError)
	verif := fs.String("verif", "/verif", "")
	quiet := fs.Bool("quiet", false, "")
	trace := fs.Bool("trace", false, "")
	fs.Parse(args)
	if fs.NArg() != 1 {
		fmt.Fprintln(os.Stderr, "usage: wasmsim replay [-trace] <file>")
		return sim.ExitHarness
	}
	return sim.ReplayMain(Lookup, fs.Arg(0), *verif, *quiet, *trace)
}

// chainHash is the committed app hash of the world's chain (sim.World.StateHash only knows
// sim.Chain objects, which a wasm world does not have).
func chainHash(w *sim.World) string {
	if p, ok := w.Data.(*wasmProf); ok && p.c != nil {
		return fmt.Sprintf("%d/%X", p.c.Height, p.c.AppHash())
	}
	return "-"
}

func cmdWorld(args []string) int {
	fs := flag.NewFlagSet("world", flag.ExitOnError)
	prop := fs.String("prop", "", "")
	tier := fs.String("tier", "quick", "")
	seed := fs.Int64("seed", 1, "batch seed")
	idx := fs.Int("i", 0, "world index")
	trace := fs.Bool("trace", false, "")
	verif := fs.String("verif", "/verif", "")
	fs.Parse(args)
	ck := Lookup(*prop)
	if ck == nil {
		fmt.Fprintf(os.Stderr, "unknown property %q\n", *prop)
		return sim.ExitHarness
	}
	known := sim.LoadKnownFindings(filepath.Join(*verif, "known_findings.json"))
	ws := sim.WorldSeed(*seed, ck.Prop, *idx)
	cfg := ck.MakeConfig(*tier, ws)
	cfg.Seed = ws
	cfg.Armed = []string{ck.Prop}
	var tr func(string)
	if *trace {
		tr = func(s string) { fmt.Println(s) }
	}
	t0 := time.Now()
	w := sim.RunOne(ck, cfg, nil, known, tr)
	fmt.Printf("world seed=%d ops=%d noop=%d blocks=%d txs=%d ok=%d wall=%.2fs sig=%s chain=%s\n", ws, w.Stats.Ops, w.Stats.OpsNoop, w.Stats.Blocks, w.Stats.Txs, w.Stats.TxsOK, time.Since(t0).Seconds(), w.Signature(), chainHash(w))
	bz, _ := json.MarshalIndent(map[string]any{"config": json.RawMessage(cfg.Extra), "faults": w.Stats.Faults, "probes": w.Stats.Probes, "nontrivial": len(w.Stats.Nontriv), "known": w.Stats.KnownHit}, "", " ")
	fmt.Println(string(bz))
	for _, v := range w.Viol {
		fmt.Printf("VIOLATION %s %s (op %d): %s\n", v.Prop, v.Class, v.OpIdx, v.Detail)
	}
	if len(w.Viol) > 0 {
		return sim.ExitViolation
	}
	return 0
}

// cmdDeterminism runs the same worlds in this process and prints a digest per world; run it
// under different GOMAXPROCS and diff the output.
func cmdDeterminism(args []string) int {
	fs := flag.NewFlagSet("selftest-determinism", flag.ExitOnError)
	prop := fs.String("prop", "C29", "")
	n := fs.Int("n", 4, "")
	from := fs.Int("from", 0, "")
	seed := fs.Int64("seed", 1, "")
	verif := fs.String("verif", "/verif", "")
	fs.Parse(args)
	ck := Lookup(*prop)
	if ck == nil {
		return sim.ExitHarness
	}
	known := sim.LoadKnownFindings(filepath.Join(*verif, "known_findings.json"))
	for i := *from; i < *from+*n; i++ {
		ws := sim.WorldSeed(*seed, ck.Prop, i)
		cfg := ck.MakeConfig("quick", ws)
		cfg.Seed = ws
		cfg.Armed = []string{ck.Prop}
		w := sim.RunOne(ck, cfg, nil, known, nil)
		ops, _ := json.Marshal(w.Log)
		st, _ := json.Marshal(map[string]any{"f": w.Stats.Faults, "p": w.Stats.Probes, "n": w.Stats.Nontriv})
		fmt.Printf("%s world %d seed %d ops %d sig %s chain %s oplog %s stats %s viol %d\n", *prop, i, ws, len(w.Log), w.Signature(), chainHash(w), sim.TxHash(ops), sim.TxHash(st), len(w.Viol))
	}
	return 0
}
