package main

import (
	"encoding/json"
	"math/rand"
	"sort"

	"verif/ibcsim/sim"
)

var wasmComponents = map[string][]string{
	"real": {"modules/light-clients/08-wasm/testing/simapp.SimApp (baseapp, IAVL multistore on MemDB, ante chain with signature verification)",
		"x/gov proposal execution (branch of state, written only when the message handler succeeds, panics recovered)",
		"ibc core msg server RecoverClient, 02-client keeper RecoverClient and client store provider",
		"08-wasm light client module (Initialize, Status, LatestHeight, RecoverClient), keeper.WasmSudo / WasmQuery / WasmInstantiate, internal/types.ClientRecoveryStore and StoreAdapter"},
	"stub": {"wasm VM: testing.MockWasmEngine; the contract is a script (instantiate = honest, status = scripted per client, migrate_client_store = seeded store-operation sequence, optional error / VM error / panic / forbidden response)",
		"CometBFT consensus and mempool (the simulator proposes single-transaction blocks)", "governance voters (one delegator holding all voting power)", "wall clock (virtual)"},
}

var registry = map[string]*sim.Check{}

func Lookup(prop string) *sim.Check { return registry[prop] }

func Props() []string {
	var out []string
	for k := range registry {
		out = append(out, k)
	}
	sort.Strings(out)
	return out
}

func register(ck *sim.Check) {
	if ck.Components == nil {
		ck.Components = wasmComponents
	}
	if ck.Level == "" {
		ck.Level = "exploration"
	}
	registry[ck.Prop] = ck
}

func init() {
	register(&sim.Check{
		Prop: "C29",
		Rule: "one world = one wasm test application with 3..6 wasm light clients (private data in every client store) and 3..8 client recoveries through real governance; " +
			"each recovery runs a seeded script of <= 30 get/has/set/delete/copy/iterate/reverse-iterate operations (keys with the subject prefix, the substitute prefix, none, near-miss, doubled, prefix-only, nil; ranges with one, two different, one missing or no prefix and nil bounds) inside the contract's migrate_client_store call, " +
			"optionally ending in a contract error, VM error, panic or forbidden response at a seeded position. A case is non-trivial and distinct per (outcome, operation kind, key shape, effect) that was executed against the real recovery store",
		NonTrivPrefixes: []string{"C29/"},
		Worlds:          map[string]int{"quick": 288, "thorough": 2880},
		NewProfile: func(cfg sim.WorldConfig) sim.Profile {
			o := DefaultWasmOptions()
			if len(cfg.Extra) > 0 {
				if err := json.Unmarshal(cfg.Extra, &o); err != nil {
					sim.Failf("wasm options: %v", err)
				}
			}
			return NewWasmProfile(o)
		},
		MakeConfig: func(tier string, seed int64) sim.WorldConfig {
			r := rand.New(rand.NewSource(seed ^ 0x5eed))
			o := DefaultWasmOptions()
			o.NClients = 3 + r.Intn(4)
			o.Recoveries = 3 + r.Intn(6)
			o.MaxOps = []int{6, 12, 30, 30}[r.Intn(4)]
			o.OddChecksum = r.Intn(4) == 0
			o.PFail = []float64{0, 0.2, 0.35, 0.6}[r.Intn(4)]
			o.PBadSetup = []float64{0, 0.08, 0.2}[r.Intn(3)]
			o.PFinish = []float64{0.2, 0.5, 0.9}[r.Intn(3)]
			// swarm: every world favours some key shapes and operation kinds and drops others
			ws := []*int{&o.WSubject, &o.WSubstitute, &o.WNone, &o.WDouble, &o.WPrefixOnly, &o.WNil}
			for _, x := range ws {
				switch r.Intn(5) {
				case 0:
					*x = 0
				case 1:
					*x *= 3
				}
			}
			if o.WSubject+o.WSubstitute+o.WNone == 0 {
				o.WSubject, o.WSubstitute = 30, 30
			}
			for i := range o.WKinds {
				switch r.Intn(6) {
				case 0:
					o.WKinds[i] = 0
				case 1:
					o.WKinds[i] *= 3
				}
			}
			tot := 0
			for _, x := range o.WKinds {
				tot += x
			}
			if tot == 0 {
				o.WKinds = DefaultWasmOptions().WKinds
			}
			bz, _ := json.Marshal(o)
			return sim.WorldConfig{Profile: "wasm", Steps: 400, Extra: bz}
		},
		RequiredProbes: []string{
			"recover_passed", "recover_passed_subject_changed", "recover_passed_despite_substitute_writes", "failed_after_subject_writes",
			"rejected_before_contract", "recovery_on_recovered_state",
			"set_subject_applied", "del_subject_applied", "cp_substitute_to_subject_applied",
			"set_substitute_existing_key", "set_substitute_new_key", "del_substitute_existing_key", "set_unprefixed_existing_key", "del_unprefixed_existing_key",
			"get_subject_hit", "get_substitute_hit", "get_after_write_hit", "get_unprefixed_key_existing_in_subject", "get_unprefixed_key_existing_in_substitute",
			"has_subject_true", "has_substitute_true", "has_unprefixed_key_existing_in_a_store",
			"it_subject_nonempty", "it_substitute_nonempty", "rit_subject_nonempty", "rit_substitute_nonempty",
			"iter_mixed_prefix_over_populated_range", "iter_nil_bound", "iter_unprefixed_over_populated_range", "iter_truncated_by_limit",
		},
		RequiredFaults: []string{"contract.error", "vm.error", "contract.panic", "contract.bad_response", "contract.invalid_client_state"},
		Assumptions: []string{
			"seeded search over contract behaviours: a clean batch is evidence, not proof (bounds: <= 30 store operations per recovery, <= 6 clients, keys drawn from the shapes listed in the rule)",
			"the contract is the mock VM's Go callback: it receives the very store object 08-wasm hands to a real VM (StoreAdapter over ClientRecoveryStore); wasmvm's own marshalling of keys is not in the loop",
			"Has is not reachable for contracts; the harness calls it on the ClientRecoveryStore behind the adapter (unexported field read through reflection)",
			"Cosmos SDK stores (prefix, gaskv, cachekv, IAVL) and x/gov are trusted as used by the real code; that a failed or panicking recovery persists nothing is decided through gov's real branch-and-write, not re-implemented",
			"ground truth is a full dump of the committed ibc and 08-wasm module stores before the proposal and after the executing block",
		},
	})
}
