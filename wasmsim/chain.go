// Package main (wasmsim) decides properties of the 08-wasm light client module, which lives in
// its own Go module and therefore cannot be linked into ibcsim's prof package.
//
// WChain is the wasm flavour of sim.Chain: one real modules/light-clients/08-wasm/testing/simapp
// application driven through ABCI by the simulator (which is consensus, mempool, user and
// governance voter). Nothing in here reads a wall clock or an unseeded PRNG.
package main

import (
	"encoding/json"
	"fmt"
	"math/rand"
	"os"
	"path/filepath"
	"sort"
	"strconv"
	"time"

	dbm "github.com/cosmos/cosmos-db"

	"cosmossdk.io/log/v2"
	sdkmath "cosmossdk.io/math"

	"github.com/cosmos/cosmos-sdk/baseapp"
	codectypes "github.com/cosmos/cosmos-sdk/codec/types"
	cryptocodec "github.com/cosmos/cosmos-sdk/crypto/codec"
	"github.com/cosmos/cosmos-sdk/crypto/keys/secp256k1"
	cryptotypes "github.com/cosmos/cosmos-sdk/crypto/types"
	simtestutil "github.com/cosmos/cosmos-sdk/testutil/sims"
	sdk "github.com/cosmos/cosmos-sdk/types"
	authtypes "github.com/cosmos/cosmos-sdk/x/auth/types"
	banktypes "github.com/cosmos/cosmos-sdk/x/bank/types"
	govtypes "github.com/cosmos/cosmos-sdk/x/gov/types"
	govv1 "github.com/cosmos/cosmos-sdk/x/gov/types/v1"
	minttypes "github.com/cosmos/cosmos-sdk/x/mint/types"
	stakingtypes "github.com/cosmos/cosmos-sdk/x/staking/types"

	abci "github.com/cometbft/cometbft/abci/types"
	"github.com/cometbft/cometbft/crypto/ed25519"
	cmtproto "github.com/cometbft/cometbft/proto/tendermint/types"
	cmttypes "github.com/cometbft/cometbft/types"

	wasmtesting "github.com/cosmos/ibc-go/modules/light-clients/08-wasm/v11/testing"
	wasmsimapp "github.com/cosmos/ibc-go/modules/light-clients/08-wasm/v11/testing/simapp"
	wasmtypes "github.com/cosmos/ibc-go/modules/light-clients/08-wasm/v11/types"

	"verif/ibcsim/sim"
)

// WAccount is a key pair the simulator owns.
type WAccount struct {
	Priv cryptotypes.PrivKey
	Addr sdk.AccAddress
	Num  uint64
	Seq  uint64
}

// WTxResult is the outcome of one delivered transaction.
type WTxResult struct {
	Code   uint32
	Space  string
	Log    string
	Events []abci.Event
}

func (r *WTxResult) OK() bool { return r != nil && r.Code == 0 }

// WChain is one simulated chain running the real 08-wasm test application with a mock VM.
type WChain struct {
	ID       string
	App      *wasmsimapp.SimApp
	VM       *wasmtesting.MockWasmEngine
	DB       *dbm.MemDB
	Vals     *cmttypes.ValidatorSet
	Height   int64
	LastTime time.Time
	Accounts []*WAccount
	Stats    *sim.Stats
	Voting   time.Duration
}

const (
	accGov     = 0 // genesis delegator: proposer and only voter
	accCreator = 1 // creates the light clients
)

// NewWChain builds the chain: deterministic keys, genesis (with the given wasm byte codes
// already stored), InitChain and block 1. The mock VM must be fully scripted by the caller
// before any transaction reaches it.
func NewWChain(chainID string, vm *wasmtesting.MockWasmEngine, codes [][]byte, stats *sim.Stats) *WChain {
	c := &WChain{ID: chainID, VM: vm, Stats: stats, Voting: 10 * time.Minute}

	sk := ed25519.GenPrivKeyFromSecret([]byte("verif-wasmsim/val/" + chainID))
	pv := cmttypes.NewMockPVWithParams(sk, false, false)
	pk, err := pv.GetPubKey()
	sim.Must(err, "val pubkey")
	c.Vals = cmttypes.NewValidatorSet([]*cmttypes.Validator{cmttypes.NewValidator(pk, 1)})

	var genAccs []authtypes.GenesisAccount
	var genBals []banktypes.Balance
	amount, _ := sdkmath.NewIntFromString("10000000000000000000")
	for i := 0; i < 3; i++ {
		priv := secp256k1.GenPrivKeyFromSecret([]byte(fmt.Sprintf("verif-wasmsim/acc/%s/%d", chainID, i)))
		acc := authtypes.NewBaseAccount(priv.PubKey().Address().Bytes(), priv.PubKey(), uint64(i), 0)
		genAccs = append(genAccs, acc)
		genBals = append(genBals, banktypes.Balance{Address: acc.GetAddress().String(), Coins: sdk.NewCoins(sdk.NewCoin(sdk.DefaultBondDenom, amount))})
		c.Accounts = append(c.Accounts, &WAccount{Priv: priv, Addr: acc.GetAddress(), Num: uint64(i)})
	}

	c.DB = dbm.NewMemDB()
	// the app's upgrade keeper creates <home>/data when it looks for an upgrade-info file: keep
	// that out of the working directory (nothing is ever read from or written to it)
	appOpts := simtestutil.AppOptionsMap{"home": filepath.Join(os.TempDir(), "verif-wasmsim-home")}
	c.App = wasmsimapp.NewUnitTestSimApp(log.NewNopLogger(), c.DB, true, appOpts, vm, baseapp.SetChainID(chainID))
	gen := c.App.DefaultGenesis()
	cdc := c.App.AppCodec()

	gen[authtypes.ModuleName] = cdc.MustMarshalJSON(authtypes.NewGenesisState(authtypes.DefaultParams(), genAccs))

	bondAmt := sdk.TokensFromConsensusPower(1, sdk.DefaultPowerReduction)
	var svals []stakingtypes.Validator
	var dels []stakingtypes.Delegation
	for _, val := range c.Vals.Validators {
		spk, err := cryptocodec.FromCmtPubKeyInterface(val.PubKey)
		sim.Must(err, "cmt pubkey")
		pkAny, err := codectypes.NewAnyWithValue(spk)
		sim.Must(err, "any")
		svals = append(svals, stakingtypes.Validator{
			OperatorAddress: sdk.ValAddress(val.Address).String(), ConsensusPubkey: pkAny,
			Status: stakingtypes.Bonded, Tokens: bondAmt, DelegatorShares: sdkmath.LegacyOneDec(),
			UnbondingTime:     time.Unix(0, 0).UTC(),
			Commission:        stakingtypes.NewCommission(sdkmath.LegacyZeroDec(), sdkmath.LegacyZeroDec(), sdkmath.LegacyZeroDec()),
			MinSelfDelegation: sdkmath.ZeroInt(),
		})
		dels = append(dels, stakingtypes.NewDelegation(genAccs[0].GetAddress().String(), sdk.ValAddress(val.Address).String(), sdkmath.LegacyOneDec()))
	}
	var stk stakingtypes.GenesisState
	cdc.MustUnmarshalJSON(gen[stakingtypes.ModuleName], &stk)
	genBals = append(genBals, banktypes.Balance{
		Address: authtypes.NewModuleAddress(stakingtypes.BondedPoolName).String(),
		Coins:   sdk.Coins{sdk.NewCoin(stk.Params.BondDenom, bondAmt)},
	})
	gen[stakingtypes.ModuleName] = cdc.MustMarshalJSON(stakingtypes.NewGenesisState(stk.Params, svals, dels))
	gen[banktypes.ModuleName] = cdc.MustMarshalJSON(banktypes.NewGenesisState(banktypes.DefaultGenesisState().Params, genBals, sdk.NewCoins(), []banktypes.Metadata{}, []banktypes.SendEnabled{}))

	var mint minttypes.GenesisState
	cdc.MustUnmarshalJSON(gen[minttypes.ModuleName], &mint)
	mint.Minter.Inflation = sdkmath.LegacyZeroDec()
	mint.Params.InflationMin = sdkmath.LegacyZeroDec()
	mint.Params.InflationMax = sdkmath.LegacyZeroDec()
	mint.Params.InflationRateChange = sdkmath.LegacyZeroDec()
	gen[minttypes.ModuleName] = cdc.MustMarshalJSON(&mint)

	var gov govv1.GenesisState
	cdc.MustUnmarshalJSON(gen[govtypes.ModuleName], &gov)
	vp := c.Voting
	evp := vp / 2
	gov.Params.VotingPeriod = &vp
	gov.Params.ExpeditedVotingPeriod = &evp
	gov.Params.MinDeposit = sdk.NewCoins(sdk.NewInt64Coin(sdk.DefaultBondDenom, 1))
	gov.Params.ExpeditedMinDeposit = sdk.NewCoins(sdk.NewInt64Coin(sdk.DefaultBondDenom, 2))
	gen[govtypes.ModuleName] = cdc.MustMarshalJSON(&gov)

	// 08-wasm: the byte codes are part of genesis (InitGenesis stores them through the VM).
	wg := wasmtypes.GenesisState{}
	for _, code := range codes {
		wg.Contracts = append(wg.Contracts, wasmtypes.Contract{CodeBytes: code})
	}
	gen[wasmtypes.ModuleName] = cdc.MustMarshalJSON(&wg)

	stateBytes, err := json.Marshal(gen)
	sim.Must(err, "genesis json")
	cp := *simtestutil.DefaultConsensusParams
	_, err = c.App.InitChain(&abci.RequestInitChain{
		ChainId: chainID, Validators: []abci.ValidatorUpdate{}, AppStateBytes: stateBytes,
		ConsensusParams: &cp, Time: sim.GenesisTime, InitialHeight: 1,
	})
	sim.Must(err, "InitChain")
	c.LastTime = sim.GenesisTime
	c.Block(5*time.Second, nil, nil)
	return c
}

// Block proposes, executes and commits one block dt after the previous one holding one
// transaction (signer + msgs) or none (signer == nil).
func (c *WChain) Block(dt time.Duration, signer *WAccount, msgs []sdk.Msg) *WTxResult {
	if dt <= 0 {
		dt = time.Nanosecond
	}
	t := c.LastTime.Add(dt).UTC()
	h := c.Height + 1
	var raw [][]byte
	if signer != nil {
		txCfg := c.App.GetTxConfig()
		stx, err := simtestutil.GenSignedMockTx(rand.New(rand.NewSource(7)), txCfg, msgs,
			sdk.Coins{sdk.NewInt64Coin(sdk.DefaultBondDenom, 0)}, 50_000_000, c.ID,
			[]uint64{signer.Num}, []uint64{signer.Seq}, signer.Priv)
		sim.Must(err, "sign tx")
		bz, err := txCfg.TxEncoder()(stx)
		sim.Must(err, "encode tx")
		raw = append(raw, bz)
	}
	res, err := c.App.FinalizeBlock(&abci.RequestFinalizeBlock{
		Height: h, Time: t, Txs: raw, NextValidatorsHash: c.Vals.Hash(), ProposerAddress: c.Vals.Proposer.Address,
	})
	sim.Must(err, "FinalizeBlock")
	_, err = c.App.Commit()
	sim.Must(err, "Commit")
	c.Height, c.LastTime = h, t
	if c.Stats != nil {
		c.Stats.Blocks++
		c.Stats.Txs += len(raw)
	}
	// re-read sequences from committed state (a tx refused in the ante handler keeps its sequence)
	ctx := c.QueryCtx()
	for _, a := range c.Accounts {
		if acc := c.App.AccountKeeper.GetAccount(ctx, a.Addr); acc != nil {
			a.Seq, a.Num = acc.GetSequence(), acc.GetAccountNumber()
		}
	}
	if signer == nil {
		return nil
	}
	if len(res.TxResults) != 1 {
		sim.Failf("tx result count %d != 1", len(res.TxResults))
	}
	r := res.TxResults[0]
	out := &WTxResult{Code: r.Code, Space: r.Codespace, Log: r.Log, Events: r.Events}
	if out.OK() && c.Stats != nil {
		c.Stats.TxsOK++
	}
	return out
}

// QueryCtx returns a read-only context over the latest committed state.
func (c *WChain) QueryCtx() sdk.Context {
	ms := c.App.CommitMultiStore().CacheMultiStore()
	return sdk.NewContext(ms, cmtproto.Header{ChainID: c.ID, Height: c.Height, Time: c.LastTime}, false, log.NewNopLogger())
}

// Dump returns every key/value of a module store in the latest committed state (ground truth).
func (c *WChain) Dump(storeKey string) map[string][]byte {
	out := map[string][]byte{}
	st := c.App.CommitMultiStore().GetKVStore(c.App.GetKey(storeKey))
	it := st.Iterator(nil, nil)
	defer it.Close()
	for ; it.Valid(); it.Next() {
		out[string(it.Key())] = append([]byte{}, it.Value()...)
	}
	return out
}

// AppHash is the app hash after the last committed block.
func (c *WChain) AppHash() []byte { return c.App.LastCommitID().Hash }

// Authority is the address privileged messages must be signed by: the gov module account.
func Authority() string { return authtypes.NewModuleAddress(govtypes.ModuleName).String() }

// GovOutcome tells how far a governance-gated message got.
type GovOutcome struct {
	Submitted bool   // the submit-proposal transaction was accepted
	Passed    bool   // the proposal passed AND its message executed without error
	Reason    string // refusal / failure text
}

// GovExec runs one privileged message through the REAL gov module in consecutive blocks:
// submit (account 0), vote yes (account 0 holds all voting power), one block after the voting
// period, in whose EndBlocker gov executes the message on a branch of state and writes the
// branch only when the handler returned no error (and did not panic).
func (c *WChain) GovExec(title string, msg sdk.Msg) GovOutcome {
	gov := c.Accounts[accGov]
	dep := sdk.NewCoins(sdk.NewCoin(sdk.DefaultBondDenom, sdkmath.NewInt(1000)))
	m, err := govv1.NewMsgSubmitProposal([]sdk.Msg{msg}, dep, gov.Addr.String(), "", title, title, false)
	sim.Must(err, "MsgSubmitProposal")
	r := c.Block(5*time.Second, gov, []sdk.Msg{m})
	if !r.OK() {
		return GovOutcome{Reason: "submit: " + r.Log}
	}
	var id uint64
	found := false
	for _, ev := range r.Events {
		if ev.Type != "submit_proposal" {
			continue
		}
		for _, a := range ev.Attributes {
			if a.Key == "proposal_id" {
				if v, err := strconv.ParseUint(a.Value, 10, 64); err == nil {
					id, found = v, true
				}
			}
		}
	}
	if !found {
		sim.Failf("no proposal id in submit events")
	}
	r = c.Block(5*time.Second, gov, []sdk.Msg{govv1.NewMsgVote(gov.Addr, id, govv1.OptionYes, "")})
	if !r.OK() {
		sim.Failf("vote refused: %s", r.Log)
	}
	c.Block(c.Voting+time.Second, nil, nil)
	p, err := c.App.GovKeeper.Proposals.Get(c.QueryCtx(), id)
	sim.Must(err, "proposal lookup")
	switch p.Status {
	case govv1.StatusPassed:
		return GovOutcome{Submitted: true, Passed: true}
	case govv1.StatusFailed:
		return GovOutcome{Submitted: true, Reason: p.FailedReason}
	}
	sim.Failf("proposal %d ended in status %s", id, p.Status)
	return GovOutcome{}
}

func sortedKeys(m map[string][]byte) []string {
	ks := make([]string, 0, len(m))
	for k := range m {
		ks = append(ks, k)
	}
	sort.Strings(ks)
	return ks
}
