package main

import (
	"bytes"
	"fmt"
	"sort"
	"strings"

	wasmtypes "github.com/cosmos/ibc-go/modules/light-clients/08-wasm/v11/types"
	clienttypes "github.com/cosmos/ibc-go/v11/modules/core/02-client/types"
	ibcexported "github.com/cosmos/ibc-go/v11/modules/core/exported"

	"verif/ibcsim/sim"
)

const propC29 = "C29"

// sigClosedIterator is the known-finding signature of: ClientRecoveryStore.closedIterator() builds
// its "always closed" iterator as subjectStore.Iterator({0x00},{0x01}) followed by Close(); Close
// does not invalidate an SDK store iterator, so the contract can still read the subject's entries
// whose keys start with byte 0x00 out of a range that must read as empty.
const sigClosedIterator = "inconsistent-range:closed-iterator-yields-subject-00-01"

// execRecover runs the pending script inside a real client recovery and judges the outcome.
//
// The recovery goes through the real governance path: MsgSubmitProposal{MsgRecoverClient},
// a yes vote of the only delegator, and the block after the voting period, in whose EndBlocker
// x/gov executes core's RecoverClient message handler -> 02-client keeper RecoverClient -> the
// 08-wasm light client module's RecoverClient -> keeper.WasmSudo -> mock VM -> scripted contract.
func (p *wasmProf) execRecover(w *sim.World, op sim.Op) {
	script := p.pending
	p.pending = nil
	if op.P < 0 || op.P >= len(p.ids) || op.N < 0 || int(op.N) >= len(p.ids) || op.X < 0 || op.X >= numModes {
		w.Noop()
		return
	}
	p.recDone++
	subj, subst := p.ids[op.P], p.ids[op.N]
	before := p.c.Dump(ibcexported.StoreKey)
	beforeWasm := p.c.Dump(wasmtypes.StoreKey)
	run := &scriptRun{script: script, mode: int(op.X), failPos: int(op.M), before: before,
		subjPfx: clientPrefix(subj), substPfx: clientPrefix(subst), sigs: map[string]bool{}, probes: map[string]int{}}
	if run.failPos < 0 {
		run.failPos = 0
	}
	p.run = run
	msg := clienttypes.NewMsgRecoverClient(Authority(), subj, subst)
	out := p.c.GovExec(fmt.Sprintf("recover %s with %s", subj, subst), msg)
	p.run = nil
	after := p.c.Dump(ibcexported.StoreKey)
	afterWasm := p.c.Dump(wasmtypes.StoreKey)

	if run.harnessErr != "" {
		sim.Failf("%s", run.harnessErr)
	}
	if run.calls > 1 {
		sim.Failf("the contract ran %d times for one recovery", run.calls)
	}
	if out.Passed && run.calls == 0 {
		sim.Failf("recovery of %s passed without calling the contract", subj)
	}
	w.Tracef("recover %s <- %s mode=%d failpos=%d script=%d: submitted=%v passed=%v calls=%d executed=%d panicked=%v reason=%q",
		subj, subst, run.mode, run.failPos, len(script), out.Submitted, out.Passed, run.calls, run.executed, run.panicked, out.Reason)
	for i, s := range script {
		w.Tracef("   script[%d] %s", i, s)
	}

	// ---- oracles -------------------------------------------------------------------------------
	ctxt := fmt.Sprintf("recovery of %s with substitute %s (script of %d ops, %d executed, passed=%v)", subj, subst, len(script), run.executed, out.Passed)
	changed := diffKeys(before, after)
	var subjChanged, substChanged, otherChanged []string
	for _, k := range changed {
		switch {
		case strings.HasPrefix(k, run.subjPfx) && subj != subst:
			subjChanged = append(subjChanged, k)
		case strings.HasPrefix(k, run.substPfx):
			substChanged = append(substChanged, k)
		default:
			otherChanged = append(otherChanged, k)
		}
	}
	// (1) the substitute's store is byte-identical
	if len(substChanged) > 0 {
		k := substChanged[0]
		w.Violate(propC29, "substitute_modified", "", fmt.Sprintf("%s: the substitute's store changed: key %q was %q and is now %q (%d keys differ)", ctxt, k, before[k], after[k], len(substChanged)))
		return
	}
	// (2) nothing outside the subject's store is written: other clients, other ibc keys, 08-wasm store
	if len(otherChanged) > 0 {
		k := otherChanged[0]
		w.Violate(propC29, "bystander_modified", "", fmt.Sprintf("%s: ibc store key %q outside the subject's client store changed from %q to %q", ctxt, k, before[k], after[k]))
		return
	}
	if d := diffKeys(beforeWasm, afterWasm); len(d) > 0 {
		w.Violate(propC29, "bystander_modified", "", fmt.Sprintf("%s: 08-wasm module store key %q changed", ctxt, d[0]))
		return
	}
	// (3) reads are routed by prefix; inconsistent prefixes read as empty
	if len(run.mismatches) > 0 {
		w.Violate(propC29, "read_misrouted", "", fmt.Sprintf("%s: %s (%d reads disagree)", ctxt, run.mismatches[0], len(run.mismatches)))
		return
	}
	if len(run.closedIterLeaks) > 0 {
		w.Stats.ProbeN("inconsistent_range_yielded_subject_00_01", len(run.closedIterLeaks))
		if w.Violate(propC29, "inconsistent_range_not_empty", sigClosedIterator, fmt.Sprintf("%s: %s — a range whose bounds do not carry one consistent prefix must read as empty, but the iterator handed out yields the subject store's entries in [0x00,0x01) (%d such reads)", ctxt, run.closedIterLeaks[0], len(run.closedIterLeaks))) {
			return
		}
	}
	// (4) the subject's store holds exactly the contract's subject writes and deletes, or, when
	// the recovery did not go through, nothing of them
	if out.Passed {
		want := map[string][]byte{}
		for k, v := range before {
			if !strings.HasPrefix(k, run.subjPfx) {
				want[k] = v
			}
		}
		for k, v := range run.m.subj {
			want[run.subjPfx+k] = v
		}
		if d := diffKeys(want, after); len(d) > 0 {
			k := d[0]
			w.Violate(propC29, "subject_mismatch", "", fmt.Sprintf("%s: subject store key %q is %q after recovery, the contract's writes and deletes leave %q (%d keys differ)", ctxt, k, after[k], want[k], len(d)))
			return
		}
		if (run.mode != modeOK || run.panicked) && len(subjChanged) > 0 {
			w.Violate(propC29, "persist_after_failure", "", fmt.Sprintf("%s: the contract failed (mode %d, panicked=%v) but %d subject keys changed, e.g. %q", ctxt, run.mode, run.panicked, len(subjChanged), subjChanged[0]))
			return
		}
	} else if len(subjChanged) > 0 {
		k := subjChanged[0]
		w.Violate(propC29, "persist_after_failure", "", fmt.Sprintf("%s: the recovery failed (%s) but subject store key %q changed from %q to %q", ctxt, out.Reason, k, before[k], after[k]))
		return
	}

	// ---- reach --------------------------------------------------------------------------------
	for _, k := range sortedProbeKeys(run.probes) {
		w.Stats.ProbeN(k, run.probes[k])
	}
	outcome := "fail"
	switch {
	case !out.Submitted:
		outcome = "refused"
		w.Stats.Probe("proposal_refused_at_submit")
	case out.Passed:
		outcome = "pass"
		w.Stats.Probe("recover_passed")
		if len(subjChanged) > 0 {
			w.Stats.Probe("recover_passed_subject_changed")
		}
		if run.attackSubs > 0 {
			w.Stats.Probe("recover_passed_despite_substitute_writes")
		}
	case run.calls == 0:
		outcome = "rejected"
		w.Stats.Probe("rejected_before_contract")
	default:
		switch {
		case run.panicked && run.mode == modePanic && run.executed >= min(run.failPos, len(script)):
			w.Stats.Fault("contract.panic")
		case run.panicked:
			w.Stats.Fault("store.panic")
			w.Tracef("   store panic: %s", run.panicVal)
		case run.mode == modeContractErr:
			w.Stats.Fault("contract.error")
		case run.mode == modeVMErr:
			w.Stats.Fault("vm.error")
		case run.mode == modeBadResponse:
			w.Stats.Fault("contract.bad_response")
		default:
			w.Stats.Fault("contract.invalid_client_state")
		}
		if run.effSets > 0 {
			w.Stats.Probe("failed_after_subject_writes")
		}
	}
	if p.recDone > 1 {
		w.Stats.Probe("recovery_on_recovered_state")
	}
	sigs := make([]string, 0, len(run.sigs))
	for s := range run.sigs {
		sigs = append(sigs, s)
	}
	sort.Strings(sigs)
	for _, s := range sigs {
		w.Stats.NonTrivial("C29/" + outcome + "/" + s)
	}
	w.MixSig(fmt.Sprintf("%s/%d/%d/%s", outcome, run.mode, run.executed, strings.Join(sigs, ",")))
	if out.Passed && len(subjChanged) > 0 {
		w.Stats.Sample(map[string]any{"subject": subj, "substitute": subst, "script_ops": len(script), "subject_keys_changed": len(subjChanged), "substitute_write_attempts": run.attackSubs})
	}
}

// diffKeys lists (sorted) the keys whose presence or value differs between two dumps.
func diffKeys(a, b map[string][]byte) []string {
	var out []string
	for k, v := range a {
		w, ok := b[k]
		if !ok || !bytes.Equal(v, w) {
			out = append(out, k)
		}
	}
	for k := range b {
		if _, ok := a[k]; !ok {
			out = append(out, k)
		}
	}
	sort.Strings(out)
	return out
}

func sortedProbeKeys(m map[string]int) []string {
	ks := make([]string, 0, len(m))
	for k := range m {
		ks = append(ks, k)
	}
	sort.Strings(ks)
	return ks
}
