package main

import (
	"bytes"
	"encoding/hex"
	"fmt"
	"reflect"
	"sort"
	"unsafe"

	wasmvm "github.com/CosmWasm/wasmvm/v3"
	wasmvmtypes "github.com/CosmWasm/wasmvm/v3/types"

	storetypes "github.com/cosmos/cosmos-sdk/store/v2/types"

	"verif/ibcsim/sim"
)

// ---- scripted store operations ------------------------------------------------------------

// sop is one store operation the scripted contract performs while the client is recovered.
//
//	get  Key            has  Key            del  Key
//	set  Key Aux=value  cp   Key=src Aux=dst (read src, write the value read to dst when non-nil)
//	it / rit  Key=start Aux=end Limit=max entries drained before Close
//
// nil and empty keys are different things to a KVStore, so nil-ness is carried explicitly.
type sop struct {
	Kind  string
	Key   []byte
	Aux   []byte
	Limit int
}

func (o sop) String() string {
	q := func(b []byte) string {
		if b == nil {
			return "nil"
		}
		return fmt.Sprintf("%q", b)
	}
	switch o.Kind {
	case "set":
		return fmt.Sprintf("set(%s,%s)", q(o.Key), q(o.Aux))
	case "cp":
		return fmt.Sprintf("cp(%s->%s)", q(o.Key), q(o.Aux))
	case "it", "rit":
		return fmt.Sprintf("%s(%s,%s;%d)", o.Kind, q(o.Key), q(o.Aux), o.Limit)
	}
	return fmt.Sprintf("%s(%s)", o.Kind, q(o.Key))
}

const (
	flagKeyNil = 1
	flagAuxNil = 2
)

func encOp(kind string, tag int64, key, aux []byte, limit int) sim.Op {
	o := sim.Op{K: kind, T: tag, M: int64(limit)}
	if key == nil {
		o.N |= flagKeyNil
	} else {
		o.B = key
	}
	if aux == nil {
		o.N |= flagAuxNil
	} else {
		o.S = hex.EncodeToString(aux)
	}
	return o
}

func decOp(o sim.Op) (sop, bool) {
	s := sop{Kind: o.K, Limit: int(o.M)}
	if o.N&flagKeyNil == 0 {
		s.Key = append([]byte{}, o.B...) // empty and absent both mean the empty, non-nil key
	}
	if o.N&flagAuxNil == 0 {
		bz, err := hex.DecodeString(o.S)
		if err != nil {
			return s, false
		}
		s.Aux = append([]byte{}, bz...)
	}
	if s.Limit < 0 {
		s.Limit = 0
	}
	return s, true
}

// ---- reference model (written from the property statement) ---------------------------------

const (
	toNone = iota
	toSubject
	toSubstitute
)

var (
	pfxSubject    = []byte("subject/")
	pfxSubstitute = []byte("substitute/")
)

// route says which client store a key addresses and what the key is inside that store.
func route(key []byte) (int, []byte) {
	if key != nil && bytes.HasPrefix(key, pfxSubject) {
		return toSubject, key[len(pfxSubject):]
	}
	if key != nil && bytes.HasPrefix(key, pfxSubstitute) {
		return toSubstitute, key[len(pfxSubstitute):]
	}
	return toNone, key
}

func routeName(r int) string {
	switch r {
	case toSubject:
		return "subject"
	case toSubstitute:
		return "substitute"
	}
	return "none"
}

type kv struct{ K, V []byte }

// model is a plain map model of the two client stores the contract can see.
type model struct {
	subj, subst map[string][]byte
}

func cloneMap(m map[string][]byte) map[string][]byte {
	out := make(map[string][]byte, len(m))
	for k, v := range m {
		out[k] = append([]byte{}, v...)
	}
	return out
}

// subStore extracts the entries below prefix from a full store dump (prefix stripped).
func subStore(dump map[string][]byte, prefix string) map[string][]byte {
	out := map[string][]byte{}
	for k, v := range dump {
		if len(k) >= len(prefix) && k[:len(prefix)] == prefix {
			out[k[len(prefix):]] = append([]byte{}, v...)
		}
	}
	return out
}

func (m *model) store(r int) map[string][]byte {
	switch r {
	case toSubject:
		return m.subj
	case toSubstitute:
		return m.subst
	}
	return nil
}

func (m *model) get(key []byte) ([]byte, bool) {
	r, rest := route(key)
	st := m.store(r)
	if st == nil {
		return nil, false
	}
	v, ok := st[string(rest)]
	return v, ok
}

// set reports whether the write is effective (it is only for subject keys).
func (m *model) set(key, val []byte) bool {
	r, rest := route(key)
	if r != toSubject {
		return false
	}
	m.subj[string(rest)] = append([]byte{}, val...)
	return true
}

func (m *model) del(key []byte) bool {
	r, rest := route(key)
	if r != toSubject {
		return false
	}
	_, had := m.subj[string(rest)]
	delete(m.subj, string(rest))
	return had
}

// rangeOf lists the entries of one map with start <= k < end in ascending order.
func rangeOf(st map[string][]byte, start, end []byte) []kv {
	var out []kv
	for k, v := range st {
		if bytes.Compare([]byte(k), start) >= 0 && bytes.Compare([]byte(k), end) < 0 {
			out = append(out, kv{[]byte(k), v})
		}
	}
	sort.Slice(out, func(i, j int) bool { return bytes.Compare(out[i].K, out[j].K) < 0 })
	return out
}

// iter is what an iteration must yield: both bounds must carry one and the same known prefix,
// otherwise the range reads as empty.
func (m *model) iter(start, end []byte, reverse bool) []kv {
	rs, s := route(start)
	re, e := route(end)
	if rs != re || rs == toNone {
		return nil
	}
	out := rangeOf(m.store(rs), s, e)
	if reverse {
		for i, j := 0, len(out)-1; i < j; i, j = i+1, j-1 {
			out[i], out[j] = out[j], out[i]
		}
	}
	return out
}

// ---- one contract run ------------------------------------------------------------------------

const (
	modeOK = iota
	modeContractErr
	modeVMErr
	modePanic
	modeBadResponse
	numModes
)

// scriptRun is the state shared between Exec("rec") and the sudo callback of the mock VM.
type scriptRun struct {
	script   []sop
	mode     int
	failPos  int
	before   map[string][]byte // ibc store dump before the recovery
	subjPfx  string
	substPfx string

	calls      int
	m          *model // model after the (last) contract run
	executed   int
	panicked   bool
	panicVal   string
	mismatches []string // reads that disagree with the model
	// closedIterLeaks are the disagreements of one recorded shape (sigClosedIterator)
	closedIterLeaks []string
	harnessErr      string
	sigs            map[string]bool // per-step case signatures (kind/class/result)
	probes          map[string]int
	effSets         int // effective subject writes/deletes performed by the last run
	attackSubs      int // writes/deletes aimed at existing substitute keys or substitute-prefixed keys
}

func (r *scriptRun) probe(s string)              { r.probes[s]++ }
func (r *scriptRun) sig(kind, class, res string) { r.sigs[kind+"/"+class+"/"+res] = true }

// keyClass names the shape of a key for coverage accounting only.
func keyClass(key []byte) string {
	if key == nil {
		return "nil"
	}
	r, rest := route(key)
	if r == toNone {
		if len(key) == 0 {
			return "empty"
		}
		return "none"
	}
	if len(rest) == 0 {
		return routeName(r) + "-only"
	}
	if r2, _ := route(rest); r2 != toNone {
		return routeName(r) + "+" + routeName(r2)
	}
	return routeName(r)
}

// parentOf digs the storetypes.KVStore out of the wasmvm store adapter the contract receives.
// Contracts have no Has; the recovery store implements it, so the harness calls it on the very
// object the adapter wraps (unexported field `parent` of internal/types.StoreAdapter).
func parentOf(st wasmvm.KVStore) (out storetypes.KVStore, err error) {
	defer func() {
		if r := recover(); r != nil {
			err = fmt.Errorf("%v", r)
		}
	}()
	v := reflect.ValueOf(st)
	if v.Kind() == reflect.Ptr {
		v = v.Elem()
	}
	if v.Kind() != reflect.Struct {
		return nil, fmt.Errorf("store adapter is a %s", v.Kind())
	}
	f := v.FieldByName("parent")
	if !f.IsValid() {
		return nil, fmt.Errorf("store adapter %T has no field parent", st)
	}
	if !f.CanAddr() {
		return nil, fmt.Errorf("field parent of %T is not addressable", st)
	}
	iface := reflect.NewAt(f.Type(), unsafe.Pointer(f.UnsafeAddr())).Elem().Interface()
	kvs, ok := iface.(storetypes.KVStore)
	if !ok {
		return nil, fmt.Errorf("field parent of %T is a %T", st, iface)
	}
	return kvs, nil
}

func sameBytes(a, b []byte) bool { return bytes.Equal(a, b) }

func fmtKVs(l []kv) string {
	s := "["
	for i, e := range l {
		if i > 0 {
			s += " "
		}
		s += fmt.Sprintf("%q=%q", e.K, e.V)
	}
	return s + "]"
}

// contract runs the script against the store handed to the contract and, step by step, against
// the model. A panic of the real store propagates (the model is then simply not advanced).
func (r *scriptRun) contract(st wasmvm.KVStore) {
	r.calls++
	r.m = &model{subj: subStore(r.before, r.subjPfx), subst: subStore(r.before, r.substPfx)}
	r.executed, r.effSets, r.attackSubs = 0, 0, 0
	written := map[string]bool{}
	var parent storetypes.KVStore
	for i, o := range r.script {
		if r.mode != modeOK && i >= r.failPos {
			break
		}
		cls := keyClass(o.Key)
		switch o.Kind {
		case "get":
			got := st.Get(o.Key)
			want, hit := r.m.get(o.Key)
			if !sameBytes(got, want) {
				r.mismatches = append(r.mismatches, fmt.Sprintf("step %d %s returned %q, the %s store holds %q", i, o, got, routeName(first(route(o.Key))), want))
			}
			res := "miss"
			if hit {
				res = "hit"
				r.probe("get_" + routeName(first(route(o.Key))) + "_hit")
				if written[string(o.Key)] {
					r.probe("get_after_write_hit")
				}
			} else if rt, _ := route(o.Key); rt == toNone && o.Key != nil {
				if _, a := r.m.subj[string(o.Key)]; a {
					r.probe("get_unprefixed_key_existing_in_subject")
					res = "shadow"
				} else if _, b := r.m.subst[string(o.Key)]; b {
					r.probe("get_unprefixed_key_existing_in_substitute")
					res = "shadow"
				}
			}
			r.sig("get", cls, res)
		case "has":
			if parent == nil {
				p, err := parentOf(st)
				if err != nil {
					r.harnessErr = "cannot reach the recovery store behind the adapter: " + err.Error()
					return
				}
				parent = p
			}
			got := parent.Has(o.Key)
			_, want := r.m.get(o.Key)
			if got != want {
				r.mismatches = append(r.mismatches, fmt.Sprintf("step %d %s returned %v, model says %v", i, o, got, want))
			}
			res := "false"
			if want {
				res = "true"
				r.probe("has_" + routeName(first(route(o.Key))) + "_true")
			} else if rt, _ := route(o.Key); rt == toNone && o.Key != nil {
				_, a := r.m.subj[string(o.Key)]
				_, b := r.m.subst[string(o.Key)]
				if a || b {
					r.probe("has_unprefixed_key_existing_in_a_store")
					res = "shadow"
				}
			}
			r.sig("has", cls, res)
		case "set":
			r.noteAttack(o.Key, "set")
			st.Set(o.Key, o.Aux)
			res := "ignored"
			if r.m.set(o.Key, o.Aux) {
				res = "applied"
				r.effSets++
				written[string(o.Key)] = true
				r.probe("set_subject_applied")
			}
			r.sig("set", cls, res)
		case "del":
			r.noteAttack(o.Key, "del")
			_, existed := r.m.get(o.Key)
			st.Delete(o.Key)
			res := "ignored"
			if rt, _ := route(o.Key); rt == toSubject {
				res = "absent"
				if r.m.del(o.Key) {
					res = "applied"
					r.effSets++
					r.probe("del_subject_applied")
				}
			} else if existed {
				res = "refused"
			}
			r.sig("del", cls, res)
		case "cp":
			got := st.Get(o.Key)
			want, hit := r.m.get(o.Key)
			if !sameBytes(got, want) {
				r.mismatches = append(r.mismatches, fmt.Sprintf("step %d %s read %q, the %s store holds %q", i, o, got, routeName(first(route(o.Key))), want))
			}
			res := "miss"
			if got != nil {
				r.noteAttack(o.Aux, "set")
				st.Set(o.Aux, got)
				res = "ignored"
				if hit && r.m.set(o.Aux, want) {
					res = "applied"
					r.effSets++
					written[string(o.Aux)] = true
					r.probe("cp_" + routeName(first(route(o.Key))) + "_to_subject_applied")
				}
			}
			r.sig("cp", cls+">"+keyClass(o.Aux), res)
		case "it", "rit":
			rev := o.Kind == "rit"
			var it wasmvmtypes.Iterator
			if rev {
				it = st.ReverseIterator(o.Key, o.Aux)
			} else {
				it = st.Iterator(o.Key, o.Aux)
			}
			var got []kv
			for len(got) < o.Limit && it.Valid() {
				got = append(got, kv{append([]byte{}, it.Key()...), append([]byte{}, it.Value()...)})
				it.Next()
			}
			it.Close()
			full := r.m.iter(o.Key, o.Aux, rev)
			want := full
			if len(want) > o.Limit {
				want = want[:o.Limit]
				r.probe("iter_truncated_by_limit")
			}
			ok := len(got) == len(want)
			for j := 0; ok && j < len(got); j++ {
				ok = sameBytes(got[j].K, want[j].K) && sameBytes(got[j].V, want[j].V)
			}
			rs, s := route(o.Key)
			re, e := route(o.Aux)
			if !ok {
				txt := fmt.Sprintf("step %d %s yielded %s, model says %s", i, o, fmtKVs(got), fmtKVs(want))
				// One precise shape of disagreement has its own class and signature (see
				// sigClosedIterator): a range that must read as empty because its bounds do not carry
				// one consistent prefix yields the first entries of the subject store's range [0x00, 0x01).
				leak := rangeOf(r.m.subj, []byte{0x00}, []byte{0x01})
				if len(leak) > o.Limit {
					leak = leak[:o.Limit]
				}
				// (a used-after-Close iterator may stop early: any non-empty prefix of that range counts)
				same := (rs != re || rs == toNone) && len(got) > 0 && len(got) <= len(leak)
				for j := 0; same && j < len(got); j++ {
					same = sameBytes(got[j].K, leak[j].K) && sameBytes(got[j].V, leak[j].V)
				}
				if same {
					r.closedIterLeaks = append(r.closedIterLeaks, txt)
				} else {
					r.mismatches = append(r.mismatches, txt)
				}
			}
			res := "empty"
			switch {
			case len(full) > 0:
				res = "nonempty"
				r.probe(o.Kind + "_" + routeName(rs) + "_nonempty")
			case o.Key == nil || o.Aux == nil:
				res = "nilbound"
				r.probe("iter_nil_bound")
			case rs != re:
				res = "mixed"
				// would a store that trusted only one of the two prefixes have answered?
				would := false
				for _, cand := range []int{rs, re} {
					if stc := r.m.store(cand); stc != nil && len(rangeOf(stc, s, e)) > 0 {
						would = true
					}
				}
				if would {
					res = "mixed-shadow"
					r.probe("iter_mixed_prefix_over_populated_range")
				} else {
					r.probe("iter_mixed_prefix")
				}
			case rs == toNone:
				res = "unprefixed"
				if len(rangeOf(r.m.subj, o.Key, o.Aux))+len(rangeOf(r.m.subst, o.Key, o.Aux)) > 0 {
					res = "unprefixed-shadow"
					r.probe("iter_unprefixed_over_populated_range")
				}
			}
			r.sig(o.Kind, keyClass(o.Key)+".."+keyClass(o.Aux), res)
		default:
			r.harnessErr = "unknown scripted op " + o.Kind
			return
		}
		r.executed = i + 1
	}
}

// noteAttack counts writes and deletes that would damage the substitute if they were honoured.
func (r *scriptRun) noteAttack(key []byte, kind string) {
	rt, rest := route(key)
	switch rt {
	case toSubstitute:
		r.attackSubs++
		if _, ok := r.m.subst[string(rest)]; ok {
			r.probe(kind + "_substitute_existing_key")
		} else {
			r.probe(kind + "_substitute_new_key")
		}
	case toNone:
		if key == nil {
			r.probe(kind + "_nil_key")
			return
		}
		_, a := r.m.subj[string(key)]
		_, b := r.m.subst[string(key)]
		if a || b {
			r.probe(kind + "_unprefixed_existing_key")
		} else {
			r.probe(kind + "_unprefixed_key")
		}
	}
}

func first(a int, _ []byte) int { return a }
