#!/bin/bash
# Run once after a fresh restore, offline. Builds the simulator from files on disk and runs the
# determinism self-test (same worlds in several processes at different GOMAXPROCS must produce
# identical event logs, interleaving signatures and app hashes).
set -u
VERIF="$(cd "$(dirname "$0")" && pwd)"
cd "$VERIF" || exit 2
./build.sh ibcsim || { echo "setup: build failed" >&2; exit 2; }
./build.sh wasmsim || { echo "setup: build of wasmsim failed" >&2; exit 2; }
SELFTEST_PROPS="${SELFTEST_PROPS:-C01 C30 C12 C20}" ./selftest-determinism quick || { echo "setup: determinism self-test failed" >&2; exit 2; }
echo "setup ok"
