package sim

import (
	"encoding/json"
	"fmt"
	"hash/fnv"
	"math/rand"
	"os"
	"time"
)

// Op is one resolved, replayable step of a world. The meaning of the fields depends on K and
// is defined by the profile; every field is a plain value so that a replay file is JSON.
type Op struct {
	K string `json:"k"`           // kind
	C int    `json:"c,omitempty"` // chain index
	P int    `json:"p,omitempty"` // route / object index
	T int64  `json:"t,omitempty"` // tag of the entity the op creates or refers to
	N int64  `json:"n,omitempty"`
	M int64  `json:"m,omitempty"`
	X int64  `json:"x,omitempty"`
	S string `json:"s,omitempty"`
	B []byte `json:"b,omitempty"`
}

func (o Op) String() string {
	bz, _ := json.Marshal(o)
	return string(bz)
}

// Violation is an oracle failure attributed to a property.
type Violation struct {
	Prop   string `json:"property"`
	Class  string `json:"class"`  // stable violation class (used to decide "same violation" when minimising)
	Sig    string `json:"sig"`    // known-finding signature (may be empty)
	Detail string `json:"detail"` // human-readable description
	OpIdx  int    `json:"op_index"`
}

// Profile is a scenario family: topology, operation generator, executor and oracles.
type Profile interface {
	Name() string
	// Setup builds chains and topology from w.Cfg.
	Setup(w *World)
	// Gen proposes the next operations from the current (real) state using w.Rng only.
	// Returning nil ends the main phase.
	Gen(w *World) []Op
	// Exec executes one operation against the real chains. It must be a deterministic function
	// of the current state and op, and must tolerate operations whose referents do not exist
	// (they become no-ops; call w.Noop()).
	Exec(w *World, op Op)
	// Drain proposes healing operations after the main phase (honest relaying); nil when done.
	Drain(w *World) []Op
	// Finish evaluates end-state oracles.
	Finish(w *World)
}

// WorldConfig is the (JSON) description of a world, fixed before it starts.
type WorldConfig struct {
	Profile string           `json:"profile"`
	Seed    int64            `json:"seed"`
	Steps   int              `json:"steps"`
	Armed   []string         `json:"armed"` // property ids whose oracles are armed
	Knobs   map[string]int64 `json:"knobs,omitempty"`
	Extra   json.RawMessage  `json:"extra,omitempty"`
}

func (c *WorldConfig) Knob(name string, def int64) int64 {
	if v, ok := c.Knobs[name]; ok {
		return v
	}
	return def
}

// World is one simulated universe. Strictly single-goroutine.
type World struct {
	Cfg     WorldConfig
	Rng     *rand.Rand
	Chains  []*Chain
	Stats   *Stats
	Log     []Op
	Viol    []Violation
	Known   *KnownFindings
	armed   map[string]bool
	curOp   int
	nextTag int64
	Replay  bool
	Trace   func(string)
	Data    any // profile-private state
	stopped bool
	quiet   bool
	sigH    uint64
}

func NewWorld(cfg WorldConfig, known *KnownFindings) *World {
	w := &World{Cfg: cfg, Rng: rand.New(rand.NewSource(cfg.Seed)), Stats: NewStats(), Known: known, armed: map[string]bool{}, nextTag: 1}
	for _, a := range cfg.Armed {
		w.armed[a] = true
	}
	return w
}

func (w *World) Armed(prop string) bool { return w.armed[prop] }

// AnyArmed reports whether at least one of the properties is armed.
func (w *World) AnyArmed(props ...string) bool {
	for _, p := range props {
		if w.armed[p] {
			return true
		}
	}
	return false
}

func (w *World) Tag() int64 { t := w.nextTag; w.nextTag++; return t }

// BumpTag makes sure future tags do not collide with tag t (used on replay).
func (w *World) BumpTag(t int64) {
	if t >= w.nextTag {
		w.nextTag = t + 1
	}
}

func (w *World) Noop() { w.Stats.OpsNoop++ }

// StopQuietly ends the world without a violation (used after a listed known finding whose
// consequences would otherwise be reported again and again). Drain and Finish are skipped.
func (w *World) StopQuietly(why string) {
	w.stopped = true
	w.quiet = true
	w.Stats.Probe("world_ended_after_known_finding")
	w.Tracef("world ends: %s", why)
}

func (w *World) Tracef(format string, a ...any) {
	if w.Trace != nil {
		w.Trace(fmt.Sprintf(format, a...))
	}
}

// Violate records an oracle failure for an armed property. If it matches a known finding it
// is only counted; the caller decides how to bring its model in line. It returns true when
// the violation is new (the world stops after the current op).
func (w *World) Violate(prop, class, sig, detail string) bool {
	if !w.armed[prop] {
		return false
	}
	if w.Known != nil && sig != "" && w.Known.Matches(prop, sig) {
		w.Stats.KnownHit[prop+" "+sig]++
		w.Tracef("known finding %s %s: %s", prop, sig, detail)
		return false
	}
	w.Viol = append(w.Viol, Violation{Prop: prop, Class: class, Sig: sig, Detail: detail, OpIdx: w.curOp})
	w.stopped = true
	w.Tracef("VIOLATION %s %s: %s", prop, class, detail)
	return true
}

// MixSig folds a string into the world's interleaving signature.
func (w *World) MixSig(s string) {
	h := fnv.New64a()
	var b [8]byte
	for i := 0; i < 8; i++ {
		b[i] = byte(w.sigH >> (8 * i))
	}
	h.Write(b[:])
	h.Write([]byte(s))
	w.sigH = h.Sum64()
}

func (w *World) Signature() string { return fmt.Sprintf("%016x", w.sigH) }

// Run executes a fresh world: main phase from the generator, drain, finish.
func (w *World) Run(p Profile) {
	p.Setup(w)
	w.Stats.Worlds++
	steps := 0
	for steps < w.Cfg.Steps && !w.stopped {
		ops := p.Gen(w)
		if ops == nil {
			break
		}
		for _, op := range ops {
			w.execLogged(p, op)
			steps++
			if w.stopped {
				break
			}
		}
	}
	for budget := 0; budget < 4*w.Cfg.Steps+200 && !w.stopped; {
		ops := p.Drain(w)
		if ops == nil {
			break
		}
		for _, op := range ops {
			w.execLogged(p, op)
			budget++
			if w.stopped {
				break
			}
		}
	}
	if !w.stopped {
		w.curOp = len(w.Log)
		p.Finish(w)
	}
	w.finishStats()
}

// RunOps replays a recorded operation list (no generator involved) and then runs Finish.
func (w *World) RunOps(p Profile, ops []Op) {
	w.Replay = true
	p.Setup(w)
	w.Stats.Worlds++
	for _, op := range ops {
		if w.stopped {
			break
		}
		if op.T != 0 {
			w.BumpTag(op.T)
		}
		w.execLogged(p, op)
	}
	if !w.stopped {
		w.curOp = len(w.Log)
		p.Finish(w)
	}
	w.finishStats()
}

func (w *World) execLogged(p Profile, op Op) {
	w.curOp = len(w.Log)
	w.Log = append(w.Log, op)
	w.Stats.Ops++
	w.Tracef("op %d %s", w.curOp, op)
	if Trace {
		bz, _ := json.Marshal(op)
		fmt.Fprintf(os.Stderr, "op %s\n", bz)
	}
	p.Exec(w, op)
}

func (w *World) finishStats() {
	for _, c := range w.Chains {
		w.Stats.SimTime += c.LastTime.Sub(GenesisTime)
	}
}

// ---- small PRNG helpers (every random choice of a profile goes through w.Rng) ---------------

func (w *World) Intn(n int) int {
	if n <= 0 {
		return 0
	}
	return w.Rng.Intn(n)
}

func (w *World) Chance(p float64) bool { return w.Rng.Float64() < p }

// Pick returns an index drawn with the given integer weights.
func (w *World) Pick(weights ...int) int {
	tot := 0
	for _, x := range weights {
		tot += x
	}
	if tot <= 0 {
		return 0
	}
	r := w.Rng.Intn(tot)
	for i, x := range weights {
		if r < x {
			return i
		}
		r -= x
	}
	return len(weights) - 1
}

// Dur draws a block interval: mostly the default, sometimes sub-second, sometimes long.
func (w *World) Dur() time.Duration {
	switch w.Pick(70, 10, 12, 6, 2) {
	case 0:
		return DefaultBlockInterval
	case 1:
		return time.Duration(1 + w.Rng.Int63n(int64(time.Second)))
	case 2:
		return time.Duration(w.Rng.Int63n(int64(90 * time.Second)))
	case 3:
		return time.Duration(w.Rng.Int63n(int64(3 * time.Hour)))
	default:
		return time.Duration(w.Rng.Int63n(int64(30 * time.Hour)))
	}
}

// Trace (IBCSIM_TRACE=1) prints every operation and transaction result to stderr: a development
// aid for reading replays; it draws nothing from the PRNG and changes no decision.
var Trace = os.Getenv("IBCSIM_TRACE") != ""
