// Package sim is the deterministic simulator around real ibc-go chains.
//
// A Chain wraps one real testing/simapp.SimApp. The simulator plays the role of
// CometBFT (it proposes every block, picks its transactions, height and time, signs the
// header with validator keys it owns, decides whether a Commit is lost), of the mempool,
// and of every user and relayer. Nothing in here reads a wall clock or an unseeded PRNG.
package sim

import (
	"bytes"
	"context"
	"crypto/sha256"
	"encoding/json"
	"fmt"
	"math/rand"
	"os"
	"sort"
	"time"

	dbm "github.com/cosmos/cosmos-db"

	"cosmossdk.io/log/v2"
	sdkmath "cosmossdk.io/math"

	"github.com/cosmos/cosmos-sdk/baseapp"
	codectypes "github.com/cosmos/cosmos-sdk/codec/types"
	cryptocodec "github.com/cosmos/cosmos-sdk/crypto/codec"
	"github.com/cosmos/cosmos-sdk/crypto/keys/secp256k1"
	cryptotypes "github.com/cosmos/cosmos-sdk/crypto/types"
	simtestutil "github.com/cosmos/cosmos-sdk/testutil/sims"
	sdk "github.com/cosmos/cosmos-sdk/types"
	authtypes "github.com/cosmos/cosmos-sdk/x/auth/types"
	banktypes "github.com/cosmos/cosmos-sdk/x/bank/types"
	govtypesv1 "github.com/cosmos/cosmos-sdk/x/gov/types/v1"
	minttypes "github.com/cosmos/cosmos-sdk/x/mint/types"
	stakingtypes "github.com/cosmos/cosmos-sdk/x/staking/types"

	abci "github.com/cometbft/cometbft/abci/types"
	"github.com/cometbft/cometbft/crypto/ed25519"
	"github.com/cometbft/cometbft/crypto/tmhash"
	cmtproto "github.com/cometbft/cometbft/proto/tendermint/types"
	cmtprotoversion "github.com/cometbft/cometbft/proto/tendermint/version"
	cmttypes "github.com/cometbft/cometbft/types"
	cmtversion "github.com/cometbft/cometbft/version"

	icagenesistypes "github.com/cosmos/ibc-go/v11/modules/apps/27-interchain-accounts/genesis/types"
	icatypes "github.com/cosmos/ibc-go/v11/modules/apps/27-interchain-accounts/types"
	clienttypes "github.com/cosmos/ibc-go/v11/modules/core/02-client/types"
	connectiontypes "github.com/cosmos/ibc-go/v11/modules/core/03-connection/types"
	commitmenttypes "github.com/cosmos/ibc-go/v11/modules/core/23-commitment/types"
	ibcexported "github.com/cosmos/ibc-go/v11/modules/core/exported"
	ibctypes "github.com/cosmos/ibc-go/v11/modules/core/types"
	"github.com/cosmos/ibc-go/v11/testing/simapp"
)

// HarnessError is raised (via panic) for trouble inside the harness itself. It is never a
// property violation; the runner maps it to exit status 2.
type HarnessError struct{ Msg string }

func (e HarnessError) Error() string { return "harness: " + e.Msg }

// Must panics with a HarnessError when err != nil.
func Must(err error, what string) {
	if err != nil {
		panic(HarnessError{fmt.Sprintf("%s: %v", what, err)})
	}
}

func Failf(format string, a ...any) { panic(HarnessError{fmt.Sprintf(format, a...)}) }

// Genesis time of every simulated chain (an arbitrary fixed instant).
var GenesisTime = time.Date(2030, 1, 1, 0, 0, 0, 0, time.UTC)

var unusedHash = tmhash.Sum([]byte{0x00})

// Account is a key pair the simulator owns on one chain.
type Account struct {
	Priv   cryptotypes.PrivKey
	Addr   sdk.AccAddress
	Num    uint64
	Seq    uint64 // next sequence to sign with (re-synchronised from state after every block)
	inPool bool   // has a tx waiting in the mempool
	Name   string
}

func (a *Account) String() string { return a.Addr.String() }

// InPool reports whether the account has a transaction waiting in the mempool.
func (a *Account) InPool() bool { return a.inPool }

// HeaderRec is ground truth about a committed block: what the chain really produced.
type HeaderRec struct {
	Header   cmttypes.Header
	Vals     *cmttypes.ValidatorSet // validator set that signs this block
	NextVals *cmttypes.ValidatorSet
	AppHash  []byte // app hash AFTER executing this block (appears in header h+1)
}

// TxSpec is a transaction waiting in a chain's mempool.
type TxSpec struct {
	Msgs   []sdk.Msg
	Signer *Account
	Gas    uint64
	Label  string // free text for logs/samples
	Tag    int64  // op tag that produced it (for attribution)
	// Grantors are accounts that authorised the signer for this transaction (authz); they
	// count as having consented to debits.
	Grantors []string
	// filled when built
	Bytes []byte
	Hash  string
}

// SignerIdx is the index of the signing account among the chain's accounts (-1 if foreign).
func (t *TxSpec) SignerIdx(c *Chain) int {
	for i, a := range c.Accounts {
		if a == t.Signer {
			return i
		}
	}
	return -1
}

// TxResult is the outcome of one delivered transaction.
type TxResult struct {
	Spec    *TxSpec
	Height  int64
	Code    uint32
	Space   string
	Log     string
	GasUsed int64
	Events  []abci.Event
	Data    []byte
}

func (r *TxResult) OK() bool { return r != nil && r.Code == 0 }

// ChainConfig carries the per-run knobs of one chain.
type ChainConfig struct {
	ChainID                 string
	NumValidators           int
	NumAccounts             int
	ExtraDenoms             []string // additional native denominations every user account holds
	MaxExpectedTimePerBlock uint64   // 03-connection param (ns); 0 = default
	AllowedClients          []string // 02-client param; nil = default
	GovVotingPeriod         time.Duration
	BlockMaxGas             int64
	Clock                   *Clock   `json:"-"` // shared setup clock (optional)
	ICAAllow                []string // interchain-accounts host allow list (nil = default "*")
}

// Chain is one simulated chain running the real application.
type Chain struct {
	Cfg      ChainConfig
	ID       string
	Idx      int
	App      *simapp.SimApp
	DB       *dbm.MemDB
	Vals     *cmttypes.ValidatorSet
	NextVals *cmttypes.ValidatorSet
	Signers  map[string]cmttypes.PrivValidator
	ValKeys  []ed25519.PrivKey

	Height   int64     // last committed height
	LastTime time.Time // time of the last committed block
	Headers  map[int64]*HeaderRec

	Accounts []*Account
	Mempool  []*TxSpec

	Results    []*TxResult // every delivered tx, in order
	lastAppHsh []byte

	// OnRebuild is called after the SimApp object has been (re)created so that the world can
	// (re)install mock-application scripts and taps.
	OnRebuild func(c *Chain)

	Stats *Stats
	memoR *rand.Rand

	// MinVersion is the lowest state version the current application object holds (it is > 1
	// after a genesis export/import restart); Past keeps the earlier incarnations for
	// ground-truth reads of old versions.
	MinVersion int64
	Past       []Incarnation
	// InitAppHash is what the last InitChain returned (header app hash of the first block).
	InitAppHash []byte
}

// Incarnation is an application object the chain ran before a genesis restart.
type Incarnation struct {
	App      *simapp.SimApp
	From, To int64
}

const (
	// AccGov is the genesis delegator: holds all voting power.
	AccGov = 0
)

func detSecp(label string) cryptotypes.PrivKey {
	return secp256k1.GenPrivKeyFromSecret([]byte("verif-ibcsim/" + label))
}

// NewChain builds a chain from scratch: deterministic keys, genesis, InitChain and block 1.
func NewChain(idx int, cfg ChainConfig, stats *Stats) *Chain {
	if cfg.NumValidators == 0 {
		cfg.NumValidators = 4
	}
	if cfg.NumAccounts == 0 {
		cfg.NumAccounts = 16
	}
	c := &Chain{Cfg: cfg, ID: cfg.ChainID, Idx: idx, Headers: map[int64]*HeaderRec{}, Stats: stats,
		memoR: rand.New(rand.NewSource(1))}

	// validators
	var validators []*cmttypes.Validator
	c.Signers = map[string]cmttypes.PrivValidator{}
	for i := 0; i < cfg.NumValidators; i++ {
		sk := ed25519.GenPrivKeyFromSecret([]byte(fmt.Sprintf("verif-ibcsim/val/%s/%d", cfg.ChainID, i)))
		pv := cmttypes.NewMockPVWithParams(sk, false, false)
		pk, err := pv.GetPubKey()
		Must(err, "val pubkey")
		validators = append(validators, cmttypes.NewValidator(pk, 1))
		c.Signers[pk.Address().String()] = pv
		c.ValKeys = append(c.ValKeys, sk)
	}
	valSet := cmttypes.NewValidatorSet(validators)
	c.Vals, c.NextVals = valSet, valSet

	// accounts
	var genAccs []authtypes.GenesisAccount
	var genBals []banktypes.Balance
	amount, _ := sdkmath.NewIntFromString("10000000000000000000")
	for i := 0; i < cfg.NumAccounts; i++ {
		priv := detSecp(fmt.Sprintf("acc/%s/%d", cfg.ChainID, i))
		acc := authtypes.NewBaseAccount(priv.PubKey().Address().Bytes(), priv.PubKey(), uint64(i), 0)
		coins := sdk.NewCoins(sdk.NewCoin(sdk.DefaultBondDenom, amount), sdk.NewCoin("ufoo", amount))
		for _, d := range cfg.ExtraDenoms {
			coins = coins.Add(sdk.NewCoin(d, amount))
		}
		genAccs = append(genAccs, acc)
		genBals = append(genBals, banktypes.Balance{Address: acc.GetAddress().String(), Coins: coins})
		c.Accounts = append(c.Accounts, &Account{Priv: priv, Addr: acc.GetAddress(), Num: uint64(i), Name: fmt.Sprintf("%s/acc%d", cfg.ChainID, i)})
	}

	c.DB = dbm.NewMemDB()
	c.App = simapp.NewSimApp(log.NewNopLogger(), c.DB, nil, true, simtestutil.EmptyAppOptions{})
	baseapp.SetChainID(cfg.ChainID)(c.App.GetBaseApp())
	gen := c.App.DefaultGenesis()
	cdc := c.App.AppCodec()

	gen[authtypes.ModuleName] = cdc.MustMarshalJSON(authtypes.NewGenesisState(authtypes.DefaultParams(), genAccs))

	// staking: all validators bonded, delegated by account 0
	bondAmt := sdk.TokensFromConsensusPower(1, sdk.DefaultPowerReduction)
	var svals []stakingtypes.Validator
	var dels []stakingtypes.Delegation
	for _, val := range valSet.Validators {
		pk, err := cryptocodec.FromCmtPubKeyInterface(val.PubKey)
		Must(err, "cmt pubkey")
		pkAny, err := codectypes.NewAnyWithValue(pk)
		Must(err, "any")
		svals = append(svals, stakingtypes.Validator{
			OperatorAddress: sdk.ValAddress(val.Address).String(), ConsensusPubkey: pkAny,
			Status: stakingtypes.Bonded, Tokens: bondAmt, DelegatorShares: sdkmath.LegacyOneDec(),
			UnbondingTime:     time.Unix(0, 0).UTC(),
			Commission:        stakingtypes.NewCommission(sdkmath.LegacyZeroDec(), sdkmath.LegacyZeroDec(), sdkmath.LegacyZeroDec()),
			MinSelfDelegation: sdkmath.ZeroInt(),
		})
		dels = append(dels, stakingtypes.NewDelegation(genAccs[0].GetAddress().String(), sdk.ValAddress(val.Address).String(), sdkmath.LegacyOneDec()))
	}
	var stk stakingtypes.GenesisState
	cdc.MustUnmarshalJSON(gen[stakingtypes.ModuleName], &stk)
	genBals = append(genBals, banktypes.Balance{
		Address: authtypes.NewModuleAddress(stakingtypes.BondedPoolName).String(),
		Coins:   sdk.Coins{sdk.NewCoin(stk.Params.BondDenom, bondAmt.Mul(sdkmath.NewInt(int64(len(valSet.Validators)))))},
	})
	gen[stakingtypes.ModuleName] = cdc.MustMarshalJSON(stakingtypes.NewGenesisState(stk.Params, svals, dels))
	gen[banktypes.ModuleName] = cdc.MustMarshalJSON(banktypes.NewGenesisState(banktypes.DefaultGenesisState().Params, genBals, sdk.NewCoins(), []banktypes.Metadata{}, []banktypes.SendEnabled{}))

	// mint: no inflation, so that native supplies are constant and empty blocks are silent
	var mint minttypes.GenesisState
	cdc.MustUnmarshalJSON(gen[minttypes.ModuleName], &mint)
	mint.Minter.Inflation = sdkmath.LegacyZeroDec()
	mint.Params.InflationMin = sdkmath.LegacyZeroDec()
	mint.Params.InflationMax = sdkmath.LegacyZeroDec()
	mint.Params.InflationRateChange = sdkmath.LegacyZeroDec()
	gen[minttypes.ModuleName] = cdc.MustMarshalJSON(&mint)

	// gov: short voting period (knob)
	var gov govtypesv1.GenesisState
	cdc.MustUnmarshalJSON(gen["gov"], &gov)
	vp := cfg.GovVotingPeriod
	if vp == 0 {
		vp = 2 * time.Hour
	}
	gov.Params.VotingPeriod = &vp
	gov.Params.ExpeditedVotingPeriod = ptrDur(vp / 2)
	gov.Params.MinDeposit = sdk.NewCoins(sdk.NewInt64Coin(sdk.DefaultBondDenom, 1))
	gov.Params.ExpeditedMinDeposit = sdk.NewCoins(sdk.NewInt64Coin(sdk.DefaultBondDenom, 2))
	gen["gov"] = cdc.MustMarshalJSON(&gov)

	// ibc core params
	if cfg.MaxExpectedTimePerBlock != 0 || cfg.AllowedClients != nil {
		var ibcGen ibctypes.GenesisState
		cdc.MustUnmarshalJSON(gen[ibcexported.ModuleName], &ibcGen)
		if cfg.MaxExpectedTimePerBlock != 0 {
			ibcGen.ConnectionGenesis.Params = connectiontypes.NewParams(cfg.MaxExpectedTimePerBlock)
		}
		if cfg.AllowedClients != nil {
			ibcGen.ClientGenesis.Params = clienttypes.NewParams(cfg.AllowedClients...)
		}
		gen[ibcexported.ModuleName] = cdc.MustMarshalJSON(&ibcGen)
	}

	// interchain-accounts host allow list (knob)
	if cfg.ICAAllow != nil {
		var ica icagenesistypes.GenesisState
		cdc.MustUnmarshalJSON(gen[icatypes.ModuleName], &ica)
		ica.HostGenesisState.Params.AllowMessages = cfg.ICAAllow
		gen[icatypes.ModuleName] = cdc.MustMarshalJSON(&ica)
	}

	stateBytes, err := json.Marshal(gen)
	Must(err, "genesis json")
	cp := *simtestutil.DefaultConsensusParams
	if cfg.BlockMaxGas != 0 {
		cp.Block = &cmtproto.BlockParams{MaxBytes: 2000000, MaxGas: cfg.BlockMaxGas}
	}
	_, err = c.App.InitChain(&abci.RequestInitChain{
		ChainId: cfg.ChainID, Validators: []abci.ValidatorUpdate{}, AppStateBytes: stateBytes,
		ConsensusParams: &cp, Time: GenesisTime, InitialHeight: 1,
	})
	Must(err, "InitChain")
	c.LastTime = GenesisTime
	c.Block(GenesisTime.Add(5*time.Second), nil)
	return c
}

func ptrDur(d time.Duration) *time.Duration { return &d }

// Revision returns the revision number encoded in the chain id.
func (c *Chain) Revision() uint64 { return clienttypes.ParseChainID(c.ID) }

// IBCHeight converts a block height into an IBC height of this chain.
func (c *Chain) IBCHeight(h int64) clienttypes.Height {
	return clienttypes.NewHeight(c.Revision(), uint64(h))
}

// Block proposes, executes and commits one block with the given transactions at time t.
// t is clamped to be strictly after the previous block's time (BFT time is monotone).
func (c *Chain) Block(t time.Time, txs []*TxSpec) []*TxResult {
	if !t.After(c.LastTime) {
		t = c.LastTime.Add(time.Nanosecond)
	}
	h := c.Height + 1
	var raw [][]byte
	for _, tx := range txs {
		if tx.Bytes == nil {
			c.buildTx(tx)
		}
		raw = append(raw, tx.Bytes)
	}
	hdr := cmttypes.Header{
		Version:            cmtprotoversion.Consensus{Block: cmtversion.BlockProtocol, App: 2},
		ChainID:            c.ID,
		Height:             h,
		Time:               t.UTC(),
		LastBlockID:        makeBlockID(make([]byte, tmhash.Size), 10_000, make([]byte, tmhash.Size)),
		LastCommitHash:     c.App.LastCommitID().Hash,
		DataHash:           unusedHash,
		ValidatorsHash:     c.Vals.Hash(),
		NextValidatorsHash: c.NextVals.Hash(),
		ConsensusHash:      unusedHash,
		AppHash:            c.prevAppHash(),
		LastResultsHash:    unusedHash,
		EvidenceHash:       unusedHash,
		ProposerAddress:    c.Vals.Proposer.Address,
	}
	res, err := c.App.FinalizeBlock(&abci.RequestFinalizeBlock{
		Height: h, Time: t.UTC(), Txs: raw, NextValidatorsHash: c.NextVals.Hash(),
		ProposerAddress: c.Vals.Proposer.Address,
	})
	Must(err, "FinalizeBlock "+c.ID)
	_, err = c.App.Commit()
	Must(err, "Commit "+c.ID)
	if len(res.TxResults) != len(txs) {
		Failf("tx result count %d != %d", len(res.TxResults), len(txs))
	}
	c.Headers[h] = &HeaderRec{Header: hdr, Vals: c.Vals, NextVals: c.NextVals, AppHash: append([]byte{}, c.App.LastCommitID().Hash...)}
	c.Height = h
	c.LastTime = t.UTC()
	// validator set rotation as CometBFT does it
	c.Vals = c.NextVals
	if len(res.ValidatorUpdates) > 0 {
		upd, err := cmttypes.PB2TM.ValidatorUpdates(res.ValidatorUpdates)
		Must(err, "val updates")
		nv := c.Vals.Copy()
		Must(nv.UpdateWithChangeSet(upd), "apply val updates")
		c.NextVals = nv
	}
	c.Vals = c.Vals.Copy()
	c.Vals.IncrementProposerPriority(1)

	var out []*TxResult
	for i, r := range res.TxResults {
		tr := &TxResult{Spec: txs[i], Height: h, Code: r.Code, Space: r.Codespace, Log: r.Log, GasUsed: r.GasUsed, Events: r.Events, Data: r.Data}
		out = append(out, tr)
		if Trace {
			// development aid (IBCSIM_TRACE=1): never influences the run
			lg := r.Log
			if r.Code == 0 {
				lg = ""
			} else if len(lg) > 220 {
				lg = lg[:220]
			}
			fmt.Fprintf(os.Stderr, "  tx %s h=%d %s tag=%d code=%d %s\n", c.ID, h, txs[i].Label, txs[i].Tag, r.Code, lg)
		}
		c.Results = append(c.Results, tr)
		txs[i].Signer.inPool = false
	}
	c.resyncAccounts()
	if c.Stats != nil {
		c.Stats.Blocks++
		c.Stats.Txs += len(txs)
		for _, r := range out {
			if r.OK() {
				c.Stats.TxsOK++
			}
		}
	}
	return out
}

// prevAppHash is the app hash a header carries: the hash after the previous block, or, for
// the first block after InitChain, the hash InitChain returned.
func (c *Chain) prevAppHash() []byte {
	if h := c.App.LastCommitID().Hash; len(h) > 0 {
		return h
	}
	return c.InitAppHash
}

func makeBlockID(hash []byte, partSetSize uint32, partSetHash []byte) cmttypes.BlockID {
	return cmttypes.BlockID{Hash: hash, PartSetHeader: cmttypes.PartSetHeader{Total: partSetSize, Hash: partSetHash}}
}

// resyncAccounts re-reads account sequences from committed state (a tx refused in the ante
// handler does not consume its sequence; reading is simpler and more robust than predicting).
func (c *Chain) resyncAccounts() {
	ctx := c.QueryCtx()
	for _, a := range c.Accounts {
		if acc := c.App.AccountKeeper.GetAccount(ctx, a.Addr); acc != nil {
			a.Seq = acc.GetSequence()
			a.Num = acc.GetAccountNumber()
		}
	}
}

// QueryCtx returns a read-only context over the latest committed state. Writes to it go to a
// throw-away cache.
func (c *Chain) QueryCtx() sdk.Context {
	ms := c.App.CommitMultiStore().CacheMultiStore()
	hdr := cmtproto.Header{ChainID: c.ID, Height: c.Height, Time: c.LastTime}
	return sdk.NewContext(ms, hdr, false, log.NewNopLogger())
}

// QueryCtxAt returns a read-only context over the committed state of version h.
func (c *Chain) QueryCtxAt(h int64) (sdk.Context, error) {
	ms, err := c.App.CommitMultiStore().CacheMultiStoreWithVersion(h)
	if err != nil {
		return sdk.Context{}, err
	}
	t := c.LastTime
	if r, ok := c.Headers[h]; ok {
		t = r.Header.Time
	}
	return sdk.NewContext(ms, cmtproto.Header{ChainID: c.ID, Height: h, Time: t}, false, log.NewNopLogger()), nil
}

// buildTx signs a TxSpec with its signer's next sequence.
func (c *Chain) buildTx(tx *TxSpec) {
	gas := tx.Gas
	if gas == 0 {
		gas = 10_000_000
	}
	txCfg := c.App.GetTxConfig()
	stx, err := simtestutil.GenSignedMockTx(rand.New(rand.NewSource(7)), txCfg, tx.Msgs,
		sdk.Coins{sdk.NewInt64Coin(sdk.DefaultBondDenom, 0)}, gas, c.ID,
		[]uint64{tx.Signer.Num}, []uint64{tx.Signer.Seq}, tx.Signer.Priv)
	Must(err, "sign tx")
	bz, err := txCfg.TxEncoder()(stx)
	Must(err, "encode tx")
	tx.Bytes = bz
	sum := sha256.Sum256(bz)
	tx.Hash = fmt.Sprintf("%X", sum[:8])
}

// Submit places a tx into the mempool. The signer must be free (one pending tx per account,
// so that an ante failure of one tx cannot invalidate the sequence of another).
func (c *Chain) Submit(tx *TxSpec) {
	if tx.Signer.inPool {
		Failf("account %s already has a pending tx", tx.Signer.Name)
	}
	tx.Signer.inPool = true
	c.Mempool = append(c.Mempool, tx)
}

// FreeAccount returns an account with no pending tx among accounts[from:to), or nil.
func (c *Chain) FreeAccount(from, to int) *Account {
	for i := from; i < to && i < len(c.Accounts); i++ {
		if !c.Accounts[i].inPool {
			return c.Accounts[i]
		}
	}
	return nil
}

// Relayer returns a free relayer account (accounts 8..).
func (c *Chain) Relayer() *Account {
	a := c.FreeAccount(8, len(c.Accounts))
	if a == nil {
		Failf("no free relayer account on %s", c.ID)
	}
	return a
}

// ProduceBlock commits a block at LastTime+dt containing the whole mempool (in order).
func (c *Chain) ProduceBlock(dt time.Duration) []*TxResult {
	txs := c.Mempool
	c.Mempool = nil
	return c.Block(c.nextTime(dt), txs)
}

// Clock is a wall clock shared by the chains of one world while the world is being set up, so
// that chains built one after the other do not drift apart (light clients refuse headers from
// the future).
type Clock struct{ Now time.Time }

// nextTime is the time of a block produced dt after "now": the later of the chain's own last
// block and the shared setup clock (if any).
func (c *Chain) nextTime(dt time.Duration) time.Time {
	base := c.LastTime
	if c.Cfg.Clock != nil && c.Cfg.Clock.Now.After(base) {
		base = c.Cfg.Clock.Now
	}
	t := base.Add(dt)
	if c.Cfg.Clock != nil {
		c.Cfg.Clock.Now = t
	}
	return t
}

// Deliver commits a block holding exactly this one transaction and returns its result.
func (c *Chain) Deliver(dt time.Duration, signer *Account, gas uint64, msgs ...sdk.Msg) *TxResult {
	if len(c.Mempool) != 0 {
		Failf("Deliver with non-empty mempool on %s", c.ID)
	}
	tx := &TxSpec{Msgs: msgs, Signer: signer, Gas: gas}
	return c.Block(c.nextTime(dt), []*TxSpec{tx})[0]
}

// Simulate runs the tx through baseapp's simulate mode against the latest committed state.
func (c *Chain) Simulate(signer *Account, msgs ...sdk.Msg) error {
	tx := &TxSpec{Msgs: msgs, Signer: signer}
	c.buildTx(tx)
	_, _, err := c.App.Simulate(tx.Bytes)
	return err
}

// CheckTx routes tx bytes through the mempool admission path.
func (c *Chain) CheckTx(tx *TxSpec) (*abci.ResponseCheckTx, error) {
	if tx.Bytes == nil {
		c.buildTx(tx)
	}
	return c.App.CheckTx(&abci.RequestCheckTx{Tx: tx.Bytes, Type: abci.CheckTxType_New})
}

// Restart drops the application object and rebuilds it from the durable DB.
func (c *Chain) Restart() {
	c.App = simapp.NewSimApp(log.NewNopLogger(), c.DB, nil, true, simtestutil.EmptyAppOptions{})
	baseapp.SetChainID(c.ID)(c.App.GetBaseApp())
	if c.App.LastBlockHeight() != c.Height {
		Failf("restart of %s: height %d != %d", c.ID, c.App.LastBlockHeight(), c.Height)
	}
	if c.OnRebuild != nil {
		c.OnRebuild(c)
	}
	if c.Stats != nil {
		c.Stats.Fault("chain.restart")
	}
}

// SnapshotDB copies the durable state (used for lost-commit and twin runs).
func (c *Chain) SnapshotDB() *dbm.MemDB {
	cp := dbm.NewMemDB()
	it, err := c.DB.Iterator(nil, nil)
	Must(err, "db iterator")
	defer it.Close()
	for ; it.Valid(); it.Next() {
		Must(cp.Set(append([]byte{}, it.Key()...), append([]byte{}, it.Value()...)), "db copy")
	}
	return cp
}

// AppHash returns the app hash after the last committed block.
func (c *Chain) AppHash() []byte { return c.App.LastCommitID().Hash }

// ---- proofs and headers ---------------------------------------------------------------

// ProofAt queries the store `storeKey` for `key` with a Merkle proof against state version
// h-1 and returns the proof bytes; the proof verifies against the header of height h.
func (c *Chain) ProofAt(storeKey string, key []byte, h int64) ([]byte, clienttypes.Height, []byte, error) {
	res, err := c.App.Query(context.Background(), &abci.RequestQuery{
		Path: fmt.Sprintf("store/%s/key", storeKey), Height: h - 1, Data: key, Prove: true,
	})
	if err != nil {
		return nil, clienttypes.Height{}, nil, err
	}
	if res.Code != 0 {
		return nil, clienttypes.Height{}, nil, fmt.Errorf("query code %d: %s", res.Code, res.Log)
	}
	mp, err := commitmenttypes.ConvertProofs(res.ProofOps)
	if err != nil {
		return nil, clienttypes.Height{}, nil, err
	}
	proof, err := c.App.AppCodec().Marshal(&mp)
	if err != nil {
		return nil, clienttypes.Height{}, nil, err
	}
	return proof, c.IBCHeight(res.Height + 1), res.Value, nil
}

// IBCProof is ProofAt on the ibc store; harness error on failure.
func (c *Chain) IBCProof(key []byte, h int64) ([]byte, clienttypes.Height) {
	p, ph, _, err := c.ProofAt(ibcexported.StoreKey, key, h)
	Must(err, fmt.Sprintf("proof on %s at %d", c.ID, h))
	return p, ph
}

// StateAt reads a raw value from a store at committed version v (ground truth access).
func (c *Chain) StateAt(storeKey string, key []byte, v int64) []byte {
	if v <= 0 {
		return nil
	}
	app := c.App
	if v < c.MinVersion {
		// the version belongs to an incarnation of the chain before a genesis restart
		for i := len(c.Past) - 1; i >= 0; i-- {
			if v >= c.Past[i].From && v <= c.Past[i].To {
				app = c.Past[i].App
				break
			}
		}
	}
	ms, err := app.CommitMultiStore().CacheMultiStoreWithVersion(v)
	Must(err, fmt.Sprintf("state of %s at version %d", c.ID, v))
	return ms.GetKVStore(app.GetKey(storeKey)).Get(key)
}

// State reads a raw value from the latest committed state.
func (c *Chain) State(storeKey string, key []byte) []byte {
	return c.App.CommitMultiStore().GetKVStore(c.App.GetKey(storeKey)).Get(key)
}

// Prefix returns the commitment prefix of the chain.
func (c *Chain) Prefix() commitmenttypes.MerklePrefix {
	return commitmenttypes.NewMerklePrefix([]byte("ibc"))
}

// SignedHeaderFor builds a CometBFT signed header for committed height h, signed by the
// validators whose indexes (into the sorted validator set of that height) are in signerIdx;
// nil means everybody signs. mutate, if non-nil, may alter the header before signing (forks).
func (c *Chain) SignedHeaderFor(h int64, signerIdx []int, mutate func(*cmttypes.Header)) (*cmtproto.SignedHeader, *cmttypes.ValidatorSet, error) {
	rec, ok := c.Headers[h]
	if !ok {
		return nil, nil, fmt.Errorf("%s has no block %d", c.ID, h)
	}
	hdr := rec.Header
	if mutate != nil {
		mutate(&hdr)
	}
	sh, err := SignHeader(hdr, rec.Vals, c.Signers, signerIdx)
	return sh, rec.Vals, err
}

// SignHeader signs hdr with the given subset of valSet (nil = all).
func SignHeader(hdr cmttypes.Header, valSet *cmttypes.ValidatorSet, signers map[string]cmttypes.PrivValidator, signerIdx []int) (*cmtproto.SignedHeader, error) {
	blockID := makeBlockID(hdr.Hash(), 3, unusedHash)
	want := map[int]bool{}
	for _, i := range signerIdx {
		want[i] = true
	}
	sigs := make([]cmttypes.CommitSig, len(valSet.Validators))
	for i, v := range valSet.Validators {
		if signerIdx != nil && !want[i] {
			sigs[i] = cmttypes.NewCommitSigAbsent()
			continue
		}
		pv, ok := signers[v.Address.String()]
		if !ok {
			sigs[i] = cmttypes.NewCommitSigAbsent()
			continue
		}
		vote := &cmtproto.Vote{
			Type: cmtproto.PrecommitType, Height: hdr.Height, Round: 1, BlockID: blockID.ToProto(),
			Timestamp: hdr.Time, ValidatorAddress: v.Address, ValidatorIndex: int32(i),
		}
		if err := pv.SignVote(hdr.ChainID, vote); err != nil {
			return nil, err
		}
		sigs[i] = cmttypes.CommitSig{BlockIDFlag: cmttypes.BlockIDFlagCommit, ValidatorAddress: v.Address, Timestamp: vote.Timestamp, Signature: vote.Signature}
	}
	commit := &cmttypes.Commit{Height: hdr.Height, Round: 1, BlockID: blockID, Signatures: sigs}
	return &cmtproto.SignedHeader{Header: hdr.ToProto(), Commit: commit.ToProto()}, nil
}

// BankBalances returns every (address, denom) balance of the latest committed state, sorted.
func (c *Chain) BankBalances() map[string]sdk.Coins {
	out := map[string]sdk.Coins{}
	ctx := c.QueryCtx()
	c.App.BankKeeper.IterateAllBalances(ctx, func(addr sdk.AccAddress, coin sdk.Coin) bool {
		out[addr.String()] = out[addr.String()].Add(coin)
		return false
	})
	return out
}

// Supply returns the total supply of every denomination.
func (c *Chain) Supply() sdk.Coins {
	var out sdk.Coins
	c.App.BankKeeper.IterateTotalSupply(c.QueryCtx(), func(coin sdk.Coin) bool {
		out = out.Add(coin)
		return false
	})
	return out
}

// SortedKeys returns the keys of a map in sorted order (maps are never iterated directly).
func SortedKeys[V any](m map[string]V) []string {
	ks := make([]string, 0, len(m))
	for k := range m {
		ks = append(ks, k)
	}
	sort.Strings(ks)
	return ks
}

var _ = bytes.Equal

// TxHash is the short hash the harness uses to identify a transaction.
func TxHash(bz []byte) string {
	sum := sha256.Sum256(bz)
	return fmt.Sprintf("%X", sum[:8])
}

// PreBlockCtx returns a context that writes into the state of the NEXT block (before its
// transactions). It models an application acting in its own BeginBlocker; writes persist when
// the next block is produced. Callers should branch with CacheContext and write on success.
func (c *Chain) PreBlockCtx(t time.Time) sdk.Context {
	if !t.After(c.LastTime) {
		t = c.LastTime.Add(time.Nanosecond)
	}
	hdr := cmtproto.Header{ChainID: c.ID, Height: c.Height + 1, Time: t.UTC(), AppHash: c.App.LastCommitID().Hash}
	return c.App.GetBaseApp().NewNextBlockContext(hdr)
}
