package sim

import (
	"fmt"
	"strings"
	"time"

	"github.com/cosmos/gogoproto/proto"

	sdk "github.com/cosmos/cosmos-sdk/types"

	abci "github.com/cometbft/cometbft/abci/types"
	cmtproto "github.com/cometbft/cometbft/proto/tendermint/types"
	cmttypes "github.com/cometbft/cometbft/types"

	clienttypes "github.com/cosmos/ibc-go/v11/modules/core/02-client/types"
	clientv2types "github.com/cosmos/ibc-go/v11/modules/core/02-client/v2/types"
	connectiontypes "github.com/cosmos/ibc-go/v11/modules/core/03-connection/types"
	channeltypes "github.com/cosmos/ibc-go/v11/modules/core/04-channel/types"
	channeltypesv2 "github.com/cosmos/ibc-go/v11/modules/core/04-channel/v2/types"
	commitmenttypes "github.com/cosmos/ibc-go/v11/modules/core/23-commitment/types"
	host "github.com/cosmos/ibc-go/v11/modules/core/24-host"
	hostv2 "github.com/cosmos/ibc-go/v11/modules/core/24-host/v2"
	ibcexported "github.com/cosmos/ibc-go/v11/modules/core/exported"
	ibctm "github.com/cosmos/ibc-go/v11/modules/light-clients/07-tendermint"
)

// DefaultBlockInterval is the usual distance between two blocks of a chain.
const DefaultBlockInterval = 5 * time.Second

var UpgradePath = []string{"upgrade", "upgradedIBCState"}

// TMConfig are the parameters of a tendermint light client.
type TMConfig struct {
	TrustLevel      ibctm.Fraction
	TrustingPeriod  time.Duration
	UnbondingPeriod time.Duration
	MaxClockDrift   time.Duration
}

func DefaultTMConfig() TMConfig {
	return TMConfig{TrustLevel: ibctm.DefaultTrustLevel, TrustingPeriod: 14 * 24 * time.Hour, UnbondingPeriod: 21 * 24 * time.Hour, MaxClockDrift: 10 * time.Second}
}

// ConsensusStateAt is the consensus state a light client of c should hold for height h.
func (c *Chain) ConsensusStateAt(h int64) *ibctm.ConsensusState {
	rec := c.Headers[h]
	if rec == nil {
		Failf("%s has no header %d", c.ID, h)
	}
	return ibctm.NewConsensusState(rec.Header.Time, commitmenttypes.NewMerkleRoot(rec.Header.AppHash), rec.Header.NextValidatorsHash)
}

// MsgCreateTMClient builds a create-client message for a client of `of` at its height h.
func MsgCreateTMClient(of *Chain, h int64, cfg TMConfig, signer string) *clienttypes.MsgCreateClient {
	cs := ibctm.NewClientState(of.ID, cfg.TrustLevel, cfg.TrustingPeriod, cfg.UnbondingPeriod, cfg.MaxClockDrift,
		of.IBCHeight(h), commitmenttypes.GetSDKSpecs(), UpgradePath)
	msg, err := clienttypes.NewMsgCreateClient(cs, of.ConsensusStateAt(h), signer)
	Must(err, "MsgCreateClient")
	return msg
}

// TMHeader builds the 07-tendermint Header for block h of `of`, trusting height `trusted`.
// signerIdx selects the validators that sign (nil = all); mutate may fork the header.
func TMHeader(of *Chain, h, trusted int64, signerIdx []int, mutate func(*cmttypes.Header)) (*ibctm.Header, error) {
	sh, vals, err := of.SignedHeaderFor(h, signerIdx, mutate)
	if err != nil {
		return nil, err
	}
	trec, ok := of.Headers[trusted]
	if !ok {
		return nil, fmt.Errorf("%s has no block %d to trust", of.ID, trusted)
	}
	return AssembleTMHeader(sh, vals, of.IBCHeight(trusted), trec.NextVals)
}

// AssembleTMHeader packs the parts of an 07-tendermint header.
func AssembleTMHeader(sh *cmtproto.SignedHeader, vals *cmttypes.ValidatorSet, trustedHeight clienttypes.Height, trustedVals *cmttypes.ValidatorSet) (*ibctm.Header, error) {
	vp, err := vals.ToProto()
	if err != nil {
		return nil, err
	}
	vp.TotalVotingPower = vals.TotalVotingPower()
	tp, err := trustedVals.ToProto()
	if err != nil {
		return nil, err
	}
	tp.TotalVotingPower = trustedVals.TotalVotingPower()
	return &ibctm.Header{SignedHeader: sh, ValidatorSet: vp, TrustedHeight: trustedHeight, TrustedValidators: tp}, nil
}

// ClientLatestHeight reads the latest height of a client on chain c (committed state).
func (c *Chain) ClientLatestHeight(clientID string) clienttypes.Height {
	return c.App.IBCKeeper.ClientKeeper.GetClientLatestHeight(c.QueryCtx(), clientID)
}

// ClientStatus reads the status of a client at the latest committed state, evaluated at the
// time of the last block.
func (c *Chain) ClientStatus(clientID string) ibcexported.Status {
	return c.App.IBCKeeper.ClientKeeper.GetClientStatus(c.QueryCtx(), clientID)
}

// HasConsensusState reports whether the client on c stores a consensus state for height h.
func (c *Chain) HasConsensusState(clientID string, h clienttypes.Height) bool {
	return c.State(ibcexported.StoreKey, host.FullConsensusStateKey(clientID, h)) != nil
}

// MsgUpdateTo builds an honest MsgUpdateClient bringing client `clientID` (on `on`, tracking
// `of`) to height h, trusting the client's current latest height (or the nearest stored lower
// height when h is below the latest).
func MsgUpdateTo(on *Chain, clientID string, of *Chain, h int64, signer string) (*clienttypes.MsgUpdateClient, error) {
	latest := on.ClientLatestHeight(clientID)
	trusted := int64(latest.RevisionHeight)
	if trusted >= h {
		// find a stored consensus state below h
		trusted = 0
		for t := h - 1; t >= 1; t-- {
			if on.HasConsensusState(clientID, of.IBCHeight(t)) {
				trusted = t
				break
			}
		}
		if trusted == 0 {
			return nil, fmt.Errorf("no trusted height below %d", h)
		}
	}
	hdr, err := TMHeader(of, h, trusted, nil, nil)
	if err != nil {
		return nil, err
	}
	return clienttypes.NewMsgUpdateClient(clientID, hdr, signer)
}

// ---- events -----------------------------------------------------------------------------

// EventAttr returns the first value of attribute `key` in events of type `typ`.
func EventAttr(events []abci.Event, typ, key string) (string, bool) {
	for _, ev := range events {
		if ev.Type != typ {
			continue
		}
		for _, a := range ev.Attributes {
			if a.Key == key {
				return a.Value, true
			}
		}
	}
	return "", false
}

// EventsOfType returns all events with the given type.
func EventsOfType(events []abci.Event, typ string) []abci.Event {
	var out []abci.Event
	for _, ev := range events {
		if ev.Type == typ {
			out = append(out, ev)
		}
	}
	return out
}

func Attr(ev abci.Event, key string) string {
	for _, a := range ev.Attributes {
		if a.Key == key {
			return a.Value
		}
	}
	return ""
}

// MsgResponses decodes the TxMsgData of a successful tx result.
func MsgResponses(r *TxResult) []*sdk.TxMsgData {
	var d sdk.TxMsgData
	if err := proto.Unmarshal(r.Data, &d); err != nil {
		return nil
	}
	return []*sdk.TxMsgData{&d}
}

// UnpackResponse decodes the i-th message response of a tx into msg.
func UnpackResponse(r *TxResult, i int, msg proto.Message) error {
	var d sdk.TxMsgData
	if err := proto.Unmarshal(r.Data, &d); err != nil {
		return err
	}
	if i >= len(d.MsgResponses) {
		return fmt.Errorf("tx has %d responses, want index %d", len(d.MsgResponses), i)
	}
	return proto.Unmarshal(d.MsgResponses[i].Value, msg)
}

// ---- topology -----------------------------------------------------------------------------

// ConnEnd is one end of a client pair + connection between two chains.
type ConnEnd struct {
	Chain    *Chain
	ClientID string
	ConnID   string
	Peer     *ConnEnd
	TM       TMConfig
	Delay    uint64
}

// ChanEnd is one end of a v1 channel.
type ChanEnd struct {
	Conn    *ConnEnd
	Chain   *Chain
	Port    string
	ChanID  string
	Order   channeltypes.Order
	Version string
	Peer    *ChanEnd
}

// V2End is one end of an IBC v2 path: either a plain client pair with registered
// counterparties, or an UNORDERED v1 channel used through its alias.
type V2End struct {
	Chain    *Chain
	ID       string // client id, or channel id for an alias
	ClientID string // underlying light client
	Alias    bool
	Peer     *V2End
}

// mustOK delivers msgs in a single-tx block and fails the harness when the tx fails: used
// only for world construction, where a failure is trouble in the harness, not a finding.
func (c *Chain) mustOK(what string, signer *Account, msgs ...sdk.Msg) *TxResult {
	r := c.Deliver(DefaultBlockInterval, signer, 0, msgs...)
	if !r.OK() {
		Failf("setup step %q failed on %s: %s/%d %s", what, c.ID, r.Space, r.Code, r.Log)
	}
	return r
}

// SetupUpdate brings the client at `e` to the peer's latest provable height (producing an
// empty block on the peer first so that its latest state is provable) and returns that height.
func SetupUpdate(e *ConnEnd) int64 {
	peer := e.Peer.Chain
	peer.ProduceBlock(DefaultBlockInterval)
	h := peer.Height
	signer := e.Chain.Relayer()
	msg, err := MsgUpdateTo(e.Chain, e.ClientID, peer, h, signer.String())
	Must(err, "setup update")
	e.Chain.mustOK("update client", signer, msg)
	return h
}

// NewClientPair creates tendermint clients of each other on a and b.
func NewClientPair(a, b *Chain, tmA, tmB TMConfig) (*ConnEnd, *ConnEnd) {
	ea := &ConnEnd{Chain: a, TM: tmA}
	eb := &ConnEnd{Chain: b, TM: tmB}
	ea.Peer, eb.Peer = eb, ea
	for _, e := range []*ConnEnd{ea, eb} {
		signer := e.Chain.Accounts[1]
		r := e.Chain.mustOK("create client", signer, MsgCreateTMClient(e.Peer.Chain, e.Peer.Chain.Height, e.TM, signer.String()))
		id, ok := EventAttr(r.Events, clienttypes.EventTypeCreateClient, clienttypes.AttributeKeyClientID)
		if !ok {
			Failf("no client id in create_client events")
		}
		e.ClientID = id
	}
	return ea, eb
}

// OpenConnection runs an honest connection handshake between the two ends.
func OpenConnection(ea, eb *ConnEnd, delay uint64) {
	ea.Delay, eb.Delay = delay, delay
	a, b := ea.Chain, eb.Chain
	sa := a.Accounts[1]
	r := a.mustOK("conn init", sa, connectiontypes.NewMsgConnectionOpenInit(ea.ClientID, eb.ClientID, b.Prefix(), nil, delay, sa.String()))
	ea.ConnID, _ = EventAttr(r.Events, connectiontypes.EventTypeConnectionOpenInit, connectiontypes.AttributeKeyConnectionID)

	h := SetupUpdate(eb)
	proof, ph := a.IBCProof(host.ConnectionKey(ea.ConnID), h)
	sb := b.Accounts[1]
	r = b.mustOK("conn try", sb, connectiontypes.NewMsgConnectionOpenTry(eb.ClientID, ea.ConnID, ea.ClientID, a.Prefix(),
		connectiontypes.GetCompatibleVersions(), delay, proof, ph, sb.String()))
	eb.ConnID, _ = EventAttr(r.Events, connectiontypes.EventTypeConnectionOpenTry, connectiontypes.AttributeKeyConnectionID)

	h = SetupUpdate(ea)
	proof, ph = b.IBCProof(host.ConnectionKey(eb.ConnID), h)
	a.mustOK("conn ack", sa, connectiontypes.NewMsgConnectionOpenAck(ea.ConnID, eb.ConnID, proof, ph, connectiontypes.GetCompatibleVersions()[0], sa.String()))

	h = SetupUpdate(eb)
	proof, ph = a.IBCProof(host.ConnectionKey(ea.ConnID), h)
	b.mustOK("conn confirm", sb, connectiontypes.NewMsgConnectionOpenConfirm(eb.ConnID, proof, ph, sb.String()))
}

// OpenChannel runs an honest channel handshake on an open connection.
func OpenChannel(ea, eb *ConnEnd, portA, portB, version string, order channeltypes.Order) (*ChanEnd, *ChanEnd) {
	return OpenChannelSteps(ea, eb, portA, portB, version, order, true)
}

// OpenChannelSteps is OpenChannel that can stop before the last step: with confirm == false end a
// is OPEN and end b stays TRYOPEN (the window in which a relayer can race packets against the
// confirmation).
func OpenChannelSteps(ea, eb *ConnEnd, portA, portB, version string, order channeltypes.Order, confirm bool) (*ChanEnd, *ChanEnd) {
	a, b := ea.Chain, eb.Chain
	ca := &ChanEnd{Conn: ea, Chain: a, Port: portA, Order: order, Version: version}
	cb := &ChanEnd{Conn: eb, Chain: b, Port: portB, Order: order, Version: version}
	ca.Peer, cb.Peer = cb, ca
	sa, sb := a.Accounts[1], b.Accounts[1]

	r := a.mustOK("chan init", sa, channeltypes.NewMsgChannelOpenInit(portA, version, order, []string{ea.ConnID}, portB, sa.String()))
	ca.ChanID, _ = EventAttr(r.Events, channeltypes.EventTypeChannelOpenInit, channeltypes.AttributeKeyChannelID)
	ca.Version = a.ChannelEnd(portA, ca.ChanID).Version

	h := SetupUpdate(eb)
	proof, ph := a.IBCProof(host.ChannelKey(portA, ca.ChanID), h)
	r = b.mustOK("chan try", sb, channeltypes.NewMsgChannelOpenTry(portB, ca.Version, order, []string{eb.ConnID}, portA, ca.ChanID, ca.Version, proof, ph, sb.String()))
	cb.ChanID, _ = EventAttr(r.Events, channeltypes.EventTypeChannelOpenTry, channeltypes.AttributeKeyChannelID)
	cb.Version = b.ChannelEnd(portB, cb.ChanID).Version

	h = SetupUpdate(ea)
	proof, ph = b.IBCProof(host.ChannelKey(portB, cb.ChanID), h)
	a.mustOK("chan ack", sa, channeltypes.NewMsgChannelOpenAck(portA, ca.ChanID, cb.ChanID, cb.Version, proof, ph, sa.String()))
	ca.Version = a.ChannelEnd(portA, ca.ChanID).Version
	if !confirm {
		return ca, cb
	}

	h = SetupUpdate(eb)
	proof, ph = a.IBCProof(host.ChannelKey(portA, ca.ChanID), h)
	b.mustOK("chan confirm", sb, channeltypes.NewMsgChannelOpenConfirm(portB, cb.ChanID, proof, ph, sb.String()))
	return ca, cb
}

// ChannelEnd reads a channel end from the latest committed state (zero value if absent).
func (c *Chain) ChannelEnd(port, ch string) channeltypes.Channel {
	chn, _ := c.App.IBCKeeper.ChannelKeeper.GetChannel(c.QueryCtx(), port, ch)
	return chn
}

// RegisterV2 registers each client as the other's IBC v2 counterparty. The message must be
// signed by the client's creator (account 1 in NewClientPair).
func RegisterV2(ea, eb *ConnEnd) (*V2End, *V2End) {
	pfx := [][]byte{[]byte("ibc"), []byte("")}
	for _, e := range []*ConnEnd{ea, eb} {
		s := e.Chain.Accounts[1]
		e.Chain.mustOK("register counterparty", s, clientv2types.NewMsgRegisterCounterparty(e.ClientID, pfx, e.Peer.ClientID, s.String()))
	}
	va := &V2End{Chain: ea.Chain, ID: ea.ClientID, ClientID: ea.ClientID}
	vb := &V2End{Chain: eb.Chain, ID: eb.ClientID, ClientID: eb.ClientID}
	va.Peer, vb.Peer = vb, va
	return va, vb
}

// AliasOf returns the v2 view of an UNORDERED v1 channel.
func AliasOf(ca *ChanEnd) *V2End {
	va := &V2End{Chain: ca.Chain, ID: ca.ChanID, ClientID: ca.Conn.ClientID, Alias: true}
	vb := &V2End{Chain: ca.Peer.Chain, ID: ca.Peer.ChanID, ClientID: ca.Peer.Conn.ClientID, Alias: true}
	va.Peer, vb.Peer = vb, va
	return va
}

// ---- packets ------------------------------------------------------------------------------

// Pkt is a sent packet as the simulator knows it (either protocol).
type Pkt struct {
	Tag     int64
	V2      bool
	P1      channeltypes.Packet
	P2      channeltypesv2.Packet
	Src     *Chain
	Dst     *Chain
	SrcCli  string // light client on Src tracking Dst
	DstCli  string // light client on Dst tracking Src
	Ordered bool
	Local   bool  // localhost loopback (Src == Dst)
	SentAt  int64 // Src height of the block that committed the send
	SentTm  time.Time
}

func (p *Pkt) Seq() uint64 {
	if p.V2 {
		return p.P2.Sequence
	}
	return p.P1.Sequence
}

// SrcID / DstID are the identifiers the two chains use for the packet's path.
func (p *Pkt) SrcID() string {
	if p.V2 {
		return p.P2.SourceClient
	}
	return p.P1.SourcePort + "/" + p.P1.SourceChannel
}

func (p *Pkt) DstID() string {
	if p.V2 {
		return p.P2.DestinationClient
	}
	return p.P1.DestinationPort + "/" + p.P1.DestinationChannel
}

func (p *Pkt) String() string {
	v := "v1"
	if p.V2 {
		v = "v2"
	}
	return fmt.Sprintf("%s %s:%s->%s:%s#%d", v, p.Src.ID, p.SrcID(), p.Dst.ID, p.DstID(), p.Seq())
}

// Keys under which the packet's commitment / receipt / ack live.
func (p *Pkt) CommitmentKey() []byte {
	if p.V2 {
		return hostv2.PacketCommitmentKey(p.P2.SourceClient, p.P2.Sequence)
	}
	return host.PacketCommitmentKey(p.P1.SourcePort, p.P1.SourceChannel, p.P1.Sequence)
}

func (p *Pkt) ReceiptKey() []byte {
	if p.V2 {
		return hostv2.PacketReceiptKey(p.P2.DestinationClient, p.P2.Sequence)
	}
	return host.PacketReceiptKey(p.P1.DestinationPort, p.P1.DestinationChannel, p.P1.Sequence)
}

func (p *Pkt) AckKey() []byte {
	if p.V2 {
		return hostv2.PacketAcknowledgementKey(p.P2.DestinationClient, p.P2.Sequence)
	}
	return host.PacketAcknowledgementKey(p.P1.DestinationPort, p.P1.DestinationChannel, p.P1.Sequence)
}

func (p *Pkt) NextSeqRecvKey() []byte {
	return host.NextSequenceRecvKey(p.P1.DestinationPort, p.P1.DestinationChannel)
}

// Commitment is the value the source must have stored for this packet.
func (p *Pkt) Commitment() []byte {
	if p.V2 {
		return channeltypesv2.CommitPacket(p.P2)
	}
	return channeltypes.CommitPacket(p.P1)
}

var localhostProof = []byte{0x01}

func (p *Pkt) proofOn(c *Chain, key []byte, h int64) ([]byte, clienttypes.Height) {
	if p.Local {
		return localhostProof, c.IBCHeight(h)
	}
	return c.IBCProof(key, h)
}

// RecvMsg builds the receive message with a commitment proof taken on Src at height h.
func (p *Pkt) RecvMsg(h int64, signer string) sdk.Msg {
	proof, ph := p.proofOn(p.Src, p.CommitmentKey(), h)
	if p.V2 {
		return channeltypesv2.NewMsgRecvPacket(p.P2, proof, ph, signer)
	}
	return channeltypes.NewMsgRecvPacket(p.P1, proof, ph, signer)
}

// AckMsg builds the acknowledgement message. ack1 are the v1 ack bytes, ack2 the v2 ack.
func (p *Pkt) AckMsg(h int64, ack1 []byte, ack2 channeltypesv2.Acknowledgement, signer string) sdk.Msg {
	proof, ph := p.proofOn(p.Dst, p.AckKey(), h)
	if p.V2 {
		return channeltypesv2.NewMsgAcknowledgement(p.P2, ack2, proof, ph, signer)
	}
	return channeltypes.NewMsgAcknowledgement(p.P1, ack1, proof, ph, signer)
}

// TimeoutMsg builds the timeout message with an absence proof taken on Dst at height h.
func (p *Pkt) TimeoutMsg(h int64, signer string) sdk.Msg {
	if p.V2 {
		proof, ph := p.proofOn(p.Dst, p.ReceiptKey(), h)
		return channeltypesv2.NewMsgTimeout(p.P2, proof, ph, signer)
	}
	key := p.ReceiptKey()
	if p.Ordered {
		key = p.NextSeqRecvKey()
	}
	proof, ph := p.proofOn(p.Dst, key, h)
	nsr := p.nextSeqRecvAt(h)
	return channeltypes.NewMsgTimeout(p.P1, nsr, proof, ph, signer)
}

// TimeoutOnCloseMsg builds the v1 timeout-on-close message (proofs on Dst at height h).
func (p *Pkt) TimeoutOnCloseMsg(h int64, signer string) sdk.Msg {
	key := p.ReceiptKey()
	if p.Ordered {
		key = p.NextSeqRecvKey()
	}
	proof, ph := p.proofOn(p.Dst, key, h)
	closed, _ := p.proofOn(p.Dst, host.ChannelKey(p.P1.DestinationPort, p.P1.DestinationChannel), h)
	return channeltypes.NewMsgTimeoutOnClose(p.P1, p.nextSeqRecvAt(h), proof, closed, ph, signer)
}

func (p *Pkt) nextSeqRecvAt(h int64) uint64 {
	v := h - 1
	if p.Local {
		v = p.Dst.Height
	}
	bz := p.Dst.StateAt(ibcexported.StoreKey, p.NextSeqRecvKey(), v)
	if len(bz) != 8 {
		return 0
	}
	return sdk.BigEndianToUint64(bz)
}

// ReceivedAtVersion is ground truth: had Dst received the packet in state version v?
func (p *Pkt) ReceivedAtVersion(v int64) bool {
	if !p.V2 && p.Ordered {
		bz := p.Dst.StateAt(ibcexported.StoreKey, p.NextSeqRecvKey(), v)
		return len(bz) == 8 && sdk.BigEndianToUint64(bz) > p.P1.Sequence
	}
	return p.Dst.StateAt(ibcexported.StoreKey, p.ReceiptKey(), v) != nil
}

// AckFromEvents extracts the acknowledgement written for a received packet from tx events.
func AckV1FromEvents(events []abci.Event) ([]byte, bool) {
	for _, ev := range events {
		if ev.Type == channeltypes.EventTypeWriteAck {
			if hx := Attr(ev, channeltypes.AttributeKeyAckHex); hx != "" {
				return hexDecode(hx), true
			}
		}
	}
	return nil, false
}

func AckV2FromEvents(events []abci.Event) (channeltypesv2.Acknowledgement, bool) {
	var ack channeltypesv2.Acknowledgement
	for _, ev := range events {
		if ev.Type == channeltypesv2.EventTypeWriteAck {
			if hx := Attr(ev, channeltypesv2.AttributeKeyEncodedAckHex); hx != "" {
				if err := proto.Unmarshal(hexDecode(hx), &ack); err == nil {
					return ack, true
				}
			}
		}
	}
	return ack, false
}

func hexDecode(s string) []byte {
	out := make([]byte, len(s)/2)
	for i := 0; i+1 < len(s); i += 2 {
		out[i/2] = unhex(s[i])<<4 | unhex(s[i+1])
	}
	return out
}

func unhex(c byte) byte {
	switch {
	case c >= '0' && c <= '9':
		return c - '0'
	case c >= 'a' && c <= 'f':
		return c - 'a' + 10
	case c >= 'A' && c <= 'F':
		return c - 'A' + 10
	}
	return 0
}

// ErrIs reports whether a failed tx result carries the given registered error.
func ErrIs(r *TxResult, space string, code uint32) bool {
	return r != nil && r.Space == space && r.Code == code
}

// LogHas reports whether the result log contains s.
func LogHas(r *TxResult, s string) bool { return r != nil && strings.Contains(r.Log, s) }

// ClientStatusAt evaluates the client's status on the latest committed state as a block at time
// t would see it (expiry depends on block time).
func (c *Chain) ClientStatusAt(clientID string, t time.Time) ibcexported.Status {
	return c.App.IBCKeeper.ClientKeeper.GetClientStatus(c.NextCtx(t), clientID)
}

// NextCtx is a read-only context over the latest committed state carrying the header the
// NEXT block (at time t) will have: what a transaction of that block will observe.
func (c *Chain) NextCtx(t time.Time) sdk.Context {
	if !t.After(c.LastTime) {
		t = c.LastTime.Add(time.Nanosecond)
	}
	return c.QueryCtx().WithBlockHeight(c.Height + 1).WithBlockTime(t.UTC())
}

// ClientLatestAt returns the latest height and its timestamp as the next block will see them
// (for the localhost client these are the executing block's own height and time).
func (c *Chain) ClientLatestAt(clientID string, t time.Time) (clienttypes.Height, uint64, error) {
	ctx := c.NextCtx(t)
	lh := c.App.IBCKeeper.ClientKeeper.GetClientLatestHeight(ctx, clientID)
	ts, err := c.App.IBCKeeper.ClientKeeper.GetClientTimestampAtHeight(ctx, clientID, lh)
	return lh, ts, err
}

// ForgeTMHeader builds an 07-tendermint header from an arbitrary CometBFT header value of
// chain `of` (it need not be a block the chain produced: forks, future heights, altered times),
// signed by the validators whose indexes are in signerIdx (nil = all) of the validator set
// `vals`, trusting height `trusted` of the real chain.
func ForgeTMHeader(of *Chain, hdr cmttypes.Header, vals *cmttypes.ValidatorSet, trusted int64, signerIdx []int) (*ibctm.Header, error) {
	sh, err := SignHeader(hdr, vals, of.Signers, signerIdx)
	if err != nil {
		return nil, err
	}
	trec, ok := of.Headers[trusted]
	if !ok {
		return nil, fmt.Errorf("%s has no block %d to trust", of.ID, trusted)
	}
	return AssembleTMHeader(sh, vals, of.IBCHeight(trusted), trec.NextVals)
}

// BaseHeader returns a copy of the CometBFT header of block h, or — for a height the chain has
// not produced — a header derived from the latest block with Height = h and a later time.
func (c *Chain) BaseHeader(h int64) cmttypes.Header {
	if rec, ok := c.Headers[h]; ok {
		return rec.Header
	}
	rec := c.Headers[c.Height]
	hdr := rec.Header
	hdr.Height = h
	hdr.Time = rec.Header.Time.Add(time.Duration(h-c.Height) * DefaultBlockInterval)
	hdr.ValidatorsHash = c.Vals.Hash()
	hdr.NextValidatorsHash = c.NextVals.Hash()
	return hdr
}
