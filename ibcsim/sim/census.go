package sim

import (
	storetypes "github.com/cosmos/cosmos-sdk/store/v2/types"

	"bytes"
	"fmt"
	"sort"
	"strings"
)

// CensusStores are the stores whose complete key/value content is dumped after a block.
var CensusStores = []string{"ibc", "transfer", "ratelimiting", "packetforward", "icacontroller", "icahost", "gmp", "bank", "authz"}

// Snapshot is the complete content of the census stores at one committed version.
type Snapshot struct {
	Height int64
	KV     map[string]map[string][]byte // store -> key -> value
}

// Census dumps the given stores (nil = CensusStores) of the latest committed state.
func (c *Chain) Census(stores []string) *Snapshot {
	if stores == nil {
		stores = CensusStores
	}
	s := &Snapshot{Height: c.Height, KV: map[string]map[string][]byte{}}
	cms := c.App.CommitMultiStore()
	for _, name := range stores {
		var key storetypes.StoreKey
		if strings.HasPrefix(name, "memory:") {
			mk := c.App.GetMemKey(name)
			if mk == nil {
				continue
			}
			key = mk
		} else {
			kk := c.App.GetKey(name)
			if kk == nil {
				continue
			}
			key = kk
		}
		m := map[string][]byte{}
		it := cms.GetKVStore(key).Iterator(nil, nil)
		for ; it.Valid(); it.Next() {
			m[string(it.Key())] = append([]byte{}, it.Value()...)
		}
		it.Close()
		s.KV[name] = m
	}
	return s
}

// Change is one differing key between two snapshots.
type Change struct {
	Store string
	Key   string
	Old   []byte // nil = absent
	New   []byte // nil = absent
}

func (ch Change) String() string {
	return fmt.Sprintf("%s:%s %s->%s", ch.Store, PrettyKey([]byte(ch.Key)), short(ch.Old), short(ch.New))
}

func short(b []byte) string {
	if b == nil {
		return "∅"
	}
	if len(b) > 12 {
		return fmt.Sprintf("%x…(%d)", b[:12], len(b))
	}
	return fmt.Sprintf("%x", b)
}

// PrettyKey renders a store key, hex-escaping non-printable bytes.
func PrettyKey(k []byte) string {
	var sb strings.Builder
	for _, b := range k {
		if b >= 0x20 && b < 0x7f {
			sb.WriteByte(b)
		} else {
			fmt.Fprintf(&sb, "\\x%02x", b)
		}
	}
	return sb.String()
}

// Diff returns the sorted list of changes from a to b.
func Diff(a, b *Snapshot) []Change {
	var out []Change
	stores := map[string]bool{}
	for s := range a.KV {
		stores[s] = true
	}
	for s := range b.KV {
		stores[s] = true
	}
	var names []string
	for s := range stores {
		names = append(names, s)
	}
	sort.Strings(names)
	for _, s := range names {
		am, bm := a.KV[s], b.KV[s]
		keys := map[string]bool{}
		for k := range am {
			keys[k] = true
		}
		for k := range bm {
			keys[k] = true
		}
		var ks []string
		for k := range keys {
			ks = append(ks, k)
		}
		sort.Strings(ks)
		for _, k := range ks {
			av, aok := am[k]
			bv, bok := bm[k]
			if aok && bok && bytes.Equal(av, bv) {
				continue
			}
			ch := Change{Store: s, Key: k}
			if aok {
				ch.Old = av
				if ch.Old == nil {
					ch.Old = []byte{}
				}
			}
			if bok {
				ch.New = bv
				if ch.New == nil {
					ch.New = []byte{}
				}
			}
			out = append(out, ch)
		}
	}
	return out
}

// FilterChanges keeps the changes for which keep returns true.
func FilterChanges(chs []Change, keep func(Change) bool) []Change {
	var out []Change
	for _, c := range chs {
		if keep(c) {
			out = append(out, c)
		}
	}
	return out
}

// ChangesString renders a list of changes on one line.
func ChangesString(chs []Change) string {
	var parts []string
	for i, c := range chs {
		if i == 8 {
			parts = append(parts, fmt.Sprintf("…(+%d)", len(chs)-8))
			break
		}
		parts = append(parts, c.String())
	}
	return strings.Join(parts, "; ")
}

// DeliverDiff commits a single-tx block and returns the tx result together with the census
// difference caused by that block. Block-level noise (begin/end blockers) in the census stores
// has been measured to be empty with the harness genesis (mint inflation 0) except where a
// profile says otherwise; callers filter what they know to be block noise.
func (c *Chain) DeliverDiff(tx *TxSpec, stores []string) (*TxResult, []Change) {
	before := c.Census(stores)
	if len(c.Mempool) != 0 {
		Failf("DeliverDiff with non-empty mempool on %s", c.ID)
	}
	res := c.Block(c.LastTime.Add(DefaultBlockInterval), []*TxSpec{tx})[0]
	after := c.Census(stores)
	return res, Diff(before, after)
}

// IsAccountSeqNoise reports whether the change is ordinary per-tx noise: none in census stores
// (account sequences live in the auth store, which is not in the census).
func IsAccountSeqNoise(Change) bool { return false }
