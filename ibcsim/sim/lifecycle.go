package sim

import (
	"bytes"
	"encoding/json"
	"fmt"
	"sort"

	dbm "github.com/cosmos/cosmos-db"

	"cosmossdk.io/log/v2"

	"github.com/cosmos/cosmos-sdk/baseapp"
	simtestutil "github.com/cosmos/cosmos-sdk/testutil/sims"

	abci "github.com/cometbft/cometbft/abci/types"
	cmtproto "github.com/cometbft/cometbft/proto/tendermint/types"

	"github.com/cosmos/ibc-go/v11/testing/simapp"
)

// ExportGenesis exports the state of every module at the latest committed height, the same
// call simapp/export.go makes.
func (c *Chain) ExportGenesis() (map[string]json.RawMessage, error) {
	return c.App.ModuleManager.ExportGenesis(c.QueryCtx(), c.App.AppCodec())
}

// CanonicalJSON renders an exported genesis deterministically (encoding/json sorts map keys).
func CanonicalJSON(gen map[string]json.RawMessage) []byte {
	keys := make([]string, 0, len(gen))
	for k := range gen {
		keys = append(keys, k)
	}
	sort.Strings(keys)
	var buf bytes.Buffer
	buf.WriteByte('{')
	for i, k := range keys {
		if i > 0 {
			buf.WriteByte(',')
		}
		fmt.Fprintf(&buf, "%q:", k)
		var compact bytes.Buffer
		if err := json.Compact(&compact, gen[k]); err != nil {
			compact.Write(gen[k])
		}
		buf.Write(compact.Bytes())
	}
	buf.WriteByte('}')
	return buf.Bytes()
}

// GenesisRestart performs an export/import hard restart: export the genesis of the running
// application, start a FRESH application on an empty database from that export with
// InitialHeight = height+1 and the same chain id, and continue from there with the same
// validator keys. The previous incarnation is kept for ground-truth reads of old versions.
// It returns the exported genesis.
func (c *Chain) GenesisRestart() (map[string]json.RawMessage, error) {
	if len(c.Mempool) != 0 {
		Failf("genesis restart of %s with a non-empty mempool", c.ID)
	}
	gen, err := c.ExportGenesis()
	if err != nil {
		return nil, err
	}
	stateBytes, err := json.Marshal(gen)
	if err != nil {
		return nil, err
	}
	old := c.App
	from := c.MinVersion
	if from == 0 {
		from = 1
	}
	db := dbm.NewMemDB()
	app := simapp.NewSimApp(log.NewNopLogger(), db, nil, true, simtestutil.EmptyAppOptions{})
	baseapp.SetChainID(c.ID)(app.GetBaseApp())
	cp := *simtestutil.DefaultConsensusParams
	if c.Cfg.BlockMaxGas != 0 {
		cp.Block = &cmtproto.BlockParams{MaxBytes: 2000000, MaxGas: c.Cfg.BlockMaxGas}
	}
	var ic *abci.ResponseInitChain
	func() {
		defer func() {
			if r := recover(); r != nil {
				err = fmt.Errorf("panic: %v", r)
			}
		}()
		ic, err = app.InitChain(&abci.RequestInitChain{
			ChainId: c.ID, Validators: []abci.ValidatorUpdate{}, AppStateBytes: stateBytes,
			ConsensusParams: &cp, Time: c.LastTime, InitialHeight: c.Height + 1,
		})
	}()
	if err != nil {
		return gen, fmt.Errorf("InitChain from exported genesis: %w", err)
	}
	c.InitAppHash = ic.AppHash
	c.Past = append(c.Past, Incarnation{App: old, From: from, To: c.Height})
	c.App, c.DB = app, db
	c.MinVersion = c.Height + 1
	if c.OnRebuild != nil {
		c.OnRebuild(c)
	}
	if c.Stats != nil {
		c.Stats.Fault("chain.genesis_restart")
	}
	return gen, nil
}

// BlockWithLostCommit models a crash between FinalizeBlock and the durable Commit: the block is
// executed and committed, then the chain is rolled back to the database snapshot taken before,
// the application is rebuilt from it (a node restart), and the SAME block is proposed again.
// It returns the results of the second execution and whether both executions produced the
// same app hash.
func (c *Chain) BlockWithLostCommit(propose func() []*TxResult) ([]*TxResult, bool, []byte, []byte) {
	snap := c.SnapshotDB()
	h, lt := c.Height, c.LastTime
	vals, nvals := c.Vals, c.NextVals
	nres := len(c.Results)
	mem := append([]*TxSpec{}, c.Mempool...)
	type accSt struct {
		seq uint64
		in  bool
	}
	accs := make([]accSt, len(c.Accounts))
	for i, a := range c.Accounts {
		accs[i] = accSt{a.Seq, a.inPool}
	}
	stats := *c.Stats
	propose()
	hash1 := append([]byte{}, c.AppHash()...)
	// crash: nothing of that commit survived
	c.DB = snap
	c.Height, c.LastTime, c.Vals, c.NextVals = h, lt, vals, nvals
	delete(c.Headers, h+1)
	c.Results = c.Results[:nres]
	c.Mempool = mem
	for i, a := range c.Accounts {
		a.Seq, a.inPool = accs[i].seq, accs[i].in
	}
	faults, probes := c.Stats.Faults, c.Stats.Probes
	*c.Stats = stats
	c.Stats.Faults, c.Stats.Probes = faults, probes
	c.App = simapp.NewSimApp(log.NewNopLogger(), c.DB, nil, true, simtestutil.EmptyAppOptions{})
	baseapp.SetChainID(c.ID)(c.App.GetBaseApp())
	if c.App.LastBlockHeight() != h {
		Failf("lost commit on %s: restored height %d != %d", c.ID, c.App.LastBlockHeight(), h)
	}
	if c.OnRebuild != nil {
		c.OnRebuild(c)
	}
	c.Stats.Fault("chain.lost_commit")
	res := propose()
	hash2 := c.AppHash()
	return res, bytes.Equal(hash1, hash2), hash1, hash2
}
