package sim

import (
	"encoding/json"
	"os"
	"strings"
)

// KnownFinding is one entry of /verif/known_findings.json. The file is committed and never
// written at run time.
type KnownFinding struct {
	Property    string `json:"property"`
	Signature   string `json:"signature"`   // exact signature string emitted by the oracle
	Description string `json:"description"` // what fails, for the KNOWN-FINDING line
	Status      string `json:"status"`      // "open" (suppresses, prints KNOWN-FINDING) or "fixed" (suppresses nothing)
	Commit      string `json:"commit,omitempty"`
}

type KnownFindings struct {
	Entries []KnownFinding `json:"findings"`
}

func LoadKnownFindings(path string) *KnownFindings {
	k := &KnownFindings{}
	bz, err := os.ReadFile(path)
	if err != nil {
		return k
	}
	if err := json.Unmarshal(bz, k); err != nil {
		Failf("known findings file %s: %v", path, err)
	}
	return k
}

// Matches reports whether an open finding lists exactly this (property, signature).
func (k *KnownFindings) Matches(prop, sig string) bool {
	for _, e := range k.Entries {
		if e.Status == "open" && e.Property == prop && e.Signature == sig {
			return true
		}
	}
	return false
}

func (k *KnownFindings) Describe(prop, sig string) string {
	for _, e := range k.Entries {
		if e.Property == prop && e.Signature == sig {
			return strings.TrimSpace(e.Description)
		}
	}
	return sig
}
