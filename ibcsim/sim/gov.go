package sim

import (
	"fmt"
	"strconv"
	"time"

	sdkmath "cosmossdk.io/math"

	sdk "github.com/cosmos/cosmos-sdk/types"
	authtypes "github.com/cosmos/cosmos-sdk/x/auth/types"
	govtypes "github.com/cosmos/cosmos-sdk/x/gov/types"
	govv1 "github.com/cosmos/cosmos-sdk/x/gov/types/v1"
)

// Authority is the address privileged messages must be signed by: the gov module account.
func Authority() string { return authtypes.NewModuleAddress(govtypes.ModuleName).String() }

// GovVotingPeriod reads the voting period from the chain's gov params.
func (c *Chain) GovVotingPeriod() time.Duration {
	p, err := c.App.GovKeeper.Params.Get(c.QueryCtx())
	Must(err, "gov params")
	return *p.VotingPeriod
}

// MsgGovProposal wraps privileged messages (signed by the gov authority) into a proposal
// submitted by the genesis delegator (account 0), who holds all voting power.
func (c *Chain) MsgGovProposal(title string, msgs ...sdk.Msg) sdk.Msg {
	dep := sdk.NewCoins(sdk.NewCoin(sdk.DefaultBondDenom, sdkmath.NewInt(1000)))
	m, err := govv1.NewMsgSubmitProposal(msgs, dep, c.Accounts[AccGov].String(), "", title, title, false)
	Must(err, "MsgSubmitProposal")
	return m
}

// ProposalID extracts the proposal id from the events of a submit-proposal transaction.
func ProposalID(r *TxResult) (uint64, bool) {
	v, ok := EventAttr(r.Events, "submit_proposal", "proposal_id")
	if !ok {
		return 0, false
	}
	id, err := strconv.ParseUint(v, 10, 64)
	return id, err == nil
}

// MsgVoteYes is the delegator's yes vote.
func (c *Chain) MsgVoteYes(id uint64) sdk.Msg {
	return govv1.NewMsgVote(c.Accounts[AccGov].Addr, id, govv1.OptionYes, "")
}

// ProposalStatus reads the status of a proposal (unspecified when it does not exist).
func (c *Chain) ProposalStatus(id uint64) (govv1.ProposalStatus, string) {
	p, err := c.App.GovKeeper.Proposals.Get(c.QueryCtx(), id)
	if err != nil {
		return govv1.StatusNil, err.Error()
	}
	return p.Status, p.FailedReason
}

// GovExecNow runs a proposal to completion in consecutive blocks of this chain: submit, vote,
// one block after the voting period. Used for world construction and for governance-gated
// operations whose exact timing is not the subject of the run. It returns whether the proposal
// passed AND its messages executed, plus the failure reason.
func (c *Chain) GovExecNow(title string, msgs ...sdk.Msg) (bool, string) {
	gov := c.Accounts[AccGov]
	if len(c.Mempool) != 0 {
		c.ProduceBlock(DefaultBlockInterval)
	}
	r := c.Deliver(DefaultBlockInterval, gov, 0, c.MsgGovProposal(title, msgs...))
	if !r.OK() {
		return false, "submit: " + r.Log
	}
	id, ok := ProposalID(r)
	if !ok {
		return false, "no proposal id"
	}
	r = c.Deliver(DefaultBlockInterval, gov, 0, c.MsgVoteYes(id))
	if !r.OK() {
		return false, "vote: " + r.Log
	}
	c.ProduceBlock(c.GovVotingPeriod() + time.Second)
	st, why := c.ProposalStatus(id)
	if st != govv1.StatusPassed {
		return false, fmt.Sprintf("status %s: %s", st, why)
	}
	return true, ""
}
