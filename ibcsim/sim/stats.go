package sim

import (
	"sort"
	"time"
)

// Stats counts what one or more worlds actually did. All counters are measured.
type Stats struct {
	Worlds   int
	Blocks   int
	Txs      int
	TxsOK    int
	SimTime  time.Duration // simulated time covered, summed over chains
	Faults   map[string]int
	Probes   map[string]int
	Ops      int
	OpsNoop  int
	Sigs     map[string]int // distinct interleaving / case signatures (value = times seen)
	Nontriv  map[string]int // distinct non-trivial case signatures
	Samples  []any
	maxSamp  int
	KnownHit map[string]int // known-finding signature -> observations
}

func NewStats() *Stats {
	return &Stats{Faults: map[string]int{}, Probes: map[string]int{}, Sigs: map[string]int{}, Nontriv: map[string]int{}, KnownHit: map[string]int{}, maxSamp: 3}
}

func (s *Stats) Fault(kind string)         { s.Faults[kind]++ }
func (s *Stats) Probe(name string)         { s.Probes[name]++ }
func (s *Stats) ProbeN(name string, n int) { s.Probes[name] += n }
func (s *Stats) Sig(sig string)            { s.Sigs[sig]++ }
func (s *Stats) NonTrivial(sig string)     { s.Nontriv[sig]++ }
func (s *Stats) Sample(v any) {
	if len(s.Samples) < s.maxSamp {
		s.Samples = append(s.Samples, v)
	}
}

// Merge adds o into s.
func (s *Stats) Merge(o *Stats) {
	s.Worlds += o.Worlds
	s.Blocks += o.Blocks
	s.Txs += o.Txs
	s.TxsOK += o.TxsOK
	s.SimTime += o.SimTime
	s.Ops += o.Ops
	s.OpsNoop += o.OpsNoop
	for k, v := range o.Faults {
		s.Faults[k] += v
	}
	for k, v := range o.Probes {
		s.Probes[k] += v
	}
	for k, v := range o.Sigs {
		s.Sigs[k] += v
	}
	for k, v := range o.Nontriv {
		s.Nontriv[k] += v
	}
	for k, v := range o.KnownHit {
		s.KnownHit[k] += v
	}
	for _, x := range o.Samples {
		s.Sample(x)
	}
}

func sortedIntMap(m map[string]int) []string {
	ks := make([]string, 0, len(m))
	for k := range m {
		ks = append(ks, k)
	}
	sort.Strings(ks)
	return ks
}
