package sim

import (
	"crypto/sha256"
	"encoding/hex"
	"encoding/json"
	"fmt"
	"os"
	"os/exec"
	"path/filepath"
	"sort"
	"strings"
	"sync"
	"time"

	"github.com/cosmos/gogoproto/proto"
)

// ---- C45: identical histories produce identical state -----------------------------------------
//
// A world's digest covers everything the property names: the app hash after EVERY block of
// every chain, the exported genesis of every chain at the end, and query results whose order the
// modules define. The check runs a world in one process (GOMAXPROCS=1), records its operation
// list, re-executes that list in a second fresh process (GOMAXPROCS=16; Go picks a new map
// iteration seed per process) and compares the digests line by line.

// DigestLines renders the state history of a finished world.
func DigestLines(w *World) []string {
	var out []string
	for _, c := range w.Chains {
		var hs []int64
		for h := range c.Headers {
			hs = append(hs, h)
		}
		sort.Slice(hs, func(i, j int) bool { return hs[i] < hs[j] })
		h := sha256.New()
		for _, x := range hs {
			fmt.Fprintf(h, "%d:%X;", x, c.Headers[x].AppHash)
		}
		out = append(out, fmt.Sprintf("apphashes %s blocks=%d %s last=%X", c.ID, len(hs), hex.EncodeToString(h.Sum(nil))[:24], c.AppHash()))
		gen, err := c.ExportGenesis()
		if err != nil {
			out = append(out, fmt.Sprintf("genesis %s ERROR %v", c.ID, err))
		} else {
			for _, m := range SortedKeys(gen) {
				sum := sha256.Sum256(CanonicalJSON(map[string]json.RawMessage{m: gen[m]}))
				out = append(out, fmt.Sprintf("genesis %s %s %x", c.ID, m, sum[:10]))
			}
		}
		out = append(out, orderedQueries(c)...)
	}
	return out
}

func digestProtoList[T any](name string, c *Chain, xs []T) string {
	h := sha256.New()
	for _, x := range xs {
		if pm, ok := any(&x).(proto.Message); ok {
			bz, _ := proto.Marshal(pm)
			h.Write(bz)
		} else {
			fmt.Fprintf(h, "%v", x)
		}
		h.Write([]byte{0})
	}
	return fmt.Sprintf("query %s %s n=%d %x", c.ID, name, len(xs), h.Sum(nil)[:10])
}

// orderedQueries lists results whose order the module defines (keeper iteration order).
func orderedQueries(c *Chain) []string {
	ctx := c.QueryCtx()
	k := c.App.IBCKeeper
	var out []string
	out = append(out, digestProtoList("clients", c, []any{fmt.Sprint(k.ClientKeeper.GetAllGenesisClients(ctx))}))
	out = append(out, digestProtoList("connections", c, k.ConnectionKeeper.GetAllConnections(ctx)))
	out = append(out, digestProtoList("channels", c, k.ChannelKeeper.GetAllChannels(ctx)))
	out = append(out, digestProtoList("commitments", c, k.ChannelKeeper.GetAllPacketCommitments(ctx)))
	out = append(out, digestProtoList("acks", c, k.ChannelKeeper.GetAllPacketAcks(ctx)))
	out = append(out, digestProtoList("receipts", c, k.ChannelKeeper.GetAllPacketReceipts(ctx)))
	out = append(out, digestProtoList("denoms", c, c.App.TransferKeeper.GetAllDenoms(ctx)))
	out = append(out, digestProtoList("escrow", c, []any{c.App.TransferKeeper.GetAllTotalEscrowed(ctx).String()}))
	out = append(out, digestProtoList("ratelimits", c, c.App.RateLimitKeeper.GetAllRateLimits(ctx)))
	return out
}

// DigestFile is what a digest run writes: the configuration, the operation list and the lines.
type DigestFile struct {
	Check string      `json:"check"`
	Cfg   WorldConfig `json:"config"`
	Ops   []Op        `json:"events"`
	Lines []string    `json:"digest"`
	Viol  []Violation `json:"violations,omitempty"`
}

// RunDigest runs one world (from its generator when ops == nil, else from the op list) and
// returns its digest file.
func RunDigest(ck *Check, cfg WorldConfig, ops []Op, known *KnownFindings) *DigestFile {
	w := RunOne(ck, cfg, ops, known, nil)
	return &DigestFile{Check: ck.Prop, Cfg: cfg, Ops: w.Log, Lines: DigestLines(w), Viol: w.Viol}
}

// RunC45 is the body of `ibcsim check -prop C45`.
func RunC45(self *Check, lookup func(string) *Check, bases []string, o RunOptions) int {
	t0 := time.Now()
	n := self.Worlds[o.Tier]
	if o.MaxWorlds > 0 {
		n = o.MaxWorlds
	}
	tmp, err := os.MkdirTemp("/var/tmp", "verif-c45.")
	if err != nil {
		fmt.Fprintln(os.Stderr, "HARNESS ERROR:", err)
		return ExitHarness
	}
	defer os.RemoveAll(tmp)
	type outcome struct {
		idx      int
		base     string
		harness  string
		mismatch []string
		lines    int
		blocks   string
		file     string
		inworld  []Violation
	}
	results := make([]outcome, n)
	sem := make(chan struct{}, o.Workers/2+1)
	var wg sync.WaitGroup
	for i := 0; i < n; i++ {
		wg.Add(1)
		go func(i int) {
			defer wg.Done()
			sem <- struct{}{}
			defer func() { <-sem }()
			base := bases[i%len(bases)]
			f1 := filepath.Join(tmp, fmt.Sprintf("w%d.a.json", i))
			f2 := filepath.Join(tmp, fmt.Sprintf("w%d.b.json", i))
			run := func(gomax string, args ...string) error {
				cmd := exec.Command(o.SelfExe, args...)
				cmd.Env = append(os.Environ(), "GOMAXPROCS="+gomax)
				out, err := cmd.CombinedOutput()
				if err != nil {
					return fmt.Errorf("%v: %s", err, tail(string(out), 1500))
				}
				return nil
			}
			res := outcome{idx: i, base: base}
			if err := run("1", "digest", "-prop", base, "-tier", o.Tier, "-seed", fmt.Sprint(o.Seed), "-i", fmt.Sprint(i), "-verif", o.VerifDir, "-out", f1); err != nil {
				res.harness = err.Error()
				results[i] = res
				return
			}
			if err := run("16", "digest", "-from", f1, "-verif", o.VerifDir, "-out", f2); err != nil {
				res.harness = err.Error()
				results[i] = res
				return
			}
			var a, b DigestFile
			ba, _ := os.ReadFile(f1)
			bb, _ := os.ReadFile(f2)
			if json.Unmarshal(ba, &a) != nil || json.Unmarshal(bb, &b) != nil {
				res.harness = "cannot parse digest files"
				results[i] = res
				return
			}
			res.lines = len(a.Lines)
			res.inworld = a.Viol
			for j := 0; j < len(a.Lines) || j < len(b.Lines); j++ {
				var x, y string
				if j < len(a.Lines) {
					x = a.Lines[j]
				}
				if j < len(b.Lines) {
					y = b.Lines[j]
				}
				if x != y {
					res.mismatch = append(res.mismatch, fmt.Sprintf("process A (GOMAXPROCS=1): %s | process B (GOMAXPROCS=16): %s", x, y))
				}
			}
			if len(a.Lines) > 0 {
				res.blocks = a.Lines[0]
			}
			if len(res.mismatch) > 0 || len(a.Viol) > 0 {
				keep := filepath.Join(o.VerifDir, "replays", fmt.Sprintf("C45-%d-%d.json", o.Seed, i))
				os.MkdirAll(filepath.Dir(keep), 0o755)
				os.WriteFile(keep, ba, 0o644)
				res.file = keep
			}
			results[i] = res
		}(i)
	}
	wg.Wait()
	exit := ExitOK
	violations := 0
	var samples []any
	distinct := map[string]bool{}
	for _, r := range results {
		if r.harness != "" {
			fmt.Fprintf(os.Stderr, "HARNESS ERROR in world %d (%s): %s\n", r.idx, r.base, r.harness)
			return ExitHarness
		}
		distinct[r.blocks] = true
		if len(samples) < 3 {
			samples = append(samples, map[string]any{"world": r.idx, "history_of": r.base, "digest_lines": r.lines, "first_line": r.blocks})
		}
		if len(r.mismatch) > 0 {
			violations++
			fmt.Printf("world %d (history from the %s profile): two processes executing the same history disagree:\n  %s\n", r.idx, r.base, strings.Join(r.mismatch[:min(3, len(r.mismatch))], "\n  "))
			fmt.Printf("VIOLATION property=C45 replay=%s\n", r.file)
			exit = ExitViolation
		}
		for _, v := range r.inworld {
			if v.Prop == "C45" {
				violations++
				fmt.Printf("%s\nVIOLATION property=C45 replay=%s\n", v.Detail, r.file)
				exit = ExitViolation
			}
		}
	}
	wall := time.Since(t0).Seconds()
	ev := map[string]any{
		"property_id": "C45", "tier": o.Tier, "seed": o.Seed, "level": self.Level, "wall_s": wall, "violations": violations,
		"assumptions": self.Assumptions,
		"coverage": map[string]any{
			"evaluations": n, "distinct_nontrivial": len(distinct), "rule": self.Rule, "samples": samples,
			"worlds": n, "processes_per_world": 2, "gomaxprocs": []int{1, 16}, "history_sources": bases,
			"seeds_per_hour": int(float64(n) / wall * 3600), "components": self.Components, "exhaustive": false,
		},
	}
	os.MkdirAll(filepath.Join(o.VerifDir, "evidence"), 0o755)
	bz, _ := json.MarshalIndent(ev, "", " ")
	if err := os.WriteFile(filepath.Join(o.VerifDir, "evidence", "C45.json"), bz, 0o644); err != nil {
		return ExitHarness
	}
	fmt.Printf("C45 %s: %d histories x 2 processes, %d distinct histories, %.1fs, exit %d\n", o.Tier, n, len(distinct), wall, exit)
	if exit == ExitOK && len(distinct) < 2 {
		fmt.Fprintln(os.Stderr, "HARNESS ERROR: fewer than 2 distinct histories")
		return ExitHarness
	}
	return exit
}
