package sim

import (
	"bytes"
	"crypto/sha256"
	"encoding/hex"
	"encoding/json"
	"fmt"
	"os"
	"os/exec"
	"path/filepath"
	"runtime"
	"sort"
	"strconv"
	"strings"
	"sync"
	"time"
)

// Check describes how one property is decided.
type Check struct {
	Prop        string
	Level       string // exploration | fault_enumeration
	Rule        string // how cases are generated and what makes one non-trivial/distinct
	Assumptions []string
	Components  map[string][]string // real / stub
	NewProfile  func(cfg WorldConfig) Profile
	// MakeConfig draws the configuration of world number i from its seed.
	MakeConfig func(tier string, worldSeed int64) WorldConfig
	// Worlds is the number of worlds per tier.
	Worlds map[string]int
	// RequiredFaults / RequiredProbes must have fired at least once over a whole batch; if
	// not, the workload is broken (exit 2), because the check could not have failed.
	RequiredFaults []string
	RequiredProbes []string
	// NonTrivPrefixes selects which non-trivial case signatures count for this property
	// (nil = all).
	NonTrivPrefixes []string
	// Custom, when set, replaces the generic world-batch runner (C45 compares processes).
	Custom func(o RunOptions) int
}

func (ck *Check) countNonTrivial(st *Stats) int {
	if ck.NonTrivPrefixes == nil {
		return len(st.Nontriv)
	}
	n := 0
	for k := range st.Nontriv {
		for _, p := range ck.NonTrivPrefixes {
			if strings.HasPrefix(k, p) {
				n++
				break
			}
		}
	}
	return n
}

// Failure is one violating world found by a worker.
type Failure struct {
	Index     int         `json:"index"`
	Cfg       WorldConfig `json:"config"`
	Ops       []Op        `json:"ops"`
	Violation Violation   `json:"violation"`
	StateHash string      `json:"state_hash"`
}

// ReplayFile is what a VIOLATION line points to.
type ReplayFile struct {
	Property  string      `json:"property"`
	Check     string      `json:"check"` // registered check whose profile executes the trace
	Class     string      `json:"violation_class"`
	Detail    string      `json:"detail"`
	Seed      int64       `json:"seed"`
	Profile   string      `json:"profile"`
	Cfg       WorldConfig `json:"config"`
	Ops       []Op        `json:"events"`
	StateHash string      `json:"state_hash_at_failure"`
	Minimised bool        `json:"minimised"`
	OrigOps   int         `json:"original_event_count"`
}

type WorkerResult struct {
	Stats    *Stats    `json:"stats"`
	Failures []Failure `json:"failures"`
	Harness  string    `json:"harness_error,omitempty"`
	Worlds   int       `json:"worlds"`
}

// WorldSeed derives the seed of world i of a batch from the batch seed.
func WorldSeed(base int64, prop string, i int) int64 {
	h := sha256.Sum256([]byte(fmt.Sprintf("%d/%s/%d", base, prop, i)))
	var v int64
	for k := 0; k < 8; k++ {
		v = v<<8 | int64(h[k])
	}
	if v < 0 {
		v = -v
	}
	return v
}

// StateHash summarises every chain's committed app hash.
func (w *World) StateHash() string {
	h := sha256.New()
	for _, c := range w.Chains {
		fmt.Fprintf(h, "%s/%d/", c.ID, c.Height)
		h.Write(c.AppHash())
	}
	return hex.EncodeToString(h.Sum(nil))[:32]
}

// RunOne runs world (cfg) either from its generator (ops == nil) or from a recorded op list.
// Harness errors propagate as panics of type HarnessError.
func RunOne(ck *Check, cfg WorldConfig, ops []Op, known *KnownFindings, trace func(string)) *World {
	w := NewWorld(cfg, known)
	w.Trace = trace
	p := ck.NewProfile(cfg)
	if ops == nil {
		w.Run(p)
	} else {
		w.RunOps(p, ops)
	}
	return w
}

// Worker runs worlds from..to (step) of the batch and returns the merged result.
func Worker(ck *Check, tier string, base int64, from, to, step int, known *KnownFindings, deadline time.Time) (res *WorkerResult) {
	res = &WorkerResult{Stats: NewStats()}
	defer func() {
		if r := recover(); r != nil {
			res.Harness = fmt.Sprintf("%v", r)
			if _, ok := r.(HarnessError); !ok {
				buf := make([]byte, 1<<14)
				n := runtime.Stack(buf, false)
				res.Harness += "\n" + string(buf[:n])
			}
		}
	}()
	for i := from; i < to; i += step {
		if !deadline.IsZero() && time.Now().After(deadline) {
			break
		}
		ws := WorldSeed(base, ck.Prop, i)
		cfg := ck.MakeConfig(tier, ws)
		cfg.Seed = ws
		if len(cfg.Armed) == 0 {
			cfg.Armed = []string{ck.Prop}
		}
		if extra := os.Getenv("VERIF_ARM_EXTRA"); extra != "" { // development aid only
			cfg.Armed = append(cfg.Armed, strings.Split(extra, ",")...)
		}
		w := RunOne(ck, cfg, nil, known, nil)
		res.Worlds++
		res.Stats.Merge(w.Stats)
		res.Stats.Sig(w.Signature())
		if len(w.Viol) > 0 {
			res.Failures = append(res.Failures, Failure{Index: i, Cfg: cfg, Ops: w.Log, Violation: w.Viol[0], StateHash: w.StateHash()})
			if len(res.Failures) >= 2 {
				break
			}
		}
	}
	return res
}

// reproduces reports whether running ops under cfg yields a violation of the same property
// and class; it returns the world.
func reproduces(ck *Check, cfg WorldConfig, ops []Op, known *KnownFindings, prop, class string) (w *World, ok bool) {
	defer func() {
		if r := recover(); r != nil {
			ok = false
		}
	}()
	w = RunOne(ck, cfg, ops, known, nil)
	if len(w.Viol) > 0 && w.Viol[0].Prop == prop && w.Viol[0].Class == class {
		return w, true
	}
	return w, false
}

// Minimise shrinks the op list with ddmin while the same violation class persists.
func Minimise(ck *Check, f Failure, known *KnownFindings, budget time.Duration) (ops []Op, runs int) {
	start := time.Now()
	prop, class := f.Violation.Prop, f.Violation.Class
	ops = f.Ops
	// cut everything after the violating op
	if f.Violation.OpIdx+1 < len(ops) {
		cut := ops[:f.Violation.OpIdx+1]
		runs++
		if _, ok := reproduces(ck, f.Cfg, cut, known, prop, class); ok {
			ops = cut
		}
	}
	// slice by entity: keep only the operations that carry the tag of the violating operation
	// (or of the last tagged operation before it) plus untagged ones (blocks, clocks, updates)
	for try := 0; try < 2 && len(ops) > 2; try++ {
		var tag int64
		for i := len(ops) - 1; i >= 0; i-- {
			if ops[i].T != 0 {
				tag = ops[i].T
				break
			}
		}
		if tag == 0 {
			break
		}
		var cand []Op
		for _, o := range ops {
			if o.T == 0 || o.T == tag {
				cand = append(cand, o)
			}
		}
		if len(cand) == len(ops) {
			break
		}
		runs++
		if _, ok := reproduces(ck, f.Cfg, cand, known, prop, class); ok {
			ops = cand
		} else {
			break
		}
	}
	n := 2
	for len(ops) >= 2 && time.Since(start) < budget {
		chunk := (len(ops) + n - 1) / n
		reduced := false
		for i := 0; i < len(ops) && time.Since(start) < budget; i += chunk {
			end := i + chunk
			if end > len(ops) {
				end = len(ops)
			}
			cand := append(append([]Op{}, ops[:i]...), ops[end:]...)
			if len(cand) == 0 {
				continue
			}
			runs++
			if _, ok := reproduces(ck, f.Cfg, cand, known, prop, class); ok {
				ops = cand
				if n > 2 {
					n--
				}
				reduced = true
				break
			}
		}
		if !reduced {
			if chunk <= 1 {
				break
			}
			n *= 2
			if n > len(ops) {
				n = len(ops)
			}
		}
	}
	return ops, runs
}

// ---- parent side ----------------------------------------------------------------------------

type RunOptions struct {
	Tier      string
	Seed      int64
	Workers   int
	VerifDir  string
	SelfExe   string
	MaxWorlds int           // override (0 = per check)
	Budget    time.Duration // wall-clock cap for the search (0 = none)
}

// exit codes
const (
	ExitOK        = 0
	ExitViolation = 1
	ExitHarness   = 2
)

// RunCheck is the body of `ibcsim check`: spawn workers, merge, minimise, confirm replay,
// write evidence. It returns the process exit code.
func RunCheck(ck *Check, o RunOptions) int {
	t0 := time.Now()
	known := LoadKnownFindings(filepath.Join(o.VerifDir, "known_findings.json"))
	nWorlds := ck.Worlds[o.Tier]
	if o.MaxWorlds > 0 {
		nWorlds = o.MaxWorlds
	}
	if nWorlds == 0 {
		nWorlds = 16
	}
	workers := o.Workers
	if workers > nWorlds {
		workers = nWorlds
	}
	results := make([]*WorkerResult, workers)
	var wg sync.WaitGroup
	for k := 0; k < workers; k++ {
		wg.Add(1)
		go func(k int) {
			defer wg.Done()
			args := []string{"worker", "-prop", ck.Prop, "-tier", o.Tier, "-seed", strconv.FormatInt(o.Seed, 10),
				"-from", strconv.Itoa(k), "-to", strconv.Itoa(nWorlds), "-step", strconv.Itoa(workers), "-verif", o.VerifDir}
			if o.Budget > 0 {
				args = append(args, "-budget", o.Budget.String())
			}
			cmd := exec.Command(o.SelfExe, args...)
			cmd.Env = append(os.Environ(), "GOMAXPROCS=2")
			var out, errb bytes.Buffer
			cmd.Stdout, cmd.Stderr = &out, &errb
			err := cmd.Run()
			r := &WorkerResult{}
			if jerr := json.Unmarshal(out.Bytes(), r); jerr != nil {
				r = &WorkerResult{Stats: NewStats(), Harness: fmt.Sprintf("worker %d: %v / %v\nstderr: %s\nstdout: %.2000s", k, err, jerr, tail(errb.String(), 3000), out.String())}
			}
			results[k] = r
		}(k)
	}
	wg.Wait()

	stats := NewStats()
	var failures []Failure
	var harness []string
	worlds := 0
	for _, r := range results {
		if r.Stats != nil {
			stats.Merge(r.Stats)
		}
		worlds += r.Worlds
		failures = append(failures, r.Failures...)
		if r.Harness != "" {
			harness = append(harness, r.Harness)
		}
	}
	if len(harness) > 0 {
		fmt.Fprintf(os.Stderr, "HARNESS ERROR (%d workers):\n%s\n", len(harness), harness[0])
		return ExitHarness
	}
	sort.Slice(failures, func(i, j int) bool { return failures[i].Index < failures[j].Index })

	violations := 0
	exit := ExitOK
	if len(failures) > 0 {
		f := failures[0]
		fmt.Printf("violation found in world %d (seed %d): %s %s: %s\n", f.Index, f.Cfg.Seed, f.Violation.Prop, f.Violation.Class, f.Violation.Detail)
		origN := len(f.Ops)
		budget := 90 * time.Second
		if o.Tier == "thorough" {
			budget = 5 * time.Minute
		}
		ops, runs := Minimise(ck, f, known, budget)
		w, ok := reproduces(ck, f.Cfg, ops, known, f.Violation.Prop, f.Violation.Class)
		if !ok {
			// fall back to the unminimised trace
			ops = f.Ops
			w, ok = reproduces(ck, f.Cfg, ops, known, f.Violation.Prop, f.Violation.Class)
		}
		if !ok {
			fmt.Fprintf(os.Stderr, "HARNESS ERROR: violation of %s (%s) in world %d did not reproduce in-process; not reported\n", f.Violation.Prop, f.Violation.Class, f.Index)
			return ExitHarness
		}
		rf := ReplayFile{Check: ck.Prop, Property: f.Violation.Prop, Class: f.Violation.Class, Detail: w.Viol[0].Detail, Seed: f.Cfg.Seed, Profile: f.Cfg.Profile,
			Cfg: f.Cfg, Ops: ops, StateHash: w.StateHash(), Minimised: len(ops) < origN, OrigOps: origN}
		dir := filepath.Join(o.VerifDir, "replays")
		os.MkdirAll(dir, 0o755)
		path := filepath.Join(dir, fmt.Sprintf("%s-%d-%d.json", ck.Prop, o.Seed, f.Index))
		bz, _ := json.MarshalIndent(rf, "", " ")
		if err := os.WriteFile(path, bz, 0o644); err != nil {
			fmt.Fprintf(os.Stderr, "HARNESS ERROR: cannot write replay file: %v\n", err)
			return ExitHarness
		}
		fmt.Printf("minimised %d -> %d events in %d runs\n", origN, len(ops), runs)
		// confirm in a fresh process
		cmd := exec.Command(o.SelfExe, "replay", "-verif", o.VerifDir, "-quiet", path)
		out, _ := cmd.CombinedOutput()
		if cmd.ProcessState == nil || cmd.ProcessState.ExitCode() != ExitViolation {
			fmt.Fprintf(os.Stderr, "HARNESS ERROR: replay of %s in a fresh process did not reproduce (exit %v):\n%s\n", path, cmd.ProcessState, tail(string(out), 2000))
			return ExitHarness
		}
		fmt.Printf("%s\n", rf.Detail)
		fmt.Printf("VIOLATION property=%s replay=%s\n", f.Violation.Prop, path)
		violations = len(failures)
		exit = ExitViolation
	}

	// known findings observed
	for _, k := range sortedIntMap(stats.KnownHit) {
		parts := strings.SplitN(k, " ", 2)
		fmt.Printf("KNOWN-FINDING: property=%s %s (observed %d times; signature %q)\n", parts[0], known.Describe(parts[0], parts[1]), stats.KnownHit[k], parts[1])
	}

	// the workload must have been able to fail
	if exit == ExitOK {
		for _, fk := range ck.RequiredFaults {
			if stats.Faults[fk] == 0 {
				fmt.Fprintf(os.Stderr, "HARNESS ERROR: fault kind %q never fired in %d worlds\n", fk, worlds)
				exit = ExitHarness
			}
		}
		for _, pk := range ck.RequiredProbes {
			if stats.Probes[pk] == 0 {
				fmt.Fprintf(os.Stderr, "HARNESS ERROR: probe %q never hit in %d worlds\n", pk, worlds)
				exit = ExitHarness
			}
		}
	}

	wall := time.Since(t0).Seconds()
	ev := map[string]any{
		"property_id": ck.Prop,
		"tier":        o.Tier,
		"seed":        o.Seed,
		"level":       ck.Level,
		"wall_s":      wall,
		"violations":  violations,
		"assumptions": ck.Assumptions,
		"coverage": map[string]any{
			"evaluations":            worlds,
			"distinct_nontrivial":    ck.countNonTrivial(stats),
			"rule":                   ck.Rule,
			"samples":                stats.Samples,
			"worlds":                 worlds,
			"seeds_per_hour":         int(float64(worlds) / wall * 3600),
			"sim_time_s":             int64(stats.SimTime.Seconds()),
			"blocks":                 stats.Blocks,
			"txs":                    stats.Txs,
			"txs_ok":                 stats.TxsOK,
			"ops":                    stats.Ops,
			"ops_noop":               stats.OpsNoop,
			"faults_fired":           stats.Faults,
			"probes":                 stats.Probes,
			"distinct_interleavings": len(stats.Sigs),
			"known_findings_seen":    stats.KnownHit,
			"components":             ck.Components,
			"exhaustive":             false,
		},
	}
	if len(stats.Samples) == 0 {
		ev["coverage"].(map[string]any)["samples"] = []any{"(no sample recorded)"}
	}
	os.MkdirAll(filepath.Join(o.VerifDir, "evidence"), 0o755)
	bz, _ := json.MarshalIndent(ev, "", " ")
	if err := os.WriteFile(filepath.Join(o.VerifDir, "evidence", ck.Prop+".json"), bz, 0o644); err != nil {
		fmt.Fprintf(os.Stderr, "HARNESS ERROR: cannot write evidence: %v\n", err)
		return ExitHarness
	}
	fmt.Printf("%s %s: %d worlds, %d blocks, %d txs, %d distinct interleavings, %d non-trivial cases, %.1fs, exit %d\n",
		ck.Prop, o.Tier, worlds, stats.Blocks, stats.Txs, len(stats.Sigs), ck.countNonTrivial(stats), wall, exit)
	if exit == ExitOK && ck.countNonTrivial(stats) < 2 {
		fmt.Fprintf(os.Stderr, "HARNESS ERROR: fewer than 2 distinct non-trivial cases were explored\n")
		return ExitHarness
	}
	return exit
}

// ReplayMain re-executes a replay file; exit 1 + VIOLATION line when it reproduces exactly.
func ReplayMain(lookup func(prop string) *Check, path, verifDir string, quiet, trace bool) int {
	bz, err := os.ReadFile(path)
	if err != nil {
		fmt.Fprintf(os.Stderr, "cannot read %s: %v\n", path, err)
		return ExitHarness
	}
	var rf ReplayFile
	if err := json.Unmarshal(bz, &rf); err != nil {
		fmt.Fprintf(os.Stderr, "bad replay file: %v\n", err)
		return ExitHarness
	}
	if rf.Check == "" {
		rf.Check = rf.Property
	}
	ck := lookup(rf.Check)
	if ck == nil {
		fmt.Fprintf(os.Stderr, "unknown property %s\n", rf.Property)
		return ExitHarness
	}
	known := LoadKnownFindings(filepath.Join(verifDir, "known_findings.json"))
	var tr func(string)
	if trace {
		tr = func(s string) { fmt.Println(s) }
	}
	var w *World
	code := func() (code int) {
		defer func() {
			if r := recover(); r != nil {
				fmt.Fprintf(os.Stderr, "HARNESS ERROR during replay: %v\n", r)
				code = ExitHarness
			}
		}()
		w = RunOne(ck, rf.Cfg, rf.Ops, known, tr)
		return -1
	}()
	if code >= 0 {
		return code
	}
	if len(w.Viol) == 0 {
		fmt.Printf("replay of %s: no violation (property %s holds on this trace)\n", path, rf.Property)
		return ExitOK
	}
	v := w.Viol[0]
	if v.Prop != rf.Property || v.Class != rf.Class {
		fmt.Printf("replay of %s: different violation %s/%s (expected %s/%s): %s\n", path, v.Prop, v.Class, rf.Property, rf.Class, v.Detail)
		return ExitViolation
	}
	if rf.StateHash != "" && w.StateHash() != rf.StateHash {
		fmt.Fprintf(os.Stderr, "HARNESS ERROR: replay reached the same violation with a different state hash (%s != %s): nondeterminism\n", w.StateHash(), rf.StateHash)
		return ExitHarness
	}
	if !quiet {
		fmt.Printf("%s\n", v.Detail)
	}
	fmt.Printf("VIOLATION property=%s replay=%s\n", rf.Property, path)
	return ExitViolation
}

func tail(s string, n int) string {
	if len(s) > n {
		return s[len(s)-n:]
	}
	return s
}
