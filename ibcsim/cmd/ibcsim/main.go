// Command ibcsim is the deterministic simulator for cosmos/ibc-go.
//
//	ibcsim check  -prop C01 [-tier quick|thorough] [-verif /verif]     run a property check (VERIF_SEED, VERIF_TIER honoured)
//	ibcsim worker ...                                                    internal: one worker process of a check
//	ibcsim replay [-trace] <file>                                        re-execute a replay file
//	ibcsim world  -prop C01 -seed N [-trace]                             run a single world from its generator
//	ibcsim list                                                          list registered properties
package main

import (
	"encoding/json"
	"flag"
	"fmt"
	"os"
	"path/filepath"
	"runtime"
	"strconv"
	"time"

	"verif/ibcsim/prof"
	"verif/ibcsim/sim"
)

func main() {
	if len(os.Args) < 2 {
		fmt.Fprintln(os.Stderr, "usage: ibcsim check|worker|replay|world|list ...")
		os.Exit(sim.ExitHarness)
	}
	cmd, args := os.Args[1], os.Args[2:]
	switch cmd {
	case "list":
		for _, p := range prof.Props() {
			fmt.Println(p)
		}
	case "check":
		os.Exit(cmdCheck(args))
	case "worker":
		os.Exit(cmdWorker(args))
	case "replay":
		os.Exit(cmdReplay(args))
	case "world":
		os.Exit(cmdWorld(args))
	case "digest":
		os.Exit(cmdDigest(args))
	case "selftest-determinism":
		os.Exit(cmdDeterminism(args))
	default:
		fmt.Fprintf(os.Stderr, "unknown command %q\n", cmd)
		os.Exit(sim.ExitHarness)
	}
}

func envSeed() int64 {
	if s := os.Getenv("VERIF_SEED"); s != "" {
		if v, err := strconv.ParseInt(s, 10, 64); err == nil {
			return v
		}
	}
	return 1
}

func cmdCheck(args []string) int {
	fs := flag.NewFlagSet("check", flag.ExitOnError)
	prop := fs.String("prop", "", "property id")
	tier := fs.String("tier", "", "quick|thorough")
	verif := fs.String("verif", "/verif", "verif directory")
	workers := fs.Int("workers", 0, "worker processes (default: min(16, NumCPU))")
	worlds := fs.Int("worlds", 0, "override number of worlds")
	fs.Parse(args)
	if *tier == "" {
		*tier = os.Getenv("VERIF_TIER")
	}
	if *tier == "" {
		*tier = "quick"
	}
	ck := prof.Lookup(*prop)
	if ck == nil {
		fmt.Fprintf(os.Stderr, "unknown property %q\n", *prop)
		return sim.ExitHarness
	}
	n := *workers
	if n == 0 {
		n = runtime.NumCPU()
		if n > 16 {
			n = 16
		}
	}
	exe, err := os.Executable()
	if err != nil {
		fmt.Fprintln(os.Stderr, err)
		return sim.ExitHarness
	}
	seed := envSeed()
	fmt.Printf("ibcsim check %s tier=%s VERIF_SEED=%d workers=%d\n", *prop, *tier, seed, n)
	opts := sim.RunOptions{Tier: *tier, Seed: seed, Workers: n, VerifDir: *verif, SelfExe: exe, MaxWorlds: *worlds}
	if ck.Custom != nil {
		return ck.Custom(opts)
	}
	return sim.RunCheck(ck, opts)
}

// cmdDigest runs one world and writes its state-history digest (C45).
func cmdDigest(args []string) int {
	fs := flag.NewFlagSet("digest", flag.ExitOnError)
	prop := fs.String("prop", "", "check whose worlds are used as histories")
	tier := fs.String("tier", "quick", "")
	seed := fs.Int64("seed", 1, "")
	idx := fs.Int("i", 0, "")
	from := fs.String("from", "", "re-execute the operation list of this digest file")
	out := fs.String("out", "", "output file")
	verif := fs.String("verif", "/verif", "")
	fs.Parse(args)
	known := sim.LoadKnownFindings(filepath.Join(*verif, "known_findings.json"))
	var df *sim.DigestFile
	if *from != "" {
		bz, err := os.ReadFile(*from)
		if err != nil {
			fmt.Fprintln(os.Stderr, err)
			return sim.ExitHarness
		}
		var in sim.DigestFile
		if err := json.Unmarshal(bz, &in); err != nil {
			fmt.Fprintln(os.Stderr, err)
			return sim.ExitHarness
		}
		ck := prof.Lookup(in.Check)
		if ck == nil {
			return sim.ExitHarness
		}
		df = sim.RunDigest(ck, in.Cfg, in.Ops, known)
	} else {
		ck := prof.Lookup(*prop)
		if ck == nil {
			fmt.Fprintf(os.Stderr, "unknown check %q\n", *prop)
			return sim.ExitHarness
		}
		ws := sim.WorldSeed(*seed, "C45/"+ck.Prop, *idx)
		cfg := ck.MakeConfig(*tier, ws)
		cfg.Seed = ws
		cfg.Armed = []string{"C45"}
		df = sim.RunDigest(ck, cfg, nil, known)
	}
	bz, _ := json.MarshalIndent(df, "", " ")
	if *out == "" {
		os.Stdout.Write(bz)
		return 0
	}
	if err := os.WriteFile(*out, bz, 0o644); err != nil {
		fmt.Fprintln(os.Stderr, err)
		return sim.ExitHarness
	}
	return 0
}

func cmdWorker(args []string) int {
	fs := flag.NewFlagSet("worker", flag.ExitOnError)
	prop := fs.String("prop", "", "")
	tier := fs.String("tier", "quick", "")
	seed := fs.Int64("seed", 1, "")
	from := fs.Int("from", 0, "")
	to := fs.Int("to", 1, "")
	step := fs.Int("step", 1, "")
	verif := fs.String("verif", "/verif", "")
	budget := fs.Duration("budget", 0, "")
	fs.Parse(args)
	ck := prof.Lookup(*prop)
	if ck == nil {
		fmt.Fprintf(os.Stderr, "unknown property %q\n", *prop)
		return sim.ExitHarness
	}
	known := sim.LoadKnownFindings(filepath.Join(*verif, "known_findings.json"))
	var dl time.Time
	if *budget > 0 {
		dl = time.Now().Add(*budget)
	}
	res := sim.Worker(ck, *tier, *seed, *from, *to, *step, known, dl)
	bz, _ := json.Marshal(res)
	os.Stdout.Write(bz)
	return 0
}

func cmdReplay(args []string) int {
	fs := flag.NewFlagSet("replay", flag.ExitOnError)
	verif := fs.String("verif", "/verif", "")
	quiet := fs.Bool("quiet", false, "")
	trace := fs.Bool("trace", false, "")
	fs.Parse(args)
	if fs.NArg() != 1 {
		fmt.Fprintln(os.Stderr, "usage: ibcsim replay [-trace] <file>")
		return sim.ExitHarness
	}
	return sim.ReplayMain(prof.Lookup, fs.Arg(0), *verif, *quiet, *trace)
}

// cmdWorld runs one world of a check from its generator and prints what happened.
func cmdWorld(args []string) int {
	fs := flag.NewFlagSet("world", flag.ExitOnError)
	prop := fs.String("prop", "", "")
	tier := fs.String("tier", "quick", "")
	seed := fs.Int64("seed", 1, "batch seed")
	idx := fs.Int("i", 0, "world index")
	trace := fs.Bool("trace", false, "")
	verif := fs.String("verif", "/verif", "")
	arm := fs.String("arm", "", "comma separated extra properties to arm")
	fs.Parse(args)
	ck := prof.Lookup(*prop)
	if ck == nil {
		fmt.Fprintf(os.Stderr, "unknown property %q\n", *prop)
		return sim.ExitHarness
	}
	known := sim.LoadKnownFindings(filepath.Join(*verif, "known_findings.json"))
	ws := sim.WorldSeed(*seed, ck.Prop, *idx)
	cfg := ck.MakeConfig(*tier, ws)
	cfg.Seed = ws
	cfg.Armed = []string{ck.Prop}
	if *arm != "" {
		cfg.Armed = append(cfg.Armed, splitComma(*arm)...)
	}
	var tr func(string)
	if *trace {
		tr = func(s string) { fmt.Println(s) }
	}
	t0 := time.Now()
	w := sim.RunOne(ck, cfg, nil, known, tr)
	fmt.Printf("world seed=%d ops=%d noop=%d blocks=%d txs=%d ok=%d wall=%.2fs sig=%s hash=%s\n", ws, w.Stats.Ops, w.Stats.OpsNoop, w.Stats.Blocks, w.Stats.Txs, w.Stats.TxsOK, time.Since(t0).Seconds(), w.Signature(), w.StateHash())
	bz, _ := json.MarshalIndent(map[string]any{"faults": w.Stats.Faults, "probes": w.Stats.Probes, "nontrivial": len(w.Stats.Nontriv), "known": w.Stats.KnownHit}, "", " ")
	fmt.Println(string(bz))
	for _, v := range w.Viol {
		fmt.Printf("VIOLATION %s %s (op %d): %s\n", v.Prop, v.Class, v.OpIdx, v.Detail)
	}
	if len(w.Viol) > 0 {
		return sim.ExitViolation
	}
	return 0
}

func splitComma(s string) []string {
	var out []string
	cur := ""
	for _, c := range s {
		if c == ',' {
			if cur != "" {
				out = append(out, cur)
			}
			cur = ""
		} else {
			cur += string(c)
		}
	}
	if cur != "" {
		out = append(out, cur)
	}
	return out
}

// cmdDeterminism runs the same worlds in this process and prints a digest per world; the
// setup script runs it in several processes at different GOMAXPROCS and diffs the output.
func cmdDeterminism(args []string) int {
	fs := flag.NewFlagSet("selftest-determinism", flag.ExitOnError)
	prop := fs.String("prop", "C01", "")
	n := fs.Int("n", 4, "")
	from := fs.Int("from", 0, "")
	seed := fs.Int64("seed", 1, "")
	verif := fs.String("verif", "/verif", "")
	fs.Parse(args)
	ck := prof.Lookup(*prop)
	if ck == nil {
		return sim.ExitHarness
	}
	known := sim.LoadKnownFindings(filepath.Join(*verif, "known_findings.json"))
	for i := *from; i < *from+*n; i++ {
		ws := sim.WorldSeed(*seed, ck.Prop, i)
		cfg := ck.MakeConfig("quick", ws)
		cfg.Seed = ws
		cfg.Armed = []string{ck.Prop}
		w := sim.RunOne(ck, cfg, nil, known, nil)
		ops, _ := json.Marshal(w.Log)
		fmt.Printf("%s world %d seed %d ops %d sig %s state %s oplog %x viol %d\n", *prop, i, ws, len(w.Log), w.Signature(), w.StateHash(), sim.TxHash(ops), len(w.Viol))
	}
	return 0
}
