package prof

import (
	"verif/ibcsim/sim"
)

// FwdInfo links the legs of a packet-forward (PFM) route. Filled in by the forwarding
// extension of the token worlds.
type FwdInfo struct {
	Prev *PktState // leg that caused this one (nil for the origin leg)
	Next *PktState
}

func (p *Core) genForwardMemo(ri, d int) string { return "" }

func (p *Core) tokApplyForwardRecv(ci int, r *sim.TxResult, ps *PktState, ok bool) {}

func (p *Core) tokRefundForwarded(ci int, ps *PktState, why string) {}

