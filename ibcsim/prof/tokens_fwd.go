package prof

import (
	"encoding/hex"
	"encoding/json"
	"fmt"
	"sort"
	"strconv"
	"strings"
	"time"

	sdkmath "cosmossdk.io/math"

	transfertypes "github.com/cosmos/ibc-go/v11/modules/apps/transfer/types"
	channeltypes "github.com/cosmos/ibc-go/v11/modules/core/04-channel/types"
	ibctesting "github.com/cosmos/ibc-go/v11/testing"

	"verif/ibcsim/sim"
)

// ---- packet forwarding (C43) ---------------------------------------------------------------------
//
// A transfer whose memo reads {"forward":{"receiver","port","channel",["timeout"],["retries"],
// ["next"]}} is taken by the packet-forward middleware of the receiving chain: it credits the coins
// to a deterministic intermediate account, sends them on from that account inside the very receive
// transaction and acknowledges the first leg only when the next leg has terminated.
//
// The model below is written from the property statement, not from the middleware:
//
//   - what the intermediate chain credits is plain ICS-20 (voucher of the prefixed path, or the
//     coin released from the arrival channel's escrow when the packet unwinds);
//   - what it sends on is exactly that coin, over the channel and to the receiver the memo names
//     (burned when the coin returns over the channel it came from, escrowed otherwise);
//   - when the forward fails for good at a later hop, the intermediate chain ends where it
//     started: the model predicts the exact inverse of what it predicted for the hop;
//   - a re-send after a timeout moves nothing;
//   - whether a given timeout is answered by a re-send or by giving up is observed, not
//     predicted (bounded by the number of retries the memo asked for).
//
// The legs the middleware sends have no MsgTransfer of their own: they are recognised by the
// send_packet event of the receive (or timeout) transaction and become ordinary PktStates, so
// that the generic relayer (honest, duplicating, replaying, racing) carries them.

// FwdInfo links the legs of a packet-forward route.
type FwdInfo struct {
	Prev *PktState // leg that caused this one (nil for the origin leg)
	Next *PktState // newest leg sent on from this one's destination
	Root *fwdRoot
	Hop  int        // 0 = origin leg, k = leg sent by the k-th hop of the memo
	Try  int        // 0 = first send of this hop, n = n-th re-send after a timeout
	Led  *fwdLedger // set once this leg was received AND sent on: what its destination chain did
}

// fwdRoot is one forwarded transfer as a whole.
type fwdRoot struct {
	Origin    *PktState
	Plan      []fwdHop // hops the memo asks for; Plan[k-1] produces leg k
	PlanOK    bool
	Legs      []*PktState
	Delivered *PktState // the leg whose receive credited the final receiver
	Resends   map[int]int
	judged    bool
}

// fwdHop is one "forward" object of a memo.
type fwdHop struct {
	Receiver, Port, Channel string
	Timeout                 time.Duration // 0 = not given
	Retries                 int           // -1 = not given
	HasNext                 bool
}

// fwdLedger is what an intermediate chain did when it took a leg and sent it on.
type fwdLedger struct {
	Chain   int
	Acct    string // the intermediate receive account
	Denom   string // bank denomination credited and sent on
	Path    string
	Amount  sdkmath.Int
	Unwound bool // arrival released the coins from the arrival channel's escrow (else: minted)
	Burned  bool // departure burned them (else: escrowed under the departure channel)
	InEsc   string
	OutEsc  string
	Undone  bool
}

// fwdWorld is the forwarding part of the world state (kept in World.Data).
type fwdWorld struct {
	roots    []*fwdRoot
	inter    []map[string]bool        // per chain: intermediate receive accounts seen
	denoms   []map[string]bool        // per chain: denominations moved by forwards
	stuck    []map[string]sdkmath.Int // per chain: escrow|denom -> amount left behind (listed known finding only)
	unbacked []map[string]sdkmath.Int // per chain: voucher denom -> supply left behind (listed known finding only)
	tx       *sim.TxResult            // packet transaction being applied
	genDenom string                   // generator hint only: bank denomination of the transfer being drawn
}

func (p *Core) fwd() *fwdWorld {
	if fw, ok := p.w.Data.(*fwdWorld); ok {
		return fw
	}
	fw := &fwdWorld{}
	for range p.C {
		fw.inter = append(fw.inter, map[string]bool{})
		fw.denoms = append(fw.denoms, map[string]bool{})
		fw.stuck = append(fw.stuck, map[string]sdkmath.Int{})
		fw.unbacked = append(fw.unbacked, map[string]sdkmath.Int{})
	}
	p.w.Data = fw
	return fw
}

func addInt(m map[string]sdkmath.Int, k string, x sdkmath.Int) {
	cur, ok := m[k]
	if !ok {
		cur = sdkmath.ZeroInt()
	}
	m[k] = cur.Add(x)
}

func getInt(m map[string]sdkmath.Int, k string) sdkmath.Int {
	if v, ok := m[k]; ok {
		return v
	}
	return sdkmath.ZeroInt()
}

// ---- memo grammar (model side) ---------------------------------------------------------------

func fwdIdentOK(s string, min, max int) bool {
	if len(s) < min || len(s) > max {
		return false
	}
	for _, c := range s {
		switch {
		case c >= 'a' && c <= 'z', c >= 'A' && c <= 'Z', c >= '0' && c <= '9':
		case strings.ContainsRune("._+-#[]<>", c):
		default:
			return false
		}
	}
	return true
}

// fwdParseMemo reads a packet-forward memo. isFwd: the memo is a JSON object whose "forward"
// member is an object (the middleware's trigger); ok: every hop is well-formed.
func fwdParseMemo(memo string) (isFwd bool, plan []fwdHop, ok bool) {
	if memo == "" {
		return false, nil, false
	}
	var m map[string]any
	if json.Unmarshal([]byte(memo), &m) != nil {
		return false, nil, false
	}
	f, isObj := m["forward"].(map[string]any)
	if !isObj || f == nil {
		return false, nil, false
	}
	plan, ok = fwdPlan(f, 0)
	return true, plan, ok
}

func fwdPlan(f map[string]any, depth int) ([]fwdHop, bool) {
	h := fwdHop{Retries: -1}
	ok := true
	var isStr bool
	if h.Receiver, isStr = f["receiver"].(string); !isStr || h.Receiver == "" {
		ok = false
	}
	if h.Port, isStr = f["port"].(string); !isStr || !fwdIdentOK(h.Port, 2, 128) {
		ok = false
	}
	if h.Channel, isStr = f["channel"].(string); !isStr || !fwdIdentOK(h.Channel, 8, 64) {
		ok = false
	}
	if t, has := f["timeout"]; has {
		switch v := t.(type) {
		case float64:
			h.Timeout = time.Duration(v)
		case string:
			d, err := time.ParseDuration(v)
			if err != nil {
				ok = false
			}
			h.Timeout = d
		default:
			ok = false
		}
	}
	if rv, has := f["retries"]; has {
		fl, isNum := rv.(float64)
		if !isNum || fl < 0 || fl > 255 {
			ok = false
		} else {
			h.Retries = int(fl)
		}
	}
	plan := []fwdHop{h}
	nx, has := f["next"]
	if !has {
		return plan, ok
	}
	var nm map[string]any
	switch v := nx.(type) {
	case map[string]any:
		nm = v
	case string:
		if json.Unmarshal([]byte(v), &nm) != nil {
			return plan, false
		}
	default:
		return plan, false
	}
	nf, isObj := nm["forward"].(map[string]any)
	if !isObj || nf == nil || depth > 8 {
		return plan, false
	}
	plan[0].HasNext = true
	rest, rok := fwdPlan(nf, depth+1)
	return append(plan, rest...), ok && rok
}

// ---- generator ---------------------------------------------------------------------------------

type fwdEnd struct{ ri, e int }

// fwdEnds lists the v1 transfer channel ends of chain ci in route order.
func (p *Core) fwdEnds(ci int) []fwdEnd {
	var out []fwdEnd
	for i, rt := range p.Routes {
		if !rt.Xfer || rt.V2 {
			continue
		}
		for e := 0; e < 2; e++ {
			if rt.Chain[e].Idx == ci {
				out = append(out, fwdEnd{i, e})
			}
		}
	}
	return out
}

// genForwardMemo draws a packet-forward memo for a transfer over route ri in direction d: one to
// three hops starting on the receiving chain, over any of its v1 transfer channels (also back
// over the channel the transfer arrives on), with valid / invalid / blocked final receivers,
// tight or default timeouts, 0..2 retries, and now and then a malformed hop.
func (p *Core) genForwardMemo(ri, d int) string {
	w := p.w
	r := p.Routes[ri]
	if r.V2 {
		return ""
	}
	at := r.Chain[1-d].Idx
	arrive := r.ID[1-d]
	// the path the coin will carry on the chain that executes the next hop (model registry): lets
	// the memo follow a voucher back along the way it came (unwinding hops that depart by burn)
	hop := func(path, sp, sc, dp, dc string) string {
		if strings.HasPrefix(path, sp+"/"+sc+"/") {
			return strings.TrimPrefix(path, sp+"/"+sc+"/")
		}
		return dp + "/" + dc + "/" + path
	}
	pathAt := ""
	if gd := p.fwd().genDenom; gd != "" {
		pathAt = gd
		if strings.HasPrefix(gd, "ibc/") {
			pathAt = p.tok.vouchers[r.Chain[d].Idx][gd]
		}
		if pathAt != "" {
			pathAt = hop(pathAt, r.Port[d], r.ID[d], r.Port[1-d], r.ID[1-d])
		}
	}
	depth := 1 + w.Pick(58, 30, 12)
	var hops []map[string]any
	for k := 0; k < depth; k++ {
		ends := p.fwdEnds(at)
		if len(ends) == 0 {
			break
		}
		en := ends[w.Intn(len(ends))]
		home := -1
		for i, x := range ends {
			if pathAt != "" && p.Routes[x.ri].ID[x.e] != arrive && strings.HasPrefix(pathAt, p.Routes[x.ri].Port[x.e]+"/"+p.Routes[x.ri].ID[x.e]+"/") {
				home = i
			}
		}
		if home >= 0 && w.Chance(0.7) {
			en = ends[home]
		} else if w.Chance(0.55) {
			// prefer to go on rather than straight back over the arrival channel
			var onward []fwdEnd
			for _, x := range ends {
				if p.Routes[x.ri].ID[x.e] != arrive {
					onward = append(onward, x)
				}
			}
			if len(onward) > 0 {
				en = onward[w.Intn(len(onward))]
			}
		}
		rt := p.Routes[en.ri]
		h := map[string]any{"port": rt.Port[en.e], "channel": rt.ID[en.e], "receiver": "pfm"}
		switch w.Pick(38, 20, 10, 12, 20) {
		case 1:
			h["timeout"] = fmt.Sprintf("%ds", 1+w.Intn(20))
		case 2:
			h["timeout"] = int64(time.Second) * int64(1+w.Intn(30))
		case 3:
			h["timeout"] = "1h"
		case 4:
			h["timeout"] = "40h"
		}
		switch w.Pick(40, 20, 25, 15) {
		case 1:
			h["retries"] = 0
		case 2:
			h["retries"] = 1
		case 3:
			h["retries"] = 2
		}
		hops = append(hops, h)
		if pathAt != "" {
			pathAt = hop(pathAt, rt.Port[en.e], rt.ID[en.e], rt.Port[1-en.e], rt.ID[1-en.e])
		}
		at = rt.Chain[1-en.e].Idx
		arrive = rt.ID[1-en.e]
	}
	if len(hops) == 0 {
		return ""
	}
	// the final receiver lives on chain `at`
	last := hops[len(hops)-1]
	switch w.Pick(76, 12, 12) {
	case 0:
		last["receiver"] = p.C[at].Accounts[2+w.Intn(6)].Addr.String()
	case 1:
		last["receiver"] = "not-a-bech32-address"
	default:
		last["receiver"], _ = p.recvAddress(p.C[at], "blk")
	}
	for k := 0; k+1 < len(hops); k++ {
		if w.Chance(0.4) {
			// an ordinary account named on an intermediate hop must not be credited either
			hops[k]["receiver"] = p.C[0].Accounts[2+w.Intn(6)].Addr.String()
		}
	}
	if w.Intn(100) < 14 {
		// a malformed or unroutable hop: the forward must fail there and the sender be refunded
		h := hops[w.Intn(len(hops))]
		switch w.Intn(9) {
		case 0:
			h["channel"] = "channel-77"
		case 1:
			h["channel"] = "x"
		case 2:
			h["port"] = "transferx"
		case 3:
			delete(h, "receiver")
		case 4:
			h["receiver"] = ""
		case 5:
			h["retries"] = 300
		case 6:
			h["timeout"] = "soon"
		case 7:
			h["next"] = "garbage"
		case 8:
			h["port"] = "p!"
		}
		w.Stats.Probe("forward_memo_malformed_or_unroutable_generated")
	}
	// nest from the last hop backwards
	var inner any
	for k := len(hops) - 1; k >= 0; k-- {
		h := hops[k]
		if inner != nil {
			if _, broken := h["next"]; !broken {
				h["next"] = inner
			}
		}
		obj := map[string]any{"forward": h}
		inner = obj
		if k > 0 && w.Chance(0.2) {
			bz, _ := json.Marshal(obj) // "next" may also be given as a JSON string
			inner = string(bz)
		}
	}
	bz, err := json.Marshal(inner)
	if err != nil || strings.Contains(string(bz), ";") {
		return ""
	}
	return string(bz)
}

// genForwardUnwind draws a transfer that sends a voucher of two or more hops back over the channel
// it came from with a forward memo (the memo generator then tends to follow the voucher's path
// home): hops that release the coin from escrow on arrival and burn it on departure.
func (p *Core) genForwardUnwind() []sim.Op {
	w := p.w
	if len(p.Order) >= p.Opt.MaxPkts {
		return nil
	}
	type cand struct {
		ci, idx, ri, d int
		denom          string
	}
	var cs []cand
	for ci := range p.C {
		for idx := 2; idx < 8 && idx < len(p.C[ci].Accounts); idx++ {
			for _, dn := range p.heldDenoms(ci, idx) {
				if !strings.HasPrefix(dn, "ibc/") {
					continue
				}
				parts := strings.SplitN(p.tok.vouchers[ci][dn], "/", 3)
				if len(parts) < 3 {
					continue
				}
				ri, e := p.fwdRouteOf(ci, parts[0], parts[1])
				if ri < 0 {
					continue
				}
				// the rest of the path must lead on from the next chain over one of its channels
				next := p.Routes[ri].Chain[1-e].Idx
				for _, en := range p.fwdEnds(next) {
					rt := p.Routes[en.ri]
					if strings.HasPrefix(parts[2], rt.Port[en.e]+"/"+rt.ID[en.e]+"/") {
						cs = append(cs, cand{ci, idx, ri, e, dn})
						break
					}
				}
			}
		}
	}
	if len(cs) == 0 {
		return nil
	}
	c := cs[w.Intn(len(cs))]
	r := p.Routes[c.ri]
	src, dst := r.Chain[c.d], r.Chain[1-c.d]
	p.fwd().genDenom = c.denom
	memo := p.genForwardMemo(c.ri, c.d)
	if memo == "" {
		return nil
	}
	bal := p.tok.bank[src.Idx].get(src.Accounts[c.idx].Addr.String(), c.denom)
	amt := int64(1 + w.Intn(400))
	if bal.IsInt64() && (bal.Int64() < amt || w.Chance(0.2)) {
		amt = bal.Int64()
	}
	dstTime := p.chainTime(dst.Idx)
	if dst.LastTime.After(dstTime) {
		dstTime = dst.LastTime
	}
	var tmo string
	switch {
	case w.Intn(100) < p.Opt.TightTmo:
		tmo = fmt.Sprintf("h%d", dst.Height+1+int64(w.Intn(4)))
	case w.Chance(0.5):
		tmo = fmt.Sprintf("h%d", dst.Height+500)
	default:
		tmo = fmt.Sprintf("t%d", dstTime.UnixNano()+int64(2*time.Hour))
	}
	op := sim.Op{K: "xfer", P: c.ri, X: int64(c.d), T: w.Tag(), C: c.idx, N: amt}
	op.S = strings.Join([]string{c.denom, strconv.Itoa(2 + w.Intn(6)), tmo, memo}, ";")
	w.Stats.Probe("forward_of_multi_hop_voucher_towards_home_generated")
	return []sim.Op{op}
}

// ---- ghost model -----------------------------------------------------------------------------

// fwdOriginSent marks a committed v1 transfer whose memo asks for a forward.
func (p *Core) fwdOriginSent(ps *PktState) {
	x := ps.X
	if x == nil || x.Memo == "" {
		return
	}
	isFwd, plan, ok := fwdParseMemo(x.Memo)
	if !isFwd {
		return
	}
	if ps.V2 {
		// IBC v2 (and v2-over-alias) packets do not pass the v1 middleware: an ordinary transfer
		p.w.Stats.Probe("forward_memo_on_v2_packet_is_an_ordinary_transfer")
		return
	}
	fw := p.fwd()
	root := &fwdRoot{Origin: ps, Plan: plan, PlanOK: ok, Resends: map[int]int{}}
	root.Legs = append(root.Legs, ps)
	x.Fwd = &FwdInfo{Root: root}
	fw.roots = append(fw.roots, root)
	p.tok.blockKinds["forward"] = true
	p.w.Stats.Probe("forward_origin_sent")
	p.w.Stats.NonTrivial(fmt.Sprintf("fwd:origin:hops=%d:wellformed=%v:%s:burn=%v", len(plan), ok, classifyDenom(x.SrcDenom), x.Burn))
}

// fwdNoteTx remembers the packet transaction whose effects are being applied (its events tell
// which packets the middleware sent and which acknowledgements it wrote).
func (p *Core) fwdNoteTx(r *sim.TxResult) {
	if fw, ok := p.w.Data.(*fwdWorld); ok {
		fw.tx = r
	}
}

// fwdCredit: the denomination chain ci credits for packet ps per ICS-20 (model registry only).
func (p *Core) fwdCredit(ci int, ps *PktState) (denom, path string, unwinding bool) {
	x := ps.X
	rt := p.Routes[ps.Route]
	d := ps.Dir
	if x.Burn {
		rest := strings.TrimPrefix(x.Path, rt.Port[d]+"/"+rt.ID[d]+"/")
		if p.tok.paths[ci][rest] {
			return voucherOf(rest), rest, true
		}
		return rest, rest, true
	}
	full := rt.Port[1-d] + "/" + rt.ID[1-d] + "/" + x.Path
	return voucherOf(full), full, false
}

func (p *Core) fwdRouteOf(ci int, port, ch string) (int, int) {
	for i, rt := range p.Routes {
		if !rt.Xfer || rt.V2 {
			continue
		}
		for e := 0; e < 2; e++ {
			if rt.Chain[e].Idx == ci && rt.Port[e] == port && rt.ID[e] == ch {
				return i, e
			}
		}
	}
	return -1, 0
}

func (p *Core) fwdReceiverValid(c *sim.Chain, addr string) bool {
	for _, a := range c.Accounts {
		if a.Addr.String() == addr {
			return true
		}
	}
	return false
}

// fwdApplyLedger predicts what the hop did (sign +1) or its exact inverse (sign -1).
func (p *Core) fwdApplyLedger(l *fwdLedger, sign int64) {
	amt := l.Amount.MulRaw(sign)
	pr := p.tok.pred[l.Chain]
	if l.Unwound {
		pr.add(l.InEsc, l.Denom, amt.Neg())
		p.trackEscrow(l.Chain, l.Denom, amt.Neg())
	} else {
		pr.add(supplyKey, l.Denom, amt)
	}
	pr.add(l.Acct, l.Denom, amt) // credited to the intermediate account ...
	pr.add(l.Acct, l.Denom, amt.Neg()) // ... and sent on from it in the same transaction
	if l.Burned {
		pr.add(supplyKey, l.Denom, amt.Neg())
	} else {
		pr.add(l.OutEsc, l.Denom, amt)
		p.trackEscrow(l.Chain, l.Denom, amt)
	}
}

func (l *fwdLedger) shape() string {
	a, b := "mint", "escrow"
	if l.Unwound {
		a = "unescrow"
	}
	if l.Burned {
		b = "burn"
	}
	return a + "+" + b
}

// fwdAckWritten finds, in the events of r, the acknowledgement written for leg ps from inside a
// transaction of a later leg, and records it as the leg's (asynchronous) acknowledgement.
func (p *Core) fwdAckWritten(r *sim.TxResult, ps *PktState) bool {
	for _, ev := range sim.EventsOfType(r.Events, channeltypes.EventTypeWriteAck) {
		if sim.Attr(ev, channeltypes.AttributeKeySequence) != strconv.FormatUint(ps.P1.Sequence, 10) ||
			sim.Attr(ev, channeltypes.AttributeKeyDstChannel) != ps.P1.DestinationChannel ||
			sim.Attr(ev, channeltypes.AttributeKeyDstPort) != ps.P1.DestinationPort {
			continue
		}
		bz, err := hex.DecodeString(sim.Attr(ev, channeltypes.AttributeKeyAckHex))
		if err != nil || len(bz) == 0 {
			continue
		}
		ps.Ack1, ps.HasAck, ps.AsyncOpen = bz, true, false
		ps.AckHeight = r.Height
		delete(p.attempts, ps.Tag) // the honest relayer of the drain looks at this leg again
		return true
	}
	return false
}

// fwdNewLeg turns the packet sent by the middleware inside transaction r on chain ci into a
// PktState the generic relayer can carry. It returns nil when r sent no packet.
func (p *Core) fwdNewLeg(ci int, r *sim.TxResult, prev *PktState, hop, try int, denom, path string) *PktState {
	pk, err := ibctesting.ParseV1PacketFromEvents(r.Events)
	if err != nil {
		return nil
	}
	ri, e := p.fwdRouteOf(ci, pk.SourcePort, pk.SourceChannel)
	if ri < 0 {
		sim.Failf("forwarded packet left %s over %s/%s which is no v1 transfer route of the world", p.C[ci].ID, pk.SourcePort, pk.SourceChannel)
	}
	rt := p.Routes[ri]
	var data transfertypes.FungibleTokenPacketData
	if err := transfertypes.ModuleCdc.UnmarshalJSON(pk.Data, &data); err != nil {
		sim.Failf("forwarded packet data: %v", err)
	}
	amt, okAmt := sdkmath.NewIntFromString(data.Amount)
	if !okAmt {
		amt = sdkmath.ZeroInt()
	}
	src, dst := rt.Chain[e], rt.Chain[1-e]
	root := prev.X.Fwd.Root
	nx := &XferInfo{SenderIdx: -1, Sender: data.Sender, Receiver: data.Receiver, RecvKind: "fwd", SrcDenom: denom, Path: path, Amount: amt,
		Burn:  strings.HasPrefix(denom, "ibc/") && strings.HasPrefix(path, rt.Port[e]+"/"+rt.ID[e]+"/"),
		Memo:  data.Memo, ExpectOK: p.fwdReceiverValid(dst, data.Receiver), Granter: -1,
		Fwd: &FwdInfo{Prev: prev, Root: root, Hop: hop, Try: try}}
	ps := &PktState{Route: ri, Dir: e, X: nx}
	ps.Pkt = &sim.Pkt{Tag: root.Origin.Tag*1000000 + int64(len(root.Legs)), Src: src, Dst: dst, SrcCli: rt.Client[e], DstCli: rt.Client[1-e]}
	ps.P1 = pk
	ps.SentAt, ps.SentTm = r.Height, src.LastTime
	if p.Pkts[ps.Tag] != nil {
		sim.Failf("derived tag %d of a forwarded leg is taken", ps.Tag)
	}
	p.Pkts[ps.Tag] = ps
	p.Order = append(p.Order, ps.Tag)
	p.onSent(ps, r)
	root.Legs = append(root.Legs, ps)
	prev.X.Fwd.Next = ps
	return ps
}

func (p *Core) fwdDescribe(root *fwdRoot) string {
	o := root.Origin
	return fmt.Sprintf("forward of %s %s by %s (%s, memo %s)", o.X.Amount, o.X.SrcDenom, p.nameOf(o.Src.Idx, o.X.Sender), o.Pkt, o.X.Memo)
}

// tokApplyForwardRecv: a packet of a forwarded transfer was received on chain ci (ok: a success
// acknowledgement was written by the receive itself).
func (p *Core) tokApplyForwardRecv(ci int, r *sim.TxResult, ps *PktState, ok bool) {
	w := p.w
	fw := p.fwd()
	x := ps.X
	fi := x.Fwd
	root := fi.Root
	rt := p.Routes[ps.Route]
	p.tok.blockKinds["forward"] = true
	denom, path, unwinding := p.fwdCredit(ci, ps)
	inEsc := escrowAddr(rt.Port[1-ps.Dir], rt.ID[1-ps.Dir])
	pr := p.tok.pred[ci]
	isFwd, plan, planOK := fwdParseMemo(x.Memo)
	if !isFwd {
		// the last leg: a plain ICS-20 receive by the final receiver
		if !ok {
			w.Stats.Probe("forward_last_hop_error_ack")
			return
		}
		x.RecvOK = true
		fw.denoms[ci][denom] = true
		if unwinding {
			pr.add(inEsc, denom, x.Amount.Neg())
			pr.add(x.Receiver, denom, x.Amount)
			p.trackEscrow(ci, denom, x.Amount.Neg())
		} else {
			p.tok.vouchers[ci][denom] = path
			p.tok.paths[ci][path] = true
			pr.add(supplyKey, denom, x.Amount)
			pr.add(x.Receiver, denom, x.Amount)
		}
		if root.Delivered != nil {
			w.Violate("C43", "delivered-twice", "", fmt.Sprintf("%s: the final receiver was credited by %s and again by %s", p.fwdDescribe(root), root.Delivered.Pkt, ps.Pkt))
		}
		root.Delivered = ps
		w.Stats.Probe("forward_delivered_to_final_receiver")
		if len(root.Legs) >= 3 && fi.Hop >= 2 {
			w.Stats.Probe("forward_delivered_over_three_or_more_legs")
		}
		if fi.Try > 0 {
			w.Stats.Probe("forward_delivered_by_a_retried_leg")
		}
		w.Stats.NonTrivial(fmt.Sprintf("fwd:delivered:legs=%d:unwound=%v:%s", fi.Hop+1, unwinding, classifyDenom(baseOfPath(path))))
		p.fwdJudge(root, false)
		return
	}
	// an intermediate hop
	hop := plan[0]
	if ps.HasAck {
		if ok {
			w.Violate("C43", "forward-acknowledged-without-forwarding", "", fmt.Sprintf("%s: %s carries a forward memo and was answered with a success acknowledgement by the receive itself: nothing was sent on", p.fwdDescribe(root), ps.Pkt))
			return
		}
		why := "other"
		if !planOK {
			why = "malformed-memo"
		} else if i, _ := p.fwdRouteOf(ci, hop.Port, hop.Channel); i < 0 {
			why = "unroutable"
		}
		w.Stats.Probe("forward_refused_at_intermediate_hop")
		w.Stats.NonTrivial(fmt.Sprintf("fwd:refused-at-hop:%s:hop=%d", why, fi.Hop+1))
		return
	}
	// no acknowledgement: the middleware took the packet and must have sent it on
	led := &fwdLedger{Chain: ci, Denom: denom, Path: path, Amount: x.Amount, Unwound: unwinding, InEsc: inEsc}
	nps := p.fwdNewLeg(ci, r, ps, fi.Hop+1, 0, denom, path)
	if nps == nil {
		w.Violate("C43", "forward-taken-without-next-leg", "", fmt.Sprintf("%s: %s was received without an acknowledgement and without a packet being sent on: the coins are stuck on %s", p.fwdDescribe(root), ps.Pkt, p.C[ci].ID))
		return
	}
	nrt := p.Routes[nps.Route]
	led.Acct = nps.X.Sender
	led.Burned = nps.X.Burn
	led.OutEsc = escrowAddr(nrt.Port[nps.Dir], nrt.ID[nps.Dir])
	if !unwinding {
		p.tok.vouchers[ci][denom] = path
		p.tok.paths[ci][path] = true
	}
	x.RecvOK = true
	fi.Led = led
	fw.inter[ci][led.Acct] = true
	fw.denoms[ci][denom] = true
	p.fwdApplyLedger(led, +1)
	// (5) the coin sent on is the coin ICS-20 credited here, all of it, to where the memo says
	var data transfertypes.FungibleTokenPacketData
	_ = transfertypes.ModuleCdc.UnmarshalJSON(nps.P1.Data, &data)
	if got := p.packetDenom(nps); got != path {
		w.Violate("C43", "forwarded-denomination-differs", "", fmt.Sprintf("%s: %s credited %s (path %q) on %s, but the next leg %s carries denomination %q", p.fwdDescribe(root), ps.Pkt, denom, path, p.C[ci].ID, nps.Pkt, got))
	}
	if !nps.X.Amount.Equal(x.Amount) {
		w.Violate("C43", "forwarded-amount-differs", "", fmt.Sprintf("%s: %s delivered %s to %s, the next leg %s carries %s", p.fwdDescribe(root), ps.Pkt, x.Amount, p.C[ci].ID, nps.Pkt, data.Amount))
	}
	if planOK && (nps.P1.SourcePort != hop.Port || nps.P1.SourceChannel != hop.Channel || data.Receiver != hop.Receiver) {
		w.Violate("C43", "forward-route-differs", "", fmt.Sprintf("%s: the memo of %s asks for %s/%s to %q, the next leg %s goes to %q", p.fwdDescribe(root), ps.Pkt, hop.Port, hop.Channel, hop.Receiver, nps.Pkt, data.Receiver))
	}
	if nextFwd, _, _ := fwdParseMemo(data.Memo); planOK && nextFwd != hop.HasNext {
		w.Violate("C43", "forward-route-differs", "", fmt.Sprintf("%s: the memo of %s has next=%v, the next leg %s carries memo %q", p.fwdDescribe(root), ps.Pkt, hop.HasNext, nps.Pkt, data.Memo))
	}
	if p.fwdReceiverValid(p.C[ci], led.Acct) || p.nameOf(ci, led.Acct) != led.Acct {
		w.Violate("C43", "intermediate-account-is-a-real-account", "", fmt.Sprintf("%s: the hop on %s ran through %s, which is a user, relayer or escrow account", p.fwdDescribe(root), p.C[ci].ID, p.nameOf(ci, led.Acct)))
	}
	w.Stats.Probe("forward_hop_executed")
	if unwinding {
		w.Stats.Probe("forward_hop_unwinding")
	} else {
		w.Stats.Probe("forward_hop_minting")
	}
	if led.Burned {
		w.Stats.Probe("forward_hop_departs_by_burn")
	} else {
		w.Stats.Probe("forward_hop_departs_by_escrow")
	}
	if fi.Hop >= 1 {
		w.Stats.Probe("forward_second_hop_executed")
	}
	w.Stats.NonTrivial(fmt.Sprintf("fwd:hop:%s:hop=%d:%s", led.shape(), fi.Hop+1, classifyDenom(baseOfPath(path))))
}

// tokForwardSettled: leg ps was acknowledged successfully on its source chain ci.
func (p *Core) tokForwardSettled(ci int, r *sim.TxResult, ps *PktState) {
	x := ps.X
	if x == nil || x.Fwd == nil {
		return
	}
	w := p.w
	p.tok.blockKinds["forward"] = true
	root := x.Fwd.Root
	if x.Fwd.Prev == nil {
		w.Stats.Probe("forward_origin_acknowledged_success")
		p.fwdJudge(root, false)
		return
	}
	// the hop that sent this leg passes the success on to the leg before
	if p.fwdAckWritten(r, x.Fwd.Prev) {
		w.Stats.Probe("forward_success_passed_to_previous_hop")
	} else {
		w.Stats.Probe("forward_success_not_passed_to_previous_hop")
	}
}

// tokRefundForwarded: leg ps (sent by an intermediate hop on chain ci) failed there: error
// acknowledgement or timeout.
func (p *Core) tokRefundForwarded(ci int, ps *PktState, why string) {
	w := p.w
	fw := p.fwd()
	x := ps.X
	fi := x.Fwd
	root := fi.Root
	prev := fi.Prev
	p.tok.blockKinds["forward"] = true
	if x.Refunded || x.Settled {
		w.Violate("C43", "second-terminal-outcome-processed", "", fmt.Sprintf("%s: a second %s was processed for leg %s", p.fwdDescribe(root), why, ps.Pkt))
		return
	}
	r := fw.tx
	led := prev.X.Fwd.Led
	if r == nil || led == nil || led.Undone {
		sim.Failf("forwarded leg %s failed on chain %d without a live hop record", ps.Pkt, ci)
	}
	x.Refunded = true
	if why == "tmo" {
		if nps := p.fwdNewLeg(ci, r, prev, fi.Hop, fi.Try+1, led.Denom, led.Path); nps != nil {
			// re-sent after the timeout: refunded to the intermediate account and sent on again
			// within one transaction; nothing moves on balance
			root.Resends[fi.Hop]++
			var od, nd transfertypes.FungibleTokenPacketData
			_ = transfertypes.ModuleCdc.UnmarshalJSON(ps.P1.Data, &od)
			_ = transfertypes.ModuleCdc.UnmarshalJSON(nps.P1.Data, &nd)
			_, oplan, _ := fwdParseMemo(od.Memo)
			_, nplan, _ := fwdParseMemo(nd.Memo)
			if nd.Denom != od.Denom || nd.Amount != od.Amount || nd.Receiver != od.Receiver || nd.Sender != od.Sender || fmt.Sprint(oplan) != fmt.Sprint(nplan) ||
				nps.P1.SourceChannel != ps.P1.SourceChannel || nps.P1.SourcePort != ps.P1.SourcePort {
				w.Violate("C43", "retried-leg-differs", "", fmt.Sprintf("%s: leg %s timed out and was re-sent as %s with different contents: %s vs %s", p.fwdDescribe(root), ps.Pkt, nps.Pkt, ps.P1.Data, nps.P1.Data))
			}
			if asked := root.hopRetries(fi.Hop); asked >= 0 && root.Resends[fi.Hop] > asked {
				w.Violate("C43", "more-retries-than-requested", "", fmt.Sprintf("%s: hop %d was re-sent %d times although the memo asks for %d retries", p.fwdDescribe(root), fi.Hop, root.Resends[fi.Hop], asked))
			}
			w.Stats.Probe("forward_retried_after_timeout")
			w.Stats.NonTrivial(fmt.Sprintf("fwd:retry:%d:hop=%d:%s", min64(int64(fi.Try+1), 3), fi.Hop, led.shape()))
			return
		}
	}
	// the forward failed for good at or beyond this hop: this chain ends where it started (4)
	p.fwdApplyLedger(led, -1)
	led.Undone = true
	prev.X.RecvOK = false
	if !led.Unwound && led.Burned {
		p.fwdSameChannelFailure(ci, r, ps, led)
	}
	if p.fwdAckWritten(r, prev) {
		if ackIsSuccess(prev) {
			w.Stats.Probe("forward_failure_passed_on_as_success")
		} else {
			w.Stats.Probe("forward_failure_passed_to_previous_hop")
		}
	} else {
		w.Stats.Probe("forward_failure_not_passed_to_previous_hop")
	}
	switch why {
	case "error-ack":
		w.Stats.Probe("forward_failed_error_ack")
	default:
		w.Stats.Probe("forward_failed_timeout_gave_up")
		if fi.Try > 0 {
			w.Stats.Probe("forward_gave_up_after_retries")
		}
	}
	switch led.shape() {
	case "unescrow+escrow":
		w.Stats.Probe("forward_undone_by_moving_between_escrows")
	case "mint+escrow":
		w.Stats.Probe("forward_undone_by_burning_from_escrow")
	case "unescrow+burn":
		w.Stats.Probe("forward_undone_by_minting_to_escrow")
	case "mint+burn":
		w.Stats.Probe("forward_undone_nothing_to_move")
	}
	if fi.Hop >= 2 {
		w.Stats.Probe("forward_failure_unwinds_two_hops")
	}
	w.Stats.NonTrivial(fmt.Sprintf("fwd:failed:%s:hop=%d:try=%d:%s", why, fi.Hop, min64(int64(fi.Try), 3), led.shape()))
}

// hopRetries: the number of retries the memo asks for on the hop that sends leg `leg` (-1 = not given).
func (root *fwdRoot) hopRetries(leg int) int {
	if !root.PlanOK || leg < 1 || leg > len(root.Plan) {
		return -1
	}
	return root.Plan[leg-1].Retries
}

// fwdSameChannelFailure: a hop minted a voucher and burned it again because the memo sent the coin
// straight back over the channel it arrived on; the forward then failed. "Where it started" means
// that nothing is left on this chain. Ground truth at transaction granularity: the bank module's
// coinbase event of the failing transaction.
func (p *Core) fwdSameChannelFailure(ci int, r *sim.TxResult, ps *PktState, led *fwdLedger) {
	w := p.w
	fw := p.fwd()
	want := led.Amount.String() + led.Denom
	minted := false
	for _, ev := range sim.EventsOfType(r.Events, "coinbase") {
		if sim.Attr(ev, "amount") == want {
			minted = true
		}
	}
	w.Stats.Probe("forward_failed_after_return_over_arrival_channel")
	if !minted {
		return
	}
	root := ps.X.Fwd.Root
	detail := fmt.Sprintf("%s: the hop on %s minted %s %s on arrival and burned it to send it back over the arrival channel; when that leg %s failed, %s %s were minted into %s and counted as escrowed, although the original sender is refunded on the origin chain: the voucher supply and the escrow of %s do not end where they started",
		p.fwdDescribe(root), p.C[ci].ID, led.Amount, led.Denom, ps.Pkt, led.Amount, led.Denom, p.nameOf(ci, led.InEsc), p.C[ci].ID)
	if w.Violate("C43", "failed-forward-leaves-minted-vouchers", "failed-forward-mints-into-escrow:returned-over-arrival-channel", detail) {
		return
	}
	// listed known finding: follow the implementation so that its consequences are not reported again
	pr := p.tok.pred[ci]
	pr.add(supplyKey, led.Denom, led.Amount)
	pr.add(led.InEsc, led.Denom, led.Amount)
	p.trackEscrow(ci, led.Denom, led.Amount)
	addInt(fw.stuck[ci], led.InEsc+"|"+led.Denom, led.Amount)
	addInt(fw.unbacked[ci], led.Denom, led.Amount)
}

// fwdJudge (2): all-or-nothing. final: the drain is over.
func (p *Core) fwdJudge(root *fwdRoot, final bool) {
	w := p.w
	o := root.Origin
	delivered := root.Delivered != nil
	switch {
	case delivered && o.X.Refunded:
		w.Violate("C43", "delivered-and-refunded", "", fmt.Sprintf("%s: the final receiver was credited by %s AND the original sender was refunded", p.fwdDescribe(root), root.Delivered.Pkt))
	case o.X.Settled && !delivered:
		w.Violate("C43", "acknowledged-without-delivery", "", fmt.Sprintf("%s: the origin leg was acknowledged with success although no leg ever credited the final receiver; the sender is not refunded", p.fwdDescribe(root)))
	case final && !delivered && !o.X.Refunded:
		w.Violate("C43", "neither-delivered-nor-refunded", "", fmt.Sprintf("%s: after the drain the final receiver has not been credited and the original sender has not been refunded (%s)", p.fwdDescribe(root), p.fwdLegStates(root)))
	}
	if final {
		for _, ps := range root.Legs {
			if ps.Done == "" && !p.stuckLegit(ps) {
				w.Violate("C43", "forward-never-terminated", "", fmt.Sprintf("%s: leg %s never reached a terminal state although an honest relayer kept relaying after faults stopped (%s)", p.fwdDescribe(root), ps.Pkt, p.fwdLegStates(root)))
				break
			}
		}
		w.Stats.Probe("forward_all_or_nothing_judged")
		if delivered {
			w.Stats.NonTrivial(fmt.Sprintf("fwd:outcome:delivered:legs=%d", len(root.Legs)))
		} else {
			w.Stats.NonTrivial(fmt.Sprintf("fwd:outcome:refunded:legs=%d", len(root.Legs)))
			if len(root.Legs) > 1 {
				w.Stats.Probe("forward_origin_refunded_after_forwarding_began")
			}
		}
	}
}

func (p *Core) fwdLegStates(root *fwdRoot) string {
	var out []string
	for _, ps := range root.Legs {
		st := ps.Done
		if st == "" {
			st = fmt.Sprintf("open,received=%v,ack=%v", ps.RecvHeight > 0, ps.HasAck)
		}
		out = append(out, fmt.Sprintf("%s[%s]%s", ps.Pkt, st, p.lastRefusal[ps.Tag]))
	}
	return strings.Join(out, "; ")
}

// fwdAfterBlock: per-block oracles of the forwarding worlds.
func (p *Core) fwdAfterBlock(ci int, now amap) {
	fw, ok := p.w.Data.(*fwdWorld)
	if !ok || len(fw.roots) == 0 || !p.w.Armed("C43") {
		return
	}
	w := p.w
	c := p.C[ci]
	// (3) the intermediate receive accounts never keep funds
	for _, a := range sim.SortedKeys(fw.inter[ci]) {
		for _, d := range sim.SortedKeys(now[a]) {
			if !now.get(a, d).IsZero() {
				w.Violate("C43", "intermediate-account-keeps-funds", "", fmt.Sprintf("block %d of %s: the intermediate receive account %s holds %s %s", c.Height, c.ID, a, now.get(a, d), d))
			}
		}
	}
	w.Stats.Probe("intermediate_accounts_checked_empty")
	// (4) tracked total escrow of every denomination a forward touched = ledger of escrows minus releases
	for _, d := range sim.SortedKeys(fw.denoms[ci]) {
		got := c.App.TransferKeeper.GetTotalEscrowForDenom(c.QueryCtx(), d).Amount
		want := getInt(p.tok.tracked[ci], d)
		if !got.Equal(want) {
			w.Violate("C43", "tracked-escrow-differs", "", fmt.Sprintf("%s: tracked total escrow of %s is %s, the ledger of escrows minus releases (forwards and their undoing included) is %s", c.ID, d, got, want))
		}
	}
	p.fwdChannelEquations()
}

// fwdChannelEquations (1): for every transfer channel end and every denomination in its escrow:
// escrow = voucher supply on the peer + amounts in flight in either direction. Legs sent by
// intermediate hops count like any transfer; a leg whose hop was undone counts as not received.
func (p *Core) fwdChannelEquations() {
	w := p.w
	t := &p.tok
	fw := p.fwd()
	for ri, rt := range p.Routes {
		if !rt.Xfer {
			continue
		}
		for e := 0; e < 2; e++ {
			x, y := rt.Chain[e].Idx, rt.Chain[1-e].Idx
			esc := escrowAddr(rt.Port[e], rt.ID[e])
			for _, d := range sim.SortedKeys(t.bank[x][esc]) {
				path := d
				if strings.HasPrefix(d, "ibc/") {
					pth, ok := t.vouchers[x][d]
					if !ok {
						continue
					}
					path = pth
				}
				v := voucherOf(rt.Port[1-e] + "/" + rt.ID[1-e] + "/" + path)
				held := t.bank[x].get(esc, d).Sub(t.donated[x].get(esc, d)).Sub(getInt(fw.stuck[x], esc+"|"+d))
				supply := t.bank[y].get(supplyKey, v).Sub(getInt(fw.unbacked[y], v))
				inflight := sdkmath.ZeroInt()
				for _, tag := range p.Order {
					ps := p.Pkts[tag]
					if ps == nil || ps.X == nil || ps.Route != ri || ps.X.RecvOK || ps.X.Refunded {
						continue
					}
					if ps.Dir == e && !ps.X.Burn && ps.X.SrcDenom == d {
						inflight = inflight.Add(ps.X.Amount)
					}
					if ps.Dir == 1-e && ps.X.Burn && ps.X.SrcDenom == v {
						inflight = inflight.Add(ps.X.Amount)
					}
				}
				if !held.Equal(supply.Add(inflight)) {
					w.Violate("C43", "channel-equation-broken", "", fmt.Sprintf("channel %s/%s of %s, denomination %s: escrow holds %s but %s circulate as %s on %s and %s are in flight", rt.Port[e], rt.ID[e], rt.Chain[e].ID, d, held, supply, v, rt.Chain[1-e].ID, inflight))
					return
				}
			}
		}
	}
	w.Stats.Probe("forward_channel_equations_checked")
}

// fwdFinish (2): after the drain every forwarded transfer has either reached its final receiver
// or been refunded to its original sender.
func (p *Core) fwdFinish() {
	fw, ok := p.w.Data.(*fwdWorld)
	if !ok || !p.w.Armed("C43") {
		return
	}
	for _, root := range fw.roots {
		p.fwdJudge(root, true)
	}
}

var _ = sort.Strings
