package prof

import (
	"fmt"
	"sort"
	"strconv"
	"strings"
	"time"

	sdkmath "cosmossdk.io/math"

	sdk "github.com/cosmos/cosmos-sdk/types"
	"github.com/cosmos/cosmos-sdk/x/authz"

	transfertypes "github.com/cosmos/ibc-go/v11/modules/apps/transfer/types"

	"verif/ibcsim/sim"
)

// ---- ICS-20 transfer authorizations (C36) --------------------------------------------------
//
//	grant C=chain S="granter;grantee;alloc|alloc"      alloc = chan,denom=limit+denom=U,allow=2+3,memos=m1+m2
//	xfer  ... S="denom;recv;tmo;memo;g<granter>"       executed by grantee C through authz.MsgExec
//
// Model per (chain, granter, grantee): allocations by channel, each with a remaining limit per
// denomination (or unbounded), an allow list of receivers and a list of allowed memos.

type allocModel struct {
	limits    map[string]sdkmath.Int
	unbounded map[string]bool
	allow     []string
	memos     []string
}

type grantKey struct {
	ci               int
	granter, grantee int
}

func (p *Core) genGrant() []sim.Op {
	w := p.w
	rs := p.xferRoutes()
	if len(rs) == 0 {
		return nil
	}
	ri := rs[w.Intn(len(rs))]
	r := p.Routes[ri]
	e := w.Intn(2)
	c := r.Chain[e]
	granter := 2 + w.Intn(6)
	grantee := 2 + w.Intn(6)
	if grantee == granter {
		grantee = 2 + (granter-1)%6
	}
	k := grantKey{c.Idx, granter, grantee}
	if _, ok := p.tok.grants[k]; ok && w.Chance(0.75) {
		// use the grant instead of replacing it
		return p.genGrantExec(k)
	}
	ds := p.heldDenoms(c.Idx, granter)
	if len(ds) == 0 {
		return nil
	}
	// channels of this chain
	var chans []string
	for _, rt := range p.Routes {
		for x := 0; x < 2; x++ {
			if rt.Xfer && !rt.V2 && rt.Chain[x].Idx == c.Idx {
				chans = append(chans, rt.ID[x])
			}
		}
	}
	if len(chans) == 0 {
		return nil
	}
	sort.Strings(chans)
	n := 1 + w.Intn(2)
	var allocs []string
	used := map[string]bool{}
	for i := 0; i < n; i++ {
		ch := chans[w.Intn(len(chans))]
		if used[ch] {
			continue
		}
		used[ch] = true
		var lim []string
		for j := 0; j < 1+w.Intn(2) && j < len(ds); j++ {
			d := ds[(w.Intn(len(ds))+j)%len(ds)]
			if w.Chance(0.12) {
				lim = append(lim, d+"=U")
			} else {
				lim = append(lim, fmt.Sprintf("%s=%d", d, 50+w.Intn(1500)))
			}
		}
		allow := ""
		if w.Chance(0.5) {
			allow = fmt.Sprintf("%d+%d", 2+w.Intn(6), 2+w.Intn(6))
		}
		memos := []string{"", "*", "m1+m2", "m1"}[w.Intn(4)]
		allocs = append(allocs, strings.Join([]string{ch, strings.Join(dedupe(lim), "+"), "allow=" + allow, "memos=" + memos}, ","))
	}
	return []sim.Op{{K: "grant", C: c.Idx, S: fmt.Sprintf("%d;%d;%s", granter, grantee, strings.Join(allocs, "|"))}}
}

func dedupe(in []string) []string {
	seen := map[string]bool{}
	var out []string
	for _, s := range in {
		k := strings.SplitN(s, "=", 2)[0]
		if !seen[k] {
			seen[k] = true
			out = append(out, s)
		}
	}
	return out
}

// genGrantExec: the grantee transfers on the granter's behalf, around every limit.
func (p *Core) genGrantExec(k grantKey) []sim.Op {
	w := p.w
	g := p.tok.grants[k]
	var chans []string
	for ch := range g {
		chans = append(chans, ch)
	}
	sort.Strings(chans)
	if len(chans) == 0 || len(p.Order) >= p.Opt.MaxPkts+10 {
		return nil
	}
	ch := chans[w.Intn(len(chans))]
	if w.Chance(0.1) { // a channel without allocation
		for _, rt := range p.Routes {
			for x := 0; x < 2; x++ {
				if rt.Xfer && !rt.V2 && rt.Chain[x].Idx == k.ci && g[rt.ID[x]] == nil {
					ch = rt.ID[x]
				}
			}
		}
	}
	ri, d := -1, 0
	for i, rt := range p.Routes {
		for x := 0; x < 2; x++ {
			if rt.Xfer && !rt.V2 && rt.Chain[x].Idx == k.ci && rt.ID[x] == ch {
				ri, d = i, x
			}
		}
	}
	if ri < 0 {
		return nil
	}
	a := g[ch]
	var ds []string
	if a != nil {
		for dn := range a.limits {
			ds = append(ds, dn)
		}
		for dn := range a.unbounded {
			ds = append(ds, dn)
		}
	}
	sort.Strings(ds)
	denom := "ufoo"
	if len(ds) > 0 && w.Chance(0.9) {
		denom = ds[w.Intn(len(ds))]
	}
	amt := int64(1 + w.Intn(400))
	if a != nil {
		if l, ok := a.limits[denom]; ok && l.IsInt64() {
			switch w.Pick(50, 15, 15, 12, 8) {
			case 1:
				amt = l.Int64() // exactly the remaining limit
			case 2:
				amt = l.Int64() + 1 // one more than allowed
			case 3:
				amt = l.Int64() - 1
			case 4:
				amt = -1 // the "entire balance" sentinel
			}
		}
	}
	if amt == 0 {
		amt = 1
	}
	recv := strconv.Itoa(2 + w.Intn(6))
	if a != nil && len(a.allow) > 0 && w.Chance(0.7) {
		recv = a.allow[w.Intn(len(a.allow))]
	}
	memo := ""
	switch w.Pick(55, 20, 15, 10) {
	case 1:
		memo = "m1"
	case 2:
		memo = "m2"
	case 3:
		memo = "other"
	}
	dst := p.Routes[ri].Chain[1-d]
	tmo := fmt.Sprintf("h%d", dst.Height+500)
	return []sim.Op{{K: "xfer", P: ri, X: int64(d), T: w.Tag(), C: k.grantee, N: amt, S: strings.Join([]string{denom, recv, tmo, memo, "g" + strconv.Itoa(k.granter)}, ";")}}
}

func (p *Core) execGrant(op sim.Op) {
	w := p.w
	parts := strings.SplitN(op.S, ";", 3)
	if op.C < 0 || op.C >= len(p.C) || len(parts) != 3 {
		w.Noop()
		return
	}
	c := p.C[op.C]
	gr, err1 := strconv.Atoi(parts[0])
	ge, err2 := strconv.Atoi(parts[1])
	if err1 != nil || err2 != nil || gr < 0 || ge < 0 || gr >= len(c.Accounts) || ge >= len(c.Accounts) || gr == ge {
		w.Noop()
		return
	}
	model := map[string]*allocModel{}
	var allocs []transfertypes.Allocation
	for _, as := range strings.Split(parts[2], "|") {
		f := strings.Split(as, ",")
		if len(f) != 4 {
			continue
		}
		am := &allocModel{limits: map[string]sdkmath.Int{}, unbounded: map[string]bool{}}
		var coins sdk.Coins
		for _, l := range strings.Split(f[1], "+") {
			kv := strings.SplitN(l, "=", 2)
			if len(kv) != 2 {
				continue
			}
			if kv[1] == "U" {
				am.unbounded[kv[0]] = true
				coins = coins.Add(sdk.NewCoin(kv[0], transfertypes.UnboundedSpendLimit()))
			} else if n, err := strconv.ParseInt(kv[1], 10, 64); err == nil && n > 0 {
				am.limits[kv[0]] = sdkmath.NewInt(n)
				coins = coins.Add(sdk.NewCoin(kv[0], sdkmath.NewInt(n)))
			}
		}
		if len(coins) == 0 {
			continue
		}
		// receivers live on the counterparty chain of the channel
		var dst *sim.Chain
		for _, rt := range p.Routes {
			for x := 0; x < 2; x++ {
				if rt.Xfer && rt.Chain[x].Idx == op.C && rt.ID[x] == f[0] {
					dst = rt.Chain[1-x]
				}
			}
		}
		if dst == nil {
			continue
		}
		var allow []string
		if v := strings.TrimPrefix(f[2], "allow="); v != "" {
			for _, s := range strings.Split(v, "+") {
				if i, err := strconv.Atoi(s); err == nil && i >= 0 && i < len(dst.Accounts) {
					addr := dst.Accounts[i].String()
					dup := false
					for _, have := range allow {
						dup = dup || have == addr
					}
					if !dup {
						allow = append(allow, addr)
						am.allow = append(am.allow, s)
					}
				}
			}
		}
		var memos []string
		if v := strings.TrimPrefix(f[3], "memos="); v != "" {
			memos = strings.Split(v, "+")
			am.memos = memos
		}
		allocs = append(allocs, transfertypes.Allocation{SourcePort: transfertypes.PortID, SourceChannel: f[0], SpendLimit: coins, AllowList: allow, AllowedPacketData: memos})
		model[f[0]] = am
	}
	if len(allocs) == 0 {
		w.Noop()
		return
	}
	granter, grantee := c.Accounts[gr], c.Accounts[ge]
	if granter.InPool() {
		p.block(op.C)
	}
	exp := sim.GenesisTime.Add(10 * 365 * 24 * time.Hour)
	msg, err := authz.NewMsgGrant(granter.Addr, grantee.Addr, transfertypes.NewTransferAuthorization(allocs...), &exp)
	if err != nil {
		w.Noop()
		return
	}
	p.tok.pendingGrantKey, p.tok.pendingGrant = grantKey{op.C, gr, ge}, model
	c.Submit(&sim.TxSpec{Msgs: []sdk.Msg{msg}, Signer: granter, Label: "grant"})
	p.tick(time.Second)
	p.block(op.C)
}

// applyGrant installs the model of a committed MsgGrant (a new grant replaces the old one).
func (p *Core) applyGrant(ci int, r *sim.TxResult) {
	if r.OK() && p.tok.pendingGrant != nil {
		p.tok.grants[p.tok.pendingGrantKey] = p.tok.pendingGrant
		p.w.Stats.Probe("transfer_grant_created")
		p.w.Stats.NonTrivial(fmt.Sprintf("grant:allocs=%d", len(p.tok.pendingGrant)))
	}
	p.tok.pendingGrant = nil
}

func memoAllowed(memo string, allowed []string) bool {
	m := strings.TrimSpace(memo)
	if len(allowed) == 0 {
		return m == ""
	}
	if len(allowed) == 1 && allowed[0] == "*" {
		return true
	}
	for _, a := range allowed {
		if strings.TrimSpace(a) == m {
			return true
		}
	}
	return false
}

// authzAfterExec: the grantee's MsgExec{MsgTransfer} was delivered.
func (p *Core) authzAfterExec(ci int, r *sim.TxResult, x *XferInfo, msg *transfertypes.MsgTransfer) {
	w := p.w
	if x == nil || x.Granter < 0 {
		return
	}
	k := grantKey{ci, x.Granter, r.Spec.SignerIdx(p.C[ci])}
	g := p.tok.grants[k]
	var a *allocModel
	if g != nil {
		a = g[msg.SourceChannel]
	}
	// the model's verdict
	why := ""
	switch {
	case g == nil:
		why = "no grant"
	case a == nil:
		why = "no allocation for the channel"
	case len(a.allow) > 0 && !contains(a.allow, x.RecvKind):
		why = "receiver not on the allow list"
	case !memoAllowed(msg.Memo, a.memos):
		why = "memo not allowed"
	case !a.unbounded[msg.Token.Denom]:
		l, ok := a.limits[msg.Token.Denom]
		if !ok {
			why = "denomination has no limit"
		} else if x.Sentinel {
			why = "entire-balance sentinel against a bounded limit"
		} else if msg.Token.Amount.GT(l) {
			why = "amount above the remaining limit"
		}
	}
	state := "refused"
	if r.OK() {
		state = "accepted"
	}
	verdict := "allow"
	if why != "" {
		verdict = "deny:" + why
	}
	w.Stats.NonTrivial("gexec:" + state + ":" + verdict)
	w.Stats.Probe("grant_exec_" + state)
	if !r.OK() {
		return
	}
	if why != "" {
		w.Violate("C36", "transfer-beyond-grant", "", fmt.Sprintf("%s: grantee %s moved %s%s of %s on %s with memo %q to %s although the model denies it: %s", p.C[ci].ID, r.Spec.Signer.Name, msg.Token.Amount, msg.Token.Denom, p.C[ci].Accounts[x.Granter].Name, msg.SourceChannel, msg.Memo, msg.Receiver, why))
		return
	}
	if !a.unbounded[msg.Token.Denom] {
		a.limits[msg.Token.Denom] = a.limits[msg.Token.Denom].Sub(msg.Token.Amount)
		if a.limits[msg.Token.Denom].IsZero() {
			delete(a.limits, msg.Token.Denom)
		}
		if len(a.limits) == 0 && len(a.unbounded) == 0 {
			delete(g, msg.SourceChannel)
			w.Stats.Probe("grant_allocation_exhausted")
		}
		if len(g) == 0 {
			delete(p.tok.grants, k)
			w.Stats.Probe("grant_deleted_when_exhausted")
		}
	}
}

func contains(xs []string, s string) bool {
	for _, x := range xs {
		if x == s {
			return true
		}
	}
	return false
}

// authzCompare: the stored authorizations of chain ci equal the model's.
func (p *Core) authzCompare(ci int) {
	w := p.w
	if !w.Armed("C36") {
		return
	}
	c := p.C[ci]
	ctx := c.QueryCtx()
	url := sdk.MsgTypeURL(&transfertypes.MsgTransfer{})
	for gr := 2; gr < 8; gr++ {
		for ge := 2; ge < 8; ge++ {
			if gr == ge {
				continue
			}
			auth, _ := c.App.AuthzKeeper.GetAuthorization(ctx, c.Accounts[ge].Addr, c.Accounts[gr].Addr, url)
			m := p.tok.grants[grantKey{ci, gr, ge}]
			if auth == nil && m == nil {
				continue
			}
			ta, _ := auth.(*transfertypes.TransferAuthorization)
			got := map[string]string{}
			if ta != nil {
				for _, al := range ta.Allocations {
					got[al.SourceChannel] = al.SpendLimit.String()
				}
			}
			want := map[string]string{}
			for ch, a := range m {
				var coins sdk.Coins
				for d, l := range a.limits {
					coins = coins.Add(sdk.NewCoin(d, l))
				}
				for d := range a.unbounded {
					coins = coins.Add(sdk.NewCoin(d, transfertypes.UnboundedSpendLimit()))
				}
				want[ch] = coins.String()
			}
			if fmt.Sprint(sortedMap(got)) != fmt.Sprint(sortedMap(want)) {
				w.Violate("C36", "remaining-limit-differs", "", fmt.Sprintf("%s: grant %s -> %s stores remaining limits %v, the model (granted minus accepted) has %v", c.ID, c.Accounts[gr].Name, c.Accounts[ge].Name, sortedMap(got), sortedMap(want)))
				return
			}
		}
	}
	w.Stats.Probe("grants_compared_with_model")
}

func sortedMap(m map[string]string) []string {
	var out []string
	for k, v := range m {
		out = append(out, k+":"+v)
	}
	sort.Strings(out)
	return out
}
