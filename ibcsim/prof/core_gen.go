package prof

import (
	"fmt"
	"strings"
	"time"

	"verif/ibcsim/sim"
)

// ---- generator --------------------------------------------------------------------------------

func (p *Core) sentPkts() []*PktState {
	var out []*PktState
	for _, t := range p.Order {
		if ps := p.Pkts[t]; ps != nil && ps.SentAt > 0 {
			out = append(out, ps)
		}
	}
	return out
}

func (p *Core) inflight() []*PktState {
	var out []*PktState
	for _, ps := range p.sentPkts() {
		if ps.Done == "" {
			out = append(out, ps)
		}
	}
	return out
}

func blkOp(ci int, d time.Duration) sim.Op { return sim.Op{K: "blk", C: ci, N: int64(d)} }

// ensureProvable returns blk ops so that state committed at height h of chain c is provable
// (c.Height >= h+1) — in terms of the heights the chain will have after those ops.
func (p *Core) ensureProvable(c *sim.Chain, h int64) ([]sim.Op, int64) {
	var ops []sim.Op
	top := c.Height
	if h < c.MinVersion {
		h = c.MinVersion // the node only has state versions from its last genesis restart on
	}
	for top < h+1 {
		ops = append(ops, blkOp(c.Idx, p.w.Dur()))
		top++
	}
	return ops, top
}

// pickHeight draws a proof height in [lo, hi]: mostly the newest, sometimes stale.
func (p *Core) pickHeight(lo, hi int64) int64 {
	if hi <= lo {
		return hi
	}
	if p.w.Chance(0.6) {
		return hi
	}
	p.w.Stats.Fault("relay.stale_proof")
	return lo + int64(p.w.Intn(int(hi-lo+1)))
}

func (p *Core) genSend() []sim.Op {
	w := p.w
	var mock []int
	for i, r := range p.Routes {
		if !r.Xfer {
			mock = append(mock, i)
		}
	}
	if len(p.Order) >= p.Opt.MaxPkts || len(mock) == 0 {
		return nil
	}
	ri := mock[w.Intn(len(mock))]
	r := p.Routes[ri]
	d := w.Intn(2)
	if r.OneWay {
		d = 0
	}
	dst := r.Chain[1-d]
	op := sim.Op{K: "send", P: ri, X: int64(d), T: w.Tag()}
	n := 1
	if r.V2 && p.Opt.Payloads > 1 {
		n = 1 + w.Intn(p.Opt.Payloads)
	}
	var bs []string
	for i := 0; i < n; i++ {
		bs = append(bs, p.Opt.Behaviours[w.Intn(len(p.Opt.Behaviours))])
	}
	op.S = strings.Join(bs, ",")
	dstTime := p.chainTime(dst.Idx)
	if dst.LastTime.After(dstTime) {
		dstTime = dst.LastTime
	}
	tight := w.Intn(100) < p.Opt.TightTmo
	gb := p.Opt.GuardBoundary
	if gb == 0 {
		gb = 5
	}
	if r.V2 {
		switch {
		case w.Intn(100) < gb: // guard boundaries
			srcNow := p.chainTime(r.Chain[d].Idx).Add(time.Second)
			b := []int64{srcNow.Unix(), srcNow.Unix() + 1, srcNow.Unix() - 1, srcNow.Unix() + 86400, srcNow.Unix() + 86401, srcNow.Unix() + 86399, 0}
			// and around the light client's latest consensus timestamp (whole seconds): a timeout
			// equal to it has already passed on the counterparty
			if _, lts, err := r.Chain[d].ClientLatestAt(r.Client[d], srcNow); err == nil {
				ls := time.Unix(0, int64(lts)).Unix()
				b = append(b, ls, ls, ls+1, ls-1)
			}
			op.M = b[w.Intn(len(b))]
			w.Stats.Probe("v2_send_guard_boundary_value")
		case tight:
			op.M = dstTime.Unix() + 2 + int64(w.Intn(25))
		default:
			op.M = dstTime.Unix() + 3600 + int64(w.Intn(3600))
		}
		if w.Chance(0.25) {
			op.X |= flagDefer
		}
		return []sim.Op{op}
	}
	if p.Opt.FarTimeouts {
		op.M = dstTime.UnixNano() + int64(300*24*time.Hour)
		return []sim.Op{op}
	}
	switch w.Pick(45, 35, 17, gb) {
	case 0: // height only
		if tight {
			op.N = dst.Height + 1 + int64(w.Intn(4))
		} else {
			op.N = dst.Height + 500
		}
	case 1: // timestamp only
		if tight {
			op.M = dstTime.UnixNano() + int64(time.Second) + w.Rng.Int63n(int64(30*time.Second))
		} else {
			op.M = dstTime.UnixNano() + int64(2*time.Hour)
		}
	case 2: // both
		op.N = dst.Height + 2 + int64(w.Intn(6))
		op.M = dstTime.UnixNano() + int64(time.Second) + w.Rng.Int63n(int64(60*time.Second))
	case 3: // guard boundaries: already passed on the client / none at all
		src := r.Chain[d]
		lh, lts, _ := src.ClientLatestAt(r.Client[d], p.chainTime(src.Idx))
		switch w.Intn(7) {
		case 0:
			op.N = 1
		case 1:
			op.M = 1
		case 2:
			op.N = int64(lh.RevisionHeight) // == latest client height: elapsed
		case 3:
			op.N = int64(lh.RevisionHeight) + 1
		case 4:
			op.M = int64(lts) // == latest consensus timestamp: elapsed
		case 5:
			op.M = int64(lts) + 1
		}
		w.Stats.Probe("v1_send_guard_boundary_value")
	}
	return []sim.Op{op}
}

// nextHonest returns the operations an honest relayer would submit next for ps (nil = nothing).
func (p *Core) nextHonest(ps *PktState, stale bool) []sim.Op {
	w := p.w
	r := p.Routes[ps.Route]
	if ps.Done != "" {
		return nil
	}
	if ps.RecvHeight == 0 {
		dstClosed := !ps.V2 && p.closedAny[chanKey(ps.Dst.Idx, ps.P1.DestinationPort, ps.P1.DestinationChannel)]
		srcClosed := !ps.V2 && p.closedAny[chanKey(ps.Src.Idx, ps.P1.SourcePort, ps.P1.SourceChannel)]
		if dstClosed {
			if srcClosed && !ps.Ordered {
				// unordered + both ends closed: timeout-on-close still clears the commitment
			}
			ch := p.closeHeight[chanKey(ps.Dst.Idx, ps.P1.DestinationPort, ps.P1.DestinationChannel)]
			ops, top := p.ensureProvable(ps.Dst, ch)
			return append(ops, sim.Op{K: "toc", T: ps.Tag, M: top})
		}
		if srcClosed {
			// the sending end is CLOSED: an honest relayer closes the other end too and then
			// clears the packet with a timeout-on-close
			ch := p.closeHeight[chanKey(ps.Src.Idx, ps.P1.SourcePort, ps.P1.SourceChannel)]
			ops, top := p.ensureProvable(ps.Src, ch)
			return append(ops, sim.Op{K: "closec", P: ps.Route, X: int64(1 - ps.Dir), M: top})
		}
		if r.Half && ps.Dir == 0 && (p.draining || w.Chance(0.35)) {
			// the destination end is still TRYOPEN: an honest relayer completes the handshake first
			// (a hasty one, most of the time, tries the packet anyway)
			ops, top := p.ensureProvable(r.Chain[0], r.AckedAt)
			return append(ops, sim.Op{K: "conf", P: ps.Route, M: top})
		}
		// timed out on the destination?
		var ops []sim.Op
		top := ps.Dst.Height
		if rec := ps.Dst.Headers[top]; rec != nil && timeoutReached(ps, top, rec.Header.Time) && top >= 2 {
			if srcClosed && ps.Ordered {
				return nil // stuck legitimately: closed ordered channel keeps only timeouts... which need OPEN? handled by chain
			}
			return []sim.Op{{K: "tmo", T: ps.Tag, M: top}}
		}
		if r.Local {
			return []sim.Op{{K: "recv", T: ps.Tag, M: ps.Src.Height}}
		}
		ops, top = p.ensureProvable(ps.Src, ps.SentAt)
		h := top
		if stale {
			h = p.pickHeight(ps.SentAt+1, top)
		}
		return append(ops, sim.Op{K: "recv", T: ps.Tag, M: h})
	}
	if ps.AsyncOpen {
		if ps.X != nil && ps.X.Fwd != nil {
			return nil // C43 hook: the forward middleware writes this acknowledgement itself when the next leg terminates
		}
		return []sim.Op{{K: "wack", T: ps.Tag, S: []string{"ok", "fail"}[w.Intn(2)], X: 1}}
	}
	if ps.HasAck {
		if r.Local {
			return []sim.Op{{K: "ack", T: ps.Tag, M: ps.Dst.Height}}
		}
		ah := ps.AckHeight
		if ah == 0 {
			ah = ps.RecvHeight
		}
		ops, top := p.ensureProvable(ps.Dst, ah)
		h := top
		if stale {
			h = p.pickHeight(ah+1, top)
		}
		return append(ops, sim.Op{K: "ack", T: ps.Tag, M: h})
	}
	return nil
}

func (p *Core) pickInflight() *PktState {
	fl := p.inflight()
	if len(fl) == 0 {
		return nil
	}
	ps := fl[p.w.Intn(len(fl))]
	fb := p.Opt.FrontBias
	if fb == 0 {
		fb = 70
	}
	if ps.Ordered && p.w.Intn(100) < fb {
		// an honest relayer works an ordered channel front to back
		for _, q := range fl {
			if q.Route == ps.Route && q.Dir == ps.Dir && q.Seq() < ps.Seq() {
				ps = q
			}
		}
	}
	return ps
}

func (p *Core) Gen(w *sim.World) []sim.Op {
	o := p.Opt
	for try := 0; try < 8; try++ {
		switch w.Pick(o.WSend, o.WRelay, o.WBlock, o.WDup, o.WEarlyTmo, o.WClose, o.WMut, o.WRestart, o.WUpdate, o.WAsyncAck, 2+o.WSkew, o.WLocalVerify, o.WDelayProbe, o.WXfer, o.WDonate, o.WAttack, o.WRateAdm, o.WGrant, o.WReReg, o.WGenesis, o.WLostCommit) {
		case 19:
			ci := w.Intn(len(p.C))
			if p.Opt.Tokens {
				// a restart is worth most on a chain that holds escrowed coins whose vouchers are
				// out (they must still be able to return afterwards)
				var holds []int
				for i := range p.C {
					for _, d := range sim.SortedKeys(p.tok.tracked[i]) {
						if p.tok.tracked[i][d].IsPositive() {
							holds = append(holds, i)
							break
						}
					}
				}
				if len(holds) == 0 {
					continue
				}
				ci = holds[w.Intn(len(holds))]
			}
			if p.genesisRestarts < 2 {
				p.genesisRestarts++
				return []sim.Op{{K: "gexp", C: ci}}
			}
		case 20:
			ci := w.Intn(len(p.C))
			if len(p.C[ci].Mempool) == 0 {
				// give the lost block something to do: defer the next relay into it
				if ps := p.pickInflight(); ps != nil {
					if ops := p.nextHonest(ps, false); ops != nil && ops[len(ops)-1].K != "wack" && ops[len(ops)-1].K != "closec" {
						last := &ops[len(ops)-1]
						last.X |= flagDefer
						on := ps.Src.Idx
						if last.K == "recv" {
							on = ps.Dst.Idx
						}
						return append(ops, sim.Op{K: "lostc", C: on, N: int64(sim.DefaultBlockInterval)})
					}
				}
			}
			return []sim.Op{{K: "lostc", C: ci, N: int64(sim.DefaultBlockInterval)}}
		case 18:
			for i, r := range p.Routes {
				if r.Kind == "v2" || r.Kind == "t2" {
					return []sim.Op{{K: "rereg", P: i, X: int64(w.Intn(2)), N: int64(w.Pick(70, 30))}}
				}
			}
		case 13:
			if ops := p.genXfer(); ops != nil {
				return ops
			}
		case 14:
			if ops := p.genDonate(); ops != nil {
				return ops
			}
		case 15:
			if ops := p.genAttack(); ops != nil {
				return ops
			}
		case 16:
			if ops := p.genRateAdmin(); ops != nil {
				return ops
			}
		case 17:
			if ops := p.genGrant(); ops != nil {
				return ops
			}
		case 11:
			return p.genLocalVerify()
		case 12:
			if ops := p.genDelayProbe(); ops != nil {
				return ops
			}
		case 0:
			if ops := p.genSend(); ops != nil {
				return ops
			}
		case 1:
			if ps := p.pickInflight(); ps != nil {
				if ops := p.nextHonest(ps, true); ops != nil {
					if w.Chance(0.2) {
						last := &ops[len(ops)-1]
						if last.K != "wack" {
							last.X |= flagDefer
							w.Stats.Fault("relay.delay")
						}
					}
					return ops
				}
			}
		case 2:
			ci := w.Intn(len(p.C))
			d := w.Dur()
			if d > time.Hour {
				w.Stats.Fault("clock.jump")
			}
			return []sim.Op{blkOp(ci, d)}
		case 3:
			if ops := p.genDup(); ops != nil {
				return ops
			}
		case 4:
			if w.Chance(0.3) {
				if ops := p.genBoundaryRecv(); ops != nil {
					return ops
				}
			}
			if ops := p.genEarlyTimeout(); ops != nil {
				return ops
			}
		case 5:
			if ops := p.genClose(); ops != nil {
				return ops
			}
		case 6:
			if ops := p.genMut(); ops != nil {
				return ops
			}
		case 7:
			ci := w.Intn(len(p.C))
			if len(p.C[ci].Mempool) == 0 {
				return []sim.Op{{K: "restart", C: ci}}
			}
		case 8:
			if len(p.Routes) > 0 {
				ri := w.Intn(len(p.Routes))
				r := p.Routes[ri]
				if !r.Local {
					e := w.Intn(2)
					of := r.Chain[1-e]
					if of.Height >= 3 {
						return []sim.Op{{K: "upd", P: ri, X: int64(e), M: 2 + int64(w.Intn(int(of.Height-1)))}}
					}
				}
			}
		case 9:
			if ops := p.genAsyncAck(); ops != nil {
				return ops
			}
		case 10:
			ci := w.Intn(len(p.C))
			// within the 10 s drift allowance most of the time, beyond it sometimes
			sk := time.Duration(w.Rng.Int63n(int64(8*time.Second))) - 4*time.Second
			if w.Chance(0.2) {
				sk = time.Duration(w.Rng.Int63n(int64(40*time.Second))) - 20*time.Second
			}
			return []sim.Op{{K: "skew", C: ci, N: int64(sk)}}
		}
	}
	return []sim.Op{blkOp(w.Intn(len(p.C)), w.Dur())}
}

// genDup re-submits a relay message for a packet in any lifecycle state: duplicates of the
// current step, replays of earlier steps, within one block or many blocks later.
func (p *Core) genDup() []sim.Op {
	w := p.w
	all := p.sentPkts()
	if len(all) == 0 {
		return nil
	}
	ps := all[w.Intn(len(all))]
	var kinds []string
	if ps.RecvHeight > 0 {
		kinds = append(kinds, "recv", "recv")
	}
	if ps.HasAck && ps.RecvHeight > 0 {
		kinds = append(kinds, "ack")
	}
	if ps.Done != "" {
		kinds = append(kinds, "tmo", "ack", "recv")
		if !ps.V2 {
			kinds = append(kinds, "toc")
		}
	}
	if len(kinds) == 0 {
		// not yet received: submit the same receive twice in one block
		ops := p.nextHonest(ps, false)
		if len(ops) == 0 || ops[len(ops)-1].K != "recv" {
			return nil
		}
		last := ops[len(ops)-1]
		last.X |= flagDefer
		ops[len(ops)-1] = last
		ops = append(ops, last, blkOp(ps.Dst.Idx, sim.DefaultBlockInterval))
		w.Stats.Fault("relay.dup")
		return ops
	}
	k := kinds[w.Intn(len(kinds))]
	var of *sim.Chain
	var lo int64
	switch k {
	case "recv":
		of, lo = ps.Src, ps.SentAt+1
	default:
		of, lo = ps.Dst, ps.SentAt+1
		if k == "ack" && ps.RecvHeight > 0 && !ps.Local {
			lo = ps.RecvHeight + 1
			if ps.AckHeight > 0 {
				lo = ps.AckHeight + 1
			}
		}
	}
	if ps.Local {
		lo = 2
	}
	if of.Height < lo {
		return nil
	}
	op := sim.Op{K: k, T: ps.Tag, M: lo + int64(w.Intn(int(of.Height-lo+1)))}
	if w.Chance(0.5) {
		op.X |= flagNoUpdate
	}
	w.Stats.Fault("relay.replay")
	n := 1 + w.Pick(70, 20, 10)
	var ops []sim.Op
	for i := 0; i < n; i++ {
		o := op
		if n > 1 {
			o.X |= flagDefer
		}
		ops = append(ops, o)
	}
	if n > 1 {
		on := ps.Src
		if k == "recv" {
			on = ps.Dst
		}
		ops = append(ops, blkOp(on.Idx, sim.DefaultBlockInterval))
		w.Stats.Fault("relay.dup")
	}
	return ops
}

// genEarlyTimeout submits timeouts that may not be legitimate yet, and races of receive
// against timeout at one simulated instant.
func (p *Core) genEarlyTimeout() []sim.Op {
	w := p.w
	var cand []*PktState
	for _, ps := range p.inflight() {
		if ps.RecvHeight == 0 || w.Chance(0.3) {
			cand = append(cand, ps)
		}
	}
	if len(cand) == 0 {
		return nil
	}
	ps := cand[w.Intn(len(cand))]
	if ps.Local {
		h := ps.Src.Height
		if w.Chance(0.6) {
			h += 1 + int64(w.Intn(4000))
			w.Stats.Probe("localhost_timeout_with_future_proof_height")
		}
		w.Stats.Fault("relay.early_timeout")
		return []sim.Op{{K: "tmo", T: ps.Tag, M: h}}
	}
	if ps.Dst.Height < 2 {
		return nil
	}
	w.Stats.Fault("relay.early_timeout")
	if w.Chance(0.45) && ps.RecvHeight == 0 {
		// race: the receive goes to the destination while the timeout goes to the source
		ops, top := p.ensureProvable(ps.Src, ps.SentAt)
		ops = append(ops, sim.Op{K: "recv", T: ps.Tag, M: top, X: flagDefer})
		dt := p.w.Dur()
		ops = append(ops, blkOp(ps.Dst.Idx, dt), blkOp(ps.Dst.Idx, sim.DefaultBlockInterval))
		// timeout proven at a height before, at or after the receive
		ops = append(ops, sim.Op{K: "tmo", T: ps.Tag, M: ps.Dst.Height + int64(w.Intn(3))})
		w.Stats.Fault("relay.race")
		return ops
	}
	h := ps.Dst.Height
	if w.Chance(0.3) && h > 2 {
		h = 2 + int64(w.Intn(int(h-1)))
	}
	kind := "tmo"
	if !ps.V2 && w.Chance(0.15) {
		kind = "toc"
	}
	return []sim.Op{{K: kind, T: ps.Tag, M: h}}
}

// genBoundaryRecv aims a receive at the exact block in which the packet's timeout is reached on
// the destination: header time == timeout (v2: the first nanosecond of the timeout second), one
// nanosecond earlier or later, or block height == timeout height / one below; then the source is
// offered the timeout proven at that very block.
func (p *Core) genBoundaryRecv() []sim.Op {
	w := p.w
	var cand []*PktState
	for _, ps := range p.inflight() {
		if ps.RecvHeight == 0 && !ps.Local && ps.Src != ps.Dst && len(ps.Dst.Mempool) == 0 {
			cand = append(cand, ps)
		}
	}
	if len(cand) == 0 {
		return nil
	}
	ps := cand[w.Intn(len(cand))]
	dst, src := ps.Dst, ps.Src
	var ops []sim.Op
	top := src.Height
	for top < ps.SentAt+1 || top-1 < src.MinVersion {
		ops = append(ops, blkOp(src.Idx, time.Second))
		top++
	}
	spent := time.Duration(len(ops)) * time.Second
	var tns int64 // timeout as nanoseconds on the destination's clock (0 = none)
	if ps.V2 {
		tns = int64(ps.P2.TimeoutTimestamp) * int64(time.Second)
	} else {
		tns = int64(ps.P1.TimeoutTimestamp)
	}
	th := int64(0)
	if !ps.V2 {
		th = int64(ps.P1.TimeoutHeight.RevisionHeight)
	}
	dstNow := p.chainTime(dst.Idx).Add(spent)
	if dst.LastTime.After(dstNow) {
		return nil
	}
	recv := sim.Op{K: "recv", T: ps.Tag, M: top, X: flagDefer}
	byTime := tns > dstNow.UnixNano()+2 && tns-dstNow.UnixNano() < int64(12*time.Hour)
	byHeight := th > dst.Height+1 && th-dst.Height <= 8
	if byTime && byHeight {
		if w.Chance(0.5) {
			byTime = false
		} else {
			byHeight = false
		}
	}
	switch {
	case byTime:
		delta := []int64{0, 0, -1, 1}[w.Intn(4)]
		if th != 0 && th <= dst.Height+1 {
			return nil
		}
		d := tns - dstNow.UnixNano() + delta
		ops = append(ops, recv, blkOp(dst.Idx, time.Duration(d)), blkOp(dst.Idx, time.Second),
			sim.Op{K: "tmo", T: ps.Tag, M: dst.Height + 1})
		w.Stats.Probe(fmt.Sprintf("receive_aimed_at_timeout_time_%+d", delta))
	case byHeight:
		// blocks on the destination until the receive would execute at height th or th-1
		at := th - int64(w.Intn(2))
		for h := dst.Height + 1; h < at; h++ {
			ops = append(ops, blkOp(dst.Idx, time.Second))
		}
		ops = append(ops, recv, blkOp(dst.Idx, time.Second), blkOp(dst.Idx, time.Second), sim.Op{K: "tmo", T: ps.Tag, M: at})
		w.Stats.Probe(fmt.Sprintf("receive_aimed_at_timeout_height_%+d", at-th))
	default:
		return nil
	}
	w.Stats.Fault("relay.race")
	return ops
}

func (p *Core) genClose() []sim.Op {
	w := p.w
	var v1 []int
	for i, r := range p.Routes {
		if !r.V2 {
			v1 = append(v1, i)
		}
	}
	if len(v1) == 0 {
		return nil
	}
	ri := v1[w.Intn(len(v1))]
	r := p.Routes[ri]
	e := w.Intn(2)
	if p.closedAny[chanKey(r.Chain[e].Idx, r.Port[e], r.ID[e])] {
		// already closed here: confirm on the other end
		other := 1 - e
		if p.closedAny[chanKey(r.Chain[other].Idx, r.Port[other], r.ID[other])] {
			return nil
		}
		ch := p.closeHeight[chanKey(r.Chain[e].Idx, r.Port[e], r.ID[e])]
		ops, top := p.ensureProvable(r.Chain[e], ch)
		return append(ops, sim.Op{K: "closec", P: ri, X: int64(other), M: top})
	}
	w.Stats.Fault("chan.close")
	return []sim.Op{{K: "close", P: ri, X: int64(e)}}
}

// genAsyncAck: the application writes acknowledgements for asynchronously received packets —
// also repeatedly, prematurely (before the receive) and for packets acknowledged long ago.
func (p *Core) genAsyncAck() []sim.Op {
	w := p.w
	all := p.sentPkts()
	if len(all) == 0 {
		return nil
	}
	var async, other []*PktState
	for _, ps := range all {
		if ps.AsyncOpen {
			async = append(async, ps)
		} else {
			other = append(other, ps)
		}
	}
	kind := []string{"ok", "fail", "ok", "fail", "bad"}[w.Intn(5)]
	if len(async) > 0 && w.Chance(0.7) {
		ps := async[w.Intn(len(async))]
		reps := int64(1 + w.Pick(60, 30, 10))
		if reps > 1 {
			w.Stats.Probe("async_ack_repeated_write_attempt")
		}
		return []sim.Op{{K: "wack", T: ps.Tag, S: kind, X: reps}}
	}
	if len(other) == 0 {
		return nil
	}
	ps := other[w.Intn(len(other))]
	if ps.RecvHeight == 0 {
		w.Stats.Probe("async_ack_premature_write_attempt")
	} else {
		w.Stats.Probe("async_ack_late_write_attempt")
	}
	return []sim.Op{{K: "wack", T: ps.Tag, S: kind, X: 1}}
}

// Drain: faults stop; an honest relayer works every packet to its terminal state.
func (p *Core) Drain(w *sim.World) []sim.Op {
	if !p.draining {
		p.draining = true
		// flush mempools, resynchronise clocks
		var ops []sim.Op
		for ci := range p.C {
			if p.Skew[ci] != 0 {
				ops = append(ops, sim.Op{K: "skew", C: ci, N: 0})
			}
			ops = append(ops, blkOp(ci, sim.DefaultBlockInterval))
		}
		return ops
	}
	for _, ps := range p.inflight() {
		if p.attempts[ps.Tag] >= 3 {
			continue
		}
		if ps.Ordered && ps.RecvHeight == 0 {
			// only the front of an ordered channel can move
			blocked := false
			for _, q := range p.inflight() {
				if q.Route == ps.Route && q.Dir == ps.Dir && q.Seq() < ps.Seq() && q.RecvHeight == 0 && p.attempts[q.Tag] < 3 {
					blocked = true
				}
			}
			if blocked {
				continue
			}
		}
		ops := p.nextHonest(ps, false)
		if ops == nil {
			p.attempts[ps.Tag] = 3
			continue
		}
		p.attempts[ps.Tag]++
		return ops
	}
	return nil
}

var _ = fmt.Sprintf
