package prof

import (
	"fmt"
	"sort"
	"strings"
	"time"

	sdk "github.com/cosmos/cosmos-sdk/types"

	clienttypes "github.com/cosmos/ibc-go/v11/modules/core/02-client/types"
	connectiontypes "github.com/cosmos/ibc-go/v11/modules/core/03-connection/types"
	channeltypes "github.com/cosmos/ibc-go/v11/modules/core/04-channel/types"
	host "github.com/cosmos/ibc-go/v11/modules/core/24-host"
	ibcexported "github.com/cosmos/ibc-go/v11/modules/core/exported"
	ibcmock "github.com/cosmos/ibc-go/v11/testing/mock"

	"verif/ibcsim/sim"
)

// ---- handshake profile: connection and channel handshakes driven by competing relayers -------
//
// Oracles are object-free: they look at (1) the decoded connection/channel ends of every chain
// after every block (allowed transitions, OPEN/OPEN agreement) and (2) every successful handshake
// transaction, whose proof height is checked against the counterparty's REAL state of that
// version. The generator keeps a table of handshake attempts only to know which ids to use.

type HSOptions struct {
	WInit, WStep, WWrong, WBlock, WUpd, WClose, WRestart, WLocal, WEdge int
	MaxObjs                                                          int
	Steps                                                            int
	TrustingSecs                                                     int64
}

func DefaultHSOptions() HSOptions {
	return HSOptions{WInit: 14, WStep: 46, WWrong: 14, WBlock: 12, WUpd: 5, WClose: 4, WRestart: 1, WLocal: 2, WEdge: 3, MaxObjs: 7}
}

type hsEnd struct {
	ID   string
	Port string
}

type hsObj struct {
	Tag     int64
	Chan    bool
	Link    int      // client pair index (connections)
	Conn    int64    // tag of the connection (channels)
	First   int      // chain index that did INIT
	End     [2]hsEnd // by chain index
	Order   channeltypes.Order
	Version string
	Delay   uint64
	Port    [2]string
	Stage   int // 0 none, 1 init done, 2 try done, 3 ack done, 4 confirm done
	Closed  [2]bool

	attempts int
}

type hsLink struct {
	Client [2]string
}

type HS struct {
	w     *sim.World
	C     []*sim.Chain
	Now   time.Time
	Links []hsLink
	Objs  map[int64]*hsObj
	Order []int64
	Opt   HSOptions

	prevConn []map[string]connectiontypes.ConnectionEnd
	prevChan []map[string]channeltypes.Channel
	ids      []map[string]bool // identifiers a chain has handed out, per chain
	nextTagN int64
}

func NewHS(o HSOptions) *HS { return &HS{Opt: o} }

func (p *HS) Name() string { return "handshake" }

func (p *HS) Setup(w *sim.World) {
	p.w = w
	p.Objs = map[int64]*hsObj{}
	clk := &sim.Clock{}
	for i := 0; i < 2; i++ {
		p.C = append(p.C, sim.NewChain(i, sim.ChainConfig{ChainID: fmt.Sprintf("simchain-%d", i+1), Clock: clk}, w.Stats))
	}
	w.Chains = p.C
	tm := sim.DefaultTMConfig()
	if p.Opt.TrustingSecs > 0 {
		tm.TrustingPeriod = time.Duration(p.Opt.TrustingSecs) * time.Second
	}
	for i := 0; i < 2; i++ {
		ea, eb := sim.NewClientPair(p.C[0], p.C[1], tm, tm)
		p.Links = append(p.Links, hsLink{Client: [2]string{ea.ClientID, eb.ClientID}})
	}
	for ci, c := range p.C {
		p.prevConn = append(p.prevConn, p.decodeConns(ci))
		p.prevChan = append(p.prevChan, p.decodeChans(ci))
		p.ids = append(p.ids, map[string]bool{})
		_ = c
	}
	for _, l := range p.Links {
		p.ids[0][l.Client[0]] = true
		p.ids[1][l.Client[1]] = true
	}
	p.Now = p.C[0].LastTime
	if p.C[1].LastTime.After(p.Now) {
		p.Now = p.C[1].LastTime
	}
}

func (p *HS) decodeConns(ci int) map[string]connectiontypes.ConnectionEnd {
	c := p.C[ci]
	out := map[string]connectiontypes.ConnectionEnd{}
	for k, v := range c.Census([]string{ibcStore}).KV[ibcStore] {
		if strings.HasPrefix(k, "connections/") {
			var ce connectiontypes.ConnectionEnd
			if err := c.App.AppCodec().Unmarshal(v, &ce); err == nil {
				out[strings.TrimPrefix(k, "connections/")] = ce
			}
		}
	}
	return out
}

func (p *HS) decodeChans(ci int) map[string]channeltypes.Channel {
	c := p.C[ci]
	out := map[string]channeltypes.Channel{}
	for k, v := range c.Census([]string{ibcStore}).KV[ibcStore] {
		if strings.HasPrefix(k, "channelEnds/ports/") {
			var ch channeltypes.Channel
			if err := c.App.AppCodec().Unmarshal(v, &ch); err == nil {
				rest := strings.TrimPrefix(k, "channelEnds/ports/") // <port>/channels/<id>
				parts := strings.SplitN(rest, "/channels/", 2)
				if len(parts) == 2 {
					out[parts[0]+"/"+parts[1]] = ch
				}
			}
		}
	}
	return out
}

func (p *HS) tick(d time.Duration) { p.Now = p.Now.Add(d) }

func (p *HS) block(ci int) []*sim.TxResult {
	c := p.C[ci]
	txs := c.Mempool
	c.Mempool = nil
	res := c.Block(p.Now, txs)
	p.afterBlock(ci, res)
	return res
}

// submit delivers msgs in their own block on chain ci (optionally after an honest update so that
// the proof height is known to the client).
func (p *HS) deliver(ci int, label string, tag int64, msgs ...sdk.Msg) *sim.TxResult {
	c := p.C[ci]
	if len(c.Mempool) > 0 {
		p.block(ci)
	}
	signer := c.Relayer()
	for _, m := range msgs {
		setSigner(m, signer.String())
	}
	c.Submit(&sim.TxSpec{Msgs: msgs, Signer: signer, Label: label, Tag: tag})
	p.tick(time.Second)
	return p.block(ci)[0]
}

func setSigner(m sdk.Msg, s string) {
	switch x := m.(type) {
	case *connectiontypes.MsgConnectionOpenInit:
		x.Signer = s
	case *connectiontypes.MsgConnectionOpenTry:
		x.Signer = s
	case *connectiontypes.MsgConnectionOpenAck:
		x.Signer = s
	case *connectiontypes.MsgConnectionOpenConfirm:
		x.Signer = s
	case *channeltypes.MsgChannelOpenInit:
		x.Signer = s
	case *channeltypes.MsgChannelOpenTry:
		x.Signer = s
	case *channeltypes.MsgChannelOpenAck:
		x.Signer = s
	case *channeltypes.MsgChannelOpenConfirm:
		x.Signer = s
	case *channeltypes.MsgChannelCloseInit:
		x.Signer = s
	case *channeltypes.MsgChannelCloseConfirm:
		x.Signer = s
	case *clienttypes.MsgUpdateClient:
		x.Signer = s
	}
}

// version specs: "" = nil, otherwise identifier:features with O=ORDER_ORDERED U=ORDER_UNORDERED
// X=unknown feature; lists joined by '|'.
func parseVersion(s string) *connectiontypes.Version {
	if s == "" {
		return nil
	}
	parts := strings.SplitN(s, ":", 2)
	v := &connectiontypes.Version{Identifier: parts[0]}
	if len(parts) == 2 {
		for _, c := range parts[1] {
			switch c {
			case 'O':
				v.Features = append(v.Features, "ORDER_ORDERED")
			case 'U':
				v.Features = append(v.Features, "ORDER_UNORDERED")
			case 'X':
				v.Features = append(v.Features, "ORDER_DAG")
			}
		}
	}
	return v
}

func parseVersions(s string) []*connectiontypes.Version {
	var out []*connectiontypes.Version
	if s == "" {
		return out
	}
	for _, x := range strings.Split(s, "|") {
		if v := parseVersion(x); v != nil {
			out = append(out, v)
		}
	}
	return out
}

var versionSpecs = []string{"", "", "1:OU", "1:O", "1:U", "1:UO", "2:OU", "1:", "1:OUX", "1:UU"}
var versionLists = []string{"1:OU", "1:OU", "1:U", "1:O", "2:OU|1:OU", "1:X|1:U", "1:|1:OU", "2:OU", "", "1:UU", "1:OU|1:U"}

// ---- operations --------------------------------------------------------------------------------
//
//	blk  C N
//	upd  C=chain whose client is updated P=link M=height
//	cinit T C=chain P=link N=delay S=version            (S="LH": over the localhost client)
//	ctry  T C=chain M=proofHeight S=versions X=mutation
//	cack  T C=chain M=proofHeight X=mutation S=version override
//	cconf T C=chain M=proofHeight X=mutation
//	hinit T C=chain P=connTagIndex(T of conn in N) N=connTag S="port;order;version" X=mutation
//	htry / hack / hconf / hclose / hclosec similarly (C = acting chain)
//	restart C

func (p *HS) Exec(w *sim.World, op sim.Op) {
	switch op.K {
	case "blk":
		if op.C < 0 || op.C > 1 {
			w.Noop()
			return
		}
		p.tick(time.Duration(op.N))
		p.block(op.C)
	case "upd":
		p.execUpd(op)
	case "restart":
		if op.C < 0 || op.C > 1 || len(p.C[op.C].Mempool) > 0 {
			w.Noop()
			return
		}
		p.C[op.C].Restart()
	case "mkcl":
		if op.C < 0 || op.C > 1 {
			w.Noop()
			return
		}
		of := p.C[1-op.C]
		tm := sim.DefaultTMConfig()
		if op.X == 1 {
			tm.TrustingPeriod = tm.UnbondingPeriod + time.Hour // invalid: must fail without burning an id
		}
		msg := sim.MsgCreateTMClient(of, of.Height, tm, "")
		c := p.C[op.C]
		if len(c.Mempool) > 0 {
			p.block(op.C)
		}
		signer := c.Relayer()
		msg.Signer = signer.String()
		c.Submit(&sim.TxSpec{Msgs: []sdk.Msg{msg}, Signer: signer, Label: "mkcl"})
		p.tick(time.Second)
		r := p.block(op.C)[0]
		if r.OK() {
			if id, ok := sim.EventAttr(r.Events, clienttypes.EventTypeCreateClient, clienttypes.AttributeKeyClientID); ok {
				p.noteID(op.C, "client", id)
			}
		} else {
			w.Stats.Probe("failed_create_client_attempt")
		}
	case "cinit", "ctry", "cack", "cconf":
		p.execConn(op)
	case "hinit", "htry", "hack", "hconf", "hclose", "hclosec":
		p.execChan(op)
	default:
		w.Noop()
	}
}

func (p *HS) execUpd(op sim.Op) {
	if op.C < 0 || op.C > 1 || op.P < 0 || op.P >= len(p.Links) {
		p.w.Noop()
		return
	}
	on, of := p.C[op.C], p.C[1-op.C]
	if op.M < 2 || op.M > of.Height {
		p.w.Noop()
		return
	}
	u, err := sim.MsgUpdateTo(on, p.Links[op.P].Client[op.C], of, op.M, "")
	if err != nil {
		p.w.Noop()
		return
	}
	p.deliver(op.C, "upd", 0, u)
}

// proofFor returns an honest update (if the client lacks the height) and the proof of key on the
// other chain at height h.
func (p *HS) proofFor(ci int, client string, key []byte, h int64) ([]sdk.Msg, []byte, clienttypes.Height, bool) {
	on, of := p.C[ci], p.C[1-ci]
	if h < 3 || h > of.Height {
		return nil, nil, clienttypes.Height{}, false
	}
	var pre []sdk.Msg
	if !on.HasConsensusState(client, of.IBCHeight(h)) {
		if u, err := sim.MsgUpdateTo(on, client, of, h, ""); err == nil {
			pre = append(pre, u)
		}
	}
	proof, ph := of.IBCProof(key, h)
	return pre, proof, ph, true
}

func mutID(id string, n int64) string {
	switch n % 6 {
	case 1:
		return id + "0"
	case 2:
		if i := strings.LastIndex(id, "-"); i >= 0 {
			return id[:i+1] + "18446744073709551616" // does not fit in 64 bits
		}
	case 3:
		if i := strings.LastIndex(id, "-"); i >= 0 {
			return id[:i+1] + "0" + id[i+1:] // leading zero
		}
	case 4:
		return strings.ToUpper(id)
	case 5:
		if i := strings.LastIndex(id, "-"); i >= 0 {
			return id[:i+1] + "99"
		}
	}
	return id
}

func (p *HS) execConn(op sim.Op) {
	w := p.w
	if op.C < 0 || op.C > 1 {
		w.Noop()
		return
	}
	ci := op.C
	c, peer := p.C[ci], p.C[1-ci]
	o := p.Objs[op.T]
	switch op.K {
	case "cinit":
		if o != nil || op.T == 0 || op.P < 0 || op.P >= len(p.Links) {
			w.Noop()
			return
		}
		l := p.Links[op.P]
		cl, cpCl := l.Client[ci], l.Client[1-ci]
		ver := op.S
		if op.S == "LH" {
			cl, cpCl, ver = ibcexported.LocalhostClientID, ibcexported.LocalhostClientID, ""
		}
		msg := connectiontypes.NewMsgConnectionOpenInit(cl, cpCl, peer.Prefix(), parseVersion(ver), uint64(op.N), "")
		r := p.deliver(ci, "cinit", op.T, msg)
		if r.OK() {
			id, _ := sim.EventAttr(r.Events, connectiontypes.EventTypeConnectionOpenInit, connectiontypes.AttributeKeyConnectionID)
			no := &hsObj{Tag: op.T, Link: op.P, First: ci, Delay: uint64(op.N), Version: ver, Stage: 1}
			no.End[ci].ID = id
			p.Objs[op.T] = no
			p.Order = append(p.Order, op.T)
		}
	case "ctry":
		if o == nil || o.Chan || o.End[1-ci].ID == "" {
			w.Noop()
			return
		}
		l := p.Links[o.Link]
		cpID := o.End[1-ci].ID
		pre, proof, ph, ok := p.proofFor(ci, l.Client[ci], host.ConnectionKey(cpID), op.M)
		if !ok {
			w.Noop()
			return
		}
		cl, cpCl, delay := l.Client[ci], l.Client[1-ci], o.Delay
		switch op.X {
		case 1:
			cpID = mutID(cpID, op.N)
		case 2:
			delay++
		case 3:
			cl, cpCl = p.Links[(o.Link+1)%len(p.Links)].Client[ci], l.Client[1-ci] // another client of the same chain
		case 4:
			cpCl = p.Links[(o.Link+1)%len(p.Links)].Client[1-ci]
		case 5:
			cl, cpCl = ibcexported.LocalhostClientID, ibcexported.LocalhostClientID
		}
		msg := connectiontypes.NewMsgConnectionOpenTry(cl, cpID, cpCl, peer.Prefix(), parseVersions(op.S), delay, proof, ph, "")
		r := p.deliver(ci, "ctry", op.T, append(pre, msg)...)
		if r.OK() && op.X == 0 && o.End[ci].ID == "" {
			id, _ := sim.EventAttr(r.Events, connectiontypes.EventTypeConnectionOpenTry, connectiontypes.AttributeKeyConnectionID)
			o.End[ci].ID = id
			o.Stage = 2
		}
	case "cack":
		if o == nil || o.Chan || o.End[ci].ID == "" || o.End[1-ci].ID == "" {
			w.Noop()
			return
		}
		l := p.Links[o.Link]
		id, cpID := o.End[ci].ID, o.End[1-ci].ID
		pre, proof, ph, ok := p.proofFor(ci, l.Client[ci], host.ConnectionKey(cpID), op.M)
		if !ok {
			w.Noop()
			return
		}
		// the version the counterparty end stores (what an honest relayer reads)
		var ver *connectiontypes.Version
		if ce, ok := p.prevConn[1-ci][cpID]; ok && len(ce.Versions) > 0 {
			ver = ce.Versions[0]
		} else {
			ver = connectiontypes.GetCompatibleVersions()[0]
		}
		switch op.X {
		case 1:
			cpID = mutID(cpID, op.N)
		case 2:
			id = mutID(id, op.N)
		case 3:
			ver = parseVersion(versionSpecs[2+int(op.N)%(len(versionSpecs)-2)])
		}
		msg := connectiontypes.NewMsgConnectionOpenAck(id, cpID, proof, ph, ver, "")
		r := p.deliver(ci, "cack", op.T, append(pre, msg)...)
		if r.OK() && op.X == 0 {
			o.Stage = 3
		}
	case "cconf":
		if o == nil || o.Chan || o.End[ci].ID == "" || o.End[1-ci].ID == "" {
			w.Noop()
			return
		}
		l := p.Links[o.Link]
		id := o.End[ci].ID
		pre, proof, ph, ok := p.proofFor(ci, l.Client[ci], host.ConnectionKey(o.End[1-ci].ID), op.M)
		if !ok {
			w.Noop()
			return
		}
		if op.X == 1 {
			id = mutID(id, op.N)
		}
		msg := connectiontypes.NewMsgConnectionOpenConfirm(id, proof, ph, "")
		r := p.deliver(ci, "cconf", op.T, append(pre, msg)...)
		if r.OK() && op.X == 0 {
			o.Stage = 4
		}
	}
	_ = c
}

func parseOrder(s string) channeltypes.Order {
	if s == "O" {
		return channeltypes.ORDERED
	}
	return channeltypes.UNORDERED
}

func (p *HS) execChan(op sim.Op) {
	w := p.w
	if op.C < 0 || op.C > 1 {
		w.Noop()
		return
	}
	ci := op.C
	o := p.Objs[op.T]
	if op.K == "hinit" {
		co := p.Objs[op.N]
		parts := strings.Split(op.S, ";")
		if o != nil || op.T == 0 || co == nil || co.Chan || co.End[ci].ID == "" || len(parts) != 3 {
			w.Noop()
			return
		}
		port, order, version := parts[0], parseOrder(parts[1]), parts[2]
		hops := []string{co.End[ci].ID}
		cpPort := port
		switch op.X {
		case 1:
			hops = []string{mutID(co.End[ci].ID, op.M)}
		case 2:
			hops = []string{co.End[ci].ID, co.End[ci].ID}
		case 3:
			cpPort = "transfer"
			if port == "transfer" {
				cpPort = ibcmock.PortID
			}
		}
		msg := channeltypes.NewMsgChannelOpenInit(port, version, order, hops, cpPort, "")
		r := p.deliver(ci, "hinit", op.T, msg)
		if r.OK() {
			id, _ := sim.EventAttr(r.Events, channeltypes.EventTypeChannelOpenInit, channeltypes.AttributeKeyChannelID)
			no := &hsObj{Tag: op.T, Chan: true, Conn: op.N, First: ci, Order: order, Version: version, Stage: 1}
			no.Port[ci], no.Port[1-ci] = port, cpPort
			no.End[ci] = hsEnd{ID: id, Port: port}
			no.Link = co.Link
			p.Objs[op.T] = no
			p.Order = append(p.Order, op.T)
		}
		return
	}
	if o == nil || !o.Chan {
		w.Noop()
		return
	}
	co := p.Objs[o.Conn]
	if co == nil || co.End[ci].ID == "" {
		w.Noop()
		return
	}
	l := p.Links[co.Link]
	switch op.K {
	case "htry":
		if o.End[1-ci].ID == "" {
			w.Noop()
			return
		}
		cp := o.End[1-ci]
		pre, proof, ph, ok := p.proofFor(ci, l.Client[ci], host.ChannelKey(cp.Port, cp.ID), op.M)
		if !ok {
			w.Noop()
			return
		}
		port, order, version, cpVersion, cpID, cpPort := o.Port[ci], o.Order, o.Version, o.Version, cp.ID, cp.Port
		hops := []string{co.End[ci].ID}
		if ch, ok := p.prevChan[1-ci][cp.Port+"/"+cp.ID]; ok {
			cpVersion = ch.Version
		}
		switch op.X {
		case 1:
			if order == channeltypes.ORDERED {
				order = channeltypes.UNORDERED
			} else {
				order = channeltypes.ORDERED
			}
		case 2:
			cpID = mutID(cpID, op.N)
		case 3:
			cpVersion = cpVersion + "x"
		case 4:
			hops = []string{mutID(hops[0], op.N)}
		case 5:
			// a connection of another link on this chain
			for _, t := range p.Order {
				if x := p.Objs[t]; x != nil && !x.Chan && x.Tag != co.Tag && x.End[ci].ID != "" {
					hops = []string{x.End[ci].ID}
				}
			}
		case 6:
			port = "transfer"
			if o.Port[ci] == "transfer" {
				port = ibcmock.PortID
			}
		}
		msg := channeltypes.NewMsgChannelOpenTry(port, version, order, hops, cpPort, cpID, cpVersion, proof, ph, "")
		r := p.deliver(ci, "htry", op.T, append(pre, msg)...)
		if r.OK() && op.X == 0 && o.End[ci].ID == "" {
			id, _ := sim.EventAttr(r.Events, channeltypes.EventTypeChannelOpenTry, channeltypes.AttributeKeyChannelID)
			o.End[ci] = hsEnd{ID: id, Port: port}
			o.Stage = 2
		}
	case "hack":
		if o.End[ci].ID == "" || o.End[1-ci].ID == "" {
			w.Noop()
			return
		}
		cp := o.End[1-ci]
		pre, proof, ph, ok := p.proofFor(ci, l.Client[ci], host.ChannelKey(cp.Port, cp.ID), op.M)
		if !ok {
			w.Noop()
			return
		}
		id, cpID, cpVersion := o.End[ci].ID, cp.ID, o.Version
		if ch, ok := p.prevChan[1-ci][cp.Port+"/"+cp.ID]; ok {
			cpVersion = ch.Version
		}
		switch op.X {
		case 1:
			cpID = mutID(cpID, op.N)
		case 2:
			cpVersion += "x"
		case 3:
			id = mutID(id, op.N)
		case 4:
			// the id of some OTHER channel end the counterparty has on that port
			for k := range p.prevChan[1-ci] {
				parts := strings.SplitN(k, "/", 2)
				if parts[0] == cp.Port && parts[1] != cp.ID {
					cpID = parts[1]
				}
			}
		}
		msg := channeltypes.NewMsgChannelOpenAck(o.End[ci].Port, id, cpID, cpVersion, proof, ph, "")
		r := p.deliver(ci, "hack", op.T, append(pre, msg)...)
		if r.OK() && op.X == 0 {
			o.Stage = 3
		}
	case "hconf":
		if o.End[ci].ID == "" || o.End[1-ci].ID == "" {
			w.Noop()
			return
		}
		cp := o.End[1-ci]
		pre, proof, ph, ok := p.proofFor(ci, l.Client[ci], host.ChannelKey(cp.Port, cp.ID), op.M)
		if !ok {
			w.Noop()
			return
		}
		id := o.End[ci].ID
		if op.X == 1 {
			id = mutID(id, op.N)
		}
		msg := channeltypes.NewMsgChannelOpenConfirm(o.End[ci].Port, id, proof, ph, "")
		r := p.deliver(ci, "hconf", op.T, append(pre, msg)...)
		if r.OK() && op.X == 0 {
			o.Stage = 4
		}
	case "hclose":
		if o.End[ci].ID == "" {
			w.Noop()
			return
		}
		r := p.deliver(ci, "hclose", op.T, channeltypes.NewMsgChannelCloseInit(o.End[ci].Port, o.End[ci].ID, ""))
		if r.OK() {
			o.Closed[ci] = true
		}
	case "hclosec":
		if o.End[ci].ID == "" || o.End[1-ci].ID == "" {
			w.Noop()
			return
		}
		cp := o.End[1-ci]
		pre, proof, ph, ok := p.proofFor(ci, l.Client[ci], host.ChannelKey(cp.Port, cp.ID), op.M)
		if !ok {
			w.Noop()
			return
		}
		r := p.deliver(ci, "hclosec", op.T, append(pre, channeltypes.NewMsgChannelCloseConfirm(o.End[ci].Port, o.End[ci].ID, proof, ph, ""))...)
		if r.OK() {
			o.Closed[ci] = true
		}
	}
}

// ---- generator ---------------------------------------------------------------------------------

func (p *HS) pickHeight(of *sim.Chain, lo int64) int64 {
	if lo < 3 {
		lo = 3
	}
	if of.Height <= lo || p.w.Chance(0.6) {
		return of.Height
	}
	p.w.Stats.Fault("relay.stale_proof")
	return lo + int64(p.w.Intn(int(of.Height-lo+1)))
}

func (p *HS) ensure(ci int) []sim.Op {
	// the counterparty's latest state is provable only after one more block
	return []sim.Op{{K: "blk", C: ci, N: int64(sim.DefaultBlockInterval)}}
}

func (p *HS) Gen(w *sim.World) []sim.Op {
	o := p.Opt
	for try := 0; try < 8; try++ {
		switch w.Pick(o.WInit, o.WStep, o.WWrong, o.WBlock, o.WUpd, o.WClose, o.WRestart, o.WLocal, o.WEdge) {
		case 0:
			if ops := p.genInit(); ops != nil {
				return ops
			}
		case 1:
			if ops := p.genStep(false); ops != nil {
				return ops
			}
		case 2:
			if ops := p.genStep(true); ops != nil {
				return ops
			}
		case 3:
			return []sim.Op{{K: "blk", C: w.Intn(2), N: int64(w.Dur())}}
		case 4:
			ci := w.Intn(2)
			of := p.C[1-ci]
			if of.Height >= 3 {
				return []sim.Op{{K: "upd", C: ci, P: w.Intn(len(p.Links)), M: 2 + int64(w.Intn(int(of.Height-1)))}}
			}
		case 5:
			if ops := p.genClose(); ops != nil {
				return ops
			}
		case 6:
			ci := w.Intn(2)
			if len(p.C[ci].Mempool) == 0 {
				return []sim.Op{{K: "restart", C: ci}}
			}
		case 7:
			if w.Chance(0.5) {
				return []sim.Op{{K: "mkcl", C: w.Intn(2), X: int64(w.Intn(2))}}
			}
			return []sim.Op{{K: "cinit", T: w.Tag(), C: w.Intn(2), P: 0, S: "LH"}}
		case 8:
			if ops := p.genStep(true); ops != nil {
				return ops
			}
		}
	}
	return []sim.Op{{K: "blk", C: w.Intn(2), N: int64(w.Dur())}}
}

func (p *HS) genInit() []sim.Op {
	w := p.w
	if len(p.Order) >= p.Opt.MaxObjs {
		return nil
	}
	// a channel needs a connection end on the acting chain that is OPEN (or, to provoke
	// refusals, in any state)
	var conns []*hsObj
	for _, t := range p.Order {
		if x := p.Objs[t]; x != nil && !x.Chan {
			conns = append(conns, x)
		}
	}
	if len(conns) > 0 && w.Chance(0.6) {
		co := conns[w.Intn(len(conns))]
		ci := w.Intn(2)
		if co.End[ci].ID == "" {
			ci = 1 - ci
		}
		if co.End[ci].ID == "" {
			return nil
		}
		port, version := ibcmock.PortID, ibcmock.Version
		if w.Chance(0.3) {
			port, version = "transfer", "ics20-1"
		}
		order := "U"
		if port == ibcmock.PortID && w.Chance(0.45) {
			order = "O"
		}
		x := int64(0)
		if w.Chance(0.12) {
			x = 1 + int64(w.Intn(3))
		}
		return []sim.Op{{K: "hinit", T: w.Tag(), C: ci, N: co.Tag, X: x, M: int64(w.Intn(6)), S: strings.Join([]string{port, order, version}, ";")}}
	}
	delay := int64(0)
	if w.Chance(0.25) {
		delay = int64(w.Intn(3)) * int64(time.Second)
	}
	return []sim.Op{{K: "cinit", T: w.Tag(), C: w.Intn(2), P: w.Intn(len(p.Links)), N: delay, S: versionSpecs[w.Intn(len(versionSpecs))]}}
}

// genStep proposes the next honest step of a random handshake (wrong = a mutated, out-of-order
// or repeated step instead).
func (p *HS) genStep(wrong bool) []sim.Op {
	w := p.w
	if len(p.Order) == 0 {
		return nil
	}
	o := p.Objs[p.Order[w.Intn(len(p.Order))]]
	second := 1 - o.First
	stage := o.Stage
	if wrong && w.Chance(0.5) {
		stage = 1 + w.Intn(4) // any step, whatever the real progress
		if stage > 3 {
			stage = 3
		}
		p.w.Stats.Fault("relay.reorder")
	}
	x := int64(0)
	if wrong && w.Chance(0.7) {
		x = 1 + int64(w.Intn(6))
		p.w.Stats.Fault("relay.mutate")
	}
	n := int64(w.Intn(6))
	pfx := "c"
	if o.Chan {
		pfx = "h"
	}
	var ops []sim.Op
	switch stage {
	case 1: // TRY on the second chain, proving the first chain's INIT
		ops = p.ensure(o.First)
		h := p.proofH(o.First)
		s := ""
		if !o.Chan {
			s = versionLists[w.Intn(len(versionLists))]
			if !wrong && w.Chance(0.7) {
				s = "1:OU"
			}
		}
		ops = append(ops, sim.Op{K: pfx + "try", T: o.Tag, C: second, M: h, X: x, N: n, S: s})
	case 2: // ACK on the first chain, proving the second chain's TRY
		ops = p.ensure(second)
		ops = append(ops, sim.Op{K: pfx + "ack", T: o.Tag, C: o.First, M: p.proofH(second), X: x, N: n})
	case 3: // CONFIRM on the second chain
		ops = p.ensure(o.First)
		ops = append(ops, sim.Op{K: pfx + "conf", T: o.Tag, C: second, M: p.proofH(o.First), X: x % 2, N: n})
	default:
		if !wrong {
			return nil
		}
		// replay a finished step
		ops = p.ensure(o.First)
		ops = append(ops, sim.Op{K: pfx + "conf", T: o.Tag, C: second, M: p.C[o.First].Height + 1, N: n})
		p.w.Stats.Fault("relay.replay")
	}
	return ops
}

func (p *HS) genClose() []sim.Op {
	w := p.w
	var chans []*hsObj
	for _, t := range p.Order {
		if x := p.Objs[t]; x != nil && x.Chan {
			chans = append(chans, x)
		}
	}
	if len(chans) == 0 {
		return nil
	}
	o := chans[w.Intn(len(chans))]
	ci := w.Intn(2)
	if o.Closed[1-ci] && !o.Closed[ci] {
		ops := p.ensure(1 - ci)
		return append(ops, sim.Op{K: "hclosec", T: o.Tag, C: ci, M: p.C[1-ci].Height + 1})
	}
	if w.Chance(0.3) { // close-confirm without a closed counterparty
		ops := p.ensure(1 - ci)
		return append(ops, sim.Op{K: "hclosec", T: o.Tag, C: ci, M: p.C[1-ci].Height + 1})
	}
	return []sim.Op{{K: "hclose", T: o.Tag, C: ci}}
}

func (p *HS) Drain(w *sim.World) []sim.Op {
	// finish every handshake honestly (liveness is not asserted; this only raises coverage)
	for _, t := range p.Order {
		o := p.Objs[t]
		if o.Stage >= 1 && o.Stage < 4 && o.attempts < 2 {
			o.attempts++
			sv := p.Opt
			_ = sv
			pfx := "c"
			if o.Chan {
				pfx = "h"
			}
			second := 1 - o.First
			switch o.Stage {
			case 1:
				return append(p.ensure(o.First), sim.Op{K: pfx + "try", T: o.Tag, C: second, M: p.C[o.First].Height + 1, S: "1:OU"})
			case 2:
				return append(p.ensure(second), sim.Op{K: pfx + "ack", T: o.Tag, C: o.First, M: p.C[second].Height + 1})
			case 3:
				return append(p.ensure(o.First), sim.Op{K: pfx + "conf", T: o.Tag, C: second, M: p.C[o.First].Height + 1})
			}
		}
	}
	return nil
}

func (p *HS) Finish(w *sim.World) {
	n := len(w.Log)
	if n > 30 {
		n = 30
	}
	if len(w.Viol) == 0 && len(p.Order) > 1 {
		w.Stats.Sample(map[string]any{"profile": "handshake", "seed": w.Cfg.Seed, "handshakes": len(p.Order), "first_events": w.Log[:n]})
	}
}

var _ = sort.Strings

// proofH draws the proof height on chain ci for a step generated right after one more block of
// that chain: mostly the newest provable height, sometimes a stale one.
func (p *HS) proofH(ci int) int64 {
	top := p.C[ci].Height + 1
	if top > 5 && p.w.Chance(0.25) {
		p.w.Stats.Fault("relay.stale_proof")
		return 3 + int64(p.w.Intn(int(top-3)))
	}
	return top
}
