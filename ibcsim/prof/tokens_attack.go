package prof

import (
	"fmt"
	"strconv"
	"strings"
	"time"

	sdkmath "cosmossdk.io/math"

	sdk "github.com/cosmos/cosmos-sdk/types"
	"github.com/cosmos/cosmos-sdk/x/authz"

	transfertypes "github.com/cosmos/ibc-go/v11/modules/apps/transfer/types"
	clienttypes "github.com/cosmos/ibc-go/v11/modules/core/02-client/types"
	channeltypesv2 "github.com/cosmos/ibc-go/v11/modules/core/04-channel/v2/types"

	"verif/ibcsim/sim"
)

// ---- attackers (C49): every (signer, sender) combination that must not move tokens ----------
//
//	atk C=chain P=route X=dir N=amount M=variant S="denom;victimIdx;attackerIdx"
//
// variants: 0 v2 MsgSendPacket whose transfer payload names the victim as sender
//
//	1 MsgTransfer naming the victim as sender, signed by the attacker only
//	2 authz MsgExec of the victim's MsgTransfer by an attacker holding no grant
//	3 v2 MsgSendPacket on the alias of a v1 channel naming the victim

func (p *Core) genAttack() []sim.Op {
	w := p.w
	rs := p.xferRoutes()
	if len(rs) == 0 {
		return nil
	}
	ri := rs[w.Intn(len(rs))]
	r := p.Routes[ri]
	d := w.Intn(2)
	src := r.Chain[d]
	victim := 2 + w.Intn(6)
	attacker := 2 + w.Intn(6)
	if attacker == victim {
		attacker = 2 + (victim-1)%6
	}
	ds := p.heldDenoms(src.Idx, victim)
	if len(ds) == 0 {
		return nil
	}
	variant := int64(w.Intn(4))
	return []sim.Op{{K: "atk", P: ri, X: int64(d), N: int64(1 + w.Intn(500)), M: variant, S: fmt.Sprintf("%s;%d;%d", ds[w.Intn(len(ds))], victim, attacker)}}
}

func (p *Core) execAttack(op sim.Op) {
	w := p.w
	r := p.route(op.P)
	parts := strings.Split(op.S, ";")
	if r == nil || !r.Xfer || len(parts) != 3 {
		w.Noop()
		return
	}
	d := int(op.X & 1)
	src, dst := r.Chain[d], r.Chain[1-d]
	vi, err1 := strconv.Atoi(parts[1])
	ai, err2 := strconv.Atoi(parts[2])
	if err1 != nil || err2 != nil || vi < 0 || ai < 0 || vi >= len(src.Accounts) || ai >= len(src.Accounts) || vi == ai {
		w.Noop()
		return
	}
	victim, attacker := src.Accounts[vi], src.Accounts[ai]
	if attacker.InPool() {
		p.block(src.Idx)
	}
	coin := sdk.NewCoin(parts[0], sdkmath.NewInt(op.N))
	recv := dst.Accounts[ai%len(dst.Accounts)].String() // the attacker's own account on the other side
	ts := uint64(p.chainTime(dst.Idx).Unix() + 3600)
	var msg sdk.Msg
	name := ""
	switch op.M {
	case 0, 3:
		id := r.ID[d]
		if op.M == 0 && !r.V2 {
			w.Noop()
			return
		}
		if op.M == 3 && r.V2 {
			w.Noop()
			return
		}
		path := coin.Denom
		if pth, ok := p.tok.vouchers[src.Idx][coin.Denom]; ok {
			path = pth
		}
		data := transfertypes.NewFungibleTokenPacketData(path, coin.Amount.String(), victim.String(), recv, "")
		bz, err := transfertypes.MarshalPacketData(data, transfertypes.V1, transfertypes.EncodingJSON)
		if err != nil {
			w.Noop()
			return
		}
		pl := channeltypesv2.NewPayload(transfertypes.PortID, transfertypes.PortID, transfertypes.V1, transfertypes.EncodingJSON, bz)
		msg = channeltypesv2.NewMsgSendPacket(id, ts, attacker.String(), pl)
		name = "v2-payload-names-victim"
		if op.M == 3 {
			name = "alias-payload-names-victim"
		}
	case 1:
		th := clienttypes.ZeroHeight()
		tts := uint64(p.chainTime(dst.Idx).UnixNano() + int64(time.Hour))
		if r.V2 {
			tts = ts
		} else {
			th = dst.IBCHeight(dst.Height + 500)
		}
		msg = transfertypes.NewMsgTransfer(r.Port[d], r.ID[d], coin, victim.String(), recv, th, tts, "")
		name = "msgtransfer-signed-by-stranger"
	case 2:
		th := dst.IBCHeight(dst.Height + 500)
		var tts uint64
		if r.V2 {
			th, tts = clienttypes.ZeroHeight(), ts
		}
		inner := transfertypes.NewMsgTransfer(r.Port[d], r.ID[d], coin, victim.String(), recv, th, tts, "")
		m := authz.NewMsgExec(attacker.Addr, []sdk.Msg{inner})
		msg = &m
		name = "authz-exec-without-grant"
	default:
		w.Noop()
		return
	}
	p.atkName = name
	src.Submit(&sim.TxSpec{Msgs: []sdk.Msg{msg}, Signer: attacker, Label: "atk"})
	p.tick(time.Second)
	p.block(src.Idx)
}

func (p *Core) applyAttack(ci int, r *sim.TxResult) {
	w := p.w
	out := "refused"
	if r.OK() {
		out = "ACCEPTED"
		w.Violate("C49", "unauthorised-transfer-accepted", "", fmt.Sprintf("%s: transaction %q signed only by %s was accepted", p.C[ci].ID, p.atkName, r.Spec.Signer.Name))
	}
	w.Stats.Probe("attack_" + out)
	w.Stats.NonTrivial("attack:" + p.atkName + ":" + out)
}
