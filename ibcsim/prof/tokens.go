package prof

import (
	"crypto/sha256"
	"fmt"
	"sort"
	"strconv"
	"strings"
	"time"

	sdkmath "cosmossdk.io/math"

	sdk "github.com/cosmos/cosmos-sdk/types"
	authtypes "github.com/cosmos/cosmos-sdk/x/auth/types"
	"github.com/cosmos/cosmos-sdk/x/authz"
	banktypes "github.com/cosmos/cosmos-sdk/x/bank/types"

	ratelimittypes "github.com/cosmos/ibc-go/v11/modules/apps/rate-limiting/types"
	transfertypes "github.com/cosmos/ibc-go/v11/modules/apps/transfer/types"
	clienttypes "github.com/cosmos/ibc-go/v11/modules/core/02-client/types"
	channeltypes "github.com/cosmos/ibc-go/v11/modules/core/04-channel/types"
	channeltypesv2 "github.com/cosmos/ibc-go/v11/modules/core/04-channel/v2/types"
	ibctesting "github.com/cosmos/ibc-go/v11/testing"

	"verif/ibcsim/sim"
)

// ---- ICS-20 worlds: real transfer stack (rate-limiting -> packet-forward -> transfer) ---------
//
// The reference model here is specification-level ICS-20 applied to the denomination STRING in
// the packet relative to the (port, channel) it travels on, plus a registry of voucher paths
// built from the model's own mints. It never reads the keeper's denom store and never calls
// the keeper's parsing helpers. After every block the REAL change of every bank balance and of
// every supply must equal the sum of the model's predictions for the committed transactions.

// XferInfo is the model's record of one ICS-20 transfer.
type XferInfo struct {
	SenderIdx int
	Sender    string
	Receiver  string
	RecvKind  string // account index, "bad" or "blk"
	SrcDenom  string // bank denomination debited on the source
	Path      string // denomination path string carried by the packet (model's view)
	Amount    sdkmath.Int
	Burn      bool // source burned a returning voucher (else: escrowed)
	Alias     bool
	Memo      string
	RecvOK    bool // destination credited the receiver
	Refunded  bool
	Settled   bool // successfully acknowledged
	ExpectOK  bool // model: the destination must accept (valid, unblocked receiver)
	Granter   int  // >= 0: executed under an authz grant of this account
	Sentinel  bool // amount was the "entire balance" sentinel
	FarTimeout bool // the timeout lies far beyond anything the counterparty client has seen
	Deferred   bool // submitted to the mempool, executed by a later block operation
	Fwd       *FwdInfo
}

type amap map[string]map[string]sdkmath.Int // address (or "supply") -> denom -> amount

func (m amap) add(addr, denom string, x sdkmath.Int) {
	if m[addr] == nil {
		m[addr] = map[string]sdkmath.Int{}
	}
	cur, ok := m[addr][denom]
	if !ok {
		cur = sdkmath.ZeroInt()
	}
	m[addr][denom] = cur.Add(x)
}

func (m amap) get(addr, denom string) sdkmath.Int {
	if v, ok := m[addr][denom]; ok {
		return v
	}
	return sdkmath.ZeroInt()
}

// tokState is the token part of the Core profile state.
type tokState struct {
	bank      []amap              // last observed real balances per chain (incl. "supply")
	pred      []amap              // predicted changes of the block being executed, per chain
	vouchers  []map[string]string // per chain: voucher denom -> full path (model registry)
	paths     []map[string]bool   // per chain: full paths the model minted
	tracked   []map[string]sdkmath.Int
	donated   []amap // per chain: escrow address -> denom -> donated amount
	pending   map[int64]*XferInfo
	natives   []string
	genSupply []map[string]sdkmath.Int
	blockKinds map[string]bool // what the current block contained (for attribution)
	rl         map[rlKey]*rlModel
	grants     map[grantKey]map[string]*allocModel
	pendingGrantKey grantKey
	pendingGrant    map[string]*allocModel
}

const supplyKey = "supply"

func voucherOf(fullPath string) string {
	h := sha256.Sum256([]byte(fullPath))
	return fmt.Sprintf("ibc/%X", h[:])
}

func (p *Core) setupTokens(ea, eb *sim.ConnEnd, tm sim.TMConfig) {
	type link struct{ ea, eb *sim.ConnEnd }
	links := []link{{ea, eb}}
	if len(p.C) >= 3 {
		e1, e2 := sim.NewClientPair(p.C[1], p.C[2], tm, tm)
		sim.OpenConnection(e1, e2, 0)
		links = append(links, link{e1, e2})
		if p.Opt.Mesh {
			e3, e4 := sim.NewClientPair(p.C[0], p.C[2], tm, tm)
			sim.OpenConnection(e3, e4, 0)
			links = append(links, link{e3, e4})
		}
	}
	for li, l := range links {
		n := 1
		if li == 0 && p.Opt.ManyChans {
			// enough channels on one link that identifiers become textual prefixes of each other
			// (channel-1 / channel-10, channel-11, ...)
			n = 12
		}
		for k := 0; k < n; k++ {
			ca, cb := sim.OpenChannel(l.ea, l.eb, transfertypes.PortID, transfertypes.PortID, transfertypes.V1, channeltypes.UNORDERED)
			p.Routes = append(p.Routes, &Route{Kind: "t1", Xfer: true, Chain: [2]*sim.Chain{l.ea.Chain, l.eb.Chain}, Port: [2]string{ca.Port, cb.Port}, ID: [2]string{ca.ChanID, cb.ChanID},
				Client: [2]string{l.ea.ClientID, l.eb.ClientID}, Conn: [2]string{l.ea.ConnID, l.eb.ConnID}})
		}
	}
	if p.wantKind("t2") {
		fa, fb := sim.NewClientPair(p.C[0], p.C[1], tm, tm)
		sim.RegisterV2(fa, fb)
		p.Routes = append(p.Routes, &Route{Kind: "t2", Xfer: true, V2: true, Chain: [2]*sim.Chain{p.C[0], p.C[1]}, Port: [2]string{transfertypes.PortID, transfertypes.PortID},
			ID: [2]string{fa.ClientID, fb.ClientID}, Client: [2]string{fa.ClientID, fb.ClientID}})
	}
}

func (p *Core) snapshotBank(ci int) amap {
	c := p.C[ci]
	m := amap{}
	for addr, coins := range c.BankBalances() {
		for _, coin := range coins {
			m.add(addr, coin.Denom, coin.Amount)
		}
	}
	for _, coin := range c.Supply() {
		m.add(supplyKey, coin.Denom, coin.Amount)
	}
	return m
}

func (p *Core) initLedger() {
	t := &p.tok
	t.pending = map[int64]*XferInfo{}
	t.rl = map[rlKey]*rlModel{}
	t.grants = map[grantKey]map[string]*allocModel{}
	t.natives = append([]string{"ufoo"}, p.Opt.Denoms...)
	for ci := range p.C {
		b := p.snapshotBank(ci)
		t.bank = append(t.bank, b)
		t.pred = append(t.pred, amap{})
		t.vouchers = append(t.vouchers, map[string]string{})
		t.paths = append(t.paths, map[string]bool{})
		t.tracked = append(t.tracked, map[string]sdkmath.Int{})
		t.donated = append(t.donated, amap{})
		gs := map[string]sdkmath.Int{}
		for _, d := range t.natives {
			gs[d] = b.get(supplyKey, d)
		}
		t.genSupply = append(t.genSupply, gs)
	}
	t.blockKinds = map[string]bool{}
}

func escrowAddr(port, ch string) string { return transfertypes.GetEscrowAddress(port, ch).String() }

// ---- generator ---------------------------------------------------------------------------------

func (p *Core) xferRoutes() []int {
	var out []int
	for i, r := range p.Routes {
		if r.Xfer {
			out = append(out, i)
		}
	}
	return out
}

// heldDenoms lists the non-staking denominations account idx of chain c holds, sorted.
func (p *Core) heldDenoms(ci, idx int) []string {
	addr := p.C[ci].Accounts[idx].Addr.String()
	var ds []string
	for d, amt := range p.tok.bank[ci][addr] {
		if d != sdk.DefaultBondDenom && amt.IsPositive() {
			ds = append(ds, d)
		}
	}
	sort.Strings(ds)
	return ds
}

func (p *Core) genXfer() []sim.Op {
	w := p.w
	rs := p.xferRoutes()
	if len(rs) == 0 || len(p.Order) >= p.Opt.MaxPkts {
		return nil
	}
	if p.Opt.Forward > 0 && w.Intn(100) < 22 { // C43 hook: forward a multi-hop voucher back towards its origin
		if ops := p.genForwardUnwind(); ops != nil {
			return ops
		}
	}
	ri := rs[w.Intn(len(rs))]
	r := p.Routes[ri]
	d := w.Intn(2)
	src, dst := r.Chain[d], r.Chain[1-d]
	sidx := 2 + w.Intn(6)
	ds := p.heldDenoms(src.Idx, sidx)
	if len(ds) == 0 {
		return nil
	}
	// prefer vouchers sometimes (returns and onward hops), natives otherwise
	denom := ds[w.Intn(len(ds))]
	if w.Chance(0.5) {
		for _, x := range ds {
			if strings.HasPrefix(x, "ibc/") {
				denom = x
				break
			}
		}
	}
	if p.Opt.ManyChans && strings.HasPrefix(denom, "ibc/") && w.Chance(0.6) {
		// send the voucher onward over a SIBLING channel whose identifier is a textual prefix of
		// (or prefixed by) the channel it arrived over
		if path, ok := p.tok.vouchers[src.Idx][denom]; ok {
			parts := strings.SplitN(path, "/", 3)
			if len(parts) == 3 {
				for i, rt := range p.Routes {
					for e := 0; e < 2; e++ {
						if rt.Xfer && !rt.V2 && rt.Chain[e].Idx == src.Idx && rt.ID[e] != parts[1] &&
							(strings.HasPrefix(parts[1], rt.ID[e]) || strings.HasPrefix(rt.ID[e], parts[1])) {
							ri, r, d = i, rt, e
							dst = rt.Chain[1-e]
						}
					}
				}
			}
		}
	}
	bal := p.tok.bank[src.Idx].get(src.Accounts[sidx].Addr.String(), denom)
	amt := int64(1 + w.Intn(1000))
	if bal.IsInt64() && bal.Int64() < amt {
		amt = bal.Int64()
	}
	switch w.Pick(90, 5, 3, 2) {
	case 1: // everything
		if bal.IsInt64() {
			amt = bal.Int64()
		}
	case 2: // more than held
		if bal.IsInt64() {
			amt = bal.Int64() + 1
		}
	case 3:
		amt = 0
	}
	recv := strconv.Itoa(2 + w.Intn(6))
	switch w.Pick(86, 8, 6) {
	case 1:
		recv = "bad"
	case 2:
		recv = "blk"
	}
	op := sim.Op{K: "xfer", P: ri, X: int64(d), T: w.Tag(), C: sidx, N: amt}
	alias := false
	if !p.Opt.NoAlias && (r.Kind == "t1" && !strings.Contains(denom, "/") || r.Kind == "t1" && strings.HasPrefix(denom, "ibc/")) {
		alias = w.Chance(0.3)
	}
	if alias {
		op.X |= 8
	}
	dstTime := p.chainTime(dst.Idx)
	if dst.LastTime.After(dstTime) {
		dstTime = dst.LastTime
	}
	tight := w.Intn(100) < p.Opt.TightTmo
	var tmo string
	if r.V2 || alias {
		if tight {
			tmo = fmt.Sprintf("t%d", dstTime.Unix()+2+int64(w.Intn(25)))
		} else {
			tmo = fmt.Sprintf("t%d", dstTime.Unix()+3600)
		}
	} else if w.Chance(0.5) {
		if tight {
			tmo = fmt.Sprintf("h%d", dst.Height+1+int64(w.Intn(4)))
		} else {
			tmo = fmt.Sprintf("h%d", dst.Height+500)
		}
	} else {
		if tight {
			tmo = fmt.Sprintf("t%d", dstTime.UnixNano()+int64(time.Second)+w.Rng.Int63n(int64(30*time.Second)))
		} else {
			tmo = fmt.Sprintf("t%d", dstTime.UnixNano()+int64(2*time.Hour))
		}
	}
	memo := ""
	if p.Opt.Forward > 0 && w.Intn(100) < p.Opt.Forward {
		p.fwd().genDenom = denom // C43 hook: generator hint (lets the memo follow a voucher's path back)
		memo = p.genForwardMemo(ri, d)
	}
	op.S = strings.Join([]string{denom, recv, tmo, memo}, ";")
	if w.Chance(0.2) {
		op.X |= flagDefer
	}
	return []sim.Op{op}
}

func (p *Core) recvAddress(dst *sim.Chain, kind string) (string, bool) {
	switch kind {
	case "bad":
		return "not-a-bech32-address", false
	case "blk":
		return authtypes.NewModuleAddress("mint").String(), false
	}
	i, err := strconv.Atoi(kind)
	if err != nil || i < 0 || i >= len(dst.Accounts) {
		return "not-a-bech32-address", false
	}
	return dst.Accounts[i].Addr.String(), true
}

func (p *Core) execXfer(op sim.Op) {
	w := p.w
	r := p.route(op.P)
	parts := strings.Split(op.S, ";")
	granter := -1 // >= 0: the transfer is executed by grantee op.C on behalf of this account (authz)
	if len(parts) == 5 && strings.HasPrefix(parts[4], "g") {
		if g, err := strconv.Atoi(parts[4][1:]); err == nil {
			granter = g
		}
		parts = parts[:4]
	}
	if r == nil || !r.Xfer || len(parts) != 4 || op.T == 0 || p.Pkts[op.T] != nil || p.tok.pending[op.T] != nil {
		w.Noop()
		return
	}
	d := int(op.X & flagDir)
	src, dst := r.Chain[d], r.Chain[1-d]
	if op.C < 0 || op.C >= len(src.Accounts) {
		w.Noop()
		return
	}
	sender := src.Accounts[op.C]
	signer := sender
	if granter >= 0 {
		if granter >= len(src.Accounts) || granter == op.C {
			w.Noop()
			return
		}
		sender = src.Accounts[granter]
	}
	if signer.InPool() {
		p.block(src.Idx)
	}
	denom, recvKind, tmo, memo := parts[0], parts[1], parts[2], parts[3]
	receiver, valid := p.recvAddress(dst, recvKind)
	alias := op.X&8 != 0
	th := clienttypes.ZeroHeight()
	var ts uint64
	if n, err := strconv.ParseInt(tmo[1:], 10, 64); err == nil && len(tmo) > 1 {
		if tmo[0] == 'h' {
			th = dst.IBCHeight(n)
		} else {
			ts = uint64(n)
		}
	}
	coin := sdk.Coin{Denom: denom, Amount: sdkmath.NewInt(op.N)}
	msg := transfertypes.NewMsgTransfer(r.Port[d], r.ID[d], coin, sender.String(), receiver, th, ts, memo)
	if alias {
		msg.UseAliasing = true
	}
	// the model's view of the transfer
	path := denom
	if strings.HasPrefix(denom, "ibc/") {
		if pth, ok := p.tok.vouchers[src.Idx][denom]; ok {
			path = pth
		}
	}
	x := &XferInfo{SenderIdx: op.C, Sender: sender.String(), Receiver: receiver, RecvKind: recvKind, SrcDenom: denom, Path: path, Amount: coin.Amount,
		// a returning voucher is burned; a coin native to this chain is escrowed whatever its name
		Burn: strings.HasPrefix(denom, "ibc/") && strings.HasPrefix(path, r.Port[d]+"/"+r.ID[d]+"/"), Alias: alias, Memo: memo, ExpectOK: valid}
	p.tok.pending[op.T] = x
	x.Granter = granter
	x.Deferred = op.X&flagDefer != 0
	dstNow := p.chainTime(dst.Idx)
	if dst.LastTime.After(dstNow) {
		dstNow = dst.LastTime
	}
	switch {
	case !th.IsZero():
		x.FarTimeout = int64(th.RevisionHeight) >= dst.Height+100
	case ts != 0 && (r.V2 || alias):
		x.FarTimeout = int64(ts) >= dstNow.Unix()+1800
	case ts != 0:
		x.FarTimeout = int64(ts) >= dstNow.UnixNano()+int64(30*time.Minute)
	}
	if op.N < 0 { // the "entire balance" sentinel amount
		msg.Token.Amount = transfertypes.UnboundedSpendLimit()
		x.Sentinel = true
		x.Amount = p.tok.bank[src.Idx].get(sender.String(), denom)
	}
	if granter >= 0 {
		ex := authz.NewMsgExec(signer.Addr, []sdk.Msg{msg})
		src.Submit(&sim.TxSpec{Msgs: []sdk.Msg{&ex}, Signer: signer, Tag: op.T, Label: "xfer", Grantors: []string{sender.String()}})
	} else {
		src.Submit(&sim.TxSpec{Msgs: []sdk.Msg{msg}, Signer: sender, Tag: op.T, Label: "xfer"})
	}
	if op.X&flagDefer == 0 {
		p.tick(time.Second)
		p.block(src.Idx)
	}
}

// applyXfer handles a committed MsgTransfer.
func (p *Core) applyXfer(ci int, r *sim.TxResult) {
	w := p.w
	x := p.tok.pending[r.Spec.Tag]
	if x == nil {
		return
	}
	delete(p.tok.pending, r.Spec.Tag)
	msg, isT := r.Spec.Msgs[0].(*transfertypes.MsgTransfer)
	if ex, ok := r.Spec.Msgs[0].(*authz.MsgExec); ok {
		inner, err := ex.GetMessages()
		if err != nil || len(inner) != 1 {
			return
		}
		msg, isT = inner[0].(*transfertypes.MsgTransfer)
		defer p.authzAfterExec(ci, r, x, msg)
	}
	if !isT {
		return
	}
	var ri int = -1
	var d int
	for i, rt := range p.Routes {
		for e := 0; e < 2; e++ {
			if rt.Xfer && rt.Chain[e].Idx == ci && rt.ID[e] == msg.SourceChannel {
				ri, d = i, e
			}
		}
	}
	if ri < 0 {
		return
	}
	rt := p.Routes[ri]
	if !r.OK() {
		w.Stats.Probe("transfer_refused")
		w.Stats.NonTrivial("xfer-refused:" + rt.Kind + ":" + classifyDenom(x.SrcDenom))
		p.judgeRefusedTransfer(ci, r, rt, d, x)
		if r.Space == ratelimittypes.ModuleName && r.Code == ratelimittypes.ErrQuotaExceeded.ABCICode() {
			w.Stats.Probe("send_refused_for_quota")
			w.Stats.NonTrivial("rl-send-refused:" + rt.Kind)
			if m := p.tok.rl[rlKey{ci, x.SrcDenom, rt.ID[d]}]; m == nil || !exceeds(m.out.Sub(m.in).Add(x.Amount), m.value, m.send) {
				w.Violate("C41", "send-refused-within-quota", "", fmt.Sprintf("transfer of %s %s on %s/%s refused for quota although the model's window is within quota", x.Amount, x.SrcDenom, rt.Chain[d].ID, rt.ID[d]))
				w.Violate("C42", "send-refused-within-quota", "", fmt.Sprintf("transfer of %s %s on %s/%s charged against a rate limit the model does not have on that (denomination, channel)", x.Amount, x.SrcDenom, rt.Chain[d].ID, rt.ID[d]))
			}
		}
		return
	}
	src, dst := rt.Chain[d], rt.Chain[1-d]
	ps := &PktState{Route: ri, Dir: d, X: x}
	v2 := rt.V2 || x.Alias
	ps.Pkt = &sim.Pkt{Tag: r.Spec.Tag, V2: v2, Src: src, Dst: dst, SrcCli: rt.Client[d], DstCli: rt.Client[1-d]}
	if v2 {
		pk, err := ibctesting.ParseV2PacketFromEvents(r.Events)
		sim.Must(err, "parse v2 packet from transfer events")
		ps.P2 = pk
	} else {
		pk, err := ibctesting.ParseV1PacketFromEvents(r.Events)
		sim.Must(err, "parse v1 packet from transfer events")
		ps.P1 = pk
	}
	ps.SentAt, ps.SentTm = r.Height, src.LastTime
	p.Pkts[ps.Tag] = ps
	p.Order = append(p.Order, ps.Tag)
	p.onSent(ps, r)

	// what the packet really carries vs the model's view of the denomination
	if got := p.packetDenom(ps); got != x.Path {
		w.Violate("C30", "packet-denomination-differs", "", fmt.Sprintf("%s: packet data carries denomination %q, the model expects %q for bank coin %s", ps.Pkt, got, x.Path, x.SrcDenom))
	}
	// predicted bank effect of the send
	pr := p.tok.pred[ci]
	pr.add(x.Sender, x.SrcDenom, x.Amount.Neg())
	if x.Burn {
		pr.add(supplyKey, x.SrcDenom, x.Amount.Neg())
	} else {
		pr.add(escrowAddr(rt.Port[d], rt.ID[d]), x.SrcDenom, x.Amount)
		p.trackEscrow(ci, x.SrcDenom, x.Amount)
	}
	p.rlSend(ci, rt.ID[d], x.SrcDenom, x.Amount, ps.Seq(), ps)
	p.tok.blockKinds["send"] = true
	p.fwdOriginSent(ps) // C43 hook: a transfer whose memo asks for a packet forward
	w.Stats.Probe("transfer_sent_" + rt.Kind)
	w.Stats.NonTrivial(fmt.Sprintf("xfer:%s:alias=%v:burn=%v:%s", rt.Kind, x.Alias, x.Burn, classifyDenom(x.SrcDenom)))
}

func classifyDenom(d string) string {
	switch {
	case strings.HasPrefix(d, "ibc/"):
		return "voucher"
	case hopShaped(d):
		return "hop-shaped-native"
	case strings.Contains(d, "/"):
		return "slashed-native"
	default:
		return "native"
	}
}

// hopShaped: the name reads "<segment>/channel-<digits>/<rest>" like one ICS-20 hop.
func hopShaped(d string) bool {
	parts := strings.SplitN(d, "/", 3)
	if len(parts) < 3 || parts[0] == "" || !strings.HasPrefix(parts[1], "channel-") {
		return false
	}
	n := strings.TrimPrefix(parts[1], "channel-")
	if n == "" {
		return false
	}
	for _, c := range n {
		if c < '0' || c > '9' {
			return false
		}
	}
	return true
}

func (p *Core) trackEscrow(ci int, denom string, delta sdkmath.Int) {
	cur, ok := p.tok.tracked[ci][denom]
	if !ok {
		cur = sdkmath.ZeroInt()
	}
	p.tok.tracked[ci][denom] = cur.Add(delta)
}

// packetDenom extracts the denomination string from the packet data as sent.
func (p *Core) packetDenom(ps *PktState) string {
	var data []byte
	enc := transfertypes.EncodingJSON
	if ps.V2 {
		if len(ps.P2.Payloads) != 1 {
			return "?"
		}
		data, enc = ps.P2.Payloads[0].Value, ps.P2.Payloads[0].Encoding
	} else {
		data = ps.P1.Data
	}
	d, err := transfertypes.UnmarshalPacketData(data, transfertypes.V1, enc)
	if err != nil {
		return "?"
	}
	return d.Token.Denom.Path()
}

// tokApplyRelay predicts the bank effect of a committed packet message of a transfer packet.
func (p *Core) tokApplyRelay(ci int, r *sim.TxResult, ps *PktState, lbl string) {
	w := p.w
	x := ps.X
	rt := p.Routes[ps.Route]
	pr := p.tok.pred[ci]
	d := ps.Dir
	srcPort, srcID := rt.Port[d], rt.ID[d]
	dstPort, dstID := rt.Port[1-d], rt.ID[1-d]
	p.fwdNoteTx(r) // C43 hook: the forwarding model reads the events of the packet transaction
	switch lbl {
	case "recv":
		if x.RecvOK {
			w.Violate("C30", "second-receive-processed", "", fmt.Sprintf("%s: the transfer was credited on the destination before and a further receive was processed", ps.Pkt))
			return
		}
		ok := ackIsSuccess(ps)
		if x.Fwd != nil {
			p.tokApplyForwardRecv(ci, r, ps, ok)
			return
		}
		unwinding := x.Burn // the source burned a voucher that came over this very channel
		// the denomination the destination credits, per the model
		var dstDenom, full string
		if unwinding {
			rest := strings.TrimPrefix(x.Path, srcPort+"/"+srcID+"/")
			dstDenom = rest
			if p.tok.paths[ci][rest] {
				dstDenom = voucherOf(rest)
			}
		} else {
			full = dstPort + "/" + dstID + "/" + x.Path
			dstDenom = voucherOf(full)
		}
		allowed, rlm := p.rlRecvAllowed(ci, dstID, dstDenom, x.Amount)
		expect := x.ExpectOK && allowed
		if ok != expect {
			p.lastRefundSig = "recv-refused:" + classifyDenom(x.SrcDenom)
			if unwinding && expect {
				w.Violate("C33", "voucher-return-refused", sigDenom(x), fmt.Sprintf("%s: voucher of %q sent back over its channel was answered with an error acknowledgement although receiver %s is valid", ps.Pkt, x.Path, x.Receiver))
			}
			if ok && !x.ExpectOK {
				w.Violate("C30", "credited-invalid-receiver", "", fmt.Sprintf("%s: destination credited receiver %q which the model considers invalid/blocked", ps.Pkt, x.Receiver))
			}
			if ok && !allowed {
				w.Violate("C41", "receive-accepted-over-quota", "", fmt.Sprintf("%s: receive of %s %s on %s accepted although net inflow %s + %s exceeds %s%% of the channel value %s", ps.Pkt, x.Amount, dstDenom, dstID, rlm.in.Sub(rlm.out), x.Amount, rlm.recv, rlm.value))
			}
			if !ok && expect && rlm != nil {
				w.Violate("C41", "receive-refused-within-quota", "", fmt.Sprintf("%s: receive of %s %s on %s answered with an error acknowledgement although receiver is valid and the window is within quota", ps.Pkt, x.Amount, dstDenom, dstID))
			}
			w.Stats.Probe("recv_outcome_differs_from_model")
		}
		if !ok {
			w.Stats.Probe("transfer_recv_error_ack")
			if !allowed {
				w.Stats.Probe("receive_refused_for_quota")
				w.Stats.NonTrivial("rl-recv-refused:" + rt.Kind)
			}
			return
		}
		x.RecvOK = true
		if rlm != nil {
			rlm.in = rlm.in.Add(x.Amount)
			rlm.pendR[ps.Seq()] = true
			w.Stats.Probe("rate_limited_receive_charged")
		}
		if unwinding {
			pr.add(escrowAddr(dstPort, dstID), dstDenom, x.Amount.Neg())
			pr.add(x.Receiver, dstDenom, x.Amount)
			p.trackEscrow(ci, dstDenom, x.Amount.Neg())
			p.tok.blockKinds["unwind"] = true
			w.Stats.Probe("transfer_unwound")
			if p.C[ci].MinVersion > 1 {
				w.Stats.Probe("voucher_returned_to_chain_restarted_from_genesis")
			}
			w.Stats.NonTrivial("return:" + rt.Kind + ":" + classifyDenom(dstDenom))
		} else {
			v := dstDenom
			p.tok.vouchers[ci][v] = full
			p.tok.paths[ci][full] = true
			pr.add(supplyKey, v, x.Amount)
			pr.add(x.Receiver, v, x.Amount)
			p.tok.blockKinds["mint"] = true
			w.Stats.Probe("transfer_minted")
			w.Stats.NonTrivial(fmt.Sprintf("mint:%s:hops=%d", rt.Kind, strings.Count(full, "transfer/")))
		}
	case "ack":
		if ackIsSuccess(ps) {
			p.rlAckSuccess(ci, srcID, x.SrcDenom, ps.Seq())
			x.Settled = true
			p.tokForwardSettled(ci, r, ps) // C43 hook: a forwarded leg was acknowledged with success
			return
		}
		p.tokRefund(ci, ps, "error-ack")
	case "tmo", "toc":
		p.tokRefund(ci, ps, lbl)
	}
}

func sigDenom(x *XferInfo) string { return "denom-shape:" + classifyDenom(x.SrcDenom) }

func (p *Core) tokRefund(ci int, ps *PktState, why string) {
	x := ps.X
	rt := p.Routes[ps.Route]
	d := ps.Dir
	if x.Fwd != nil && x.Fwd.Prev != nil {
		p.tokRefundForwarded(ci, ps, why)
		return
	}
	if x.Refunded || x.Settled {
		// the transfer already reached its terminal outcome: a second terminal message that core
		// lets through must not move anything (the model predicts no change; a real change is
		// reported by the bank-diff oracle of this block)
		p.w.Violate("C32", "second-terminal-outcome-processed", "", fmt.Sprintf("%s: a second %s was processed for a transfer that had already been %s", ps.Pkt, why, map[bool]string{true: "refunded", false: "acknowledged"}[x.Refunded]))
		p.tok.blockKinds["refund"] = true
		return
	}
	pr := p.tok.pred[ci]
	pr.add(x.Sender, x.SrcDenom, x.Amount)
	if x.Burn {
		pr.add(supplyKey, x.SrcDenom, x.Amount)
	} else {
		pr.add(escrowAddr(rt.Port[d], rt.ID[d]), x.SrcDenom, x.Amount.Neg())
		p.trackEscrow(ci, x.SrcDenom, x.Amount.Neg())
	}
	x.Refunded = true
	p.rlUndoSend(ci, rt.ID[d], x.SrcDenom, x.Amount, ps.Seq())
	p.lastRefundSig = "refund:" + classifyDenom(x.SrcDenom)
	p.tok.blockKinds["refund"] = true
	p.w.Stats.Probe("transfer_refunded_" + why)
	p.w.Stats.NonTrivial(fmt.Sprintf("refund:%s:%s:burn=%v:%s", rt.Kind, why, x.Burn, classifyDenom(x.SrcDenom)))
}

func ackIsSuccess(ps *PktState) bool {
	if !ps.HasAck {
		return false
	}
	if ps.V2 {
		if len(ps.Ack2.AppAcknowledgements) == 1 && string(ps.Ack2.AppAcknowledgements[0]) == string(channeltypesv2.ErrorAcknowledgement[:]) {
			return false
		}
		return len(ps.Ack2.AppAcknowledgements) > 0
	}
	var ack channeltypes.Acknowledgement
	if err := transfertypes.ModuleCdc.UnmarshalJSON(ps.Ack1, &ack); err != nil {
		return false
	}
	return ack.Success()
}

// ---- per-block token oracles ---------------------------------------------------------------

func (p *Core) tokAfterBlock(ci int, res []*sim.TxResult) {
	w := p.w
	t := &p.tok
	c := p.C[ci]
	now := p.snapshotBank(ci)
	prev := t.bank[ci]
	pred := t.pred[ci]
	// every (address, denom) whose real balance or predicted change is non-zero
	type ad struct{ a, d string }
	seen := map[ad]bool{}
	var keys []ad
	note := func(a, d string) {
		if d == sdk.DefaultBondDenom {
			return
		}
		k := ad{a, d}
		if !seen[k] {
			seen[k] = true
			keys = append(keys, k)
		}
	}
	for a, m := range now {
		for d := range m {
			note(a, d)
		}
	}
	for a, m := range prev {
		for d := range m {
			note(a, d)
		}
	}
	for a, m := range pred {
		for d := range m {
			note(a, d)
		}
	}
	sort.Slice(keys, func(i, j int) bool {
		if keys[i].a != keys[j].a {
			return keys[i].a < keys[j].a
		}
		return keys[i].d < keys[j].d
	})
	for _, k := range keys {
		real := now.get(k.a, k.d).Sub(prev.get(k.a, k.d))
		want := pred.get(k.a, k.d)
		if real.Equal(want) {
			continue
		}
		who := p.nameOf(ci, k.a)
		detail := fmt.Sprintf("block %d of %s: balance of %s in %s changed by %s, the ICS-20 model of the committed transactions explains %s", c.Height, c.ID, who, k.d, real, want)
		props := []string{"C30"}
		if t.blockKinds["refund"] {
			props = append(props, "C32")
		}
		if t.blockKinds["unwind"] {
			props = append(props, "C33")
		}
		if t.blockKinds["forward"] {
			props = append(props, "C43")
		}
		props = append(props, "C49", "C31")
		sig := ""
		if t.blockKinds["refund"] && p.lastRefundSig != "" {
			sig = p.lastRefundSig
		}
		for _, pr := range props {
			w.Violate(pr, "bank-change-differs-from-model", sig, detail)
		}
		break
	}
	// C49: only signers lose tokens
	if w.Armed("C49") {
		signers := map[string]bool{}
		for _, r := range res {
			signers[r.Spec.Signer.String()] = true
			for _, g := range r.Spec.Grantors {
				signers[g] = true
			}
		}
		for _, k := range keys {
			if k.a == supplyKey || p.isModuleOrEscrow(ci, k.a) {
				continue
			}
			if now.get(k.a, k.d).LT(prev.get(k.a, k.d)) && !signers[k.a] {
				w.Violate("C49", "account-debited-without-its-signature", "", fmt.Sprintf("block %d of %s: %s lost %s of %s but did not sign (or authorise) any transaction of the block", c.Height, c.ID, p.nameOf(ci, k.a), prev.get(k.a, k.d).Sub(now.get(k.a, k.d)), k.d))
			}
		}
	}
	t.bank[ci] = now
	t.pred[ci] = amap{}
	t.blockKinds = map[string]bool{}
	p.rlAfterBlock(ci, res)
	if len(t.grants) > 0 {
		p.authzCompare(ci)
	}

	p.checkTrackedEscrow(ci, now)
	// C30: native supply never changes
	if w.Armed("C30") {
		for _, d := range t.natives {
			if !now.get(supplyKey, d).Equal(t.genSupply[ci][d]) {
				w.Violate("C30", "native-supply-changed", "", fmt.Sprintf("%s: supply of native %s is %s, was %s at genesis", c.ID, d, now.get(supplyKey, d), t.genSupply[ci][d]))
			}
		}
		p.checkChannelEquations()
	}
	p.fwdAfterBlock(ci, now) // C43 hook: per-block oracles of the forwarding worlds
}

// checkTrackedEscrow (C31): the queried total escrow of every denomination equals the model
// ledger of IBC escrows minus releases, is not negative and does not exceed what the transfer
// escrow accounts hold. Runs after every block and right after a genesis export/import restart.
func (p *Core) checkTrackedEscrow(ci int, now amap) {
	w := p.w
	c := p.C[ci]
	t := &p.tok
	if w.AnyArmed("C31", "C30") {
		var ds []string
		for d := range t.tracked[ci] {
			ds = append(ds, d)
		}
		sort.Strings(ds)
		for _, d := range ds {
			got := c.App.TransferKeeper.GetTotalEscrowForDenom(c.QueryCtx(), d).Amount
			want := t.tracked[ci][d]
			if !got.Equal(want) {
				w.Violate("C31", "tracked-escrow-differs", "", fmt.Sprintf("%s: tracked total escrow of %s is %s, the ledger of IBC escrows minus releases is %s", c.ID, d, got, want))
			}
			if got.IsNegative() {
				w.Violate("C31", "tracked-escrow-negative", "", fmt.Sprintf("%s: tracked escrow of %s is %s", c.ID, d, got))
			}
			sum := sdkmath.ZeroInt()
			for _, rt := range p.Routes {
				for e := 0; e < 2; e++ {
					if rt.Xfer && rt.Chain[e].Idx == ci {
						sum = sum.Add(now.get(escrowAddr(rt.Port[e], rt.ID[e]), d))
					}
				}
			}
			if got.GT(sum) {
				w.Violate("C31", "tracked-escrow-exceeds-balances", "", fmt.Sprintf("%s: tracked escrow of %s is %s but all transfer escrow accounts hold %s", c.ID, d, got, sum))
			}
		}
	}
}

func (p *Core) nameOf(ci int, addr string) string {
	if addr == supplyKey {
		return "total supply"
	}
	for _, a := range p.C[ci].Accounts {
		if a.Addr.String() == addr {
			return a.Name
		}
	}
	for _, rt := range p.Routes {
		for e := 0; e < 2; e++ {
			if rt.Xfer && rt.Chain[e].Idx == ci && escrowAddr(rt.Port[e], rt.ID[e]) == addr {
				return "escrow(" + rt.Port[e] + "/" + rt.ID[e] + ")"
			}
		}
	}
	return addr
}

func (p *Core) isModuleOrEscrow(ci int, addr string) bool {
	for _, a := range p.C[ci].Accounts {
		if a.Addr.String() == addr {
			return false
		}
	}
	return true
}

// checkChannelEquations: for every transfer channel end X and every denomination e in its
// escrow: escrow_X[e] - donations = supply_peer(voucher of e over this channel) + in flight.
func (p *Core) checkChannelEquations() {
	w := p.w
	t := &p.tok
	for ri, rt := range p.Routes {
		if !rt.Xfer {
			continue
		}
		for e := 0; e < 2; e++ {
			x, y := rt.Chain[e].Idx, rt.Chain[1-e].Idx
			esc := escrowAddr(rt.Port[e], rt.ID[e])
			var ds []string
			for d := range t.bank[x][esc] {
				ds = append(ds, d)
			}
			sort.Strings(ds)
			for _, d := range ds {
				path := d
				if strings.HasPrefix(d, "ibc/") {
					pth, ok := t.vouchers[x][d]
					if !ok {
						continue
					}
					path = pth
				}
				v := voucherOf(rt.Port[1-e] + "/" + rt.ID[1-e] + "/" + path)
				held := t.bank[x].get(esc, d).Sub(t.donated[x].get(esc, d))
				supply := t.bank[y].get(supplyKey, v)
				inflight := sdkmath.ZeroInt()
				for _, tag := range p.Order {
					ps := p.Pkts[tag]
					if ps == nil || ps.X == nil || ps.Route != ri || ps.X.RecvOK || ps.X.Refunded {
						continue
					}
					if ps.Dir == e && !ps.X.Burn && ps.X.SrcDenom == d {
						inflight = inflight.Add(ps.X.Amount) // going out, escrowed here, not yet minted
					}
					if ps.Dir == 1-e && ps.X.Burn && ps.X.SrcDenom == v {
						inflight = inflight.Add(ps.X.Amount) // coming back, burned there, not yet released here
					}
				}
				if !held.Equal(supply.Add(inflight)) {
					w.Violate("C30", "channel-equation-broken", "", fmt.Sprintf("channel %s/%s of %s, denomination %s: escrow holds %s (net of donations) but %s circulate as %s on %s and %s are in flight", rt.Port[e], rt.ID[e], rt.Chain[e].ID, d, held, supply, v, rt.Chain[1-e].ID, inflight))
					return
				}
			}
		}
	}
	w.Stats.Probe("channel_equations_checked")
}

// ---- donations and attacks ----------------------------------------------------------------

func (p *Core) genDonate() []sim.Op {
	w := p.w
	rs := p.xferRoutes()
	if len(rs) == 0 {
		return nil
	}
	ri := rs[w.Intn(len(rs))]
	e := w.Intn(2)
	ci := p.Routes[ri].Chain[e].Idx
	idx := 2 + w.Intn(6)
	ds := p.heldDenoms(ci, idx)
	if len(ds) == 0 {
		return nil
	}
	return []sim.Op{{K: "donate", P: ri, X: int64(e), C: idx, N: int64(1 + w.Intn(50)), S: ds[w.Intn(len(ds))]}}
}

func (p *Core) execDonate(op sim.Op) {
	r := p.route(op.P)
	if r == nil || !r.Xfer {
		p.w.Noop()
		return
	}
	e := int(op.X & 1)
	c := r.Chain[e]
	if op.C < 0 || op.C >= len(c.Accounts) {
		p.w.Noop()
		return
	}
	from := c.Accounts[op.C]
	if from.InPool() {
		p.block(c.Idx)
	}
	esc := transfertypes.GetEscrowAddress(r.Port[e], r.ID[e])
	coin := sdk.NewCoin(op.S, sdkmath.NewInt(op.N))
	msg := banktypes.NewMsgSend(from.Addr, esc, sdk.NewCoins(coin))
	c.Submit(&sim.TxSpec{Msgs: []sdk.Msg{msg}, Signer: from, Label: "donate", Tag: 0})
	p.tick(time.Second)
	p.block(c.Idx)
}

func (p *Core) applyDonate(ci int, r *sim.TxResult) {
	if !r.OK() {
		return
	}
	m := r.Spec.Msgs[0].(*banktypes.MsgSend)
	for _, coin := range m.Amount {
		p.tok.pred[ci].add(m.FromAddress, coin.Denom, coin.Amount.Neg())
		p.tok.pred[ci].add(m.ToAddress, coin.Denom, coin.Amount)
		p.tok.donated[ci].add(m.ToAddress, coin.Denom, coin.Amount)
	}
	p.w.Stats.Probe("donation_to_escrow_account")
	p.w.Stats.NonTrivial("donate:" + classifyDenom(m.Amount[0].Denom))
}

// tokFinish: end-state oracles after the drain.
func (p *Core) tokFinish() {
	w := p.w
	p.fwdFinish() // C43 hook: all-or-nothing after the drain
	for _, tag := range p.Order {
		ps := p.Pkts[tag]
		if ps == nil || ps.X == nil {
			continue
		}
		x := ps.X
		if ps.Done != "" || p.stuckLegit(ps) {
			continue
		}
		// faults have stopped and an honest relayer tried: the transfer must have terminated
		kind := "never-terminated"
		prop := "C32"
		if x.Burn {
			prop = "C33"
		}
		detail := fmt.Sprintf("%s: %s of %s (bank coin %s) never reached a terminal state although an honest relayer kept relaying after faults stopped (received=%v, acknowledged=%v); the sender is not refunded", ps.Pkt, x.Amount, x.Path, x.SrcDenom, ps.RecvHeight > 0, ps.HasAck)
		w.Violate(prop, kind, sigDenom(x)+":"+p.lastRefusal[ps.Tag], detail)
		w.Violate("C32", kind, sigDenom(x)+":"+p.lastRefusal[ps.Tag], detail)
	}
}

// stuckLegit: the packet cannot terminate for a reason the run itself chose (closed channel,
// expired client ...). Token worlds do not close channels or expire clients, so: never.
func (p *Core) stuckLegit(ps *PktState) bool { return false }

var _ = clienttypes.ZeroHeight
