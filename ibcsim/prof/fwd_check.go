package prof

import (
	"math/rand"

	"verif/ibcsim/sim"
)

// C43 — packet forwarding is all-or-nothing and conserves tokens. Model, hooks and oracles are
// in tokens_fwd.go; the worlds are the token worlds with three chains and forward memos.

func forwardOptions(o *CoreOptions, r *rand.Rand) {
	tokenOptions(o, r)
	o.Kinds = []string{"none"} // v1 transfer channels only: the forward middleware is a v1 middleware
	o.Chains = 3
	o.Mesh = r.Intn(2) == 0
	o.ManyChans = false
	o.NoAlias = r.Intn(3) != 0 // some worlds keep v2-over-alias background transfers (their forward memos are inert)
	o.Forward = 55 + r.Intn(35)
	o.MaxPkts = 64
	o.TightTmo = 15
	o.WXfer = 26
	o.WRelay = 48
	o.WBlock = 14
	o.WDup = 8
	o.WEarlyTmo = 5
	o.WDonate = 1
	o.WRestart = 1
	o.WGenesis = 0
}

func init() {
	coreCheck("C43",
		"3 real chains in a line or a mesh of v1 ICS-20 channels with the real rate-limit -> packet-forward -> transfer stack; users send native coins and vouchers with packet-forward memos of 1-3 hops (through \"next\", also straight back over the arrival channel: A->B->C, A->B->A, A->B->C->B, A->B->A->B ...), unwinding and non-unwinding hops, final receivers valid / invalid / blocked, tight or default timeouts on the forwarded legs with 0-2 retries, malformed and unroutable hops; the legs the middleware sends from inside receive and timeout transactions are recognised by their send_packet events and carried by the same relayers as every packet (honest, delaying, duplicating, replaying, racing timeouts). Oracles: (1) after every block on every chain the real change of every bank balance and supply equals the ICS-20 model's prediction (intermediate hop: credit to the intermediate account and onward escrow/burn, net zero for that account; re-send after timeout: nothing moves; forward failed for good: exact inverse of the hop), every channel equation escrow = peer voucher supply + in flight holds, tracked total escrow equals the ledger; (2) after the drain every forward either credited its final receiver or refunded its original sender, never both, never neither, and every leg terminated; (3) intermediate receive accounts hold nothing after every block; (4) a failed forward leaves escrow, tracked escrow and voucher supply of every intermediate chain where they were (bank diff against the inverse prediction); (5) the next leg carries exactly the denomination path and amount ICS-20 credited on the intermediate chain, over the channel and to the receiver the memo names; re-sends never exceed the retries the memo asks for. Non-trivial case = distinct (hop shape unescrow|mint + escrow|burn, hop number, denomination shape) hops, deliveries by leg count, failures by cause / hop / retry count / shape, refusals at a hop by reason, retries",
		[]string{"fwd:"}, 72, 720,
		func(o *CoreOptions, r *rand.Rand, tier string) { forwardOptions(o, r) },
		func(ck *sim.Check) {
			ck.Assumptions = append(ck.Assumptions,
				"the ICS-20 reference model is specification-level: source/sink decided by string prefix of the denomination in the packet, voucher = ibc/ + upper-hex SHA-256 of the full path, registry of voucher paths built from the model's own mints; the forward memo grammar is parsed by the model's own JSON reader",
				"whether a timed-out forwarded leg is re-sent or given up is observed from the events of the timeout transaction (bounded by the retries the memo asks for), not predicted; the intermediate receive account is taken from the sender field of the leg the middleware sent and must not be any user, relayer or escrow account",
				"token worlds do not close channels or expire clients, so after faults stop every leg must terminate when an honest relayer keeps relaying; bounds: 3 chains, <= 3 hops per memo, <= 2 retries per hop, <= 64 packets per world; rate limits are off in these worlds")
			ck.RequiredProbes = []string{
				"forward_origin_sent", "forward_hop_executed", "forward_second_hop_executed", "forward_hop_unwinding", "forward_hop_minting",
				"forward_hop_departs_by_burn", "forward_hop_departs_by_escrow",
				"forward_delivered_to_final_receiver", "forward_delivered_over_three_or_more_legs",
				"forward_last_hop_error_ack", "forward_failed_error_ack", "forward_failed_timeout_gave_up", "forward_retried_after_timeout", "forward_gave_up_after_retries",
				"forward_refused_at_intermediate_hop", "forward_failure_passed_to_previous_hop", "forward_success_passed_to_previous_hop",
				"forward_undone_by_moving_between_escrows", "forward_undone_by_burning_from_escrow", "forward_undone_by_minting_to_escrow",
				"forward_origin_refunded_after_forwarding_began", "forward_all_or_nothing_judged",
				"intermediate_accounts_checked_empty", "forward_channel_equations_checked",
			}
			ck.RequiredFaults = []string{"relay.dup", "relay.replay", "relay.early_timeout"}
		})
}
