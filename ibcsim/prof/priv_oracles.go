package prof

import (
	"encoding/json"
	"fmt"
	"math/rand"
	"os"
	"strings"

	clienttypes "github.com/cosmos/ibc-go/v11/modules/core/02-client/types"

	"verif/ibcsim/sim"
)

// ---- the reference model of C46: a table (message kind, signer, configuration) -> allowed? -----
//
// Written from the property statement:
//
//	recover, upgrade, params-*, ratelimit-*      only the configured authority
//	register                                     only the client's creator, only while no counterparty is registered
//	config, delcreator                           the authority or the client's creator
//	update, recv, ack, timeout (v2)              client type on the allowed-clients list AND (allow list empty OR signer listed)
//	create, send, use-*                          client type on the allowed-clients list
//
// "The authority signs" means: the message names the authority and is executed by the gov module
// after a passed proposal. A transaction whose message names somebody who did not sign it is
// never allowed. The model state (creator, counterparty, allow list, allowed client types) is
// updated only from operations that succeeded.

type pvCase struct {
	kind  string
	ci    int
	cl    *pvClient
	s     pvSigner
	state string // configuration descriptor (coverage grid)
	sure  bool   // the arguments are known to be valid: a permitted combination must succeed
}

// typeAllowed: is the client type on the list (the wildcard entry alone allows every type).
func pvTypeAllowed(list []string, typ string) bool {
	if len(list) == 1 && list[0] == clienttypes.AllowAllClients {
		return true
	}
	return pvContains(list, typ)
}

func (p *Priv) typeOK(ci int) bool { return pvTypeAllowed(p.allowed[ci], pvTM) }

func pvTypeState(list []string) string {
	switch {
	case len(list) == 1 && list[0] == clienttypes.AllowAllClients:
		return "wildcard"
	case pvContains(list, pvTM) && len(list) == 1:
		return "listed-alone"
	case pvContains(list, pvTM):
		return "listed-among-others"
	case len(list) == 0:
		return "barred-empty-list"
	}
	return "barred-other-types"
}

func (p *Priv) typeState(ci int) string { return pvTypeState(p.allowed[ci]) }

func (p *Priv) gateState(ci int, cl *pvClient) string {
	st := "allow-list=empty"
	if len(cl.Allow) > 0 {
		st = "allow-list=nonempty"
	}
	if !p.typeOK(ci) {
		st += ",type=" + p.typeState(ci)
	}
	return st
}

// table is the model's verdict with its reason.
func (p *Priv) table(cs pvCase) (bool, string) {
	s := cs.s
	if s.via == "spoof" {
		return false, "the transaction is not signed by the address its message names"
	}
	if s.via == "unvoted" {
		return false, "the proposal that names the authority did not pass: the authority has not signed"
	}
	isAuth := s.via == "gov"
	cl := cs.cl
	isCreator := cl != nil && cl.Creator != "" && cl.Creator == s.addr
	switch {
	case cs.kind == "recover" || cs.kind == "upgrade" || strings.HasPrefix(cs.kind, "params-") || strings.HasPrefix(cs.kind, "ratelimit-"):
		if !isAuth {
			return false, "only the authority may do this"
		}
		return true, ""
	case cs.kind == "register":
		if !isCreator {
			return false, "only the client's (undeleted) creator may register the counterparty"
		}
		if cl.CP != "" {
			return false, "a counterparty is already registered"
		}
		return true, ""
	case cs.kind == "config" || cs.kind == "delcreator":
		if !isAuth && !isCreator {
			return false, "only the authority or the client's (undeleted) creator may do this"
		}
		return true, ""
	case cs.kind == "update" || cs.kind == "recv" || cs.kind == "ack" || cs.kind == "timeout":
		if !p.typeOK(cs.ci) {
			return false, "the client's type is not on the allowed-clients list"
		}
		if len(cl.Allow) > 0 && !pvContains(cl.Allow, s.addr) {
			return false, "the client has a non-empty relayer allow list and the signer is not on it"
		}
		return true, ""
	case cs.kind == "create" || cs.kind == "send" || strings.HasPrefix(cs.kind, "use-"):
		if !p.typeOK(cs.ci) {
			return false, "the client's type is not on the allowed-clients list"
		}
		return true, ""
	}
	sim.Failf("priv: no rule for kind %q", cs.kind)
	return false, ""
}

// class names the signer's relation to the client (coverage grid).
func (p *Priv) class(cs pvCase) string {
	s, cl := cs.s, cs.cl
	switch s.via {
	case "gov":
		if cl != nil && pvContains(cl.Allow, s.addr) {
			return "authority+listed"
		}
		return "authority"
	case "spoof":
		if s.addr == sim.Authority() {
			return "names-authority-signed-by-other"
		}
		return "names-creator-signed-by-other"
	case "module":
		return "application"
	case "unvoted":
		return "authority-proposal-without-votes"
	}
	var parts []string
	if cl != nil && cl.Creator != "" && cl.Creator == s.addr {
		parts = append(parts, "creator")
	}
	if cl != nil && cl.ExCreator != "" && cl.ExCreator == s.addr && cl.Creator == "" {
		parts = append(parts, "deleted-creator")
	}
	if cl != nil && pvContains(cl.Allow, s.addr) {
		parts = append(parts, "listed")
	}
	if len(parts) > 0 {
		return strings.Join(parts, "+")
	}
	for _, o := range p.Cl[cs.ci] {
		if o != cl && o.Creator == s.addr {
			return "creator-of-another-client"
		}
	}
	i := p.acct[cs.ci][s.addr]
	switch {
	case i == sim.AccGov:
		return "voter"
	case i >= 8:
		return "unlisted-relayer"
	}
	return "stranger"
}

// judge compares one executed operation with the table.
func (p *Priv) judge(cs pvCase, ok bool, log string, diff []sim.Change) {
	w := p.w
	allowed, why := p.table(cs)
	class := p.class(cs)
	outcome := "refused"
	if ok {
		outcome = "ok"
	}
	w.Stats.NonTrivial(fmt.Sprintf("pv:%s:%s:%s:%s", cs.kind, class, cs.state, outcome))
	w.Stats.Probe(outcome + ":" + cs.kind + ":" + class)
	w.MixSig(cs.kind + class + outcome)
	what := fmt.Sprintf("%s on %s", cs.kind, p.C[cs.ci].ID)
	if cs.cl != nil {
		what += " client " + cs.cl.ID
	}
	who := fmt.Sprintf("signer class %s (%s, via %s)", class, cs.s.addr, cs.s.via)
	w.Tracef("judge %s: %s, %s, state [%s]: outcome %s, model allows=%v %s | %s", what, who, cs.kind, cs.state, outcome, allowed, why, log)
	if sim.Trace {
		fmt.Fprintf(os.Stderr, "  judge %s class=%s state=[%s] outcome=%s allowed=%v %s\n", cs.kind, class, cs.state, outcome, allowed, log)
	}
	if ok && !allowed {
		w.Violate("C46", "unauthorised-"+cs.kind+"-succeeded", "", fmt.Sprintf("%s succeeded for %s in state [%s] although %s", what, who, cs.state, why))
		return
	}
	if !ok {
		if len(diff) > 0 {
			w.Violate("C46", "refused-"+cs.kind+"-changed-state", "", fmt.Sprintf("%s was refused for %s (%s) but changed state: %s", what, who, log, sim.ChangesString(diff)))
			return
		}
		if cs.s.via != "module" {
			w.Stats.Probe("refused_message_left_stores_unchanged")
		}
		if !allowed {
			if cs.s.via == "unvoted" {
				w.Stats.Probe("refused:proposal-naming-authority-that-did-not-pass")
			}
			if cs.s.via == "spoof" {
				w.Stats.Probe("refused:" + class)
			}
			if strings.Contains(why, "allowed-clients") {
				w.Stats.Probe("refused:" + cs.kind + ":type-not-allowed")
			}
			if strings.Contains(why, "allow list") {
				w.Stats.Probe("refused:" + cs.kind + ":signer-not-on-allow-list")
			}
			if cs.kind == "register" {
				w.Stats.Probe("refused:register:" + class + ":" + cs.state)
			}
			return
		}
		if cs.sure {
			w.Violate("C46", "authorised-"+cs.kind+"-refused", "", fmt.Sprintf("%s was refused for %s in state [%s] with valid arguments: %s", what, who, cs.state, log))
			return
		}
		w.Stats.Probe("permitted_signer_refused_for_other_reasons:" + cs.kind)
		return
	}
	if cs.cl != nil && len(cs.cl.Allow) > 0 && (cs.kind == "update" || cs.kind == "recv" || cs.kind == "ack" || cs.kind == "timeout") {
		w.Stats.Probe("ok:" + cs.kind + ":listed-relayer-on-client-with-allow-list")
	}
	if cs.kind == "create" && cs.state != "type=wildcard" {
		w.Stats.Probe("ok:create:type-listed-explicitly")
	}
}

// syncCheck: after an accepted operation the chain must hold what the model now assumes;
// otherwise later verdicts would be wrong (harness trouble, not a finding of this property).
func (p *Priv) syncCheck(ci int, cl *pvClient) {
	c := p.C[ci]
	ctx := c.QueryCtx()
	k := c.App.IBCKeeper
	creator := ""
	if a := k.ClientKeeper.GetClientCreator(ctx, cl.ID); a != nil {
		creator = a.String()
	}
	if creator != cl.Creator {
		sim.Failf("priv: model out of step: creator of %s/%s is %q, model %q", c.ID, cl.ID, creator, cl.Creator)
	}
	cp := ""
	if info, ok := k.ClientV2Keeper.GetClientCounterparty(ctx, cl.ID); ok {
		cp = info.ClientId
	}
	if cp != cl.CP {
		sim.Failf("priv: model out of step: counterparty of %s/%s is %q, model %q", c.ID, cl.ID, cp, cl.CP)
	}
	got := k.ClientV2Keeper.GetConfig(ctx, cl.ID).AllowedRelayers
	if strings.Join(got, ",") != strings.Join(cl.Allow, ",") {
		sim.Failf("priv: model out of step: allow list of %s/%s is %v, model %v", c.ID, cl.ID, got, cl.Allow)
	}
}

func (p *Priv) syncParams(ci int) {
	c := p.C[ci]
	got := c.App.IBCKeeper.ClientKeeper.GetParams(c.QueryCtx()).AllowedClients
	if strings.Join(got, ",") != strings.Join(p.allowed[ci], ",") {
		sim.Failf("priv: model out of step: allowed clients of %s are %v, model %v", c.ID, got, p.allowed[ci])
	}
}

// ---- registration ------------------------------------------------------------------------------

var pvRequiredProbes = []string{
	// authority-only operations: accepted for the authority, refused for others with the very same (valid) arguments
	"ok:recover:authority", "refused_for_non_authority_then_accepted_for_authority:recover",
	"ok:upgrade:authority", "refused_for_non_authority_then_accepted_for_authority:upgrade",
	"ok:params-client:authority", "ok:params-conn:authority", "ok:params-transfer:authority", "ok:params-icahost:authority", "ok:params-icactl:authority",
	"refused_for_non_authority_then_accepted_for_authority:params-client", "refused_for_non_authority_then_accepted_for_authority:params-conn",
	"ok:ratelimit-add:authority", "ok:ratelimit-update:authority", "ok:ratelimit-remove:authority", "ok:ratelimit-reset:authority",
	"refused_for_non_authority_then_accepted_for_authority:ratelimit-add", "refused_for_non_authority_then_accepted_for_authority:ratelimit-update",
	"refused:recover:stranger", "refused:upgrade:voter", "refused:names-authority-signed-by-other", "refused:names-creator-signed-by-other",
	// counterparty registration
	"ok:register:creator", "refused:register:creator:counterparty-set", "refused:register:deleted-creator:creator-deleted",
	"refused:register:creator-of-another-client:fresh", "refused:register:authority:fresh", "refused:register:stranger:fresh",
	"refused:register:names-creator-signed-by-other:fresh",
	// client config and creator deletion
	"ok:config:creator", "ok:config:authority", "refused:config:deleted-creator", "refused:config:stranger", "refused:config:creator-of-another-client",
	"ok:delcreator:creator", "ok:delcreator:authority", "refused:delcreator:stranger", "refused:delcreator:unlisted-relayer",
	// relayer allow list
	"ok:update:listed-relayer-on-client-with-allow-list", "refused:update:signer-not-on-allow-list", "update_refused_for_unlisted_then_accepted_for_listed",
	"ok:recv:listed-relayer-on-client-with-allow-list", "refused:recv:signer-not-on-allow-list", "recv_refused_for_unlisted_then_accepted_for_listed",
	"ok:ack:listed-relayer-on-client-with-allow-list", "refused:ack:signer-not-on-allow-list", "ack_refused_for_unlisted_then_accepted_for_listed",
	"ok:timeout:listed-relayer-on-client-with-allow-list", "refused:timeout:signer-not-on-allow-list", "timeout_refused_for_unlisted_then_accepted_for_listed",
	"send_by_unlisted_signer_accepted_on_client_with_allow_list", "refused:update:authority", "ok:update:authority+listed",
	// allowed client types
	"refused:create:type-not-allowed", "refused:update:type-not-allowed", "refused:recv:type-not-allowed", "refused:send:type-not-allowed",
	"refused:use-conninit:type-not-allowed", "refused:use-chaninit:type-not-allowed", "refused:use-v1recv:type-not-allowed", "refused:use-v1send:type-not-allowed",
	"ok:create:type-listed-explicitly", "ok:use-conninit:stranger", "ok:use-v1recv:unlisted-relayer",
	"refused_message_left_stores_unchanged", "refused:proposal-naming-authority-that-did-not-pass",
}

func init() {
	register(&sim.Check{
		Prop:  "C46",
		Level: "fault_enumeration",
		Rule: "worlds of 2 real chains with tendermint clients of each other (setup pair with connection, v1 mock channel and v2 counterparties; up to 8 more clients per chain created during the run by different accounts, some with trusting periods of minutes so that they expire). " +
			"Every privileged or client-scoped message (MsgRecoverClient, MsgIBCSoftwareUpgrade, MsgUpdateParams of 02-client/03-connection/transfer/ICA host/ICA controller, rate-limit add/update/remove/reset, v2 MsgRegisterCounterparty, MsgUpdateClientConfig, MsgDeleteClientCreator, MsgCreateClient, MsgUpdateClient, v2 MsgSendPacket/MsgRecvPacket/MsgAcknowledgement/MsgTimeout with real proofs, connection/channel handshake starts and v1 packets over the client) " +
			"is submitted by every signer class (authority = a passed proposal of the real gov module, creator, deleted creator, creator of another client, listed relayer, unlisted relayer, stranger, the delegator holding all voting power, transactions naming the authority or the creator but signed by another key) in random order, interleaved with packet traffic and clock jumps, with replays of the same message. " +
			"Oracle: table (kind, signer, configuration) -> allowed written from the property; success => allowed; an allowed combination with arguments known to be valid must succeed; a refused message leaves the ibc/upgrade/ratelimiting/transfer/ICA stores unchanged (complete store dumps). " +
			"Non-trivial case = distinct (message kind, signer class, configuration state, outcome)",
		NonTrivPrefixes: []string{"pv:"},
		Worlds:          map[string]int{"quick": 64, "thorough": 640},
		NewProfile: func(cfg sim.WorldConfig) sim.Profile {
			var o PrivOptions
			if err := json.Unmarshal(cfg.Extra, &o); err != nil {
				sim.Failf("priv options: %v", err)
			}
			return NewPriv(o)
		},
		MakeConfig: func(tier string, seed int64) sim.WorldConfig {
			r := rand.New(rand.NewSource(seed ^ 0x5056))
			o := DefaultPrivOptions()
			o.RegisterAtSetup = r.Intn(4) != 0
			// swarm: each world emphasises some families
			for _, wp := range []*int{&o.WCfg, &o.WReg, &o.WDel, &o.WMk, &o.WRec, &o.WUpg, &o.WPar, &o.WRl, &o.WTypes} {
				switch r.Intn(5) {
				case 0:
					*wp *= 3
				case 1:
					*wp /= 2
				}
			}
			bz, _ := json.Marshal(o)
			return sim.WorldConfig{Profile: "priv", Steps: steps(tier, 120, 200), Extra: bz}
		},
		Assumptions: []string{
			"wasm code storage / removal / migration (08-wasm MsgStoreCode, MsgRemoveChecksum, MsgMigrateContract) is NOT decided here: 08-wasm is a separate Go module that testing/simapp does not wire",
			"signature verification, the gov module (proposal, vote, tally, execution as the authority) and authz of the Cosmos SDK are trusted as used by the real application; 'the authority signs' = a proposal naming the authority passed and executed",
			"only 07-tendermint clients are created (the other light client types of simapp are reached by the allowed-clients lists only as names); validity of the remaining arguments of MsgRecoverClient, MsgIBCSoftwareUpgrade, rate-limit messages and packet messages is established by the twin run with a permitted signer, not predicted",
			"seeded sampling of the (message x signer class x configuration) grid and of the states it is applied in: a clean batch is evidence, not proof",
		},
		RequiredProbes: pvRequiredProbes,
	})
}
