package prof

import (
	"bytes"
	"fmt"
	"sort"
	"strings"
	"time"

	cmttypes "github.com/cometbft/cometbft/types"

	clienttypes "github.com/cosmos/ibc-go/v11/modules/core/02-client/types"
	ibcexported "github.com/cosmos/ibc-go/v11/modules/core/exported"
	ibctm "github.com/cosmos/ibc-go/v11/modules/light-clients/07-tendermint"

	"verif/ibcsim/sim"
)

type hdrVerdict struct {
	ok  bool
	why string
}

func deny(format string, a ...any) hdrVerdict { return hdrVerdict{false, fmt.Sprintf(format, a...)} }

// signedPower returns the voting power of the validators of `set` that validly signed the
// commit's block id (signatures checked with the keys of `set`, matched by address).
func signedPower(chainID string, commit *cmttypes.Commit, set *cmttypes.ValidatorSet) int64 {
	var power int64
	seen := map[string]bool{}
	for i, cs := range commit.Signatures {
		if cs.BlockIDFlag != cmttypes.BlockIDFlagCommit {
			continue
		}
		_, val := set.GetByAddress(cs.ValidatorAddress)
		if val == nil || seen[string(cs.ValidatorAddress)] {
			continue
		}
		if !val.PubKey.VerifySignature(commit.VoteSignBytes(chainID, int32(i)), cs.Signature) {
			continue
		}
		seen[string(cs.ValidatorAddress)] = true
		power += val.VotingPower
	}
	return power
}

// trustedCons reads the consensus state the client stores for the header's trusted height
// (ground truth of the stored state).
func (p *Clients) trustedCons(cs *clState, th clienttypes.Height) (*ibctm.ConsensusState, bool) {
	bz, ok := cs.hist[th.String()]
	if !ok {
		return nil, false
	}
	var c ibctm.ConsensusState
	if unmarshalCons(p.A, bz, &c) != nil {
		return nil, false
	}
	return &c, true
}

// judgeHeader is the independent acceptance predicate of C24 for a header submitted at time `at`.
func (p *Clients) judgeHeader(cs *clState, h *ibctm.Header, at time.Time) hdrVerdict {
	if h == nil || h.SignedHeader == nil || h.SignedHeader.Header == nil || h.SignedHeader.Commit == nil || h.ValidatorSet == nil || h.TrustedValidators == nil {
		return deny("malformed header")
	}
	cons, ok := p.trustedCons(cs, h.TrustedHeight)
	if !ok {
		return deny("no consensus state stored at the trusted height %s", h.TrustedHeight)
	}
	tv, err := cmttypes.ValidatorSetFromProto(h.TrustedValidators)
	if err != nil {
		return deny("trusted validators malformed")
	}
	if !bytes.Equal(tv.Hash(), cons.NextValidatorsHash) {
		return deny("trusted validator set does not hash to the trusted consensus state's next-validators hash")
	}
	sh, err := cmttypes.SignedHeaderFromProto(h.SignedHeader)
	if err != nil {
		return deny("signed header malformed")
	}
	vs, err := cmttypes.ValidatorSetFromProto(h.ValidatorSet)
	if err != nil {
		return deny("validator set malformed")
	}
	if sh.Header.ChainID != p.B.ID {
		return deny("chain id %q", sh.Header.ChainID)
	}
	hh := clienttypes.NewHeight(clienttypes.ParseChainID(sh.Header.ChainID), uint64(sh.Header.Height))
	if hh.RevisionNumber != h.TrustedHeight.RevisionNumber {
		return deny("revision differs from the trusted height's")
	}
	if !hh.GT(h.TrustedHeight) {
		return deny("height %s not above the trusted height %s", hh, h.TrustedHeight)
	}
	if !cons.Timestamp.Add(cs.TM.TrustingPeriod).After(at) {
		return deny("trusted consensus state is outside the trusting period")
	}
	if !sh.Header.Time.After(cons.Timestamp) {
		return deny("header time not after the trusted time")
	}
	if sh.Header.Time.After(at.Add(cs.TM.MaxClockDrift)) {
		return deny("header time beyond the clock drift")
	}
	if !bytes.Equal(vs.Hash(), sh.Header.ValidatorsHash) {
		return deny("validator set does not hash to the header's validators hash")
	}
	if sh.Commit.Height != sh.Header.Height || !bytes.Equal(sh.Commit.BlockID.Hash, sh.Header.Hash()) {
		return deny("commit is not for this header")
	}
	own := signedPower(sh.Header.ChainID, sh.Commit, vs)
	if own*3 <= vs.TotalVotingPower()*2 {
		return deny("commit carries %d of %d voting power of its own set (need more than 2/3)", own, vs.TotalVotingPower())
	}
	if uint64(sh.Header.Height) == h.TrustedHeight.RevisionHeight+1 {
		if !bytes.Equal(sh.Header.ValidatorsHash, cons.NextValidatorsHash) {
			return deny("adjacent header's validators are not the trusted next validators")
		}
	} else {
		tp := signedPower(sh.Header.ChainID, sh.Commit, tv)
		lvl := cs.TM.TrustLevel
		if uint64(tp)*lvl.Denominator < uint64(tv.TotalVotingPower())*lvl.Numerator {
			return deny("commit carries %d of %d voting power of the trusted set (need the trust level %d/%d)", tp, tv.TotalVotingPower(), lvl.Numerator, lvl.Denominator)
		}
	}
	return hdrVerdict{true, ""}
}

// judgeMisbehaviour: both headers pass the (weaker) misbehaviour checks against stored trusted
// states, and the pair really is misbehaviour.
func (p *Clients) judgeMisbehaviour(cs *clState, mb *ibctm.Misbehaviour, at time.Time) hdrVerdict {
	for i, h := range []*ibctm.Header{mb.Header1, mb.Header2} {
		cons, ok := p.trustedCons(cs, h.TrustedHeight)
		if !ok {
			return deny("header%d: no consensus state at the trusted height", i+1)
		}
		tv, err := cmttypes.ValidatorSetFromProto(h.TrustedValidators)
		if err != nil || !bytes.Equal(tv.Hash(), cons.NextValidatorsHash) {
			return deny("header%d: trusted validators do not hash to the stored next-validators hash", i+1)
		}
		if at.Sub(cons.Timestamp) >= cs.TM.TrustingPeriod {
			return deny("header%d: trusted state outside the trusting period", i+1)
		}
		sh, err := cmttypes.SignedHeaderFromProto(h.SignedHeader)
		if err != nil {
			return deny("header%d malformed", i+1)
		}
		tp := signedPower(sh.Header.ChainID, sh.Commit, tv)
		lvl := cs.TM.TrustLevel
		if uint64(tp)*lvl.Denominator < uint64(tv.TotalVotingPower())*lvl.Numerator {
			return deny("header%d: only %d of %d trusted voting power signed", i+1, tp, tv.TotalVotingPower())
		}
	}
	h1, h2 := mb.Header1.SignedHeader, mb.Header2.SignedHeader
	if h1.Header.Height == h2.Header.Height {
		if bytes.Equal(h1.Commit.BlockID.Hash, h2.Commit.BlockID.Hash) {
			return deny("same height, same block id: not misbehaviour")
		}
	} else if h1.Header.Time.After(h2.Header.Time) {
		return deny("different heights with increasing time: not misbehaviour")
	}
	return hdrVerdict{true, ""}
}

// modelStatus is the property's definition of the status, evaluated on the raw stored state.
func (p *Clients) modelStatus(cs *clState, at time.Time) ibcexported.Status {
	if cs.frozen {
		return ibcexported.Frozen
	}
	lt := p.latestTime(cs)
	if lt.IsZero() || !lt.Add(cs.TM.TrustingPeriod).After(at) {
		return ibcexported.Expired
	}
	return ibcexported.Active
}

// observe decodes the client's namespace from a census and runs the store-level oracles
// (C20, C22, C23). res are the transactions of the block that produced the snapshot.
func (p *Clients) observe(cs *clState, snap *sim.Snapshot, res []*sim.TxResult) {
	w := p.w
	a := p.A
	pref := "clients/" + cs.ID + "/"
	cons := map[string][]byte{}
	pt, phh, iter := map[string]bool{}, map[string]bool{}, map[string]bool{}
	var clientState *ibctm.ClientState
	for k, v := range snap.KV[ibcStore] {
		if !strings.HasPrefix(k, pref) {
			continue
		}
		rest := k[len(pref):]
		switch {
		case rest == "clientState":
			if st, err := clienttypes.UnmarshalClientState(a.App.AppCodec(), v); err == nil {
				clientState, _ = st.(*ibctm.ClientState)
			}
		case strings.HasPrefix(rest, "consensusStates/"):
			r := rest[len("consensusStates/"):]
			switch {
			case strings.HasSuffix(r, "/processedTime"):
				pt[strings.TrimSuffix(r, "/processedTime")] = true
			case strings.HasSuffix(r, "/processedHeight"):
				phh[strings.TrimSuffix(r, "/processedHeight")] = true
			default:
				cons[r] = v
			}
		case strings.HasPrefix(rest, ibctm.KeyIterateConsensusStatePrefix):
			h := ibctm.GetHeightFromIterationKey([]byte(rest))
			iter[h.String()] = true
		}
	}
	if clientState == nil {
		sim.Failf("client %s has no client state", cs.ID)
	}
	blockTime := a.LastTime
	recovery := p.govBlock
	// the client's own parameters are part of its stored state (a recovery replaces the
	// trusting period by the substitute's)
	if clientState.TrustingPeriod != cs.TM.TrustingPeriod {
		if !recovery {
			w.Violate("C25", "trusting-period-changed-outside-recovery", "", fmt.Sprintf("client %s: trusting period changed from %s to %s", cs.ID, cs.TM.TrustingPeriod, clientState.TrustingPeriod))
		}
		cs.TM.TrustingPeriod = clientState.TrustingPeriod
	}
	if clientState.MaxClockDrift != cs.TM.MaxClockDrift || clientState.TrustLevel != cs.TM.TrustLevel {
		w.Violate("C25", "client-parameters-changed", "", fmt.Sprintf("client %s: clock drift / trust level changed to %s / %v", cs.ID, clientState.MaxClockDrift, clientState.TrustLevel))
	}

	// ---- C22: exactly one of each metadata entry per consensus state, no orphans ----
	if w.Armed("C22") {
		for h := range cons {
			if !pt[h] || !phh[h] || !iter[h] {
				w.Violate("C22", "consensus-state-without-metadata", "", fmt.Sprintf("client %s height %s: processedTime=%v processedHeight=%v iterationKey=%v", cs.ID, h, pt[h], phh[h], iter[h]))
			}
		}
		for name, m := range map[string]map[string]bool{"processedTime": pt, "processedHeight": phh, "iteration key": iter} {
			for h := range m {
				if _, ok := cons[h]; !ok {
					w.Violate("C22", "orphan-metadata", "", fmt.Sprintf("client %s: %s for height %s exists without a consensus state", cs.ID, name, h))
				}
			}
		}
		// ordered iteration and neighbour lookups equal the sorted model
		var hs []clienttypes.Height
		for h := range cons {
			if hh, err := clienttypes.ParseHeight(h); err == nil {
				hs = append(hs, hh)
			}
		}
		sort.Slice(hs, func(i, j int) bool { return hs[i].LT(hs[j]) })
		store := a.App.IBCKeeper.ClientKeeper.ClientStore(a.QueryCtx(), cs.ID)
		var got []string
		ibctm.IterateConsensusStateAscending(store, func(h ibcexported.Height) bool {
			got = append(got, h.String())
			return false
		})
		var want []string
		for _, h := range hs {
			want = append(want, h.String())
		}
		if strings.Join(got, ",") != strings.Join(want, ",") {
			w.Violate("C22", "iteration-order-differs", "", fmt.Sprintf("client %s: ascending iteration visits %v, stored heights in order are %v", cs.ID, got, want))
		}
		for i, h := range hs {
			for _, probe := range []clienttypes.Height{h, clienttypes.NewHeight(h.RevisionNumber, h.RevisionHeight+1)} {
				nx, nok := ibctm.GetNextConsensusState(store, a.App.AppCodec(), probe)
				pv, pok := ibctm.GetPreviousConsensusState(store, a.App.AppCodec(), probe)
				// model neighbours of `probe`
				var wantN, wantP []byte
				for _, x := range hs {
					if x.GT(probe) && wantN == nil {
						wantN = cons[x.String()]
					}
					if x.LT(probe) {
						wantP = cons[x.String()]
					}
				}
				if nok != (wantN != nil) || (nok && !bytes.Equal(clienttypes.MustMarshalConsensusState(a.App.AppCodec(), nx), wantN)) {
					w.Violate("C22", "next-neighbour-differs", "", fmt.Sprintf("client %s: next consensus state after %s is not the true neighbour", cs.ID, probe))
				}
				if pok != (wantP != nil) || (pok && !bytes.Equal(clienttypes.MustMarshalConsensusState(a.App.AppCodec(), pv), wantP)) {
					w.Violate("C22", "previous-neighbour-differs", "", fmt.Sprintf("client %s: previous consensus state before %s is not the true neighbour", cs.ID, probe))
				}
			}
			_ = i
		}
		w.Stats.Probe("client_metadata_census_checked")
	}

	// ---- C23: timestamps strictly increase with height ----
	{
		var hs []clienttypes.Height
		for h := range cons {
			if hh, err := clienttypes.ParseHeight(h); err == nil {
				hs = append(hs, hh)
			}
		}
		sort.Slice(hs, func(i, j int) bool { return hs[i].LT(hs[j]) })
		var prev time.Time
		for i, h := range hs {
			var c ibctm.ConsensusState
			if unmarshalCons(a, cons[h.String()], &c) != nil {
				continue
			}
			if i > 0 && !c.Timestamp.After(prev) {
				w.Violate("C23", "timestamps-not-increasing", "", fmt.Sprintf("client %s: consensus state %s has time %s, its lower neighbour %s", cs.ID, h, c.Timestamp.Format(time.RFC3339Nano), prev.Format(time.RFC3339Nano)))
			}
			prev = c.Timestamp
		}
	}

	// ---- C20: never overwritten; only expired states are removed; C22: only the oldest ----
	if cs.hist != nil && len(cs.ever) > 0 {
		var oldKeys []clienttypes.Height
		for h := range cs.hist {
			if hh, err := clienttypes.ParseHeight(h); err == nil {
				oldKeys = append(oldKeys, hh)
			}
		}
		sort.Slice(oldKeys, func(i, j int) bool { return oldKeys[i].LT(oldKeys[j]) })
		removedNow := 0
		for i, h := range oldKeys {
			k := h.String()
			now, ok := cons[k]
			if ok {
				if !bytes.Equal(now, cs.hist[k]) {
					w.Violate("C20", "consensus-state-overwritten", "", fmt.Sprintf("client %s: consensus state at %s changed from %x… to %x…", cs.ID, k, head(cs.hist[k]), head(now)))
				}
				continue
			}
			removedNow++
			var c ibctm.ConsensusState
			_ = unmarshalCons(a, cs.hist[k], &c)
			expired := !c.Timestamp.Add(cs.TM.TrustingPeriod).After(blockTime)
			if !expired {
				w.Violate("C20", "unexpired-consensus-state-removed", "", fmt.Sprintf("client %s: consensus state %s (time %s, trusting period %s) removed at %s", cs.ID, k, c.Timestamp.Format(time.RFC3339), cs.TM.TrustingPeriod, blockTime.Format(time.RFC3339)))
			}
			if i != 0 && !recovery {
				w.Violate("C22", "pruned-state-not-the-oldest", "", fmt.Sprintf("client %s: consensus state %s was removed although %s is older", cs.ID, k, oldKeys[0]))
			}
			cs.removed[k] = true
			w.Stats.Probe("consensus_state_pruned")
		}
		if removedNow > 1 && !recovery {
			w.Violate("C22", "pruned-more-than-one", "", fmt.Sprintf("client %s: %d consensus states removed in one block", cs.ID, removedNow))
		}
	}
	for h, v := range cons {
		if old, ok := cs.ever[h]; ok && !bytes.Equal(old, v) {
			w.Violate("C20", "consensus-state-overwritten", "", fmt.Sprintf("client %s: height %s once held %x…, now %x…", cs.ID, h, head(old), head(v)))
		}
		cs.ever[h] = v
	}
	cs.hist = cons

	// ---- C21: latest height monotone, status equals the model ----
	if clientState.LatestHeight.LT(cs.latest) {
		w.Violate("C21", "latest-height-decreased", "", fmt.Sprintf("client %s: latest height went from %s to %s", cs.ID, cs.latest, clientState.LatestHeight))
	}
	cs.latest = clientState.LatestHeight
	cs.frozen = !clientState.FrozenHeight.IsZero()
	if w.Armed("C21") {
		want := p.modelStatus(cs, blockTime)
		got := a.ClientStatus(cs.ID)
		if got != want {
			w.Violate("C21", "status-differs-from-model", "", fmt.Sprintf("client %s at %s: status query says %s; frozen=%v, latest consensus time %s, trusting period %s => %s", cs.ID, blockTime.Format(time.RFC3339Nano), got, cs.frozen, p.latestTime(cs).Format(time.RFC3339Nano), cs.TM.TrustingPeriod, want))
		}
		if want != cs.lastStat {
			w.Stats.NonTrivial(fmt.Sprintf("status:%s->%s", cs.lastStat, want))
		}
		cs.lastStat = want
	}
}

func head(b []byte) []byte {
	if len(b) > 10 {
		return b[:10]
	}
	return b
}

func (p *Clients) afterBlock(res []*sim.TxResult) {
	w := p.w
	a := p.A
	before := p.snap
	after := a.Census([]string{ibcStore})
	p.snap = after
	diff := sim.Diff(before, after)

	// pre-block facts for the per-transaction oracles
	type pre struct {
		frozen bool
		hist   map[string][]byte
	}
	pres := map[string]pre{}
	for _, cs := range p.Cl {
		pres[cs.ID] = pre{cs.frozen, cs.hist}
	}
	for _, cs := range p.Cl {
		p.observe(cs, after, res)
	}

	for _, r := range res {
		lbl := r.Spec.Label
		if lbl != "cup" && lbl != "cfk" && lbl != "cmu" && lbl != "cmb" {
			continue
		}
		um, ok := r.Spec.Msgs[0].(*clienttypes.MsgUpdateClient)
		if !ok {
			continue
		}
		var cs *clState
		for _, c := range p.Cl {
			if c.ID == um.ClientId {
				cs = c
			}
		}
		if cs == nil || p.expect == nil {
			continue
		}
		was := pres[cs.ID]
		accepted := r.OK()
		state := "refused"
		if accepted {
			state = "accepted"
		}
		w.Stats.Probe("client_message_" + lbl + "_" + state)
		verdict := "allow"
		if !p.expect.ok {
			verdict = "deny"
		}
		w.Stats.NonTrivial(fmt.Sprintf("hdr:%s:%s:model-%s", lbl, state, verdict))
		w.MixSig(lbl + state)
		if lbl == "cmb" {
			// a misbehaviour message is judged by its effect: did it freeze the client?
			froze := cs.frozen && !was.frozen
			if froze && !p.expect.ok {
				w.Violate("C24", "misbehaviour-froze-client-against-model", "", fmt.Sprintf("client %s was frozen by [%s] although: %s", cs.ID, p.lastInfo, p.expect.why))
			}
			if accepted && !froze && p.expect.ok && !was.frozen {
				w.Violate("C24", "valid-misbehaviour-did-not-freeze", "", fmt.Sprintf("client %s accepted [%s], which the model considers valid misbehaviour, and is not frozen", cs.ID, p.lastInfo))
			}
			if froze {
				w.Stats.Probe("client_frozen_by_misbehaviour")
			}
			if accepted && !froze {
				w.Stats.Probe("misbehaviour_message_accepted_without_effect")
			}
			continue
		}
		if accepted && !p.expect.ok && !was.frozen {
			w.Violate("C24", "client-message-accepted-against-model", "", fmt.Sprintf("client %s accepted [%s] although: %s", cs.ID, p.lastInfo, p.expect.why))
		}
		if accepted && was.frozen {
			w.Violate("C21", "update-of-frozen-client", "", fmt.Sprintf("client %s accepted [%s] while frozen", cs.ID, p.lastInfo))
		}
		if !accepted {
			// a refused client message changes nothing in the client's namespace
			for _, ch := range diff {
				if len(res) == 1 && strings.HasPrefix(ch.Key, "clients/"+cs.ID+"/") {
					w.Violate("C16", "refused-client-message-changed-state", "", fmt.Sprintf("client %s: refused [%s] changed %s", cs.ID, p.lastInfo, ch))
				}
			}
			continue
		}
		// C16: an accepted client message writes only inside its client's namespace
		if len(res) == 1 {
			for _, ch := range diff {
				if !strings.HasPrefix(ch.Key, "clients/"+cs.ID+"/") {
					w.Violate("C16", "client-operation-wrote-outside-its-namespace", "", fmt.Sprintf("update of client %s wrote %s", cs.ID, ch))
				}
			}
			w.Stats.Probe("client_operation_confinement_checked")
		}
		switch msg, _ := clienttypes.UnpackClientMessage(um.ClientMessage); m := msg.(type) {
		case *ibctm.Header:
			hh := clienttypes.NewHeight(clienttypes.ParseChainID(m.SignedHeader.Header.ChainID), uint64(m.SignedHeader.Header.Height))
			newCons := clienttypes.MustMarshalConsensusState(a.App.AppCodec(), m.ConsensusState())
			if old, had := was.hist[hh.String()]; had {
				if !bytes.Equal(old, newCons) {
					w.Stats.Probe("conflicting_header_for_stored_height_accepted")
					if !cs.frozen {
						w.Violate("C20", "conflicting-header-did-not-freeze", "", fmt.Sprintf("client %s accepted a different header for stored height %s and is not frozen", cs.ID, hh))
					}
				} else {
					w.Stats.Probe("duplicate_header_resubmitted")
				}
			} else if !cs.frozen {
				if got, ok := cs.hist[hh.String()]; !ok || !bytes.Equal(got, newCons) {
					w.Violate("C20", "accepted-header-not-stored", "", fmt.Sprintf("client %s accepted header %s but does not store its consensus state", cs.ID, hh))
				}
			} else {
				w.Stats.Probe("update_froze_client_on_time_violation")
				if _, ok := cs.hist[hh.String()]; ok {
					w.Violate("C23", "freezing-update-stored-state", "", fmt.Sprintf("client %s froze on header %s but stored its consensus state anyway", cs.ID, hh))
				}
			}
		case *ibctm.Misbehaviour:
			if !cs.frozen {
				w.Violate("C24", "accepted-misbehaviour-did-not-freeze", "", fmt.Sprintf("client %s accepted [%s] and is not frozen", cs.ID, p.lastInfo))
			} else {
				w.Stats.Probe("client_frozen_by_misbehaviour")
			}
		}
	}
}

// checkRecovery judges a MsgRecoverClient that went through governance (C25).
func (p *Clients) checkRecovery(sub, subst *clState, subStat, substStat ibcexported.Status, passed bool, why string, before *sim.Snapshot) {
	w := p.w
	// model preconditions; the pre-state was captured before the proposal
	reasons := []string{}
	if subStat == ibcexported.Active {
		reasons = append(reasons, "subject is Active")
	}
	if substStat != ibcexported.Active {
		reasons = append(reasons, "substitute is "+substStat.String())
	}
	if !p.preLatest[subst.ID].GT(p.preLatest[sub.ID]) {
		reasons = append(reasons, "substitute height not greater")
	}
	if sub.TM.MaxClockDrift != subst.TM.MaxClockDrift || sub.TM.TrustLevel != subst.TM.TrustLevel || sub.TM.UnbondingPeriod != subst.TM.UnbondingPeriod {
		reasons = append(reasons, "client parameters differ")
	}
	allow := len(reasons) == 0
	w.Stats.NonTrivial(fmt.Sprintf("recover:subject=%s:substitute=%s:passed=%v:model=%v", subStat, substStat, passed, allow))
	w.Stats.Probe(fmt.Sprintf("recovery_passed_%v", passed))
	if passed && !allow {
		w.Violate("C25", "recovery-accepted-against-model", "", fmt.Sprintf("recovery of %s by %s succeeded although: %s", sub.ID, subst.ID, strings.Join(reasons, "; ")))
		return
	}
	if !passed {
		return
	}
	// post-state: subject unfrozen, at the substitute's latest height with its consensus state
	if sub.frozen {
		w.Violate("C25", "subject-still-frozen", "", sub.ID)
	}
	if !sub.latest.EQ(subst.latest) {
		w.Violate("C25", "subject-height-differs", "", fmt.Sprintf("subject %s is at %s, substitute at %s", sub.ID, sub.latest, subst.latest))
	}
	if !bytes.Equal(sub.hist[sub.latest.String()], subst.hist[subst.latest.String()]) {
		w.Violate("C25", "subject-consensus-state-differs", "", fmt.Sprintf("subject %s does not hold the substitute's latest consensus state", sub.ID))
	}
	// confinement over the whole governance sequence: client namespaces other than the subject's
	for _, ch := range sim.Diff(before, p.snap) {
		if strings.HasPrefix(ch.Key, "clients/") && !strings.HasPrefix(ch.Key, "clients/"+sub.ID+"/") {
			w.Violate("C25", "recovery-touched-another-client", "", ch.String())
			w.Violate("C16", "recovery-touched-another-client", "", ch.String())
		}
	}
	w.Stats.Probe("recovery_post_state_checked")
}
