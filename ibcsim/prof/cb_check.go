package prof

import (
	"encoding/json"
	"math/rand"
	"os"

	"verif/ibcsim/sim"
)

// Probes that must fire in every batch: they prove that the situations the property speaks about
// were reached, so that the check could have failed.
var cbRequiredProbes = []string{
	"cb_v1_callback", "cb_v2_callback",
	"cb_callback_send", "cb_callback_ack", "cb_callback_timeout", "cb_callback_recv",
	"cb_meter_below_committed_limit", "cb_meter_at_committed_limit",
	"cb_user_limit_above_max_capped", "cb_user_limit_absent_or_zero",
	"cb_contract_exhausted_committed_limit",
	"cb_source_ack_callback_failed_packet_completed",
	"cb_source_timeout_callback_failed_packet_completed",
	"cb_failed_callback_write_discarded", "cb_ok_callback_write_persisted",
	"cb_relayer_starved_oog_aborted_tx", "cb_retry_after_abort_committed",
	"cb_dest_callback_failed_error_ack",
	"cb_send_callback_failed_send_refused",
	"cb_two_message_relay",
	"cbd_v1_call", "cbd_v2_call", "cbd_other_chain_maximum",
	"cbd_remaining_below_committed_limit", "cbd_remaining_at_committed_limit", "cbd_remaining_above_committed_limit",
	"cbd_contract_used_exactly_the_bound",
	"cbd_relayer_starved_oog_panics", "cbd_source_failure_lifecycle_continues", "cbd_dest_failure_error_ack",
	"cbd_failed_write_discarded", "cbd_async_write_ack_callback", "cbd_send_callback",
}

func init() {
	register(&sim.Check{
		Prop:            "C40",
		Level:           "fault_enumeration",
		Rule:            "worlds of 2 real chains running modules/apps/callbacks/testing/simapp joined by an ICS-20 v1 channel (v1 callbacks middleware) and an IBC v2 client pair (v2 callbacks middleware); transfers whose memo carries src_callback / dest_callback entries with gas_limit absent, empty, zero, below, at and above the chain maximum; a scripted contract that succeeds, errors, panics, exhausts its gas (propagating or swallowing the panic), each with or without writing state first (bank send to a per-callback sink) and with a chosen explicit burn; relayer / sender transactions alone in their block with a gas limit from a ladder (ample, cannot pay the message, callback gets less than the committed limit, around the committed limit, exactly the committed limit after an aborted attempt, above), one or two packet messages per transaction; plus directly driven v1/v2 middleware instances with chain maxima 1..3,000,000 over stub neighbours where the remaining gas at the callback is known exactly (below / equal / above the committed limit) for all five entry points including asynchronous write-acknowledgement. Oracles: gas the contract used <= min(remaining, min(user limit, chain maximum)) (exact in the direct cases, remaining bounded by tx gas limit - ante gas - earlier callbacks on chain) and committed transactions report at least ante + callback gas; failing source ack/timeout callback: transaction commits, commitment gone, bank difference of the block = ICS-20 effect only; out of gas on a meter below the committed limit: transaction fails, no store but acc changes, a later amply funded delivery commits; failing destination callback: error acknowledgement, bank and transfer stores unchanged. Non-trivial case = distinct (protocol, callback type, contract outcome, gas relation[, wrote state]) cell reached, on chain (cb:) or directly (cbd:)",
		NonTrivPrefixes: []string{"cb:", "cbd:"},
		Worlds:          map[string]int{"quick": 80, "thorough": 800},
		NewProfile: func(cfg sim.WorldConfig) sim.Profile {
			var o CBOptions
			if err := json.Unmarshal(cfg.Extra, &o); err != nil {
				sim.Failf("callbacks options: %v", err)
			}
			return NewCB(o)
		},
		MakeConfig: func(tier string, seed int64) sim.WorldConfig {
			r := rand.New(rand.NewSource(seed ^ 0x4342))
			o := DefaultCBOptions()
			o.WDir = 12 + r.Intn(24)
			o.WTmo = 8 + r.Intn(10)
			o.Multi = 8 + r.Intn(25)
			o.MaxOpen = 4 + r.Intn(5)
			if os.Getenv("VERIF_CB_NODIRECT") != "" { // development aid only: on-chain worlds alone
				o.WDir = 0
			}
			bz, _ := json.Marshal(o)
			return sim.WorldConfig{Profile: "callbacks", Steps: steps(tier, 150, 220), Extra: bz}
		},
		Components: map[string][]string{
			"real": {"modules/apps/callbacks/testing/simapp.SimApp (baseapp, IAVL multistore on MemDB, ante chain with signature verification and gas metering)",
				"callbacks v1 middleware over ICS-20 transfer, callbacks v2 middleware over transfer v2, internal.ProcessCallback, types.GetCallbackData / computeExecAndCommitGasLimit",
				"ibc core v1 + v2 packet handlers, 07-tendermint light clients over real signed headers, Merkle proofs via ABCI Query",
				"in the direct cases: the two middleware types, sdk.Context / gas meters / cache multistore over the chain's committed state, bank keeper"},
			"stub": {"CometBFT consensus and mempool (single-transaction blocks proposed by the simulator)", "users and relayers (simulated actors choosing gas limits)",
				"the contract keeper (scripted through ContractKeeper.IBC*CallbackFn; script = contract address string)",
				"in the direct cases: underlying application, ICS4 / write-ack wrapper and async packet store are stubs that consume a chosen amount of gas and pay a marker coin"},
		},
		Assumptions: []string{
			"the chain maximum of the on-chain worlds is the constant the callbacks test application is built with (1,000,000); other maxima are exercised only on directly constructed middleware instances",
			"on a real chain the gas remaining at the callback is not observable from outside the code under test; the harness uses the sound upper bound tx gas limit - (tx size cost + signature cost read from the auth params) - gas used by earlier callbacks of the same transaction, and the exact value only in the direct cases",
			"a failing SEND callback may refuse the send (the statement constrains only its gas); a contract keeper that swallows its own out-of-gas panic AND returns nil is outside the ContractKeeper interface contract and is not generated",
			"asynchronous write-acknowledgement callbacks are not reachable by any transaction of the callbacks test application (no asynchronous application is wired); they are exercised only directly, and only their gas bound is decided",
			"seeded search: a clean batch is evidence within the stated bounds, not proof",
		},
		RequiredProbes: cbRequiredProbes,
	})
}
