package prof

// Scripted "smart contract" of the callbacks worlds.
//
// The callbacks test application carries a ContractKeeper whose four IBC*CallbackFn fields decide
// what the contract does. installCBContract replaces them with one deterministic function of
// (callback type, contract address string): the address written into the packet memo IS the
// script, so a replay needs no side table. The contract measures what it is given (the gas meter
// of the context it runs in) and what it manages to use, and records both for the oracles.
//
// Address grammar:   cbk/<tag>/<SATR>/<burn>
//
//	<tag>   packet tag of the simulator (decimal)
//	<SATR>  four behaviour letters: Send, Acknowledgement, Timeout, Receive callback
//	          o ok            e return an error      p panic (not out-of-gas)
//	          g consume gas until the meter panics (out of gas)
//	          s as g, but swallow the panic and return an error (the mock keeper's "oog error")
//	        an upper-case letter first WRITES STATE (bank send of 1ucb from the contract's vault to
//	        a sink address that is unique per (tag, callback type)) and then behaves as above
//	<burn>  gas consumed explicitly after the write and before finishing (decimal)

import (
	"crypto/sha256"
	"errors"
	"fmt"
	"strconv"
	"strings"

	sdkmath "cosmossdk.io/math"

	storetypes "github.com/cosmos/cosmos-sdk/store/v2/types"
	sdk "github.com/cosmos/cosmos-sdk/types"

	clienttypes "github.com/cosmos/ibc-go/v11/modules/core/02-client/types"
	channeltypes "github.com/cosmos/ibc-go/v11/modules/core/04-channel/types"
	ibcexported "github.com/cosmos/ibc-go/v11/modules/core/exported"
)

// callback types as the harness names them
const (
	cbSend = 0
	cbAck  = 1
	cbTmo  = 2
	cbRecv = 3
)

var cbTypeNames = [4]string{"send", "ack", "timeout", "recv"}

var errCBScripted = errors.New("scripted contract error")

// cbCall is what the contract observed during one invocation.
type cbCall struct {
	Chain   int
	Type    int
	Addr    string
	Tag     int64
	Beh     byte
	Foreign bool   // address not in the grammar (treated as ok, no write)
	Limit   uint64 // limit of the gas meter the contract was handed
	Used    uint64 // gas the contract consumed on that meter, capped at the limit
	Outcome string // ok | err | panic | oog
	Wrote   bool   // the state write completed inside the callback's context
	Sink    string
}

type cbScript struct {
	Tag  int64
	Beh  [4]byte
	Burn uint64
}

func (s cbScript) Addr() string {
	return fmt.Sprintf("cbk/%d/%s/%d", s.Tag, string(s.Beh[:]), s.Burn)
}

func parseCBAddr(addr string) (cbScript, bool) {
	var s cbScript
	parts := strings.Split(addr, "/")
	if len(parts) != 4 || parts[0] != "cbk" || len(parts[2]) != 4 {
		return s, false
	}
	tag, err := strconv.ParseInt(parts[1], 10, 64)
	if err != nil {
		return s, false
	}
	burn, err := strconv.ParseUint(parts[3], 10, 64)
	if err != nil {
		return s, false
	}
	s.Tag, s.Burn = tag, burn
	copy(s.Beh[:], parts[2])
	for _, b := range s.Beh {
		if !strings.ContainsRune("oepgsOEPGS", rune(b)) {
			return s, false
		}
	}
	return s, true
}

// cbSinkAddr is the account the contract credits when it writes state in callback `typ` of
// packet `tag` on chain `chain`.
func cbSinkAddr(chain int, tag int64, typ int) sdk.AccAddress {
	h := sha256.Sum256([]byte(fmt.Sprintf("verif-ibcsim/cb-sink/%d/%d/%d", chain, tag, typ)))
	return sdk.AccAddress(h[:20])
}

type cbContract struct {
	c     *cbChain
	dry   bool // neutral mode: return nil, touch nothing, record nothing (gas estimation runs)
	Calls []*cbCall
}

// Take returns and clears the calls recorded since the last Take.
func (k *cbContract) Take() []*cbCall {
	out := k.Calls
	k.Calls = nil
	return out
}

func installCBContract(c *cbChain) *cbContract {
	k := &cbContract{c: c}
	mk := c.App.MockContractKeeper
	mk.IBCSendPacketCallbackFn = func(ctx sdk.Context, _, _ string, _ clienttypes.Height, _ uint64, _ []byte, contractAddress, _, _ string) error {
		return k.run(ctx, cbSend, contractAddress)
	}
	mk.IBCOnAcknowledgementPacketCallbackFn = func(ctx sdk.Context, _ channeltypes.Packet, _ []byte, _ sdk.AccAddress, contractAddress, _, _ string) error {
		return k.run(ctx, cbAck, contractAddress)
	}
	mk.IBCOnTimeoutPacketCallbackFn = func(ctx sdk.Context, _ channeltypes.Packet, _ sdk.AccAddress, contractAddress, _, _ string) error {
		return k.run(ctx, cbTmo, contractAddress)
	}
	mk.IBCReceivePacketCallbackFn = func(ctx sdk.Context, _ ibcexported.PacketI, _ ibcexported.Acknowledgement, contractAddress, _ string) error {
		return k.run(ctx, cbRecv, contractAddress)
	}
	return k
}

// run is the contract. vault/bank are those of the chain the contract lives on.
func (k *cbContract) run(ctx sdk.Context, typ int, addr string) error {
	if k.dry {
		return nil
	}
	rec := &cbCall{Chain: k.c.Idx, Type: typ, Addr: addr}
	k.Calls = append(k.Calls, rec)
	bank := func(ctx sdk.Context, sink sdk.AccAddress) error {
		return k.c.App.BankKeeper.SendCoins(ctx, k.c.Accounts[cbAccVault].Addr, sink, sdk.NewCoins(sdk.NewCoin(cbContractDenom, sdkmath.NewInt(1))))
	}
	return cbRunScript(ctx, rec, k.c.Idx, typ, addr, bank)
}

// cbRunScript executes the script encoded in addr on ctx and fills rec. It is shared by the
// on-chain contract and by the directly driven middleware instances.
func cbRunScript(ctx sdk.Context, rec *cbCall, chain, typ int, addr string, write func(sdk.Context, sdk.AccAddress) error) (err error) {
	m := ctx.GasMeter()
	rec.Limit = m.Limit()
	start := m.GasConsumed()
	sc, ok := parseCBAddr(addr)
	if !ok {
		rec.Foreign, rec.Outcome = true, "ok"
		return nil
	}
	rec.Tag = sc.Tag
	b := sc.Beh[typ]
	rec.Beh = b
	low := b | 0x20
	defer func() {
		r := recover()
		used := m.GasConsumed()
		if m.IsPastLimit() {
			used = m.Limit()
		}
		if used >= start {
			rec.Used = used - start
		}
		if r == nil {
			return
		}
		if _, isOOG := r.(storetypes.ErrorOutOfGas); isOOG {
			rec.Outcome = "oog"
			if low == 's' {
				err = errCBScripted
				return
			}
		} else {
			rec.Outcome = "panic"
		}
		panic(r)
	}()
	if b != low { // upper case: write state first
		sink := cbSinkAddr(chain, sc.Tag, typ)
		rec.Sink = sink.String()
		if werr := write(ctx, sink); werr != nil {
			rec.Outcome = "err"
			return werr
		}
		rec.Wrote = true
	}
	if sc.Burn > 0 {
		m.ConsumeGas(sc.Burn, "scripted burn")
	}
	switch low {
	case 'o':
		rec.Outcome = "ok"
		return nil
	case 'e':
		rec.Outcome = "err"
		return errCBScripted
	case 'p':
		panic("scripted contract panic")
	default: // g, s: use everything, then one unit more
		for {
			rem := m.GasRemaining()
			if rem > 1<<40 {
				rem = 1 << 40
			}
			m.ConsumeGas(rem+1, "scripted exhaustion")
		}
	}
}
