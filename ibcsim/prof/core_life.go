package prof

import (
	"bytes"
	"encoding/json"
	"fmt"
	"strings"
	"time"

	"verif/ibcsim/sim"
)

// ---- lifecycle faults (C44, C45) ---------------------------------------------------------------
//
//	gexp  C=chain      genesis export -> fresh application from the export (hard restart)
//	lostc C=chain N=dt the next block is executed and committed, the commit is lost (database
//	                   rolled back to the snapshot before it), the node restarts and the same
//	                   block is proposed again

// c44Stores are the stores whose complete content must survive an export/import.
var c44Stores = []string{"ibc", "transfer", "ratelimiting", "packetforward", "icacontroller", "icahost", "gmp"}

// c44Modules are the genesis sections compared between export and re-export.
var c44Modules = []string{"ibc", "transfer", "ratelimiting", "packetfowardmiddleware", "interchainaccounts", "gmp", "27-gmp"}

// classifyLostKey gives a stable signature for a key the import did not reproduce.
func classifyLostKey(store, key string) string {
	k := key
	switch {
	case store != "ibc":
		return store + ":" + firstSegment(k)
	case strings.HasPrefix(k, "clients/"):
		parts := strings.SplitN(k, "/", 3)
		if len(parts) == 3 {
			return "ibc:clients/*/" + firstSegment(parts[2])
		}
	case strings.Contains(k, "alias"):
		return "ibc:v2-alias-mapping"
	case strings.Contains(k, "async_packet"):
		return "ibc:v2-async-packet"
	case strings.HasPrefix(k, "nextSequenceSend"):
		return "ibc:nextSequenceSend"
	}
	// v2 keys: <id> 0x01|0x02|0x03 <8 bytes>
	if n := len(k); n > 9 && (k[n-9] == 1 || k[n-9] == 2 || k[n-9] == 3) && !strings.Contains(k[:n-9], "/") {
		id := k[:n-9]
		kind := map[byte]string{1: "commitment", 2: "receipt", 3: "ack"}[k[n-9]]
		if strings.HasPrefix(id, "channel-") {
			return "ibc:v2-" + kind + "-under-channel-alias"
		}
		return "ibc:v2-" + kind
	}
	return "ibc:" + firstSegment(k)
}

func firstSegment(k string) string {
	if i := strings.IndexAny(k, "/\x00\x01\x02\x03"); i > 0 {
		return sim.PrettyKey([]byte(k[:i]))
	}
	if len(k) > 24 {
		k = k[:24]
	}
	return sim.PrettyKey([]byte(k))
}

func (p *Core) execGenesisRestart(op sim.Op) {
	w := p.w
	if op.C < 0 || op.C >= len(p.C) {
		w.Noop()
		return
	}
	c := p.C[op.C]
	if len(c.Mempool) > 0 {
		p.block(op.C)
	}
	before := c.Census(c44Stores)
	gen1, err := c.GenesisRestart()
	if err != nil {
		sig := ""
		if strings.Contains(err.Error(), "counterparty client id and client id cannot be the same") {
			sig = "import-refuses-counterparty-client-id-equal-to-client-id"
		}
		w.Violate("C44", "exported-genesis-does-not-import", sig, fmt.Sprintf("%s at height %d: %v", c.ID, c.Height, err))
		w.Stats.Probe("genesis_import_refused")
		return // the chain keeps running on its old application object
	}
	// InitChain state becomes the committed state with the first (empty) block of the new node
	p.tick(time.Second)
	c.Block(p.chainTime(op.C), nil)
	p.taps = p.taps[:0]
	after := c.Census(c44Stores)
	p.snap[op.C] = c.Census(coreStores)
	if p.Opt.Tokens {
		p.tok.bank[op.C] = p.snapshotBank(op.C)
		// the restarted chain must still track the same escrow totals (C31)
		p.checkTrackedEscrow(op.C, p.tok.bank[op.C])
	}
	// (a) every IBC-relevant store is reproduced key by key
	lost := map[string][]string{}
	for _, ch := range sim.Diff(before, after) {
		sig := classifyLostKey(ch.Store, ch.Key)
		what := "changed"
		if ch.New == nil {
			what = "lost"
		} else if ch.Old == nil {
			what = "appeared"
		}
		lost[sig+":"+what] = append(lost[sig+":"+what], ch.String())
	}
	for _, sig := range sim.SortedKeys(lost) {
		ex := lost[sig]
		w.Violate("C44", "state-not-preserved-by-export-import", sig, fmt.Sprintf("%s export/import at height %d: %d keys %s, e.g. %s", c.ID, c.Height, len(ex), sig, ex[0]))
	}
	knownLoss := false
	knownLost := map[string][]string{}
	for sig := range lost {
		if w.Known != nil && w.Known.Matches("C44", sig) {
			knownLoss = true
			knownLost[sig] = lost[sig]
		}
	}
	// (losses that are NOT listed never stop a world: where C44 is not the armed property their
	// consequences are for the armed property's oracles to judge)
	if knownLoss && len(w.Viol) == 0 && p.Opt.NoAlias && onlyAliasBookkeepingLost(knownLost) {
		// the world never used v2-over-alias: only the (unused) alias bookkeeping of its v1
		// channels is gone, everything the model relies on survived, so the run continues on the
		// restarted chain
		w.Stats.Probe("world_continues_after_genesis_restart")
	} else if knownLoss && len(w.Viol) == 0 {
		// every loss is a listed known finding: the restarted chain no longer has the state the
		// model (correctly) expects, so this world ends here instead of reporting the consequences
		w.StopQuietly("state lost by a known export/import defect")
	}
	// (b) re-export equals export
	gen2, err := c.ExportGenesis()
	if err != nil {
		w.Violate("C44", "re-export-failed", "", err.Error())
		return
	}
	for _, m := range c44Modules {
		a, okA := gen1[m]
		b, okB := gen2[m]
		if okA != okB || !jsonEqual(a, b) {
			w.Violate("C44", "re-export-differs", "module:"+m, fmt.Sprintf("%s: genesis section %q differs between the export and the re-export of the restarted chain (%d vs %d bytes)", c.ID, m, len(a), len(b)))
		}
	}
	w.Stats.Probe("genesis_export_import_compared")
	w.Stats.NonTrivial(fmt.Sprintf("gexp:pkts=%d:keys=%d", min64(int64(len(p.Order)), 12), min64(int64(len(before.KV["ibc"])/20), 10)))
}

func onlyAliasBookkeepingLost(lost map[string][]string) bool {
	for sig := range lost {
		if sig != "ibc:clients/*/counterparty:lost" && sig != "ibc:v2-alias-mapping:lost" {
			return false
		}
	}
	return true
}

func jsonEqual(a, b json.RawMessage) bool {
	var x, y bytes.Buffer
	if json.Compact(&x, a) != nil || json.Compact(&y, b) != nil {
		return bytes.Equal(a, b)
	}
	return bytes.Equal(x.Bytes(), y.Bytes())
}

func (p *Core) execLostCommit(op sim.Op) {
	w := p.w
	if op.C < 0 || op.C >= len(p.C) {
		w.Noop()
		return
	}
	c := p.C[op.C]
	p.tick(time.Duration(op.N))
	// rate-limit worlds put an empty block in front of a block that would carry a window reset;
	// that must happen before the crash point, so that both executions are of the very same block
	p.rlIsolateEpochs(op.C)
	t := p.chainTime(op.C)
	n := 0
	_, same, h1, h2 := c.BlockWithLostCommit(func() []*sim.TxResult {
		n++
		if n == 1 {
			txs := append([]*sim.TxSpec{}, c.Mempool...)
			c.Mempool = nil
			res := c.Block(t, txs)
			p.taps = p.taps[:0]
			return res
		}
		p.snap[op.C] = c.Census(coreStores) // the memory-only scratch store did not survive the crash
		return p.block(op.C)
	})
	if !same {
		w.Violate("C45", "app-hash-differs-after-re-execution", "", fmt.Sprintf("%s block %d: executing the same block again after a lost commit and restart gave app hash %X, first execution %X", c.ID, c.Height, h2, h1))
	}
	w.Stats.NonTrivial(fmt.Sprintf("lostc:txs=%d", min64(int64(len(c.Results)), 3)))
}
