package prof

import (
	"bytes"
	"fmt"
	"reflect"
	"sort"
	"strings"
	"time"

	"github.com/cosmos/gogoproto/proto"

	sdk "github.com/cosmos/cosmos-sdk/types"

	cmttypes "github.com/cometbft/cometbft/types"

	clienttypes "github.com/cosmos/ibc-go/v11/modules/core/02-client/types"
	connectiontypes "github.com/cosmos/ibc-go/v11/modules/core/03-connection/types"
	channeltypes "github.com/cosmos/ibc-go/v11/modules/core/04-channel/types"
	channeltypesv2 "github.com/cosmos/ibc-go/v11/modules/core/04-channel/v2/types"
	ibcexported "github.com/cosmos/ibc-go/v11/modules/core/exported"
	ibctm "github.com/cosmos/ibc-go/v11/modules/light-clients/07-tendermint"
	ibcmock "github.com/cosmos/ibc-go/v11/testing/mock"
	mockv2 "github.com/cosmos/ibc-go/v11/testing/mock/v2"

	"verif/ibcsim/sim"
)

// ---- clients profile: tendermint light clients fed by honest, lazy and Byzantine validators ---
//
// Chain A hosts light clients of chain B. The simulator owns B's validator keys, so it can
// sign any header with any subset of the voting power: honest headers in any order, forks of
// stored and unstored heights, headers with altered times, misbehaviour pairs, and field-mutated
// headers. A's clock jumps across trusting periods.

type CLOptions struct {
	NumVals                                                                 int
	TrustingSecs                                                            []int64 // per client
	WUpd, WFork, WMisb, WMut, WBlock, WJump, WGate, WRecover, WRestart, WBBlock int
	MaxUpd                                                                  int
}

func DefaultCLOptions() CLOptions {
	return CLOptions{NumVals: 7, TrustingSecs: []int64{6 * 3600, 40 * 3600, 14 * 86400}, WUpd: 34, WFork: 14, WMisb: 6, WMut: 12, WBlock: 10, WJump: 6, WGate: 8, WRecover: 3, WRestart: 1, WBBlock: 14}
}

type clState struct {
	ID       string
	TM       sim.TMConfig
	hist     map[string][]byte // height string -> consensus state bytes currently stored
	ever     map[string][]byte // height string -> bytes ever stored (C20: never another value)
	removed  map[string]bool
	latest   clienttypes.Height
	frozen   bool
	lastStat ibcexported.Status
}

type Clients struct {
	w   *sim.World
	A   *sim.Chain
	B   *sim.Chain
	Now time.Time
	Cl  []*clState
	Opt CLOptions

	// client 0 also carries a connection, a mock channel and a v2 counterparty (gating, C21)
	conn  [2]string
	chanA string
	chanB string
	v2A   string
	v2B   string

	snap     *sim.Snapshot
	lastInfo string
	expect   *hdrVerdict
	nextTag  int64
	bPkt     *sim.Pkt // a packet B sent to A (for the gated receive)

	govBlock  bool
	preLatest map[string]clienttypes.Height
}

func NewClients(o CLOptions) *Clients { return &Clients{Opt: o} }

func (p *Clients) Name() string { return "clients" }

func (p *Clients) Setup(w *sim.World) {
	p.w = w
	clk := &sim.Clock{}
	p.A = sim.NewChain(0, sim.ChainConfig{ChainID: "simchain-1", Clock: clk, GovVotingPeriod: 40 * time.Second}, w.Stats)
	p.B = sim.NewChain(1, sim.ChainConfig{ChainID: "simchain-2", Clock: clk, NumValidators: p.Opt.NumVals}, w.Stats)
	w.Chains = []*sim.Chain{p.A, p.B}
	for i, ts := range p.Opt.TrustingSecs {
		tm := sim.DefaultTMConfig()
		tm.TrustingPeriod = time.Duration(ts) * time.Second
		tm.UnbondingPeriod = 21 * 24 * time.Hour // equal for all: recovery needs matching parameters
		if i == 1 {
			tm.MaxClockDrift = 3 * time.Second
		}
		ea, eb := sim.NewClientPair(p.A, p.B, tm, sim.DefaultTMConfig())
		cs := &clState{ID: ea.ClientID, TM: tm, hist: map[string][]byte{}, ever: map[string][]byte{}, removed: map[string]bool{}}
		p.Cl = append(p.Cl, cs)
		if i == 0 {
			sim.OpenConnection(ea, eb, 0)
			ca, cb := sim.OpenChannel(ea, eb, ibcmock.PortID, ibcmock.PortID, ibcmock.Version, channeltypes.UNORDERED)
			p.conn = [2]string{ea.ConnID, eb.ConnID}
			p.chanA, p.chanB = ca.ChanID, cb.ChanID
			va, vb := sim.RegisterV2(ea, eb)
			p.v2A, p.v2B = va.ID, vb.ID
		}
	}
	p.Now = p.A.LastTime
	if p.B.LastTime.After(p.Now) {
		p.Now = p.B.LastTime
	}
	p.snap = p.A.Census([]string{ibcStore})
	for _, cs := range p.Cl {
		p.observe(cs, p.snap, nil)
	}
}

func (p *Clients) tick(d time.Duration) { p.Now = p.Now.Add(d) }

func (p *Clients) blockA() []*sim.TxResult {
	txs := p.A.Mempool
	p.A.Mempool = nil
	res := p.A.Block(p.Now, txs)
	p.afterBlock(res)
	return res
}

func (p *Clients) deliverA(label string, msgs ...sdk.Msg) *sim.TxResult {
	if len(p.A.Mempool) > 0 {
		p.blockA()
	}
	signer := p.A.Relayer()
	for _, m := range msgs {
		if u, ok := m.(*clienttypes.MsgUpdateClient); ok {
			u.Signer = signer.String()
		}
		setSigner(m, signer.String())
	}
	p.A.Submit(&sim.TxSpec{Msgs: msgs, Signer: signer, Label: label})
	p.tick(time.Second)
	return p.blockA()[0]
}

// ---- operations --------------------------------------------------------------------------------
//
//	blk  C=0|1 N=dt
//	cup  P=client M=height N=trustedHeight(0=auto)                         honest header of a real block of B
//	cfk  P=client M=height N=trusted X=signerMask S=what   forged header: what in {time+<ns>, time-<ns>, app, nv, same}
//	cmb  P=client M=h1 N=h2 X=signerMask S=what            misbehaviour (header1 honest or forged, header2 forged)
//	cmu  P=client M=height N=leaf*16+variant               honest header with one mutated field
//	cgt  P=client S=consumer                               a consumer of the client (gating, C21)
//	crc  P=subject X=substitute                            MsgRecoverClient through gov
//	restart

func (p *Clients) client(i int) *clState {
	if i < 0 || i >= len(p.Cl) {
		return nil
	}
	return p.Cl[i]
}

func maskIdx(mask int64, n int) []int {
	out := []int{}
	for i := 0; i < n; i++ {
		if mask&(1<<uint(i)) != 0 {
			out = append(out, i)
		}
	}
	return out
}

// trustedFor picks the trusted height for a header at height h: the explicit one, or the highest
// stored height below h.
func (p *Clients) trustedFor(cs *clState, h, explicit int64) int64 {
	if explicit > 0 {
		return explicit
	}
	best := int64(0)
	for k := range cs.hist {
		hh, err := clienttypes.ParseHeight(k)
		if err == nil && int64(hh.RevisionHeight) < h && int64(hh.RevisionHeight) > best {
			best = int64(hh.RevisionHeight)
		}
	}
	return best
}

func (p *Clients) forged(cs *clState, h, trusted int64, mask int64, what string) (*ibctm.Header, error) {
	hdr := p.B.BaseHeader(h)
	switch {
	case strings.HasPrefix(what, "time+"):
		var d int64
		fmt.Sscanf(what[5:], "%d", &d)
		hdr.Time = hdr.Time.Add(time.Duration(d))
	case strings.HasPrefix(what, "time-"):
		var d int64
		fmt.Sscanf(what[5:], "%d", &d)
		hdr.Time = hdr.Time.Add(-time.Duration(d))
	case what == "app":
		hdr.AppHash = append([]byte{0xfa}, hdr.AppHash[1:]...)
	case what == "nv":
		hdr.NextValidatorsHash = append([]byte{0xfb}, hdr.NextValidatorsHash[1:]...)
	}
	return sim.ForgeTMHeader(p.B, hdr, p.B.Vals, trusted, maskIdx(mask, len(p.B.Vals.Validators)))
}

func (p *Clients) Exec(w *sim.World, op sim.Op) {
	switch op.K {
	case "blk":
		p.tick(time.Duration(op.N))
		if op.C == 1 {
			p.B.Block(p.Now, nil)
			return
		}
		p.blockA()
	case "restart":
		if len(p.A.Mempool) == 0 {
			p.A.Restart()
		}
	case "cup":
		cs := p.client(op.P)
		if cs == nil || op.M < 1 || op.M > p.B.Height {
			w.Noop()
			return
		}
		t := p.trustedFor(cs, op.M, op.N)
		if t < 1 || p.B.Headers[t] == nil {
			w.Noop()
			return
		}
		h, err := sim.TMHeader(p.B, op.M, t, nil, nil)
		if err != nil {
			w.Noop()
			return
		}
		p.submitHeader(cs, "cup", fmt.Sprintf("honest h=%d trusted=%d", op.M, t), h)
	case "cfk":
		cs := p.client(op.P)
		if cs == nil || op.M < 2 || op.M > p.B.Height+5 {
			w.Noop()
			return
		}
		t := p.trustedFor(cs, op.M, op.N)
		if t < 1 || p.B.Headers[t] == nil {
			w.Noop()
			return
		}
		h, err := p.forged(cs, op.M, t, op.X, op.S)
		if err != nil {
			w.Noop()
			return
		}
		w.Stats.Fault("val.equivocate")
		p.submitHeader(cs, "cfk", fmt.Sprintf("forged h=%d trusted=%d signers=%b %s", op.M, t, op.X, op.S), h)
	case "cmu":
		p.execMutHeader(op)
	case "cmb":
		p.execMisbehaviour(op)
	case "cgt":
		p.execGate(op)
	case "crc":
		p.execRecover(op)
	default:
		w.Noop()
	}
}

func (p *Clients) submitHeader(cs *clState, label, info string, h *ibctm.Header) {
	msg, err := clienttypes.NewMsgUpdateClient(cs.ID, h, "")
	if err != nil {
		p.w.Noop()
		return
	}
	p.lastInfo = info
	// verdict of the independent model, evaluated against the state the block will see
	v := p.judgeHeader(cs, h, p.Now.Add(time.Second))
	p.expect = &v
	p.deliverA(label, msg)
	p.expect = nil
}

// execMutHeader: an honest header with one reflected leaf mutated.
func (p *Clients) execMutHeader(op sim.Op) {
	w := p.w
	cs := p.client(op.P)
	if cs == nil || op.M < 2 || op.M > p.B.Height {
		w.Noop()
		return
	}
	t := p.trustedFor(cs, op.M, 0)
	if t < 1 {
		w.Noop()
		return
	}
	h, err := sim.TMHeader(p.B, op.M, t, nil, nil)
	if err != nil {
		w.Noop()
		return
	}
	orig, _ := proto.Marshal(h)
	var ls []leaf
	leaves(reflect.ValueOf(h), "", &ls)
	if len(ls) == 0 {
		w.Noop()
		return
	}
	l := ls[int(op.N/16)%len(ls)]
	desc := mutateLeaf(l, int(op.N%16), nil)
	now, _ := proto.Marshal(h)
	if desc == "" || bytes.Equal(orig, now) {
		w.Noop()
		return
	}
	w.Stats.Fault("relay.mutate")
	w.Stats.NonTrivial("hdr-mut:" + stripIdx(l.path) + ":" + desc)
	p.submitHeader(cs, "cmu", fmt.Sprintf("mutated h=%d %s %s", op.M, l.path, desc), h)
}

func stripIdx(s string) string {
	var sb strings.Builder
	skip := false
	for _, c := range s {
		if c == '[' {
			skip = true
			sb.WriteString("[]")
			continue
		}
		if c == ']' {
			skip = false
			continue
		}
		if !skip {
			sb.WriteRune(c)
		}
	}
	return sb.String()
}

func (p *Clients) execMisbehaviour(op sim.Op) {
	w := p.w
	cs := p.client(op.P)
	if cs == nil || op.M < 2 || op.N < 2 || op.M > p.B.Height+3 || op.N > p.B.Height+3 {
		w.Noop()
		return
	}
	t1, t2 := p.trustedFor(cs, op.M, 0), p.trustedFor(cs, op.N, 0)
	if t1 < 1 || t2 < 1 {
		w.Noop()
		return
	}
	all := int64(1<<uint(len(p.B.Vals.Validators))) - 1
	h1, err1 := p.forged(cs, op.M, t1, all, "same")
	h2, err2 := p.forged(cs, op.N, t2, op.X, op.S)
	if err1 != nil || err2 != nil {
		w.Noop()
		return
	}
	mb := &ibctm.Misbehaviour{ClientId: cs.ID, Header1: h1, Header2: h2}
	msg, err := clienttypes.NewMsgUpdateClient(cs.ID, mb, "")
	if err != nil {
		w.Noop()
		return
	}
	w.Stats.Fault("val.equivocate")
	p.lastInfo = fmt.Sprintf("misbehaviour h1=%d h2=%d signers2=%b %s", op.M, op.N, op.X, op.S)
	v := p.judgeMisbehaviour(cs, mb, p.Now.Add(time.Second))
	p.expect = &v
	p.deliverA("cmb", msg)
	p.expect = nil
}

// execGate: every consumer of a client must be refused unless the client is Active.
func (p *Clients) execGate(op sim.Op) {
	w := p.w
	cs := p.client(0)
	a := p.A
	if len(a.Mempool) > 0 {
		p.blockA()
	}
	signer := a.Relayer()
	status := p.modelStatus(cs, p.Now.Add(time.Second))
	var msgs []sdk.Msg
	label := "cgt-" + op.S
	switch op.S {
	case "update":
		if u, err := sim.MsgUpdateTo(a, cs.ID, p.B, p.B.Height, signer.String()); err == nil {
			msgs = append(msgs, u)
		}
	case "conninit":
		msgs = append(msgs, connectiontypes.NewMsgConnectionOpenInit(cs.ID, "07-tendermint-0", p.B.Prefix(), nil, 0, signer.String()))
	case "chaninit":
		msgs = append(msgs, channeltypes.NewMsgChannelOpenInit(ibcmock.PortID, ibcmock.Version, channeltypes.UNORDERED, []string{p.conn[0]}, ibcmock.PortID, signer.String()))
	case "sendv2":
		pl := channeltypesv2.NewPayload(mockv2.PortIDA, mockv2.PortIDA, "mock-version", "application/x-protobuf", []byte("ok|1.0"))
		user := a.FreeAccount(2, 8)
		signer = user
		msgs = append(msgs, channeltypesv2.NewMsgSendPacket(p.v2A, uint64(p.Now.Unix()+3600), user.String(), pl))
	case "sendv1":
		// the mock application sends from begin-block logic; judged right here
		ctx := a.PreBlockCtx(p.Now.Add(time.Second))
		cctx, _ := ctx.CacheContext()
		_, err := a.App.IBCKeeper.ChannelKeeper.SendPacket(cctx, ibcmock.PortID, p.chanA, clienttypes.NewHeight(1, 100000), 0, []byte("ok|1.0"))
		p.judgeGate("sendv1", status, err == nil)
		return
	case "recv":
		if p.bPkt == nil {
			ctx := p.B.PreBlockCtx(p.Now)
			cctx, write := ctx.CacheContext()
			seq, err := p.B.App.IBCKeeper.ChannelKeeper.SendPacket(cctx, ibcmock.PortID, p.chanB, clienttypes.NewHeight(1, 1000000), 0, []byte("mock packet data"))
			if err != nil {
				w.Noop()
				return
			}
			write()
			p.B.Block(p.Now, nil)
			p.B.Block(p.Now.Add(time.Second), nil)
			pk := channeltypes.NewPacket([]byte("mock packet data"), seq, ibcmock.PortID, p.chanB, ibcmock.PortID, p.chanA, clienttypes.NewHeight(1, 1000000), 0)
			p.bPkt = &sim.Pkt{P1: pk, Src: p.B, Dst: a, SrcCli: "07-tendermint-0", DstCli: cs.ID, SentAt: p.B.Height - 1}
		}
		// prove at a height the client already knows (no update possible through a dead client)
		var h int64
		for k := range cs.hist {
			hh, _ := clienttypes.ParseHeight(k)
			// (a forged header may have given the client a height the real chain has not produced yet)
			if int64(hh.RevisionHeight) > p.bPkt.SentAt && int64(hh.RevisionHeight) > h && int64(hh.RevisionHeight) <= p.B.Height {
				h = int64(hh.RevisionHeight)
			}
		}
		if h == 0 {
			w.Noop()
			return
		}
		msgs = append(msgs, p.bPkt.RecvMsg(h, signer.String()))
	default:
		w.Noop()
		return
	}
	if len(msgs) == 0 {
		w.Noop()
		return
	}
	a.Submit(&sim.TxSpec{Msgs: msgs, Signer: signer, Label: label})
	p.tick(time.Second)
	r := p.blockA()[0]
	ok := r.OK()
	if ok && op.S == "recv" {
		var resp channeltypes.MsgRecvPacketResponse
		if sim.UnpackResponse(r, 0, &resp) == nil && resp.Result == channeltypes.NOOP {
			return // already received: not a use of the client
		}
		p.bPkt = nil
	}
	p.judgeGate(op.S, status, ok)
}

func (p *Clients) judgeGate(what string, status ibcexported.Status, ok bool) {
	w := p.w
	w.Stats.NonTrivial(fmt.Sprintf("gate:%s:%s:ok=%v", what, status, ok))
	w.Stats.Probe("consumer_attempt_" + status.String())
	if ok && status != ibcexported.Active {
		w.Violate("C21", "use-through-inactive-client", "", fmt.Sprintf("consumer %q succeeded through client %s whose status is %s", what, p.Cl[0].ID, status))
	}
}

func (p *Clients) execRecover(op sim.Op) {
	w := p.w
	sub, subst := p.client(op.P), p.client(int(op.X))
	if sub == nil || subst == nil || sub == subst {
		w.Noop()
		return
	}
	msg := clienttypes.NewMsgRecoverClient(sim.Authority(), sub.ID, subst.ID)
	at := p.Now.Add(3*time.Second + p.A.GovVotingPeriod())
	subStat, substStat := p.modelStatus(sub, at), p.modelStatus(subst, at)
	p.preLatest = map[string]clienttypes.Height{}
	for _, c := range p.Cl {
		p.preLatest[c.ID] = c.latest
	}
	before := p.snap
	passed, why := p.gov(msg)
	p.checkRecovery(sub, subst, subStat, substStat, passed, why, before)
}

// gov runs a privileged message through the real gov module of chain A.
func (p *Clients) gov(msgs ...sdk.Msg) (bool, string) {
	a := p.A
	g := a.Accounts[sim.AccGov]
	if len(a.Mempool) > 0 {
		p.blockA()
	}
	one := func(m sdk.Msg) *sim.TxResult {
		a.Submit(&sim.TxSpec{Msgs: []sdk.Msg{m}, Signer: g, Label: "gov"})
		p.tick(time.Second)
		return p.blockA()[0]
	}
	r := one(a.MsgGovProposal("client recovery", msgs...))
	if !r.OK() {
		return false, "submit: " + firstLine(r.Log)
	}
	id, ok := sim.ProposalID(r)
	if !ok {
		return false, "no proposal id"
	}
	if r = one(a.MsgVoteYes(id)); !r.OK() {
		return false, "vote: " + firstLine(r.Log)
	}
	p.tick(a.GovVotingPeriod() + time.Second)
	p.govBlock = true
	p.blockA()
	p.govBlock = false
	st, why := a.ProposalStatus(id)
	return st.String() == "PROPOSAL_STATUS_PASSED", st.String() + ": " + why
}

// ---- generator ---------------------------------------------------------------------------------

func (p *Clients) Gen(w *sim.World) []sim.Op {
	o := p.Opt
	n := len(p.B.Vals.Validators)
	full := int64(1<<uint(n)) - 1
	randMask := func() int64 {
		// power fractions around 1/3 and 2/3 of n equal validators
		k := []int{0, n / 3, n/3 + 1, 2 * n / 3, 2*n/3 + 1, n}[w.Intn(6)]
		perm := w.Rng.Perm(n)
		var m int64
		for i := 0; i < k; i++ {
			m |= 1 << uint(perm[i])
		}
		return m
	}
	whats := []string{"app", "nv", "time+1000000000", "time+600000000000", "time-1000000000", "time-3600000000000", "same"}
	for try := 0; try < 8; try++ {
		ci := w.Intn(len(p.Cl))
		cs := p.Cl[ci]
		switch w.Pick(o.WUpd, o.WFork, o.WMisb, o.WMut, o.WBlock, o.WJump, o.WGate, o.WRecover, o.WRestart, o.WBBlock) {
		case 0:
			if p.B.Height < 3 {
				continue
			}
			h := int64(2 + w.Intn(int(p.B.Height-1)))
			if w.Chance(0.5) {
				h = p.B.Height
			}
			var t int64
			if w.Chance(0.25) { // explicit trusted height: any stored one
				hs := p.storedHeights(cs)
				if len(hs) > 0 {
					t = hs[w.Intn(len(hs))]
				}
			}
			return []sim.Op{{K: "cup", P: ci, M: h, N: t}}
		case 1:
			hs := p.storedHeights(cs)
			h := p.B.Height + int64(w.Intn(4))
			if len(hs) > 0 && w.Chance(0.45) {
				h = hs[w.Intn(len(hs))] // conflicting header for a stored height
				w.Stats.Probe("conflicting_header_for_stored_height_submitted")
			} else if p.B.Height > 3 && w.Chance(0.4) {
				h = int64(2 + w.Intn(int(p.B.Height-1))) // a past height between stored neighbours
			}
			m := randMask()
			if w.Chance(0.3) {
				m = full
			}
			return []sim.Op{{K: "cfk", P: ci, M: h, X: m, S: whats[w.Intn(len(whats))]}}
		case 2:
			if p.B.Height < 4 {
				continue
			}
			h1 := int64(3 + w.Intn(int(p.B.Height-2)))
			h2 := h1
			if w.Chance(0.3) {
				h2 = int64(3 + w.Intn(int(p.B.Height-2)))
			}
			m := randMask()
			if w.Chance(0.5) {
				m = full
			}
			return []sim.Op{{K: "cmb", P: ci, M: h1, N: h2, X: m, S: whats[w.Intn(len(whats))]}}
		case 3:
			if p.B.Height < 3 {
				continue
			}
			return []sim.Op{{K: "cmu", P: ci, M: p.B.Height - int64(w.Intn(2)), N: int64(w.Intn(4096))}}
		case 4:
			return []sim.Op{{K: "blk", C: 0, N: int64(w.Dur())}}
		case 5:
			// jump to just before / at / after the expiry of some client
			tp := cs.TM.TrustingPeriod
			lt := p.latestTime(cs)
			if lt.IsZero() {
				continue
			}
			if w.Chance(0.45) && p.modelStatus(cs, p.Now) == ibcexported.Active {
				// keep-alive walk: the client is updated at intervals shorter than its trusting period
				// while more than a trusting period passes in total, so that its oldest states expire
				// and get pruned while it stays Active
				var ops []sim.Op
				h := p.B.Height
				for k := 0; k < 3; k++ {
					step := time.Duration(float64(tp) * (0.35 + 0.1*float64(w.Intn(4))))
					ops = append(ops, sim.Op{K: "blk", C: 0, N: int64(step)}, sim.Op{K: "blk", C: 1, N: int64(time.Second)})
					h++
					ops = append(ops, sim.Op{K: "cup", P: ci, M: h})
				}
				w.Stats.Fault("clock.jump")
				return ops
			}
			target := lt.Add(tp).Add(time.Duration(w.Intn(5)-2) * time.Second)
			d := target.Sub(p.Now)
			if d <= 0 {
				d = time.Duration(w.Rng.Int63n(int64(tp)/2 + 1))
			}
			w.Stats.Fault("clock.jump")
			return []sim.Op{{K: "blk", C: 0, N: int64(d)}}
		case 6:
			kinds := []string{"update", "conninit", "chaninit", "sendv2", "sendv1", "recv"}
			return []sim.Op{{K: "cgt", S: kinds[w.Intn(len(kinds))]}}
		case 7:
			if w.Chance(0.65) {
				// targeted: a client that is not Active recovered by an Active one brought to B's tip
				at := p.Now.Add(3*time.Second + p.A.GovVotingPeriod())
				for si, s := range p.Cl {
					if p.modelStatus(s, at) == ibcexported.Active {
						continue
					}
					for xi, x := range p.Cl {
						if xi != si && p.modelStatus(x, at) == ibcexported.Active {
							return []sim.Op{{K: "blk", C: 1, N: int64(sim.DefaultBlockInterval)}, {K: "cup", P: xi, M: p.B.Height + 1}, {K: "crc", P: si, X: int64(xi)}}
						}
					}
				}
			}
			x := w.Intn(len(p.Cl))
			if x != ci {
				return []sim.Op{{K: "crc", P: ci, X: int64(x)}}
			}
		case 8:
			if len(p.A.Mempool) == 0 {
				return []sim.Op{{K: "restart"}}
			}
		case 9:
			return []sim.Op{{K: "blk", C: 1, N: int64(w.Dur() % (10 * time.Minute))}}
		}
	}
	return []sim.Op{{K: "blk", C: 1, N: int64(sim.DefaultBlockInterval)}}
}

func (p *Clients) storedHeights(cs *clState) []int64 {
	var hs []int64
	for k := range cs.hist {
		if hh, err := clienttypes.ParseHeight(k); err == nil {
			hs = append(hs, int64(hh.RevisionHeight))
		}
	}
	sort.Slice(hs, func(i, j int) bool { return hs[i] < hs[j] })
	return hs
}

func (p *Clients) latestTime(cs *clState) time.Time {
	bz, ok := cs.hist[cs.latest.String()]
	if !ok {
		return time.Time{}
	}
	var c ibctm.ConsensusState
	if err := unmarshalCons(p.A, bz, &c); err != nil {
		return time.Time{}
	}
	return c.Timestamp
}

func unmarshalCons(c *sim.Chain, bz []byte, out *ibctm.ConsensusState) error {
	cons, err := clienttypes.UnmarshalConsensusState(c.App.AppCodec(), bz)
	if err != nil {
		return err
	}
	tc, ok := cons.(*ibctm.ConsensusState)
	if !ok {
		return fmt.Errorf("not a tendermint consensus state")
	}
	*out = *tc
	return nil
}

func (p *Clients) Drain(w *sim.World) []sim.Op { return nil }

func (p *Clients) Finish(w *sim.World) {
	n := len(w.Log)
	if n > 30 {
		n = 30
	}
	if len(w.Viol) == 0 {
		w.Stats.Sample(map[string]any{"profile": "clients", "seed": w.Cfg.Seed, "first_events": w.Log[:n]})
	}
}

var _ = cmttypes.MaxChainIDLen
