package prof

import (
	"encoding/json"
	"math/rand"
	"sort"
	"strings"

	"verif/ibcsim/sim"
)

var components = map[string][]string{
	"real": {"testing/simapp.SimApp (baseapp, IAVL multistore on MemDB, ante chain with signature verification and RedundantRelayDecorator)",
		"ibc core 02-client 03-connection 04-channel v1+v2 05-port 23-commitment 24-host", "07-tendermint light client incl. light.Verify over real ed25519 commits",
		"09-localhost", "Merkle proofs via ABCI Query{Prove:true} of the real store", "ICS-20 v1/v2, packet-forward, rate-limiting, ICA, GMP, authz, gov, bank as wired in testing/simapp"},
	"stub": {"CometBFT consensus/p2p/mempool (simulator proposes blocks, orders a per-chain tx queue, signs headers)", "relayers, users, attackers (simulated actors)",
		"mock IBC applications (scripted through testing/mock function fields)", "wall clock (virtual, per-chain skew)"},
}

var registry = map[string]*sim.Check{}

func Lookup(prop string) *sim.Check { return registry[prop] }

func Props() []string {
	var out []string
	for k := range registry {
		if !strings.Contains(k, "@") {
			out = append(out, k)
		}
	}
	sort.Strings(out)
	return out
}

func register(ck *sim.Check) {
	if ck.Components == nil {
		ck.Components = components
	}
	if ck.Level == "" {
		ck.Level = "exploration"
	}
	registry[ck.Prop] = ck
}

func steps(tier string, quick, thorough int) int {
	if tier == "thorough" {
		return thorough
	}
	return quick
}

// coreCheck registers a property decided on the `core` profile. tune adjusts the generator
// options per world (swarm style: it receives a PRNG derived from the world seed).
func coreCheck(prop, rule string, nontriv []string, worldsQ, worldsT int, tune func(o *CoreOptions, r *rand.Rand, tier string), extra func(ck *sim.Check)) {
	ck := &sim.Check{
		Prop: prop, Rule: rule, NonTrivPrefixes: nontriv,
		Worlds: map[string]int{"quick": worldsQ, "thorough": worldsT},
		NewProfile: func(cfg sim.WorldConfig) sim.Profile {
			var o CoreOptions
			if err := json.Unmarshal(cfg.Extra, &o); err != nil {
				sim.Failf("core options: %v", err)
			}
			return NewCore(o)
		},
		MakeConfig: func(tier string, seed int64) sim.WorldConfig {
			r := rand.New(rand.NewSource(seed ^ 0x5eed))
			o := DefaultCoreOptions()
			tune(&o, r, tier)
			bz, _ := json.Marshal(o)
			return sim.WorldConfig{Profile: "core", Steps: steps(tier, 90, 220), Extra: bz}
		},
		Assumptions: []string{
			"seeded search over schedules: a clean batch is evidence, not proof (bounds: 2 chains, <=14..30 packets per world, proof heights from the heights the run produced)",
			"Cosmos SDK, CometBFT light verification, IAVL and ics23 are trusted as used by the real code",
			"the harness chain driver, ghost model and store census are trusted; they are exercised by the seeded-mutant sensitivity runs recorded in DESIGN.md",
		},
	}
	if extra != nil {
		extra(ck)
	}
	register(ck)
}

// subset draws a random non-empty subset of kinds that contains at least the `must` kinds.
func subset(r *rand.Rand, all []string, must ...string) []string {
	in := map[string]bool{}
	for _, m := range must {
		in[m] = true
	}
	for _, k := range all {
		if r.Intn(100) < 55 {
			in[k] = true
		}
	}
	var out []string
	for _, k := range all {
		if in[k] {
			out = append(out, k)
		}
	}
	if len(out) == 0 {
		out = []string{all[r.Intn(len(all))]}
	}
	return out
}

// hsCheck registers a property decided on the handshake profile.
func hsCheck(prop, rule string, nontriv []string, worldsQ, worldsT int, tune func(o *HSOptions, r *rand.Rand), extra func(ck *sim.Check)) {
	ck := &sim.Check{
		Prop: prop, Rule: rule, NonTrivPrefixes: nontriv,
		Worlds: map[string]int{"quick": worldsQ, "thorough": worldsT},
		NewProfile: func(cfg sim.WorldConfig) sim.Profile {
			var o HSOptions
			if err := json.Unmarshal(cfg.Extra, &o); err != nil {
				sim.Failf("handshake options: %v", err)
			}
			return NewHS(o)
		},
		MakeConfig: func(tier string, seed int64) sim.WorldConfig {
			r := rand.New(rand.NewSource(seed ^ 0x4853))
			o := DefaultHSOptions()
			if tune != nil {
				tune(&o, r)
			}
			bz, _ := json.Marshal(o)
			return sim.WorldConfig{Profile: "handshake", Steps: steps(tier, 110, 260), Extra: bz}
		},
		Assumptions: []string{
			"seeded sampling of handshake interleavings (two chains, two client pairs, <= 7..12 concurrent handshakes, proofs at heights the run produced); exhaustive enumeration of the two-party protocol would be model checking and is out of scope of this technique",
			"Cosmos SDK, CometBFT light verification, IAVL and ics23 are trusted as used by the real code",
		},
	}
	if extra != nil {
		extra(ck)
	}
	register(ck)
}

// clCheck registers a property decided on the clients profile.
func clCheck(prop, rule string, nontriv []string, worldsQ, worldsT int, tune func(o *CLOptions, r *rand.Rand), extra func(ck *sim.Check)) {
	ck := &sim.Check{
		Prop: prop, Rule: rule, NonTrivPrefixes: nontriv,
		Worlds: map[string]int{"quick": worldsQ, "thorough": worldsT},
		NewProfile: func(cfg sim.WorldConfig) sim.Profile {
			var o CLOptions
			if err := json.Unmarshal(cfg.Extra, &o); err != nil {
				sim.Failf("clients options: %v", err)
			}
			return NewClients(o)
		},
		MakeConfig: func(tier string, seed int64) sim.WorldConfig {
			r := rand.New(rand.NewSource(seed ^ 0x434c))
			o := DefaultCLOptions()
			o.NumVals = []int{4, 6, 7, 9, 10}[r.Intn(5)]
			if tune != nil {
				tune(&o, r)
			}
			bz, _ := json.Marshal(o)
			return sim.WorldConfig{Profile: "clients", Steps: steps(tier, 120, 300), Extra: bz}
		},
		Assumptions: []string{
			"the simulator holds the tracked chain's validator keys: any subset of equal-power validators (4-10) can sign any header; validator-set CHANGES are not simulated (constant set), so trusted-set vs own-set differences arise only through mutated headers",
			"hashing, sign-bytes and ed25519 verification of CometBFT are used as trusted primitives by the independent acceptance predicate; light.Verify itself is not called by the oracle",
			"seeded search: a clean batch is evidence within the stated bounds, not proof",
		},
	}
	if extra != nil {
		extra(ck)
	}
	register(ck)
}

var allKinds = []string{"v1u", "v1o", "v2a", "v2", "loc", "loco", "v1x", "v1h", "v1ho"}

// denomGrammar: native denominations of the token worlds. SDK denom alphabet, 1-4 '/'-separated
// segments, segments shaped like ports, channel ids, client ids, "ibc", hashes.
var denomGrammar = []string{"uatom", "a/b/foo", "gamm/pool/1", "transfer/channel-7/foo", "transfer/channel-0/bar", "factory/cosmos1abc/sub", "ibcx", "x/07-tendermint-0/y", "transfer/baz", "channel-0/qux", "qux/channel-1", "pool/07-tendermint-0"}

func tokenOptions(o *CoreOptions, r *rand.Rand) {
	o.Tokens = true
	o.Kinds = []string{"t2"}
	if r.Intn(3) == 0 {
		o.Kinds = []string{"none"}
	}
	o.Chains = 2 + r.Intn(2)
	o.Mesh = r.Intn(2) == 0
	if r.Intn(4) == 0 {
		o.ManyChans = true
		o.Chains = 2
	}
	n := 1 + r.Intn(3)
	perm := r.Perm(len(denomGrammar))
	for i := 0; i < n; i++ {
		o.Denoms = append(o.Denoms, denomGrammar[perm[i]])
	}
	o.WSend, o.WAsyncAck, o.WClose, o.WMut, o.WLocalVerify = 0, 0, 0, 0, 0
	o.WXfer = 30
	o.WRelay = 36
	o.WDup = 8
	o.WEarlyTmo = 5
	o.WDonate = 2
	o.WRestart = 1
	o.MaxPkts = 24
	o.TightTmo = 30
}

// genesisRestartTokens turns half of the token worlds into worlds whose chains are restarted
// through genesis export/import and keep running afterwards: no IBC v2 clients (their import is
// refused, C44 known finding) and no v2-over-alias traffic (its state is dropped, C44 known
// findings), so that everything the ICS-20 model relies on must survive the restart.
func genesisRestartTokens(o *CoreOptions, r *rand.Rand) {
	if r.Intn(2) != 0 {
		return
	}
	o.Kinds = []string{"none"}
	o.NoAlias = true
	o.WGenesis = 4
}

func init() {
	coreCheck("C01",
		"worlds of 2 real chains with mock apps on v1 unordered/ordered channels, v2 clients, v2-over-alias and localhost loopback; seeded relayers duplicate, replay, reorder and race every relay message with proofs at any height the run produced. Oracle: committed receive callbacks per (destination id, sequence) <= 1; a block made only of receives of already-received packets has an empty store diff. Non-trivial case = distinct (route kind, message kind, outcome, lifecycle state) of a committed redundant relay",
		[]string{"redundant:"}, 96, 1600,
		func(o *CoreOptions, r *rand.Rand, tier string) {
			o.Kinds = subset(r, allKinds)
			o.WDup = 18 + r.Intn(12)
			o.WEarlyTmo = 4
		},
		func(ck *sim.Check) {
			ck.RequiredFaults = []string{"relay.dup", "relay.replay", "relay.stale_proof"}
			ck.RequiredProbes = []string{"redundant_recv_noop", "block_of_only_redundant_relays"}
		})

	coreCheck("C02",
		"worlds with ORDERED mock channels (tendermint-backed and localhost); relayers deliver later packets first, duplicate, replay and relay acknowledgements out of order. Oracle: committed receive callbacks per ordered channel end are exactly 1,2,3,...; acknowledgement callbacks on the sender likewise. Non-trivial case = distinct (route kind, outcome, gap) of a committed out-of-order receive/ack attempt",
		[]string{"ooo:", "ooo-ack:"}, 96, 1600,
		func(o *CoreOptions, r *rand.Rand, tier string) {
			o.Kinds = subset(r, []string{"v1o", "loco", "v1u"}, "v1o")
			o.WDup, o.WRelay, o.WSend = 14, 40, 26
			o.FrontBias = 25
			o.TightTmo = 10
			o.WClose = 0
			o.MaxPkts = 18
			if r.Intn(2) == 0 {
				// ordered channels only, then also hard restarts through genesis export/import
				// (nothing aliased, so the restart is expected to preserve everything)
				o.Kinds = []string{"v1o", "loco"}
				o.WGenesis, o.WRestart = 3, 2
			}
		},
		func(ck *sim.Check) {
			ck.RequiredProbes = []string{"ordered_out_of_order_receive_refused", "ordered_out_of_order_ack_refused"}
		})

	coreCheck("C03",
		"worlds over every route kind where acknowledgement, timeout and timeout-on-close relays are duplicated, replayed and raced against each other and against the receive. Oracle: per sent packet #ack callbacks + #timeout callbacks <= 1; the commitment is gone after the terminal message and never comes back; a block made only of terminal relays for finished packets has an empty store diff. Non-trivial case = distinct (route kind, message, outcome, prior terminal state) of a committed redundant terminal relay",
		[]string{"redundant:"}, 96, 1600,
		func(o *CoreOptions, r *rand.Rand, tier string) {
			o.Kinds = subset(r, allKinds)
			o.WDup, o.WEarlyTmo = 16+r.Intn(10), 12
			o.TightTmo = 55
			o.WClose = 3
		},
		func(ck *sim.Check) {
			ck.RequiredFaults = []string{"relay.race", "relay.replay"}
			ck.RequiredProbes = []string{"redundant_tmo_noop", "redundant_ack_noop"}
		})

	coreCheck("C04",
		"worlds with tight timeouts (height, time, both; v2 seconds) near the destination's next blocks, clock skew and jumps, stalls; relayers submit timeouts early, at stale and future proof heights, race receive against timeout. Oracle against the destination's REAL history: an accepted timeout's proof height is a height the destination produced, the destination had not received the packet in the state proven, the header at that height had reached the timeout (v2: whole seconds of nanosecond time); localhost: the executing block had reached the timeout; every receive happens strictly before the timeout; nothing is both received and timed out. Non-trivial case = distinct (route kind, message, received?) of an accepted timeout plus distinct refused early timeouts",
		[]string{"timeout:", "early-refused:"}, 96, 1600,
		func(o *CoreOptions, r *rand.Rand, tier string) {
			o.Kinds = subset(r, allKinds)
			o.TightTmo = 80
			o.WEarlyTmo = 16
			o.WBlock = 26
			o.WDup = 6
		},
		func(ck *sim.Check) {
			ck.RequiredFaults = []string{"relay.early_timeout", "relay.race"}
			ck.RequiredProbes = []string{"timeout_refused", "tmo_success", "localhost_timeout_with_future_proof_height"}
		})

	coreCheck("C05",
		"for valid pending receive messages (v1 ordered/unordered, v2, alias, localhost) a malicious relayer mutates one or two fields chosen by reflection over the whole message (packet data, timeouts, sequence, source/destination identifiers, payload fields and list structure, proof bytes at several offsets, proof height, signer) and delivers it alone in a block, at every packet/channel/client state the run reaches (fresh, received, acked, timed out, closed channel, expired client); honest receives are checked against ground truth: the source really stores the commitment of exactly these fields at the proven version, and the destination's (height,time) is before the timeout. Oracle: a mutated message never succeeds, never reaches the application and leaves an empty store diff. Non-trivial case = distinct (route kind, mutated field path, mutation, packet state, outcome)",
		[]string{"mut:"}, 96, 1600,
		func(o *CoreOptions, r *rand.Rand, tier string) {
			o.Kinds = subset(r, allKinds)
			o.WMut = 40
			o.WDup, o.WEarlyTmo = 5, 4
			o.WClose = 2
			if r.Intn(3) == 0 {
				o.TrustingSecs = 3 * 3600
			}
		},
		func(ck *sim.Check) {
			ck.Level = "fault_enumeration"
			ck.RequiredFaults = []string{"relay.mutate"}
			ck.RequiredProbes = []string{"mutated_message_failed"}
		})

	coreCheck("C06",
		"as C05 for acknowledgement messages (v1 ack bytes; v2 list of app acknowledgements incl. order and length; packet fields; sequence; proof; proof height), plus acknowledgements forged for packets the destination never acknowledged; honest acks are checked against ground truth: the destination really stores the commitment of exactly this acknowledgement at the proven version, and the bytes handed to the sending application equal what the destination application produced. Non-trivial case = distinct (route kind, mutated field path, mutation, packet state, outcome)",
		[]string{"mut:"}, 96, 1600,
		func(o *CoreOptions, r *rand.Rand, tier string) {
			o.Kinds = subset(r, allKinds)
			o.WMut = 40
			o.WDup, o.WEarlyTmo = 5, 2
			o.TightTmo = 10
			o.Payloads = 2
			o.Behaviours = []string{"ok", "ok", "fail", "w1ok", "blob", "blob"}
		},
		func(ck *sim.Check) {
			ck.Level = "fault_enumeration"
			ck.RequiredFaults = []string{"relay.mutate"}
			ck.RequiredProbes = []string{"mutated_message_failed"}
		})

	coreCheck("C08",
		"worlds interleaving v1 sends, v2 sends on the alias of the same channel and v2 sends on plain clients (several users, same block), with timeouts around every guard boundary (already passed on the client, == block time, +-1 s, now+24h, +24h+1s) and clients that expire between sends. Oracle: successful sends on one source id return 1,2,3,... (counter shared by v1 and alias); exactly one new commitment key per successful send; the specification's guard predicate evaluated on the real pre-state agrees with accept/refuse. Non-trivial case = distinct (route kind, refusal reason)",
		[]string{"send-refused:"}, 96, 1600,
		func(o *CoreOptions, r *rand.Rand, tier string) {
			o.Kinds = subset(r, []string{"v1u", "v2a", "v2", "v1o", "loc"}, "v1u", "v2a")
			o.WSend = 45
			o.MaxPkts = 40
			o.WBlock = 22
			o.WClose = 3
			o.GuardBoundary = 25
			o.WReReg = 3
			o.WSkew = 6
		},
		func(ck *sim.Check) {
			ck.RequiredProbes = []string{"send_ok_v1u", "send_ok_v2a", "send_refused", "v2_send_guard_boundary_value"}
		})

	coreCheck("C09",
		"receives whose application script writes k in 0..3 state entries and then succeeds, fails, goes async or panics, on every mock route kind. Oracle on the store diff of the receiving transaction: error ack => no application write persists and the IBC store gains exactly {receipt or receive counter, ack commitment}; success/async => all k writes persist; panic => whole transaction reverted and the packet still receivable; stored ack commitment = commitment of the announced ack. Non-trivial case = distinct (route kind, script, outcome)",
		[]string{"recv-effects:"}, 96, 1600,
		func(o *CoreOptions, r *rand.Rand, tier string) {
			o.Kinds = subset(r, allKinds)
			o.Behaviours = []string{"ok", "fail", "async", "panic", "w1ok", "w2ok", "w3ok", "w1fail", "w2fail", "w3fail", "w2async", "w2panic", "sfail", "w2sfail", "blob", "w1blob"}
			o.WDup, o.WEarlyTmo, o.TightTmo = 4, 2, 10
		},
		func(ck *sim.Check) {
			ck.Level = "fault_enumeration"
			ck.RequiredProbes = []string{"recv_exact_write_set_checked"}
		})

	coreCheck("C10",
		"IBC v2 packets with 1..3 payloads over two mock v2 applications (plain clients and alias); each payload's script independently succeeds, fails, goes async, writes state then fails, or returns the error sentinel as a success. Oracle: all succeed => every write persists and the ack lists one app ack per payload in payload order; any failure => no application write persists and the ack is exactly the single universal error ack; async with >1 payload or sentinel-in-success => the whole transaction fails and the packet stays receivable; the sender's ack callback gets each payload its own ack. Non-trivial case = distinct (route kind, status vector, outcome)",
		[]string{"recv-effects:", "txfail:"}, 96, 1600,
		func(o *CoreOptions, r *rand.Rand, tier string) {
			o.Kinds = subset(r, []string{"v2", "v2a"})
			o.Payloads = 3
			o.Behaviours = []string{"ok", "w1ok", "w2ok", "fail", "w2fail", "async", "sentinel", "ok", "w1ok"}
			o.WDup, o.WEarlyTmo, o.TightTmo = 4, 2, 5
			o.WSend = 30
		},
		func(ck *sim.Check) {
			ck.Level = "fault_enumeration"
		})

	coreCheck("C11",
		"worlds where applications receive asynchronously and later write acknowledgements — repeatedly, prematurely (before the receive), for never-received sequences and long after a synchronous ack — interleaved with relays. Oracle: the stored ack commitment per (destination id, sequence) goes absent* value* (never changes once set); a second write is refused; v2 refuses a write without receipt; the v2 async-packet record exists exactly from the async receive until the ack write. Non-trivial case = distinct (protocol, packet state, write outcome, repetition)",
		[]string{"wack:"}, 96, 1600,
		func(o *CoreOptions, r *rand.Rand, tier string) {
			o.Kinds = subset(r, allKinds)
			o.Behaviours = []string{"async", "async", "ok", "fail", "w1async"}
			o.WAsyncAck = 18
			o.WDup = 8
			o.TightTmo = 10
		},
		func(ck *sim.Check) {
			ck.RequiredProbes = []string{"async_ack_written", "async_ack_write_refused", "async_ack_repeated_write_attempt", "async_ack_premature_write_attempt"}
		})

	coreCheck("C19",
		"worlds whose connection has a delay period and whose chains have a MaxExpectedTimePerBlock parameter drawn from {(10s,30s),(35s,7s),(61s,30s),(45s,45s),(2^53+1 ns, 2^53 ns)}; the relayer updates the client and then submits receive/ack/timeout exactly at processed-time + delay -1ns/+0/+1ns and processed-height + ceil(delay/perBlock) -1/+0/+1 blocks (simulated time makes a 104-day delay cost microseconds). Oracle: exact integer model over the processed time/height read from the client's stored metadata: accepted => both delays passed; refused with the delay error => not both passed. Non-trivial case = distinct (delay, perBlock, side of the time boundary, side of the height boundary, outcome)",
		[]string{"delay:"}, 96, 1200,
		func(o *CoreOptions, r *rand.Rand, tier string) {
			o.Kinds = subset(r, []string{"v1u", "v1o"})
			type dm struct{ d, m uint64 }
			sets := []dm{{10e9, 30e9}, {35e9, 7e9}, {61e9, 30e9}, {45e9, 45e9}, {1<<53 + 1, 1 << 53},
				// delays near 2^64 ns: processed time + delay and processed height + block delay do not fit 64 bits
				{1<<64 - 1, 1 << 63}, {1<<64 - 1, 1}, {1<<64 - 25e9, 30e9}}
			s := sets[r.Intn(len(sets))]
			o.Delay, o.MEPT = s.d, s.m
			o.WDelayProbe = 30
			o.WDup, o.WEarlyTmo, o.WClose, o.WRestart = 3, 2, 0, 0
			o.TightTmo = 0
			o.FarTimeouts = true
			o.TrustingSecs = 400 * 86400
			o.UnbondSecs = 500 * 86400
			o.Behaviours = []string{"ok", "ok", "fail"}
		},
		func(ck *sim.Check) {
			ck.RequiredProbes = []string{"delay_boundary_probe", "refused_for_delay_period", "accepted_after_delay_period"}
			ck.Assumptions = append(ck.Assumptions, "MaxExpectedTimePerBlock == 0 is not reachable on a running chain (parameter validation refuses it), so the 'zero when the parameter is zero' clause is not exercised", "the all-64-bit-pairs clause is sampled at the listed pairs only, including one pair beyond 2^53 where float64 arithmetic is inexact")
		})

	coreCheck("C27",
		"worlds with localhost loopback channels (ordered and unordered) carrying real packet traffic end to end, plus tendermint routes that keep changing the IBC store; at seeded points the run calls VerifyMembership / VerifyNonMembership for client 09-localhost through the client router on a throw-away branch of the latest state with keys sampled from the store census (present), perturbed or truncated keys, wrong and extended values and wrong proofs, and compares each verdict with the census; client operations addressed to 09-localhost (create, update, upgrade, recover as subject and as substitute) must be refused without state change. Non-trivial case = distinct (input shape, membership verdict, non-membership verdict) and refused operation kinds",
		[]string{"lhv:", "lhop:"}, 96, 1200,
		func(o *CoreOptions, r *rand.Rand, tier string) {
			o.Kinds = subset(r, allKinds, "loc")
			o.WLocalVerify = 14
		},
		func(ck *sim.Check) {
			ck.RequiredProbes = []string{"localhost_verify_compared_with_store", "localhost_client_operation_refused", "send_ok_loc"}
		})

	tokAssume := func(ck *sim.Check) {
		ck.Assumptions = append(ck.Assumptions,
			"the ICS-20 reference model is specification-level: source/sink decided by string prefix of the denomination in the packet, voucher = ibc/ + upper-hex SHA-256 of the full path, registry of voucher paths built from the model's own mints (never from the keeper's denom store)",
			"token worlds do not close channels or expire clients, so after faults stop every transfer must terminate when an honest relayer keeps relaying")
	}
	coreCheck("C30",
		"2-3 real chains linked in a line or mesh by ICS-20 channels (v1, v2-over-alias on the same channel, v2 on plain clients) with the real rate-limit -> packet-forward -> transfer stack; users move native coins (incl. '/'-segmented names from a grammar) and vouchers over multiple hops and back; relayers drop, delay, duplicate, replay, reorder and race relays; receivers may be invalid or blocked (error acks), timeouts tight. After every block on every chain: (1) the real change of every bank balance and supply equals the sum of the ICS-20 model's predictions for the committed transactions; (2) for every channel end and escrowed denomination: escrow (net of donations) = voucher supply on the peer + amounts in flight in either direction; (3) native supplies never change. Non-trivial case = distinct (route kind, alias?, burn?, denomination shape) sends, mints by hop count, returns, refunds by cause",
		[]string{"xfer:", "mint:", "return:", "refund:"}, 96, 1400,
		func(o *CoreOptions, r *rand.Rand, tier string) { tokenOptions(o, r) },
		func(ck *sim.Check) {
			tokAssume(ck)
			ck.RequiredProbes = []string{"channel_equations_checked", "transfer_minted", "transfer_unwound", "transfer_refunded_tmo", "transfer_refunded_error-ack"}
			ck.RequiredFaults = []string{"relay.dup", "relay.replay"}
		})
	coreCheck("C31",
		"same token worlds plus direct donations to escrow accounts; after every block the queried total-escrow-for-denom equals the model's ledger of IBC escrows minus releases (refunds, unwinding receives) per denomination, is never negative and never exceeds the combined balance of the transfer escrow accounts. Non-trivial case = distinct escrow/release/donation shapes",
		[]string{"xfer:", "return:", "refund:", "donate:"}, 96, 1400,
		func(o *CoreOptions, r *rand.Rand, tier string) {
			if r.Intn(4) == 0 {
				// packet-forward worlds: the refund moves of failed forwards count too
				forwardOptions(o, r)
				o.WDonate = 4
				return
			}
			tokenOptions(o, r)
			o.WDonate = 8
			genesisRestartTokens(o, r)
		},
		func(ck *sim.Check) {
			tokAssume(ck)
			ck.RequiredProbes = []string{"donation_to_escrow_account", "transfer_unwound", "transfer_refunded_tmo"}
		})
	coreCheck("C32",
		"token worlds biased to failing transfers: invalid and blocked receivers (error acks), tight height and time timeouts, racing timeout vs receive, native / voucher / '/'-named denominations, v1 / alias / v2. Per committed refund transaction the real bank diff must be exactly: original sender + amount of the ORIGINAL bank denomination, escrow - amount (or supply + amount when the send burned); a successful ack changes nothing; after faults stop and an honest relayer has drained, every failed transfer has been refunded (a refund that can never be accepted is a violation). Non-trivial case = distinct (route kind, cause, burn?, denomination shape) refunds",
		[]string{"refund:"}, 96, 1400,
		func(o *CoreOptions, r *rand.Rand, tier string) { tokenOptions(o, r); o.TightTmo = 60; o.WEarlyTmo = 10 },
		func(ck *sim.Check) {
			tokAssume(ck)
			ck.RequiredProbes = []string{"transfer_refunded_tmo", "transfer_refunded_error-ack"}
		})
	coreCheck("C33",
		"token worlds biased to round trips: every voucher a user holds tends to be sent back over the channel it came from (also after onward hops), for native denominations drawn from the '/'-segment grammar. Oracle: a returning voucher must be accepted (valid receiver) and the origin must release exactly the original native denomination from that channel's escrow to the receiver (bank diff vs model); after the drain no return is stuck. Non-trivial case = distinct (route kind, released denomination shape)",
		[]string{"return:"}, 240, 2400,
		func(o *CoreOptions, r *rand.Rand, tier string) {
			tokenOptions(o, r)
			o.TightTmo = 10
			o.WEarlyTmo = 2
			genesisRestartTokens(o, r)
		},
		func(ck *sim.Check) {
			tokAssume(ck)
			ck.RequiredProbes = []string{"transfer_unwound"}
		})
	coreCheck("C36",
		"token worlds where users grant ICS-20 transfer authorizations (1-2 channel allocations, 1-2 denomination limits incl. unbounded, optional receiver allow lists, memo lists none / * / explicit) and grantees execute transfers through authz MsgExec around every boundary: exactly the remaining limit, one above, one below, the entire-balance sentinel, receivers on and off the list, allowed and other memos, channels without allocation — interleaved with ordinary traffic, relays and failing transactions. Oracle: an accepted exec must be allowed by the model (grant ledger: granted minus accepted per channel and denomination); after every block the stored remaining limits equal the model, exhausted allocations and grants are gone, a refused exec leaves the grant unchanged. Non-trivial case = distinct (accepted/refused, model verdict and reason)",
		[]string{"gexec:", "grant:"}, 192, 1600,
		func(o *CoreOptions, r *rand.Rand, tier string) {
			tokenOptions(o, r)
			o.WGrant = 26
			o.WXfer = 14
			o.TightTmo = 10
			o.MaxPkts = 26
		},
		func(ck *sim.Check) {
			tokAssume(ck)
			ck.RequiredProbes = []string{"transfer_grant_created", "grant_exec_accepted", "grant_exec_refused", "grants_compared_with_model", "grant_allocation_exhausted"}
		})
	coreCheck("C41",
		"token worlds where governance (real gov module: proposal, vote, voting period) adds, updates, resets and removes rate limits with quotas of 0-2 % on (denomination, channel) paths, preferring vouchers whose small supply makes quotas bind; transfers flow both ways with success and error acknowledgements, timeouts, duplicates and replays; the clock jumps across hour boundaries (begin-block window resets are isolated in empty blocks and accepted only when they are full resets). After every block the stored inflow / outflow / channel value of every rate limit must equal the reference model (amounts accepted in the current window minus those undone in it, each packet undone at most once, error-ack receives leave flows unchanged), and accept/refuse must agree with the quota. Non-trivial case = distinct administration outcomes, quota refusals by direction, observed window resets",
		[]string{"rladm:", "rl-send-refused:", "rl-recv-refused:", "rl-reset:"}, 240, 2400,
		func(o *CoreOptions, r *rand.Rand, tier string) {
			tokenOptions(o, r)
			o.RateLimit, o.TightQuota = true, true
			o.WRateAdm = 8
			o.GovSecs = 40
			o.MaxPkts = 30
		},
		func(ck *sim.Check) {
			tokAssume(ck)
			ck.RequiredProbes = []string{"rate_limit_state_compared", "rate_limited_send_charged", "rate_limited_receive_charged", "rate_limited_send_undone", "send_refused_for_quota"}
			ck.Assumptions = append(ck.Assumptions, "when the hourly epoch logic fires is observed, not predicted: the property fixes the accounting between resets")
		})
	coreCheck("C42",
		"token worlds where every denomination in play (natives, '/'-named natives, vouchers of every hop count, unwinding paths) gets a generous (100 %) rate limit on the channels it moves over, so that every movement is charged; per committed transfer the (denomination, channel) whose recorded flow moved must be the (denomination, channel) of the bank movement the ICS-20 model predicts (escrow/burn on send, mint/unescrow on receive), by the same amount, v1 / alias / v2. Non-trivial case = distinct (route kind, denomination shape) charged sends and receives",
		[]string{"rladm:", "xfer:", "mint:", "return:"}, 96, 1200,
		func(o *CoreOptions, r *rand.Rand, tier string) {
			tokenOptions(o, r)
			o.RateLimit = true
			o.WRateAdm = 10
			o.GovSecs = 40
		},
		func(ck *sim.Check) {
			tokAssume(ck)
			ck.RequiredProbes = []string{"rate_limit_state_compared", "rate_limited_send_charged", "rate_limited_receive_charged"}
		})
	coreCheck("C49",
		"token worlds with attackers: v2 MsgSendPacket whose transfer payload names another account as sender, MsgTransfer signed by one account naming another, relays submitted by arbitrary accounts. Per block: every non-module account whose balance decreased signed (or authorised) a transaction of that block; credits from receive/ack/timeout go only to the packet's receiver or refund its original sender (bank diff vs model), whoever relays. Non-trivial case = distinct attack shapes and refund/credit shapes",
		[]string{"attack:", "refund:", "mint:", "return:"}, 96, 1400,
		func(o *CoreOptions, r *rand.Rand, tier string) { tokenOptions(o, r); o.WAttack = 10; o.Kinds = []string{"t2"} },
		func(ck *sim.Check) {
			tokAssume(ck)
			ck.RequiredProbes = []string{"attack_refused"}
		})

	hsCheck("C12",
		"two real chains; several relayers submit channel handshake and closing messages (INIT, TRY, ACK, CONFIRM, CLOSE-INIT, CLOSE-CONFIRM) for up to 7 concurrent handshakes in any order, repeated, with proofs at the newest or stale heights, and an attacker mutates identifiers (incl. 20-digit and leading-zero sequences), orderings, versions, connection hops and ports. Oracles: (a) after every block each decoded channel end moved only INIT->OPEN, TRYOPEN->OPEN or *->CLOSED, CLOSED never changes, ordering/hops/counterparty port never change; (b) every accepted TRY/ACK/CONFIRM/CLOSE-CONFIRM is justified by the counterparty's REAL channel end at the proven state version (state, ordering, mirrored identifiers, hops, version); (c) two OPEN ends agree on ordering, version and each other's ids; (d) v2 alias bookkeeping of UNORDERED channels appears exactly at OPEN. Non-trivial case = distinct accepted handshake steps and distinct refusal reasons",
		[]string{"chan-", "hs-refused:h"}, 96, 1400, nil,
		func(ck *sim.Check) {
			ck.RequiredProbes = []string{"hs_htry_accepted", "hs_hack_accepted", "hs_hconf_accepted", "hs_htry_refused", "hs_hack_refused", "both_ends_open_agreement_checked"}
			ck.RequiredFaults = []string{"relay.mutate", "relay.reorder", "relay.stale_proof"}
		})
	hsCheck("C13",
		"as C12 for connection handshakes, with proposed version lists drawn from a grammar (known/unknown identifiers, feature subsets, duplicate features, empty feature sets, unknown features, several versions, empty list), delay periods, handshakes over the localhost client, and channel opens on connections whose negotiated feature set lacks the requested ordering. Oracles: (a) connection ends move only INIT->OPEN / TRYOPEN->OPEN and never leave OPEN; client pair and delay never change; (b) every accepted TRY/ACK/CONFIRM is justified by the counterparty's REAL connection end at the proven version (state, client pair, delay, versions); (c) the version stored at TRY is the specification's pick computed independently (single version, supported identifier, feature intersection); (d) nothing over the localhost client is accepted; (e) an accepted channel open runs on a connection with exactly one version supporting its ordering. Non-trivial case = distinct (version-list shape) accepted steps and distinct refusal reasons",
		[]string{"conn-", "hs-refused:c"}, 96, 1400,
		func(o *HSOptions, r *rand.Rand) { o.WLocal = 4 },
		func(ck *sim.Check) {
			ck.RequiredProbes = []string{"hs_ctry_accepted", "hs_cack_accepted", "hs_cconf_accepted", "hs_ctry_refused", "hs_cinit_refused"}
			ck.RequiredFaults = []string{"relay.mutate", "relay.reorder"}
		})
	hsCheck("C15",
		"long histories of client, connection and channel creation on two chains — including failed creation attempts (invalid client parameters, refused handshake steps), duplicate TRYs that create additional ends, and chain restarts from the durable DB — collecting every identifier the chains hand out. Oracle: no identifier is handed out twice on a chain, each passes the host validators, Parse(Format(id)) returns the same type and sequence; messages addressed to identifiers with 20-digit, leading-zero, upper-case or extended sequences are never accepted as an existing object (they end refused: probes). Non-trivial case = distinct (kind, sequence) identifiers generated",
		[]string{"id:"}, 96, 1400,
		func(o *HSOptions, r *rand.Rand) { o.WInit, o.WLocal, o.WRestart, o.MaxObjs = 24, 8, 3, 12 },
		func(ck *sim.Check) {
			ck.RequiredProbes = []string{"failed_create_client_attempt"}
			ck.RequiredFaults = []string{"chain.restart"}
			ck.Assumptions = append(ck.Assumptions, "the all-strings clause of the property (every client-type string, every 64-bit sequence) is an input property; only identifiers a run can produce, plus the listed edge-shaped mutations, are covered")
		})

	clCheck("C20",
		"chain A hosts three tendermint clients (trusting periods 6 h, 40 h, 14 d) of chain B whose 4-10 validator keys the simulator owns; headers are submitted in any order (below latest, duplicates, gap filling, explicit older trusted heights), conflicting headers for stored heights are signed by full and partial power, misbehaviour pairs are submitted, the clock jumps across trusting periods so that old states expire and get pruned. Oracle on the client-store census after every block: per (client, height) the stored bytes go absent* value* absent*, a removal only when the state had expired at that block; an accepted different header for a stored height leaves the value and freezes the client. Non-trivial case = distinct (message kind, accepted/refused, model verdict)",
		[]string{"hdr:"}, 96, 1400, nil,
		func(ck *sim.Check) {
			ck.RequiredProbes = []string{"conflicting_header_for_stored_height_submitted", "consensus_state_pruned", "duplicate_header_resubmitted"}
		})
	clCheck("C21",
		"same worlds; after every block the status query of every client must equal the property's definition evaluated on the raw stored state (frozen flag; latest consensus state missing or older than the trusting period at that block's time; else Active) — with clock jumps aimed at expiry -2 s .. +2 s — and the latest height never decreases; at seeded points every consumer of the client (update, v1 send, v2 send, connection init, channel init on its connection, packet receive proven at a stored height) is attempted: none may succeed unless the model status is Active. Non-trivial case = distinct (consumer, status, outcome) and status transitions",
		[]string{"gate:", "status:"}, 96, 1400,
		func(o *CLOptions, r *rand.Rand) { o.WGate, o.WJump, o.WFork = 22, 12, 8 },
		func(ck *sim.Check) {
			ck.RequiredProbes = []string{"consumer_attempt_Active", "consumer_attempt_Expired", "consumer_attempt_Frozen"}
		})
	clCheck("C22",
		"same worlds; after every block the census of every client namespace must show exactly one processed-time, processed-height and ordered-iteration entry per consensus state and none without one; ascending iteration through the real iterator equals the sorted stored heights; next/previous lookups at every stored height and at height+1 return the true neighbours; a block removes at most one state, the oldest, only if expired. Non-trivial case = distinct (message kind, outcome) histories incl. prunes",
		[]string{"hdr:"}, 96, 1400,
		func(o *CLOptions, r *rand.Rand) { o.WUpd, o.WJump = 44, 10 },
		func(ck *sim.Check) {
			ck.RequiredProbes = []string{"client_metadata_census_checked", "consensus_state_pruned"}
		})
	clCheck("C23",
		"same worlds with validators signing headers for heights between stored neighbours with times shifted by +-1 s, +10 min, -1 h (full power so that they verify); invariant after every block: stored timestamps strictly increase with height; an accepted header that would break this freezes the client and is not stored. Non-trivial case = distinct (message kind, outcome, model verdict)",
		[]string{"hdr:"}, 192, 1600,
		func(o *CLOptions, r *rand.Rand) { o.WFork, o.WUpd = 30, 26 },
		func(ck *sim.Check) {
			ck.RequiredProbes = []string{"update_froze_client_on_time_violation"}
		})
	clCheck("C24",
		"same worlds; every submitted header / misbehaviour is first judged by an independent acceptance predicate (trusted validators hash to the stored next-validators hash; same revision; strictly above the trusted height; trusted state within the trusting period; time after trusted time and within clock drift; validator set hashes to the header's hash; commit is for this header; valid signatures of > 2/3 of its own set and >= trust level of the trusted set, counted by verifying each ed25519 signature) over: honest headers, forks signed by 0, n/3, n/3+1, 2n/3, 2n/3+1, n of n validators, altered times, future heights, and honest headers with one field mutated by reflection over the whole header (signed fields, commit signatures, validator sets, trusted height/validators, revision). Accepted => predicate true; accepted misbehaviour => both headers pass the misbehaviour checks, the pair is misbehaviour, and the client is frozen. Non-trivial case = distinct mutated field paths and distinct (kind, outcome, verdict)",
		[]string{"hdr:", "hdr-mut:"}, 96, 1400,
		func(o *CLOptions, r *rand.Rand) { o.WMut, o.WFork, o.WMisb = 26, 22, 10 },
		func(ck *sim.Check) {
			ck.Level = "fault_enumeration"
			ck.RequiredFaults = []string{"relay.mutate", "val.equivocate"}
			ck.RequiredProbes = []string{"client_message_cfk_refused", "client_message_cmu_refused", "client_message_cup_accepted", "client_frozen_by_misbehaviour"}
		})
	clCheck("C25",
		"same worlds; MsgRecoverClient for every ordered pair of the three clients (statuses Active / Expired / Frozen reached through clock jumps and misbehaviour; equal and different parameters; higher and lower heights) is run through the REAL gov module (proposal, vote, voting period). Model: succeeds only if the subject is not Active, the substitute is Active, strictly higher, same parameters; afterwards the subject is unfrozen and holds the substitute's latest height and consensus state; no other client namespace changes over the whole governance sequence. Non-trivial case = distinct (subject status, substitute status, passed, model verdict)",
		[]string{"recover:"}, 96, 1200,
		func(o *CLOptions, r *rand.Rand) { o.WRecover, o.WJump, o.WMisb = 14, 12, 10 },
		func(ck *sim.Check) {
			ck.RequiredProbes = []string{"recovery_passed_true", "recovery_passed_false", "recovery_post_state_checked"}
			ck.Assumptions = append(ck.Assumptions, "the upgrade half of the property (MsgUpgradeClient with proofs under the committed upgrade path) is not exercised by this check: scheduling a real chain upgrade and continuing in a new revision is not built; only recovery is decided")
		})
	clCheck("C16",
		"client operations (create, update by honest / forged / mutated headers, misbehaviour, recovery through gov) on three clients of one chain, next to a connection, a channel and v2 counterparty state; for every single-transaction block the store diff of an accepted client message must lie inside clients/<target>/, a refused one must change nothing there, and a recovery must change no namespace but the subject's. Non-trivial case = distinct (message kind, outcome, model verdict)",
		[]string{"hdr:", "recover:"}, 96, 1200,
		func(o *CLOptions, r *rand.Rand) { o.WRecover = 8 },
		func(ck *sim.Check) {
			ck.RequiredProbes = []string{"client_operation_confinement_checked"}
			ck.Assumptions = append(ck.Assumptions, "the key-space collision-freedom half of the property over the whole identifier alphabet is an input property and is not claimed; this check decides the 'client operations stay in their namespace' half on the keys real histories produce")
		})

	coreCheck("C44",
		"core and token worlds (handshaken v1 ordered/unordered channels, v2 clients, v2-over-alias traffic, localhost channels, ICS-20 transfers with vouchers, rate limits, async packets, packets in every lifecycle state) in which, at seeded points, a chain is hard-restarted through genesis export/import: ModuleManager.ExportGenesis on the latest state, a FRESH application started from that export with InitialHeight = height+1, then the world continues (in-flight packets are received, acknowledged and timed out by the relayers, all other oracles armed). Oracle: (a) the complete content of the ibc, transfer, ratelimiting, packetforward, icacontroller, icahost and gmp stores after the import equals the content before the export, key by key; (b) re-exporting the restarted chain gives the same genesis sections. Non-trivial case = distinct (packets so far, store size) at the export point",
		[]string{"gexp:"}, 96, 1000,
		func(o *CoreOptions, r *rand.Rand, tier string) {
			if r.Intn(2) == 0 {
				tokenOptions(o, r)
				o.RateLimit = r.Intn(2) == 0
				if o.RateLimit {
					o.WRateAdm, o.GovSecs = 6, 40
				}
				if r.Intn(2) == 0 {
					o.Kinds = append(o.Kinds, "v1u", "v2a", "v2")
					o.WSend = 14
				}
			} else if r.Intn(2) == 0 {
				o.Kinds = subset(r, allKinds)
			} else {
				// no aliased channel and distinct client ids: the restart is expected to preserve
				// everything, so the world really continues on the restarted chain
				o.Kinds = []string{"v1o", "v2", "loco"}
				o.SkewIDs = true
				o.Behaviours = []string{"ok", "ok", "fail", "async", "w1ok"}
			}
			if r.Intn(2) == 0 {
				o.SkewIDs = true
			}
			o.WGenesis = 5
			o.WRestart = 1
		},
		func(ck *sim.Check) {
			ck.RequiredProbes = []string{"genesis_export_import_compared"}
			ck.RequiredFaults = []string{"chain.genesis_restart"}
		})

	// history sources of C45 (not checks of their own): core and token worlds with node restarts,
	// lost commits (crash between FinalizeBlock and Commit, block re-proposed) and genesis restarts
	coreCheck("C45@core", "history source", nil, 1, 1,
		func(o *CoreOptions, r *rand.Rand, tier string) {
			o.Kinds = subset(r, allKinds)
			o.WRestart, o.WLostCommit, o.WGenesis = 3, 6, 1
			o.SkewIDs = true
		}, nil)
	coreCheck("C45@tokens", "history source", nil, 1, 1,
		func(o *CoreOptions, r *rand.Rand, tier string) {
			tokenOptions(o, r)
			o.RateLimit = r.Intn(2) == 0
			if o.RateLimit {
				o.WRateAdm, o.GovSecs = 6, 40
			}
			o.WRestart, o.WLostCommit = 3, 6
		}, nil)
	c45 := &sim.Check{
		Prop: "C45", Level: "exploration",
		Rule: "histories drawn from the core, token, handshake and client worlds (with node restarts from the durable DB, lost commits re-proposing the same block, genesis export/import restarts) are executed in a first OS process at GOMAXPROCS=1 and re-executed from the recorded operation list in a second fresh process at GOMAXPROCS=16 (Go re-seeds map iteration per process); the digests must agree line by line: app hash after every block of every chain, per-module hash of the exported genesis of every chain, and keeper list queries whose order the module defines; inside a world, a block re-executed after a lost commit must give the same app hash. Non-trivial case = distinct histories (by their app-hash chain)",
		Worlds: map[string]int{"quick": 40, "thorough": 600},
		Assumptions: []string{"Go's map iteration seed cannot be pinned, only varied: two processes per history give two seeds; more histories give more seeds",
			"the same binary executes both runs (different processes, thread counts and map seeds); differing compiler versions or architectures are out of scope"},
	}
	c45.Custom = func(o sim.RunOptions) int {
		return sim.RunC45(c45, Lookup, []string{"C45@core", "C45@tokens", "C12", "C24", "C45@core", "C45@tokens"}, o)
	}
	register(c45)

	coreCheck("C14",
		"worlds with ORDERED channels and tight timeouts so that several packets are in flight when one times out; afterwards the run keeps sending, receiving, acknowledging and timing out on that channel. Oracle: after a committed timeout / timeout-on-close the sender's end is CLOSED; no later send, receive or acknowledgement on that end succeeds; timeouts of the other in-flight packets do. Non-trivial case = distinct (message kind, outcome) attempted on an end closed by a timeout",
		[]string{"closed-ordered:"}, 96, 1600,
		func(o *CoreOptions, r *rand.Rand, tier string) {
			o.Kinds = subset(r, []string{"v1o", "loco"}, "v1o")
			o.TightTmo = 60
			o.WSend = 34
			o.WEarlyTmo = 8
			o.WClose = 0
			o.MaxPkts = 20
			// half of the packets belong to an application that re-sends from its timeout callback
			o.Behaviours = []string{"ok", "zok", "fail", "zok", "async", "zw2ok", "w2fail", "zfail"}
		},
		func(ck *sim.Check) {
			ck.RequiredProbes = []string{"ordered_timeout_closed_channel", "packet_message_refused_on_channel_closed_by_timeout"}
		})
}
