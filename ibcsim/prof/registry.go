package prof

import (
	"encoding/json"
	"math/rand"
	"sort"

	"verif/ibcsim/sim"
)

var components = map[string][]string{
	"real": {"testing/simapp.SimApp (baseapp, IAVL multistore on MemDB, ante chain with signature verification and RedundantRelayDecorator)",
		"ibc core 02-client 03-connection 04-channel v1+v2 05-port 23-commitment 24-host", "07-tendermint light client incl. light.Verify over real ed25519 commits",
		"09-localhost", "Merkle proofs via ABCI Query{Prove:true} of the real store", "ICS-20 v1/v2, packet-forward, rate-limiting, ICA, GMP, authz, gov, bank as wired in testing/simapp"},
	"stub": {"CometBFT consensus/p2p/mempool (simulator proposes blocks, orders a per-chain tx queue, signs headers)", "relayers, users, attackers (simulated actors)",
		"mock IBC applications (scripted through testing/mock function fields)", "wall clock (virtual, per-chain skew)"},
}

var registry = map[string]*sim.Check{}

func Lookup(prop string) *sim.Check { return registry[prop] }

func Props() []string {
	var out []string
	for k := range registry {
		out = append(out, k)
	}
	sort.Strings(out)
	return out
}

func register(ck *sim.Check) {
	if ck.Components == nil {
		ck.Components = components
	}
	if ck.Level == "" {
		ck.Level = "exploration"
	}
	registry[ck.Prop] = ck
}

func steps(tier string, quick, thorough int) int {
	if tier == "thorough" {
		return thorough
	}
	return quick
}

// coreCheck registers a property decided on the `core` profile. tune adjusts the generator
// options per world (swarm style: it receives a PRNG derived from the world seed).
func coreCheck(prop, rule string, nontriv []string, worldsQ, worldsT int, tune func(o *CoreOptions, r *rand.Rand, tier string), extra func(ck *sim.Check)) {
	ck := &sim.Check{
		Prop: prop, Rule: rule, NonTrivPrefixes: nontriv,
		Worlds: map[string]int{"quick": worldsQ, "thorough": worldsT},
		NewProfile: func(cfg sim.WorldConfig) sim.Profile {
			var o CoreOptions
			if err := json.Unmarshal(cfg.Extra, &o); err != nil {
				sim.Failf("core options: %v", err)
			}
			return NewCore(o)
		},
		MakeConfig: func(tier string, seed int64) sim.WorldConfig {
			r := rand.New(rand.NewSource(seed ^ 0x5eed))
			o := DefaultCoreOptions()
			tune(&o, r, tier)
			bz, _ := json.Marshal(o)
			return sim.WorldConfig{Profile: "core", Steps: steps(tier, 90, 220), Extra: bz}
		},
		Assumptions: []string{
			"seeded search over schedules: a clean batch is evidence, not proof (bounds: 2 chains, <=14..30 packets per world, proof heights from the heights the run produced)",
			"Cosmos SDK, CometBFT light verification, IAVL and ics23 are trusted as used by the real code",
			"the harness chain driver, ghost model and store census are trusted; they are exercised by the seeded-mutant sensitivity runs recorded in DESIGN.md",
		},
	}
	if extra != nil {
		extra(ck)
	}
	register(ck)
}

// subset draws a random non-empty subset of kinds that contains at least the `must` kinds.
func subset(r *rand.Rand, all []string, must ...string) []string {
	in := map[string]bool{}
	for _, m := range must {
		in[m] = true
	}
	for _, k := range all {
		if r.Intn(100) < 55 {
			in[k] = true
		}
	}
	var out []string
	for _, k := range all {
		if in[k] {
			out = append(out, k)
		}
	}
	if len(out) == 0 {
		out = []string{all[r.Intn(len(all))]}
	}
	return out
}

var allKinds = []string{"v1u", "v1o", "v2a", "v2", "loc", "loco"}

func init() {
	coreCheck("C01",
		"worlds of 2 real chains with mock apps on v1 unordered/ordered channels, v2 clients, v2-over-alias and localhost loopback; seeded relayers duplicate, replay, reorder and race every relay message with proofs at any height the run produced. Oracle: committed receive callbacks per (destination id, sequence) <= 1; a block made only of receives of already-received packets has an empty store diff. Non-trivial case = distinct (route kind, message kind, outcome, lifecycle state) of a committed redundant relay",
		[]string{"redundant:"}, 96, 1600,
		func(o *CoreOptions, r *rand.Rand, tier string) {
			o.Kinds = subset(r, allKinds)
			o.WDup = 18 + r.Intn(12)
			o.WEarlyTmo = 4
		},
		func(ck *sim.Check) {
			ck.RequiredFaults = []string{"relay.dup", "relay.replay", "relay.stale_proof"}
			ck.RequiredProbes = []string{"redundant_recv_noop", "block_of_only_redundant_relays"}
		})
}
