package prof

import (
	"bytes"
	"fmt"
	"math/rand"
	"sort"

	clienttypes "github.com/cosmos/ibc-go/v11/modules/core/02-client/types"
	commitmenttypesv2 "github.com/cosmos/ibc-go/v11/modules/core/23-commitment/types/v2"
	ibcexported "github.com/cosmos/ibc-go/v11/modules/core/exported"

	"verif/ibcsim/sim"
)

// C27: localhost verification == reading the chain's own IBC store; the localhost client
// cannot be created, updated, upgraded or recovered.
//
//	lhv  C=chain N=subseed      a batch of membership / non-membership verifications through the
//	                            client router on a throw-away branch of the latest state
//	lhop C=chain S=kind         a client operation addressed to 09-localhost (must be refused)

func (p *Core) genLocalVerify() []sim.Op {
	w := p.w
	ci := w.Intn(len(p.C))
	if w.Chance(0.25) {
		kinds := []string{"create", "update", "upgrade", "recover-subject", "recover-substitute"}
		return []sim.Op{{K: "lhop", C: ci, S: kinds[w.Intn(len(kinds))]}}
	}
	return []sim.Op{{K: "lhv", C: ci, N: w.Rng.Int63()}}
}

func (p *Core) execLocalVerify(op sim.Op) {
	w := p.w
	if op.C < 0 || op.C >= len(p.C) {
		w.Noop()
		return
	}
	c := p.C[op.C]
	r := rand.New(rand.NewSource(op.N))
	snap := c.Census([]string{ibcStore})
	kv := snap.KV[ibcStore]
	keys := make([]string, 0, len(kv))
	for k := range kv {
		keys = append(keys, k)
	}
	sort.Strings(keys)
	if len(keys) == 0 {
		w.Noop()
		return
	}
	ck := c.App.IBCKeeper.ClientKeeper
	height := c.IBCHeight(c.Height)
	sentinel := []byte{0x01}
	for i := 0; i < 24; i++ {
		ctx := c.QueryCtx()
		key := []byte(keys[r.Intn(len(keys))])
		val := append([]byte{}, kv[string(key)]...)
		proof := sentinel
		shape := "present"
		switch r.Intn(7) {
		case 0: // perturbed key (absent unless it happens to exist)
			key = append(append([]byte{}, key...), byte('0'+r.Intn(10)))
			shape = "perturbed-key"
		case 1:
			if len(key) > 1 {
				key = key[:len(key)-1]
			}
			shape = "truncated-key"
		case 2: // wrong value
			if len(val) > 0 {
				val[r.Intn(len(val))] ^= 0x20
			} else {
				val = []byte{1}
			}
			shape = "wrong-value"
		case 3: // wrong proof
			proof = [][]byte{{}, {0x00}, {0x01, 0x01}, {0x02}, nil}[r.Intn(5)]
			shape = "wrong-proof"
		case 4: // value prefix / extension
			val = append(val, 0)
			shape = "extended-value"
		}
		stored, has := kv[string(key)]
		path := commitmenttypesv2.NewMerklePath([]byte("ibc"), key)
		okProof := bytes.Equal(proof, sentinel)
		// membership
		errM := ck.VerifyMembership(ctx, ibcexported.LocalhostClientID, height, 0, 0, proof, path, val)
		wantM := okProof && has && bytes.Equal(stored, val) && len(val) > 0
		if (errM == nil) != wantM {
			w.Violate("C27", "localhost-membership-differs-from-store", "", fmt.Sprintf("%s: VerifyMembership(key=%s, value=%x, proof=%x) returned %v but the store holds %x (present=%v)", c.ID, sim.PrettyKey(key), val, proof, errM, stored, has))
			return
		}
		// non-membership
		errN := ck.VerifyNonMembership(ctx, ibcexported.LocalhostClientID, height, 0, 0, proof, path)
		wantN := okProof && !has
		if (errN == nil) != wantN {
			w.Violate("C27", "localhost-non-membership-differs-from-store", "", fmt.Sprintf("%s: VerifyNonMembership(key=%s, proof=%x) returned %v but the key present=%v", c.ID, sim.PrettyKey(key), proof, errN, has))
			return
		}
		w.Stats.NonTrivial(fmt.Sprintf("lhv:%s:m=%v:n=%v", shape, errM == nil, errN == nil))
		w.Stats.Probe("localhost_verify_compared_with_store")
	}
}

func (p *Core) execLocalOp(op sim.Op) {
	w := p.w
	if op.C < 0 || op.C >= len(p.C) {
		w.Noop()
		return
	}
	c := p.C[op.C]
	ctx := c.QueryCtx() // throw-away branch: nothing here is committed
	ck := c.App.IBCKeeper.ClientKeeper
	lh := ibcexported.LocalhostClientID
	before := c.Census([]string{ibcStore})
	var err error
	switch op.S {
	case "create":
		_, err = ck.CreateClient(ctx, ibcexported.Localhost, []byte("anything"), []byte("anything"))
	case "update":
		// any client message: take an honest tendermint header of the other chain
		other := p.C[(op.C+1)%len(p.C)]
		if other.Height < 3 {
			w.Noop()
			return
		}
		hdr, herr := sim.TMHeader(other, other.Height, other.Height-1, nil, nil)
		if herr != nil {
			w.Noop()
			return
		}
		err = ck.UpdateClient(ctx, lh, hdr)
	case "upgrade":
		err = ck.UpgradeClient(ctx, lh, []byte("x"), []byte("y"), []byte{1}, []byte{1})
	case "recover-subject", "recover-substitute":
		var tm string
		for _, r := range p.Routes {
			if !r.Local {
				tm = r.Client[0]
				if r.Chain[0] != c {
					tm = r.Client[1]
				}
				break
			}
		}
		if tm == "" {
			w.Noop()
			return
		}
		if op.S == "recover-subject" {
			err = ck.RecoverClient(ctx, lh, tm)
		} else {
			err = ck.RecoverClient(ctx, tm, lh)
		}
	default:
		w.Noop()
		return
	}
	if err == nil {
		w.Violate("C27", "localhost-client-operation-accepted", "", fmt.Sprintf("%s: client operation %q addressed to the localhost client succeeded", c.ID, op.S))
		return
	}
	if d := sim.Diff(before, c.Census([]string{ibcStore})); len(d) != 0 {
		w.Violate("C27", "localhost-client-operation-changed-state", "", sim.ChangesString(d))
	}
	w.Stats.NonTrivial("lhop:" + op.S + ":refused")
	w.Stats.Probe("localhost_client_operation_refused")
	_ = clienttypes.ErrClientNotFound
}
