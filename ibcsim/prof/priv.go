package prof

import (
	"fmt"
	"strconv"
	"strings"
	"time"

	sdkmath "cosmossdk.io/math"

	sdk "github.com/cosmos/cosmos-sdk/types"
	upgradetypes "github.com/cosmos/cosmos-sdk/x/upgrade/types"

	icacontrollertypes "github.com/cosmos/ibc-go/v11/modules/apps/27-interchain-accounts/controller/types"
	icahosttypes "github.com/cosmos/ibc-go/v11/modules/apps/27-interchain-accounts/host/types"
	ratelimittypes "github.com/cosmos/ibc-go/v11/modules/apps/rate-limiting/types"
	transfertypes "github.com/cosmos/ibc-go/v11/modules/apps/transfer/types"
	clienttypes "github.com/cosmos/ibc-go/v11/modules/core/02-client/types"
	clientv2types "github.com/cosmos/ibc-go/v11/modules/core/02-client/v2/types"
	connectiontypes "github.com/cosmos/ibc-go/v11/modules/core/03-connection/types"
	channeltypes "github.com/cosmos/ibc-go/v11/modules/core/04-channel/types"
	channeltypesv2 "github.com/cosmos/ibc-go/v11/modules/core/04-channel/v2/types"
	commitmenttypes "github.com/cosmos/ibc-go/v11/modules/core/23-commitment/types"
	host "github.com/cosmos/ibc-go/v11/modules/core/24-host"
	ibctm "github.com/cosmos/ibc-go/v11/modules/light-clients/07-tendermint"
	ibcmock "github.com/cosmos/ibc-go/v11/testing/mock"
	mockv2 "github.com/cosmos/ibc-go/v11/testing/mock/v2"

	"verif/ibcsim/sim"
)

// ---- priv profile (C46): who may do what -------------------------------------------------------
//
// Two real chains hold tendermint clients of each other. Every privileged or client-scoped
// message is submitted by every class of signer (the gov authority through the REAL gov module,
// the client's creator, the creator of another client, a listed relayer, an unlisted relayer, a
// stranger, the delegator that holds all voting power, and transactions whose message NAMES the
// authority / the creator but is signed by somebody else) in many client / parameter states. The
// reference model is a table written from the property statement (priv_oracles.go).
//
// Accounts of a chain: 0 gov voter, 1 creator of the setup clients, 2-3 packet senders, 4-5 creators
// of later clients, 6 stranger, 7 signs the spoofed transactions, 8-14 relayers (may be listed),
// 15 relayer of the harness' own auxiliary client updates.

type PrivOptions struct {
	RegisterAtSetup bool
	GovSecs         int64
	ShortTrust      []int64 // trusting periods (s) of clients created during the run
	MaxClients      int
	MaxPkts         int

	WTraffic, WCfg, WReg, WDel, WMk, WRec, WUpg, WPar, WRl, WTypes, WJmp, WReplay int
}

func DefaultPrivOptions() PrivOptions {
	return PrivOptions{RegisterAtSetup: true, GovSecs: 30, ShortTrust: []int64{240, 420, 900}, MaxClients: 9, MaxPkts: 5,
		WTraffic: 34, WCfg: 12, WReg: 9, WDel: 5, WMk: 7, WRec: 6, WUpg: 3, WPar: 5, WRl: 7, WTypes: 5, WJmp: 5, WReplay: 4}
}

const (
	pvAux     = 15
	pvSpoofer = 7
	pvGhostID = "07-tendermint-99"
	pvTM      = "07-tendermint"
)

// the stores a refused message must leave untouched
var pvStores = []string{"ibc", "upgrade", "ratelimiting", "transfer", "icahost", "icacontroller"}

// pvClient is the model of one light client: what the property's rules depend on.
type pvClient struct {
	Idx       int
	ID        string
	Creator   string // address that created it and has not been deleted ("" = none)
	ExCreator string // deleted creator
	CP        string // registered counterparty client ("" = none)
	Allow     []string
	Ghost     bool // identifier of a client that does not exist
	deniedUpd bool // an unlisted relayer's update was refused since the last accepted update
}

type pvPkt struct {
	Tag     int64
	Src     int
	Pkt     *sim.Pkt
	Timeout uint64
	Recv    bool
	RecvAt  int64
	Ack     channeltypesv2.Acknowledgement
	HasAck  bool
	Done    bool
	denied  map[string]bool
}

type Priv struct {
	w   *sim.World
	C   [2]*sim.Chain
	Now time.Time
	Opt PrivOptions

	Cl      [2][]*pvClient
	ghost   [2]*pvClient
	allowed [2][]string        // model of the allowed-clients parameter
	rl      [2]map[string]bool // model of existing rate limits: denom|id
	acct    [2]map[string]int  // address -> account index
	conn    [2]string
	chn     [2]string
	v1pkt   [2]*sim.Pkt // v1 mock packet on its way to chain i
	Pkts    map[int64]*pvPkt
	ord     []int64
	snap    [2]*sim.Snapshot
	denied  map[string]bool // privileged operation refused for a non-authority signer (by arguments)

	last    sim.Op
	hasLast bool
}

func NewPriv(o PrivOptions) *Priv { return &Priv{Opt: o} }

func (p *Priv) Name() string { return "priv" }

func (p *Priv) Setup(w *sim.World) {
	p.w = w
	clk := &sim.Clock{}
	vp := time.Duration(p.Opt.GovSecs) * time.Second
	p.C[0] = sim.NewChain(0, sim.ChainConfig{ChainID: "simchain-1", Clock: clk, GovVotingPeriod: vp}, w.Stats)
	p.C[1] = sim.NewChain(1, sim.ChainConfig{ChainID: "simchain-2", Clock: clk, GovVotingPeriod: vp}, w.Stats)
	w.Chains = []*sim.Chain{p.C[0], p.C[1]}
	p.Pkts = map[int64]*pvPkt{}
	p.denied = map[string]bool{}
	// a first client on chain 1 so that the two ends of the setup pair carry different identifiers
	// (07-tendermint-0 on chain 0, 07-tendermint-1 on chain 1): a check against the wrong end's
	// configuration cannot go unnoticed
	first := p.C[1].Accounts[5]
	r := p.C[1].Deliver(sim.DefaultBlockInterval, first, 0, sim.MsgCreateTMClient(p.C[0], p.C[0].Height, sim.DefaultTMConfig(), first.String()))
	firstID, has := sim.EventAttr(r.Events, clienttypes.EventTypeCreateClient, clienttypes.AttributeKeyClientID)
	if !r.OK() || !has {
		sim.Failf("priv setup: create client: %s", r.Log)
	}
	ea, eb := sim.NewClientPair(p.C[0], p.C[1], sim.DefaultTMConfig(), sim.DefaultTMConfig())
	if ea.ClientID == eb.ClientID {
		sim.Failf("priv setup: the ends of the setup pair share the identifier %s", ea.ClientID)
	}
	sim.OpenConnection(ea, eb, 0)
	ca, cb := sim.OpenChannel(ea, eb, ibcmock.PortID, ibcmock.PortID, ibcmock.Version, channeltypes.UNORDERED)
	p.conn = [2]string{ea.ConnID, eb.ConnID}
	p.chn = [2]string{ca.ChanID, cb.ChanID}
	ends := [2]*sim.ConnEnd{ea, eb}
	for ci := 0; ci < 2; ci++ {
		c := p.C[ci]
		p.acct[ci] = map[string]int{}
		for i, a := range c.Accounts {
			p.acct[ci][a.String()] = i
		}
		p.Cl[ci] = []*pvClient{{Idx: 0, ID: ends[ci].ClientID, Creator: c.Accounts[1].String()}}
		p.ghost[ci] = &pvClient{Idx: -1, ID: pvGhostID, Ghost: true}
		p.allowed[ci] = []string{clienttypes.AllowAllClients}
		p.rl[ci] = map[string]bool{}
	}
	p.Cl[1] = append(p.Cl[1], &pvClient{Idx: 1, ID: firstID, Creator: first.String()})
	if p.Opt.RegisterAtSetup {
		sim.RegisterV2(ea, eb)
		p.Cl[0][0].CP = eb.ClientID
		p.Cl[1][0].CP = ea.ClientID
	}
	p.Now = p.C[0].LastTime
	if p.C[1].LastTime.After(p.Now) {
		p.Now = p.C[1].LastTime
	}
	for ci := 0; ci < 2; ci++ {
		p.snap[ci] = p.C[ci].Census(pvStores)
		for _, cl := range p.Cl[ci] {
			p.syncCheck(ci, cl)
		}
	}
}

// ---- time, blocks, transactions ----------------------------------------------------------------

func (p *Priv) tick(d time.Duration) { p.Now = p.Now.Add(d) }

// emptyBlock commits a block without transactions on chain ci at the world clock.
func (p *Priv) emptyBlock(ci int) {
	p.tick(time.Second)
	p.C[ci].Block(p.Now, nil)
	p.snap[ci] = p.C[ci].Census(pvStores)
}

// settle keeps block-level effects out of the block that carries a judged transaction: a due
// rate-limit epoch fires in an empty block of its own, and the other chain never lags far
// behind the world clock (its headers would otherwise look expired to fresh clients).
func (p *Priv) settle(ci int) {
	c := p.C[ci]
	for i := 0; i < 4; i++ {
		ep, err := c.App.RateLimitKeeper.GetHourEpoch(c.QueryCtx())
		if err != nil || ep.Duration == 0 || !p.Now.Add(time.Second).After(ep.EpochStartTime.Add(ep.Duration)) {
			break
		}
		p.emptyBlock(ci)
	}
	if o := p.C[1-ci]; p.Now.Sub(o.LastTime) > 45*time.Second {
		p.emptyBlock(1 - ci)
	}
}

// tx commits a block of chain ci holding exactly this transaction and returns its result and
// the difference it made in the census stores.
func (p *Priv) tx(ci int, signer *sim.Account, label string, msgs ...sdk.Msg) (*sim.TxResult, []sim.Change) {
	c := p.C[ci]
	if len(c.Mempool) != 0 {
		sim.Failf("priv: mempool of %s not empty", c.ID)
	}
	p.settle(ci)
	before := p.snap[ci]
	p.tick(time.Second)
	r := c.Block(p.Now, []*sim.TxSpec{{Msgs: msgs, Signer: signer, Label: label}})[0]
	p.snap[ci] = c.Census(pvStores)
	return r, sim.Diff(before, p.snap[ci])
}

// gov runs one message through the real gov module of chain ci: proposal by the delegator, its
// yes vote, a block after the voting period. ok means the proposal passed AND its message executed.
func (p *Priv) gov(ci int, title string, msg sdk.Msg, vote bool) (ok bool, why string, diff []sim.Change) {
	c := p.C[ci]
	g := c.Accounts[sim.AccGov]
	p.settle(ci)
	before := p.snap[ci]
	defer func() { diff = sim.Diff(before, p.snap[ci]) }()
	r, _ := p.tx(ci, g, "gov-submit", c.MsgGovProposal(title, msg))
	if !r.OK() {
		return false, "submit: " + firstLine(r.Log), nil
	}
	id, has := sim.ProposalID(r)
	if !has {
		sim.Failf("priv: no proposal id")
	}
	if vote {
		if r, _ = p.tx(ci, g, "gov-vote", c.MsgVoteYes(id)); !r.OK() {
			sim.Failf("priv: vote refused: %s", r.Log)
		}
	}
	p.tick(c.GovVotingPeriod())
	p.emptyBlock(ci)
	st, reason := c.ProposalStatus(id)
	switch st.String() {
	case "PROPOSAL_STATUS_PASSED":
		return true, "", nil
	case "PROPOSAL_STATUS_FAILED":
		return false, "execution failed: " + firstLine(reason), nil
	case "PROPOSAL_STATUS_REJECTED":
		return false, "proposal rejected", nil
	}
	if !vote && st.String() == "PROPOSAL_STATUS_UNSPECIFIED" {
		return false, "proposal dropped", nil
	}
	sim.Failf("priv: proposal %d ended with status %s", id, st)
	return false, "", nil
}

// pvSigner says who signs: the account that signs the transaction and the address the message
// names as its signer (they differ for spoofed transactions; governance names the authority).
type pvSigner struct {
	acc  *sim.Account
	addr string
	via  string // tx | gov | spoof
}

func (p *Priv) signer(ci int, x int64, cl *pvClient) (pvSigner, bool) {
	c := p.C[ci]
	switch {
	case x == -1:
		return pvSigner{nil, sim.Authority(), "gov"}, true
	case x == -2:
		return pvSigner{c.Accounts[pvSpoofer], sim.Authority(), "spoof"}, true
	case x == -3:
		if cl == nil || cl.Creator == "" || cl.Creator == c.Accounts[pvSpoofer].String() {
			return pvSigner{}, false
		}
		return pvSigner{c.Accounts[pvSpoofer], cl.Creator, "spoof"}, true
	case x == -4:
		return pvSigner{nil, sim.Authority(), "unvoted"}, true
	case x >= 0 && int(x) < len(c.Accounts):
		a := c.Accounts[x]
		return pvSigner{a, a.String(), "tx"}, true
	}
	return pvSigner{}, false
}

// run executes one message for the given signer and reports whether it took effect.
func (p *Priv) run(ci int, s pvSigner, label string, msg sdk.Msg) (bool, string, []sim.Change, *sim.TxResult) {
	if s.via == "gov" || s.via == "unvoted" {
		ok, why, diff := p.gov(ci, label, msg, s.via == "gov")
		return ok, why, diff, nil
	}
	r, diff := p.tx(ci, s.acc, label, msg)
	return r.OK(), firstLine(r.Log), diff, r
}

func (p *Priv) client(ci int, i int) *pvClient {
	if ci < 0 || ci > 1 {
		return nil
	}
	if i == -1 {
		return p.ghost[ci]
	}
	if i < 0 || i >= len(p.Cl[ci]) {
		return nil
	}
	return p.Cl[ci][i]
}

func (p *Priv) clientByID(ci int, id string) *pvClient {
	for _, cl := range p.Cl[ci] {
		if cl.ID == id {
			return cl
		}
	}
	return nil
}

// tmState decodes the stored client state from the raw store (no routing through the keeper,
// which refuses client types that are not allowed).
func (p *Priv) tmState(ci int, id string) *ibctm.ClientState {
	c := p.C[ci]
	bz := c.State(ibcStore, host.FullClientStateKey(id))
	if bz == nil {
		return nil
	}
	st, err := clienttypes.UnmarshalClientState(c.App.AppCodec(), bz)
	if err != nil {
		return nil
	}
	tm, _ := st.(*ibctm.ClientState)
	return tm
}

// buildUpdate makes an honest header of the peer's latest block for client cl of chain ci.
func (p *Priv) buildUpdate(ci int, cl *pvClient, signer string) *clienttypes.MsgUpdateClient {
	peer := p.C[1-ci]
	st := p.tmState(ci, cl.ID)
	if st == nil {
		return nil
	}
	trusted := int64(st.LatestHeight.RevisionHeight)
	if peer.Height <= trusted {
		p.emptyBlock(1 - ci)
	}
	hdr, err := sim.TMHeader(peer, peer.Height, trusted, nil, nil)
	if err != nil {
		return nil
	}
	msg, err := clienttypes.NewMsgUpdateClient(cl.ID, hdr, signer)
	if err != nil {
		return nil
	}
	return msg
}

// provable returns the highest height above minH of the peer for which client id of chain ci
// stores a consensus state (0 = none).
func (p *Priv) provable(ci int, id string, minH int64) int64 {
	peer := p.C[1-ci]
	for h := peer.Height; h > minH; h-- {
		if p.C[ci].HasConsensusState(id, peer.IBCHeight(h)) {
			return h
		}
	}
	return 0
}

// auxSigner is an account the model expects to be accepted as relayer of cl (nil = none).
func (p *Priv) auxSigner(ci int, cl *pvClient) *sim.Account {
	if len(cl.Allow) == 0 {
		return p.C[ci].Accounts[pvAux]
	}
	for _, a := range cl.Allow {
		if i, ok := p.acct[ci][a]; ok {
			return p.C[ci].Accounts[i]
		}
	}
	return nil
}

// auxUpdate brings cl to the peer's tip, signed by a relayer the model permits. It is judged
// like every other client update.
func (p *Priv) auxUpdate(ci int, cl *pvClient) bool {
	a := p.auxSigner(ci, cl)
	if a == nil {
		p.w.Stats.Probe("client_without_any_usable_listed_relayer")
		return false
	}
	return p.doUpdate(ci, cl, pvSigner{a, a.String(), "tx"})
}

func (p *Priv) doUpdate(ci int, cl *pvClient, s pvSigner) bool {
	msg := p.buildUpdate(ci, cl, s.addr)
	if msg == nil {
		p.w.Noop()
		return false
	}
	ok, log, diff, _ := p.run(ci, s, "upd", msg)
	p.judge(pvCase{kind: "update", ci: ci, cl: cl, s: s, state: p.gateState(ci, cl)}, ok, log, diff)
	if ok {
		if cl.deniedUpd && len(cl.Allow) > 0 {
			p.w.Stats.Probe("update_refused_for_unlisted_then_accepted_for_listed")
		}
		cl.deniedUpd = false
	} else if len(cl.Allow) > 0 && !pvContains(cl.Allow, s.addr) && s.via == "tx" {
		cl.deniedUpd = true
	}
	return ok
}

// ---- operations --------------------------------------------------------------------------------
//
// X is the signer: an account index, -1 the gov authority (through a real proposal), -2 / -3 a
// transaction whose message names the authority / the client's creator but is signed by account 7.
//
//	jmp  N=ns                                   the world clock advances; both chains produce a block
//	mk   C X N=trusting period (s)              MsgCreateClient of the peer chain
//	upd  C P X                                  MsgUpdateClient to the peer's tip
//	reg  C P X M=counterparty index on the peer MsgRegisterCounterparty
//	cfg  C P X S=list                           MsgUpdateClientConfig (list: account indexes, g = authority)
//	del  C P X                                  MsgDeleteClientCreator
//	rec  C P=subject M=substitute X             MsgRecoverClient
//	upg  C X N                                  MsgIBCSoftwareUpgrade
//	par  C X S=module:value                     MsgUpdateParams of 02-client / 03-connection / transfer / ICA host / ICA controller
//	rl   C X S=kind;denom;id N M                rate-limit administration
//	snd  C P X T N=timeout (s)                  v2 MsgSendPacket over the mock application
//	rcv / ack / tmo  T X                        v2 packet messages with real proofs
//	use  C P X S=kind                           a use of a client: conninit, chaninit, v1recv, v1send
//	prep C                                      harness: a v1 packet towards C is in flight and the setup client of C knows the peer's tip

func (p *Priv) Exec(w *sim.World, op sim.Op) {
	switch op.K {
	case "jmp":
		if op.N <= 0 || op.N > int64(48*time.Hour) {
			w.Noop()
			return
		}
		p.tick(time.Duration(op.N))
		p.emptyBlock(0)
		p.emptyBlock(1)
		return
	case "rcv", "ack", "tmo":
		p.execRelay(op)
	default:
		if op.C < 0 || op.C > 1 {
			w.Noop()
			return
		}
		switch op.K {
		case "mk":
			p.execMk(op)
		case "upd":
			cl := p.client(op.C, op.P)
			s, ok := p.signer(op.C, op.X, cl)
			if cl == nil || cl.Ghost || !ok {
				w.Noop()
				return
			}
			p.doUpdate(op.C, cl, s)
		case "reg":
			p.execReg(op)
		case "cfg":
			p.execCfg(op)
		case "del":
			p.execDel(op)
		case "rec":
			p.execRec(op)
		case "upg":
			p.execUpg(op)
		case "par":
			p.execPar(op)
		case "rl":
			p.execRl(op)
		case "snd":
			p.execSnd(op)
		case "use":
			p.execUse(op)
		case "prep":
			p.execPrep(op)
		default:
			w.Noop()
			return
		}
	}
	switch op.K {
	case "snd", "prep", "use":
	default:
		p.last, p.hasLast = op, true
	}
}

func (p *Priv) execMk(op sim.Op) {
	w := p.w
	ci := op.C
	s, ok := p.signer(ci, op.X, nil)
	if !ok || s.acc == nil || len(p.Cl[ci]) >= p.Opt.MaxClients {
		w.Noop()
		return
	}
	peer := p.C[1-ci]
	tm := sim.DefaultTMConfig()
	if op.N > 0 {
		tm.TrustingPeriod = time.Duration(op.N) * time.Second
	}
	msg := sim.MsgCreateTMClient(peer, peer.Height, tm, s.addr)
	okTx, log, diff, r := p.run(ci, s, "mk", msg)
	p.judge(pvCase{kind: "create", ci: ci, s: s, state: "type=" + p.typeState(ci)}, okTx, log, diff)
	if !okTx {
		return
	}
	id, has := sim.EventAttr(r.Events, clienttypes.EventTypeCreateClient, clienttypes.AttributeKeyClientID)
	if !has {
		sim.Failf("priv: created client has no id")
	}
	cl := &pvClient{Idx: len(p.Cl[ci]), ID: id, Creator: s.addr}
	p.Cl[ci] = append(p.Cl[ci], cl)
	p.syncCheck(ci, cl)
}

func (p *Priv) regState(cl *pvClient) string {
	switch {
	case cl.Ghost:
		return "no-such-client"
	case cl.Creator == "" && cl.CP != "":
		return "creator-deleted+counterparty-set"
	case cl.Creator == "":
		return "creator-deleted"
	case cl.CP != "":
		return "counterparty-set"
	}
	return "fresh"
}

func (p *Priv) execReg(op sim.Op) {
	ci := op.C
	cl := p.client(ci, op.P)
	s, ok := p.signer(ci, op.X, cl)
	if cl == nil || !ok {
		p.w.Noop()
		return
	}
	cp := "07-tendermint-77"
	if pc := p.client(1-ci, int(op.M)); pc != nil && !pc.Ghost {
		cp = pc.ID
	}
	msg := clientv2types.NewMsgRegisterCounterparty(cl.ID, [][]byte{[]byte("ibc"), []byte("")}, cp, s.addr)
	okTx, log, diff, _ := p.run(ci, s, "reg", msg)
	// the arguments are valid whoever signs: a refusal of the one permitted combination is a finding
	p.judge(pvCase{kind: "register", ci: ci, cl: cl, s: s, state: p.regState(cl), sure: true}, okTx, log, diff)
	if okTx {
		cl.CP = cp
		p.syncCheck(ci, cl)
	}
}

func creatorState(cl *pvClient) string {
	switch {
	case cl.Ghost:
		return "no-such-client"
	case cl.Creator == "":
		return "creator-deleted"
	}
	return "creator-present"
}

// parseRelayers turns a list spec (account indexes and g for the authority) into addresses.
func (p *Priv) parseRelayers(ci int, spec string) ([]string, bool) {
	var out []string
	if spec == "" {
		return out, true
	}
	for _, f := range strings.Split(spec, ",") {
		if f == "g" {
			out = append(out, sim.Authority())
			continue
		}
		i, err := strconv.Atoi(f)
		if err != nil || i < 0 || i >= len(p.C[ci].Accounts) {
			return nil, false
		}
		out = append(out, p.C[ci].Accounts[i].String())
	}
	return out, len(out) <= clientv2types.MaxAllowedRelayersLength
}

func (p *Priv) execCfg(op sim.Op) {
	ci := op.C
	cl := p.client(ci, op.P)
	s, ok := p.signer(ci, op.X, cl)
	list, okList := p.parseRelayers(ci, op.S)
	if cl == nil || !ok || !okList {
		p.w.Noop()
		return
	}
	msg := clientv2types.NewMsgUpdateClientConfig(cl.ID, s.addr, clientv2types.NewConfig(list...))
	okTx, log, diff, _ := p.run(ci, s, "cfg", msg)
	st := creatorState(cl) + ",new-list=empty"
	if len(list) > 0 {
		st = creatorState(cl) + ",new-list=nonempty"
	}
	p.judge(pvCase{kind: "config", ci: ci, cl: cl, s: s, state: st, sure: true}, okTx, log, diff)
	if okTx {
		cl.Allow = list
		cl.deniedUpd = false
		p.syncCheck(ci, cl)
	}
}

func (p *Priv) execDel(op sim.Op) {
	ci := op.C
	cl := p.client(ci, op.P)
	s, ok := p.signer(ci, op.X, cl)
	if cl == nil || !ok {
		p.w.Noop()
		return
	}
	msg := clienttypes.NewMsgDeleteClientCreator(cl.ID, s.addr)
	okTx, log, diff, _ := p.run(ci, s, "del", msg)
	// with no creator there is nothing to delete: only then may a permitted signer be refused
	p.judge(pvCase{kind: "delcreator", ci: ci, cl: cl, s: s, state: creatorState(cl), sure: cl.Creator != ""}, okTx, log, diff)
	if okTx {
		if cl.Creator != "" {
			cl.ExCreator = cl.Creator
		}
		cl.Creator = ""
		p.syncCheck(ci, cl)
	}
}

// recoverable: the chain's own status queries say a recovery of sub by subst would be valid at t.
func (p *Priv) recoverable(ci int, sub, subst *pvClient, t time.Time) bool {
	c := p.C[ci]
	a, b := p.tmState(ci, sub.ID), p.tmState(ci, subst.ID)
	if a == nil || b == nil || !b.LatestHeight.GT(a.LatestHeight) {
		return false
	}
	return c.ClientStatusAt(sub.ID, t).String() != "Active" && c.ClientStatusAt(subst.ID, t).String() == "Active"
}

func (p *Priv) execRec(op sim.Op) {
	w := p.w
	ci := op.C
	sub, subst := p.client(ci, op.P), p.client(ci, int(op.M))
	s, ok := p.signer(ci, op.X, nil)
	if sub == nil || subst == nil || sub == subst || sub.Ghost || subst.Ghost || !ok {
		w.Noop()
		return
	}
	at := p.Now.Add(2 * time.Second)
	if s.via == "gov" {
		at = at.Add(p.C[ci].GovVotingPeriod() + 2*time.Second)
	}
	valid := p.recoverable(ci, sub, subst, at)
	msg := clienttypes.NewMsgRecoverClient(s.addr, sub.ID, subst.ID)
	okTx, log, diff, _ := p.run(ci, s, "rec", msg)
	st := "arguments=invalid"
	if valid {
		st = "arguments=valid"
	}
	p.judge(pvCase{kind: "recover", ci: ci, s: s, state: st}, okTx, log, diff)
	p.twin("recover", fmt.Sprintf("%d/%d/%d", ci, op.P, op.M), s, okTx, valid)
}

// twin counts the pairs "refused for a non-authority signer, then accepted for the authority
// with the same arguments": proof that the refusal was about the signer.
func (p *Priv) twin(kind, args string, s pvSigner, ok, valid bool) {
	key := kind + "|" + args
	if s.via != "gov" {
		if !ok && valid {
			p.denied[key] = true
			p.w.Stats.Probe("refused_with_valid_arguments:" + kind + ":non-authority")
		}
		return
	}
	if ok && p.denied[key] {
		p.w.Stats.Probe("refused_for_non_authority_then_accepted_for_authority:" + kind)
		delete(p.denied, key)
	}
}

func (p *Priv) execUpg(op sim.Op) {
	ci := op.C
	c := p.C[ci]
	s, ok := p.signer(ci, op.X, nil)
	if !ok || op.N < 0 || op.N > 1000 {
		p.w.Noop()
		return
	}
	plan := upgradetypes.Plan{Name: fmt.Sprintf("upgrade-%d", op.N), Height: c.Height + 1_000_000 + op.N}
	tm := sim.DefaultTMConfig()
	cs := ibctm.NewClientState(c.ID, tm.TrustLevel, tm.TrustingPeriod, tm.UnbondingPeriod, tm.MaxClockDrift,
		clienttypes.NewHeight(c.Revision(), uint64(plan.Height+1)), commitmenttypes.GetSDKSpecs(), sim.UpgradePath)
	msg, err := clienttypes.NewMsgIBCSoftwareUpgrade(s.addr, plan, cs)
	if err != nil {
		sim.Failf("priv: MsgIBCSoftwareUpgrade: %v", err)
	}
	okTx, log, diff, _ := p.run(ci, s, "upg", msg)
	p.judge(pvCase{kind: "upgrade", ci: ci, s: s, state: "plan=future"}, okTx, log, diff)
	p.twin("upgrade", fmt.Sprintf("%d/%d", ci, op.N), s, okTx, true)
}

// pvValidTypes is the validity rule of an allowed-clients list as documented: no blanks, no
// duplicates, the wildcard only alone.
func pvValidTypes(l []string) bool {
	seen := map[string]bool{}
	for _, t := range l {
		if strings.TrimSpace(t) == "" || seen[t] || (t == clienttypes.AllowAllClients && len(l) > 1) {
			return false
		}
		seen[t] = true
	}
	return len(l) <= 200
}

func (p *Priv) execPar(op sim.Op) {
	w := p.w
	ci := op.C
	s, ok := p.signer(ci, op.X, nil)
	mod, val, cut := strings.Cut(op.S, ":")
	if !ok || !cut {
		w.Noop()
		return
	}
	var msg sdk.Msg
	sure := true
	var list []string
	switch mod {
	case "client":
		if val != "" {
			list = strings.Split(val, ",")
		}
		sure = pvValidTypes(list)
		msg = clienttypes.NewMsgUpdateParams(s.addr, clienttypes.NewParams(list...))
	case "conn":
		n, err := strconv.ParseUint(val, 10, 64)
		if err != nil {
			w.Noop()
			return
		}
		sure = n > 0
		msg = connectiontypes.NewMsgUpdateParams(s.addr, connectiontypes.NewParams(n))
	case "transfer":
		msg = transfertypes.NewMsgUpdateParams(s.addr, transfertypes.NewParams(strings.Contains(val, "s"), strings.Contains(val, "r")))
	case "icahost":
		msg = icahosttypes.NewMsgUpdateParams(s.addr, icahosttypes.NewParams(val == "1", []string{"*"}))
	case "icactl":
		msg = icacontrollertypes.NewMsgUpdateParams(s.addr, icacontrollertypes.NewParams(val == "1"))
	default:
		w.Noop()
		return
	}
	okTx, log, diff, _ := p.run(ci, s, "par", msg)
	st := "value=" + val
	if mod == "client" {
		st = "new-list=" + pvTypeState(list)
	}
	p.judge(pvCase{kind: "params-" + mod, ci: ci, s: s, state: st, sure: sure}, okTx, log, diff)
	p.twin("params-"+mod, fmt.Sprintf("%d/%s", ci, val), s, okTx, sure)
	if okTx && mod == "client" {
		p.allowed[ci] = list
		p.syncParams(ci)
	}
}

func (p *Priv) execRl(op sim.Op) {
	w := p.w
	ci := op.C
	s, ok := p.signer(ci, op.X, nil)
	parts := strings.Split(op.S, ";")
	if !ok || len(parts) != 3 {
		w.Noop()
		return
	}
	kind, denom, id := parts[0], parts[1], parts[2]
	var msg sdk.Msg
	switch kind {
	case "add":
		m := ratelimittypes.NewMsgAddRateLimit(denom, id, sdkmath.NewInt(op.N), sdkmath.NewInt(op.M), 1)
		m.Signer = s.addr
		msg = m
	case "update":
		m := ratelimittypes.NewMsgUpdateRateLimit(denom, id, sdkmath.NewInt(op.N), sdkmath.NewInt(op.M), 2)
		m.Signer = s.addr
		msg = m
	case "remove":
		m := ratelimittypes.NewMsgRemoveRateLimit(denom, id)
		m.Signer = s.addr
		msg = m
	case "reset":
		m := ratelimittypes.NewMsgResetRateLimit(denom, id)
		m.Signer = s.addr
		msg = m
	default:
		w.Noop()
		return
	}
	key := denom + "|" + id
	had := p.rl[ci][key]
	// arguments the model knows to be acceptable: an add of an absent limit on an existing,
	// usable client; the others on an existing limit
	valid := had
	if kind == "add" {
		valid = !had && p.clientByID(ci, id) != nil && p.typeOK(ci) && op.N+op.M > 0
	}
	okTx, log, diff, _ := p.run(ci, s, "rl", msg)
	st := "limit=absent"
	if had {
		st = "limit=present"
	}
	p.judge(pvCase{kind: "ratelimit-" + kind, ci: ci, s: s, state: st}, okTx, log, diff)
	p.twin("ratelimit-"+kind, fmt.Sprintf("%d/%s", ci, key), s, okTx, valid)
	if okTx {
		switch kind {
		case "add":
			p.rl[ci][key] = true
		case "remove":
			delete(p.rl[ci], key)
		}
	}
}

func (p *Priv) execSnd(op sim.Op) {
	w := p.w
	ci := op.C
	cl := p.client(ci, op.P)
	s, ok := p.signer(ci, op.X, cl)
	if cl == nil || cl.Ghost || !ok || s.via != "tx" || op.T == 0 || p.Pkts[op.T] != nil || op.N < 0 {
		w.Noop()
		return
	}
	timeout := uint64(p.Now.Unix()) + 3 + uint64(op.N)
	payload := mockv2.NewMockPayload(mockv2.PortIDA, mockv2.PortIDB)
	msg := channeltypesv2.NewMsgSendPacket(cl.ID, timeout, s.addr, payload)
	okTx, log, diff, r := p.run(ci, s, "snd", msg)
	p.judge(pvCase{kind: "send", ci: ci, cl: cl, s: s, state: p.gateState(ci, cl)}, okTx, log, diff)
	if !okTx {
		return
	}
	if len(cl.Allow) > 0 && !pvContains(cl.Allow, s.addr) {
		w.Stats.Probe("send_by_unlisted_signer_accepted_on_client_with_allow_list")
	}
	var resp channeltypesv2.MsgSendPacketResponse
	sim.Must(sim.UnpackResponse(r, 0, &resp), "MsgSendPacketResponse")
	pk := &sim.Pkt{Tag: op.T, V2: true, P2: channeltypesv2.NewPacket(resp.Sequence, cl.ID, cl.CP, timeout, payload),
		Src: p.C[ci], Dst: p.C[1-ci], SrcCli: cl.ID, DstCli: cl.CP, SentAt: r.Height, SentTm: p.Now}
	p.Pkts[op.T] = &pvPkt{Tag: op.T, Src: ci, Pkt: pk, Timeout: timeout, denied: map[string]bool{}}
	p.ord = append(p.ord, op.T)
}

// execRelay delivers a v2 packet message with a real proof. The client the message is checked
// against is brought to a height that makes the proof verifiable by an auxiliary update signed by
// a relayer the model permits, so that the judged message differs from an acceptable one in its
// signer only.
func (p *Priv) execRelay(op sim.Op) {
	w := p.w
	ps := p.Pkts[op.T]
	if ps == nil {
		w.Noop()
		return
	}
	src, dst := ps.Src, 1-ps.Src
	pk := ps.Pkt
	on, proofOn := dst, src // the message goes to `on`; the proof is taken on the other chain
	clID := pk.DstCli
	minH := pk.SentAt
	switch op.K {
	case "ack":
		if !ps.Recv || !ps.HasAck {
			w.Noop()
			return
		}
		on, proofOn, clID, minH = src, dst, pk.SrcCli, ps.RecvAt
	case "tmo":
		if ps.Recv || uint64(p.Now.Unix()) < ps.Timeout {
			w.Noop()
			return
		}
		on, proofOn, clID = src, dst, pk.SrcCli
		// the destination needs a block whose time has reached the timeout
		if uint64(p.C[dst].LastTime.Unix()) < ps.Timeout {
			p.emptyBlock(dst)
		}
		minH = p.C[dst].Height - 1
		for h := p.C[dst].Height; h > 1; h-- {
			if uint64(p.C[dst].Headers[h].Header.Time.Unix()) >= ps.Timeout {
				minH = h - 1
			}
		}
	}
	cl := p.clientByID(on, clID)
	s, ok := p.signer(on, op.X, cl)
	if cl == nil || !ok || s.via != "tx" {
		w.Noop()
		return
	}
	if p.C[proofOn].Height <= minH {
		p.emptyBlock(proofOn)
	}
	h := p.provable(on, clID, minH)
	if h == 0 && p.typeOK(on) {
		p.auxUpdate(on, cl)
		h = p.provable(on, clID, minH)
	}
	if h == 0 {
		w.Stats.Probe("packet_message_not_provable")
		w.Noop()
		return
	}
	var msg sdk.Msg
	kind := map[string]string{"rcv": "recv", "ack": "ack", "tmo": "timeout"}[op.K]
	switch op.K {
	case "rcv":
		msg = pk.RecvMsg(h, s.addr)
	case "ack":
		msg = pk.AckMsg(h, nil, ps.Ack, s.addr)
	default:
		msg = pk.TimeoutMsg(h, s.addr)
	}
	okTx, log, diff, r := p.run(on, s, op.K, msg)
	p.judge(pvCase{kind: kind, ci: on, cl: cl, s: s, state: p.gateState(on, cl)}, okTx, log, diff)
	if !okTx {
		if len(cl.Allow) > 0 && !pvContains(cl.Allow, s.addr) && !ps.Done {
			ps.denied[kind] = true
		}
		return
	}
	noop := false
	switch op.K {
	case "rcv":
		var resp channeltypesv2.MsgRecvPacketResponse
		sim.Must(sim.UnpackResponse(r, 0, &resp), "MsgRecvPacketResponse")
		noop = resp.Result == channeltypesv2.NOOP
		if !noop {
			ps.Recv, ps.RecvAt = true, r.Height
			ps.Ack, ps.HasAck = sim.AckV2FromEvents(r.Events)
		}
	case "ack":
		var resp channeltypesv2.MsgAcknowledgementResponse
		sim.Must(sim.UnpackResponse(r, 0, &resp), "MsgAcknowledgementResponse")
		noop = resp.Result == channeltypesv2.NOOP
		if !noop {
			ps.Done = true
		}
	default:
		var resp channeltypesv2.MsgTimeoutResponse
		sim.Must(sim.UnpackResponse(r, 0, &resp), "MsgTimeoutResponse")
		noop = resp.Result == channeltypesv2.NOOP
		if !noop {
			ps.Done = true
		}
	}
	if noop {
		w.Stats.Probe("packet_message_redundant:" + kind)
		return
	}
	w.Stats.Probe("packet_message_effective:" + kind)
	if ps.denied[kind] && len(cl.Allow) > 0 {
		w.Stats.Probe(kind + "_refused_for_unlisted_then_accepted_for_listed")
	}
}

// execPrep: a v1 mock packet towards chain C is in flight and C's setup client knows the
// peer's tip (so that receives stay provable while the client type is barred).
func (p *Priv) execPrep(op sim.Op) {
	ci := op.C
	peer := p.C[1-ci]
	if p.v1pkt[ci] == nil && p.typeOK(1-ci) {
		ctx := peer.PreBlockCtx(p.Now.Add(time.Second))
		cctx, write := ctx.CacheContext()
		th := clienttypes.NewHeight(p.C[ci].Revision(), 10_000_000)
		seq, err := peer.App.IBCKeeper.ChannelKeeper.SendPacket(cctx, ibcmock.PortID, p.chn[1-ci], th, 0, ibcmock.MockPacketData)
		if err == nil {
			write()
			p.emptyBlock(1 - ci)
			pkt := channeltypes.NewPacket(ibcmock.MockPacketData, seq, ibcmock.PortID, p.chn[1-ci], ibcmock.PortID, p.chn[ci], th, 0)
			p.v1pkt[ci] = &sim.Pkt{P1: pkt, Src: peer, Dst: p.C[ci], SrcCli: p.Cl[1-ci][0].ID, DstCli: p.Cl[ci][0].ID, SentAt: peer.Height}
		}
	}
	p.emptyBlock(1 - ci)
	if p.typeOK(ci) {
		p.auxUpdate(ci, p.Cl[ci][0])
	}
}

func (p *Priv) execUse(op sim.Op) {
	w := p.w
	ci := op.C
	c := p.C[ci]
	cl := p.client(ci, op.P)
	s, ok := p.signer(ci, op.X, cl)
	if cl == nil || cl.Ghost || !ok || s.via != "tx" {
		w.Noop()
		return
	}
	st := "type=" + p.typeState(ci)
	switch op.S {
	case "conninit":
		msg := connectiontypes.NewMsgConnectionOpenInit(cl.ID, "07-tendermint-0", p.C[1-ci].Prefix(), nil, 0, s.addr)
		okTx, log, diff, _ := p.run(ci, s, "use", msg)
		p.judge(pvCase{kind: "use-conninit", ci: ci, cl: cl, s: s, state: st}, okTx, log, diff)
	case "chaninit":
		cl = p.Cl[ci][0]
		msg := channeltypes.NewMsgChannelOpenInit(ibcmock.PortID, ibcmock.Version, channeltypes.UNORDERED, []string{p.conn[ci]}, ibcmock.PortID, s.addr)
		okTx, log, diff, _ := p.run(ci, s, "use", msg)
		p.judge(pvCase{kind: "use-chaninit", ci: ci, cl: cl, s: s, state: st}, okTx, log, diff)
	case "v1send":
		// the mock application sends from its own begin-block logic; nothing is committed
		cl = p.Cl[ci][0]
		ctx := c.PreBlockCtx(p.Now.Add(time.Second))
		cctx, _ := ctx.CacheContext()
		_, err := c.App.IBCKeeper.ChannelKeeper.SendPacket(cctx, ibcmock.PortID, p.chn[ci], clienttypes.NewHeight(p.C[1-ci].Revision(), 10_000_000), 0, ibcmock.MockPacketData)
		log := ""
		if err != nil {
			log = firstLine(err.Error())
		}
		p.judge(pvCase{kind: "use-v1send", ci: ci, cl: cl, s: pvSigner{nil, "", "module"}, state: st}, err == nil, log, nil)
	case "v1recv":
		cl = p.Cl[ci][0]
		pk := p.v1pkt[ci]
		if pk == nil {
			w.Noop()
			return
		}
		h := p.provable(ci, cl.ID, pk.SentAt)
		if h == 0 {
			w.Noop()
			return
		}
		okTx, log, diff, r := p.run(ci, s, "use", pk.RecvMsg(h, s.addr))
		if okTx {
			var resp channeltypes.MsgRecvPacketResponse
			if sim.UnpackResponse(r, 0, &resp) == nil && resp.Result == channeltypes.NOOP {
				p.v1pkt[ci] = nil
				return // already received: not a use of the client
			}
			p.v1pkt[ci] = nil
		}
		p.judge(pvCase{kind: "use-v1recv", ci: ci, cl: cl, s: s, state: st}, okTx, log, diff)
	default:
		w.Noop()
	}
}

func (p *Priv) Drain(w *sim.World) []sim.Op { return nil }

func (p *Priv) Finish(w *sim.World) {
	n := len(w.Log)
	if n > 30 {
		n = 30
	}
	if len(w.Viol) == 0 {
		w.Stats.Sample(map[string]any{"profile": "priv", "seed": w.Cfg.Seed, "first_events": w.Log[:n]})
	}
}

func pvContains(l []string, s string) bool {
	for _, x := range l {
		if x == s {
			return true
		}
	}
	return false
}
