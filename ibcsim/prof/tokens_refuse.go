package prof

import (
	"fmt"
	"strings"

	"verif/ibcsim/sim"
)

// judgeRefusedTransfer (C33, C30): a MsgTransfer was refused. The model knows reasons for which a
// send may be refused — nothing to send, more than the sender holds, a native name that reads as
// an ICS-20 path, a timeout that has already passed on the counterparty client, a rate-limit
// quota, an authz grant (judged by C36), a packet-forward memo. A voucher that the model itself
// minted to the sender, sent in an amount the sender holds with a timeout far in the future, has
// no such reason: ICS-20 must let it travel (in particular back over the channel it came from).
func (p *Core) judgeRefusedTransfer(ci int, r *sim.TxResult, rt *Route, d int, x *XferInfo) {
	w := p.w
	reason := ""
	bal := p.tok.bank[ci].get(x.Sender, x.SrcDenom)
	switch {
	case x.Granter >= 0 || p.Opt.WGrant > 0:
		// worlds with authz grants: a grantee's exec in the same block may have spent the coins first
		reason = "authz"
	case x.Sentinel:
		reason = "sentinel"
	case x.Memo != "":
		reason = "memo"
	case !x.Amount.IsPositive():
		reason = "nothing-to-send"
	case x.Amount.GT(bal):
		reason = "over-balance"
	case !strings.HasPrefix(x.SrcDenom, "ibc/") && readsAsPath(x.SrcDenom):
		reason = "native-reads-as-path"
	case (rt.V2 || x.Alias) && strings.Contains(baseOfPath(x.Path), "/"):
		reason = "slashed-base-on-v2" // the v2 packet encoding has no room for '/' in a base denomination
	case x.Deferred:
		reason = "deferred" // executed in a later block: the clock may have passed the timeout meanwhile
	case x.Alias:
		reason = "alias" // v2-over-alias has its own send guards (C08)
	case p.tok.rl[rlKey{ci, x.SrcDenom, rt.ID[d]}] != nil:
		reason = "rate-limited-path"
	case !x.FarTimeout:
		reason = "tight-timeout"
	}
	w.Stats.NonTrivial(fmt.Sprintf("xfer-refusal:%s/%d:%s", r.Space, r.Code, reason))
	if reason != "" {
		return
	}
	if _, minted := p.tok.vouchers[ci][x.SrcDenom]; !minted && strings.HasPrefix(x.SrcDenom, "ibc/") {
		return // a voucher the model does not know (cannot happen: held denominations come from the bank snapshot)
	}
	prop := "C30"
	class := "transfer-refused-without-reason"
	if x.Burn {
		prop, class = "C33", "voucher-return-refused-at-send"
	}
	detail := fmt.Sprintf("%s: MsgTransfer of %s %s (path %q) by %s over %s/%s was refused (%s/%d: %s) although the sender holds %s, the timeout is far in the future and no quota, grant or memo is involved",
		rt.Chain[d].ID, x.Amount, x.SrcDenom, x.Path, p.nameOf(ci, x.Sender), rt.Port[d], rt.ID[d], r.Space, r.Code, firstLine(r.Log), bal)
	w.Violate(prop, class, sigDenom(x), detail)
	if prop != "C30" {
		w.Violate("C30", class, sigDenom(x), detail)
	}
}

// baseOfPath strips leading "<port>/channel-<n>/" hops from a denomination path.
func baseOfPath(path string) string {
	for hopShaped(path) {
		path = strings.SplitN(path, "/", 3)[2]
	}
	return path
}

// readsAsPath: a native name whose second '/'-segment is shaped like a channel or client
// identifier (<word>-<digits>) cannot be told apart from "<port>/<id>/<base>" — on its own when
// a third segment follows, or as soon as a hop is prefixed when it has only two.
func readsAsPath(denom string) bool {
	parts := strings.SplitN(denom, "/", 3)
	if len(parts) < 2 || parts[0] == "" {
		return false
	}
	i := strings.LastIndexByte(parts[1], '-')
	if i <= 0 || i == len(parts[1])-1 {
		return false
	}
	for _, c := range parts[1][i+1:] {
		if c < '0' || c > '9' {
			return false
		}
	}
	return true
}
