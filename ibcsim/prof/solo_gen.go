package prof

import (
	"encoding/json"
	"fmt"
	"math/rand"

	connectiontypes "github.com/cosmos/ibc-go/v11/modules/core/03-connection/types"
	channeltypes "github.com/cosmos/ibc-go/v11/modules/core/04-channel/types"
	host "github.com/cosmos/ibc-go/v11/modules/core/24-host"

	"verif/ibcsim/sim"
)

// ---- generator -----------------------------------------------------------------------------------

type soloAct struct {
	Op   sim.Op
	W    int
	Also []sim.Op
}

func soloDivArg(d string) string {
	if d == "" {
		return "-"
	}
	return d
}

// feasible lists the honest next steps of client ci from the REAL state of the chain.
func (p *Solo) feasible(w *sim.World, ci int, v soloView) []soloAct {
	cl := p.Cl[ci]
	var acts []soloAct
	add := func(wt int, op sim.Op) { acts = append(acts, soloAct{Op: op, W: wt}) }

	// header: keep or rotate the key, keep or change the diversifier
	gen := int64(0)
	if w.Chance(0.6) {
		gen = int64(1 + w.Intn(1000))
	}
	div := v.Div
	if w.Chance(0.45) {
		div = []string{"", "delta", "eps", fmt.Sprintf("d%d", w.Intn(50)), p.Cl[(ci+1)%len(p.Cl)].Divs[0]}[w.Intn(5)]
	}
	add(7, sim.Op{K: "hdr", P: ci, S: fmt.Sprintf("%d %s", gen, soloDivArg(div))})

	soloIdx := func() int64 {
		if w.Chance(0.8) {
			return 0
		}
		return 1
	}
	if len(cl.Conns) < 4 {
		add(2, sim.Op{K: "coi", P: ci, T: -1})
		add(4, sim.Op{K: "cot", P: ci, T: -1, S: fmt.Sprint(soloIdx())})
	}
	for _, ct := range cl.Conns {
		c := p.conns[ct]
		end, ok := p.connEnd(c.ID)
		if !ok {
			continue
		}
		switch end.State {
		case connectiontypes.INIT:
			add(6, sim.Op{K: "coa", P: ci, T: ct, S: fmt.Sprint(soloIdx())})
		case connectiontypes.TRYOPEN:
			add(6, sim.Op{K: "coc", P: ci, T: ct})
		case connectiontypes.OPEN:
			if len(cl.Chans) < 7 {
				ord := "U"
				if w.Chance(0.2) {
					ord = "O"
				}
				add(4, sim.Op{K: "cht", P: ci, T: -1, S: fmt.Sprintf("%d %d %s", ct, soloIdx(), ord)})
			}
		}
	}
	pending := 0
	for _, pt := range p.pktSeq {
		pk := p.pkts[pt]
		ch := p.chans[pk.Chan]
		if pk.ToChain || ch == nil || ch.Cli != ci {
			continue
		}
		if p.A.State(ibcStore, host.PacketCommitmentKey(pk.P.SourcePort, pk.P.SourceChannel, pk.P.Sequence)) == nil {
			continue
		}
		pending++
		add(5, sim.Op{K: "ack", P: ci, T: pt})
		add(4, sim.Op{K: "tmo", P: ci, T: pt})
		add(3, sim.Op{K: "toc", P: ci, T: pt})
	}
	for _, ht := range cl.Chans {
		ch := p.chans[ht]
		end := p.A.ChannelEnd(soloPort, ch.ID)
		switch end.State {
		case channeltypes.TRYOPEN:
			add(6, sim.Op{K: "chc", P: ci, T: ht})
		case channeltypes.OPEN:
			if pending < 4 {
				add(5, sim.Op{K: "snd", P: ci, T: -1, S: fmt.Sprint(ht)})
			}
			if pending < 3 && end.Ordering == channeltypes.UNORDERED {
				// the same sequence on a sibling channel (same solo machine channel id): the two
				// packets' acknowledgement / receipt-absence statements are identical
				mine, _ := p.A.App.IBCKeeper.ChannelKeeper.GetNextSequenceSend(p.A.QueryCtx(), soloPort, ch.ID)
				for _, ot := range cl.Chans {
					och := p.chans[ot]
					oend := p.A.ChannelEnd(soloPort, och.ID)
					if ot <= ht || och.SoloID != ch.SoloID || oend.State != channeltypes.OPEN || oend.Ordering != channeltypes.UNORDERED {
						continue
					}
					if theirs, _ := p.A.App.IBCKeeper.ChannelKeeper.GetNextSequenceSend(p.A.QueryCtx(), soloPort, och.ID); theirs == mine {
						acts = append(acts, soloAct{W: 5, Op: sim.Op{K: "snd", P: ci, T: -1, S: fmt.Sprint(ht)}, Also: []sim.Op{{K: "snd", P: ci, T: -1, S: fmt.Sprint(ot)}}})
						break
					}
				}
			}
			seq := uint64(1 + w.Intn(4))
			if end.Ordering == channeltypes.ORDERED {
				seq, _ = p.A.App.IBCKeeper.ChannelKeeper.GetNextSequenceRecv(p.A.QueryCtx(), soloPort, ch.ID)
			}
			add(4, sim.Op{K: "rcv", P: ci, T: -1, S: fmt.Sprintf("%d %d", ht, seq)})
			add(1, sim.Op{K: "ccc", P: ci, T: ht})
			if w.Chance(0.3) {
				add(1, sim.Op{K: "cls", P: ci, T: ht})
			}
		}
	}
	return acts
}

var soloProofKinds = map[string]bool{"coa": true, "cot": true, "coc": true, "cht": true, "chc": true, "ccc": true, "ack": true, "tmo": true, "toc": true, "rcv": true, "hdr": true}

func (p *Solo) honestDelta(w *sim.World) int64 {
	if w.Intn(100) < p.Opt.ZeroDelta {
		return 0
	}
	return []int64{1, 1, 2, 5, 1000, 1_000_000_000}[w.Intn(6)]
}

func (p *Solo) Gen(w *sim.World) []sim.Op {
	o := p.Opt
	// pick a client; frozen ones less often (they cannot make progress)
	ci := w.Intn(len(p.Cl))
	v := p.view(p.Cl[ci].ID)
	if v.Frozen && w.Chance(0.7) {
		ci = w.Intn(len(p.Cl))
		v = p.view(p.Cl[ci].ID)
	}
	if w.Intn(100) < 3 {
		return []sim.Op{{K: "blk", N: int64(w.Dur())}}
	}
	if w.Intn(100) < o.WMisb {
		return p.genMisbehaviour(w, ci, v)
	}
	acts := p.feasible(w, ci, v)
	wts := make([]int, len(acts))
	for i, a := range acts {
		wts[i] = a.W
	}
	chosen := acts[w.Pick(wts...)]
	act := chosen.Op
	if act.T == -1 {
		act.T = w.Tag()
	}
	if !soloProofKinds[act.K] {
		out := []sim.Op{act}
		for _, more := range chosen.Also {
			if more.T == -1 {
				more.T = w.Tag()
			}
			out = append(out, more)
		}
		return out
	}
	act.N = p.honestDelta(w)
	if w.Intn(100) < 22 || act.K == "tmo" {
		if ops := p.genReplayScenario(w, ci, v, act); ops != nil {
			return ops
		}
	}
	if w.Intn(100) >= o.WFault {
		return []sim.Op{act}
	}
	f := act
	muts := []int64{soloMutReplay, soloMutSeq, soloMutTsSigned, soloMutTsPast, soloMutDiv, soloMutPath, soloMutData, soloMutKey, soloMutSigBytes, soloMutSwap}
	mw := []int{30, 9, 8, 9, 9, 8, 9, 8, 8, 0}
	if act.K == "toc" {
		mw[9] = 18
	}
	f.M = muts[w.Pick(mw...)]
	f.X = int64(w.Intn(1 << 16))
	f.C = w.Intn(2)
	if w.Chance(0.8) {
		return []sim.Op{f, act} // the honest twin shows that the fault was the only obstacle
	}
	return []sim.Op{f}
}

// genReplayScenario: an honest step, immediately followed by a relayer that presents the very
// signature the chain has just consumed in a context where everything except the sequence still
// fits (a fresh handshake object with the same counterparty identifiers, the same header, the
// sibling channel's packet with the same sequence), followed by the honest twin.
func (p *Solo) genReplayScenario(w *sim.World, ci int, v soloView, act sim.Op) []sim.Op {
	replay := func(o sim.Op) sim.Op { o.M, o.X, o.N, o.C = soloMutReplay, 0, 0, 0; return o }
	honest := func(o sim.Op) sim.Op { o.M, o.X, o.N, o.C = 0, 0, 0, 0; return o }
	switch act.K {
	case "cot", "cht":
		second := act
		second.T = w.Tag()
		return []sim.Op{act, replay(second), honest(second)}
	case "hdr":
		act.S = fmt.Sprintf("0 %s", soloDivArg(v.Div))
		return []sim.Op{act, replay(act), honest(act)}
	case "ack", "tmo":
		pk := p.pkts[act.T]
		if pk == nil {
			return nil
		}
		for _, pt := range p.pktSeq {
			o := p.pkts[pt]
			och := p.chans[o.Chan]
			if o.ToChain || pt == act.T || och == nil || och.Cli != ci || o.Chan == pk.Chan {
				continue
			}
			if o.P.DestinationChannel != pk.P.DestinationChannel || o.P.Sequence != pk.P.Sequence {
				continue
			}
			if p.A.State(ibcStore, host.PacketCommitmentKey(o.P.SourcePort, o.P.SourceChannel, o.P.Sequence)) == nil {
				continue
			}
			if p.A.ChannelEnd(soloPort, och.ID).Ordering != p.A.ChannelEnd(soloPort, p.chans[pk.Chan].ID).Ordering {
				continue
			}
			second := act
			second.T = pt
			return []sim.Op{act, replay(second), honest(second)}
		}
	case "rcv":
		var ht int64
		var seq uint64
		fmt.Sscanf(act.S, "%d %d", &ht, &seq)
		ch := p.chans[ht]
		if ch == nil || ch.Order != channeltypes.UNORDERED {
			return nil
		}
		for _, ot := range p.Cl[ci].Chans {
			och := p.chans[ot]
			if ot == ht || och.SoloID != ch.SoloID || och.Order != channeltypes.UNORDERED || p.A.ChannelEnd(soloPort, och.ID).State != channeltypes.OPEN {
				continue
			}
			second := act
			second.T = w.Tag()
			second.S = fmt.Sprintf("%d %d", ot, seq)
			return []sim.Op{act, replay(second), honest(second)}
		}
	}
	return nil
}

func (p *Solo) genMisbehaviour(w *sim.World, ci int, v soloView) []sim.Op {
	format := []string{"enc", "enc", "enc", "raw", "raw", "hdr"}[w.Intn(6)]
	op := sim.Op{K: "mis", P: ci, S: format, X: int64(w.Intn(8)), N: int64(w.Intn(50))}
	mayFreeze := p.Opt.FreezeFrom > 0 && p.step >= p.Opt.FreezeFrom
	bad := []int64{soloMutSeq, soloMutTsSigned, soloMutDiv, soloMutPath, soloMutData, soloMutKey, soloMutSigBytes, soloMisSameData, soloMisFirstBad}
	switch {
	case format != "enc" && w.Chance(0.5):
		// on the unchanged tree this evidence format is refused (listed finding); were it honoured
		// the client would freeze, which is what the property asks for
		op.M = 0
		if w.Chance(0.25) {
			op.M = soloMisPastSeq
		}
	case format == "enc" && mayFreeze && w.Chance(0.45):
		op.M = 0
		if w.Chance(0.4) {
			op.M = soloMisPastSeq
		}
	default:
		op.M = bad[w.Intn(len(bad))]
	}
	return []sim.Op{op}
}

// ---- registration --------------------------------------------------------------------------------

func init() {
	register(&sim.Check{
		Prop: "C26",
		Rule: "one world = one real chain with 2-3 06-solomachine clients (single and n-of-n multisig keys, shared key under two diversifiers, initial sequence 1..2^40) whose handshakes " +
			"(ConnOpenTry/Ack/Confirm, ChanOpenTry/Confirm, ChanCloseConfirm), packet flow (recv, ack, timeout incl. non-membership, two-proof timeout-on-close) and header updates are driven by a " +
			"relayer that, before most honest steps, first presents a faulty twin: a replay of a consumed signature, or a signature whose sequence / timestamp / diversifier / path / data / key differs " +
			"from what the chain must check, corrupted signature bytes, exchanged sequences, plus double-signing evidence in three encodings with nine defects. A case is non-trivial when a solo machine " +
			"message reached the chain; distinct = (message kind, fault, outcome, frozen?)",
		NonTrivPrefixes: []string{"solo:"},
		Worlds:          map[string]int{"quick": 96, "thorough": 960},
		NewProfile: func(cfg sim.WorldConfig) sim.Profile {
			var o SoloOptions
			if err := json.Unmarshal(cfg.Extra, &o); err != nil {
				sim.Failf("solo options: %v", err)
			}
			return NewSolo(o)
		},
		MakeConfig: func(tier string, seed int64) sim.WorldConfig {
			r := rand.New(rand.NewSource(seed ^ 0x534f4c4f))
			o := DefaultSoloOptions()
			o.NumClients = 2 + r.Intn(2)
			o.SharedKey = r.Intn(2) == 0
			seqs := []uint64{1, 1, 2, 7, 1000, 1 << 40}
			tss := []uint64{1, 10, 10, 1_700_000_000, 1_700_000_000_000_000_000}
			divs := []string{"alpha", "beta", "gamma", "", "solo-1", "alpha"}
			o.NKeys, o.StartSeq, o.StartTs, o.Divs = nil, nil, nil, nil
			for i := 0; i < o.NumClients; i++ {
				o.NKeys = append(o.NKeys, []int{1, 1, 1, 1, 2, 2, 3}[r.Intn(7)])
				o.StartSeq = append(o.StartSeq, seqs[r.Intn(len(seqs))])
				o.StartTs = append(o.StartTs, tss[r.Intn(len(tss))])
				o.Divs = append(o.Divs, divs[r.Intn(len(divs))])
			}
			o.WFault = 40 + r.Intn(35)
			o.WMisb = 4 + r.Intn(6)
			o.ZeroDelta = 30 + r.Intn(40)
			o.FreezeFrom = []int{0, 40, 70, 100, 120}[r.Intn(5)]
			bz, _ := json.Marshal(o)
			return sim.WorldConfig{Profile: "solo", Steps: steps(tier, 120, 300), Extra: bz}
		},
		Assumptions: []string{
			"the simulator is every solo machine: all signatures of a world come from its signer, whose ledger (which key signed which sequence/timestamp/diversifier/path/data) is the ground truth; secp256k1 signing and protobuf encoding of SignBytes are trusted primitives",
			"what the chain must check (path and value per message) is derived by the harness from the submitted message and the chain's committed state the way the counterparty end is specified by 03-connection/04-channel; a wrong derivation makes honest traffic fail (required probes) and cannot make a faulty signature look right",
			"a verification counts as accepted when its transaction commits (a NOOP answer or a failing transaction commits nothing); the chain executes one transaction per block, so the reference model is sequential (no linearizability search needed)",
			"client recovery (governance substitution), which may legitimately lower sequence and timestamp, and uint64 sequence overflow are outside the quantification of the property and not exercised",
			"seeded sampling: a clean batch is evidence within these bounds, not proof",
		},
		RequiredProbes: []string{
			"setup_two_open_sibling_channels", "accepted_header", "accepted_membership", "accepted_nonmembership", "accepted_two_proof_message", "accepted_multisig", "accepted_equal_timestamp",
			"key_rotated", "diversifier_rotated",
			"refused_replay", "pure_replay_refused_header", "pure_replay_refused_membership", "pure_replay_refused_nonmembership", "control_replay", "control_hdr_replay",
			"refused_sequence", "refused_timestamp", "refused_past", "refused_diversifier", "refused_path", "refused_data", "refused_key", "refused_sigbytes", "refused_swap",
			"control_sequence", "control_timestamp", "control_past", "control_diversifier", "control_path", "control_data", "control_key", "control_sigbytes",
			"refused_hdr_replay", "refused_hdr_sequence", "refused_hdr_timestamp", "refused_hdr_past", "refused_hdr_diversifier", "refused_hdr_path", "refused_hdr_data", "refused_hdr_key", "refused_hdr_sigbytes",
			"control_hdr_sequence", "control_hdr_timestamp", "control_hdr_past", "control_hdr_data",
			"misbehaviour_froze_client", "misbehaviour_past_sequence_froze_client", "misbehaviour_invalid_refused",
			"misbehaviour_of_proof_signatures_submitted",
			"frozen_refused_honest_header", "frozen_refused_honest_membership", "frozen_refused_misbehaviour",
		},
		RequiredFaults: []string{"relay.replay", "relay.sequence", "relay.timestamp", "relay.past", "relay.diversifier", "relay.path", "relay.data", "relay.key", "relay.sigbytes", "relay.bad-evidence"},
	})
}
