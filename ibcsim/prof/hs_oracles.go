package prof

import (
	"fmt"
	"reflect"
	"sort"
	"strings"

	clienttypes "github.com/cosmos/ibc-go/v11/modules/core/02-client/types"
	connectiontypes "github.com/cosmos/ibc-go/v11/modules/core/03-connection/types"
	channeltypes "github.com/cosmos/ibc-go/v11/modules/core/04-channel/types"
	channeltypesv2 "github.com/cosmos/ibc-go/v11/modules/core/04-channel/v2/types"
	host "github.com/cosmos/ibc-go/v11/modules/core/24-host"
	ibcexported "github.com/cosmos/ibc-go/v11/modules/core/exported"

	"verif/ibcsim/sim"
)

func (p *HS) peerConnAt(ci int, id string, ph clienttypes.Height) (connectiontypes.ConnectionEnd, bool) {
	peer := p.C[1-ci]
	var ce connectiontypes.ConnectionEnd
	bz := peer.StateAt(ibcStore, host.ConnectionKey(id), int64(ph.RevisionHeight)-1)
	if bz == nil {
		return ce, false
	}
	return ce, peer.App.AppCodec().Unmarshal(bz, &ce) == nil
}

func (p *HS) peerChanAt(ci int, port, id string, ph clienttypes.Height) (channeltypes.Channel, bool) {
	peer := p.C[1-ci]
	var ch channeltypes.Channel
	bz := peer.StateAt(ibcStore, host.ChannelKey(port, id), int64(ph.RevisionHeight)-1)
	if bz == nil {
		return ch, false
	}
	return ch, peer.App.AppCodec().Unmarshal(bz, &ch) == nil
}

func versionsEqual(a, b []*connectiontypes.Version) bool {
	if len(a) != len(b) {
		return false
	}
	for i := range a {
		if a[i].Identifier != b[i].Identifier || !reflect.DeepEqual(append([]string{}, a[i].Features...), append([]string{}, b[i].Features...)) {
			return false
		}
	}
	return true
}

// expectedPick is the specification's version negotiation: the first locally supported version
// whose identifier the counterparty proposes, with the intersection of the feature sets.
func expectedPick(counterparty []*connectiontypes.Version) (*connectiontypes.Version, bool) {
	local := map[string][]string{"1": {"ORDER_ORDERED", "ORDER_UNORDERED"}}
	for _, id := range []string{"1"} {
		for _, cv := range counterparty {
			if cv.Identifier != id {
				continue
			}
			var inter []string
			for _, f := range local[id] {
				for _, g := range cv.Features {
					if f == g {
						inter = append(inter, f)
						break
					}
				}
			}
			if len(inter) == 0 {
				break // identifier "1" does not allow an empty feature set
			}
			return &connectiontypes.Version{Identifier: id, Features: inter}, true
		}
	}
	return nil, false
}

func sameSet(a, b []string) bool {
	x, y := append([]string{}, a...), append([]string{}, b...)
	sort.Strings(x)
	sort.Strings(y)
	return reflect.DeepEqual(x, y)
}

func (p *HS) afterBlock(ci int, res []*sim.TxResult) {
	w := p.w
	c := p.C[ci]
	conns, chans := p.decodeConns(ci), p.decodeChans(ci)
	prevC, prevH := p.prevConn[ci], p.prevChan[ci]

	// ---- C13(a): connection ends move only INIT->OPEN, TRYOPEN->OPEN; OPEN is absorbing ----
	for id, old := range prevC {
		now, ok := conns[id]
		if !ok {
			w.Violate("C13", "connection-end-vanished", "", fmt.Sprintf("%s: connection %s disappeared", c.ID, id))
			continue
		}
		if old.State == now.State {
			if !reflect.DeepEqual(old, now) {
				w.Violate("C13", "connection-end-mutated", "", fmt.Sprintf("%s: connection %s changed without a state transition: %v -> %v", c.ID, id, old, now))
			}
			continue
		}
		okTr := (old.State == connectiontypes.INIT || old.State == connectiontypes.TRYOPEN) && now.State == connectiontypes.OPEN
		if !okTr {
			w.Violate("C13", "connection-illegal-transition", "", fmt.Sprintf("%s: connection %s moved %s -> %s", c.ID, id, old.State, now.State))
		}
		if old.ClientId != now.ClientId || old.Counterparty.ClientId != now.Counterparty.ClientId || old.DelayPeriod != now.DelayPeriod {
			w.Violate("C13", "connection-identity-changed", "", fmt.Sprintf("%s: connection %s changed client pair or delay during %s -> %s", c.ID, id, old.State, now.State))
		}
		if now.State == connectiontypes.OPEN && len(now.Versions) != 1 {
			w.Violate("C13", "open-without-single-version", "", fmt.Sprintf("%s: connection %s is OPEN with %d versions", c.ID, id, len(now.Versions)))
		}
		w.MixSig(fmt.Sprintf("ct%d:%s>%s", ci, old.State, now.State))
	}
	for id, now := range conns {
		if _, had := prevC[id]; !had {
			if now.State != connectiontypes.INIT && now.State != connectiontypes.TRYOPEN {
				w.Violate("C13", "connection-born-in-wrong-state", "", fmt.Sprintf("%s: connection %s created in state %s", c.ID, id, now.State))
			}
			p.noteID(ci, "connection", id)
		}
	}
	// ---- C12(a): channel ends ----
	for k, old := range prevH {
		now, ok := chans[k]
		if !ok {
			w.Violate("C12", "channel-end-vanished", "", fmt.Sprintf("%s: channel %s disappeared", c.ID, k))
			continue
		}
		if old.State == now.State {
			if !reflect.DeepEqual(old, now) {
				w.Violate("C12", "channel-end-mutated", "", fmt.Sprintf("%s: channel %s changed without a state transition: %v -> %v", c.ID, k, old, now))
			}
			continue
		}
		okTr := ((old.State == channeltypes.INIT || old.State == channeltypes.TRYOPEN) && now.State == channeltypes.OPEN) ||
			(old.State != channeltypes.CLOSED && now.State == channeltypes.CLOSED)
		if !okTr {
			w.Violate("C12", "channel-illegal-transition", "", fmt.Sprintf("%s: channel %s moved %s -> %s", c.ID, k, old.State, now.State))
		}
		if old.Ordering != now.Ordering || !reflect.DeepEqual(old.ConnectionHops, now.ConnectionHops) || old.Counterparty.PortId != now.Counterparty.PortId {
			w.Violate("C12", "channel-identity-changed", "", fmt.Sprintf("%s: channel %s changed ordering, hops or counterparty port during %s -> %s", c.ID, k, old.State, now.State))
		}
		w.MixSig(fmt.Sprintf("ht%d:%s>%s", ci, old.State, now.State))
	}
	for k, now := range chans {
		if _, had := prevH[k]; !had {
			if now.State != channeltypes.INIT && now.State != channeltypes.TRYOPEN {
				w.Violate("C12", "channel-born-in-wrong-state", "", fmt.Sprintf("%s: channel %s created in state %s", c.ID, k, now.State))
			}
			p.noteID(ci, "channel", strings.SplitN(k, "/", 2)[1])
		}
	}
	p.prevConn[ci], p.prevChan[ci] = conns, chans

	// ---- per successful handshake transaction: justified by the counterparty's real state ----
	for _, r := range res {
		lbl := r.Spec.Label
		state := "refused"
		if r.OK() {
			state = "accepted"
		}
		if strings.HasPrefix(lbl, "c") || strings.HasPrefix(lbl, "h") {
			w.Stats.Probe("hs_" + lbl + "_" + state)
			w.MixSig(lbl + state)
		}
		if !r.OK() {
			if lbl != "upd" && lbl != "" {
				w.Stats.NonTrivial("hs-refused:" + lbl + ":" + firstWords(r.Log))
			}
			continue
		}
		p.justify(ci, r, prevC, prevH, conns, chans)
	}

	// ---- C12(c): two OPEN ends agree ----
	if w.Armed("C12") {
		for k, ch := range chans {
			if ch.State != channeltypes.OPEN || len(ch.ConnectionHops) != 1 || ch.ConnectionHops[0] == ibcexported.LocalhostConnectionID {
				continue
			}
			parts := strings.SplitN(k, "/", 2)
			peer, ok := p.prevChan[1-ci][ch.Counterparty.PortId+"/"+ch.Counterparty.ChannelId]
			if !ok || peer.State != channeltypes.OPEN {
				continue
			}
			if peer.Ordering != ch.Ordering || peer.Version != ch.Version || peer.Counterparty.PortId != parts[0] || peer.Counterparty.ChannelId != parts[1] {
				w.Violate("C12", "open-ends-disagree", "", fmt.Sprintf("%s channel %s and its OPEN counterparty %s/%s disagree: %v vs %v", c.ID, k, ch.Counterparty.PortId, ch.Counterparty.ChannelId, ch, peer))
			}
			w.Stats.Probe("both_ends_open_agreement_checked")
		}
		// alias bookkeeping of UNORDERED channels appears exactly at OPEN
		for k, ch := range chans {
			id := strings.SplitN(k, "/", 2)[1]
			alias := c.State(ibcStore, channeltypesv2.AliasKey(id))
			switch {
			case (ch.State == channeltypes.INIT || ch.State == channeltypes.TRYOPEN) && alias != nil:
				w.Violate("C12", "alias-before-open", "", fmt.Sprintf("%s: channel %s is %s but already has v2 alias bookkeeping", c.ID, k, ch.State))
			case ch.State == channeltypes.OPEN && ch.Ordering == channeltypes.UNORDERED && alias == nil:
				w.Violate("C12", "alias-missing-at-open", "", fmt.Sprintf("%s: UNORDERED channel %s is OPEN without v2 alias bookkeeping", c.ID, k))
			case ch.Ordering == channeltypes.ORDERED && alias != nil:
				w.Violate("C12", "alias-on-ordered-channel", "", fmt.Sprintf("%s: ORDERED channel %s has v2 alias bookkeeping", c.ID, k))
			}
		}
	}
}

func firstWords(s string) string {
	s = firstLine(s)
	if i := strings.Index(s, ": "); i > 0 && i < 80 {
		s = s[i+2:]
	}
	if len(s) > 60 {
		s = s[:60]
	}
	// strip numbers so that signatures group by reason
	var sb strings.Builder
	for _, c := range s {
		if c < '0' || c > '9' {
			sb.WriteRune(c)
		}
	}
	return sb.String()
}

// noteID: C15 — identifiers a chain hands out are unique, valid and parse back.
func (p *HS) noteID(ci int, kind, id string) {
	w := p.w
	key := kind + ":" + id
	if p.ids[ci][key] {
		w.Violate("C15", "identifier-reused", "", fmt.Sprintf("%s generated %s identifier %s twice", p.C[ci].ID, kind, id))
	}
	p.ids[ci][key] = true
	var seq uint64
	var err error
	var back string
	switch kind {
	case "connection":
		if !connectiontypes.IsValidConnectionID(id) || host.ConnectionIdentifierValidator(id) != nil {
			w.Violate("C15", "generated-identifier-invalid", "", id)
		}
		seq, err = connectiontypes.ParseConnectionSequence(id)
		back = connectiontypes.FormatConnectionIdentifier(seq)
	case "channel":
		if !channeltypes.IsValidChannelID(id) || host.ChannelIdentifierValidator(id) != nil {
			w.Violate("C15", "generated-identifier-invalid", "", id)
		}
		seq, err = channeltypes.ParseChannelSequence(id)
		back = channeltypes.FormatChannelIdentifier(seq)
	case "client":
		if !clienttypes.IsValidClientID(id) || host.ClientIdentifierValidator(id) != nil {
			w.Violate("C15", "generated-identifier-invalid", "", id)
		}
		var typ string
		typ, seq, err = clienttypes.ParseClientIdentifier(id)
		back = clienttypes.FormatClientIdentifier(typ, seq)
	}
	if err != nil || back != id {
		w.Violate("C15", "identifier-does-not-round-trip", "", fmt.Sprintf("%s identifier %s parses to (%d, %v) and formats back to %q", kind, id, seq, err, back))
	}
	w.Stats.NonTrivial(fmt.Sprintf("id:%s:%d", kind, min64(int64(seq), 6)))
}

func (p *HS) justify(ci int, r *sim.TxResult, prevC map[string]connectiontypes.ConnectionEnd, prevH map[string]channeltypes.Channel,
	conns map[string]connectiontypes.ConnectionEnd, chans map[string]channeltypes.Channel) {
	w := p.w
	c := p.C[ci]
	bad := func(prop, class, detail string) { w.Violate(prop, class, "", c.ID+": "+detail) }
	for _, m := range r.Spec.Msgs {
		switch msg := m.(type) {
		case *connectiontypes.MsgConnectionOpenInit:
			if msg.ClientId == ibcexported.LocalhostClientID {
				bad("C13", "connection-handshake-over-localhost", "ConnOpenInit over the localhost client succeeded")
			}
			w.Stats.NonTrivial("conn-init:" + versionSig([]*connectiontypes.Version{msg.Version}))
		case *connectiontypes.MsgConnectionOpenTry:
			if msg.ClientId == ibcexported.LocalhostClientID {
				bad("C13", "connection-handshake-over-localhost", "ConnOpenTry over the localhost client succeeded")
				continue
			}
			peer, ok := p.peerConnAt(ci, msg.Counterparty.ConnectionId, msg.ProofHeight)
			switch {
			case !ok:
				bad("C13", "try-without-counterparty-init", fmt.Sprintf("ConnOpenTry accepted, but the counterparty has no connection %q at version %d", msg.Counterparty.ConnectionId, msg.ProofHeight.RevisionHeight-1))
			case peer.State != connectiontypes.INIT:
				bad("C13", "try-without-counterparty-init", fmt.Sprintf("ConnOpenTry accepted against counterparty %s in state %s", msg.Counterparty.ConnectionId, peer.State))
			case peer.ClientId != msg.Counterparty.ClientId || peer.Counterparty.ClientId != msg.ClientId:
				bad("C13", "try-client-pair-mismatch", fmt.Sprintf("ConnOpenTry accepted: counterparty end has clients (%s,%s), message says (%s,%s)", peer.ClientId, peer.Counterparty.ClientId, msg.Counterparty.ClientId, msg.ClientId))
			case peer.DelayPeriod != msg.DelayPeriod:
				bad("C13", "try-delay-mismatch", fmt.Sprintf("ConnOpenTry accepted with delay %d, counterparty stored %d", msg.DelayPeriod, peer.DelayPeriod))
			case !versionsEqual(peer.Versions, msg.CounterpartyVersions):
				bad("C13", "try-versions-not-proven", fmt.Sprintf("ConnOpenTry accepted with counterparty versions %v, counterparty stored %v", msg.CounterpartyVersions, peer.Versions))
			}
			// the version this end stored
			id, _ := sim.EventAttr(r.Events, connectiontypes.EventTypeConnectionOpenTry, connectiontypes.AttributeKeyConnectionID)
			if now, ok := conns[id]; ok {
				want, can := expectedPick(msg.CounterpartyVersions)
				switch {
				case !can:
					bad("C13", "negotiation-should-have-failed", fmt.Sprintf("ConnOpenTry accepted counterparty versions %v although no version is common", msg.CounterpartyVersions))
				case len(now.Versions) != 1 || now.Versions[0].Identifier != want.Identifier || !sameSet(now.Versions[0].Features, want.Features):
					bad("C13", "wrong-version-picked", fmt.Sprintf("ConnOpenTry stored versions %v, the specification picks %v from %v", now.Versions, want, msg.CounterpartyVersions))
				}
			}
			w.Stats.NonTrivial("conn-try:" + versionSig(msg.CounterpartyVersions))
		case *connectiontypes.MsgConnectionOpenAck:
			local := prevC[msg.ConnectionId]
			peer, ok := p.peerConnAt(ci, msg.CounterpartyConnectionId, msg.ProofHeight)
			switch {
			case !ok || peer.State != connectiontypes.TRYOPEN:
				bad("C13", "ack-without-counterparty-try", fmt.Sprintf("ConnOpenAck of %s accepted, counterparty %q is %v (exists=%v)", msg.ConnectionId, msg.CounterpartyConnectionId, peer.State, ok))
			case peer.Counterparty.ConnectionId != msg.ConnectionId:
				bad("C13", "ack-for-foreign-try", fmt.Sprintf("ConnOpenAck of %s accepted, but counterparty %s was opened towards %q", msg.ConnectionId, msg.CounterpartyConnectionId, peer.Counterparty.ConnectionId))
			case peer.ClientId != local.Counterparty.ClientId || peer.Counterparty.ClientId != local.ClientId:
				bad("C13", "ack-client-pair-mismatch", fmt.Sprintf("ConnOpenAck of %s accepted with mismatching client pair", msg.ConnectionId))
			case peer.DelayPeriod != local.DelayPeriod:
				bad("C13", "ack-delay-mismatch", fmt.Sprintf("ConnOpenAck of %s accepted with delay %d vs %d", msg.ConnectionId, local.DelayPeriod, peer.DelayPeriod))
			case len(peer.Versions) != 1 || !versionsEqual(peer.Versions, []*connectiontypes.Version{msg.Version}):
				bad("C13", "ack-version-not-proven", fmt.Sprintf("ConnOpenAck of %s accepted with version %v, counterparty stored %v", msg.ConnectionId, msg.Version, peer.Versions))
			}
			w.Stats.NonTrivial("conn-ack")
		case *connectiontypes.MsgConnectionOpenConfirm:
			local := prevC[msg.ConnectionId]
			peer, ok := p.peerConnAt(ci, local.Counterparty.ConnectionId, msg.ProofHeight)
			switch {
			case local.State != connectiontypes.TRYOPEN:
				bad("C13", "confirm-from-wrong-state", fmt.Sprintf("ConnOpenConfirm of %s accepted in state %s", msg.ConnectionId, local.State))
			case !ok || peer.State != connectiontypes.OPEN:
				bad("C13", "confirm-without-counterparty-open", fmt.Sprintf("ConnOpenConfirm of %s accepted, counterparty %q is %v (exists=%v)", msg.ConnectionId, local.Counterparty.ConnectionId, peer.State, ok))
			case peer.Counterparty.ConnectionId != msg.ConnectionId || !versionsEqual(peer.Versions, local.Versions) || peer.DelayPeriod != local.DelayPeriod:
				bad("C13", "confirm-mismatch", fmt.Sprintf("ConnOpenConfirm of %s accepted against a counterparty end that does not mirror it", msg.ConnectionId))
			}
			w.Stats.NonTrivial("conn-confirm")
		case *channeltypes.MsgChannelOpenInit:
			p.checkChanConn(ci, prevC, msg.Channel.ConnectionHops, msg.Channel.Ordering, "ChanOpenInit")
			w.Stats.NonTrivial("chan-init:" + msg.Channel.Ordering.String())
		case *channeltypes.MsgChannelOpenTry:
			conn := p.checkChanConn(ci, prevC, msg.Channel.ConnectionHops, msg.Channel.Ordering, "ChanOpenTry")
			peer, ok := p.peerChanAt(ci, msg.Channel.Counterparty.PortId, msg.Channel.Counterparty.ChannelId, msg.ProofHeight)
			switch {
			case !ok || peer.State != channeltypes.INIT:
				bad("C12", "try-without-counterparty-init", fmt.Sprintf("ChanOpenTry accepted, counterparty %s/%s is %v (exists=%v)", msg.Channel.Counterparty.PortId, msg.Channel.Counterparty.ChannelId, peer.State, ok))
			case peer.Ordering != msg.Channel.Ordering:
				bad("C12", "try-ordering-mismatch", fmt.Sprintf("ChanOpenTry accepted as %s, counterparty is %s", msg.Channel.Ordering, peer.Ordering))
			case peer.Counterparty.PortId != msg.PortId:
				bad("C12", "try-port-mismatch", fmt.Sprintf("ChanOpenTry on port %s accepted, counterparty expects port %s", msg.PortId, peer.Counterparty.PortId))
			case peer.Version != msg.CounterpartyVersion:
				bad("C12", "try-version-not-proven", fmt.Sprintf("ChanOpenTry accepted with counterparty version %q, counterparty stored %q", msg.CounterpartyVersion, peer.Version))
			case len(peer.ConnectionHops) != 1 || peer.ConnectionHops[0] != conn.Counterparty.ConnectionId:
				bad("C12", "try-hops-mismatch", fmt.Sprintf("ChanOpenTry accepted over %v, counterparty channel runs over %v (expected %s)", msg.Channel.ConnectionHops, peer.ConnectionHops, conn.Counterparty.ConnectionId))
			}
			w.Stats.NonTrivial("chan-try:" + msg.Channel.Ordering.String())
		case *channeltypes.MsgChannelOpenAck:
			local := prevH[msg.PortId+"/"+msg.ChannelId]
			peer, ok := p.peerChanAt(ci, local.Counterparty.PortId, msg.CounterpartyChannelId, msg.ProofHeight)
			switch {
			case local.State != channeltypes.INIT:
				bad("C12", "ack-from-wrong-state", fmt.Sprintf("ChanOpenAck of %s/%s accepted in state %s", msg.PortId, msg.ChannelId, local.State))
			case !ok || peer.State != channeltypes.TRYOPEN:
				bad("C12", "ack-without-counterparty-try", fmt.Sprintf("ChanOpenAck of %s/%s accepted, counterparty %s/%s is %v (exists=%v)", msg.PortId, msg.ChannelId, local.Counterparty.PortId, msg.CounterpartyChannelId, peer.State, ok))
			case peer.Counterparty.PortId != msg.PortId || peer.Counterparty.ChannelId != msg.ChannelId:
				bad("C12", "ack-for-foreign-try", fmt.Sprintf("ChanOpenAck of %s/%s accepted, but counterparty %s was opened towards %s/%s", msg.PortId, msg.ChannelId, msg.CounterpartyChannelId, peer.Counterparty.PortId, peer.Counterparty.ChannelId))
			case peer.Ordering != local.Ordering || peer.Version != msg.CounterpartyVersion:
				bad("C12", "ack-mismatch", fmt.Sprintf("ChanOpenAck of %s/%s accepted with ordering/version not matching the counterparty end", msg.PortId, msg.ChannelId))
			}
			w.Stats.NonTrivial("chan-ack")
		case *channeltypes.MsgChannelOpenConfirm:
			local := prevH[msg.PortId+"/"+msg.ChannelId]
			peer, ok := p.peerChanAt(ci, local.Counterparty.PortId, local.Counterparty.ChannelId, msg.ProofHeight)
			switch {
			case local.State != channeltypes.TRYOPEN:
				bad("C12", "confirm-from-wrong-state", fmt.Sprintf("ChanOpenConfirm of %s/%s accepted in state %s", msg.PortId, msg.ChannelId, local.State))
			case !ok || peer.State != channeltypes.OPEN:
				bad("C12", "confirm-without-counterparty-open", fmt.Sprintf("ChanOpenConfirm of %s/%s accepted, counterparty is %v (exists=%v)", msg.PortId, msg.ChannelId, peer.State, ok))
			case peer.Counterparty.PortId != msg.PortId || peer.Counterparty.ChannelId != msg.ChannelId || peer.Ordering != local.Ordering || peer.Version != local.Version:
				bad("C12", "confirm-mismatch", fmt.Sprintf("ChanOpenConfirm of %s/%s accepted against a counterparty end that does not mirror it", msg.PortId, msg.ChannelId))
			}
			w.Stats.NonTrivial("chan-confirm")
		case *channeltypes.MsgChannelCloseConfirm:
			local := prevH[msg.PortId+"/"+msg.ChannelId]
			peer, ok := p.peerChanAt(ci, local.Counterparty.PortId, local.Counterparty.ChannelId, msg.ProofHeight)
			if !ok || peer.State != channeltypes.CLOSED {
				bad("C12", "close-confirm-without-closed-counterparty", fmt.Sprintf("ChanCloseConfirm of %s/%s accepted, counterparty is %v (exists=%v)", msg.PortId, msg.ChannelId, peer.State, ok))
			}
			w.Stats.NonTrivial("chan-close-confirm")
		case *channeltypes.MsgChannelCloseInit:
			w.Stats.NonTrivial("chan-close-init")
		}
	}
}

func versionSig(vs []*connectiontypes.Version) string {
	var parts []string
	for _, v := range vs {
		if v == nil {
			parts = append(parts, "nil")
			continue
		}
		parts = append(parts, fmt.Sprintf("%s%d", v.Identifier, len(v.Features)))
	}
	return strings.Join(parts, "|")
}

// checkChanConn: C13 — a channel opens only on a connection with exactly one negotiated version
// that supports the requested ordering.
func (p *HS) checkChanConn(ci int, prevC map[string]connectiontypes.ConnectionEnd, hops []string, order channeltypes.Order, what string) connectiontypes.ConnectionEnd {
	w := p.w
	if len(hops) != 1 {
		w.Violate("C12", "channel-with-wrong-hop-count", "", fmt.Sprintf("%s accepted with hops %v", what, hops))
		return connectiontypes.ConnectionEnd{}
	}
	conn, ok := prevC[hops[0]]
	if !ok {
		w.Violate("C13", "channel-on-missing-connection", "", fmt.Sprintf("%s accepted on connection %q which does not exist", what, hops[0]))
		return conn
	}
	if hops[0] == ibcexported.LocalhostConnectionID {
		return conn
	}
	supports := false
	if len(conn.Versions) == 1 {
		for _, f := range conn.Versions[0].Features {
			if f == order.String() {
				supports = true
			}
		}
	}
	if len(conn.Versions) != 1 || !supports {
		w.Violate("C13", "channel-on-unsuitable-connection", "", fmt.Sprintf("%s (%s) accepted on connection %s whose versions are %v", what, order, hops[0], conn.Versions))
	}
	return conn
}
