package prof

// Oracles of the callbacks profile (C40), written from the property statement.
//
//	(1) gas     a callback never uses more gas than min(remaining gas, min(user limit, chain max)).
//	            Measured by the contract itself on the meter it is handed (cbCall.Used); the
//	            committed limit comes from the memo the harness wrote (cbCommitLimit); "remaining"
//	            on a real chain is bounded from above by the transaction's gas limit minus the gas
//	            the ante handler provably charged before any message ran (tx size + signature)
//	            minus what earlier callbacks of the same transaction used; the directly driven
//	            middleware (cb_direct.go) knows it exactly. From the transaction: a committed
//	            transaction reports at least ante gas + the gas its callbacks used.
//	(2) source  an acknowledgement / timeout callback that errors, panics or runs out of gas does
//	            not stop the packet: the transaction commits, the commitment is gone, the bank
//	            difference of the block is exactly the ICS-20 effect (refund or nothing) - in
//	            particular the sink the contract paid stays empty.
//	(3) retry   except when the contract ran out of gas on a meter smaller than the committed limit
//	            (the relayer's gas was the reason): the whole transaction fails, no store but the
//	            account store changes, and an amply funded delivery of the same message later
//	            commits.
//	(4) dest    a failing receive callback yields an error acknowledgement and leaves the bank and
//	            transfer stores as they were.

import (
	"fmt"
	"sort"
	"strings"

	storetypes "github.com/cosmos/cosmos-sdk/store/v2/types"
	sdk "github.com/cosmos/cosmos-sdk/types"
	sdkerrors "github.com/cosmos/cosmos-sdk/types/errors"

	transfertypes "github.com/cosmos/ibc-go/v11/modules/apps/transfer/types"
	host "github.com/cosmos/ibc-go/v11/modules/core/24-host"
	hostv2 "github.com/cosmos/ibc-go/v11/modules/core/24-host/v2"

	"verif/ibcsim/sim"
)

const cbProp = "C40"

// cbMargin is the slack allowed between the dry-run gas of a message (free callback, success
// path) and the real execution (other acknowledgement bytes, other sequence number encoding).
const cbMargin = 60_000

type cbSnap struct {
	Bal    map[string]sdk.Coins
	Stores map[string]map[string]string
}

func (p *CB) snap(c *cbChain) *cbSnap {
	s := &cbSnap{Bal: c.Balances(), Stores: map[string]map[string]string{}}
	for _, k := range c.App.GetStoreKeys() {
		if kv, ok := k.(*storetypes.KVStoreKey); ok {
			s.Stores[kv.Name()] = c.Dump(kv.Name())
		}
	}
	return s
}

// storeDiff lists the keys of store name whose value differs between a and b (sorted, capped).
func cbStoreDiff(a, b *cbSnap, name string) []string {
	var out []string
	x, y := a.Stores[name], b.Stores[name]
	for _, k := range cbSortedKeys(x) {
		if v, ok := y[k]; !ok || v != x[k] {
			out = append(out, fmt.Sprintf("%s:%q", name, k))
		}
	}
	for _, k := range cbSortedKeys(y) {
		if _, ok := x[k]; !ok {
			out = append(out, fmt.Sprintf("%s:%q", name, k))
		}
	}
	return out
}

// changedStores lists differing keys over all stores except those in skip.
func cbChanged(a, b *cbSnap, skip ...string) []string {
	var out []string
	for _, name := range cbSortedKeys(a.Stores) {
		skipIt := false
		for _, s := range skip {
			skipIt = skipIt || s == name
		}
		if !skipIt {
			out = append(out, cbStoreDiff(a, b, name)...)
		}
	}
	if len(out) > 6 {
		out = append(out[:6], "...")
	}
	return out
}

// cbDelta is a bank difference keyed by "address denom".
type cbDelta map[string]int64

func (d cbDelta) add(addr, denom string, n int64) {
	k := addr + " " + denom
	d[k] += n
	if d[k] == 0 {
		delete(d, k)
	}
}

func (d cbDelta) String() string {
	var parts []string
	for _, k := range cbSortedKeys(d) {
		parts = append(parts, fmt.Sprintf("%s %+d", k, d[k]))
	}
	if len(parts) == 0 {
		return "(nothing)"
	}
	return strings.Join(parts, "; ")
}

func cbBankDelta(a, b *cbSnap) cbDelta {
	d := cbDelta{}
	for _, addr := range cbSortedKeys(a.Bal) {
		for _, c := range a.Bal[addr] {
			d.add(addr, c.Denom, -c.Amount.Int64())
		}
	}
	for _, addr := range cbSortedKeys(b.Bal) {
		for _, c := range b.Bal[addr] {
			d.add(addr, c.Denom, c.Amount.Int64())
		}
	}
	return d
}

func cbDeltaEqual(a, b cbDelta) bool {
	if len(a) != len(b) {
		return false
	}
	for k, v := range a {
		if b[k] != v {
			return false
		}
	}
	return true
}

// anteLowerBound is gas the ante handler has certainly consumed before the first message of tx
// runs: the per-byte transaction size cost and one secp256k1 signature verification, both read
// from the chain's auth parameters.
func cbAnteLowerBound(c *cbChain, tx *cbTx) uint64 {
	params := c.App.AccountKeeper.GetParams(c.QueryCtx())
	return params.TxSizeCostPerByte*uint64(len(tx.Bytes)) + params.SigVerifyCostSecp256k1
}

type cbJudged struct {
	On     *cbChain
	Typ    int
	Pkts   []*cbPkt
	Res    *cbRes
	Tx     *cbTx
	Gas    uint64
	Rung   int
	Base   uint64
	DryErr error
	Calls  []*cbCall
	Before *cbSnap
	After  *cbSnap
}

func cbIsOutOfGas(r *cbRes) bool {
	return r.Space == sdkerrors.ErrOutOfGas.Codespace() && r.Code == sdkerrors.ErrOutOfGas.ABCICode()
}

// cbGasExhausted also accepts a failure whose reported gas reached the transaction's limit: the
// transaction's meter was exhausted even if the out-of-gas panic was replaced on its way up (the
// transfer module's deferred receive-event emitter dereferences the nil acknowledgement when an
// out-of-gas panic passes through it, turning sdk/11 into a recovered nil-pointer panic).
func cbGasExhausted(r *cbRes, gas uint64) bool {
	return cbIsOutOfGas(r) || (r.GasUsed > 0 && uint64(r.GasUsed) >= gas)
}

func cbProto(v2 bool) string {
	if v2 {
		return "v2"
	}
	return "v1"
}

func (p *CB) commitmentKey(k *cbPkt) []byte {
	if k.V2 {
		return hostv2.PacketCommitmentKey(k.P2.SourceClient, k.P2.Sequence)
	}
	return host.PacketCommitmentKey(k.P1.SourcePort, k.P1.SourceChannel, k.P1.Sequence)
}

// voucher is the bank denomination the destination mints for k's token.
func (p *CB) voucher(k *cbPkt) string {
	rt := p.Routes[k.Route]
	return transfertypes.NewDenom("ufoo", transfertypes.NewHop(transfertypes.PortID, rt.ID[1-k.Src])).IBCDenom()
}

func (p *CB) escrow(k *cbPkt) string {
	rt := p.Routes[k.Route]
	return transfertypes.GetEscrowAddress(transfertypes.PortID, rt.ID[k.Src]).String()
}

// judge evaluates one delivered transaction.
func (p *CB) judge(j *cbJudged) {
	w := p.w
	typ, tn := j.Typ, cbTypeNames[j.Typ]
	proto := cbProto(j.Pkts[0].V2)
	byTag := map[int64]*cbPkt{}
	for _, k := range j.Pkts {
		byTag[k.Tag] = k
	}

	// ---- (1) gas ----------------------------------------------------------------------------
	anteLB := cbAnteLowerBound(j.On, j.Tx)
	var sumUsed uint64
	starved := false // some callback ran out of gas on a meter below its committed limit
	outcome := map[int64]*cbCall{}
	for _, c := range j.Calls {
		k := byTag[c.Tag]
		if c.Foreign || k == nil || c.Type != typ || !k.side(typ).On {
			sim.Failf("callbacks: unexpected contract call %+v during %s of %v", *c, tn, j.Pkts)
		}
		side := k.side(typ)
		lc := cbCommitLimit(side, cbChainMax)
		remUB := uint64(0)
		if j.Gas > anteLB+sumUsed {
			remUB = j.Gas - anteLB - sumUsed
		}
		w.Stats.Probe("cb_" + proto + "_callback")
		w.Stats.Probe("cb_callback_" + tn)
		if c.Used > lc {
			w.Violate(cbProp, "callback-gas-above-committed-limit", "", fmt.Sprintf("%s callback of %s used %d gas (meter limit %d); the memo requests gas_limit %q on a chain whose maximum is %d, so the committed limit is %d", tn, k, c.Used, c.Limit, side.User, cbChainMax, lc))
			return
		}
		if c.Used > remUB {
			w.Violate(cbProp, "callback-gas-above-remaining", "", fmt.Sprintf("%s callback of %s used %d gas (meter limit %d) in a transaction with gas limit %d of which at least %d were spent before the callback (ante %d, earlier callbacks %d): more than the remaining gas", tn, k, c.Used, c.Limit, j.Gas, anteLB+sumUsed, anteLB, sumUsed))
			return
		}
		sumUsed += c.Used
		rel := "eq"
		if c.Limit < lc {
			rel = "lt"
			w.Stats.Probe("cb_meter_below_committed_limit")
		} else {
			w.Stats.Probe("cb_meter_at_committed_limit")
		}
		if !side.NoLimit && side.User != "" && side.User != "0" && lc == cbChainMax && side.User != fmt.Sprint(cbChainMax) {
			w.Stats.Probe("cb_user_limit_above_max_capped")
		}
		if side.NoLimit || side.User == "" || side.User == "0" {
			w.Stats.Probe("cb_user_limit_absent_or_zero")
		}
		if c.Outcome == "oog" && c.Limit < lc {
			starved = true
		}
		if c.Outcome == "oog" && c.Limit == lc {
			w.Stats.Probe("cb_contract_exhausted_committed_limit")
		}
		wr := ""
		if c.Wrote {
			wr = ":w"
		}
		w.Stats.NonTrivial(fmt.Sprintf("cb:%s:%s:%s:%s%s", proto, tn, c.Outcome, rel, wr))
		outcome[c.Tag] = c
	}
	if j.Res.OK() && uint64(j.Res.GasUsed) < anteLB+sumUsed {
		w.Violate(cbProp, "callback-gas-not-charged", "", fmt.Sprintf("%s transaction of %v committed reporting %d gas used, but the ante handler charged at least %d and its callbacks consumed %d on their meters: callback gas was not taken from the transaction's remaining gas", tn, j.Pkts, j.Res.GasUsed, anteLB, sumUsed))
		return
	}

	// ---- failed transaction -------------------------------------------------------------------
	if !j.Res.OK() {
		// acc: the ante handler's sequence increment survives a failed message; the other four
		// are written by every block's begin/end blockers (historical info, proposer, signing info)
		if ch := cbChanged(j.Before, j.After, "acc", "staking", "distribution", "slashing", "mint"); len(ch) > 0 {
			w.Violate(cbProp, "aborted-tx-left-state", "", fmt.Sprintf("%s transaction of %v failed (%s/%d %s) but state changed: %v", tn, j.Pkts, j.Res.Space, j.Res.Code, firstLine(j.Res.Log), ch))
			return
		}
		sendRefused := false
		if typ == cbSend {
			for _, c := range j.Calls {
				sendRefused = sendRefused || c.Outcome != "ok"
			}
		}
		switch {
		case starved:
			w.Stats.Probe("cb_relayer_starved_oog_aborted_tx")
			w.Stats.NonTrivial(fmt.Sprintf("cb:%s:%s:aborted-for-retry", proto, tn))
			for _, c := range j.Calls {
				k := byTag[c.Tag]
				if c.Outcome == "oog" && c.Limit < cbCommitLimit(k.side(typ), cbChainMax) {
					k.Last[typ] = &cbAttempt{Gas: j.Gas, Limit: c.Limit}
				}
			}
		case sendRefused:
			w.Stats.Probe("cb_send_callback_failed_send_refused")
		case j.DryErr != nil:
			w.Stats.Probe("cb_message_fails_even_with_free_callback")
		case !cbGasExhausted(j.Res, j.Gas):
			w.Violate(cbProp, "lifecycle-broken", "", fmt.Sprintf("honest %s of %v failed with %s/%d (%s) although the same message succeeds with a free callback and no callback ran out of relayer-limited gas; contract saw %s", tn, j.Pkts, j.Res.Space, j.Res.Code, firstLine(j.Res.Log), cbCallsString(j.Calls)))
			return
		case j.Gas >= j.Base+sumUsed+cbMargin:
			w.Violate(cbProp, "lifecycle-broken", "", fmt.Sprintf("honest %s of %v ran out of gas with gas limit %d although the message needs %d with a free callback and its callbacks used %d; no callback was limited by the relayer's gas; contract saw %s", tn, j.Pkts, j.Gas, j.Base, sumUsed, cbCallsString(j.Calls)))
			return
		default:
			w.Stats.Probe("cb_tx_out_of_gas_outside_callback")
			if !cbIsOutOfGas(j.Res) {
				w.Stats.Probe("cb_out_of_gas_masked_by_other_panic")
			}
			if len(j.Calls) == 0 {
				w.Stats.NonTrivial(fmt.Sprintf("cb:%s:%s:starved-before-callback", proto, tn))
			}
		}
		return
	}

	// ---- committed transaction --------------------------------------------------------------
	if starved {
		w.Violate(cbProp, "committed-despite-relayer-starved-oog", "", fmt.Sprintf("%s transaction of %v committed although a callback ran out of gas on a meter below its committed limit (the relayer supplied too little): contract saw %s", tn, j.Pkts, cbCallsString(j.Calls)))
		return
	}
	want := cbDelta{}
	vault := j.On.Accounts[cbAccVault].String()
	judgeBank := true
	allRecvFailed := typ == cbRecv
	for _, k := range j.Pkts {
		c := outcome[k.Tag]
		cbFailed := c != nil && c.Outcome != "ok"
		if c != nil && c.Outcome == "ok" && c.Wrote {
			want.add(vault, cbContractDenom, -1)
			want.add(c.Sink, cbContractDenom, +1)
			w.Stats.Probe("cb_ok_callback_write_expected")
		}
		if cbFailed && c.Wrote {
			w.Stats.Probe("cb_failed_callback_had_written_state")
		}
		if k.Last[typ] != nil {
			w.Stats.Probe("cb_retry_after_abort_committed")
			w.Stats.NonTrivial(fmt.Sprintf("cb:%s:%s:retry-committed", proto, tn))
			k.Last[typ] = nil
		}
		switch typ {
		case cbSend:
			p.packetFromSend(k, j.Res)
			k.SentAt = j.Res.Height
			p.Pkts[k.Tag] = k
			p.Order = append(p.Order, k.Tag)
			if cbFailed {
				// outside the statement (a failing send callback may refuse the send); noted only
				w.Stats.Probe("cb_send_committed_despite_failed_callback")
				judgeBank = false
			}
			want.add(k.Sender, "ufoo", -k.Amount)
			want.add(p.escrow(k), "ufoo", +k.Amount)
			w.Stats.Probe("cb_packet_sent")
		case cbRecv:
			k.Recvd, k.RecvH = true, j.Res.Height
			if !cbAckFromEvents(k, j.Res) {
				if cbFailed {
					w.Violate(cbProp, "dest-callback-failure-no-error-ack", "", fmt.Sprintf("receive of %s committed with a failing destination callback (%s) but wrote no acknowledgement", k, c.Outcome))
					return
				}
				sim.Failf("callbacks: receive of %s committed without an acknowledgement", k)
			}
			if cbFailed {
				if k.AckOK {
					w.Violate(cbProp, "dest-callback-failure-not-error-ack", "", fmt.Sprintf("destination callback of %s failed (%s, meter limit %d) but the receive wrote a SUCCESS acknowledgement", k, c.Outcome, c.Limit))
					return
				}
				w.Stats.Probe("cb_dest_callback_failed_error_ack")
			}
			if k.AckOK {
				allRecvFailed = false
				want.add(k.Receiver, p.voucher(k), +k.Amount)
			}
		default: // acknowledgement / timeout on the source
			k.Done = true
			if v := j.On.State("ibc", p.commitmentKey(k)); v != nil {
				w.Violate(cbProp, "packet-not-completed", "", fmt.Sprintf("%s of %s committed but the packet commitment is still stored", tn, k))
				return
			}
			if typ == cbTmo || !k.AckOK {
				want.add(p.escrow(k), "ufoo", -k.Amount)
				want.add(k.Sender, "ufoo", +k.Amount)
			}
			if cbFailed {
				w.Stats.Probe("cb_source_" + tn + "_callback_failed_packet_completed")
			}
		}
	}
	got := cbBankDelta(j.Before, j.After)
	if judgeBank && !cbDeltaEqual(got, want) {
		class := "application-effects-differ"
		for _, c := range j.Calls {
			if c.Outcome != "ok" && c.Sink != "" && got[c.Sink+" "+cbContractDenom] != 0 {
				class = "failed-callback-state-persisted"
			}
		}
		w.Violate(cbProp, class, "", fmt.Sprintf("%s of %v committed; bank difference of the block is [%s], the packet outcome and the callbacks that succeeded explain exactly [%s]; contract saw %s", tn, j.Pkts, got, want, cbCallsString(j.Calls)))
		return
	}
	if allRecvFailed {
		if ch := append(cbStoreDiff(j.Before, j.After, "bank"), cbStoreDiff(j.Before, j.After, "transfer")...); len(ch) > 0 {
			w.Violate(cbProp, "dest-callback-failure-app-state-changed", "", fmt.Sprintf("receive of %v ended in error acknowledgements but application state changed: %v", j.Pkts, ch))
			return
		}
	}
	for _, c := range j.Calls {
		if c.Outcome == "ok" && c.Wrote {
			w.Stats.Probe("cb_ok_callback_write_persisted")
		} else if c.Wrote {
			w.Stats.Probe("cb_failed_callback_write_discarded")
		}
	}
}

func cbCallsString(calls []*cbCall) string {
	if len(calls) == 0 {
		return "no callback invocation"
	}
	var parts []string
	for _, c := range calls {
		parts = append(parts, fmt.Sprintf("{%s %s: meter limit %d, used %d, %s, wrote=%v}", cbTypeNames[c.Type], c.Addr, c.Limit, c.Used, c.Outcome, c.Wrote))
	}
	return strings.Join(parts, " ")
}

var _ = sort.Strings
