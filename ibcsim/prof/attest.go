package prof

import (
	"encoding/hex"
	"encoding/json"
	"fmt"
	"math/rand"
	"sort"
	"strings"

	"github.com/ethereum/go-ethereum/common"

	clienttypes "github.com/cosmos/ibc-go/v11/modules/core/02-client/types"
	clientv2types "github.com/cosmos/ibc-go/v11/modules/core/02-client/v2/types"
	channeltypesv2 "github.com/cosmos/ibc-go/v11/modules/core/04-channel/v2/types"
	host "github.com/cosmos/ibc-go/v11/modules/core/24-host"
	"github.com/cosmos/ibc-go/v11/modules/light-clients/attestations"

	"verif/ibcsim/sim"
)

// ---- attest profile (C28): an attestations light client fed by simulated attestors -------------
//
// Chain A is a real simapp hosting 2-3 attestations clients, each with its own attestor set
// (a subset of a ring of deterministic secp256k1 keys), quorum, address spelling and IBC v2
// counterparty. The attested chain E exists only in the simulator (a height counter and a
// clock): what matters for the property is who signed which bytes, not whether the attested
// facts are true. The relayer assembles client updates, membership / non-membership proofs and
// v2 packet messages whose proofs are attestations, honest or broken in one or two dimensions
// (signature list, payload, heights, path hashing, commitments).
//
// Operations:
//
//	ablk N=dt(s)                                     block on A; E advances one height
//	aupd P=client S=json([]attState)                 MsgUpdateClient tx with one or two updates
//	avcm P=client S=json(attState)                   VerifyClientMessage on the light client module
//	amem P=client X=route S=json(attQuery)           VerifyMembership (route 0: light client module, 1: 02-client keeper)
//	anon P=client X=route S=json(attQuery)           VerifyNonMembership
//	asnd P=client T=tag N=timeout delta(s)           MsgSendPacket A -> E
//	aack T=tag S=json(attPkt)                        MsgAcknowledgement proven by an attestation
//	atmo T=tag S=json(attPkt)                        MsgTimeout proven by an attestation of absence
//	arcv P=client T=tag N=seq M=timeout delta(s) S=json(attPkt)   MsgRecvPacket of a packet E -> A

type AttClientOpt struct {
	Att    []int `json:"att"`    // ring indexes of the configured attestors
	Q      int   `json:"q"`      // quorum
	Style  int   `json:"style"`  // spelling of the addresses in the client state
	SubSec bool  `json:"subsec"` // the initial consensus timestamp has a sub-second part
}

type AttOptions struct {
	Ring    int            `json:"ring"`
	Clients []AttClientOpt `json:"clients"`
	Prefix  string         `json:"prefix"` // single-element merkle prefix of the counterparty
	HugeTS  bool           `json:"huge_ts"`
	MaxPkts int            `json:"max_pkts"`
	CalmPct int            `json:"calm_pct"` // share of the steps during which freezing steps are rare

	WBlk, WUpd, WVcm, WMem, WNon, WSend, WAck, WTmo, WRecv int
}

func DefaultAttOptions() AttOptions {
	return AttOptions{Ring: 9, Prefix: "", HugeTS: true, MaxPkts: 6, CalmPct: 60,
		Clients: []AttClientOpt{{Att: []int{0, 1, 2, 3, 4}, Q: 3}, {Att: []int{3, 4, 5}, Q: 2}},
		WBlk:    8, WUpd: 22, WVcm: 18, WMem: 20, WNon: 16, WSend: 4, WAck: 5, WTmo: 4, WRecv: 5}
}

// attSig describes one entry of a signature list.
type attSig struct {
	K int `json:"k"`           // ring index of the signer
	D int `json:"d,omitempty"` // what it signed: 0 this payload, 1 payload with the last bit flipped, 2 payload || 0x00
	T int `json:"t,omitempty"` // hashing scheme (attHashScheme): 0 = the right domain tag
	M int `json:"m,omitempty"` // byte mutation of the finished signature (attMutateSig)
}

// attState describes a client update.
type attState struct {
	H    uint64   `json:"h"`
	TS   uint64   `json:"ts"` // seconds
	Mut  int      `json:"mut,omitempty"`
	Sigs []attSig `json:"sigs"`
}

type attEnt struct {
	P int `json:"p"` // path reference (attEntPath)
	C int `json:"c"` // commitment reference (attEntCommitment)
}

// attPkt describes a packet attestation proof.
type attPkt struct {
	Rev  uint64   `json:"rev,omitempty"`
	PH   uint64   `json:"ph"` // proof height handed to the client
	H    uint64   `json:"h"`  // attested height inside the payload
	Ents []attEnt `json:"ents"`
	Mut  int      `json:"mut,omitempty"`
	PM   int      `json:"pm,omitempty"` // mutation of the marshalled proof
	Sigs []attSig `json:"sigs"`
}

// attQuery is a direct membership / non-membership query.
type attQuery struct {
	attPkt
	QK int    `json:"qk"` // path kind
	QN uint64 `json:"qn"`
	VK int    `json:"vk"` // value kind
}

type attClient struct {
	Idx    int
	ID     string
	CP     string // counterparty client id on E
	Opt    AttClientOpt
	Pubs   [][]byte
	inSet  map[int]bool
	cons   map[uint64]uint64 // consensus timestamps (ns) read from the real store
	frozen bool              // read from the real store
	latest uint64
	eSeq   uint64 // next sequence of an E -> A packet
}

func (c *attClient) heights() []uint64 {
	out := make([]uint64, 0, len(c.cons))
	for h := range c.cons {
		out = append(out, h)
	}
	sort.Slice(out, func(i, j int) bool { return out[i] < out[j] })
	return out
}

type attPktState struct {
	Tag     int64
	Cl      int
	Pkt     channeltypesv2.Packet
	Inbound bool
	Done    bool
}

type Attest struct {
	Opt  AttOptions
	w    *sim.World
	A    *sim.Chain
	Keys []*attKey
	Cl   []*attClient
	eH   uint64
	Pkts map[int64]*attPktState
	ord  []int64

	deadOps int // operations executed while every client was frozen
}

func NewAttest(o AttOptions) *Attest { return &Attest{Opt: o} }

func (p *Attest) Name() string { return "attest" }

func (p *Attest) now() uint64 { return uint64(p.A.LastTime.Unix()) }

func attAddr(k *attKey, style int) string {
	hx := hex.EncodeToString(k.Addr[:])
	switch style {
	case 1:
		return "0x" + hx
	case 2:
		return hx
	case 3:
		return "0x" + strings.ToUpper(hx)
	default:
		return common.BytesToAddress(k.Addr[:]).Hex() // EIP-55 mixed case
	}
}

func (p *Attest) Setup(w *sim.World) {
	p.w = w
	p.A = sim.NewChain(0, sim.ChainConfig{ChainID: "simchain-1"}, w.Stats)
	w.Chains = []*sim.Chain{p.A}
	p.Pkts = map[int64]*attPktState{}
	for i := 0; i < p.Opt.Ring; i++ {
		p.Keys = append(p.Keys, newAttKey(i))
	}
	p.eH = 40
	creator := p.A.Accounts[1]
	for i, co := range p.Opt.Clients {
		cl := &attClient{Idx: i, Opt: co, inSet: map[int]bool{}, cons: map[uint64]uint64{}, CP: fmt.Sprintf("evmclient-%d", i), eSeq: 1}
		var addrs []string
		for _, k := range co.Att {
			if k < 0 || k >= len(p.Keys) || cl.inSet[k] {
				sim.Failf("attest options: bad attestor index %d", k)
			}
			cl.inSet[k] = true
			cl.Pubs = append(cl.Pubs, p.Keys[k].Pub)
			addrs = append(addrs, attAddr(p.Keys[k], co.Style))
		}
		initH := p.eH - uint64(10*(i+1))
		ts := p.now() * 1_000_000_000
		if co.SubSec {
			ts += 500_000_000
		}
		msg, err := clienttypes.NewMsgCreateClient(attestations.NewClientState(addrs, uint32(co.Q), initH), &attestations.ConsensusState{Timestamp: ts}, creator.String())
		sim.Must(err, "MsgCreateClient(attestations)")
		r := p.A.Deliver(sim.DefaultBlockInterval, creator, 0, msg)
		if !r.OK() {
			sim.Failf("creating attestations client %d failed: %s/%d %s", i, r.Space, r.Code, r.Log)
		}
		id, ok := sim.EventAttr(r.Events, clienttypes.EventTypeCreateClient, clienttypes.AttributeKeyClientID)
		if !ok {
			sim.Failf("no client id in create_client events")
		}
		cl.ID = id
		r = p.A.Deliver(sim.DefaultBlockInterval, creator, 0, clientv2types.NewMsgRegisterCounterparty(id, [][]byte{[]byte(p.Opt.Prefix)}, cl.CP, creator.String()))
		if !r.OK() {
			sim.Failf("registering the counterparty of %s failed: %s/%d %s", id, r.Space, r.Code, r.Log)
		}
		p.Cl = append(p.Cl, cl)
		p.refresh(cl, initH)
		if cl.frozen || cl.cons[initH] != ts || cl.latest != initH {
			sim.Failf("client %s: unexpected initial state (frozen %v, latest %d, ts %d)", id, cl.frozen, cl.latest, cl.cons[initH])
		}
	}
}

// refresh re-reads the ground truth about a client from A's committed store: frozen flag,
// latest height, and the consensus timestamps of the given heights.
func (p *Attest) refresh(cl *attClient, hs ...uint64) {
	cdc := p.A.App.AppCodec()
	bz := p.A.State(ibcStore, host.FullClientStateKey(cl.ID))
	if bz == nil {
		sim.Failf("client state of %s vanished", cl.ID)
	}
	csI, err := clienttypes.UnmarshalClientState(cdc, bz)
	sim.Must(err, "unmarshal client state")
	cs, ok := csI.(*attestations.ClientState)
	if !ok {
		sim.Failf("client %s holds a %T", cl.ID, csI)
	}
	cl.frozen = cs.IsFrozen
	cl.latest = cs.LatestHeight
	for _, h := range hs {
		bz := p.A.State(ibcStore, host.FullConsensusStateKey(cl.ID, clienttypes.NewHeight(0, h)))
		if bz == nil {
			delete(cl.cons, h)
			continue
		}
		ccI, err := clienttypes.UnmarshalConsensusState(cdc, bz)
		sim.Must(err, "unmarshal consensus state")
		cc, ok := ccI.(*attestations.ConsensusState)
		if !ok {
			sim.Failf("client %s holds a consensus state %T", cl.ID, ccI)
		}
		cl.cons[h] = cc.Timestamp
	}
}

func (p *Attest) client(i int) *attClient {
	if i < 0 || i >= len(p.Cl) {
		return nil
	}
	return p.Cl[i]
}

func (p *Attest) Drain(w *sim.World) []sim.Op { return nil }

func (p *Attest) Finish(w *sim.World) {
	for _, cl := range p.Cl {
		if cl.frozen {
			w.Stats.Probe("world_ends_with_frozen_client")
		}
	}
}

// ---- generator ----------------------------------------------------------------------------------

func attJSON(v any) string {
	bz, err := json.Marshal(v)
	sim.Must(err, "op json")
	return string(bz)
}

// pickClient prefers clients that are still alive; a frozen one is chosen now and then (and
// always when nothing else is left) so that "a frozen client accepts nothing" keeps being tried.
func (p *Attest) pickClient(w *sim.World, frozenShare float64) *attClient {
	var live, dead []*attClient
	for _, c := range p.Cl {
		if c.frozen {
			dead = append(dead, c)
		} else {
			live = append(live, c)
		}
	}
	if len(dead) > 0 && (len(live) == 0 || w.Chance(frozenShare)) {
		return dead[w.Intn(len(dead))]
	}
	return live[w.Intn(len(live))]
}

func (p *Attest) foreign(cl *attClient) []int {
	var out []int
	for i := range p.Keys {
		if !cl.inSet[i] {
			out = append(out, i)
		}
	}
	return out
}

// genSigs draws a signature list. good = what an honest relayer with enough attestors submits.
func (p *Attest) genSigs(w *sim.World, cl *attClient, good bool) []attSig {
	n, q := len(cl.Opt.Att), cl.Opt.Q
	perm := w.Rng.Perm(n)
	att := func(i int) int { return cl.Opt.Att[perm[i%n]] }
	frn := p.foreign(cl)
	var out []attSig
	validN := func(m int) {
		for i := 0; i < m && i < n; i++ {
			out = append(out, attSig{K: att(i)})
		}
	}
	harmless := []int{1, 2, 10} // high-s twin, v+27, both: still signatures of the same signer
	scen := 0
	if !good {
		scen = 1 + w.Pick(12, 16, 12, 14, 8, 6, 8, 8, 3, 8)
	}
	switch scen {
	case 0: // honest: q..n distinct attestors
		validN(q + w.Intn(n-q+1))
		for i := range out {
			if w.Chance(0.12) {
				out[i].M = harmless[w.Intn(len(harmless))]
			}
		}
	case 1: // one short of the quorum
		validN(q - 1)
	case 2: // one short, filled up with repeats of an attestor that already signed
		validN(q - 1)
		if len(out) == 0 {
			out = append(out, attSig{K: frn[w.Intn(len(frn))]})
		}
		for k := 1 + w.Intn(2); k > 0; k-- {
			d := out[w.Intn(len(out))]
			d.M = []int{0, 0, 1, 2, 10}[w.Intn(5)]
			out = append(out, d)
		}
	case 3: // one short, filled up with signers outside the set (possibly attestors of another client)
		validN(q - 1)
		for k := 1 + w.Intn(2); k > 0; k-- {
			out = append(out, attSig{K: frn[w.Intn(len(frn))]})
		}
	case 4: // enough attestors, but (too many of them) signed under another domain
		m := q + w.Intn(n-q+1)
		keep := w.Intn(q) // how many sign correctly: 0..q-1
		scheme := []int{1, 1, 1, 2, 2, 3, 4, 5, 6}[w.Intn(9)]
		for i := 0; i < m; i++ {
			s := attSig{K: att(i)}
			if i >= keep {
				s.T = scheme
			}
			out = append(out, s)
		}
	case 5: // enough attestors, but too many signed other bytes
		m := q + w.Intn(n-q+1)
		keep := w.Intn(q)
		for i := 0; i < m; i++ {
			s := attSig{K: att(i)}
			if i >= keep {
				s.D = 1 + w.Intn(2)
			}
			out = append(out, s)
		}
	case 6: // a full quorum plus one bad entry
		validN(q + w.Intn(n-q+1))
		switch w.Intn(4) {
		case 0:
			out = append(out, attSig{K: frn[w.Intn(len(frn))]})
		case 1:
			d := out[w.Intn(len(out))]
			d.M = []int{0, 1}[w.Intn(2)]
			out = append(out, d)
		case 2:
			out = append(out, attSig{K: att(n - 1), M: []int{5, 6, 7}[w.Intn(3)]})
		default:
			out = append(out, attSig{K: att(n - 1), T: 1 + w.Intn(2)})
		}
	case 7: // one short, filled up with attestor signatures of the wrong length
		validN(q - 1)
		for k := 1 + w.Intn(2); k > 0; k-- {
			out = append(out, attSig{K: att(q - 1 + k - 1), M: []int{5, 6, 7}[w.Intn(3)]})
		}
	case 8: // one short, filled up with damaged attestor signatures
		validN(q - 1)
		for k := 1 + w.Intn(2); k > 0; k-- {
			out = append(out, attSig{K: att(q - 1 + k - 1), M: []int{3, 4, 8, 9}[w.Intn(4)]})
		}
	case 9: // empty list
	default: // soup
		for k := w.Intn(n + 3); k > 0; k-- {
			s := attSig{K: w.Intn(len(p.Keys))}
			if w.Chance(0.3) {
				s.D = w.Intn(3)
			}
			if w.Chance(0.3) {
				s.T = w.Intn(7)
			}
			if w.Chance(0.3) {
				s.M = w.Intn(11)
			}
			out = append(out, s)
		}
	}
	w.Rng.Shuffle(len(out), func(i, j int) { out[i], out[j] = out[j], out[i] })
	if out == nil {
		out = []attSig{}
	}
	return out
}

// genState draws a client update for cl.
func (p *Attest) genState(w *sim.World, cl *attClient) attState {
	hs := cl.heights()
	now := p.now()
	st := attState{}
	goodSigs := w.Chance(0.55)
	switch w.Pick(46, 34, 8, 4) {
	case 0: // a height the client does not know yet
		st.H = p.eH
		if _, has := cl.cons[st.H]; has {
			st.H = p.eH + 1 + uint64(w.Intn(3))
		}
		st.TS = now
		switch w.Pick(84, 4, 6, 3, 3) {
		case 1:
			st.TS = 0
		case 2:
			st.TS = now - uint64(w.Intn(1000))
		case 3:
			if p.Opt.HugeTS {
				st.TS = now + 1<<55
			}
		case 4:
			if p.Opt.HugeTS {
				st.TS = ^uint64(0) - uint64(w.Intn(3))
			}
		}
	case 1: // a height the client already stores
		st.H = hs[w.Intn(len(hs))]
		sec := cl.cons[st.H] / 1_000_000_000
		st.TS = sec
		switch w.Pick(40, 18, 10, 4, 10, 10, 4, 4) {
		case 1:
			st.TS = sec + 1
		case 2:
			st.TS = sec - 1
		case 3:
			st.TS = 0
		case 4:
			st.TS = now
		case 5:
			if p.Opt.HugeTS {
				st.TS = sec + 1<<55 // sec*1e9 and (sec+2^55)*1e9 agree modulo 2^64
			}
		case 6:
			if p.Opt.HugeTS {
				st.TS = ^uint64(0)
			}
		case 7:
			st.TS = sec + 18446744074 // just beyond 2^64 ns
		}
		if st.TS != sec || cl.cons[st.H]%1_000_000_000 != 0 {
			goodSigs = w.Chance(p.lethal(w, 0.30)) // a conflicting update with a quorum ends the client's life
		}
	case 2: // a low height never stored
		st.H = uint64(w.Intn(12))
		st.TS = now - 3600
	default: // far future
		st.H = p.eH + 1000 + uint64(w.Intn(1000))
		st.TS = now + 86400
	}
	if w.Chance(0.08) {
		st.Mut = 1 + w.Intn(6)
	}
	st.Sigs = p.genSigs(w, cl, goodSigs)
	return st
}

// genProof draws a packet attestation proof. kind is "mem" or "non"; good asks for what an
// honest relayer would submit; okHeight restricts the honest choice of proof heights.
func (p *Attest) genProof(w *sim.World, cl *attClient, kind string, good bool, okHeight func(h, tsNanos uint64) bool) attPkt {
	hs := cl.heights()
	var cand []uint64
	for _, h := range hs {
		if okHeight == nil || okHeight(h, cl.cons[h]) {
			cand = append(cand, h)
		}
	}
	if len(cand) == 0 {
		cand = hs
	}
	pk := attPkt{PH: cand[w.Intn(len(cand))]}
	pk.H = pk.PH
	decoys := func() {
		for k := w.Intn(3); k > 0; k-- {
			pk.Ents = append(pk.Ents, attEnt{P: 1, C: []int{0, 1, 2, 3}[w.Intn(4)]})
		}
	}
	honestEnts := func() {
		if kind == "mem" {
			pk.Ents = []attEnt{{P: 0, C: 0}}
		} else {
			pk.Ents = []attEnt{{P: 0, C: 1}}
			if w.Chance(0.2) {
				pk.Ents = append(pk.Ents, attEnt{P: 0, C: 1})
			}
		}
		decoys()
	}
	faults := map[string]bool{}
	if !good {
		all := []string{"sigs", "sigs", "sigs", "ents", "ents", "ents", "height", "height", "unstored", "rev", "mut", "pm"}
		faults[all[w.Intn(len(all))]] = true
		if w.Chance(0.2) {
			faults[all[w.Intn(len(all))]] = true
		}
	}
	honestEnts()
	if faults["ents"] {
		pk.Ents = nil
		if kind == "mem" {
			switch w.Pick(20, 14, 10, 10, 12, 6, 10, 8) {
			case 0:
				pk.Ents = []attEnt{{P: 0, C: 2}} // right path, other commitment
			case 1:
				pk.Ents = []attEnt{{P: 2, C: 0}} // path not hashed
			case 2:
				pk.Ents = []attEnt{{P: 3, C: 0}} // wrong hash function
			case 3:
				pk.Ents = []attEnt{{P: 4, C: 0}} // one bit off
			case 4:
				pk.Ents = []attEnt{{P: 0, C: 1}} // attested as absent
			case 5: // nothing attested
			case 6:
				pk.Ents = []attEnt{{P: 1, C: 0}} // the commitment, but under another path
			default:
				pk.Ents = []attEnt{{P: 0, C: 4}, {P: 5, C: 0}}
			}
			decoys()
		} else {
			switch w.Pick(22, 14, 14, 14, 8, 8, 6, 6) {
			case 0:
				pk.Ents = []attEnt{{P: 0, C: 0}} // the path holds a commitment
			case 1:
				pk.Ents = []attEnt{{P: 0, C: 1}, {P: 0, C: 0}} // zero first, then non-zero
			case 2:
				pk.Ents = []attEnt{{P: 0, C: 3}, {P: 0, C: 1}} // non-zero first, then zero
			case 3:
				decoys() // the path is not attested at all
				pk.Ents = append(pk.Ents, attEnt{P: 1, C: 1})
			case 4:
				pk.Ents = []attEnt{{P: 4, C: 1}}
			case 5:
				pk.Ents = []attEnt{{P: 2, C: 1}}
			case 6: // nothing attested
			default:
				pk.Ents = []attEnt{{P: 0, C: 1}, {P: 1, C: 1}, {P: 0, C: 3}}
			}
		}
	}
	w.Rng.Shuffle(len(pk.Ents), func(i, j int) { pk.Ents[i], pk.Ents[j] = pk.Ents[j], pk.Ents[i] })
	if faults["height"] {
		switch w.Intn(4) {
		case 0:
			pk.H = pk.PH + 1
		case 1:
			pk.H = pk.PH - 1
		case 2:
			pk.H = 0
		default: // attested at another height the client knows
			pk.H = hs[w.Intn(len(hs))]
		}
	}
	if faults["unstored"] {
		pk.PH = p.eH + 3 + uint64(w.Intn(50))
		pk.H = pk.PH
	}
	if faults["rev"] {
		pk.Rev = 1 + uint64(w.Intn(2))
	}
	if faults["mut"] {
		pk.Mut = 1 + w.Intn(6)
	}
	if faults["pm"] {
		pk.PM = 1 + w.Intn(2)
	}
	pk.Sigs = p.genSigs(w, cl, !faults["sigs"])
	if pk.Ents == nil {
		pk.Ents = []attEnt{}
	}
	return pk
}

func (p *Attest) openPkts(inbound bool) []*attPktState {
	var out []*attPktState
	for _, t := range p.ord {
		ps := p.Pkts[t]
		if ps.Inbound == inbound && !ps.Done {
			out = append(out, ps)
		}
	}
	return out
}

// lethal scales the chance of a step that freezes a client: small in the first part of a world
// (so that clients live long enough to be exercised), the given one afterwards.
func (p *Attest) lethal(w *sim.World, late float64) float64 {
	if len(w.Log) < w.Cfg.Steps*p.Opt.CalmPct/100 {
		return late / 12
	}
	return late
}

func (p *Attest) Gen(w *sim.World) []sim.Op {
	o := p.Opt
	live := 0
	for _, c := range p.Cl {
		if !c.frozen {
			live++
		}
	}
	if live == 0 && p.deadOps >= 40 {
		return nil // every client is frozen and the frozen behaviour has been sampled
	}
	blk := []sim.Op{{K: "ablk", N: int64(1 + w.Intn(30))}}
	switch w.Pick(o.WBlk, o.WUpd, o.WVcm, o.WMem, o.WNon, o.WSend, o.WAck, o.WTmo, o.WRecv) {
	case 0:
		if w.Chance(0.2) {
			blk[0].N = int64(60 + w.Intn(600))
		}
		return blk
	case 1:
		cl := p.pickClient(w, 0.12)
		ups := []attState{p.genState(w, cl)}
		if w.Chance(0.12) { // two updates in one transaction
			second := p.genState(w, cl)
			if w.Chance(p.lethal(w, 0.5)) { // equivocation: same height, another timestamp, both well signed
				second.H = ups[0].H
				second.TS = ups[0].TS + 1 + uint64(w.Intn(2))
				second.Mut, ups[0].Mut = 0, 0
				second.Sigs = p.genSigs(w, cl, true)
				ups[0].Sigs = p.genSigs(w, cl, true)
			}
			ups = append(ups, second)
		}
		return []sim.Op{{K: "aupd", P: cl.Idx, S: attJSON(ups)}}
	case 2:
		cl := p.pickClient(w, 0.2)
		return []sim.Op{{K: "avcm", P: cl.Idx, S: attJSON(p.genState(w, cl))}}
	case 3, 4:
		kind, k := "mem", "amem"
		if w.Pick(o.WMem, o.WNon) == 1 {
			kind, k = "non", "anon"
		}
		cl := p.pickClient(w, 0.2)
		q := attQuery{attPkt: p.genProof(w, cl, kind, w.Chance(0.35), nil), QN: uint64(1 + w.Intn(5))}
		if w.Chance(0.18) {
			q.QK = 1 + w.Intn(7)
		}
		if kind == "mem" && w.Chance(0.16) {
			q.VK = 1 + w.Intn(5)
		}
		return []sim.Op{{K: k, P: cl.Idx, X: int64(w.Pick(70, 30)), S: attJSON(q)}}
	case 5:
		cl := p.pickClient(w, 0.05)
		if len(p.openPkts(false)) >= o.MaxPkts {
			return blk
		}
		return []sim.Op{{K: "asnd", P: cl.Idx, T: w.Tag(), N: int64(15 + w.Intn(90))}}
	case 6:
		open := p.openPkts(false)
		if len(open) == 0 {
			return blk
		}
		ps := open[w.Intn(len(open))]
		cl := p.Cl[ps.Cl]
		return []sim.Op{{K: "aack", T: ps.Tag, S: attJSON(p.genProof(w, cl, "mem", w.Chance(0.5), nil))}}
	case 7:
		open := p.openPkts(false)
		if len(open) == 0 {
			return blk
		}
		ps := open[w.Intn(len(open))]
		cl := p.Cl[ps.Cl]
		late := func(h, ts uint64) bool { return ts/1_000_000_000 >= ps.Pkt.TimeoutTimestamp }
		good := w.Chance(0.55)
		if good && !cl.frozen {
			ready := false
			for _, h := range cl.heights() {
				ready = ready || late(h, cl.cons[h])
			}
			if !ready {
				// an honest relayer first waits for the timeout on E and brings the client there
				if p.now() < ps.Pkt.TimeoutTimestamp {
					return []sim.Op{{K: "ablk", N: int64(ps.Pkt.TimeoutTimestamp-p.now()) + 1}}
				}
				h := p.eH
				if _, has := cl.cons[h]; has {
					h++
				}
				return []sim.Op{{K: "aupd", P: cl.Idx, S: attJSON([]attState{{H: h, TS: p.now(), Sigs: p.genSigs(w, cl, true)}})}}
			}
		}
		return []sim.Op{{K: "atmo", T: ps.Tag, S: attJSON(p.genProof(w, cl, "non", good, late))}}
	default:
		open := p.openPkts(true)
		if len(open) > 0 && w.Chance(0.45) {
			ps := open[w.Intn(len(open))]
			cl := p.Cl[ps.Cl]
			return []sim.Op{{K: "arcv", P: cl.Idx, T: ps.Tag, N: int64(ps.Pkt.Sequence), S: attJSON(p.genProof(w, cl, "mem", w.Chance(0.6), nil))}}
		}
		if len(open) >= o.MaxPkts {
			return blk
		}
		cl := p.pickClient(w, 0.05)
		return []sim.Op{{K: "arcv", P: cl.Idx, T: w.Tag(), N: int64(cl.eSeq), M: int64(300 + w.Intn(3000)), S: attJSON(p.genProof(w, cl, "mem", w.Chance(0.5), nil))}}
	}
}

// ---- registration -------------------------------------------------------------------------------

func attMakeOptions(r *rand.Rand) AttOptions {
	o := DefaultAttOptions()
	o.Ring = 9
	o.Clients = nil
	for i, nc := 0, 2+r.Intn(2); i < nc; i++ {
		n := 1 + r.Intn(6)
		if r.Intn(4) == 0 {
			n = 1 + r.Intn(2)
		}
		perm := r.Perm(o.Ring - 1) // key 8 is never an attestor of any client
		co := AttClientOpt{Att: append([]int{}, perm[:n]...), Style: r.Intn(4), SubSec: r.Intn(8) == 0}
		switch r.Intn(4) {
		case 0:
			co.Q = n
		case 1:
			co.Q = 1 + n/2
		case 2:
			co.Q = (2*n + 2) / 3
		default:
			co.Q = 1 + r.Intn(n)
		}
		o.Clients = append(o.Clients, co)
	}
	o.Prefix = []string{"", "", "ibc", "pfx/"}[r.Intn(4)]
	o.CalmPct = []int{25, 50, 70, 85}[r.Intn(4)]
	return o
}

func init() {
	register(&sim.Check{
		Prop: "C28",
		Rule: "one case = one submission (client update tx, VerifyClientMessage, VerifyMembership / VerifyNonMembership on the module or through the 02-client keeper, v2 recv/ack/timeout tx) judged against who really signed which bytes; " +
			"a case is non-trivial when its signature list or payload is broken in at least one dimension or it is accepted; distinct = distinct (use, signature-list shape, quorum relation, content verdict, outcome)",
		NonTrivPrefixes: []string{"att:"},
		Worlds:          map[string]int{"quick": 96, "thorough": 960},
		NewProfile: func(cfg sim.WorldConfig) sim.Profile {
			var o AttOptions
			if err := json.Unmarshal(cfg.Extra, &o); err != nil {
				sim.Failf("attest options: %v", err)
			}
			return NewAttest(o)
		},
		MakeConfig: func(tier string, seed int64) sim.WorldConfig {
			r := rand.New(rand.NewSource(seed ^ 0x4154))
			bz, _ := json.Marshal(attMakeOptions(r))
			return sim.WorldConfig{Profile: "attest", Steps: steps(tier, 420, 420), Extra: bz}
		},
		Assumptions: []string{
			"the attested chain exists only in the simulator: the property relates acceptance to what was signed, not to what is true on the counterparty",
			"seeded sampling of attestor sets (1-6 of a ring of 9 keys), quorums, signature lists and payloads; the universal claim over all inputs is not established",
			"sha256, keccak256 and go-ethereum's ECDSA verification against a known public key are trusted primitives of the reference predicate; public-key recovery, quorum counting, domain separation, ABI decoding and path/commitment matching of the module are not used by the oracle",
			"payloads are canonical ABI encodings plus a few mutations (trailing bytes, truncation, overlong integers, the other attestation type); exotic non-canonical offset layouts are not generated",
		},
		RequiredProbes: attRequiredProbes,
	})
}
