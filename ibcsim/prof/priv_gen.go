package prof

import (
	"fmt"
	"strings"
	"time"

	"verif/ibcsim/sim"
)

// ---- generator of the priv profile ------------------------------------------------------------
//
// Every family draws its arguments so that they are acceptable for a permitted signer, then
// draws the signer from all classes; a refused non-permitted attempt is often followed by its
// twin with a permitted signer (same arguments), and the last privileged message is replayed
// now and then.

// signer weights: authority (gov), creator, creator of another client, listed relayer, some relayer,
// stranger, voter, spoofed signer field
type pvW struct{ gov, creator, other, listed, relayer, stranger, voter, spoof int }

func (p *Priv) localIdx(ci int, addr string) (int, bool) {
	i, ok := p.acct[ci][addr]
	return i, ok
}

func (p *Priv) pickX(ci int, cl *pvClient, sw pvW) int64 {
	w := p.w
	switch w.Pick(sw.gov, sw.creator, sw.other, sw.listed, sw.relayer, sw.stranger, sw.voter, sw.spoof) {
	case 0:
		return -1
	case 1:
		if cl != nil {
			if i, ok := p.localIdx(ci, cl.Creator); ok {
				return int64(i)
			}
			if i, ok := p.localIdx(ci, cl.ExCreator); ok {
				return int64(i)
			}
		}
		return 1
	case 2:
		for _, o := range p.Cl[ci] {
			if o == cl || o.Creator == "" || (cl != nil && (o.Creator == cl.Creator || o.Creator == cl.ExCreator)) {
				continue
			}
			if i, ok := p.localIdx(ci, o.Creator); ok {
				return int64(i)
			}
		}
		return 5
	case 3:
		if cl != nil {
			var loc []int
			for _, a := range cl.Allow {
				if i, ok := p.localIdx(ci, a); ok {
					loc = append(loc, i)
				}
			}
			if len(loc) > 0 {
				return int64(loc[w.Intn(len(loc))])
			}
		}
		return 8
	case 4:
		return int64(8 + w.Intn(7))
	case 5:
		return 6
	case 6:
		return 0
	default:
		if cl != nil && cl.Creator != "" && w.Chance(0.5) {
			return -3
		}
		if w.Chance(0.4) {
			return -4
		}
		return -2
	}
}

var pvAuthOnly = pvW{gov: 40, creator: 10, other: 6, listed: 4, relayer: 10, stranger: 12, voter: 8, spoof: 12}

// permitted reports whether the model would accept signer x for kind on cl (generator aid).
func (p *Priv) permitted(kind string, ci int, cl *pvClient, x int64) bool {
	s, ok := p.signer(ci, x, cl)
	if !ok {
		return false
	}
	a, _ := p.table(pvCase{kind: kind, ci: ci, cl: cl, s: s})
	return a
}

func (p *Priv) pickClient(ci int, wSetup int) *pvClient {
	w := p.w
	if len(p.Cl[ci]) == 1 || w.Intn(100) < wSetup {
		return p.Cl[ci][0]
	}
	return p.Cl[ci][w.Intn(len(p.Cl[ci]))]
}

func (p *Priv) Gen(w *sim.World) []sim.Op {
	o := p.Opt
	for try := 0; try < 8; try++ {
		ci := w.Intn(2)
		var ops []sim.Op
		switch w.Pick(o.WTraffic, o.WCfg, o.WReg, o.WDel, o.WMk, o.WRec, o.WUpg, o.WPar, o.WRl, o.WTypes, o.WJmp, o.WReplay) {
		case 0:
			ops = p.genTraffic(ci)
		case 1:
			ops = p.genCfg(ci)
		case 2:
			ops = p.genReg(ci)
		case 3:
			ops = p.genDel(ci)
		case 4:
			ops = p.genMk(ci)
		case 5:
			ops = p.genRec(ci)
		case 6:
			x := p.pickX(ci, nil, pvAuthOnly)
			n := int64(w.Intn(50))
			ops = []sim.Op{{K: "upg", C: ci, X: x, N: n}}
			if x != -1 && w.Chance(0.6) {
				ops = append(ops, sim.Op{K: "upg", C: ci, X: -1, N: n})
			}
		case 7:
			ops = p.genPar(ci)
		case 8:
			ops = p.genRl(ci)
		case 9:
			ops = p.genTypes(ci)
		case 10:
			d := time.Duration(20+w.Intn(100)) * time.Second
			switch w.Intn(10) {
			case 0, 1, 2:
				d = time.Duration(4+w.Intn(16)) * time.Minute
			case 3:
				d = time.Duration(1+w.Intn(3)) * time.Hour
			}
			ops = []sim.Op{{K: "jmp", N: int64(d)}}
		case 11:
			if p.hasLast {
				ops = []sim.Op{p.last}
			}
		}
		if len(ops) > 0 {
			return ops
		}
	}
	return []sim.Op{{K: "jmp", N: int64(5 * time.Second)}}
}

// gatedX draws the signer of a relayer-gated message and, for an unlisted signer on a client
// with an allow list, often the twin by a listed one.
func (p *Priv) gatedOps(ci int, cl *pvClient, op sim.Op) []sim.Op {
	w := p.w
	sw := pvW{creator: 6, other: 2, listed: 40, relayer: 34, stranger: 10, voter: 4}
	if len(cl.Allow) == 0 {
		sw = pvW{creator: 10, other: 5, relayer: 60, stranger: 15, voter: 5}
	}
	op.X = p.pickX(ci, cl, sw)
	kind := map[string]string{"upd": "update", "rcv": "recv", "ack": "ack", "tmo": "timeout"}[op.K]
	ops := []sim.Op{op}
	if !p.permitted(kind, ci, cl, op.X) && w.Chance(0.75) {
		twin := op
		twin.X = p.pickX(ci, cl, pvW{listed: 1})
		if p.permitted(kind, ci, cl, twin.X) {
			ops = append(ops, twin)
		}
	}
	return ops
}

func (p *Priv) genTraffic(ci int) []sim.Op {
	w := p.w
	// pending packets in order
	var pend []*pvPkt
	for _, t := range p.ord {
		if ps := p.Pkts[t]; ps != nil && !ps.Done {
			pend = append(pend, ps)
		}
	}
	switch w.Pick(25, 50, 25) {
	case 0:
		if len(pend) >= p.Opt.MaxPkts {
			return nil
		}
		// a client with a registered counterparty whose counterparty points back
		var cands []*pvClient
		for _, cl := range p.Cl[ci] {
			if cl.CP == "" {
				continue
			}
			if pc := p.clientByID(1-ci, cl.CP); pc != nil && pc.CP == cl.ID {
				cands = append(cands, cl)
			}
		}
		if len(cands) == 0 {
			return nil
		}
		cl := cands[w.Intn(len(cands))]
		x := int64(2 + w.Intn(2))
		if w.Chance(0.3) {
			x = p.pickX(ci, cl, pvW{creator: 2, listed: 3, relayer: 3, stranger: 2})
			if x < 0 {
				x = 2
			}
		}
		tmo := int64(600 + w.Intn(3000))
		if w.Chance(0.35) {
			tmo = int64(5 + w.Intn(60)) // soon to time out
		}
		return []sim.Op{{K: "snd", C: ci, P: cl.Idx, X: x, T: w.Tag(), N: tmo}}
	case 1:
		if len(pend) == 0 {
			return nil
		}
		ps := pend[w.Intn(len(pend))]
		now := uint64(p.Now.Unix())
		switch {
		case ps.Recv && ps.HasAck:
			if cl := p.clientByID(ps.Src, ps.Pkt.SrcCli); cl != nil {
				return p.gatedOps(ps.Src, cl, sim.Op{K: "ack", T: ps.Tag})
			}
		case !ps.Recv && now >= ps.Timeout:
			if cl := p.clientByID(ps.Src, ps.Pkt.SrcCli); cl != nil {
				return p.gatedOps(ps.Src, cl, sim.Op{K: "tmo", T: ps.Tag})
			}
		case !ps.Recv && now+20 >= ps.Timeout && w.Chance(0.7):
			// let it time out
			return []sim.Op{{K: "jmp", N: int64(time.Duration(ps.Timeout-now+2) * time.Second)}}
		case !ps.Recv:
			if cl := p.clientByID(1-ps.Src, ps.Pkt.DstCli); cl != nil {
				return p.gatedOps(1-ps.Src, cl, sim.Op{K: "rcv", T: ps.Tag})
			}
		}
		return nil
	default:
		cl := p.pickClient(ci, 55)
		if w.Chance(0.12) || (pvContains(cl.Allow, sim.Authority()) && w.Chance(0.5)) {
			return []sim.Op{{K: "upd", C: ci, P: cl.Idx, X: -1}}
		}
		return p.gatedOps(ci, cl, sim.Op{K: "upd", C: ci, P: cl.Idx})
	}
}

// relayerList draws an allow list spec.
func (p *Priv) relayerList(ci int, cl *pvClient) string {
	w := p.w
	var parts []string
	n := []int{0, 1, 1, 2, 2, 3}[w.Intn(6)]
	perm := w.Rng.Perm(6)
	for i := 0; i < n; i++ {
		parts = append(parts, fmt.Sprint(8+perm[i]))
	}
	if n > 0 && w.Chance(0.15) {
		if i, ok := p.localIdx(ci, cl.Creator); ok {
			parts = append(parts, fmt.Sprint(i))
		}
	}
	if w.Chance(0.12) {
		parts = append(parts, "g")
	}
	return strings.Join(parts, ",")
}

func (p *Priv) genCfg(ci int) []sim.Op {
	w := p.w
	cl := p.pickClient(ci, 60)
	if w.Chance(0.06) {
		cl = p.ghost[ci]
	}
	x := p.pickX(ci, cl, pvW{gov: 18, creator: 34, other: 10, listed: 8, relayer: 10, stranger: 8, voter: 4, spoof: 8})
	op := sim.Op{K: "cfg", C: ci, P: cl.Idx, X: x, S: p.relayerList(ci, cl)}
	ops := []sim.Op{op}
	if !p.permitted("config", ci, cl, x) && w.Chance(0.6) {
		twin := op
		twin.X = -1
		if cl.Creator != "" && w.Chance(0.6) {
			twin.X = p.pickX(ci, cl, pvW{creator: 1})
		}
		ops = append(ops, twin)
	}
	return ops
}

func (p *Priv) genReg(ci int) []sim.Op {
	w := p.w
	cl := p.pickClient(ci, 20)
	// prefer clients that can still be registered
	if w.Chance(0.6) {
		for _, c := range p.Cl[ci] {
			if c.CP == "" && c.Creator != "" {
				cl = c
				break
			}
		}
	}
	if w.Chance(0.3) {
		// a client whose creator has been deleted before any counterparty was registered
		for _, c := range p.Cl[ci] {
			if c.CP == "" && c.Creator == "" {
				cl = c
				break
			}
		}
	}
	if w.Chance(0.07) {
		cl = p.ghost[ci]
	}
	cp := cl.Idx
	if cp < 0 || cp >= len(p.Cl[1-ci]) || w.Chance(0.25) {
		cp = w.Intn(len(p.Cl[1-ci]) + 1) // one past the end: an identifier without a client
	}
	x := p.pickX(ci, cl, pvW{gov: 10, creator: 34, other: 14, listed: 6, relayer: 8, stranger: 10, voter: 4, spoof: 14})
	op := sim.Op{K: "reg", C: ci, P: cl.Idx, X: x, M: int64(cp)}
	ops := []sim.Op{op}
	if !p.permitted("register", ci, cl, x) && cl.Creator != "" && cl.CP == "" && w.Chance(0.5) {
		twin := op
		twin.X = p.pickX(ci, cl, pvW{creator: 1})
		ops = append(ops, twin)
		if w.Chance(0.5) {
			ops = append(ops, twin) // and once more: only once
		}
	}
	return ops
}

func (p *Priv) genDel(ci int) []sim.Op {
	w := p.w
	cl := p.pickClient(ci, 15)
	if w.Chance(0.05) {
		cl = p.ghost[ci]
	}
	x := p.pickX(ci, cl, pvW{gov: 14, creator: 22, other: 14, listed: 8, relayer: 14, stranger: 14, voter: 6, spoof: 8})
	op := sim.Op{K: "del", C: ci, P: cl.Idx, X: x}
	ops := []sim.Op{op}
	if !p.permitted("delcreator", ci, cl, x) && cl.Creator != "" && w.Chance(0.4) {
		twin := op
		twin.X = -1
		if w.Chance(0.5) {
			twin.X = p.pickX(ci, cl, pvW{creator: 1})
		}
		ops = append(ops, twin)
	}
	return ops
}

func (p *Priv) genMk(ci int) []sim.Op {
	w := p.w
	if len(p.Cl[ci]) >= p.Opt.MaxClients {
		return nil
	}
	x := []int64{1, 4, 4, 5, 5, 9, 6, 0, -2}[w.Intn(9)]
	var trust int64
	if len(p.Opt.ShortTrust) > 0 && w.Chance(0.7) {
		trust = p.Opt.ShortTrust[w.Intn(len(p.Opt.ShortTrust))]
	}
	return []sim.Op{{K: "mk", C: ci, X: x, N: trust}}
}

func (p *Priv) genRec(ci int) []sim.Op {
	w := p.w
	c := p.C[ci]
	n := len(p.Cl[ci])
	if n < 2 {
		return p.genMk(ci)
	}
	at := p.Now.Add(p.C[ci].GovVotingPeriod() + 10*time.Second)
	sub, subst := -1, -1
	var ops []sim.Op
	if w.Chance(0.9) {
		// a short-lived client that is still Active: let it expire first
		for i, a := range p.Cl[ci] {
			st := p.tmState(ci, a.ID)
			if st == nil || st.TrustingPeriod > 30*time.Minute || c.ClientStatusAt(a.ID, p.Now.Add(time.Second)).String() != "Active" {
				continue
			}
			_, ts, err := c.ClientLatestAt(a.ID, p.Now.Add(time.Second))
			if err != nil {
				continue
			}
			left := time.Unix(0, int64(ts)).Add(st.TrustingPeriod).Sub(p.Now)
			for j, b := range p.Cl[ci] {
				sb := p.tmState(ci, b.ID)
				if i != j && sb != nil && sb.TrustingPeriod > time.Hour && c.ClientStatusAt(b.ID, at).String() == "Active" && p.auxSigner(ci, b) != nil {
					sub, subst = i, j
					break
				}
			}
			if sub >= 0 {
				if left > 0 {
					ops = append(ops, sim.Op{K: "jmp", N: int64(left + 3*time.Second)})
				}
				break
			}
		}
	}
	if sub < 0 && w.Chance(0.85) {
		// a subject that will not be Active, a substitute that can be brought to the peer's tip
		for i, a := range p.Cl[ci] {
			if c.ClientStatusAt(a.ID, p.Now.Add(time.Second)).String() == "Active" {
				continue
			}
			for j, b := range p.Cl[ci] {
				if i != j && c.ClientStatusAt(b.ID, at).String() == "Active" && p.auxSigner(ci, b) != nil {
					sub, subst = i, j
					break
				}
			}
			if sub >= 0 {
				break
			}
		}
	}
	if sub < 0 {
		if len(p.Cl[ci]) < p.Opt.MaxClients && len(p.Opt.ShortTrust) > 0 && w.Chance(0.6) {
			// nothing to recover yet: a client that will expire soon
			return []sim.Op{{K: "mk", C: ci, X: []int64{4, 5}[w.Intn(2)], N: p.Opt.ShortTrust[w.Intn(len(p.Opt.ShortTrust))]}}
		}
		sub = w.Intn(n)
		subst = (sub + 1 + w.Intn(n-1)) % n
	} else {
		b := p.Cl[ci][subst]
		i, _ := p.localIdx(ci, p.auxSigner(ci, b).String())
		ops = append(ops, sim.Op{K: "upd", C: ci, P: subst, X: int64(i)})
	}
	x := p.pickX(ci, nil, pvAuthOnly)
	op := sim.Op{K: "rec", C: ci, P: sub, M: int64(subst), X: x}
	ops = append(ops, op)
	if x != -1 && w.Chance(0.7) {
		twin := op
		twin.X = -1
		ops = append(ops, twin)
	}
	return ops
}

func (p *Priv) genPar(ci int) []sim.Op {
	w := p.w
	var spec string
	switch w.Intn(6) {
	case 0:
		spec = "conn:" + fmt.Sprint(int64(time.Duration(10+w.Intn(50))*time.Second))
	case 1:
		spec = "transfer:" + []string{"sr", "s", "r", "-"}[w.Intn(4)]
	case 2:
		spec = "icahost:" + fmt.Sprint(w.Intn(2))
	case 3:
		spec = "icactl:" + fmt.Sprint(w.Intn(2))
	default:
		// allowed-clients lists that keep tendermint clients usable
		spec = "client:" + []string{"*", "07-tendermint", "06-solomachine,07-tendermint", "07-tendermint,08-wasm,09-localhost"}[w.Intn(4)]
	}
	x := p.pickX(ci, nil, pvAuthOnly)
	op := sim.Op{K: "par", C: ci, X: x, S: spec}
	ops := []sim.Op{op}
	if x != -1 && w.Chance(0.6) {
		twin := op
		twin.X = -1
		ops = append(ops, twin)
	}
	return ops
}

func (p *Priv) genRl(ci int) []sim.Op {
	w := p.w
	have := sim.SortedKeys(p.rl[ci])
	kind := "add"
	if len(have) > 0 {
		kind = []string{"add", "update", "update", "reset", "reset", "remove"}[w.Intn(6)]
	}
	var denom, id string
	if kind == "add" {
		denom = []string{"stake", "ufoo"}[w.Intn(2)]
		id = p.Cl[ci][w.Intn(len(p.Cl[ci]))].ID
		if p.rl[ci][denom+"|"+id] {
			kind = "update"
		}
	} else {
		k := have[w.Intn(len(have))]
		denom, id, _ = strings.Cut(k, "|")
	}
	if w.Chance(0.06) {
		id = pvGhostID
	}
	x := p.pickX(ci, nil, pvAuthOnly)
	op := sim.Op{K: "rl", C: ci, X: x, S: strings.Join([]string{kind, denom, id}, ";"), N: int64(1 + w.Intn(100)), M: int64(1 + w.Intn(100))}
	ops := []sim.Op{op}
	if x != -1 && w.Chance(0.65) {
		twin := op
		twin.X = -1
		ops = append(ops, twin)
	}
	return ops
}

// genTypes: a window during which tendermint clients are not on chain ci's allowed list (or
// are on it explicitly); inside it clients are created, updated and used by permitted signers.
func (p *Priv) genTypes(ci int) []sim.Op {
	w := p.w
	if !p.typeOK(ci) {
		return []sim.Op{{K: "par", C: ci, X: -1, S: "client:*"}}
	}
	cl0 := p.Cl[ci][0]
	aux := p.auxSigner(ci, cl0)
	if aux == nil {
		return nil
	}
	auxIdx, _ := p.localIdx(ci, aux.String())
	var ops []sim.Op
	// a v2 packet from the peer towards ci, made provable before the window opens
	var tag int64
	if pc := p.clientByID(1-ci, cl0.CP); pc != nil && pc.CP == cl0.ID && p.typeOK(1-ci) {
		tag = w.Tag()
		ops = append(ops, sim.Op{K: "snd", C: 1 - ci, P: pc.Idx, X: 2, T: tag, N: 3000})
	}
	ops = append(ops, sim.Op{K: "prep", C: ci})
	list := []string{"06-solomachine", "", "09-localhost,06-solomachine", "08-wasm", "07-tendermint", "06-solomachine,07-tendermint"}[w.Intn(6)]
	ops = append(ops, sim.Op{K: "par", C: ci, X: -1, S: "client:" + list})
	var body []sim.Op
	if tag != 0 {
		body = append(body, sim.Op{K: "rcv", T: tag, X: int64(auxIdx)})
	}
	body = append(body,
		sim.Op{K: "upd", C: ci, P: 0, X: int64(auxIdx)},
		sim.Op{K: "mk", C: ci, X: []int64{1, 4, 5}[w.Intn(3)], N: 900},
		sim.Op{K: "use", C: ci, P: p.pickClient(ci, 40).Idx, X: 6, S: "conninit"},
		sim.Op{K: "use", C: ci, P: 0, X: int64(8 + w.Intn(7)), S: "v1recv"},
		sim.Op{K: "use", C: ci, P: 0, X: 6, S: "chaninit"},
		sim.Op{K: "use", C: ci, P: 0, X: 6, S: "v1send"},
	)
	if cl0.CP != "" {
		body = append(body, sim.Op{K: "snd", C: ci, P: 0, X: 3, T: w.Tag(), N: 2000})
	}
	// random order, random subset (at least three)
	perm := w.Rng.Perm(len(body))
	keep := 3 + w.Intn(len(body)-2)
	for i := 0; i < keep && i < len(perm); i++ {
		ops = append(ops, body[perm[i]])
	}
	if w.Chance(0.85) {
		ops = append(ops, sim.Op{K: "par", C: ci, X: -1, S: "client:*"})
	}
	return ops
}
