package prof

import (
	"bytes"
	"encoding/hex"
	"fmt"

	"github.com/cosmos/gogoproto/proto"

	codectypes "github.com/cosmos/cosmos-sdk/codec/types"
	kmultisig "github.com/cosmos/cosmos-sdk/crypto/keys/multisig"
	"github.com/cosmos/cosmos-sdk/crypto/keys/secp256k1"
	cryptotypes "github.com/cosmos/cosmos-sdk/crypto/types"
	"github.com/cosmos/cosmos-sdk/crypto/types/multisig"
	"github.com/cosmos/cosmos-sdk/types/tx/signing"

	solomachine "github.com/cosmos/ibc-go/v11/modules/light-clients/06-solomachine"

	"verif/ibcsim/sim"
)

// ---- the solo machine's signer and its ledger ---------------------------------------------------
//
// The simulator IS the solo machine: it owns every private key, and every signature that exists in
// a world was produced by soloSigner.sign, which writes down exactly which fields it signed. The
// ledger is the ground truth the oracles judge against: a verification the chain accepts must be
// backed by a ledger entry over exactly the fields the chain was supposed to check.

// soloKeyset is one generation of a solo machine's key: a single secp256k1 key or an n-of-n
// legacy amino multisig. All keys derive from fixed secrets.
type soloKeyset struct {
	Label string
	Privs []cryptotypes.PrivKey
	Pubs  []cryptotypes.PubKey
	Pub   cryptotypes.PubKey // verification key (single key or multisig)
	Any   *codectypes.Any
	ID    string // hex of the packed public key, as it appears in the consensus state
}

func newSoloKeyset(label string, n int) *soloKeyset {
	if n < 1 {
		n = 1
	}
	ks := &soloKeyset{Label: label}
	for i := 0; i < n; i++ {
		sk := secp256k1.GenPrivKeyFromSecret([]byte(fmt.Sprintf("verif-ibcsim/solo/%s/%d", label, i)))
		ks.Privs = append(ks.Privs, sk)
		ks.Pubs = append(ks.Pubs, sk.PubKey())
	}
	if n == 1 {
		ks.Pub = ks.Pubs[0]
	} else {
		ks.Pub = kmultisig.NewLegacyAminoPubKey(n, ks.Pubs)
	}
	a, err := codectypes.NewAnyWithValue(ks.Pub)
	sim.Must(err, "pack solo machine public key")
	ks.Any = a
	ks.ID = anyID(a)
	return ks
}

func anyID(a *codectypes.Any) string {
	if a == nil {
		return ""
	}
	return a.TypeUrl + ":" + hex.EncodeToString(a.Value)
}

// signedFields are the fields of one SignBytes the signer signed.
type signedFields struct {
	Seq  uint64
	Ts   uint64
	Div  string
	Path []byte
	Data []byte
}

func (f signedFields) bytes() []byte {
	bz, err := proto.Marshal(&solomachine.SignBytes{Sequence: f.Seq, Timestamp: f.Ts, Diversifier: f.Div, Path: f.Path, Data: f.Data})
	sim.Must(err, "marshal sign bytes")
	return bz
}

func (f signedFields) String() string {
	return fmt.Sprintf("{seq=%d ts=%d div=%q path=%s data=%x}", f.Seq, f.Ts, f.Div, sim.PrettyKey(f.Path), shortBz(f.Data))
}

func shortBz(b []byte) []byte {
	if len(b) > 10 {
		return b[:10]
	}
	return b
}

// rawSigRec is the ledger entry of one elementary signature (one key, one message).
type rawSigRec struct {
	Idx    int
	Key    string // hex of the elementary public key that signed
	F      signedFields
	Family int // index of the proof record it belongs to
}

// proofRec is one signing act of a solo machine (all keys of the key set over the same fields):
// what a relayer can later present, replay or mutate.
type proofRec struct {
	Idx     int
	Cli     int // client the signature was produced for
	Keyset  *soloKeyset
	F       signedFields
	SigData []byte         // marshalled signing.SignatureDescriptor_Data
	Used    map[string]int // client id -> op index of the committed verification that consumed it
	Absent  bool           // signed as a non-membership statement (no data)
	Kind    string
}

type soloSigner struct {
	raw    map[string]*rawSigRec // raw signature bytes -> entry
	proofs []*proofRec
}

func newSoloSigner() *soloSigner { return &soloSigner{raw: map[string]*rawSigRec{}} }

// sign signs f with every key of ks and records it.
func (s *soloSigner) sign(cli int, ks *soloKeyset, f signedFields, kind string) *proofRec {
	msg := f.bytes()
	rec := &proofRec{Idx: len(s.proofs), Cli: cli, Keyset: ks, F: f, Used: map[string]int{}, Kind: kind, Absent: len(f.Data) == 0}
	var sigs []signing.SignatureData
	for i, sk := range ks.Privs {
		sig, err := sk.Sign(msg)
		sim.Must(err, "solo machine sign")
		sigs = append(sigs, &signing.SingleSignatureData{Signature: sig})
		if _, dup := s.raw[string(sig)]; !dup {
			s.raw[string(sig)] = &rawSigRec{Idx: len(s.raw), Key: hex.EncodeToString(ks.Pubs[i].Bytes()), F: f, Family: rec.Idx}
		}
	}
	var sd signing.SignatureData
	if len(sigs) == 1 {
		sd = sigs[0]
	} else {
		m := multisig.NewMultisig(len(sigs))
		for i, sg := range sigs {
			multisig.AddSignature(m, sg, i)
		}
		sd = m
	}
	bz, err := proto.Marshal(signing.SignatureDataToProto(sd))
	sim.Must(err, "marshal signature data")
	rec.SigData = bz
	s.proofs = append(s.proofs, rec)
	return rec
}

// wrapProof is what a relayer hands to the chain as "proof": signature data plus claimed timestamp.
func wrapProof(sigData []byte, ts uint64) []byte {
	bz, err := proto.Marshal(&solomachine.TimestampedSignatureData{SignatureData: sigData, Timestamp: ts})
	sim.Must(err, "marshal timestamped signature data")
	return bz
}

// rawSigsOf decodes marshalled signature data into its elementary signatures (in order). ok is
// false when the bytes are not signature data at all.
func rawSigsOf(sigData []byte) (out [][]byte, multi bool, ok bool) {
	var d signing.SignatureDescriptor_Data
	if len(sigData) == 0 || proto.Unmarshal(sigData, &d) != nil {
		return nil, false, false
	}
	var walk func(x *signing.SignatureDescriptor_Data) bool
	walk = func(x *signing.SignatureDescriptor_Data) bool {
		if x == nil {
			return false
		}
		switch v := x.Sum.(type) {
		case *signing.SignatureDescriptor_Data_Single_:
			if v.Single == nil {
				return false
			}
			out = append(out, v.Single.Signature)
			return true
		case *signing.SignatureDescriptor_Data_Multi_:
			multi = true
			if v.Multi == nil {
				return false
			}
			for _, y := range v.Multi.Signatures {
				if !walk(y) {
					return false
				}
			}
			return true
		}
		return false
	}
	ok = walk(&d)
	return out, multi, ok
}

// judgeSignature decides, from the ledger alone, whether sigData is a signature by key set ks
// over exactly the fields want. It returns "" when it is, otherwise the name of the first thing
// that does not match (a violation class suffix) and a description.
func (s *soloSigner) judgeSignature(sigData []byte, ks *soloKeyset, want signedFields) (string, string, *proofRec) {
	raws, multi, ok := rawSigsOf(sigData)
	if !ok || len(raws) == 0 {
		return "unsigned", "the presented bytes are not signature data the solo machine produced", nil
	}
	if multi != (len(ks.Privs) > 1) {
		return "key", "signature data kind (single/multi) does not match the registered public key", nil
	}
	covered := map[string]bool{}
	var fam *proofRec
	for _, r := range raws {
		rec := s.raw[string(r)]
		if rec == nil {
			return "unsigned", fmt.Sprintf("signature %x… was never produced by any solo machine key", shortBz(r)), nil
		}
		if fam == nil && rec.Family < len(s.proofs) {
			fam = s.proofs[rec.Family]
		}
		member := false
		for _, pk := range ks.Pubs {
			if hex.EncodeToString(pk.Bytes()) == rec.Key {
				member = true
			}
		}
		if !member {
			return "key", fmt.Sprintf("signature was made by key %s…, which is not the registered key %s", rec.Key[:16], ks.Label), fam
		}
		switch {
		case rec.F.Seq != want.Seq:
			return "sequence", fmt.Sprintf("signed %s, verified as %s", rec.F, want), fam
		case rec.F.Ts != want.Ts:
			return "timestamp", fmt.Sprintf("signed %s, verified as %s", rec.F, want), fam
		case rec.F.Div != want.Div:
			return "diversifier", fmt.Sprintf("signed %s, verified as %s", rec.F, want), fam
		case !bytes.Equal(rec.F.Path, want.Path):
			return "path", fmt.Sprintf("signed %s, verified as %s", rec.F, want), fam
		case !bytes.Equal(rec.F.Data, want.Data):
			return "data", fmt.Sprintf("signed %s, verified as %s", rec.F, want), fam
		}
		covered[rec.Key] = true
	}
	if len(covered) < len(ks.Pubs) {
		return "key", fmt.Sprintf("only %d of the %d required keys signed", len(covered), len(ks.Pubs)), fam
	}
	return "", "", fam
}
