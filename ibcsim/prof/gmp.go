package prof

import (
	"encoding/json"
	"fmt"
	"math/rand"
	"sort"
	"strings"
	"time"

	"github.com/cosmos/gogoproto/proto"

	sdkmath "cosmossdk.io/math"

	codectypes "github.com/cosmos/cosmos-sdk/codec/types"
	sdk "github.com/cosmos/cosmos-sdk/types"
	authtypes "github.com/cosmos/cosmos-sdk/x/auth/types"
	banktypes "github.com/cosmos/cosmos-sdk/x/bank/types"
	distrtypes "github.com/cosmos/cosmos-sdk/x/distribution/types"

	gmptypes "github.com/cosmos/ibc-go/v11/modules/apps/27-gmp/types"
	channeltypesv2 "github.com/cosmos/ibc-go/v11/modules/core/04-channel/v2/types"
	ibcexported "github.com/cosmos/ibc-go/v11/modules/core/exported"

	"verif/ibcsim/sim"
)

// ---- gmp profile: ICS-27 GMP accounts (C39) -----------------------------------------------------
//
// Two real chains A (source) and B (destination) joined by 2 or 11 IBC v2 client pairs with
// registered counterparties. GMP calls reach B over three roads:
//
//	call  a user of A signs a real MsgSendCall (packet sender = bech32 address of the user);
//	snd   a user of A signs MsgSendCall / MsgSendPacket whose packet sender differs from (or equals,
//	      or is a re-spelling of) the transaction signer;
//	inj   a foreign GMP application on A commits a packet with an ARBITRARY sender string (what a
//	      non-Cosmos counterparty would do): the commitment is written through the real v2 keeper
//	      setters in A's next-block context and proven to B like any other packet.
//
// Triples (destination client, sender, salt) are drawn from families whose naive concatenations
// coincide. Payloads hold 1-3 messages: bank sends from the derived account, from a local victim,
// from another GMP account, two-input multisends, messages that fail in bank / ValidateBasic, and
// nested MsgSendCall. Relayers deliver every packet with real proofs, again after it was received,
// and twice in one block.

type GMPOptions struct {
	Routes                                                            int // client pairs; 11 gives the ids 07-tendermint-1 / 07-tendermint-10
	WCall, WInj, WSnd, WFund, WRelay, WDup, WAck, WBlock, WRestart, WJump int
	MaxCalls                                                          int
	NonASCII                                                          bool // the sender pool holds non-ASCII (UTF-8) senders too
}

func DefaultGMPOptions() GMPOptions {
	return GMPOptions{Routes: 2, WCall: 16, WInj: 26, WSnd: 9, WFund: 8, WRelay: 30, WDup: 7, WAck: 5, WBlock: 3, WRestart: 1, WJump: 1, MaxCalls: 60}
}

type gmpRoute struct{ cliA, cliB string }

// gmpTriple identifies a GMP account on the destination.
type gmpTriple struct {
	Client, Sender string
	Salt           []byte
}

// key is an injective rendering of the triple (quoted fields), used as map key by the oracle.
func (t gmpTriple) key() string { return fmt.Sprintf("%q|%q|%x", t.Client, t.Sender, t.Salt) }

// naive is the concatenation without delimiters: triples with equal naive strings are the ones a
// derivation without length prefixes would confuse.
func (t gmpTriple) naive() string { return t.Client + t.Sender + string(t.Salt) }

type gmpTripleState struct {
	T         gmpTriple
	First     string // first address observed for the triple
	FirstSrc  string
	Stored    bool // the destination keeps an account entry for the triple (it was used)
	PreQuery  bool // address was observed before the first use
	PostQuery bool // ... and again after it
	Funded    bool
	PreFunded bool // funded before the first use
	NoAddr    bool // the destination refuses to name an address for the triple
}

// gmpPlan is what the harness knows, by construction, about one message of a payload.
type gmpPlan struct {
	Kind    byte
	Acct    string                  // key of the triple of the payload the message travels in
	Signers []string                // who must sign the message (addresses the harness put into it)
	Effect  map[string]sdkmath.Int // balance / send-sequence change if the message executes; nil = cannot execute
	Need    sdk.Coin                // what the derived account must hold for the message to go through (S, m)
}

type gmpCall struct {
	Tag      int64
	Route    int
	T        gmpTriple
	Pkt      *sim.Pkt
	Plans    []gmpPlan
	Shape    string
	Via      string
	Enc      string
	Received bool
	RecvH    int64
	Ack      *channeltypesv2.Acknowledgement
	Acked    bool
	Dead     bool // timed out before it was received
	Recvs    int
}

type GMP struct {
	w   *sim.World
	A   *sim.Chain
	B   *sim.Chain
	Now time.Time
	Opt GMPOptions

	routes  []gmpRoute
	traffic []int // routes that carry traffic

	triples map[string]*gmpTripleState
	owner   map[string]string // address -> triple key
	calls   map[int64]*gmpCall
	order   []int64

	pool []gmpPoolEntry
}

type gmpPoolEntry struct {
	Route  int
	Sender string
	Salt   []byte
	User   int // index of the A user whose address Sender is (-1: only a foreign application can send it)
	Fam    string
}

func NewGMP(o GMPOptions) *GMP { return &GMP{Opt: o} }

func (p *GMP) Name() string { return "gmp" }

const (
	gmpDenom    = "ufoo"
	gmpFundAmt  = 1_000_000
	gmpNumUsers = 6 // accounts 2..7 of each chain
)

var gmpEncodings = []string{"", gmptypes.EncodingProtobuf, gmptypes.EncodingJSON, gmptypes.EncodingABI}

func (p *GMP) userA(i int) *sim.Account { return p.A.Accounts[2+((i%gmpNumUsers)+gmpNumUsers)%gmpNumUsers] }
func (p *GMP) userB(i int) *sim.Account { return p.B.Accounts[2+((i%gmpNumUsers)+gmpNumUsers)%gmpNumUsers] }

func (p *GMP) Setup(w *sim.World) {
	p.w = w
	clk := &sim.Clock{}
	p.A = sim.NewChain(0, sim.ChainConfig{ChainID: "simchain-1", Clock: clk}, w.Stats)
	p.B = sim.NewChain(1, sim.ChainConfig{ChainID: "simchain-2", Clock: clk}, w.Stats)
	w.Chains = []*sim.Chain{p.A, p.B}
	n := p.Opt.Routes
	if n < 2 {
		n = 2
	}
	for i := 0; i < n; i++ {
		ea, eb := sim.NewClientPair(p.A, p.B, sim.DefaultTMConfig(), sim.DefaultTMConfig())
		va, vb := sim.RegisterV2(ea, eb)
		p.routes = append(p.routes, gmpRoute{cliA: va.ID, cliB: vb.ID})
	}
	p.traffic = []int{0, 1}
	if n >= 11 {
		p.traffic = []int{1, 10, 0}
	}
	p.Now = p.A.LastTime
	if p.B.LastTime.After(p.Now) {
		p.Now = p.B.LastTime
	}
	p.triples = map[string]*gmpTripleState{}
	p.owner = map[string]string{}
	p.calls = map[int64]*gmpCall{}
	p.buildPool()
	p.observeAll("setup")
}

// buildPool lists the triples the generator prefers: families of triples whose concatenations
// coincide, exotic senders and salts. It depends only on the topology (deterministic).
func (p *GMP) buildPool() {
	add := func(fam string, rt int, sender string, salt string, user int) {
		p.pool = append(p.pool, gmpPoolEntry{Route: rt, Sender: sender, Salt: []byte(salt), User: user, Fam: fam})
	}
	r0, r1 := p.traffic[0], p.traffic[1]
	c0, c1 := p.routes[r0].cliB, p.routes[r1].cliB
	u0, u1 := p.userA(0).String(), p.userA(1).String()
	vb := p.userB(0).String()
	for _, rt := range []int{r0, r1} {
		// F1: sender/salt boundary
		add("F1", rt, "ab", "c", -1)
		add("F1", rt, "a", "bc", -1)
		add("F1", rt, "abc", "", -1)
		// F2: a real user's address extended into the salt
		add("F2", rt, u0, "xy", 0)
		add("F2", rt, u0+"x", "y", -1)
		add("F2", rt, u0+"xy", "", -1)
		add("F2", rt, u0, "", 0)
		add("F2", rt, u0[:len(u0)-1], u0[len(u0)-1:], -1)
		add("F2", rt, u0[:len(u0)-1], u0[len(u0)-1:]+"xy", -1)
		add("F5", rt, u1, "xy", 1) // same (sender, salt) on two clients
		add("F5", rt, "abc", "abc", -1)
	}
	// F3: salts and senders that contain the client id
	add("F3", r0, u0, c0, 0)
	add("F3", r0, u0+c0, "", -1)
	add("F3", r0, "a", c0+"a", -1)
	add("F3", r0, "a"+c0, "a", -1)
	add("F3", r0, c1, c1, -1)
	// F4: client-id / sender boundary (07-tendermint-1 | 0abc  vs  07-tendermint-10 | abc)
	if strings.HasPrefix(c1, c0) && len(c1) > len(c0) {
		ext := c1[len(c0):]
		add("F4", r0, ext+"abc", "s", -1)
		add("F4", r1, "abc", "s", -1)
		add("F4", r0, ext+u0, "", -1)
		add("F4", r1, u0, "", 0)
	}
	// F6: exotic spellings
	add("F6", r0, " a", "", -1)
	add("F6", r0, "a ", "", -1)
	if p.Opt.NonASCII {
		// F7: senders outside ASCII (valid UTF-8), pairs that differ in one continuation byte
		add("F7", r0, "ä", "\x00", -1)
		add("F7", r0, "ä", "k", -1)
		add("F7", r0, "ã", "k", -1)
		add("F7", r0, "zoë", "", -1)
		add("F7", r0, "zo", "ë", -1)
		add("F7", r1, "地址一", "s", -1)
		add("F7", r1, "地址二", "s", -1)
	}
	add("F6", r0, "a\x00b", "c", -1) // cannot be stored: the destination must refuse, not confuse
	add("F6", r0, strings.ToUpper(u0), "xy", -1)
	add("F6", r0, vb, "", -1) // a foreign sender spelled like a local account of the destination
	add("F6", r0, "0x52908400098527886E0F7030069857D2E4169EE7", strings.Repeat("\xff", 32), -1)
	add("F6", r0, strings.Repeat("x", gmptypes.MaximumSenderLength), "z", -1)
	add("F6", r0, strings.Repeat("x", gmptypes.MaximumSenderLength+1), "", -1)  // too long: refused
	add("F6", r0, "abc", strings.Repeat("s", gmptypes.MaximumSaltLength+1), -1) // salt too long: refused
	add("F6", r0, "abc", strings.Repeat("s", gmptypes.MaximumSaltLength), -1)
}

func (p *GMP) tick(d time.Duration) { p.Now = p.Now.Add(d) }

// deliver commits a block on c that holds exactly the given transactions (one per signer).
func (p *GMP) deliver(c *sim.Chain, txs ...*sim.TxSpec) []*sim.TxResult {
	p.tick(sim.DefaultBlockInterval)
	return c.Block(p.Now, txs)
}

func (p *GMP) deliver1(c *sim.Chain, signer *sim.Account, label string, msgs ...sdk.Msg) *sim.TxResult {
	return p.deliver(c, &sim.TxSpec{Msgs: msgs, Signer: signer, Label: label})[0]
}

// ---- operations --------------------------------------------------------------------------------
//
//	call    P=route N=user B=salt X=recipe M=encoding T=tag     real MsgSendCall signed by the user
//	inj     P=route S=sender B=salt X=recipe M=encoding T=tag   foreign application commits a packet
//	snd     P=route N=user M=variant S=other B=salt X=recipe T=tag   sender-vs-signer variants
//	fund    P=route S=sender B=salt N=funder                    plain bank send to the triple's address
//	rly     T=tag N=heights back X=1: two relayers in one block
//	ack     T=tag
//	blk     C=chain N=dt
//	restart C=chain

func (p *GMP) route(i int) *gmpRoute {
	if i < 0 || i >= len(p.routes) {
		return nil
	}
	return &p.routes[i]
}

func (p *GMP) Exec(w *sim.World, op sim.Op) {
	switch op.K {
	case "blk":
		p.tick(time.Duration(op.N))
		if op.C == 1 {
			p.B.Block(p.Now, nil)
		} else {
			p.A.Block(p.Now, nil)
		}
	case "restart":
		if op.C == 1 {
			p.B.Restart()
		} else {
			p.A.Restart()
		}
		w.Stats.Probe("gmp_chain_restarted")
	case "call":
		p.execCall(op)
	case "inj":
		p.execInject(op)
	case "snd":
		p.execSendVariant(op)
	case "fund":
		p.execFund(op)
	case "rly":
		p.execRelay(op)
	case "ack":
		p.execAck(op)
	default:
		w.Noop()
		return
	}
	p.observeAll(op.K)
}

func (p *GMP) timeoutFor(recipe int64) uint64 {
	if recipe&(1<<13) != 0 {
		return uint64(p.Now.Unix() + 40)
	}
	return uint64(p.Now.Unix() + 20*3600)
}

func (p *GMP) encoding(i int64) string {
	return gmpEncodings[int(((i%int64(len(gmpEncodings)))+int64(len(gmpEncodings)))%int64(len(gmpEncodings)))]
}

// registerCall records a packet that A really committed. The harness rebuilds the packet from
// what it asked for and checks it against the commitment in A's state (harness sanity).
func (p *GMP) registerCall(tag int64, rt int, t gmpTriple, seq uint64, timeout uint64, payloads []channeltypesv2.Payload, plans []gmpPlan, via, enc string) *gmpCall {
	r := p.routes[rt]
	pk := channeltypesv2.NewPacket(seq, r.cliA, r.cliB, timeout, payloads...)
	pkt := &sim.Pkt{Tag: tag, V2: true, P2: pk, Src: p.A, Dst: p.B, SrcCli: r.cliA, DstCli: r.cliB, SentAt: p.A.Height, SentTm: p.A.LastTime}
	got := p.A.State(ibcexported.StoreKey, pkt.CommitmentKey())
	if string(got) != string(pkt.Commitment()) {
		sim.Failf("gmp: rebuilt packet %s does not match the commitment stored on %s", pkt, p.A.ID)
	}
	shape := ""
	for _, pl := range plans {
		shape += string(pl.Kind)
	}
	c := &gmpCall{Tag: tag, Route: rt, T: t, Pkt: pkt, Plans: plans, Shape: shape, Via: via, Enc: enc}
	p.calls[tag] = c
	p.order = append(p.order, tag)
	p.touch(t)
	return c
}

func (p *GMP) touch(t gmpTriple) *gmpTripleState {
	k := t.key()
	ts := p.triples[k]
	if ts == nil {
		ts = &gmpTripleState{T: gmpTriple{Client: t.Client, Sender: t.Sender, Salt: append([]byte{}, t.Salt...)}}
		p.triples[k] = ts
	}
	return ts
}

func (p *GMP) execCall(op sim.Op) {
	w := p.w
	rt := p.route(op.P)
	if rt == nil || op.T == 0 || p.calls[op.T] != nil {
		w.Noop()
		return
	}
	user := p.userA(int(op.N))
	t := gmpTriple{Client: rt.cliB, Sender: user.String(), Salt: op.B}
	payload, plans := p.buildPayload(t, op.X, op.T, op.P)
	enc := p.encoding(op.M)
	timeout := p.timeoutFor(op.X)
	msg := gmptypes.NewMsgSendCall(rt.cliA, user.String(), "", payload, op.B, timeout, enc, "")
	r := p.deliver1(p.A, user, "gmp-call", msg)
	p.judgeSend("sendcall-own-sender", user, []string{user.String()}, r)
	if !r.OK() {
		return
	}
	var resp gmptypes.MsgSendCallResponse
	if err := sim.UnpackResponse(r, 0, &resp); err != nil {
		sim.Failf("gmp: MsgSendCall response: %v", err)
	}
	pl := p.payloadFor(gmptypes.NewGMPPacketData(user.String(), "", op.B, payload, ""), enc)
	p.registerCall(op.T, op.P, t, resp.Sequence, timeout, []channeltypesv2.Payload{pl}, plans, "call", enc)
	w.Stats.Probe("gmp_sendcall_accepted_sender_is_signer")
}

// payloadFor encodes packet data the way the sending application does ("" = ABI).
func (p *GMP) payloadFor(data gmptypes.GMPPacketData, enc string) channeltypesv2.Payload {
	e := enc
	if e == "" {
		e = gmptypes.EncodingABI
	}
	bz, err := gmptypes.MarshalPacketData(&data, gmptypes.Version, e)
	if err != nil {
		sim.Failf("gmp: cannot encode packet data (%s): %v", e, err)
	}
	return channeltypesv2.NewPayload(gmptypes.PortID, gmptypes.PortID, gmptypes.Version, e, bz)
}

// execInject: a foreign GMP application on A commits a packet with an arbitrary sender string.
func (p *GMP) execInject(op sim.Op) {
	w := p.w
	rt := p.route(op.P)
	if rt == nil || op.T == 0 || p.calls[op.T] != nil {
		w.Noop()
		return
	}
	t := gmpTriple{Client: rt.cliB, Sender: op.S, Salt: op.B}
	payload, plans := p.buildPayload(t, op.X, op.T, op.P)
	enc := p.encoding(op.M)
	if enc == "" {
		enc = gmptypes.EncodingABI
	}
	pl := p.payloadFor(gmptypes.NewGMPPacketData(op.S, "", op.B, payload, ""), enc)
	timeout := p.timeoutFor(op.X)
	p.tick(sim.DefaultBlockInterval)
	ctx := p.A.PreBlockCtx(p.Now)
	cctx, write := ctx.CacheContext()
	k := p.A.App.IBCKeeper.ChannelKeeperV2
	seq, ok := k.GetNextSequenceSend(cctx, rt.cliA)
	if !ok {
		sim.Failf("gmp: no send sequence for %s", rt.cliA)
	}
	pk := channeltypesv2.NewPacket(seq, rt.cliA, rt.cliB, timeout, pl)
	k.SetNextSequenceSend(cctx, rt.cliA, seq+1)
	k.SetPacketCommitment(cctx, rt.cliA, seq, channeltypesv2.CommitPacket(pk))
	write()
	p.A.Block(p.Now, nil)
	p.registerCall(op.T, op.P, t, seq, timeout, []channeltypesv2.Payload{pl}, plans, "inj", enc)
	w.Stats.Probe("gmp_foreign_app_packet_committed")
}

// execSendVariant: the sender of the packet data versus the signer of the transaction.
//
//	0 MsgSendCall signed by u, Sender = v                       (another user of A)
//	1 MsgSendPacket signed by u, gmp payload with sender v
//	2 MsgSendPacket signed by u, gmp payload with sender op.S    (any string)
//	3 MsgSendPacket signed by u, gmp payload with sender u
//	4 MsgSendPacket signed by u, sender = upper-case spelling of u
//	5 MsgSendCall signed by u, Sender = upper-case spelling of u
//	6 MsgSendPacket signed by u, two gmp payloads: sender u, sender v
//	7 MsgSendPacket signed by u, two gmp payloads: sender u, sender u
func (p *GMP) execSendVariant(op sim.Op) {
	w := p.w
	rt := p.route(op.P)
	if rt == nil || op.T == 0 || p.calls[op.T] != nil {
		w.Noop()
		return
	}
	u := p.userA(int(op.N))
	v := p.userA(int(op.N) + 1 + int(op.T%4))
	enc := gmptypes.EncodingProtobuf
	if op.T%2 == 0 {
		enc = gmptypes.EncodingJSON
	}
	timeout := p.timeoutFor(op.X)
	var senders []string
	name := ""
	switch op.M {
	case 0:
		senders, name = []string{v.String()}, "sendcall-other-user"
	case 1:
		senders, name = []string{v.String()}, "rawsend-other-user"
	case 2:
		senders, name = []string{op.S}, "rawsend-any-string"
	case 3:
		senders, name = []string{u.String()}, "rawsend-own-sender"
	case 4:
		senders, name = []string{strings.ToUpper(u.String())}, "rawsend-uppercase-own"
	case 5:
		senders, name = []string{strings.ToUpper(u.String())}, "sendcall-uppercase-own"
	case 6:
		senders, name = []string{u.String(), v.String()}, "rawsend-two-payloads-second-foreign"
	case 7:
		senders, name = []string{u.String(), u.String()}, "rawsend-two-payloads-own"
	default:
		w.Noop()
		return
	}
	var msg sdk.Msg
	var payloads []channeltypesv2.Payload
	var plans []gmpPlan
	t := gmpTriple{Client: rt.cliB, Sender: senders[0], Salt: op.B}
	raw, plans0 := p.buildPayload(t, op.X, op.T, op.P)
	plans = plans0
	if op.M == 0 || op.M == 5 {
		msg = gmptypes.NewMsgSendCall(rt.cliA, senders[0], "", raw, op.B, timeout, enc, "")
		payloads = []channeltypesv2.Payload{p.payloadFor(gmptypes.NewGMPPacketData(senders[0], "", op.B, raw, ""), enc)}
	} else {
		for i, s := range senders {
			pay := raw
			if i > 0 {
				ti := gmpTriple{Client: rt.cliB, Sender: s, Salt: op.B}
				var pi []gmpPlan
				pay, pi = p.buildPayload(ti, op.X>>4, op.T+1000003, op.P)
				plans = append(plans, pi...)
			}
			payloads = append(payloads, p.payloadFor(gmptypes.NewGMPPacketData(s, "", op.B, pay, ""), enc))
		}
		msg = channeltypesv2.NewMsgSendPacket(rt.cliA, timeout, u.String(), payloads...)
	}
	r := p.deliver1(p.A, u, "gmp-"+name, msg)
	p.judgeSend(name, u, senders, r)
	if !r.OK() {
		return
	}
	var seq uint64
	if op.M == 0 || op.M == 5 {
		var resp gmptypes.MsgSendCallResponse
		if err := sim.UnpackResponse(r, 0, &resp); err != nil {
			sim.Failf("gmp: MsgSendCall response: %v", err)
		}
		seq = resp.Sequence
	} else {
		var resp channeltypesv2.MsgSendPacketResponse
		if err := sim.UnpackResponse(r, 0, &resp); err != nil {
			sim.Failf("gmp: MsgSendPacket response: %v", err)
		}
		seq = resp.Sequence
	}
	c := p.registerCall(op.T, op.P, t, seq, timeout, payloads, plans, "snd"+fmt.Sprint(op.M), enc)
	if len(senders) > 1 {
		// two payloads = two accounts: the second triple is judged through the plans' signers; its
		// address is observed like any other triple
		p.touch(gmpTriple{Client: rt.cliB, Sender: senders[1], Salt: op.B})
		c.Shape = c.Shape[:len(plans0)] + "+" + c.Shape[len(plans0):]
	}
}

func (p *GMP) execFund(op sim.Op) {
	w := p.w
	rt := p.route(op.P)
	if rt == nil {
		w.Noop()
		return
	}
	t := gmpTriple{Client: rt.cliB, Sender: op.S, Salt: op.B}
	ts := p.touch(t)
	addr, ok := p.queryAddr(t)
	if !ok {
		w.Noop()
		return
	}
	to, err := sdk.AccAddressFromBech32(addr)
	if err != nil {
		sim.Failf("gmp: destination named an unparsable address %q: %v", addr, err)
	}
	funder := p.userB(int(op.N))
	r := p.deliver1(p.B, funder, "gmp-fund", banktypes.NewMsgSend(funder.Addr, to, sdk.NewCoins(sdk.NewInt64Coin(gmpDenom, gmpFundAmt))))
	if !r.OK() {
		sim.Failf("gmp: funding %s failed: %s", addr, r.Log)
	}
	if !ts.Stored {
		ts.PreFunded = true
	}
	ts.Funded = true
}

func (p *GMP) execRelay(op sim.Op) {
	w := p.w
	c := p.calls[op.T]
	if c == nil {
		w.Noop()
		return
	}
	rt := p.routes[c.Route]
	if p.A.Height < c.Pkt.SentAt+1 {
		p.tick(sim.DefaultBlockInterval)
		p.A.Block(p.Now, nil)
	}
	h := p.A.Height - op.N
	if h < c.Pkt.SentAt+1 || h > p.A.Height {
		h = p.A.Height
	}
	n := 1
	if op.X == 1 {
		n = 2
	}
	var txs []*sim.TxSpec
	recvIdx := make([]int, n)
	for i := 0; i < n; i++ {
		rel := p.B.Accounts[8+i]
		var msgs []sdk.Msg
		if i == 0 && !p.B.HasConsensusState(rt.cliB, p.A.IBCHeight(h)) {
			upd, err := sim.MsgUpdateTo(p.B, rt.cliB, p.A, h, rel.String())
			if err != nil {
				sim.Failf("gmp: cannot build client update: %v", err)
			}
			msgs = append(msgs, upd)
		}
		recvIdx[i] = len(msgs)
		msgs = append(msgs, c.Pkt.RecvMsg(h, rel.String()))
		txs = append(txs, &sim.TxSpec{Msgs: msgs, Signer: rel, Label: "gmp-recv", Tag: c.Tag})
	}
	wasReceived := c.Received
	before := p.snapB()
	res := p.deliver(p.B, txs...)
	after := p.snapB()
	p.judgeRecv(c, before, after, res, recvIdx, wasReceived)
}

func (p *GMP) execAck(op sim.Op) {
	w := p.w
	c := p.calls[op.T]
	if c == nil || !c.Received || c.Ack == nil {
		w.Noop()
		return
	}
	rt := p.routes[c.Route]
	if p.B.Height < c.RecvH+1 {
		p.tick(sim.DefaultBlockInterval)
		p.B.Block(p.Now, nil)
	}
	h := p.B.Height
	rel := p.A.Relayer()
	var msgs []sdk.Msg
	if !p.A.HasConsensusState(rt.cliA, p.B.IBCHeight(h)) {
		upd, err := sim.MsgUpdateTo(p.A, rt.cliA, p.B, h, rel.String())
		if err != nil {
			sim.Failf("gmp: cannot build client update: %v", err)
		}
		msgs = append(msgs, upd)
	}
	msgs = append(msgs, c.Pkt.AckMsg(h, nil, *c.Ack, rel.String()))
	r := p.deliver1(p.A, rel, "gmp-ack", msgs...)
	if r.OK() {
		if !c.Acked {
			w.Stats.Probe("gmp_ack_relayed")
		}
		c.Acked = true
	}
}

// ---- payloads ----------------------------------------------------------------------------------

// Message kinds of a payload recipe (one hex digit each, up to three, low digit first).
const gmpKinds = "-SVOMmFBICcW"

func gmpRecipeKinds(recipe int64) []byte {
	var out []byte
	for i := 0; i < 3; i++ {
		d := int((recipe >> (4 * uint(i))) & 15)
		if d == 0 || d >= len(gmpKinds) {
			break
		}
		out = append(out, gmpKinds[d])
	}
	if len(out) == 0 {
		out = []byte{'S'}
	}
	return out
}

func gmpAdd(m map[string]sdkmath.Int, key string, d sdkmath.Int) {
	if cur, ok := m[key]; ok {
		d = cur.Add(d)
	}
	if d.IsZero() {
		delete(m, key)
		return
	}
	m[key] = d
}

func gmpBalKey(addr, denom string) string { return addr + "/" + denom }
func gmpSeqKey(client string) string      { return "send-seq|" + client + "/pkt" }

func gmpTransfer(from, to string, amt sdkmath.Int) map[string]sdkmath.Int {
	m := map[string]sdkmath.Int{}
	gmpAdd(m, gmpBalKey(from, gmpDenom), amt.Neg())
	gmpAdd(m, gmpBalKey(to, gmpDenom), amt)
	return m
}

// buildPayload builds the CosmosTx of a call for triple t from a recipe. Everything is a function
// of (state, recipe, tag): the derived address is the one the destination names right now (what a
// user would query before building the call).
func (p *GMP) buildPayload(t gmpTriple, recipe, tag int64, rt int) ([]byte, []gmpPlan) {
	derived, haveDerived := p.queryAddr(t)
	kinds := gmpRecipeKinds(recipe)
	var msgs []proto.Message
	var plans []gmpPlan
	coin := func(a sdkmath.Int) sdk.Coins { return sdk.NewCoins(sdk.NewCoin(gmpDenom, a)) }
	for i, k := range kinds {
		scale := []int64{1, 10, 100}[i]
		amt := sdkmath.NewInt((1 + (tag % 9)) * 7 * scale)
		ri := int((tag + int64(i)) % gmpNumUsers)
		rcpt := p.userB(ri).String()
		victim := p.userB(ri + 1 + int((tag/gmpNumUsers)%(gmpNumUsers-1))).String()
		if !haveDerived && strings.ContainsRune("SMmFBICW", rune(k)) {
			k = 'V' // no address to act for: the attacker can only name somebody else
		}
		if k == 'O' {
			other := p.otherAccount(t)
			if other == "" {
				k = 'V'
			} else {
				victim = other
			}
		}
		pl := gmpPlan{Kind: k, Acct: t.key()}
		switch k {
		case 'S':
			msgs = append(msgs, &banktypes.MsgSend{FromAddress: derived, ToAddress: rcpt, Amount: coin(amt)})
			pl.Signers, pl.Effect, pl.Need = []string{derived}, gmpTransfer(derived, rcpt, amt), sdk.NewCoin(gmpDenom, amt)
		case 'V', 'O':
			msgs = append(msgs, &banktypes.MsgSend{FromAddress: victim, ToAddress: rcpt, Amount: coin(amt)})
			pl.Signers, pl.Effect = []string{victim}, gmpTransfer(victim, rcpt, amt)
		case 'M', 'W':
			ins := []banktypes.Input{{Address: derived, Coins: coin(amt)}, {Address: victim, Coins: coin(amt)}}
			if k == 'W' {
				ins[0], ins[1] = ins[1], ins[0]
			}
			msgs = append(msgs, &banktypes.MsgMultiSend{Inputs: ins, Outputs: []banktypes.Output{{Address: rcpt, Coins: coin(amt.MulRaw(2))}}})
			pl.Signers = []string{ins[0].Address, ins[1].Address}
			pl.Effect = gmpTransfer(derived, rcpt, amt)
			for kk, vv := range gmpTransfer(victim, rcpt, amt) {
				gmpAdd(pl.Effect, kk, vv)
			}
		case 'm':
			a1 := amt.QuoRaw(7)
			rcpt2 := p.userB(ri + 2).String()
			msgs = append(msgs, &banktypes.MsgMultiSend{Inputs: []banktypes.Input{{Address: derived, Coins: coin(amt)}},
				Outputs: []banktypes.Output{{Address: rcpt, Coins: coin(a1)}, {Address: rcpt2, Coins: coin(amt.Sub(a1))}}})
			pl.Signers, pl.Need = []string{derived}, sdk.NewCoin(gmpDenom, amt)
			pl.Effect = gmpTransfer(derived, rcpt, a1)
			for kk, vv := range gmpTransfer(derived, rcpt2, amt.Sub(a1)) {
				gmpAdd(pl.Effect, kk, vv)
			}
		case 'F': // more than the account can hold
			big := sdkmath.NewInt(10_000_000_000_000_000).Add(amt)
			msgs = append(msgs, &banktypes.MsgSend{FromAddress: derived, ToAddress: rcpt, Amount: coin(big)})
			pl.Signers, pl.Effect = []string{derived}, gmpTransfer(derived, rcpt, big)
		case 'B': // a module account that may not receive funds
			blocked := authtypes.NewModuleAddress(distrtypes.ModuleName).String()
			msgs = append(msgs, &banktypes.MsgSend{FromAddress: derived, ToAddress: blocked, Amount: coin(amt)})
			pl.Signers, pl.Effect = []string{derived}, gmpTransfer(derived, blocked, amt)
		case 'I': // stateless validation fails: no recipient
			msgs = append(msgs, &banktypes.MsgSend{FromAddress: derived, ToAddress: "", Amount: coin(amt)})
			pl.Signers, pl.Effect = []string{derived}, nil
		case 'C', 'c': // the account calls back to A
			who := derived
			if k == 'c' {
				who = victim
			}
			cli := p.routes[rt].cliB
			msgs = append(msgs, gmptypes.NewMsgSendCall(cli, who, "", []byte("nested"), []byte{byte(tag)}, uint64(p.Now.Unix()+2*3600), gmptypes.EncodingProtobuf, ""))
			pl.Signers = []string{who}
			pl.Effect = map[string]sdkmath.Int{gmpSeqKey(cli): sdkmath.OneInt()}
		}
		plans = append(plans, pl)
	}
	cdc := p.B.App.AppCodec()
	if recipe&(1<<12) != 0 {
		anys := make([]*codectypes.Any, len(msgs))
		for i, m := range msgs {
			a, err := codectypes.NewAnyWithValue(m)
			if err != nil {
				sim.Failf("gmp: pack any: %v", err)
			}
			anys[i] = a
		}
		bz, err := cdc.MarshalJSON(&gmptypes.CosmosTx{Messages: anys})
		if err != nil {
			sim.Failf("gmp: json CosmosTx: %v", err)
		}
		return bz, plans
	}
	bz, err := gmptypes.SerializeCosmosTx(cdc, msgs)
	if err != nil {
		sim.Failf("gmp: CosmosTx: %v", err)
	}
	return bz, plans
}

// otherAccount names the address of another triple that already has an account on the
// destination (preferably one whose naive concatenation equals t's, else a funded one).
func (p *GMP) otherAccount(t gmpTriple) string {
	best, bestRank := "", -1
	for _, k := range sim.SortedKeys(p.triples) {
		ts := p.triples[k]
		if k == t.key() || ts.First == "" || !ts.Stored {
			continue
		}
		rank := 0
		if ts.Funded {
			rank = 1
		}
		if ts.T.naive() == t.naive() {
			rank += 2
		}
		if ts.T.Sender == t.Sender { // another account of the same sender (other salt or client)
			rank += 4
		}
		if rank > bestRank {
			best, bestRank = ts.First, rank
		}
	}
	return best
}

// ---- generator ---------------------------------------------------------------------------------

var gmpRecipes = []int64{
	0x1, 0x1, 0x11, 0x111, 0x51, 0x15, 0x5, // authorised
	0x2, 0x21, 0x12, 0x112, 0x211, 0x121, 0x3, 0x31, 0x13, // somebody else's account at each position
	0x4, 0x41, 0x14, 0xb, 0x1b, 0xb1, // two signers
	0x6, 0x61, 0x16, 0x116, 0x161, 0x611, 0x7, 0x71, 0x17, 0x8, 0x81, 0x18, 0x118, // failing message at each position
	0x9, 0x91, 0x19, 0xa, 0xa1, 0x1a, // nested calls
	0x26, 0x62, 0x521, 0x152,
}

func (p *GMP) pickRecipe(w *sim.World) int64 {
	r := gmpRecipes[w.Intn(len(gmpRecipes))]
	if w.Chance(0.08) { // any three digits
		r = int64(1+w.Intn(11)) | int64(w.Intn(12))<<4 | int64(w.Intn(12))<<8
	}
	if w.Chance(0.2) {
		r |= 1 << 12 // JSON CosmosTx
	}
	if w.Chance(0.03) {
		r |= 1 << 13 // tight timeout
	}
	return r
}

func gmpNeedsDerived(recipe int64) bool {
	for _, k := range gmpRecipeKinds(recipe) {
		if k == 'S' || k == 'm' {
			return true
		}
	}
	return false
}

func (p *GMP) pending() (unreceived, received []*gmpCall) {
	for _, tag := range p.order {
		c := p.calls[tag]
		if c.Dead {
			continue
		}
		if c.Received {
			received = append(received, c)
		} else {
			unreceived = append(unreceived, c)
		}
	}
	return
}

// siblings lists the pooled triples that were not sent yet although a triple with the same
// undelimited concatenation (or the same sender and salt on another client) was.
func (p *GMP) siblings() []gmpPoolEntry {
	naive := map[string]bool{}
	pair := map[string]bool{}
	for _, ts := range p.triples {
		naive[ts.T.naive()] = true
		pair[ts.T.Sender+"\x00"+string(ts.T.Salt)] = true
	}
	var out []gmpPoolEntry
	for _, e := range p.pool {
		t := gmpTriple{Client: p.routes[e.Route].cliB, Sender: e.Sender, Salt: e.Salt}
		if p.triples[t.key()] != nil {
			continue
		}
		if naive[t.naive()] || pair[e.Sender+"\x00"+string(e.Salt)] {
			out = append(out, e)
		}
	}
	return out
}

func (p *GMP) Gen(w *sim.World) []sim.Op {
	o := p.Opt
	unrecv, recvd := p.pending()
	for try := 0; try < 8; try++ {
		switch w.Pick(o.WCall, o.WInj, o.WSnd, o.WFund, o.WRelay, o.WDup, o.WAck, o.WBlock, o.WRestart, o.WJump) {
		case 0, 1:
			if len(p.order) >= o.MaxCalls {
				continue
			}
			e := p.pool[w.Intn(len(p.pool))]
			if sib := p.siblings(); len(sib) > 0 && w.Chance(0.45) {
				e = sib[w.Intn(len(sib))] // complete a collision family that has been started
			} else if w.Chance(0.12) { // free combination of a pooled sender with a pooled salt
				e2 := p.pool[w.Intn(len(p.pool))]
				e.Salt = e2.Salt
			}
			recipe := p.pickRecipe(w)
			var ops []sim.Op
			t := gmpTriple{Client: p.routes[e.Route].cliB, Sender: e.Sender, Salt: e.Salt}
			ts := p.triples[t.key()]
			if gmpNeedsDerived(recipe) && (ts == nil || !ts.Funded) && w.Chance(0.8) {
				ops = append(ops, sim.Op{K: "fund", P: e.Route, S: e.Sender, B: e.Salt, N: int64(w.Intn(gmpNumUsers))})
			}
			tag := w.Tag()
			if e.User >= 0 && w.Chance(0.7) {
				ops = append(ops, sim.Op{K: "call", P: e.Route, N: int64(e.User), B: e.Salt, X: recipe, M: int64(w.Intn(len(gmpEncodings))), T: tag})
			} else {
				ops = append(ops, sim.Op{K: "inj", P: e.Route, S: e.Sender, B: e.Salt, X: recipe, M: int64(1 + w.Intn(3)), T: tag})
			}
			if w.Chance(0.35) {
				ops = append(ops, sim.Op{K: "rly", T: tag})
			}
			return ops
		case 2:
			if len(p.order) >= o.MaxCalls {
				continue
			}
			variant := int64(w.Intn(8))
			e := p.pool[w.Intn(len(p.pool))]
			op := sim.Op{K: "snd", P: p.traffic[w.Intn(2)], N: int64(w.Intn(gmpNumUsers)), M: variant, B: e.Salt, X: p.pickRecipe(w), T: w.Tag()}
			if variant == 2 {
				op.S = e.Sender
			}
			return []sim.Op{op}
		case 3:
			e := p.pool[w.Intn(len(p.pool))]
			if len(unrecv) > 0 && w.Chance(0.6) {
				c := unrecv[w.Intn(len(unrecv))]
				e = gmpPoolEntry{Route: c.Route, Sender: c.T.Sender, Salt: c.T.Salt}
			}
			return []sim.Op{{K: "fund", P: e.Route, S: e.Sender, B: e.Salt, N: int64(w.Intn(gmpNumUsers))}}
		case 4:
			if len(unrecv) == 0 {
				continue
			}
			c := unrecv[w.Intn(len(unrecv))]
			op := sim.Op{K: "rly", T: c.Tag}
			if w.Chance(0.2) {
				op.N = int64(w.Intn(4))
			}
			if w.Chance(0.12) {
				op.X = 1
			}
			return []sim.Op{op}
		case 5:
			if len(recvd) == 0 {
				continue
			}
			c := recvd[w.Intn(len(recvd))]
			op := sim.Op{K: "rly", T: c.Tag, N: int64(w.Intn(3))}
			if w.Chance(0.2) {
				op.X = 1
			}
			return []sim.Op{op}
		case 6:
			var cand []*gmpCall
			for _, c := range recvd {
				if !c.Acked && c.Ack != nil {
					cand = append(cand, c)
				}
			}
			if len(cand) == 0 {
				continue
			}
			return []sim.Op{{K: "ack", T: cand[w.Intn(len(cand))].Tag}}
		case 7:
			return []sim.Op{{K: "blk", C: w.Intn(2), N: int64(time.Duration(1+w.Intn(30)) * time.Second)}}
		case 8:
			return []sim.Op{{K: "restart", C: w.Intn(2)}}
		case 9:
			return []sim.Op{{K: "blk", C: 0, N: int64(3 * time.Hour)}, {K: "blk", C: 1, N: int64(time.Second)}}
		}
	}
	return []sim.Op{{K: "blk", C: w.Intn(2), N: int64(sim.DefaultBlockInterval)}}
}

// Drain: honest relaying of what is still in flight, so that every triple sent gets used.
func (p *GMP) Drain(w *sim.World) []sim.Op {
	unrecv, _ := p.pending()
	if len(unrecv) == 0 {
		return nil
	}
	var ops []sim.Op
	for _, c := range unrecv {
		ops = append(ops, sim.Op{K: "rly", T: c.Tag})
	}
	return ops
}

func (p *GMP) Finish(w *sim.World) {
	p.observeAll("finish")
	p.finishProbes()
	n := len(w.Log)
	if n > 30 {
		n = 30
	}
	if len(w.Viol) == 0 {
		w.Stats.Sample(map[string]any{"profile": "gmp", "seed": w.Cfg.Seed, "triples": len(p.triples), "calls": len(p.order), "first_events": w.Log[:n]})
	}
}

// ---- registration ------------------------------------------------------------------------------

func init() {
	register(&sim.Check{
		Prop: "C39",
		Rule: "worlds of 2 real chains joined by 2 or 11 IBC v2 client pairs; GMP calls with (destination client, sender, salt) triples drawn from families whose undelimited concatenations coincide (sender/salt, user-address/salt, client-id/sender boundaries, salts holding the client id, same pair on two clients, re-spelled and over-long senders) are sent by real MsgSendCall, by MsgSendCall/MsgSendPacket whose packet sender differs from the signer, and by a foreign application committing arbitrary sender strings; payloads of 1-3 messages (sends from the derived account, from a local victim, from another GMP account, two-input multisends, overdrawn / blocked-recipient / invalid sends, nested MsgSendCall) at every position; relayers deliver with real proofs, again after receipt and twice per block. Oracles: triple->address observed by query, account store and reverse index is injective and never changes; the bank + send-sequence diff of every receive block is nothing or the whole payload, and the whole payload only if every message has exactly one signer equal to the triple's address; a send is accepted only if every packet sender is the transaction signer. Non-trivial case = distinct (payload shape, outcome), (send variant, outcome) or collision family reached",
		NonTrivPrefixes: []string{"gmp:"},
		Worlds:          map[string]int{"quick": 192, "thorough": 1920},
		NewProfile: func(cfg sim.WorldConfig) sim.Profile {
			var o GMPOptions
			if err := json.Unmarshal(cfg.Extra, &o); err != nil {
				sim.Failf("gmp options: %v", err)
			}
			return NewGMP(o)
		},
		MakeConfig: func(tier string, seed int64) sim.WorldConfig {
			r := rand.New(rand.NewSource(seed ^ 0x474d50))
			o := DefaultGMPOptions()
			if r.Intn(2) == 0 {
				o.Routes = 11
			}
			o.NonASCII = r.Intn(4) == 0
			o.WInj = 18 + r.Intn(16)
			o.WCall = 10 + r.Intn(12)
			o.WDup = 4 + r.Intn(8)
			bz, _ := json.Marshal(o)
			return sim.WorldConfig{Profile: "gmp", Steps: steps(tier, 140, 260), Extra: bz}
		},
		Assumptions: []string{
			"injectivity and stability are decided for the triples the run generates (collision families plus free sender x salt combinations), not for the whole input domain; no reference derivation is assumed, only that the observed map is a stable injection",
			"arbitrary (non-bech32) sender strings reach the destination through a stub source application that writes the packet commitment with the real v2 keeper setters; ibc-go's own senders are bech32 addresses",
			"message signers are known by construction of the payload (the harness puts the addresses in); the only message type with more than one signer in testing/simapp is bank MsgMultiSend, which bank itself refuses for two inputs, so 'exactly one signer' is decided only as 'such a payload changes nothing'",
			"seeded search: a clean batch is evidence within the stated bounds, not proof",
		},
		RequiredProbes: gmpRequiredProbes,
	})
}

var _ = sort.Strings
