// Package prof holds the scenario profiles (topology + generator + executor + oracles).
package prof

import (
	"bytes"
	"fmt"
	"sort"
	"strconv"
	"strings"
	"time"

	sdk "github.com/cosmos/cosmos-sdk/types"

	clienttypes "github.com/cosmos/ibc-go/v11/modules/core/02-client/types"
	channeltypes "github.com/cosmos/ibc-go/v11/modules/core/04-channel/types"
	channeltypesv2 "github.com/cosmos/ibc-go/v11/modules/core/04-channel/v2/types"
	host "github.com/cosmos/ibc-go/v11/modules/core/24-host"
	ibcexported "github.com/cosmos/ibc-go/v11/modules/core/exported"
	ibcmock "github.com/cosmos/ibc-go/v11/testing/mock"
	mockv2 "github.com/cosmos/ibc-go/v11/testing/mock/v2"

	"verif/ibcsim/sim"
)

// Route is a bidirectional packet path between two chain ends.
type Route struct {
	Kind    string // v1u, v1o, v2, v2a, loc, loco
	V2      bool
	Ordered bool
	Local   bool
	Xfer    bool // ICS-20 transfer application (real stack) instead of a scripted mock
	OneWay  bool // packets flow only from end 0 to end 1 (end 0's application is not scripted)
	Half    bool // v1h/v1ho: end 1 is still TRYOPEN (the confirmation has not been relayed yet)
	AckedAt int64 // v1h/v1ho: height of end 0's chain at which end 0 became OPEN
	// per direction d (0: end0 -> end1, 1: end1 -> end0)
	Chain  [2]*sim.Chain
	Port   [2]string // v1 port of end i
	ID     [2]string // channel id (v1, alias) or client id (v2) of end i
	Client [2]string // light client on end i tracking the other end
	Conn   [2]string
}

// Behaviour strings understood by the scripted mock applications (carried in packet data):
//
//	ok | fail | async | panic | blob (success acknowledgement whose bytes are not the standard
//	JSON acknowledgement) ..., optionally prefixed by w<k> = write k markers first and by z =
//	try to send a new packet on the same channel from inside the timeout callback.
type behav struct {
	writes int
	kind   string
	resend bool // z<kind>: the application tries to send again from inside its timeout callback
}

func parseBehav(s string) behav {
	if strings.HasPrefix(s, "z") && len(s) > 1 {
		b := parseBehav(s[1:])
		b.resend = true
		return b
	}
	b := behav{kind: s}
	if strings.HasPrefix(s, "w") && len(s) > 2 {
		if k, err := strconv.Atoi(s[1:2]); err == nil {
			b.writes = k
			b.kind = s[2:]
		}
	}
	return b
}

// PktState is the ghost record of one sent packet.
type PktState struct {
	*sim.Pkt
	Route int
	Dir   int
	Behav []string // per payload (v1: one)
	Data  [][]byte

	// application-visible history (committed callbacks only)
	RecvCb int
	AckCb  int
	TmoCb  int
	// ground truth gathered from committed transactions
	RecvHeight int64 // dst height of the block that received it (0 = not received)
	RecvTime   time.Time
	Ack1       []byte // v1 ack bytes the destination wrote
	Ack2       channeltypesv2.Acknowledgement
	HasAck     bool
	AsyncOpen  bool   // received asynchronously, ack not yet written
	Done       string // "", "acked", "timedout"
	DoneHeight int64

	AckHeight int64 // dst height of the block in which the ack was written
	RecvWroteAck bool // the receive transaction itself announced an acknowledgement

	expect  sendExpect
	ackSeen []byte
	// only meaningful in pre-block copies: was the end closed by an ordered timeout before the block
	closedSrc, closedDst bool

	X *XferInfo // ICS-20 transfer carried by this packet (token worlds)
}

// Tap is one application callback invocation observed by a scripted mock application.
type Tap struct {
	Chain  int
	Kind   string // recv, ack, tmo, send
	Tag    int64  // packet tag parsed from the data (0 = unknown data)
	PIdx   int    // payload index parsed from the data
	ID     string // destination id (recv) or source id (ack/tmo/send) as the application saw it
	Seq    uint64
	TxHash string
	Final  bool // executed in finalize mode
	Data   []byte
	Ack    []byte // ack callback argument
	V2     bool
	P1     channeltypes.Packet
	OK     bool // resend: the send from inside the callback succeeded
}

// blobAck is a successful acknowledgement whose bytes are application-specific.
type blobAck string

func (a blobAck) Success() bool           { return true }
func (a blobAck) Acknowledgement() []byte { return []byte(a) }

// Core is the `core` profile: mock applications over every packet path kind.
type Core struct {
	w      *sim.World
	C      []*sim.Chain
	Now    time.Time
	Skew   []time.Duration
	Routes []*Route
	Pkts   map[int64]*PktState
	Order  []int64 // tags in send order
	taps   []Tap   // pending taps of the block being executed
	snap   []*sim.Snapshot
	// per (chain, id): last sequence returned by a successful send / seen by ordered callbacks
	lastSend map[string]uint64
	lastRecv map[string]uint64 // ordered channels: last received seq by taps
	lastAck  map[string]uint64
	markerN  int
	closed   map[string]bool // chainIdx/port/chan closed (ghost)
	Opt      CoreOptions
	mutN     int

	sendsInBlock int
	closedAny    map[string]bool  // channel ends that are CLOSED for any reason
	closeHeight  map[string]int64 // height of the block that closed the end
	dirty        bool // the next block carries pre-block application writes (v1 mock send, async ack)
	dirtyNow     bool // ... the block being judged does
	mept         uint64
	mutInfo      string
	mutNeutral   bool
	draining     bool
	attempts     map[int64]int

	tok           tokState
	lastRefundSig string
	lastRefusal   map[int64]string
	atkName         string
	genesisRestarts int
	rlSig         string
	govBlock      bool
}

// CoreOptions tune the generator for a property.
type CoreOptions struct {
	Kinds      []string // route kinds to build (nil = all)
	WSend      int
	WRelay     int
	WBlock     int
	WDup       int // duplicate / replay relays
	WEarlyTmo  int // timeouts submitted although not elapsed (or racing)
	WClose     int
	WMut       int
	WRestart   int
	WUpdate    int
	WAsyncAck  int
	Behaviours []string
	MaxPkts    int
	Payloads   int // max payloads for v2
	TightTmo   int // percent of packets with tight timeouts
	Delay      uint64
	WLocalVerify int
	WDelayProbe  int
	WReReg       int // replay of the v2 counterparty registration
	WSkew        int // extra weight of per-chain clock skew changes
	SkewIDs      bool // make the client identifiers of the two chains differ
	WGenesis     int  // genesis export/import restarts
	WLostCommit  int // crash between FinalizeBlock and Commit
	// token worlds
	Tokens    bool
	Chains    int      // number of chains (default 2)
	Mesh      bool     // also link chain 0 and chain 2
	NoAlias   bool     // never send v2-over-alias transfers (worlds that go on after a genesis restart, see C44 known findings)
	ManyChans bool     // 12 transfer channels on the first link (identifiers that prefix each other)
	Denoms    []string // extra native denominations held by every user
	WXfer     int
	WDonate   int
	WAttack   int
	WRateAdm  int
	RateLimit bool // put rate limits on the transfer paths
	WGrant    int
	Forward   int // percent of transfers carrying a packet-forward memo
	TightQuota bool // rate limits with quotas of a few percent (binding) instead of 100%
	GovSecs    int64
	MEPT         uint64 // 03-connection MaxExpectedTimePerBlock (ns); 0 = default 30 s
	UnbondSecs   int64
	FarTimeouts  bool // packets use timeouts far in the future (worlds with very long delays)
	TrustingSecs int64 // light-client trusting period in seconds (0 = 14 days)
	FrontBias  int // percent: relayer picks the front packet of an ordered channel (0 = default 70)
	GuardBoundary int // percent of sends with timeouts on a send-guard boundary (0 = default 5)
}

func DefaultCoreOptions() CoreOptions {
	return CoreOptions{WSend: 22, WRelay: 34, WBlock: 18, WDup: 10, WEarlyTmo: 6, WClose: 1, WMut: 0, WRestart: 1, WUpdate: 4, WAsyncAck: 3,
		Behaviours: []string{"ok", "ok", "ok", "fail", "async", "w2ok", "w2fail"}, MaxPkts: 14, Payloads: 1, TightTmo: 35}
}

func NewCore(opt CoreOptions) *Core { return &Core{Opt: opt} }

func (p *Core) Name() string { return "core" }

const memMock = "memory:mock"

func (p *Core) wantKind(k string) bool {
	if p.Opt.Kinds == nil {
		return true
	}
	for _, x := range p.Opt.Kinds {
		if x == k {
			return true
		}
	}
	return false
}

// Setup builds two chains and every route kind.
func (p *Core) Setup(w *sim.World) {
	p.w = w
	p.Pkts = map[int64]*PktState{}
	p.lastSend, p.lastRecv, p.lastAck = map[string]uint64{}, map[string]uint64{}, map[string]uint64{}
	p.closed = map[string]bool{}
	p.closedAny, p.closeHeight, p.attempts = map[string]bool{}, map[string]int64{}, map[int64]int{}
	p.lastRefusal = map[int64]string{}
	p.mept = p.Opt.MEPT
	if p.mept == 0 {
		p.mept = uint64(30 * time.Second)
	}
	nch := p.Opt.Chains
	if nch < 2 {
		nch = 2
	}
	clk := &sim.Clock{}
	for i := 0; i < nch; i++ {
		p.C = append(p.C, sim.NewChain(i, sim.ChainConfig{ChainID: fmt.Sprintf("simchain-%d", i+1), MaxExpectedTimePerBlock: p.Opt.MEPT, ExtraDenoms: p.Opt.Denoms, Clock: clk,
			GovVotingPeriod: time.Duration(p.Opt.GovSecs) * time.Second}, w.Stats))
	}
	a, b := p.C[0], p.C[1]
	w.Chains = p.C
	p.Skew = make([]time.Duration, nch)
	for _, c := range p.C {
		c.OnRebuild = p.install
		p.install(c)
	}
	tm := sim.DefaultTMConfig()
	if p.Opt.TrustingSecs > 0 {
		tm.TrustingPeriod = time.Duration(p.Opt.TrustingSecs) * time.Second
	}
	if p.Opt.UnbondSecs > 0 {
		tm.UnbondingPeriod = time.Duration(p.Opt.UnbondSecs) * time.Second
	}
	ea, eb := sim.NewClientPair(a, b, tm, tm)
	sim.OpenConnection(ea, eb, p.Opt.Delay)
	var chU *sim.ChanEnd
	if p.wantKind("v1u") || p.wantKind("v2a") {
		ca, cb := sim.OpenChannel(ea, eb, ibcmock.PortID, ibcmock.PortID, ibcmock.Version, channeltypes.UNORDERED)
		chU = ca
		if p.wantKind("v1u") {
			p.Routes = append(p.Routes, &Route{Kind: "v1u", Chain: [2]*sim.Chain{a, b}, Port: [2]string{ca.Port, cb.Port}, ID: [2]string{ca.ChanID, cb.ChanID},
				Client: [2]string{ea.ClientID, eb.ClientID}, Conn: [2]string{ea.ConnID, eb.ConnID}})
		}
	}
	if p.wantKind("v1x") {
		// an UNORDERED channel whose two ends sit on DIFFERENT ports (as ICA channels do)
		ca, cb := sim.OpenChannel(ea, eb, ibcmock.MockBlockUpgrade, ibcmock.PortID, ibcmock.Version, channeltypes.UNORDERED)
		p.Routes = append(p.Routes, &Route{Kind: "v1x", OneWay: true, Chain: [2]*sim.Chain{a, b}, Port: [2]string{ca.Port, cb.Port}, ID: [2]string{ca.ChanID, cb.ChanID},
			Client: [2]string{ea.ClientID, eb.ClientID}, Conn: [2]string{ea.ConnID, eb.ConnID}})
	}
	if p.wantKind("v1o") {
		ca, cb := sim.OpenChannel(ea, eb, ibcmock.PortID, ibcmock.PortID, ibcmock.Version, channeltypes.ORDERED)
		p.Routes = append(p.Routes, &Route{Kind: "v1o", Ordered: true, Chain: [2]*sim.Chain{a, b}, Port: [2]string{ca.Port, cb.Port}, ID: [2]string{ca.ChanID, cb.ChanID},
			Client: [2]string{ea.ClientID, eb.ClientID}, Conn: [2]string{ea.ConnID, eb.ConnID}})
	}
	for _, k := range []string{"v1h", "v1ho"} {
		// channels whose handshake stops before the confirmation: end 0 is OPEN and sends, end 1 is
		// TRYOPEN until a relayer delivers the confirmation (op conf) at a seeded later point
		if !p.wantKind(k) {
			continue
		}
		order := channeltypes.UNORDERED
		if k == "v1ho" {
			order = channeltypes.ORDERED
		}
		ca, cb := sim.OpenChannelSteps(ea, eb, ibcmock.PortID, ibcmock.PortID, ibcmock.Version, order, false)
		p.Routes = append(p.Routes, &Route{Kind: k, Half: true, AckedAt: a.Height, Ordered: k == "v1ho", Chain: [2]*sim.Chain{a, b}, Port: [2]string{ca.Port, cb.Port}, ID: [2]string{ca.ChanID, cb.ChanID},
			Client: [2]string{ea.ClientID, eb.ClientID}, Conn: [2]string{ea.ConnID, eb.ConnID}})
	}
	if p.wantKind("v2a") {
		p.Routes = append(p.Routes, &Route{Kind: "v2a", V2: true, Chain: [2]*sim.Chain{a, b}, ID: [2]string{chU.ChanID, chU.Peer.ChanID},
			Client: [2]string{ea.ClientID, eb.ClientID}})
	}
	if p.Opt.SkewIDs {
		// one extra client on chain b, so that client identifiers on the two chains differ
		signer := b.Accounts[1]
		r := b.Deliver(sim.DefaultBlockInterval, signer, 0, sim.MsgCreateTMClient(a, a.Height, tm, signer.String()))
		if !r.OK() {
			sim.Failf("extra client: %s", r.Log)
		}
	}
	if p.wantKind("v2") {
		fa, fb := sim.NewClientPair(a, b, tm, tm)
		sim.RegisterV2(fa, fb)
		p.Routes = append(p.Routes, &Route{Kind: "v2", V2: true, Chain: [2]*sim.Chain{a, b}, ID: [2]string{fa.ClientID, fb.ClientID},
			Client: [2]string{fa.ClientID, fb.ClientID}})
	}
	for _, k := range []string{"loc", "loco"} {
		if !p.wantKind(k) {
			continue
		}
		order := channeltypes.UNORDERED
		if k == "loco" {
			order = channeltypes.ORDERED
		}
		l0, l1 := p.openLocalhost(a, order)
		p.Routes = append(p.Routes, &Route{Kind: k, Local: true, Ordered: k == "loco", Chain: [2]*sim.Chain{a, a}, Port: [2]string{ibcmock.PortID, ibcmock.PortID}, ID: [2]string{l0, l1},
			Client: [2]string{ibcexported.LocalhostClientID, ibcexported.LocalhostClientID}, Conn: [2]string{ibcexported.LocalhostConnectionID, ibcexported.LocalhostConnectionID}})
	}
	if p.Opt.Tokens {
		p.setupTokens(ea, eb, tm)
	}
	p.Now = a.LastTime
	for _, c := range p.C {
		if c.LastTime.After(p.Now) {
			p.Now = c.LastTime
		}
	}
	for _, c := range p.C {
		p.snap = append(p.snap, c.Census(coreStores))
	}
	if p.Opt.Tokens {
		p.initLedger()
	}
}

var coreStores = []string{"ibc", memMock}

func (p *Core) openLocalhost(a *sim.Chain, order channeltypes.Order) (string, string) {
	s := a.Accounts[1]
	conn := ibcexported.LocalhostConnectionID
	must := func(what string, msgs ...sdk.Msg) *sim.TxResult {
		r := a.Deliver(sim.DefaultBlockInterval, s, 0, msgs...)
		if !r.OK() {
			sim.Failf("localhost setup %s: %s", what, r.Log)
		}
		return r
	}
	r := must("init", channeltypes.NewMsgChannelOpenInit(ibcmock.PortID, ibcmock.Version, order, []string{conn}, ibcmock.PortID, s.String()))
	id0, _ := sim.EventAttr(r.Events, channeltypes.EventTypeChannelOpenInit, channeltypes.AttributeKeyChannelID)
	pr := []byte{0x01}
	r = must("try", channeltypes.NewMsgChannelOpenTry(ibcmock.PortID, ibcmock.Version, order, []string{conn}, ibcmock.PortID, id0, ibcmock.Version, pr, clienttypes.GetSelfHeight(a.QueryCtx()), s.String()))
	id1, _ := sim.EventAttr(r.Events, channeltypes.EventTypeChannelOpenTry, channeltypes.AttributeKeyChannelID)
	must("ack", channeltypes.NewMsgChannelOpenAck(ibcmock.PortID, id0, id1, ibcmock.Version, pr, clienttypes.GetSelfHeight(a.QueryCtx()), s.String()))
	must("confirm", channeltypes.NewMsgChannelOpenConfirm(ibcmock.PortID, id1, pr, clienttypes.GetSelfHeight(a.QueryCtx()), s.String()))
	return id0, id1
}

// ---- scripted mock applications and taps ---------------------------------------------------

func parseData(data []byte) (b behav, tag int64, idx int, ok bool) {
	parts := strings.Split(string(data), "|")
	if len(parts) != 2 {
		return behav{kind: "fail"}, 0, 0, false
	}
	ti := strings.SplitN(parts[1], ".", 2)
	t, err := strconv.ParseInt(ti[0], 10, 64)
	if err != nil {
		return behav{kind: "fail"}, 0, 0, false
	}
	if len(ti) == 2 {
		idx, _ = strconv.Atoi(ti[1])
	}
	return parseBehav(parts[0]), t, idx, true
}

func txHashOf(ctx sdk.Context) string {
	bz := ctx.TxBytes()
	if len(bz) == 0 {
		return ""
	}
	return sim.TxHash(bz)
}

func (p *Core) writeMarkers(ctx sdk.Context, c *sim.Chain, tag int64, idx, n int) {
	st := ctx.KVStore(c.App.GetMemKey(memMock))
	for i := 0; i < n; i++ {
		st.Set([]byte(fmt.Sprintf("m/%d/%d/%d", tag, idx, i)), []byte{1})
	}
}

// install puts scripts and taps on a (re)built application object.
func (p *Core) install(c *sim.Chain) {
	ci := c.Idx
	app := c.App.IBCMockModule.IBCApp
	app.OnRecvPacket = func(ctx sdk.Context, _ string, pk channeltypes.Packet, _ sdk.AccAddress) ibcexported.Acknowledgement {
		b, tag, idx, _ := parseData(pk.Data)
		p.taps = append(p.taps, Tap{Chain: ci, Kind: "recv", Tag: tag, PIdx: idx, ID: pk.DestinationPort + "/" + pk.DestinationChannel, Seq: pk.Sequence,
			TxHash: txHashOf(ctx), Final: ctx.ExecMode() == sdk.ExecModeFinalize, Data: pk.Data, P1: pk})
		p.writeMarkers(ctx, c, tag, idx, b.writes)
		switch b.kind {
		case "ok":
			return channeltypes.NewResultAcknowledgement([]byte(fmt.Sprintf("ack-%d", tag)))
		case "blob":
			// an application-specific acknowledgement: raw bytes, not the standard JSON envelope
			return blobAck(fmt.Sprintf("\x00blob-ack-%d", tag))
		case "async":
			return nil
		case "panic":
			panic("scripted application panic")
		case "sfail":
			// the application (or a middleware of its stack) writes an acknowledgement for this very
			// packet itself and then fails: everything it wrote, including that ack, must be discarded
			// and the error acknowledgement written by core
			_ = c.App.IBCKeeper.ChannelKeeper.WriteAcknowledgement(ctx, pk, channeltypes.NewResultAcknowledgement([]byte("self-written")))
			return channeltypes.NewErrorAcknowledgement(fmt.Errorf("scripted failure after writing an ack"))
		default:
			return channeltypes.NewErrorAcknowledgement(fmt.Errorf("scripted failure"))
		}
	}
	app.OnAcknowledgementPacket =func(ctx sdk.Context, _ string, pk channeltypes.Packet, ack []byte, _ sdk.AccAddress) error {
		_, tag, idx, _ := parseData(pk.Data)
		p.taps = append(p.taps, Tap{Chain: ci, Kind: "ack", Tag: tag, PIdx: idx, ID: pk.SourcePort + "/" + pk.SourceChannel, Seq: pk.Sequence,
			TxHash: txHashOf(ctx), Final: ctx.ExecMode() == sdk.ExecModeFinalize, Data: pk.Data, Ack: append([]byte{}, ack...), P1: pk})
		return nil
	}
	app.OnTimeoutPacket = func(ctx sdk.Context, _ string, pk channeltypes.Packet, _ sdk.AccAddress) error {
		b, tag, idx, _ := parseData(pk.Data)
		p.taps = append(p.taps, Tap{Chain: ci, Kind: "tmo", Tag: tag, PIdx: idx, ID: pk.SourcePort + "/" + pk.SourceChannel, Seq: pk.Sequence,
			TxHash: txHashOf(ctx), Final: ctx.ExecMode() == sdk.ExecModeFinalize, Data: pk.Data, P1: pk})
		if b.resend {
			// a retrying application (what a forwarding middleware does): send again on the same channel
			seq, err := c.App.IBCKeeper.ChannelKeeper.SendPacket(ctx, pk.SourcePort, pk.SourceChannel, clienttypes.ZeroHeight(),
				uint64(ctx.BlockTime().Add(time.Hour).UnixNano()), []byte("resent-from-timeout-callback"))
			p.taps = append(p.taps, Tap{Chain: ci, Kind: "resend", Tag: tag, PIdx: idx, ID: pk.SourcePort + "/" + pk.SourceChannel, Seq: seq,
				TxHash: txHashOf(ctx), Final: ctx.ExecMode() == sdk.ExecModeFinalize, Data: pk.Data, P1: pk, OK: err == nil})
		}
		return nil
	}
	for _, m := range []*mockv2.IBCApp{c.App.MockModuleV2A.IBCApp, c.App.MockModuleV2B.IBCApp} {
		m.OnSendPacket = func(ctx sdk.Context, src, dst string, seq uint64, pl channeltypesv2.Payload, _ sdk.AccAddress) error {
			_, tag, idx, _ := parseData(pl.Value)
			p.taps = append(p.taps, Tap{Chain: ci, Kind: "send", V2: true, Tag: tag, PIdx: idx, ID: src, Seq: seq, TxHash: txHashOf(ctx), Final: ctx.ExecMode() == sdk.ExecModeFinalize, Data: pl.Value})
			return nil
		}
		m.OnRecvPacket = func(ctx sdk.Context, src, dst string, seq uint64, pl channeltypesv2.Payload, _ sdk.AccAddress) channeltypesv2.RecvPacketResult {
			b, tag, idx, _ := parseData(pl.Value)
			p.taps = append(p.taps, Tap{Chain: ci, Kind: "recv", V2: true, Tag: tag, PIdx: idx, ID: dst, Seq: seq, TxHash: txHashOf(ctx), Final: ctx.ExecMode() == sdk.ExecModeFinalize, Data: pl.Value})
			p.writeMarkers(ctx, c, tag, idx, b.writes)
			switch b.kind {
			case "ok", "blob":
				return channeltypesv2.RecvPacketResult{Status: channeltypesv2.PacketStatus_Success, Acknowledgement: []byte(fmt.Sprintf("ack-%d.%d", tag, idx))}
			case "async":
				return channeltypesv2.RecvPacketResult{Status: channeltypesv2.PacketStatus_Async}
			case "panic":
				panic("scripted application panic")
			case "sentinel":
				return channeltypesv2.RecvPacketResult{Status: channeltypesv2.PacketStatus_Success, Acknowledgement: channeltypesv2.ErrorAcknowledgement[:]}
			default:
				return channeltypesv2.RecvPacketResult{Status: channeltypesv2.PacketStatus_Failure}
			}
		}
		m.OnAcknowledgementPacket = func(ctx sdk.Context, src, dst string, seq uint64, pl channeltypesv2.Payload, ack []byte, _ sdk.AccAddress) error {
			_, tag, idx, _ := parseData(pl.Value)
			p.taps = append(p.taps, Tap{Chain: ci, Kind: "ack", V2: true, Tag: tag, PIdx: idx, ID: src, Seq: seq, TxHash: txHashOf(ctx), Final: ctx.ExecMode() == sdk.ExecModeFinalize, Data: pl.Value, Ack: append([]byte{}, ack...)})
			return nil
		}
		m.OnTimeoutPacket = func(ctx sdk.Context, src, dst string, seq uint64, pl channeltypesv2.Payload, _ sdk.AccAddress) error {
			_, tag, idx, _ := parseData(pl.Value)
			p.taps = append(p.taps, Tap{Chain: ci, Kind: "tmo", V2: true, Tag: tag, PIdx: idx, ID: src, Seq: seq, TxHash: txHashOf(ctx), Final: ctx.ExecMode() == sdk.ExecModeFinalize, Data: pl.Value})
			return nil
		}
	}
}

// ---- helpers ------------------------------------------------------------------------------

func (p *Core) chainTime(ci int) time.Time { return p.Now.Add(p.Skew[ci]) }

// block produces a block on chain ci at the current world time (plus skew) with the mempool,
// then runs the per-block oracles.
func (p *Core) block(ci int) []*sim.TxResult {
	c := p.C[ci]
	p.rlIsolateEpochs(ci)
	txs := c.Mempool
	c.Mempool = nil
	p.taps = p.taps[:0]
	res := c.Block(p.chainTime(ci), txs)
	p.afterBlock(ci, res)
	return res
}

func (p *Core) tick(d time.Duration) {
	if d < 0 {
		d = 0
	}
	p.Now = p.Now.Add(d)
}

func (p *Core) pkt(tag int64) *PktState { return p.Pkts[tag] }

func chanKey(ci int, port, ch string) string { return fmt.Sprintf("%d/%s/%s", ci, port, ch) }

func (p *Core) srcKey(ps *PktState) string {
	if ps.V2 {
		return fmt.Sprintf("%d/%s", ps.Src.Idx, ps.P2.SourceClient)
	}
	return fmt.Sprintf("%d/%s", ps.Src.Idx, ps.P1.SourceChannel)
}

// provable reports the lowest height of chain c at which state committed in block h is provable.
func provable(h int64) int64 { return h + 1 }

var _ = bytes.Equal
var _ = sort.Strings
var _ = host.ChannelKey
