package prof

import (
	"encoding/json"
	"fmt"
	"math/rand"
	"sort"
	"strconv"
	"strings"
	"time"

	"github.com/cosmos/gogoproto/proto"

	sdkmath "cosmossdk.io/math"

	sdk "github.com/cosmos/cosmos-sdk/types"
	"github.com/cosmos/cosmos-sdk/x/authz"
	banktypes "github.com/cosmos/cosmos-sdk/x/bank/types"
	stakingtypes "github.com/cosmos/cosmos-sdk/x/staking/types"

	icacontrollertypes "github.com/cosmos/ibc-go/v11/modules/apps/27-interchain-accounts/controller/types"
	icatypes "github.com/cosmos/ibc-go/v11/modules/apps/27-interchain-accounts/types"
	channeltypes "github.com/cosmos/ibc-go/v11/modules/core/04-channel/types"
	channeltypesv2 "github.com/cosmos/ibc-go/v11/modules/core/04-channel/v2/types"
	host "github.com/cosmos/ibc-go/v11/modules/core/24-host"
	ibctesting "github.com/cosmos/ibc-go/v11/testing"

	"verif/ibcsim/sim"
)

// ---- accounts profile: ICS-27 interchain accounts (C37, C38) ---------------------------------
//
// Chain A is the controller, chain B the host. Owners (users of A) register interchain
// accounts, relayers run the channel handshakes, owners (and strangers) send transaction
// batches, relayers deliver / acknowledge / time out the packets; ordered channels close on
// timeouts and get re-registered.

type ICAOptions struct {
	Allow                                                         []string // host allow list
	WReg, WHs, WFund, WSend, WRelay, WBlock, WAtk, WDup, WTmo, WRestart int
	MaxPkts                                                       int
}

func DefaultICAOptions() ICAOptions {
	return ICAOptions{WReg: 8, WHs: 22, WFund: 6, WSend: 24, WRelay: 26, WBlock: 10, WAtk: 6, WDup: 5, WTmo: 4, WRestart: 1, MaxPkts: 22}
}

type icaOwner struct {
	Idx      int
	Port     string
	Order    channeltypes.Order
	Version  string
	ChanA    string // channel id on the controller (current attempt)
	ChanB    string // channel id on the host
	Stage    int    // 0 none, 1 init, 2 try, 3 ack, 4 confirm (open on both)
	Addr     string // interchain account address on the host (first observed)
	active   string // last observed active channel id on A
	meta     string // metadata (version) of the first opened channel
	order0   channeltypes.Order
	InitH    [5]int64 // height of the block that completed each stage (on the acting chain)
}

type icaPkt struct {
	*sim.Pkt
	Owner   int
	Spec    string
	RecvH   int64
	Ack     []byte
	Done    string
	DoneH   int64
	Attempt int
}

type ICA struct {
	w      *sim.World
	A, B   *sim.Chain
	Now    time.Time
	ea, eb *sim.ConnEnd
	Own    map[int]*icaOwner
	Pkts   map[int64]*icaPkt
	Order  []int64
	Opt    ICAOptions
	bank   amap
	pred   amap
	atk    string
}

func NewICA(o ICAOptions) *ICA { return &ICA{Opt: o} }

func (p *ICA) Name() string { return "accounts" }

func (p *ICA) Setup(w *sim.World) {
	p.w = w
	clk := &sim.Clock{}
	p.A = sim.NewChain(0, sim.ChainConfig{ChainID: "simchain-1", Clock: clk}, w.Stats)
	p.B = sim.NewChain(1, sim.ChainConfig{ChainID: "simchain-2", Clock: clk, ICAAllow: p.Opt.Allow}, w.Stats)
	w.Chains = []*sim.Chain{p.A, p.B}
	tm := sim.DefaultTMConfig()
	p.ea, p.eb = sim.NewClientPair(p.A, p.B, tm, tm)
	sim.OpenConnection(p.ea, p.eb, 0)
	p.Own = map[int]*icaOwner{}
	p.Pkts = map[int64]*icaPkt{}
	p.Now = p.A.LastTime
	if p.B.LastTime.After(p.Now) {
		p.Now = p.B.LastTime
	}
	p.bank = p.snapBank()
	p.pred = amap{}
}

func (p *ICA) snapBank() amap {
	m := amap{}
	for addr, coins := range p.B.BankBalances() {
		for _, coin := range coins {
			m.add(addr, coin.Denom, coin.Amount)
		}
	}
	return m
}

func (p *ICA) tick(d time.Duration) { p.Now = p.Now.Add(d) }

func (p *ICA) chain(ci int) *sim.Chain {
	if ci == 0 {
		return p.A
	}
	return p.B
}

func (p *ICA) block(ci int) []*sim.TxResult {
	c := p.chain(ci)
	txs := c.Mempool
	c.Mempool = nil
	res := c.Block(p.Now, txs)
	p.afterBlock(ci, res)
	return res
}

func (p *ICA) deliver(ci int, signer *sim.Account, label string, tag int64, msgs ...sdk.Msg) *sim.TxResult {
	c := p.chain(ci)
	if len(c.Mempool) > 0 || signer.InPool() {
		p.block(ci)
	}
	c.Submit(&sim.TxSpec{Msgs: msgs, Signer: signer, Label: label, Tag: tag})
	p.tick(time.Second)
	return p.block(ci)[0]
}

func (p *ICA) owner(i int) *icaOwner {
	if i < 2 || i > 7 {
		return nil
	}
	o := p.Own[i]
	if o == nil {
		port, _ := icatypes.NewControllerPortID(p.A.Accounts[i].String())
		o = &icaOwner{Idx: i, Port: port}
		p.Own[i] = o
	}
	return o
}

// ---- operations --------------------------------------------------------------------------------
//
//	blk   C N
//	ireg  C=owner X=1 ordered S=version kind ("" default, "meta")
//	ihs   C=owner N=step(1 try,2 ack,3 confirm) M=proofHeight X=flags
//	ifund C=owner N=amount
//	isend C=owner X=signer idx T=tag N=relative timeout ns S=batch
//	irecv / iack / itmo  T=tag M=proofHeight
//	iatk  S=kind C=owner
//	restart C

func (p *ICA) Exec(w *sim.World, op sim.Op) {
	switch op.K {
	case "blk":
		p.tick(time.Duration(op.N))
		p.block(op.C & 1)
	case "restart":
		c := p.chain(op.C & 1)
		if len(c.Mempool) == 0 {
			c.Restart()
		}
	case "ireg":
		p.execReg(op)
	case "ihs":
		p.execHs(op)
	case "ifund":
		o := p.owner(op.C)
		if o == nil || o.Addr == "" {
			w.Noop()
			return
		}
		from := p.B.Accounts[2]
		to, err := sdk.AccAddressFromBech32(o.Addr)
		if err != nil {
			w.Noop()
			return
		}
		coin := sdk.NewCoin("ufoo", sdkmath.NewInt(op.N))
		p.pred.add(from.String(), "ufoo", coin.Amount.Neg())
		p.pred.add(o.Addr, "ufoo", coin.Amount)
		r := p.deliver(1, from, "ifund", 0, banktypes.NewMsgSend(from.Addr, to, sdk.NewCoins(coin)))
		_ = r
	case "isend":
		p.execSend(op)
	case "irecv", "iack", "itmo":
		p.execRelay(op)
	case "iatk":
		p.execAtk(op)
	default:
		w.Noop()
	}
}

func (p *ICA) execReg(op sim.Op) {
	w := p.w
	o := p.owner(op.C)
	if o == nil {
		w.Noop()
		return
	}
	order := channeltypes.UNORDERED
	if op.X&1 == 1 {
		order = channeltypes.ORDERED
	}
	version := ""
	if op.S == "meta" {
		version = icatypes.NewDefaultMetadataString(p.ea.ConnID, p.eb.ConnID)
	}
	acc := p.A.Accounts[o.Idx]
	msg := icacontrollertypes.NewMsgRegisterInterchainAccount(p.ea.ConnID, acc.String(), version, order)
	r := p.deliver(0, acc, "ireg", 0, msg)
	state := "refused"
	if r.OK() {
		state = "accepted"
		id, _ := sim.EventAttr(r.Events, channeltypes.EventTypeChannelOpenInit, channeltypes.AttributeKeyChannelID)
		o.ChanA, o.ChanB, o.Stage, o.Order = id, "", 1, order
		o.InitH[1] = p.A.Height
	}
	w.Stats.Probe("ica_register_" + state)
	w.Stats.NonTrivial(fmt.Sprintf("reg:%s:hadactive=%v:%s", state, o.active != "", order))
}

func (p *ICA) execHs(op sim.Op) {
	w := p.w
	o := p.owner(op.C)
	if o == nil || o.ChanA == "" {
		w.Noop()
		return
	}
	chA := p.A.ChannelEnd(o.Port, o.ChanA)
	switch op.N {
	case 1: // TRY on the host
		if op.M < 3 || op.M > p.A.Height {
			w.Noop()
			return
		}
		signer := p.B.Relayer()
		var msgs []sdk.Msg
		if !p.B.HasConsensusState(p.eb.ClientID, p.A.IBCHeight(op.M)) {
			if u, err := sim.MsgUpdateTo(p.B, p.eb.ClientID, p.A, op.M, signer.String()); err == nil {
				msgs = append(msgs, u)
			}
		}
		proof, ph := p.A.IBCProof(host.ChannelKey(o.Port, o.ChanA), op.M)
		msgs = append(msgs, channeltypes.NewMsgChannelOpenTry(icatypes.HostPortID, "", chA.Ordering, []string{p.eb.ConnID}, o.Port, o.ChanA, chA.Version, proof, ph, signer.String()))
		r := p.deliver(1, signer, "ihs-try", 0, msgs...)
		if r.OK() && o.Stage == 1 {
			o.ChanB, _ = sim.EventAttr(r.Events, channeltypes.EventTypeChannelOpenTry, channeltypes.AttributeKeyChannelID)
			o.Stage = 2
			o.InitH[2] = p.B.Height
		}
	case 2: // ACK on the controller
		if o.ChanB == "" || op.M < 3 || op.M > p.B.Height {
			w.Noop()
			return
		}
		signer := p.A.Relayer()
		var msgs []sdk.Msg
		if !p.A.HasConsensusState(p.ea.ClientID, p.B.IBCHeight(op.M)) {
			if u, err := sim.MsgUpdateTo(p.A, p.ea.ClientID, p.B, op.M, signer.String()); err == nil {
				msgs = append(msgs, u)
			}
		}
		chB := p.B.ChannelEnd(icatypes.HostPortID, o.ChanB)
		proof, ph := p.B.IBCProof(host.ChannelKey(icatypes.HostPortID, o.ChanB), op.M)
		msgs = append(msgs, channeltypes.NewMsgChannelOpenAck(o.Port, o.ChanA, o.ChanB, chB.Version, proof, ph, signer.String()))
		r := p.deliver(0, signer, "ihs-ack", 0, msgs...)
		if r.OK() && o.Stage == 2 {
			o.Stage = 3
			o.InitH[3] = p.A.Height
		}
	case 3: // CONFIRM on the host
		if o.ChanB == "" || op.M < 3 || op.M > p.A.Height {
			w.Noop()
			return
		}
		signer := p.B.Relayer()
		var msgs []sdk.Msg
		if !p.B.HasConsensusState(p.eb.ClientID, p.A.IBCHeight(op.M)) {
			if u, err := sim.MsgUpdateTo(p.B, p.eb.ClientID, p.A, op.M, signer.String()); err == nil {
				msgs = append(msgs, u)
			}
		}
		proof, ph := p.A.IBCProof(host.ChannelKey(o.Port, o.ChanA), op.M)
		msgs = append(msgs, channeltypes.NewMsgChannelOpenConfirm(icatypes.HostPortID, o.ChanB, proof, ph, signer.String()))
		r := p.deliver(1, signer, "ihs-confirm", 0, msgs...)
		if r.OK() && o.Stage == 3 {
			o.Stage = 4
			o.InitH[4] = p.B.Height
		}
	default:
		w.Noop()
	}
}

// batch items: s<amt> ICA->user send | v<amt> victim's coins | b over-balance send |
// d<amt> delegate (stake the account does not hold) | x<amt> authz exec of the victim's send
func (p *ICA) buildBatch(o *icaOwner, spec string) ([]proto.Message, bool) {
	ica, err := sdk.AccAddressFromBech32(o.Addr)
	if err != nil {
		return nil, false
	}
	victim := p.B.Accounts[4]
	recv := p.B.Accounts[3]
	var msgs []proto.Message
	for _, it := range strings.Split(spec, ",") {
		if it == "" {
			continue
		}
		amt, _ := strconv.ParseInt(it[1:], 10, 64)
		if amt <= 0 {
			amt = 1
		}
		coin := sdk.NewCoins(sdk.NewCoin("ufoo", sdkmath.NewInt(amt)))
		switch it[0] {
		case 's':
			msgs = append(msgs, banktypes.NewMsgSend(ica, recv.Addr, coin))
		case 'v':
			msgs = append(msgs, banktypes.NewMsgSend(victim.Addr, recv.Addr, coin))
		case 'b':
			big := p.bank.get(o.Addr, "ufoo").Add(sdkmath.NewInt(1))
			msgs = append(msgs, banktypes.NewMsgSend(ica, recv.Addr, sdk.NewCoins(sdk.NewCoin("ufoo", big))))
		case 'd':
			val := sdk.ValAddress(p.B.Vals.Validators[0].Address).String()
			msgs = append(msgs, stakingtypes.NewMsgDelegate(o.Addr, val, sdk.NewCoin(sdk.DefaultBondDenom, sdkmath.NewInt(amt))))
		case 'x':
			inner := banktypes.NewMsgSend(victim.Addr, recv.Addr, coin)
			ex := authz.NewMsgExec(ica, []sdk.Msg{inner})
			msgs = append(msgs, &ex)
		default:
			return nil, false
		}
	}
	return msgs, len(msgs) > 0
}

// batchOutcome is the model: does the batch execute, and what does it move?
func (p *ICA) batchOutcome(o *icaOwner, spec string) (bool, string, amap) {
	eff := amap{}
	bal := p.bank.get(o.Addr, "ufoo")
	recv := p.B.Accounts[3].String()
	allowAll := len(p.Opt.Allow) == 0 || (len(p.Opt.Allow) == 1 && p.Opt.Allow[0] == "*")
	allowed := func(url string) bool {
		if allowAll {
			return true
		}
		for _, a := range p.Opt.Allow {
			if a == url {
				return true
			}
		}
		return false
	}
	typeOf := map[byte]string{'s': "/cosmos.bank.v1beta1.MsgSend", 'v': "/cosmos.bank.v1beta1.MsgSend", 'b': "/cosmos.bank.v1beta1.MsgSend", 'd': "/cosmos.staking.v1beta1.MsgDelegate", 'x': "/cosmos.authz.v1beta1.MsgExec"}
	items := strings.Split(spec, ",")
	// authentication covers the whole batch before anything executes
	for _, it := range items {
		if !allowed(typeOf[it[0]]) {
			return false, "type not allowed: " + typeOf[it[0]], nil
		}
		if it[0] == 'v' {
			return false, "message signed by another account", nil
		}
	}
	for _, it := range items {
		amt, _ := strconv.ParseInt(it[1:], 10, 64)
		if amt <= 0 {
			amt = 1
		}
		switch it[0] {
		case 's':
			a := sdkmath.NewInt(amt)
			if bal.LT(a) {
				return false, "insufficient funds", nil
			}
			bal = bal.Sub(a)
			eff.add(o.Addr, "ufoo", a.Neg())
			eff.add(recv, "ufoo", a)
		case 'b':
			return false, "send above balance", nil
		case 'd':
			return false, "delegation of stake the account does not hold", nil
		case 'x':
			return false, "authz exec without a grant", nil
		}
	}
	return true, "", eff
}

func (p *ICA) execSend(op sim.Op) {
	w := p.w
	o := p.owner(op.C)
	if o == nil || op.T == 0 || p.Pkts[op.T] != nil || o.Addr == "" {
		w.Noop()
		return
	}
	if op.X < 0 || int(op.X) >= len(p.A.Accounts) {
		w.Noop()
		return
	}
	// "b" means "one more than the account holds right now": resolve it to a concrete send, which
	// may well be funded by the time the packet is received
	var items []string
	for _, it := range strings.Split(op.S, ",") {
		if it == "b" {
			it = "s" + p.bank.get(o.Addr, "ufoo").Add(sdkmath.NewInt(1)).String()
		}
		items = append(items, it)
	}
	spec := strings.Join(items, ",")
	msgs, ok := p.buildBatch(o, spec)
	if !ok {
		w.Noop()
		return
	}
	data, err := icatypes.SerializeCosmosTx(p.A.App.AppCodec(), msgs, icatypes.EncodingProtobuf)
	if err != nil {
		w.Noop()
		return
	}
	pd := icatypes.InterchainAccountPacketData{Type: icatypes.EXECUTE_TX, Data: data}
	signer := p.A.Accounts[op.X]
	owner := p.A.Accounts[o.Idx]
	msg := icacontrollertypes.NewMsgSendTx(owner.String(), p.ea.ConnID, uint64(op.N), pd)
	r := p.deliver(0, signer, "isend", op.T, msg)
	foreign := int(op.X) != o.Idx
	state := "refused"
	if r.OK() {
		state = "accepted"
	}
	w.Stats.Probe("ica_sendtx_" + state)
	w.Stats.NonTrivial(fmt.Sprintf("sendtx:%s:foreign-signer=%v:stage=%d", state, foreign, o.Stage))
	if r.OK() && foreign {
		w.Violate("C38", "sendtx-by-non-owner", "", fmt.Sprintf("MsgSendTx on port %s accepted although signed by %s, not by the owner", o.Port, signer.Name))
	}
	if !r.OK() {
		return
	}
	pk, err := ibctesting.ParseV1PacketFromEvents(r.Events)
	if err != nil {
		sim.Failf("ica packet events: %v", err)
	}
	ip := &icaPkt{Owner: o.Idx, Spec: spec}
	ip.Pkt = &sim.Pkt{Tag: op.T, P1: pk, Src: p.A, Dst: p.B, SrcCli: p.ea.ClientID, DstCli: p.eb.ClientID, Ordered: o.Order == channeltypes.ORDERED, SentAt: p.A.Height}
	p.Pkts[op.T] = ip
	p.Order = append(p.Order, op.T)
}

func (p *ICA) execRelay(op sim.Op) {
	w := p.w
	ip := p.Pkts[op.T]
	if ip == nil {
		w.Noop()
		return
	}
	on, of, cli := p.B, p.A, p.eb.ClientID
	if op.K != "irecv" {
		on, of, cli = p.A, p.B, p.ea.ClientID
	}
	if op.M < 3 || op.M > of.Height {
		w.Noop()
		return
	}
	if op.K == "iack" && ip.Ack == nil {
		w.Noop()
		return
	}
	signer := on.Relayer()
	var msgs []sdk.Msg
	if !on.HasConsensusState(cli, of.IBCHeight(op.M)) {
		if u, err := sim.MsgUpdateTo(on, cli, of, op.M, signer.String()); err == nil {
			msgs = append(msgs, u)
		}
	}
	label := map[string]string{"irecv": "recv", "iack": "ack", "itmo": "tmo"}[op.K]
	switch op.K {
	case "irecv":
		msgs = append(msgs, ip.RecvMsg(op.M, signer.String()))
	case "iack":
		msgs = append(msgs, ip.AckMsg(op.M, ip.Ack, emptyAckV2(), signer.String()))
	case "itmo":
		msgs = append(msgs, ip.TimeoutMsg(op.M, signer.String()))
	}
	ci := 0
	if on == p.B {
		ci = 1
	}
	// the model's verdict for a first receive, computed on the pre-state
	var willRun bool
	var why string
	var eff amap
	if op.K == "irecv" && ip.RecvH == 0 {
		willRun, why, eff = p.batchOutcome(p.Own[ip.Owner], ip.Spec)
	}
	r := p.deliver(ci, signer, label, op.T, msgs...)
	out := txOutcome(r, false)
	w.Stats.Probe("ica_" + label + "_" + out)
	if out != "success" {
		return
	}
	switch op.K {
	case "irecv":
		ip.RecvH = p.B.Height
		ack, _ := sim.AckV1FromEvents(r.Events)
		ip.Ack = ack
		var a channeltypes.Acknowledgement
		okAck := icatypes.ModuleCdc.UnmarshalJSON(ack, &a) == nil && a.Success()
		w.Stats.NonTrivial(fmt.Sprintf("batch:%s:ran=%v:model=%v", shapeOf(ip.Spec), okAck, willRun))
		if okAck != willRun {
			if okAck {
				w.Violate("C37", "batch-executed-against-model", "", fmt.Sprintf("host executed batch [%s] of %s although: %s", ip.Spec, p.Own[ip.Owner].Port, why))
			} else {
				w.Violate("C37", "valid-batch-refused", "", fmt.Sprintf("host refused batch [%s] of %s although every message is allowed, signed by the interchain account and funded", ip.Spec, p.Own[ip.Owner].Port))
			}
		}
		if willRun {
			for a, m := range eff {
				for d, v := range m {
					p.pred.add(a, d, v)
				}
			}
		}
		p.judgeBank("receive of batch [" + ip.Spec + "]")
	case "iack":
		ip.Done, ip.DoneH = "acked", p.A.Height
	case "itmo":
		ip.Done, ip.DoneH = "timedout", p.A.Height
	}
}

func shapeOf(spec string) string {
	var sb strings.Builder
	for _, it := range strings.Split(spec, ",") {
		if it != "" {
			sb.WriteByte(it[0])
		}
	}
	return sb.String()
}

func emptyAckV2() channeltypesv2.Acknowledgement { return channeltypesv2.Acknowledgement{} }

// judgeBank compares the host's real bank change since the last judgement with the model's
// prediction (stake is ignored: fees are zero, staking rewards are off).
func (p *ICA) judgeBank(what string) {
	w := p.w
	now := p.snapBank()
	type ad struct{ a, d string }
	seen := map[ad]bool{}
	var keys []ad
	for _, m := range []amap{now, p.bank, p.pred} {
		for a, dm := range m {
			for d := range dm {
				if d != sdk.DefaultBondDenom && !seen[ad{a, d}] {
					seen[ad{a, d}] = true
					keys = append(keys, ad{a, d})
				}
			}
		}
	}
	sort.Slice(keys, func(i, j int) bool { return keys[i].a+keys[i].d < keys[j].a+keys[j].d })
	for _, k := range keys {
		real := now.get(k.a, k.d).Sub(p.bank.get(k.a, k.d))
		want := p.pred.get(k.a, k.d)
		if !real.Equal(want) {
			w.Violate("C37", "host-balances-differ-from-model", "", fmt.Sprintf("host after %s: balance of %s in %s changed by %s, the all-or-nothing model of the batch explains %s", what, p.nameOfB(k.a), k.d, real, want))
			break
		}
	}
	p.bank = now
	p.pred = amap{}
}

func (p *ICA) nameOfB(addr string) string {
	for _, a := range p.B.Accounts {
		if a.String() == addr {
			return a.Name
		}
	}
	for _, o := range p.Own {
		if o.Addr == addr {
			return "interchain account of " + o.Port
		}
	}
	return addr
}

// execAtk: handshakes nobody but the controller may start.
func (p *ICA) execAtk(op sim.Op) {
	w := p.w
	o := p.owner(op.C)
	if o == nil {
		w.Noop()
		return
	}
	var r *sim.TxResult
	switch op.S {
	case "host-init":
		s := p.B.Relayer()
		r = p.deliver(1, s, "iatk", 0, channeltypes.NewMsgChannelOpenInit(icatypes.HostPortID, icatypes.NewDefaultMetadataString(p.eb.ConnID, p.ea.ConnID), channeltypes.ORDERED, []string{p.eb.ConnID}, o.Port, s.String()))
	case "ctrl-init-direct":
		s := p.A.Relayer()
		r = p.deliver(0, s, "iatk", 0, channeltypes.NewMsgChannelOpenInit(o.Port, icatypes.NewDefaultMetadataString(p.ea.ConnID, p.eb.ConnID), channeltypes.ORDERED, []string{p.ea.ConnID}, icatypes.HostPortID, s.String()))
	case "ctrl-init-wrong-counterparty":
		s := p.A.Relayer()
		r = p.deliver(0, s, "iatk", 0, channeltypes.NewMsgChannelOpenInit(o.Port, icatypes.NewDefaultMetadataString(p.ea.ConnID, p.eb.ConnID), channeltypes.UNORDERED, []string{p.ea.ConnID}, "transfer", s.String()))
	case "ctrl-try":
		// the host side pretends to have started: a TRY on the controller port
		if p.B.Height < 3 {
			w.Noop()
			return
		}
		s := p.A.Relayer()
		proof, ph := p.B.IBCProof(host.ChannelKey(icatypes.HostPortID, "channel-0"), p.B.Height)
		r = p.deliver(0, s, "iatk", 0, channeltypes.NewMsgChannelOpenTry(o.Port, icatypes.Version, channeltypes.ORDERED, []string{p.ea.ConnID}, icatypes.HostPortID, "channel-0", icatypes.Version, proof, ph, s.String()))
	default:
		w.Noop()
		return
	}
	state := "refused"
	if r.OK() {
		state = "ACCEPTED"
		w.Violate("C38", "handshake-not-started-by-controller", "", fmt.Sprintf("channel handshake step %q on an interchain-accounts port was accepted", op.S))
	}
	w.Stats.Probe("ica_attack_" + state)
	w.Stats.NonTrivial("atk:" + op.S + ":" + state)
}

// ---- per block ----------------------------------------------------------------------------------

func (p *ICA) afterBlock(ci int, res []*sim.TxResult) {
	w := p.w
	for _, r := range res {
		w.MixSig(fmt.Sprintf("%d%s%v", ci, r.Spec.Label, r.OK()))
	}
	if ci == 1 {
		// host: fund transfers are predicted by their ops; batches judge right after delivery.
		// Any other host block must leave balances as predicted too.
		labels := map[string]bool{}
		for _, r := range res {
			labels[r.Spec.Label] = true
		}
		if !labels["recv"] {
			p.judgeBank(fmt.Sprintf("host block %d", p.B.Height))
		}
		// the interchain account address of a (connection, port) never changes
		for _, i := range sortedOwners(p.Own) {
			o := p.Own[i]
			addr, ok := p.B.App.ICAHostKeeper.GetInterchainAccountAddress(p.B.QueryCtx(), p.eb.ConnID, o.Port)
			if !ok {
				continue
			}
			if o.Addr == "" {
				o.Addr = addr
			} else if o.Addr != addr {
				w.Violate("C38", "interchain-account-address-changed", "", fmt.Sprintf("host: account of (%s, %s) changed from %s to %s", p.eb.ConnID, o.Port, o.Addr, addr))
			}
		}
		return
	}
	// controller: at most one active channel per (connection, owner), replaced only after CLOSED
	for _, i := range sortedOwners(p.Own) {
		o := p.Own[i]
		act, ok := p.A.App.ICAControllerKeeper.GetActiveChannelID(p.A.QueryCtx(), p.ea.ConnID, o.Port)
		if !ok {
			continue
		}
		ch := p.A.ChannelEnd(o.Port, act)
		if o.active != "" && act != o.active {
			old := p.A.ChannelEnd(o.Port, o.active)
			if old.State != channeltypes.CLOSED {
				w.Violate("C38", "active-channel-replaced-while-not-closed", "", fmt.Sprintf("controller: active channel of (%s, %s) changed from %s (%s) to %s", p.ea.ConnID, o.Port, o.active, old.State, act))
			}
			w.Stats.Probe("ica_active_channel_replaced")
			w.Stats.NonTrivial("reopen:" + ch.Ordering.String())
		}
		if ch.State == channeltypes.OPEN {
			if o.meta == "" {
				o.meta, o.order0 = ch.Version, ch.Ordering
			} else {
				if ch.Ordering != o.order0 {
					w.Violate("C38", "reopened-with-different-ordering", "", fmt.Sprintf("controller: channel %s of %s is %s, the first one was %s", act, o.Port, ch.Ordering, o.order0))
				}
				if !sameMetadata(ch.Version, o.meta) {
					w.Violate("C38", "reopened-with-different-metadata", "", fmt.Sprintf("controller: channel %s of %s has metadata %s, the first one %s", act, o.Port, ch.Version, o.meta))
				}
			}
		}
		o.active = act
		// no second OPEN channel on the same port and connection
		open := 0
		prefix := "channelEnds/ports/" + o.Port + "/channels/"
		for k, v := range p.A.Census([]string{ibcStore}).KV[ibcStore] {
			if strings.HasPrefix(k, prefix) {
				var c channeltypes.Channel
				if p.A.App.AppCodec().Unmarshal(v, &c) == nil && c.State == channeltypes.OPEN && len(c.ConnectionHops) == 1 && c.ConnectionHops[0] == p.ea.ConnID {
					open++
				}
			}
		}
		if open > 1 {
			w.Violate("C38", "two-open-channels-for-one-owner", "", fmt.Sprintf("controller: %d OPEN channels on port %s over %s", open, o.Port, p.ea.ConnID))
		}
	}
}

func sameMetadata(a, b string) bool {
	var x, y icatypes.Metadata
	if json.Unmarshal([]byte(a), &x) != nil || json.Unmarshal([]byte(b), &y) != nil {
		return a == b
	}
	return x == y
}

func sortedOwners(m map[int]*icaOwner) []int {
	var ks []int
	for k := range m {
		ks = append(ks, k)
	}
	sort.Ints(ks)
	return ks
}

// ---- generator ---------------------------------------------------------------------------------

func (p *ICA) ensure(c *sim.Chain) []sim.Op {
	ci := 0
	if c == p.B {
		ci = 1
	}
	return []sim.Op{{K: "blk", C: ci, N: int64(sim.DefaultBlockInterval)}}
}

func (p *ICA) Gen(w *sim.World) []sim.Op {
	o := p.Opt
	batches := []string{"s5", "s5,s7", "s5,v3", "v3", "v3,s5", "s5,b", "b,s5", "s5,d2", "d2", "x4", "s5,x4", "s3,s4,s5", "s3,b,s5", "s3,s4,v2", "s9,s9,s9,s9"}
	for try := 0; try < 10; try++ {
		oi := 2 + w.Intn(4)
		ow := p.owner(oi)
		switch w.Pick(o.WReg, o.WHs, o.WFund, o.WSend, o.WRelay, o.WBlock, o.WAtk, o.WDup, o.WTmo, o.WRestart) {
		case 0:
			// mostly owners that have nothing in flight: never registered, or their channel CLOSED
			if w.Chance(0.8) {
				var cand []int
				for i := 2; i <= 5; i++ {
					x := p.owner(i)
					closed := x.Stage == 4 && x.ChanA != "" && p.A.ChannelEnd(x.Port, x.ChanA).State == channeltypes.CLOSED
					if x.Stage == 0 || closed {
						cand = append(cand, i)
					}
				}
				if len(cand) == 0 {
					continue
				}
				oi = cand[w.Intn(len(cand))]
				ow = p.owner(oi)
			}
			ord := int64(w.Intn(2))
			if ow.meta != "" && w.Chance(0.7) && ow.order0 == channeltypes.ORDERED {
				ord = 1
			}
			return []sim.Op{{K: "ireg", C: oi, X: ord, S: []string{"", "meta"}[w.Intn(2)]}}
		case 1:
			{
				var cand []int
				for i := 2; i <= 5; i++ {
					if x := p.owner(i); x.ChanA != "" && x.Stage >= 1 && x.Stage <= 3 {
						cand = append(cand, i)
					}
				}
				if len(cand) == 0 {
					continue
				}
				oi = cand[w.Intn(len(cand))]
				ow = p.owner(oi)
			}
			switch ow.Stage {
			case 1:
				return append(p.ensure(p.A), sim.Op{K: "ihs", C: oi, N: 1, M: p.A.Height + 1})
			case 2:
				return append(p.ensure(p.B), sim.Op{K: "ihs", C: oi, N: 2, M: p.B.Height + 1})
			case 3:
				return append(p.ensure(p.A), sim.Op{K: "ihs", C: oi, N: 3, M: p.A.Height + 1})
			}
		case 2:
			if ow.Addr != "" {
				return []sim.Op{{K: "ifund", C: oi, N: int64(20 + w.Intn(60))}}
			}
		case 3:
			if ow.Addr == "" || len(p.Order) >= o.MaxPkts {
				continue
			}
			signer := int64(oi)
			if w.Chance(0.12) {
				signer = int64(2 + w.Intn(6))
			}
			rel := int64(time.Hour)
			if w.Chance(0.3) {
				rel = int64(time.Duration(3+w.Intn(25)) * time.Second)
			}
			return []sim.Op{{K: "isend", C: oi, X: signer, T: w.Tag(), N: rel, S: batches[w.Intn(len(batches))]}}
		case 4, 7:
			if ops := p.genRelay(w.Pick(o.WRelay, o.WDup) == 1); ops != nil {
				return ops
			}
		case 5:
			return []sim.Op{{K: "blk", C: w.Intn(2), N: int64(w.Dur() % (2 * time.Minute))}}
		case 6:
			// (a ChanOpenInit on a controller port submitted by any account of the controller CHAIN is
			// the controller starting the handshake: legitimate, not in this list)
			kinds := []string{"host-init", "ctrl-init-wrong-counterparty", "ctrl-try"}
			return []sim.Op{{K: "iatk", C: oi, S: kinds[w.Intn(len(kinds))]}}
		case 8:
			// let time pass on the host so that short timeouts elapse
			return []sim.Op{{K: "blk", C: 1, N: int64(40 * time.Second)}, {K: "blk", C: 1, N: int64(sim.DefaultBlockInterval)}}
		case 9:
			ci := w.Intn(2)
			if len(p.chain(ci).Mempool) == 0 {
				return []sim.Op{{K: "restart", C: ci}}
			}
		}
	}
	return []sim.Op{{K: "blk", C: w.Intn(2), N: int64(sim.DefaultBlockInterval)}}
}

func (p *ICA) genRelay(dup bool) []sim.Op {
	w := p.w
	var cand []*icaPkt
	for _, t := range p.Order {
		ip := p.Pkts[t]
		if dup || ip.Done == "" {
			cand = append(cand, ip)
		}
	}
	if len(cand) == 0 {
		return nil
	}
	ip := cand[w.Intn(len(cand))]
	if dup {
		w.Stats.Fault("relay.replay")
		if ip.RecvH > 0 && w.Chance(0.5) {
			return []sim.Op{{K: "irecv", T: ip.Tag, M: p.A.Height}}
		}
		if ip.Ack != nil {
			return append(p.ensure(p.B), sim.Op{K: "iack", T: ip.Tag, M: p.B.Height + 1})
		}
		return []sim.Op{{K: "irecv", T: ip.Tag, M: p.A.Height}}
	}
	if ip.RecvH == 0 {
		// timed out on the host?
		if rec := p.B.Headers[p.B.Height]; rec != nil && ip.P1.TimeoutTimestamp != 0 && uint64(rec.Header.Time.UnixNano()) >= ip.P1.TimeoutTimestamp && p.B.Height >= 3 {
			return []sim.Op{{K: "itmo", T: ip.Tag, M: p.B.Height}}
		}
		return append(p.ensure(p.A), sim.Op{K: "irecv", T: ip.Tag, M: p.A.Height + 1})
	}
	return append(p.ensure(p.B), sim.Op{K: "iack", T: ip.Tag, M: p.B.Height + 1})
}

func (p *ICA) Drain(w *sim.World) []sim.Op {
	for _, t := range p.Order {
		ip := p.Pkts[t]
		if ip.Done == "" && ip.Attempt < 3 {
			ip.Attempt++
			if ip.RecvH == 0 {
				if rec := p.B.Headers[p.B.Height]; rec != nil && ip.P1.TimeoutTimestamp != 0 && uint64(rec.Header.Time.UnixNano()) >= ip.P1.TimeoutTimestamp && p.B.Height >= 3 {
					return []sim.Op{{K: "itmo", T: ip.Tag, M: p.B.Height}}
				}
				return append(p.ensure(p.A), sim.Op{K: "irecv", T: ip.Tag, M: p.A.Height + 1})
			}
			return append(p.ensure(p.B), sim.Op{K: "iack", T: ip.Tag, M: p.B.Height + 1})
		}
	}
	return nil
}

func (p *ICA) Finish(w *sim.World) {
	n := len(w.Log)
	if n > 30 {
		n = 30
	}
	if len(w.Viol) == 0 && len(p.Order) > 1 {
		w.Stats.Sample(map[string]any{"profile": "accounts", "seed": w.Cfg.Seed, "packets": len(p.Order), "first_events": w.Log[:n]})
	}
}

// icaCheck registers a property decided on the accounts profile.
func icaCheck(prop, rule string, nontriv []string, tune func(o *ICAOptions, r *rand.Rand), extra func(ck *sim.Check)) {
	ck := &sim.Check{
		Prop: prop, Rule: rule, NonTrivPrefixes: nontriv,
		Worlds: map[string]int{"quick": 160, "thorough": 1000},
		NewProfile: func(cfg sim.WorldConfig) sim.Profile {
			var o ICAOptions
			if err := json.Unmarshal(cfg.Extra, &o); err != nil {
				sim.Failf("accounts options: %v", err)
			}
			return NewICA(o)
		},
		MakeConfig: func(tier string, seed int64) sim.WorldConfig {
			r := rand.New(rand.NewSource(seed ^ 0x494341))
			o := DefaultICAOptions()
			o.Allow = [][]string{nil, {"*"}, {"/cosmos.bank.v1beta1.MsgSend"}, {"/cosmos.bank.v1beta1.MsgSend", "/cosmos.authz.v1beta1.MsgExec"}, {"/cosmos.bank.v1beta1.MsgSend", "/cosmos.staking.v1beta1.MsgDelegate"},
				// entries that are NOT the type of any message sent here but resemble one: a strict prefix of the
				// send type, the send type with a trailing blank, another case; only exact types may execute
				{"/cosmos.bank.v1beta1.Msg", "/cosmos.staking.v1beta1.MsgDelegate"}, {"/cosmos.bank.v1beta1.MsgSend ", "/cosmos.authz.v1beta1.MsgExec"},
				{"/cosmos.bank.v1beta1.msgsend"}}[r.Intn(8)]
			if tune != nil {
				tune(&o, r)
			}
			bz, _ := json.Marshal(o)
			return sim.WorldConfig{Profile: "accounts", Steps: steps(tier, 130, 300), Extra: bz}
		},
		Assumptions: []string{
			"messages in batches are bank sends, a staking delegation and an authz exec (effects predictable by a small model); arbitrary SDK messages are not generated",
			"seeded search: a clean batch is evidence within the stated bounds, not proof",
		},
	}
	if extra != nil {
		extra(ck)
	}
	register(ck)
}

func init() {
	icaCheck("C37",
		"controller chain A and host chain B (host allow list drawn per world: *, bank only, bank+authz, bank+staking); owners register interchain accounts (ordered / unordered), relayers run the handshakes, accounts are funded, owners send batches of 1-4 messages — sends from the interchain account, sends of ANOTHER account's coins, over-balance sends, delegations of stake the account lacks, authz execs without grant — with the failing / unauthorised message at every position; relayers deliver, duplicate and replay. Model: a batch executes iff every message type is allowed, every signer is the interchain account of that (connection, port) and every message succeeds in order; then all its bank effects apply, else none (error ack). The host's real bank diff after the receive must equal the model's and the ack must agree. Non-trivial case = distinct (batch shape, executed?, model verdict)",
		[]string{"batch:"}, nil,
		func(ck *sim.Check) {
			ck.Level = "fault_enumeration"
			ck.RequiredProbes = []string{"ica_recv_success", "ica_sendtx_accepted"}
		})
	icaCheck("C38",
		"same worlds with more registrations, ordered channels closing on timeouts and being re-registered, MsgSendTx signed by strangers, handshake steps started by anyone but the controller (ChanOpenInit on the host port, direct ChanOpenInit / ChanOpenTry on controller ports, wrong counterparty port). Oracles after every block: the active channel of a (connection, owner) changes only when the previous one is CLOSED; never two OPEN channels for one owner; a reopened channel has the same ordering and metadata; the host's account address for (connection, port) never changes; MsgSendTx signed by a non-owner and foreign handshake steps are never accepted. Non-trivial case = distinct registration / send / attack outcomes and reopenings",
		[]string{"reg:", "sendtx:", "atk:", "reopen:"},
		func(o *ICAOptions, r *rand.Rand) { o.WReg, o.WAtk, o.WTmo = 14, 10, 10 },
		func(ck *sim.Check) {
			ck.RequiredProbes = []string{"ica_register_accepted", "ica_register_refused", "ica_attack_refused", "ica_active_channel_replaced"}
		})
}
