package prof

import (
	"fmt"
	"math/big"
	"time"

	sdk "github.com/cosmos/cosmos-sdk/types"

	clienttypes "github.com/cosmos/ibc-go/v11/modules/core/02-client/types"
	host "github.com/cosmos/ibc-go/v11/modules/core/24-host"
	ibctm "github.com/cosmos/ibc-go/v11/modules/light-clients/07-tendermint"

	"verif/ibcsim/sim"
)

// C19: connection delay periods.
//
// Model (exact integer arithmetic): a packet proof at height ph is acceptable in a block
// (H, T) iff  T >= processedTime(ph) + delay  and  H >= processedHeight(ph) + ceil(delay / perBlock)
// (perBlock == 0 => block delay 0). processedTime/Height are read from the client's stored
// metadata (ground truth of when the consensus state was stored), never from the code that
// decides acceptance.

func ceilDiv(a, b uint64) uint64 {
	if b == 0 {
		return 0
	}
	q := new(big.Int).Div(new(big.Int).SetUint64(a), new(big.Int).SetUint64(b))
	if new(big.Int).Mod(new(big.Int).SetUint64(a), new(big.Int).SetUint64(b)).Sign() != 0 {
		q.Add(q, big.NewInt(1))
	}
	return q.Uint64()
}

func (p *Core) processedAt(c *sim.Chain, clientID string, ph clienttypes.Height) (uint64, int64, bool) {
	tb := c.State(ibcStore, host.FullClientKey(clientID, ibctm.ProcessedTimeKey(ph)))
	hb := c.State(ibcStore, host.FullClientKey(clientID, ibctm.ProcessedHeightKey(ph)))
	if len(tb) != 8 || hb == nil {
		return 0, 0, false
	}
	h, err := clienttypes.ParseHeight(string(hb))
	if err != nil {
		return 0, 0, false
	}
	return sdk.BigEndianToUint64(tb), int64(h.RevisionHeight), true
}

// checkDelay judges one packet transaction on a delayed connection.
func (p *Core) checkDelay(ci int, ps *PktState, r *sim.TxResult, lbl, out string) {
	w := p.w
	if !w.Armed("C19") || ps.Local || ps.V2 || p.Opt.Delay == 0 {
		return
	}
	c := p.C[ci]
	cli := ps.SrcCli
	if lbl == "recv" {
		cli = ps.DstCli
	}
	ph := proofHeightOf(lastMsg(r))
	pt, phh, ok := p.processedAt(c, cli, ph)
	if !ok {
		return
	}
	delay := p.Opt.Delay
	bd := ceilDiv(delay, p.mept)
	T := uint64(c.LastTime.UnixNano())
	H := uint64(r.Height)
	// elapsed >= required, written so that nothing can wrap (pt+delay does for delays near 2^64)
	passed := T >= pt && T-pt >= delay && H >= uint64(phh) && H-uint64(phh) >= bd
	side := fmt.Sprintf("dt%+d:dh%+d", sideOf(T, pt, delay), sideOf(H, uint64(phh), bd))
	w.Stats.NonTrivial(fmt.Sprintf("delay:%d/%d:%s:%s", delay, p.mept, side, out))
	if out == "success" && !passed {
		w.Violate("C19", "accepted-before-delay", "", fmt.Sprintf("%s: %s accepted in block %d at %d ns with proof height %s processed in block %d at %d ns; connection delay %d ns, max expected time per block %d ns => block delay %d: required time >= %d and height >= %d", ps.Pkt, lbl, H, T, ph, phh, pt, delay, p.mept, bd, pt+delay, uint64(phh)+bd))
	}
	if out == "failed" && passed && r.Space == ibctm.ModuleName && r.Code == ibctm.ErrDelayPeriodNotPassed.ABCICode() {
		w.Violate("C19", "refused-after-delay", "", fmt.Sprintf("%s: %s refused for the delay period in block %d at %d ns although time >= %d and height >= %d (delay %d, per block %d, block delay %d)", ps.Pkt, lbl, H, T, pt+delay, uint64(phh)+bd, delay, p.mept, bd))
	}
	if out == "failed" && r.Space == ibctm.ModuleName && r.Code == ibctm.ErrDelayPeriodNotPassed.ABCICode() {
		w.Stats.Probe("refused_for_delay_period")
	}
	if out == "success" {
		w.Stats.Probe("accepted_after_delay_period")
	}
}

// sideOf is clamp((now - since) - need) computed without wrapping.
func sideOf(now, since, need uint64) int64 {
	if now < since {
		return -2
	}
	el := now - since
	if el >= need {
		if el-need > 2 {
			return 2
		}
		return int64(el - need)
	}
	if need-el > 2 {
		return -2
	}
	return -int64(need - el)
}

func clamp(x int64) int64 {
	if x > 2 {
		return 2
	}
	if x < -2 {
		return -2
	}
	return x
}

// genDelayProbe: update the client, then submit the packet message exactly around the two
// boundaries (time: delay-1ns / +0 / +1ns / generous; height: block delay -1 / +0 / +1).
func (p *Core) genDelayProbe() []sim.Op {
	w := p.w
	if p.Opt.Delay == 0 {
		return nil
	}
	var cand []*PktState
	for _, ps := range p.inflight() {
		if !ps.Local && !ps.V2 {
			cand = append(cand, ps)
		}
	}
	if len(cand) == 0 {
		return nil
	}
	ps := cand[w.Intn(len(cand))]
	step := p.nextHonest(ps, false)
	if len(step) == 0 {
		return nil
	}
	last := step[len(step)-1]
	if last.K != "recv" && last.K != "ack" && last.K != "tmo" {
		return step
	}
	on := ps.Src
	e := ps.Dir
	if last.K == "recv" {
		on, e = ps.Dst, 1-ps.Dir
	}
	ops := append([]sim.Op{}, step[:len(step)-1]...)
	ops = append(ops, sim.Op{K: "upd", P: ps.Route, X: int64(e), M: last.M})
	bd := int64(ceilDiv(p.Opt.Delay, p.mept))
	if bd < 0 || bd > 64 {
		bd = 2 // the true block delay is out of reach: probe the first few blocks
	}
	k := bd + int64(w.Intn(3)) - 1
	if k < 1 {
		k = 1
	}
	var delta int64
	switch w.Pick(25, 25, 25, 25) {
	case 0:
		delta = -1
	case 1:
		delta = 0
	case 2:
		delta = 1
	default:
		delta = int64(time.Minute)
	}
	total := int64(p.Opt.Delay) + delta
	if p.Opt.Delay >= 1<<62 {
		// a delay of centuries: the time boundary is beyond the representable clock; probe what
		// happens a minute later (nothing may be accepted)
		total = int64(time.Minute) + delta
		w.Stats.Probe("delay_probe_with_unreachable_time_delay")
	}
	if total < k {
		total = k
	}
	// the update's own block is at Now+1s; the following k blocks must add up to `total`
	each := total / k
	for i := int64(0); i < k-1; i++ {
		ops = append(ops, blkOp(on.Idx, time.Duration(each)))
	}
	last.N = total - each*(k-1)
	last.X |= flagNoUpdate
	w.Stats.Probe("delay_boundary_probe")
	return append(ops, last)
}
