package prof

import (
	"fmt"
	"sort"
	"strings"

	sdkmath "cosmossdk.io/math"

	sdk "github.com/cosmos/cosmos-sdk/types"

	gmptypes "github.com/cosmos/ibc-go/v11/modules/apps/27-gmp/types"
	channeltypesv2 "github.com/cosmos/ibc-go/v11/modules/core/04-channel/v2/types"
	coretypes "github.com/cosmos/ibc-go/v11/modules/core/types"

	"verif/ibcsim/sim"
)

// Probes that must have fired over a batch: they prove the situations in which C39 can fail were
// reached (otherwise the check exits 2).
var gmpRequiredProbes = []string{
	// (a) derivation
	"gmp_naive_collision_pair_both_stored",          // two triples with equal undelimited concatenation both own an account
	"gmp_clientid_sender_collision_pair_stored",     // ... where the boundary that moves is client id / sender (07-tendermint-1|0x vs 07-tendermint-10|x)
	"gmp_same_sender_salt_on_two_clients_stored",    // same (sender, salt) under two destination clients
	"gmp_address_same_before_and_after_first_use",   // an address named before the first use was named again after it
	"gmp_prefunded_address_adopted_as_account",      // the derived address already existed as a plain account when first used
	"gmp_foreign_app_packet_committed",              // arbitrary sender strings reached the destination
	// (b) execution
	"gmp_payload_executed_by_derived_account",       // an authorised payload changed balances (whole effect)
	"gmp_multi_msg_payload_executed_whole",          // ... with 2-3 messages
	"gmp_foreign_signer_payload_refused",            // a message signed by somebody else: nothing changed, refused by the signer check
	"gmp_other_gmp_account_signer_refused",          // ... the somebody else being another GMP account
	"gmp_foreign_signer_after_own_msg_refused",      // own message first, foreign-signer message later
	"gmp_two_signer_msg_refused",                    // a message with two signers
	"gmp_failing_msg_after_executable_msg_rolled_back", // an executable own message followed by a failing one: nothing changed
	"gmp_nested_sendcall_by_account_executed",       // the account sent a GMP call itself
	"gmp_nested_sendcall_foreign_sender_refused",    // a payload naming somebody else as the sender of a nested call
	"gmp_replayed_recv_noop",                        // an already received packet delivered again
	"gmp_recv_race_same_block",                      // the same packet delivered twice in one block
	// (c) sending
	"gmp_sendcall_accepted_sender_is_signer",
	"gmp_rawsend_accepted_sender_is_signer",
	"gmp_foreign_sender_refused_by_gmp_send_check",  // MsgSendPacket whose gmp payload names another sender reached the application and was refused
	"gmp_sendcall_foreign_sender_refused",           // MsgSendCall naming another sender than the signer
	"gmp_two_payloads_second_foreign_refused",
}

// ---- (a) the observed map triple -> address ----------------------------------------------------

// queryAddr asks the destination which address the triple maps to (the module's own query path:
// stored account if the triple was used, otherwise the address it would get).
func (p *GMP) queryAddr(t gmpTriple) (string, bool) {
	return p.queryAddrCtx(p.B.QueryCtx(), t)
}

func (p *GMP) queryAddrCtx(ctx sdk.Context, t gmpTriple) (string, bool) {
	id := gmptypes.NewAccountIdentifier(t.Client, t.Sender, t.Salt)
	addr, err := p.B.App.GMPKeeper.GetOrComputeICS27Address(ctx, &id)
	if err != nil || addr == "" {
		return "", false
	}
	return addr, true
}

// note records one observation "triple t maps to addr" and checks the two halves of clause (a):
// the address of a triple never changes, and no two triples share an address.
func (p *GMP) note(t gmpTriple, addr, src string) {
	w := p.w
	ts := p.touch(t)
	k := t.key()
	if ts.First == "" {
		ts.First, ts.FirstSrc = addr, src
	} else if ts.First != addr {
		sig := ""
		if ot := p.triples[p.owner[addr]]; ot != nil && gmpSameKeyAfterRuneTruncation(ot.T, t) {
			sig = gmpSigRuneTruncation
		}
		if !w.Violate("C39", "address-of-triple-changed", sig, fmt.Sprintf("triple %s mapped to %s (%s) and now maps to %s (%s)", k, ts.First, ts.FirstSrc, addr, src)) && sig != "" && w.Armed("C39") {
			w.StopQuietly("a triple took over the account of another through the listed store-key defect")
		}
		return
	}
	if o, ok := p.owner[addr]; ok && o != k {
		sig := ""
		if ot := p.triples[o]; ot != nil && gmpSameKeyAfterRuneTruncation(ot.T, t) {
			sig = gmpSigRuneTruncation
		}
		if !w.Violate("C39", "address-shared-by-two-triples", sig, fmt.Sprintf("triples %s and %s both map to %s (seen via %s)", o, k, addr, src)) && sig != "" && w.Armed("C39") {
			// a listed finding: from here on the destination confuses the two accounts, so the rest
			// of this world would only report consequences of the same defect
			w.StopQuietly("two triples share an account through the listed store-key defect")
		}
		return
	}
	p.owner[addr] = k
}

// Signature of a defect found by this check on the unchanged tree: the account store is keyed by
// collections.TripleKeyCodec(StringKey, StringKey, BytesKey); StringKey.EncodeNonTerminal copies
// only the first byte of every UTF-8 sequence (it ranges over the string by rune), so senders
// that differ in continuation bytes ("ä" / "ã"), or a sender cut after a lead byte with a salt
// that starts with NULs, land on the same store key and therefore on the same account.
const gmpSigRuneTruncation = "sender-utf8-continuation-bytes-dropped-by-store-key"

// gmpSameKeyAfterRuneTruncation characterises exactly the pairs the listed defect confuses:
// same client, a non-ASCII sender, and equal (sender, salt) bytes once every continuation byte of
// the senders is replaced by NUL the way the key codec does it.
func gmpSameKeyAfterRuneTruncation(a, b gmpTriple) bool {
	if a.Client != b.Client {
		return false
	}
	ascii := func(s string) bool {
		for i := 0; i < len(s); i++ {
			if s[i] >= 0x80 {
				return false
			}
		}
		return true
	}
	if ascii(a.Sender) && ascii(b.Sender) {
		return false
	}
	enc := func(t gmpTriple) string {
		buf := make([]byte, len(t.Sender)+1)
		for i := range t.Sender {
			buf[i] = t.Sender[i]
		}
		return string(buf) + string(t.Salt)
	}
	return enc(a) == enc(b)
}

func gmpTripleOf(id *gmptypes.AccountIdentifier) gmpTriple {
	return gmpTriple{Client: id.ClientId, Sender: id.Sender, Salt: append([]byte{}, id.Salt...)}
}

// observeAll looks at everything the destination says about GMP accounts: the query for every
// triple of the run, the account store and the reverse index.
func (p *GMP) observeAll(src string) {
	w := p.w
	ctx := p.B.QueryCtx()
	for _, k := range sim.SortedKeys(p.triples) {
		ts := p.triples[k]
		addr, ok := p.queryAddrCtx(ctx, ts.T)
		if !ok {
			ts.NoAddr = true
			continue
		}
		if ts.Stored {
			if ts.PreQuery && !ts.PostQuery {
				w.Stats.Probe("gmp_address_same_before_and_after_first_use")
			}
			ts.PostQuery = true
		} else {
			ts.PreQuery = true
		}
		p.note(ts.T, addr, "address query after "+src)
	}
	type rec struct {
		t    gmpTriple
		addr string
		src  string
	}
	var recs []rec
	gk := p.B.App.GMPKeeper
	// (iterators instead of Walk: no direct import of the collections module is needed)
	it, err := gk.Accounts.Iterate(ctx, nil)
	if err != nil {
		sim.Failf("gmp: iterating the account store: %v", err)
	}
	kvs, err := it.KeyValues()
	if err != nil {
		sim.Failf("gmp: reading the account store: %v", err)
	}
	for _, kv := range kvs {
		key, v := kv.Key, kv.Value
		t := gmpTriple{Client: key.K1(), Sender: key.K2(), Salt: append([]byte{}, key.K3()...)}
		recs = append(recs, rec{t, v.Address, "account store"})
		if v.AccountId != nil {
			recs = append(recs, rec{gmpTripleOf(v.AccountId), v.Address, "identifier inside the stored account"})
		}
		p.touch(t).Stored = true
	}
	it2, err := gk.AccountsByAddress.Iterate(ctx, nil)
	if err != nil {
		sim.Failf("gmp: iterating the reverse index: %v", err)
	}
	kvs2, err := it2.KeyValues()
	if err != nil {
		sim.Failf("gmp: reading the reverse index: %v", err)
	}
	for _, kv := range kvs2 {
		if kv.Value.AccountId != nil {
			recs = append(recs, rec{gmpTripleOf(kv.Value.AccountId), sdk.AccAddress(kv.Key).String(), "reverse index"})
		}
	}
	for _, r := range recs {
		p.note(r.t, r.addr, r.src+" after "+src)
	}
}

// finishProbes reports which collision families really got accounts on the destination.
func (p *GMP) finishProbes() {
	w := p.w
	byNaive := map[string][]*gmpTripleState{}
	byPair := map[string][]*gmpTripleState{}
	for _, k := range sim.SortedKeys(p.triples) {
		ts := p.triples[k]
		if ts.NoAddr && !ts.Stored {
			w.Stats.Probe("gmp_unnameable_triple_seen")
		}
		if !ts.Stored {
			continue
		}
		if ts.PreFunded {
			w.Stats.Probe("gmp_prefunded_address_adopted_as_account")
		} else {
			w.Stats.Probe("gmp_account_created_at_first_use")
		}
		byNaive[ts.T.naive()] = append(byNaive[ts.T.naive()], ts)
		pk := fmt.Sprintf("%q|%x", ts.T.Sender, ts.T.Salt)
		byPair[pk] = append(byPair[pk], ts)
	}
	for _, k := range sim.SortedKeys(byNaive) {
		g := byNaive[k]
		if len(g) < 2 {
			continue
		}
		w.Stats.Probe("gmp_naive_collision_pair_both_stored")
		kind := "sender-salt"
		for _, x := range g[1:] {
			if x.T.Client != g[0].T.Client {
				kind = "client-sender"
				w.Stats.Probe("gmp_clientid_sender_collision_pair_stored")
			}
		}
		w.Stats.NonTrivial(fmt.Sprintf("gmp:collide:%s:%d-triples:senderlen-%d", kind, len(g), len(g[0].T.Sender)))
	}
	for _, k := range sim.SortedKeys(byPair) {
		if len(byPair[k]) >= 2 {
			w.Stats.Probe("gmp_same_sender_salt_on_two_clients_stored")
		}
	}
}

// ---- (b) what a received payload did -----------------------------------------------------------

// snapB is the part of B's state a GMP payload built by this profile can touch: every bank
// balance and the v2 send sequence of every route.
func (p *GMP) snapB() map[string]sdkmath.Int {
	m := map[string]sdkmath.Int{}
	bal := p.B.BankBalances()
	for _, addr := range sim.SortedKeys(bal) {
		for _, c := range bal[addr] {
			m[gmpBalKey(addr, c.Denom)] = c.Amount
		}
	}
	ctx := p.B.QueryCtx()
	for _, r := range p.routes {
		seq, _ := p.B.App.IBCKeeper.ChannelKeeperV2.GetNextSequenceSend(ctx, r.cliB)
		m[gmpSeqKey(r.cliB)] = sdkmath.NewIntFromUint64(seq)
	}
	return m
}

func gmpDiff(after, before map[string]sdkmath.Int) map[string]sdkmath.Int {
	d := map[string]sdkmath.Int{}
	for _, k := range sim.SortedKeys(after) {
		b, ok := before[k]
		if !ok {
			b = sdkmath.ZeroInt()
		}
		if !after[k].Equal(b) {
			d[k] = after[k].Sub(b)
		}
	}
	for _, k := range sim.SortedKeys(before) {
		if _, ok := after[k]; !ok && !before[k].IsZero() {
			d[k] = before[k].Neg()
		}
	}
	return d
}

func gmpSame(a, b map[string]sdkmath.Int) bool {
	if len(a) != len(b) {
		return false
	}
	for k, v := range a {
		if o, ok := b[k]; !ok || !o.Equal(v) {
			return false
		}
	}
	return true
}

func gmpFmt(m map[string]sdkmath.Int) string {
	var parts []string
	for _, k := range sim.SortedKeys(m) {
		parts = append(parts, k+":"+m[k].String())
	}
	if len(parts) == 0 {
		return "{}"
	}
	return "{" + strings.Join(parts, " ") + "}"
}

// gmpAckError digs the application's refusal reason out of the (error-prefixed) recv event.
func gmpAckError(r *sim.TxResult) string {
	for _, ev := range r.Events {
		if !strings.HasSuffix(ev.Type, gmptypes.EventTypeRecvPacket) {
			continue
		}
		for _, a := range ev.Attributes {
			if a.Key == gmptypes.AttributeKeyAckError || a.Key == coretypes.ErrorAttributeKeyPrefix+gmptypes.AttributeKeyAckError {
				return a.Value
			}
		}
	}
	return ""
}

// judgeRecv decides clause (b) for one block of B that held only deliveries of call c.
func (p *GMP) judgeRecv(c *gmpCall, before, after map[string]sdkmath.Int, res []*sim.TxResult, recvIdx []int, wasReceived bool) {
	w := p.w
	fresh := -1 // the tx that really received the packet
	noops := 0
	for i, r := range res {
		if !r.OK() {
			continue
		}
		var resp channeltypesv2.MsgRecvPacketResponse
		if err := sim.UnpackResponse(r, recvIdx[i], &resp); err != nil {
			sim.Failf("gmp: recv response: %v", err)
		}
		switch resp.Result {
		case channeltypesv2.NOOP:
			noops++
		case channeltypesv2.SUCCESS:
			if fresh < 0 {
				fresh = i
			}
		}
	}
	now := c.Pkt.ReceivedAtVersion(p.B.Height)
	ackErr := ""
	if now && !wasReceived {
		if fresh < 0 {
			sim.Failf("gmp: packet %s has a receipt but no delivery succeeded", c.Pkt)
		}
		c.Received, c.RecvH = true, p.B.Height
		if ack, ok := sim.AckV2FromEvents(res[fresh].Events); ok {
			c.Ack = &ack
		}
		ackErr = gmpAckError(res[fresh])
	}
	if !now && uint64(p.B.LastTime.Unix()) >= c.Pkt.P2.TimeoutTimestamp {
		c.Dead = true
		w.Stats.Probe("gmp_packet_timed_out_unreceived")
	}
	c.Recvs++
	if wasReceived && noops > 0 {
		w.Stats.Probe("gmp_replayed_recv_noop")
		w.Stats.Fault("relay.replay")
	}
	if !wasReceived && fresh >= 0 && noops > 0 {
		w.Stats.Probe("gmp_recv_race_same_block")
		w.Stats.Fault("relay.dup")
	}

	// what the harness knows about the payload, by construction
	accts := map[string]bool{} // addresses this packet's payloads may act for
	authorised := true
	var whole map[string]sdkmath.Int = map[string]sdkmath.Int{}
	for _, pl := range c.Plans {
		ts := p.triples[pl.Acct]
		acct := ""
		if ts != nil {
			acct = ts.First
		}
		if acct != "" {
			accts[acct] = true
		}
		if len(pl.Signers) != 1 || acct == "" || pl.Signers[0] != acct {
			authorised = false
		}
		if pl.Effect == nil {
			whole = nil
		}
		if whole != nil {
			for _, k := range sim.SortedKeys(pl.Effect) {
				gmpAdd(whole, k, pl.Effect[k])
			}
		}
	}
	d := gmpDiff(after, before)
	tk := c.T.key()
	if len(tk) > 160 {
		tk = tk[:80] + fmt.Sprintf("...(%d bytes)...", len(tk)-140) + tk[len(tk)-60:]
	}
	what := fmt.Sprintf("packet %s (%s, payload %s, triple %s)", c.Pkt, c.Via, c.Shape, tk)

	outcome := ""
	switch {
	case len(d) == 0:
		outcome = "none"
	case whole != nil && gmpSame(d, whole):
		outcome = "whole"
		if !authorised {
			w.Violate("C39", "payload-with-foreign-or-multiple-signers-executed", "",
				fmt.Sprintf("%s executed although not every message has exactly one signer equal to the account of the triple: signers %s, account(s) %v, state change %s",
					what, gmpSigners(c.Plans), sortedSet(accts), gmpFmt(d)))
			return
		}
	default:
		// part of the payload, or something the payload does not say
		if n := len(c.Plans); n <= 8 {
			for mask := 1; mask < (1<<uint(n))-1; mask++ {
				sum := map[string]sdkmath.Int{}
				ok := true
				for i, pl := range c.Plans {
					if mask&(1<<uint(i)) == 0 {
						continue
					}
					if pl.Effect == nil {
						ok = false
						break
					}
					for _, k := range sim.SortedKeys(pl.Effect) {
						gmpAdd(sum, k, pl.Effect[k])
					}
				}
				if ok && gmpSame(sum, d) {
					w.Violate("C39", "payload-executed-in-part", "",
						fmt.Sprintf("%s: the state change %s is the effect of messages %b only (whole payload: %s)", what, gmpFmt(d), mask, gmpFmt(whole)))
					return
				}
			}
		}
		for _, k := range sim.SortedKeys(d) {
			if d[k].IsNegative() && strings.Contains(k, "/") && !strings.HasPrefix(k, "send-seq|") {
				addr := k[:strings.LastIndex(k, "/")]
				if !accts[addr] {
					w.Violate("C39", "account-other-than-the-gmp-account-debited", "",
						fmt.Sprintf("%s debited %s, which is not the account of the triple (%v): %s", what, addr, sortedSet(accts), gmpFmt(d)))
					return
				}
			}
		}
		w.Violate("C39", "state-change-is-neither-nothing-nor-the-whole-payload", "",
			fmt.Sprintf("%s: state change %s, whole payload would be %s", what, gmpFmt(d), gmpFmt(whole)))
		return
	}

	sig := fmt.Sprintf("gmp:exec:%s:%s", c.Shape, outcome)
	if wasReceived {
		sig += ":replay"
	}
	w.Stats.NonTrivial(sig)
	w.MixSig(sig)
	if wasReceived || fresh < 0 {
		return
	}

	// reach probes (first delivery only)
	kinds := c.Shape
	if outcome == "whole" {
		w.Stats.Probe("gmp_payload_executed_by_derived_account")
		if len(c.Plans) >= 2 {
			w.Stats.Probe("gmp_multi_msg_payload_executed_whole")
		}
		if strings.ContainsAny(kinds, "C") {
			w.Stats.Probe("gmp_nested_sendcall_by_account_executed")
		}
		return
	}
	signerRefusal := strings.Contains(ackErr, "unexpected signer")
	if signerRefusal {
		if strings.ContainsAny(kinds, "VO") {
			w.Stats.Probe("gmp_foreign_signer_payload_refused")
		}
		if strings.Contains(kinds, "O") {
			w.Stats.Probe("gmp_other_gmp_account_signer_refused")
		}
		if strings.Contains(kinds, "c") {
			w.Stats.Probe("gmp_nested_sendcall_foreign_sender_refused")
		}
		if len(kinds) >= 2 && (kinds[0] == 'S' || kinds[0] == 'm') && strings.ContainsAny(kinds[1:], "VOc") {
			w.Stats.Probe("gmp_foreign_signer_after_own_msg_refused")
		}
	}
	if strings.Contains(ackErr, "expected exactly one signer") && strings.ContainsAny(kinds, "MW") {
		w.Stats.Probe("gmp_two_signer_msg_refused")
	}
	if authorised && ackErr != "" && len(c.Plans) >= 2 && (c.Plans[0].Kind == 'S' || c.Plans[0].Kind == 'm') && strings.ContainsAny(kinds[1:], "FBI") {
		// the first message alone could have executed: the account held enough
		need := c.Plans[0].Need
		acct := p.triples[c.Plans[0].Acct].First
		if have, ok := before[gmpBalKey(acct, need.Denom)]; ok && have.GTE(need.Amount) {
			w.Stats.Probe("gmp_failing_msg_after_executable_msg_rolled_back")
		}
	}
}

func gmpSigners(plans []gmpPlan) string {
	var parts []string
	for _, pl := range plans {
		parts = append(parts, string(pl.Kind)+"="+strings.Join(pl.Signers, "+"))
	}
	return strings.Join(parts, " ")
}

func sortedSet(m map[string]bool) []string {
	out := make([]string, 0, len(m))
	for k := range m {
		out = append(out, k)
	}
	sort.Strings(out)
	return out
}

// ---- (c) who may send ----------------------------------------------------------------------------

// judgeSend decides clause (c) for one send attempt on A: the transaction was signed by `signer`
// (the simulator holds the key, so this is ground truth) and its gmp packet data name `senders`.
func (p *GMP) judgeSend(name string, signer *sim.Account, senders []string, r *sim.TxResult) {
	w := p.w
	own := true
	for _, s := range senders {
		a, err := sdk.AccAddressFromBech32(s)
		if err != nil || !a.Equals(signer.Addr) {
			own = false
		}
	}
	accepted := r.OK()
	w.Stats.NonTrivial(fmt.Sprintf("gmp:send:%s:accepted=%v", name, accepted))
	if accepted && !own {
		w.Violate("C39", "send-accepted-for-sender-other-than-signer", "",
			fmt.Sprintf("%s: transaction signed by %s committed a GMP packet whose sender(s) are %q", name, signer.Addr, senders))
		return
	}
	switch {
	case accepted && strings.HasPrefix(name, "rawsend"):
		w.Stats.Probe("gmp_rawsend_accepted_sender_is_signer")
	case !accepted && !own && sim.LogHas(r, "is different from signer"):
		w.Stats.Probe("gmp_foreign_sender_refused_by_gmp_send_check")
		if len(senders) > 1 {
			w.Stats.Probe("gmp_two_payloads_second_foreign_refused")
		}
	case !accepted && !own && strings.HasPrefix(name, "sendcall"):
		w.Stats.Probe("gmp_sendcall_foreign_sender_refused")
	case !accepted && !own:
		w.Stats.Probe("gmp_unparsable_sender_refused")
	}
}
