package prof

// Chain driver for the callbacks profile (C40).
//
// sim.Chain is tied to testing/simapp.SimApp; the IBC callbacks middleware is only wired into
// its own test application modules/apps/callbacks/testing/simapp. This file is the small part of
// sim/chain.go + sim/ibc.go the callbacks worlds need, re-stated for that application: deterministic
// keys, genesis with funded accounts, FinalizeBlock/Commit with real signed headers, transactions
// with an explicit gas limit, Merkle proofs through ABCI Query, honest light-client updates and
// handshakes. Nothing in here reads a wall clock, an unseeded PRNG or a Go map in iteration order.

import (
	"context"
	"encoding/json"
	"fmt"
	"math/rand"
	"sort"
	"time"

	dbm "github.com/cosmos/cosmos-db"

	"cosmossdk.io/log/v2"
	sdkmath "cosmossdk.io/math"

	"github.com/cosmos/cosmos-sdk/baseapp"
	codectypes "github.com/cosmos/cosmos-sdk/codec/types"
	cryptocodec "github.com/cosmos/cosmos-sdk/crypto/codec"
	"github.com/cosmos/cosmos-sdk/crypto/keys/secp256k1"
	cryptotypes "github.com/cosmos/cosmos-sdk/crypto/types"
	simtestutil "github.com/cosmos/cosmos-sdk/testutil/sims"
	sdk "github.com/cosmos/cosmos-sdk/types"
	authtypes "github.com/cosmos/cosmos-sdk/x/auth/types"
	banktypes "github.com/cosmos/cosmos-sdk/x/bank/types"
	minttypes "github.com/cosmos/cosmos-sdk/x/mint/types"
	stakingtypes "github.com/cosmos/cosmos-sdk/x/staking/types"

	abci "github.com/cometbft/cometbft/abci/types"
	"github.com/cometbft/cometbft/crypto/ed25519"
	"github.com/cometbft/cometbft/crypto/tmhash"
	cmtprotoversion "github.com/cometbft/cometbft/proto/tendermint/version"
	cmttypes "github.com/cometbft/cometbft/types"
	cmtversion "github.com/cometbft/cometbft/version"

	cbsimapp "github.com/cosmos/ibc-go/v11/modules/apps/callbacks/testing/simapp"
	clienttypes "github.com/cosmos/ibc-go/v11/modules/core/02-client/types"
	clientv2types "github.com/cosmos/ibc-go/v11/modules/core/02-client/v2/types"
	connectiontypes "github.com/cosmos/ibc-go/v11/modules/core/03-connection/types"
	channeltypes "github.com/cosmos/ibc-go/v11/modules/core/04-channel/types"
	commitmenttypes "github.com/cosmos/ibc-go/v11/modules/core/23-commitment/types"
	host "github.com/cosmos/ibc-go/v11/modules/core/24-host"
	ibcexported "github.com/cosmos/ibc-go/v11/modules/core/exported"
	ibctm "github.com/cosmos/ibc-go/v11/modules/light-clients/07-tendermint"

	"verif/ibcsim/sim"
)

// cbContractDenom is the denomination the scripted contract moves when it "writes state".
const cbContractDenom = "ucb"

// account roles on a callbacks chain
const (
	cbAccCreator  = 1
	cbAccUserFrom = 2
	cbAccUserTo   = 6 // users are accounts [2,6)
	cbAccVault    = 7 // holds the contract's funds
	cbAccRelayer  = 8
	cbNumAccounts = 12
)

type cbAccount struct {
	Priv cryptotypes.PrivKey
	Addr sdk.AccAddress
	Num  uint64
	Seq  uint64
	Name string
}

func (a *cbAccount) String() string { return a.Addr.String() }

// cbTx is a transaction to be delivered; Gas is its gas limit (0 = generous default).
type cbTx struct {
	Msgs   []sdk.Msg
	Signer *cbAccount
	Gas    uint64
	Bytes  []byte
}

type cbRes struct {
	Tx      *cbTx
	Height  int64
	Code    uint32
	Space   string
	Log     string
	GasUsed int64
	GasWant int64
	Events  []abci.Event
	Data    []byte
}

func (r *cbRes) OK() bool { return r != nil && r.Code == 0 }

type cbChain struct {
	ID       string
	Idx      int
	App      *cbsimapp.SimApp
	DB       *dbm.MemDB
	Vals     *cmttypes.ValidatorSet
	NextVals *cmttypes.ValidatorSet
	Signers  map[string]cmttypes.PrivValidator

	Height   int64
	LastTime time.Time
	Headers  map[int64]*sim.HeaderRec
	Accounts []*cbAccount
	Stats    *sim.Stats
	initHash []byte

	K *cbContract
}

var cbUnusedHash = tmhash.Sum([]byte{0x00})

const cbDefaultGas = 10_000_000

func cbBlockID(hash []byte, total uint32, partHash []byte) cmttypes.BlockID {
	return cmttypes.BlockID{Hash: hash, PartSetHeader: cmttypes.PartSetHeader{Total: total, Hash: partHash}}
}

// newCBChain builds a chain running the callbacks test application: deterministic keys, genesis,
// InitChain and block 1.
func newCBChain(idx int, chainID string, stats *sim.Stats) *cbChain {
	c := &cbChain{ID: chainID, Idx: idx, Headers: map[int64]*sim.HeaderRec{}, Stats: stats}

	var validators []*cmttypes.Validator
	c.Signers = map[string]cmttypes.PrivValidator{}
	for i := 0; i < 4; i++ {
		sk := ed25519.GenPrivKeyFromSecret([]byte(fmt.Sprintf("verif-ibcsim/cb/val/%s/%d", chainID, i)))
		pv := cmttypes.NewMockPVWithParams(sk, false, false)
		pk, err := pv.GetPubKey()
		sim.Must(err, "val pubkey")
		validators = append(validators, cmttypes.NewValidator(pk, 1))
		c.Signers[pk.Address().String()] = pv
	}
	valSet := cmttypes.NewValidatorSet(validators)
	c.Vals, c.NextVals = valSet, valSet

	var genAccs []authtypes.GenesisAccount
	var genBals []banktypes.Balance
	amount, _ := sdkmath.NewIntFromString("1000000000000000")
	for i := 0; i < cbNumAccounts; i++ {
		priv := secp256k1.GenPrivKeyFromSecret([]byte(fmt.Sprintf("verif-ibcsim/cb/acc/%s/%d", chainID, i)))
		acc := authtypes.NewBaseAccount(priv.PubKey().Address().Bytes(), priv.PubKey(), uint64(i), 0)
		coins := sdk.NewCoins(sdk.NewCoin(sdk.DefaultBondDenom, amount), sdk.NewCoin("ufoo", amount), sdk.NewCoin(cbContractDenom, amount))
		genAccs = append(genAccs, acc)
		genBals = append(genBals, banktypes.Balance{Address: acc.GetAddress().String(), Coins: coins})
		c.Accounts = append(c.Accounts, &cbAccount{Priv: priv, Addr: acc.GetAddress(), Num: uint64(i), Name: fmt.Sprintf("%s/acc%d", chainID, i)})
	}

	c.DB = dbm.NewMemDB()
	c.App = cbsimapp.NewSimApp(log.NewNopLogger(), c.DB, nil, true, simtestutil.EmptyAppOptions{})
	baseapp.SetChainID(chainID)(c.App.GetBaseApp())
	gen := c.App.DefaultGenesis()
	cdc := c.App.AppCodec()

	gen[authtypes.ModuleName] = cdc.MustMarshalJSON(authtypes.NewGenesisState(authtypes.DefaultParams(), genAccs))

	bondAmt := sdk.TokensFromConsensusPower(1, sdk.DefaultPowerReduction)
	var svals []stakingtypes.Validator
	var dels []stakingtypes.Delegation
	for _, val := range valSet.Validators {
		pk, err := cryptocodec.FromCmtPubKeyInterface(val.PubKey)
		sim.Must(err, "cmt pubkey")
		pkAny, err := codectypes.NewAnyWithValue(pk)
		sim.Must(err, "any")
		svals = append(svals, stakingtypes.Validator{
			OperatorAddress: sdk.ValAddress(val.Address).String(), ConsensusPubkey: pkAny,
			Status: stakingtypes.Bonded, Tokens: bondAmt, DelegatorShares: sdkmath.LegacyOneDec(),
			UnbondingTime:     time.Unix(0, 0).UTC(),
			Commission:        stakingtypes.NewCommission(sdkmath.LegacyZeroDec(), sdkmath.LegacyZeroDec(), sdkmath.LegacyZeroDec()),
			MinSelfDelegation: sdkmath.ZeroInt(),
		})
		dels = append(dels, stakingtypes.NewDelegation(genAccs[0].GetAddress().String(), sdk.ValAddress(val.Address).String(), sdkmath.LegacyOneDec()))
	}
	var stk stakingtypes.GenesisState
	cdc.MustUnmarshalJSON(gen[stakingtypes.ModuleName], &stk)
	genBals = append(genBals, banktypes.Balance{
		Address: authtypes.NewModuleAddress(stakingtypes.BondedPoolName).String(),
		Coins:   sdk.Coins{sdk.NewCoin(stk.Params.BondDenom, bondAmt.Mul(sdkmath.NewInt(int64(len(valSet.Validators)))))},
	})
	gen[stakingtypes.ModuleName] = cdc.MustMarshalJSON(stakingtypes.NewGenesisState(stk.Params, svals, dels))
	gen[banktypes.ModuleName] = cdc.MustMarshalJSON(banktypes.NewGenesisState(banktypes.DefaultGenesisState().Params, genBals, sdk.NewCoins(), []banktypes.Metadata{}, []banktypes.SendEnabled{}))

	// no inflation: native supplies are constant and empty blocks are silent
	var mint minttypes.GenesisState
	cdc.MustUnmarshalJSON(gen[minttypes.ModuleName], &mint)
	mint.Minter.Inflation = sdkmath.LegacyZeroDec()
	mint.Params.InflationMin = sdkmath.LegacyZeroDec()
	mint.Params.InflationMax = sdkmath.LegacyZeroDec()
	mint.Params.InflationRateChange = sdkmath.LegacyZeroDec()
	gen[minttypes.ModuleName] = cdc.MustMarshalJSON(&mint)

	stateBytes, err := json.Marshal(gen)
	sim.Must(err, "genesis json")
	cp := *simtestutil.DefaultConsensusParams
	res, err := c.App.InitChain(&abci.RequestInitChain{
		ChainId: chainID, Validators: []abci.ValidatorUpdate{}, AppStateBytes: stateBytes,
		ConsensusParams: &cp, Time: sim.GenesisTime, InitialHeight: 1,
	})
	sim.Must(err, "InitChain")
	c.initHash = res.AppHash
	c.LastTime = sim.GenesisTime
	c.K = installCBContract(c)
	c.Block(sim.GenesisTime.Add(5*time.Second), nil)
	return c
}

func (c *cbChain) IBCHeight(h int64) clienttypes.Height {
	return clienttypes.NewHeight(clienttypes.ParseChainID(c.ID), uint64(h))
}

func (c *cbChain) prevAppHash() []byte {
	if h := c.App.LastCommitID().Hash; len(h) > 0 {
		return h
	}
	return c.initHash
}

// Block proposes, executes and commits one block with the given transactions at time t.
func (c *cbChain) Block(t time.Time, txs []*cbTx) []*cbRes {
	if !t.After(c.LastTime) {
		t = c.LastTime.Add(time.Nanosecond)
	}
	h := c.Height + 1
	var raw [][]byte
	for _, tx := range txs {
		if tx.Bytes == nil {
			c.buildTx(tx)
		}
		raw = append(raw, tx.Bytes)
	}
	hdr := cmttypes.Header{
		Version:            cmtprotoversion.Consensus{Block: cmtversion.BlockProtocol, App: 2},
		ChainID:            c.ID,
		Height:             h,
		Time:               t.UTC(),
		LastBlockID:        cbBlockID(make([]byte, tmhash.Size), 10_000, make([]byte, tmhash.Size)),
		LastCommitHash:     c.App.LastCommitID().Hash,
		DataHash:           cbUnusedHash,
		ValidatorsHash:     c.Vals.Hash(),
		NextValidatorsHash: c.NextVals.Hash(),
		ConsensusHash:      cbUnusedHash,
		AppHash:            c.prevAppHash(),
		LastResultsHash:    cbUnusedHash,
		EvidenceHash:       cbUnusedHash,
		ProposerAddress:    c.Vals.Proposer.Address,
	}
	res, err := c.App.FinalizeBlock(&abci.RequestFinalizeBlock{
		Height: h, Time: t.UTC(), Txs: raw, NextValidatorsHash: c.NextVals.Hash(),
		ProposerAddress: c.Vals.Proposer.Address,
	})
	sim.Must(err, "FinalizeBlock "+c.ID)
	_, err = c.App.Commit()
	sim.Must(err, "Commit "+c.ID)
	if len(res.TxResults) != len(txs) {
		sim.Failf("tx result count %d != %d", len(res.TxResults), len(txs))
	}
	c.Headers[h] = &sim.HeaderRec{Header: hdr, Vals: c.Vals, NextVals: c.NextVals, AppHash: append([]byte{}, c.App.LastCommitID().Hash...)}
	c.Height = h
	c.LastTime = t.UTC()
	c.Vals = c.NextVals
	if len(res.ValidatorUpdates) > 0 {
		sim.Failf("callbacks worlds do not change validator sets")
	}
	c.Vals = c.Vals.Copy()
	c.Vals.IncrementProposerPriority(1)

	var out []*cbRes
	for i, r := range res.TxResults {
		out = append(out, &cbRes{Tx: txs[i], Height: h, Code: r.Code, Space: r.Codespace, Log: r.Log, GasUsed: r.GasUsed, GasWant: r.GasWanted, Events: r.Events, Data: r.Data})
	}
	c.resyncAccounts()
	if c.Stats != nil {
		c.Stats.Blocks++
		c.Stats.Txs += len(txs)
		for _, r := range out {
			if r.OK() {
				c.Stats.TxsOK++
			}
		}
	}
	return out
}

func (c *cbChain) resyncAccounts() {
	ctx := c.QueryCtx()
	for _, a := range c.Accounts {
		if acc := c.App.AccountKeeper.GetAccount(ctx, a.Addr); acc != nil {
			a.Seq = acc.GetSequence()
			a.Num = acc.GetAccountNumber()
		}
	}
}

// QueryCtx is a read-only context over the latest committed state (writes go to a throw-away
// cache).
func (c *cbChain) QueryCtx() sdk.Context {
	ms := c.App.CommitMultiStore().CacheMultiStore()
	return sdk.NewContext(ms, cmtHeader(c.ID, c.Height, c.LastTime), false, log.NewNopLogger())
}

func (c *cbChain) buildTx(tx *cbTx) {
	gas := tx.Gas
	if gas == 0 {
		gas = cbDefaultGas
	}
	txCfg := c.App.GetTxConfig()
	stx, err := simtestutil.GenSignedMockTx(rand.New(rand.NewSource(7)), txCfg, tx.Msgs,
		sdk.Coins{sdk.NewInt64Coin(sdk.DefaultBondDenom, 0)}, gas, c.ID,
		[]uint64{tx.Signer.Num}, []uint64{tx.Signer.Seq}, tx.Signer.Priv)
	sim.Must(err, "sign tx")
	bz, err := txCfg.TxEncoder()(stx)
	sim.Must(err, "encode tx")
	tx.Bytes = bz
}

// Deliver commits a block holding exactly this one transaction at time t.
func (c *cbChain) Deliver(t time.Time, signer *cbAccount, gas uint64, msgs ...sdk.Msg) *cbRes {
	return c.Block(t, []*cbTx{{Msgs: msgs, Signer: signer, Gas: gas}})[0]
}

// DryRun executes the transaction in baseapp's simulate mode (infinite gas meter, branch of the
// latest committed state, nothing persists) and returns the gas it used. The scripted contract
// is switched to its neutral mode for the duration.
func (c *cbChain) DryRun(signer *cbAccount, msgs ...sdk.Msg) (uint64, error) {
	tx := &cbTx{Msgs: msgs, Signer: signer}
	c.buildTx(tx)
	c.K.dry = true
	defer func() { c.K.dry = false }()
	gi, _, err := c.App.Simulate(tx.Bytes)
	return gi.GasUsed, err
}

func (c *cbChain) mustOK(t time.Time, what string, signer *cbAccount, msgs ...sdk.Msg) *cbRes {
	r := c.Deliver(t, signer, 0, msgs...)
	if !r.OK() {
		sim.Failf("setup step %q failed on %s: %s/%d %s", what, c.ID, r.Space, r.Code, r.Log)
	}
	return r
}

// ---- ground truth and proofs ---------------------------------------------------------------

func (c *cbChain) State(storeKey string, key []byte) []byte {
	return c.App.CommitMultiStore().GetKVStore(c.App.GetKey(storeKey)).Get(key)
}

func (c *cbChain) StateAt(storeKey string, key []byte, v int64) []byte {
	if v <= 0 {
		return nil
	}
	ms, err := c.App.CommitMultiStore().CacheMultiStoreWithVersion(v)
	sim.Must(err, fmt.Sprintf("state of %s at version %d", c.ID, v))
	return ms.GetKVStore(c.App.GetKey(storeKey)).Get(key)
}

// Dump returns every key/value of a store of the latest committed state.
func (c *cbChain) Dump(storeKey string) map[string]string {
	out := map[string]string{}
	st := c.App.CommitMultiStore().GetKVStore(c.App.GetKey(storeKey))
	it := st.Iterator(nil, nil)
	defer it.Close()
	for ; it.Valid(); it.Next() {
		out[string(it.Key())] = string(it.Value())
	}
	return out
}

// Balances returns every balance of the latest committed state.
func (c *cbChain) Balances() map[string]sdk.Coins {
	out := map[string]sdk.Coins{}
	c.App.BankKeeper.IterateAllBalances(c.QueryCtx(), func(addr sdk.AccAddress, coin sdk.Coin) bool {
		out[addr.String()] = out[addr.String()].Add(coin)
		return false
	})
	return out
}

// IBCProof proves the ibc-store value (or absence) of key in state version h-1 against header h.
func (c *cbChain) IBCProof(key []byte, h int64) ([]byte, clienttypes.Height) {
	res, err := c.App.Query(context.Background(), &abci.RequestQuery{
		Path: fmt.Sprintf("store/%s/key", ibcexported.StoreKey), Height: h - 1, Data: key, Prove: true,
	})
	sim.Must(err, fmt.Sprintf("proof on %s at %d", c.ID, h))
	if res.Code != 0 {
		sim.Failf("proof query on %s at %d: code %d %s", c.ID, h, res.Code, res.Log)
	}
	mp, err := commitmenttypes.ConvertProofs(res.ProofOps)
	sim.Must(err, "convert proofs")
	proof, err := c.App.AppCodec().Marshal(&mp)
	sim.Must(err, "marshal proof")
	return proof, c.IBCHeight(res.Height + 1)
}

func (c *cbChain) Prefix() commitmenttypes.MerklePrefix {
	return commitmenttypes.NewMerklePrefix([]byte("ibc"))
}

func (c *cbChain) consensusStateAt(h int64) *ibctm.ConsensusState {
	rec := c.Headers[h]
	if rec == nil {
		sim.Failf("%s has no header %d", c.ID, h)
	}
	return ibctm.NewConsensusState(rec.Header.Time, commitmenttypes.NewMerkleRoot(rec.Header.AppHash), rec.Header.NextValidatorsHash)
}

func (c *cbChain) clientLatest(clientID string) clienttypes.Height {
	return c.App.IBCKeeper.ClientKeeper.GetClientLatestHeight(c.QueryCtx(), clientID)
}

// cbMsgUpdateTo builds an honest MsgUpdateClient bringing client clientID on `on` (tracking
// `of`) to height h, trusting the client's latest height.
func cbMsgUpdateTo(on *cbChain, clientID string, of *cbChain, h int64, signer string) *clienttypes.MsgUpdateClient {
	trusted := int64(on.clientLatest(clientID).RevisionHeight)
	if trusted >= h {
		sim.Failf("callbacks worlds only update clients forward (%d >= %d)", trusted, h)
	}
	rec, ok := of.Headers[h]
	if !ok {
		sim.Failf("%s has no block %d", of.ID, h)
	}
	sh, err := sim.SignHeader(rec.Header, rec.Vals, of.Signers, nil)
	sim.Must(err, "sign header")
	trec := of.Headers[trusted]
	if trec == nil {
		sim.Failf("%s has no block %d to trust", of.ID, trusted)
	}
	hdr, err := sim.AssembleTMHeader(sh, rec.Vals, of.IBCHeight(trusted), trec.NextVals)
	sim.Must(err, "assemble header")
	msg, err := clienttypes.NewMsgUpdateClient(clientID, hdr, signer)
	sim.Must(err, "MsgUpdateClient")
	return msg
}

// ---- topology ------------------------------------------------------------------------------

type cbConnEnd struct {
	Chain    *cbChain
	ClientID string
	ConnID   string
	Peer     *cbConnEnd
}

// cbClock is the world's virtual clock; every block of every chain takes its time from it.
type cbClock struct{ Now time.Time }

func (k *cbClock) Tick(d time.Duration) time.Time { k.Now = k.Now.Add(d); return k.Now }

func cbEvent(r *cbRes, typ, key string) string {
	v, ok := sim.EventAttr(r.Events, typ, key)
	if !ok {
		sim.Failf("no %s.%s in events", typ, key)
	}
	return v
}

func cbNewClientPair(clk *cbClock, a, b *cbChain) (*cbConnEnd, *cbConnEnd) {
	ea, eb := &cbConnEnd{Chain: a}, &cbConnEnd{Chain: b}
	ea.Peer, eb.Peer = eb, ea
	tm := sim.DefaultTMConfig()
	for _, e := range []*cbConnEnd{ea, eb} {
		of := e.Peer.Chain
		signer := e.Chain.Accounts[cbAccCreator]
		cs := ibctm.NewClientState(of.ID, tm.TrustLevel, tm.TrustingPeriod, tm.UnbondingPeriod, tm.MaxClockDrift,
			of.IBCHeight(of.Height), commitmenttypes.GetSDKSpecs(), sim.UpgradePath)
		msg, err := clienttypes.NewMsgCreateClient(cs, of.consensusStateAt(of.Height), signer.String())
		sim.Must(err, "MsgCreateClient")
		r := e.Chain.mustOK(clk.Tick(sim.DefaultBlockInterval), "create client", signer, msg)
		e.ClientID = cbEvent(r, clienttypes.EventTypeCreateClient, clienttypes.AttributeKeyClientID)
	}
	return ea, eb
}

// cbSetupUpdate brings the client at e to a fresh provable height of the peer and returns it.
func cbSetupUpdate(clk *cbClock, e *cbConnEnd) int64 {
	peer := e.Peer.Chain
	peer.Block(clk.Tick(sim.DefaultBlockInterval), nil)
	h := peer.Height
	signer := e.Chain.Accounts[cbAccRelayer]
	e.Chain.mustOK(clk.Tick(sim.DefaultBlockInterval), "update client", signer, cbMsgUpdateTo(e.Chain, e.ClientID, peer, h, signer.String()))
	return h
}

func cbOpenConnection(clk *cbClock, ea, eb *cbConnEnd) {
	a, b := ea.Chain, eb.Chain
	sa, sb := a.Accounts[cbAccCreator], b.Accounts[cbAccCreator]
	r := a.mustOK(clk.Tick(sim.DefaultBlockInterval), "conn init", sa, connectiontypes.NewMsgConnectionOpenInit(ea.ClientID, eb.ClientID, b.Prefix(), nil, 0, sa.String()))
	ea.ConnID = cbEvent(r, connectiontypes.EventTypeConnectionOpenInit, connectiontypes.AttributeKeyConnectionID)

	h := cbSetupUpdate(clk, eb)
	proof, ph := a.IBCProof(host.ConnectionKey(ea.ConnID), h)
	r = b.mustOK(clk.Tick(sim.DefaultBlockInterval), "conn try", sb, connectiontypes.NewMsgConnectionOpenTry(eb.ClientID, ea.ConnID, ea.ClientID, a.Prefix(),
		connectiontypes.GetCompatibleVersions(), 0, proof, ph, sb.String()))
	eb.ConnID = cbEvent(r, connectiontypes.EventTypeConnectionOpenTry, connectiontypes.AttributeKeyConnectionID)

	h = cbSetupUpdate(clk, ea)
	proof, ph = b.IBCProof(host.ConnectionKey(eb.ConnID), h)
	a.mustOK(clk.Tick(sim.DefaultBlockInterval), "conn ack", sa, connectiontypes.NewMsgConnectionOpenAck(ea.ConnID, eb.ConnID, proof, ph, connectiontypes.GetCompatibleVersions()[0], sa.String()))

	h = cbSetupUpdate(clk, eb)
	proof, ph = a.IBCProof(host.ConnectionKey(ea.ConnID), h)
	b.mustOK(clk.Tick(sim.DefaultBlockInterval), "conn confirm", sb, connectiontypes.NewMsgConnectionOpenConfirm(eb.ConnID, proof, ph, sb.String()))
}

// cbOpenChannel opens an UNORDERED channel port<->port and returns the two channel ids.
func cbOpenChannel(clk *cbClock, ea, eb *cbConnEnd, port, version string) (string, string) {
	a, b := ea.Chain, eb.Chain
	sa, sb := a.Accounts[cbAccCreator], b.Accounts[cbAccCreator]
	order := channeltypes.UNORDERED
	r := a.mustOK(clk.Tick(sim.DefaultBlockInterval), "chan init", sa, channeltypes.NewMsgChannelOpenInit(port, version, order, []string{ea.ConnID}, port, sa.String()))
	chA := cbEvent(r, channeltypes.EventTypeChannelOpenInit, channeltypes.AttributeKeyChannelID)

	h := cbSetupUpdate(clk, eb)
	proof, ph := a.IBCProof(host.ChannelKey(port, chA), h)
	r = b.mustOK(clk.Tick(sim.DefaultBlockInterval), "chan try", sb, channeltypes.NewMsgChannelOpenTry(port, version, order, []string{eb.ConnID}, port, chA, version, proof, ph, sb.String()))
	chB := cbEvent(r, channeltypes.EventTypeChannelOpenTry, channeltypes.AttributeKeyChannelID)

	h = cbSetupUpdate(clk, ea)
	proof, ph = b.IBCProof(host.ChannelKey(port, chB), h)
	a.mustOK(clk.Tick(sim.DefaultBlockInterval), "chan ack", sa, channeltypes.NewMsgChannelOpenAck(port, chA, chB, version, proof, ph, sa.String()))

	h = cbSetupUpdate(clk, eb)
	proof, ph = a.IBCProof(host.ChannelKey(port, chA), h)
	b.mustOK(clk.Tick(sim.DefaultBlockInterval), "chan confirm", sb, channeltypes.NewMsgChannelOpenConfirm(port, chB, proof, ph, sb.String()))
	return chA, chB
}

// cbRegisterV2 registers each client as the other's IBC v2 counterparty (signed by the creator).
func cbRegisterV2(clk *cbClock, ea, eb *cbConnEnd) {
	pfx := [][]byte{[]byte("ibc"), []byte("")}
	for _, e := range []*cbConnEnd{ea, eb} {
		s := e.Chain.Accounts[cbAccCreator]
		e.Chain.mustOK(clk.Tick(sim.DefaultBlockInterval), "register counterparty", s, clientv2types.NewMsgRegisterCounterparty(e.ClientID, pfx, e.Peer.ClientID, s.String()))
	}
}

func cbSortedKeys[V any](m map[string]V) []string {
	ks := make([]string, 0, len(m))
	for k := range m {
		ks = append(ks, k)
	}
	sort.Strings(ks)
	return ks
}
