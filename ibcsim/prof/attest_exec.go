package prof

import (
	"crypto/sha256"
	"encoding/json"
	"fmt"
	"math/big"
	"sort"
	"strings"
	"time"

	"github.com/ethereum/go-ethereum/crypto"

	sdk "github.com/cosmos/cosmos-sdk/types"

	clienttypes "github.com/cosmos/ibc-go/v11/modules/core/02-client/types"
	channeltypesv2 "github.com/cosmos/ibc-go/v11/modules/core/04-channel/v2/types"
	commitmenttypesv2 "github.com/cosmos/ibc-go/v11/modules/core/23-commitment/types/v2"
	hostv2 "github.com/cosmos/ibc-go/v11/modules/core/24-host/v2"
	"github.com/cosmos/ibc-go/v11/modules/light-clients/attestations"
	mockv2 "github.com/cosmos/ibc-go/v11/testing/mock/v2"

	"verif/ibcsim/sim"
)

// ---- building the bytes a relayer submits ---------------------------------------------------------

// attMutateSig damages (or harmlessly re-encodes) a finished 65-byte signature.
func attMutateSig(sig []byte, m int) []byte {
	out := append([]byte{}, sig...)
	flipS := func() {
		s := new(big.Int).SetBytes(out[32:64])
		s.Sub(attCurveN, s)
		s.FillBytes(out[32:64])
		out[64] ^= 1
	}
	switch m {
	case 1: // the high-s twin: another encoding of a signature of the same signer
		flipS()
	case 2: // ethereum style recovery id
		out[64] += 27
	case 10:
		flipS()
		out[64] += 27
	case 3: // wrong recovery id: (r,s) intact, recovery yields somebody else
		out[64] ^= 1
	case 4:
		out[64] = 4
	case 5:
		out = out[:64]
	case 6:
		out = append(out, 0)
	case 7:
		out = []byte{}
	case 8:
		out[31] ^= 1
	case 9:
		out = make([]byte, 65)
	}
	return out
}

// attSigIntact: does mutation m leave (r,s) a signature of the same message by the same key, in
// a 65-byte envelope?
func attSigIntact(m int) bool {
	switch m {
	case 0, 1, 2, 3, 4, 10:
		return true
	}
	return false
}

func attVariantData(payload []byte, d int) []byte {
	switch d {
	case 1:
		if len(payload) == 0 {
			return []byte{1}
		}
		out := append([]byte{}, payload...)
		out[len(out)-1] ^= 1
		return out
	case 2:
		return append(append([]byte{}, payload...), 0)
	}
	return payload
}

func (p *Attest) buildSigs(specs []attSig, payload []byte, useTag byte) [][]byte {
	out := make([][]byte, 0, len(specs))
	for _, s := range specs {
		if s.K < 0 || s.K >= len(p.Keys) {
			continue
		}
		h := attHashScheme(attVariantData(payload, s.D), useTag, s.T)
		sig, err := crypto.Sign(h[:], p.Keys[s.K].Priv)
		sim.Must(err, "attestor signature")
		out = append(out, attMutateSig(sig, s.M))
	}
	return out
}

func attStatePayload(st attState) []byte {
	canon := attEncodeState(st.H, st.TS)
	switch st.Mut {
	case 1:
		return append(canon, make([]byte, 32)...)
	case 2:
		return canon[:63]
	case 3:
		return canon[:32]
	case 4:
		canon[20] = 1 // the height does not fit 64 bits
		return canon
	case 5:
		return []byte{}
	case 6: // the other attestation type: a packet attestation of height H
		return attEncodePacket(st.H, []attEntry{{Path: sha256.Sum256([]byte("p")), Commitment: sha256.Sum256([]byte("c"))}})
	}
	return canon
}

func attEntPath(ref int, keyPath [][]byte) [32]byte {
	raw := []byte{}
	for _, e := range keyPath {
		raw = append(raw, e...)
	}
	hp := attHashedPath(keyPath)
	switch ref {
	case 1:
		return attHashedPath(append(append([][]byte{}, keyPath...), []byte("/other")))
	case 2:
		return attBytes32(raw)
	case 3:
		return sha256.Sum256(raw)
	case 4:
		hp[31] ^= 1
		return hp
	case 5:
		return attBytes32(crypto.Keccak256(hp[:]))
	}
	return hp
}

func attEntCommitment(ref int, value []byte) [32]byte {
	v := attBytes32(value)
	switch ref {
	case 1:
		return [32]byte{}
	case 2:
		v[31] ^= 1
		return v
	case 3:
		return [32]byte{31: 1}
	case 4:
		return sha256.Sum256(value)
	}
	return v
}

func attPacketPayload(pk attPkt, keyPath [][]byte, value []byte) []byte {
	var ents []attEntry
	for _, e := range pk.Ents {
		ents = append(ents, attEntry{Path: attEntPath(e.P, keyPath), Commitment: attEntCommitment(e.C, value)})
	}
	canon := attEncodePacket(pk.H, ents)
	switch pk.Mut {
	case 1:
		return append(canon, make([]byte, 32)...)
	case 2:
		return canon[:len(canon)-1]
	case 3:
		return canon[:len(canon)-32]
	case 4:
		canon[32+20] = 1
		return canon
	case 5:
		return []byte{}
	case 6: // the other attestation type
		return attEncodeState(pk.H, 1_900_000_000)
	}
	return canon
}

func (p *Attest) proofBytes(payload []byte, sigs [][]byte, pm int) []byte {
	bz, err := p.A.App.AppCodec().Marshal(&attestations.AttestationProof{AttestationData: payload, Signatures: sigs})
	sim.Must(err, "marshal attestation proof")
	switch pm {
	case 1:
		return append([]byte{0xff, 0xff, 0xff}, bz...)
	case 2:
		return []byte{}
	}
	return bz
}

func (p *Attest) queryPath(cl *attClient, qk int, qn uint64) [][]byte {
	pfx := []byte(p.Opt.Prefix)
	cat := func(k []byte) []byte { return append(append([]byte{}, pfx...), k...) }
	switch qk {
	case 1:
		return [][]byte{cat(hostv2.PacketReceiptKey(cl.CP, qn))}
	case 2:
		return [][]byte{cat(hostv2.PacketAcknowledgementKey(cl.CP, qn))}
	case 3:
		return [][]byte{[]byte(fmt.Sprintf("k%d", qn))}
	case 4:
		return [][]byte{[]byte("ibc"), hostv2.PacketCommitmentKey(cl.CP, qn)}
	case 5:
		return [][]byte{{}}
	case 6:
		return nil
	case 7:
		h := sha256.Sum256([]byte(fmt.Sprintf("binary-path/%d", qn)))
		return [][]byte{h[:]}
	}
	return [][]byte{cat(hostv2.PacketCommitmentKey(cl.CP, qn))}
}

func attQueryValue(vk int, qn uint64) []byte {
	h := sha256.Sum256([]byte(fmt.Sprintf("value/%d", qn)))
	switch vk {
	case 1:
		return h[:31]
	case 2:
		return append(h[:], 0)
	case 3:
		return make([]byte, 32)
	case 4:
		return []byte{}
	case 5:
		v := make([]byte, 32)
		v[31] = 1
		return v
	}
	return h[:]
}

// ---- judging a signature list -------------------------------------------------------------------

type attSigVerdict struct {
	distinct int      // configured attestors with a valid 65-byte signature over the right hash
	q        int      // quorum of the client
	n        int      // entries in the list
	flags    []string // shape of the list
}

func (v attSigVerdict) ok() bool { return v.distinct >= v.q }

func (v attSigVerdict) rel() string {
	switch {
	case v.distinct < v.q:
		return "lt"
	case v.distinct == v.q:
		return "eq"
	}
	return "gt"
}

func (v attSigVerdict) has(f string) bool {
	for _, x := range v.flags {
		if x == f {
			return true
		}
	}
	return false
}

func (v attSigVerdict) shape() string {
	if len(v.flags) == 0 {
		return "plain"
	}
	return strings.Join(v.flags, "+")
}

// judgeSigs counts, over the bytes actually submitted, the distinct configured attestors with a
// valid signature over the domain-separated hash of payload, and cross-checks the count with
// who the simulator made sign what.
func (p *Attest) judgeSigs(cl *attClient, specs []attSig, payload []byte, useTag byte, sigs [][]byte) attSigVerdict {
	v := attSigVerdict{q: cl.Opt.Q, n: len(sigs)}
	v.distinct = len(attDistinctValid(cl.Pubs, attTagged(payload, useTag), sigs))
	signed := map[int]int{}
	flags := map[string]bool{}
	mall := map[int]bool{}
	for _, s := range specs {
		if s.K < 0 || s.K >= len(p.Keys) {
			continue
		}
		right := s.D == 0 && s.T == 0
		switch {
		case s.D != 0:
			flags["odata"] = true
		case s.T == 1:
			flags["xtag"] = true
		case s.T == 2:
			flags["notag"] = true
		case s.T != 0:
			flags["tagx"] = true
		}
		switch s.M {
		case 1, 10:
			flags["his"] = true
		case 2:
			flags["v27"] = true
		case 3, 4:
			flags["badv"] = true
		case 5, 6, 7:
			flags["len"] = true
		case 8, 9:
			flags["junk"] = true
		}
		if right && attSigIntact(s.M) {
			if !cl.inSet[s.K] {
				flags["foreign"] = true
				continue
			}
			signed[s.K]++
			if s.M != 0 {
				mall[s.K] = true
			}
		}
	}
	for k, c := range signed {
		if c > 1 {
			if mall[k] {
				flags["dupmall"] = true
			} else {
				flags["dup"] = true
			}
		}
	}
	if len(signed) != v.distinct {
		sim.Failf("attest: the byte-level reference counts %d distinct valid attestor signatures, the signing record says %d (specs %+v)", v.distinct, len(signed), specs)
	}
	if v.n >= v.q && v.distinct < v.q {
		flags["fill"] = true
	}
	if v.n == 0 {
		flags["empty"] = true
	}
	for f := range flags {
		v.flags = append(v.flags, f)
	}
	sort.Strings(v.flags)
	return v
}

// sigProbes records which rejection / acceptance situations were reached. clean means that
// nothing but the signature list could be the reason of a refusal.
func (p *Attest) sigProbes(w *sim.World, use string, v attSigVerdict, clean, accepted bool) {
	st := w.Stats
	if accepted {
		st.Probe(use + "_accepted")
		if v.distinct == v.q {
			st.Probe("accepted_with_exactly_the_quorum")
		}
		if v.has("his") || v.has("v27") {
			st.Probe("accepted_reencoded_signatures_of_distinct_attestors")
		}
		return
	}
	if !clean || v.ok() {
		if clean && v.ok() {
			st.Probe("rejected_although_quorum_present_(stricter_than_the_property)")
		}
		return
	}
	st.Probe(use + "_rejected_for_signatures")
	if v.n == v.q-1 && v.distinct == v.q-1 {
		st.Probe("rejected_one_short_of_quorum")
	}
	if v.has("fill") {
		for _, f := range []string{"dup", "dupmall", "foreign", "xtag", "notag", "tagx", "odata", "len", "junk", "badv"} {
			if v.has(f) {
				st.Probe("rejected_list_reaching_quorum_length_only_by_" + f)
			}
		}
	}
	if v.has("empty") {
		st.Probe("rejected_empty_list")
	}
}

var attRequiredProbes = []string{
	"upd_accepted", "vcm_accepted", "mem_accepted", "non_accepted", "ack_accepted", "tmo_accepted", "rcv_accepted",
	"accepted_with_exactly_the_quorum", "accepted_reencoded_signatures_of_distinct_attestors",
	"upd_rejected_for_signatures", "vcm_rejected_for_signatures", "mem_rejected_for_signatures", "non_rejected_for_signatures",
	"ack_rejected_for_signatures", "tmo_rejected_for_signatures", "rcv_rejected_for_signatures",
	"rejected_one_short_of_quorum",
	"rejected_list_reaching_quorum_length_only_by_dup", "rejected_list_reaching_quorum_length_only_by_dupmall",
	"rejected_list_reaching_quorum_length_only_by_foreign", "rejected_list_reaching_quorum_length_only_by_xtag",
	"rejected_list_reaching_quorum_length_only_by_notag", "rejected_list_reaching_quorum_length_only_by_odata",
	"rejected_list_reaching_quorum_length_only_by_len", "rejected_list_reaching_quorum_length_only_by_junk",
	"mem_rejected_other_commitment", "mem_rejected_unhashed_path", "mem_rejected_height_mismatch", "mem_rejected_value_not_32_bytes",
	"non_rejected_nonzero_commitment", "non_rejected_zero_and_nonzero_commitments", "non_rejected_path_not_attested",
	"conflicting_update_froze_client", "equivocation_in_one_tx_froze_client", "same_timestamp_again_did_not_freeze",
	"frozen_client_refused_valid_update", "frozen_module_refused_valid_client_message", "frozen_module_refused_valid_membership", "frozen_module_refused_valid_non_membership",
}

// ---- executor -------------------------------------------------------------------------------------

func (p *Attest) Exec(w *sim.World, op sim.Op) {
	dead := true
	for _, c := range p.Cl {
		dead = dead && c.frozen
	}
	if dead {
		p.deadOps++
	}
	switch op.K {
	case "ablk":
		dt := op.N
		if dt <= 0 {
			dt = 1
		}
		p.A.ProduceBlock(time.Duration(dt) * time.Second)
		p.eH++
		w.MixSig("blk")
	case "aupd":
		p.execUpdate(w, op)
	case "avcm":
		p.execVerifyClientMessage(w, op)
	case "amem", "anon":
		p.execQuery(w, op)
	case "asnd":
		p.execSend(w, op)
	case "aack", "atmo", "arcv":
		p.execPacket(w, op)
	default:
		w.Noop()
	}
}

func attGuard(f func() error) (err error, panicked bool) {
	defer func() {
		if r := recover(); r != nil {
			if he, ok := r.(sim.HarnessError); ok {
				panic(he)
			}
			err, panicked = fmt.Errorf("panic: %v", r), true
		}
	}()
	return f(), false
}

func (p *Attest) violate(w *sim.World, class, sig, format string, a ...any) {
	w.Violate("C28", class, sig, fmt.Sprintf(format, a...))
}

// execUpdate delivers one transaction with one or two MsgUpdateClient.
func (p *Attest) execUpdate(w *sim.World, op sim.Op) {
	cl := p.client(op.P)
	var ups []attState
	if cl == nil || json.Unmarshal([]byte(op.S), &ups) != nil || len(ups) == 0 {
		w.Noop()
		return
	}
	signer := p.A.Relayer()
	var msgs []sdk.Msg
	var payloads [][]byte
	var verdicts []attSigVerdict
	var hs []uint64
	for _, st := range ups {
		payload := attStatePayload(st)
		sigs := p.buildSigs(st.Sigs, payload, attTagState)
		msg, err := clienttypes.NewMsgUpdateClient(cl.ID, &attestations.AttestationProof{AttestationData: payload, Signatures: sigs}, signer.String())
		sim.Must(err, "MsgUpdateClient")
		msgs = append(msgs, msg)
		payloads = append(payloads, payload)
		verdicts = append(verdicts, p.judgeSigs(cl, st.Sigs, payload, attTagState, sigs))
		if h, _, ok := attDecodeState(payload); ok {
			hs = append(hs, h)
		}
	}
	wasFrozen := cl.frozen
	before := map[uint64]uint64{}
	for _, h := range hs {
		if ts, has := cl.cons[h]; has {
			before[h] = ts
		}
	}
	r := p.A.Deliver(time.Second, signer, 0, msgs...)
	accepted := r.OK()
	p.refresh(cl, hs...)

	// walk through the messages as the property sees them
	frozen := wasFrozen
	addedSec := map[uint64]uint64{} // heights first stored by an earlier message of this tx
	conflict, overflow, equiv, sameAgain, alias := false, false, false, false, false
	allQuorum, wellFormed := true, true
	for i, st := range ups {
		v := verdicts[i]
		allQuorum = allQuorum && v.ok()
		h, ts, ok := attDecodeState(payloads[i])
		if !ok || st.Mut != 0 {
			wellFormed = false
		}
		if accepted {
			if frozen {
				p.violate(w, "frozen_accepts", "", "client %s was frozen when update %d of the tx (height %d) was accepted", cl.ID, i, st.H)
			}
			if !v.ok() {
				p.violate(w, "accept_without_quorum", "", "MsgUpdateClient on %s accepted: payload %x carries valid state-tagged signatures of %d distinct configured attestors, quorum is %d (list of %d: %s)", cl.ID, payloads[i], v.distinct, v.q, v.n, v.shape())
			}
		}
		if !ok {
			continue
		}
		if sec, has := addedSec[h]; has {
			if sec != ts && (attSecondsOverflow(ts) || attSecondsOverflow(sec)) && sec*1_000_000_000 == ts*1_000_000_000 {
				alias = true // known finding, see below
			} else if sec != ts {
				frozen, conflict, equiv = true, true, true
			}
		} else if stored, has := before[h]; has {
			if attConflicts(ts, stored) && attSecondsOverflow(ts) && ts*1_000_000_000 == stored {
				// the situation of the known finding (seconds*1e9 wraps to the stored value): it is
				// reported under its own signature below; the walk follows what the chain did so that
				// the consequences are not reported again and again
				alias = true
			} else if attConflicts(ts, stored) {
				frozen, conflict = true, true
				overflow = overflow || attSecondsOverflow(ts)
			} else {
				sameAgain = true
			}
		} else {
			addedSec[h] = ts
		}
	}
	verd := "rej"
	if accepted {
		verd = "acc"
		if conflict && !cl.frozen {
			p.violate(w, "conflict_no_freeze", "", "client %s accepted an update attesting another timestamp for an already stored height and is not frozen (updates %s; stored before: %v)", cl.ID, op.S, before)
		}
		if alias && !cl.frozen {
			p.violate(w, "conflict_no_freeze", "no-freeze:timestamp-seconds-times-1e9-wraps-to-the-stored-value", "client %s accepted an update attesting another timestamp (seconds*1e9 wraps to the stored nanoseconds) for an already stored height and is not frozen (updates %s; stored before: %v)", cl.ID, op.S, before)
		}
		if conflict && cl.frozen {
			w.Stats.Probe("conflicting_update_froze_client")
			if equiv {
				w.Stats.Probe("equivocation_in_one_tx_froze_client")
			}
			if overflow {
				w.Stats.Probe("conflicting_update_with_overflowing_seconds_froze_client")
			}
			verd = "frz"
		}
		if !conflict && cl.frozen && !wasFrozen {
			w.Stats.Probe("froze_without_conflict_(not_claimed_by_the_property)")
		}
		if !conflict && sameAgain && !cl.frozen {
			w.Stats.Probe("same_timestamp_again_did_not_freeze")
		}
	} else if wasFrozen && allQuorum && wellFormed {
		w.Stats.Probe("frozen_client_refused_valid_update")
	}
	for _, v := range verdicts {
		if len(ups) == 1 {
			p.sigProbes(w, "upd", v, wellFormed && !wasFrozen, accepted)
		}
		w.Stats.NonTrivial(fmt.Sprintf("att:upd%d:%s:%s:%s", len(ups), v.shape(), v.rel(), verd))
	}
	w.MixSig("upd/" + verd)
	if accepted {
		w.Stats.Sample(fmt.Sprintf("update of %s accepted (%s): %s", cl.ID, verd, op.S))
	}
}

// execVerifyClientMessage calls VerifyClientMessage of the light client module directly (no
// ValidateBasic in front of it, no state change).
func (p *Attest) execVerifyClientMessage(w *sim.World, op sim.Op) {
	cl := p.client(op.P)
	var st attState
	if cl == nil || json.Unmarshal([]byte(op.S), &st) != nil {
		w.Noop()
		return
	}
	payload := attStatePayload(st)
	sigs := p.buildSigs(st.Sigs, payload, attTagState)
	v := p.judgeSigs(cl, st.Sigs, payload, attTagState, sigs)
	ctx := p.A.QueryCtx()
	lcm, err := p.A.App.IBCKeeper.ClientKeeper.Route(ctx, cl.ID)
	sim.Must(err, "route to the attestations module")
	err, panicked := attGuard(func() error {
		return lcm.VerifyClientMessage(ctx, cl.ID, &attestations.AttestationProof{AttestationData: payload, Signatures: sigs})
	})
	if panicked {
		w.Stats.Probe("panic_in_verify_client_message")
	}
	accepted := err == nil
	if accepted {
		if cl.frozen {
			p.violate(w, "frozen_accepts", "", "VerifyClientMessage of the frozen client %s accepted %s", cl.ID, op.S)
		}
		if !v.ok() {
			p.violate(w, "accept_without_quorum", "", "VerifyClientMessage on %s accepted: payload %x carries valid state-tagged signatures of %d distinct configured attestors, quorum is %d (list of %d: %s)", cl.ID, payload, v.distinct, v.q, v.n, v.shape())
		}
	} else if cl.frozen && v.ok() {
		w.Stats.Probe("frozen_module_refused_valid_client_message")
	}
	p.sigProbes(w, "vcm", v, !cl.frozen, accepted)
	verd := map[bool]string{true: "acc", false: "rej"}[accepted]
	w.Stats.NonTrivial(fmt.Sprintf("att:vcm:%s:%s:%s", v.shape(), v.rel(), verd))
	w.MixSig("vcm/" + verd)
}

// judgeProof applies the membership / non-membership clauses to one accepted or refused proof.
// kind is "mem" or "non"; use names the route for probes.
func (p *Attest) judgeProof(w *sim.World, cl *attClient, use, kind string, pk attPkt, payload []byte, v attSigVerdict, keyPath [][]byte, value []byte, accepted bool, desc string) {
	var attested bool
	var why string
	if kind == "mem" {
		attested, why = attMemberAttested(payload, pk.PH, keyPath, value)
	} else {
		attested, why = attAbsenceAttested(payload, pk.PH, keyPath)
	}
	_, stored := cl.cons[pk.PH]
	wellFormed := pk.PM == 0 && pk.Rev == 0 && stored && len(keyPath) == 1 && len(keyPath[0]) > 0
	if accepted {
		if cl.frozen {
			p.violate(w, "frozen_accepts", "", "%s on the frozen client %s was accepted (%s)", use, cl.ID, desc)
		}
		if pk.PM != 0 {
			p.violate(w, "accept_without_quorum", "", "%s on %s accepted proof bytes that are not an attestation proof (%s)", use, cl.ID, desc)
		} else if !v.ok() {
			p.violate(w, "accept_without_quorum", "", "%s on %s accepted: payload %x carries valid packet-tagged signatures of %d distinct configured attestors, quorum is %d (list of %d: %s) (%s)", use, cl.ID, payload, v.distinct, v.q, v.n, v.shape(), desc)
		}
		if !attested && pk.PM == 0 {
			class := "membership_not_attested"
			if kind == "non" {
				class = "absence_not_attested"
			}
			p.violate(w, class, "", "%s on %s accepted at height %d although %s (payload %x, path %x, value %x) (%s)", use, cl.ID, pk.PH, why, payload, keyPath, value, desc)
		}
	} else {
		if cl.frozen && v.ok() && attested && wellFormed {
			w.Stats.Probe("frozen_" + map[bool]string{true: "module", false: "keeper"}[strings.HasSuffix(use, "module")] + "_refused_valid_" + map[string]string{"mem": "membership", "non": "non_membership"}[kind])
		}
		if !cl.frozen && v.ok() && wellFormed && !attested {
			// the content of the attestation is the only possible reason
			_, ents, ok := attDecodePacket(payload)
			hp := attHashedPath(keyPath)
			switch {
			case !ok:
				w.Stats.Probe(kind + "_rejected_undecodable_payload")
			case pk.H != pk.PH:
				w.Stats.Probe(kind + "_rejected_height_mismatch")
			case kind == "mem" && len(value) != 32:
				w.Stats.Probe("mem_rejected_value_not_32_bytes")
			default:
				onPath, zero, nonzero, rawPath := 0, 0, 0, false
				raw := attBytes32(keyPath[0])
				for _, e := range ents {
					if e.Path == hp {
						onPath++
						if e.Commitment == ([32]byte{}) {
							zero++
						} else {
							nonzero++
						}
					}
					if e.Path == raw {
						rawPath = true
					}
				}
				switch {
				case kind == "mem" && onPath > 0:
					w.Stats.Probe("mem_rejected_other_commitment")
				case kind == "mem" && rawPath:
					w.Stats.Probe("mem_rejected_unhashed_path")
				case kind == "mem":
					w.Stats.Probe("mem_rejected_path_not_attested")
				case nonzero > 0 && zero > 0:
					w.Stats.Probe("non_rejected_zero_and_nonzero_commitments")
				case nonzero > 0:
					w.Stats.Probe("non_rejected_nonzero_commitment")
				default:
					w.Stats.Probe("non_rejected_path_not_attested")
				}
			}
		}
		if !cl.frozen && v.ok() && attested && wellFormed {
			w.Stats.Probe(kind + "_rejected_although_attested_with_quorum_(stricter_than_the_property)")
		}
	}
	name := use
	if strings.Contains(use, "_via_") {
		name = kind
	}
	p.sigProbes(w, name, v, !cl.frozen && attested && wellFormed, accepted)
	content := "att"
	if !attested {
		content = "natt"
	}
	if !wellFormed {
		content += "-odd"
	}
	verd := map[bool]string{true: "acc", false: "rej"}[accepted]
	if cl.frozen {
		verd += "-frozen"
	}
	w.Stats.NonTrivial(fmt.Sprintf("att:%s:%s:%s:%s:%s", kind, v.shape(), v.rel(), content, verd))
	w.MixSig(use + "/" + content + "/" + verd)
}

// execQuery calls VerifyMembership / VerifyNonMembership with an arbitrary path and value.
func (p *Attest) execQuery(w *sim.World, op sim.Op) {
	cl := p.client(op.P)
	var q attQuery
	if cl == nil || json.Unmarshal([]byte(op.S), &q) != nil {
		w.Noop()
		return
	}
	kind := "mem"
	if op.K == "anon" {
		kind = "non"
	}
	keyPath := p.queryPath(cl, q.QK, q.QN)
	value := attQueryValue(q.VK, q.QN)
	payload := attPacketPayload(q.attPkt, keyPath, value)
	sigs := p.buildSigs(q.Sigs, payload, attTagPacket)
	v := p.judgeSigs(cl, q.Sigs, payload, attTagPacket, sigs)
	proof := p.proofBytes(payload, sigs, q.PM)
	path := commitmenttypesv2.NewMerklePath(keyPath...)
	height := clienttypes.NewHeight(q.Rev, q.PH)
	ctx := p.A.QueryCtx()
	ck := p.A.App.IBCKeeper.ClientKeeper
	use := "module"
	var call func() error
	if op.X == 1 {
		use = "keeper"
		if kind == "mem" {
			call = func() error { return ck.VerifyMembership(ctx, cl.ID, height, 0, 0, proof, path, value) }
		} else {
			call = func() error { return ck.VerifyNonMembership(ctx, cl.ID, height, 0, 0, proof, path) }
		}
	} else {
		lcm, err := ck.Route(ctx, cl.ID)
		sim.Must(err, "route to the attestations module")
		if kind == "mem" {
			call = func() error { return lcm.VerifyMembership(ctx, cl.ID, height, 0, 0, proof, path, value) }
		} else {
			call = func() error { return lcm.VerifyNonMembership(ctx, cl.ID, height, 0, 0, proof, path) }
		}
	}
	err, panicked := attGuard(call)
	if panicked {
		w.Stats.Probe("panic_in_verify_" + kind)
	}
	p.judgeProof(w, cl, kind+"_via_"+use, kind, q.attPkt, payload, v, keyPath, value, err == nil, op.S)
}

func (p *Attest) execSend(w *sim.World, op sim.Op) {
	cl := p.client(op.P)
	if cl == nil || op.T == 0 || p.Pkts[op.T] != nil {
		w.Noop()
		return
	}
	user := p.A.FreeAccount(2, 8)
	if user == nil {
		w.Noop()
		return
	}
	timeout := p.now() + 1 + uint64(op.N)
	payload := mockv2.NewMockPayload(mockv2.PortIDA, mockv2.PortIDB)
	r := p.A.Deliver(time.Second, user, 0, channeltypesv2.NewMsgSendPacket(cl.ID, timeout, user.String(), payload))
	if !r.OK() {
		w.Stats.Probe("send_refused")
		w.MixSig("snd/rej")
		return
	}
	var resp channeltypesv2.MsgSendPacketResponse
	sim.Must(sim.UnpackResponse(r, 0, &resp), "MsgSendPacketResponse")
	p.Pkts[op.T] = &attPktState{Tag: op.T, Cl: cl.Idx, Pkt: channeltypesv2.NewPacket(resp.Sequence, cl.ID, cl.CP, timeout, payload)}
	p.ord = append(p.ord, op.T)
	w.Stats.Probe("packet_sent")
	w.MixSig("snd/ok")
}

// execPacket delivers a v2 packet message whose proof is an attestation.
func (p *Attest) execPacket(w *sim.World, op sim.Op) {
	var pk attPkt
	if json.Unmarshal([]byte(op.S), &pk) != nil {
		w.Noop()
		return
	}
	ps := p.Pkts[op.T]
	if op.K == "arcv" && ps == nil {
		cl := p.client(op.P)
		if cl == nil || op.T == 0 || op.N <= 0 {
			w.Noop()
			return
		}
		ps = &attPktState{Tag: op.T, Cl: cl.Idx, Inbound: true,
			Pkt: channeltypesv2.NewPacket(uint64(op.N), cl.CP, cl.ID, p.now()+uint64(op.M)+1, mockv2.NewMockPayload(mockv2.PortIDA, mockv2.PortIDB))}
		p.Pkts[op.T] = ps
		p.ord = append(p.ord, op.T)
		if uint64(op.N) >= cl.eSeq {
			cl.eSeq = uint64(op.N) + 1
		}
	}
	if ps == nil || ps.Done || ps.Inbound != (op.K == "arcv") {
		w.Noop()
		return
	}
	cl := p.Cl[ps.Cl]
	pfx := []byte(p.Opt.Prefix)
	cat := func(k []byte) [][]byte { return [][]byte{append(append([]byte{}, pfx...), k...)} }
	signer := p.A.Relayer()
	height := clienttypes.NewHeight(pk.Rev, pk.PH)
	var keyPath [][]byte
	var value []byte
	kind, use := "mem", ""
	var mk func(proof []byte) sdk.Msg
	ack := channeltypesv2.NewAcknowledgement([]byte(fmt.Sprintf("ack-of-%d", ps.Pkt.Sequence)))
	switch op.K {
	case "aack":
		use = "ack"
		keyPath = cat(hostv2.PacketAcknowledgementKey(cl.CP, ps.Pkt.Sequence))
		value = channeltypesv2.CommitAcknowledgement(ack)
		mk = func(proof []byte) sdk.Msg {
			return channeltypesv2.NewMsgAcknowledgement(ps.Pkt, ack, proof, height, signer.String())
		}
	case "atmo":
		use, kind = "tmo", "non"
		keyPath = cat(hostv2.PacketReceiptKey(cl.CP, ps.Pkt.Sequence))
		mk = func(proof []byte) sdk.Msg { return channeltypesv2.NewMsgTimeout(ps.Pkt, proof, height, signer.String()) }
	default:
		use = "rcv"
		keyPath = cat(hostv2.PacketCommitmentKey(cl.CP, ps.Pkt.Sequence))
		value = channeltypesv2.CommitPacket(ps.Pkt)
		mk = func(proof []byte) sdk.Msg { return channeltypesv2.NewMsgRecvPacket(ps.Pkt, proof, height, signer.String()) }
	}
	payload := attPacketPayload(pk, keyPath, value)
	sigs := p.buildSigs(pk.Sigs, payload, attTagPacket)
	v := p.judgeSigs(cl, pk.Sigs, payload, attTagPacket, sigs)
	r := p.A.Deliver(time.Second, signer, 0, mk(p.proofBytes(payload, sigs, pk.PM)))
	p.refresh(cl)
	verified := false
	if r.OK() {
		var res channeltypesv2.ResponseResultType
		switch op.K {
		case "aack":
			var resp channeltypesv2.MsgAcknowledgementResponse
			sim.Must(sim.UnpackResponse(r, 0, &resp), "MsgAcknowledgementResponse")
			res = resp.Result
		case "atmo":
			var resp channeltypesv2.MsgTimeoutResponse
			sim.Must(sim.UnpackResponse(r, 0, &resp), "MsgTimeoutResponse")
			res = resp.Result
		default:
			var resp channeltypesv2.MsgRecvPacketResponse
			sim.Must(sim.UnpackResponse(r, 0, &resp), "MsgRecvPacketResponse")
			res = resp.Result
		}
		if res == channeltypesv2.NOOP {
			w.Stats.Probe(use + "_noop")
			w.MixSig(use + "/noop")
			return
		}
		verified = true
		ps.Done = true
	}
	if !verified && !cl.frozen && op.K == "atmo" {
		// a timeout can also be refused because the proof height is not late enough; that is
		// not a statement about the attestation
		if ts, has := cl.cons[pk.PH]; !has || ts/1_000_000_000 < ps.Pkt.TimeoutTimestamp {
			w.Stats.Probe("tmo_too_early")
			w.MixSig("tmo/early")
			p.judgeProofAccOnly(w, cl, use, kind, pk, payload, v, keyPath, value)
			return
		}
	}
	if !verified && op.K == "arcv" && p.now() >= ps.Pkt.TimeoutTimestamp {
		w.Stats.Probe("rcv_after_timeout")
		ps.Done = true
		return
	}
	p.judgeProof(w, cl, use, kind, pk, payload, v, keyPath, value, verified, op.String())
}

// judgeProofAccOnly counts a refused case whose refusal says nothing about the attestation.
func (p *Attest) judgeProofAccOnly(w *sim.World, cl *attClient, use, kind string, pk attPkt, payload []byte, v attSigVerdict, keyPath [][]byte, value []byte) {
	w.Stats.NonTrivial(fmt.Sprintf("att:%s:%s:%s:other-refusal", use, v.shape(), v.rel()))
}
