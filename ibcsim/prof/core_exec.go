package prof

import (
	"bytes"
	"fmt"
	"strings"
	"time"

	sdk "github.com/cosmos/cosmos-sdk/types"

	clienttypes "github.com/cosmos/ibc-go/v11/modules/core/02-client/types"
	clientv2types "github.com/cosmos/ibc-go/v11/modules/core/02-client/v2/types"
	channeltypes "github.com/cosmos/ibc-go/v11/modules/core/04-channel/types"
	channeltypesv2 "github.com/cosmos/ibc-go/v11/modules/core/04-channel/v2/types"
	host "github.com/cosmos/ibc-go/v11/modules/core/24-host"
	ibcexported "github.com/cosmos/ibc-go/v11/modules/core/exported"
	mockv2 "github.com/cosmos/ibc-go/v11/testing/mock/v2"

	"verif/ibcsim/sim"
)

// Op kinds of the core profile
//
//	blk    C=chain N=dt(ns)                          produce a block (world clock advances by dt first)
//	send   P=route X=dir|2*defer T=tag N=timeoutHeight M=timeoutTs S=behaviours(csv)
//	recv   T=tag M=proofHeight X=2*defer|4*noupdate   (also ack, tmo, toc)
//	upd    P=route X=end M=height                    update end's light client to the peer height M
//	close  P=route X=end                             ChanCloseInit
//	closec P=route X=end M=proofHeight               ChanCloseConfirm
//	restart C=chain
//	skew   C=chain N=skew(ns)
//	wack   T=tag S=kind(ok|fail) X=repeat            application writes the ack of an async packet
//	mut    T=tag S=msgkind/field N=variant M=proofHeight

const (
	flagDir      = 1
	flagDefer    = 2
	flagNoUpdate = 4
)

func (p *Core) Exec(w *sim.World, op sim.Op) {
	switch op.K {
	case "blk":
		if op.C < 0 || op.C >= len(p.C) {
			w.Noop()
			return
		}
		p.tick(time.Duration(op.N))
		p.block(op.C)
	case "send":
		p.execSend(op)
	case "recv", "ack", "tmo", "toc":
		p.execRelay(op)
	case "upd":
		p.execUpdate(op)
	case "close":
		p.execClose(op)
	case "closec":
		p.execCloseConfirm(op)
	case "conf":
		p.execOpenConfirm(op)
	case "restart":
		if op.C < 0 || op.C >= len(p.C) || len(p.C[op.C].Mempool) > 0 {
			w.Noop()
			return
		}
		p.C[op.C].Restart()
		// the mock application's scratch store is memory-only and does not survive a restart
		p.snap[op.C] = p.C[op.C].Census(coreStores)
	case "skew":
		if op.C >= 0 && op.C < len(p.Skew) {
			p.Skew[op.C] = time.Duration(op.N)
			w.Stats.Fault("clock.skew")
		}
	case "wack":
		p.execWriteAck(op)
	case "mut":
		p.execMut(op)
	case "xfer":
		p.execXfer(op)
	case "donate":
		p.execDonate(op)
	case "rladm":
		p.execRateAdmin(op)
	case "atk":
		p.execAttack(op)
	case "grant":
		p.execGrant(op)
	case "gexp":
		p.execGenesisRestart(op)
	case "lostc":
		p.execLostCommit(op)
	case "rereg":
		// the creator (N=0) or a stranger (N=1) submits the counterparty registration again,
		// byte for byte what was registered at setup
		r := p.route(op.P)
		if r == nil || !r.V2 || r.Kind == "v2a" {
			w.Noop()
			return
		}
		e := int(op.X & 1)
		c := r.Chain[e]
		signer := c.Accounts[1]
		if op.N == 1 {
			signer = c.Accounts[9]
		}
		if signer.InPool() {
			p.block(c.Idx)
		}
		msg := clientv2types.NewMsgRegisterCounterparty(r.ID[e], [][]byte{[]byte("ibc"), []byte("")}, r.ID[1-e], signer.String())
		c.Submit(&sim.TxSpec{Msgs: []sdk.Msg{msg}, Signer: signer, Label: "rereg"})
		p.tick(time.Second)
		res := p.block(c.Idx)[0]
		w.Stats.Probe("counterparty_registration_replayed")
		if res.OK() {
			w.Violate("C46", "counterparty-registered-twice", "", fmt.Sprintf("%s: MsgRegisterCounterparty for %s accepted a second time (signer %s)", c.ID, r.ID[e], signer.Name))
			w.Stats.Probe("counterparty_registration_replay_ACCEPTED")
		}
	case "lhv":
		p.execLocalVerify(op)
	case "lhop":
		p.execLocalOp(op)
	default:
		w.Noop()
	}
}

func (p *Core) route(i int) *Route {
	if i < 0 || i >= len(p.Routes) {
		return nil
	}
	return p.Routes[i]
}

func mkData(behav string, tag int64, idx int) []byte {
	return []byte(fmt.Sprintf("%s|%d.%d", behav, tag, idx))
}

func (p *Core) execSend(op sim.Op) {
	w := p.w
	r := p.route(op.P)
	if r == nil || op.T == 0 || p.Pkts[op.T] != nil {
		w.Noop()
		return
	}
	d := int(op.X & flagDir)
	src, dst := r.Chain[d], r.Chain[1-d]
	behavs := strings.Split(op.S, ",")
	ps := &PktState{Route: op.P, Dir: d, Behav: behavs}
	ps.Pkt = &sim.Pkt{Tag: op.T, V2: r.V2, Src: src, Dst: dst, SrcCli: r.Client[d], DstCli: r.Client[1-d], Ordered: r.Ordered, Local: r.Local}
	if !r.V2 {
		data := mkData(behavs[0], op.T, 0)
		ps.Data = [][]byte{data}
		th := clienttypes.ZeroHeight()
		if op.N > 0 {
			th = dst.IBCHeight(op.N)
		}
		// the mock application sends from its own begin-block logic of the next block
		p.guardSendV1(ps, r, d, th, uint64(op.M))
		ctx := src.PreBlockCtx(p.chainTime(src.Idx))
		cctx, write := ctx.CacheContext()
		seq, err := src.App.IBCKeeper.ChannelKeeper.SendPacket(cctx, r.Port[d], r.ID[d], th, uint64(op.M), data)
		if err == nil {
			write()
			p.dirty = true
			ps.P1 = channeltypes.NewPacket(data, seq, r.Port[d], r.ID[d], r.Port[1-d], r.ID[1-d], th, uint64(op.M))
			ps.SentAt = src.Height + 1
			p.Pkts[op.T] = ps
			p.Order = append(p.Order, op.T)
			p.onSent(ps, nil)
		} else {
			p.onSendRefused(ps, err.Error())
		}
		p.tick(time.Second)
		p.block(src.Idx)
		if err == nil {
			ps.SentTm = src.LastTime
		}
		return
	}
	// v2: a real transaction signed by a user
	var pls []channeltypesv2.Payload
	ports := []string{mockv2.PortIDA, mockv2.PortIDB}
	for i, b := range behavs {
		data := mkData(b, op.T, i)
		ps.Data = append(ps.Data, data)
		port := ports[(int(op.T)+i)%2]
		pls = append(pls, channeltypesv2.NewPayload(port, port, "mock-version", "application/x-protobuf", data))
	}
	user := src.FreeAccount(2, 8)
	if user == nil {
		p.block(src.Idx)
		user = src.FreeAccount(2, 8)
	}
	msg := channeltypesv2.NewMsgSendPacket(r.ID[d], uint64(op.M), user.String(), pls...)
	ps.P2 = channeltypesv2.NewPacket(0, r.ID[d], r.ID[1-d], uint64(op.M), pls...)
	p.pendingV2Send(ps)
	src.Submit(&sim.TxSpec{Msgs: []sdk.Msg{msg}, Signer: user, Tag: op.T, Label: "send2"})
	if op.X&flagDefer == 0 {
		p.tick(time.Second)
		if len(src.Mempool) == 1 {
			p.guardSendV2(ps, r, d, uint64(op.M))
		}
		p.block(src.Idx)
	}
}

// pendingSends holds v2 packets whose MsgSendPacket sits in a mempool.
func (p *Core) pendingV2Send(ps *PktState) {
	p.Pkts[ps.Tag] = ps // visible under its tag; SentAt == 0 means "not committed yet"
}

// execRelay submits a packet message built with real proofs.
func (p *Core) execRelay(op sim.Op) {
	w := p.w
	ps := p.Pkts[op.T]
	if ps == nil || ps.SentAt == 0 {
		w.Noop()
		return
	}
	var on, of *sim.Chain // message goes to `on`, proof is taken on `of`
	var cli string
	if op.K == "recv" {
		on, of, cli = ps.Dst, ps.Src, ps.DstCli
	} else {
		on, of, cli = ps.Src, ps.Dst, ps.SrcCli
	}
	h := op.M
	if h < 3 || (h > of.Height && !ps.Local) || (!ps.Local && h-1 < of.MinVersion) { // proofs need a state version the node still has
		w.Noop()
		return
	}
	if op.K == "toc" && ps.V2 {
		w.Noop()
		return
	}
	if op.K == "ack" && !ps.HasAck && !ps.V2 && ps.Ack1 == nil {
		// nothing to present; a relayer cannot build this message without ack bytes: forge one
		ps = p.shadowAck(ps)
	}
	signer := on.FreeAccount(8, len(on.Accounts))
	if signer == nil {
		p.block(on.Idx)
		signer = on.Relayer()
	}
	var msgs []sdk.Msg
	if !ps.Local && op.X&flagNoUpdate == 0 && !on.HasConsensusState(cli, of.IBCHeight(h)) {
		if u, err := sim.MsgUpdateTo(on, cli, of, h, signer.String()); err == nil {
			msgs = append(msgs, u)
		}
	}
	switch op.K {
	case "recv":
		msgs = append(msgs, ps.RecvMsg(h, signer.String()))
	case "ack":
		msgs = append(msgs, ps.AckMsg(h, ps.Ack1, ps.Ack2, signer.String()))
	case "tmo":
		msgs = append(msgs, ps.TimeoutMsg(h, signer.String()))
	case "toc":
		msgs = append(msgs, ps.TimeoutOnCloseMsg(h, signer.String()))
	}
	on.Submit(&sim.TxSpec{Msgs: msgs, Signer: signer, Tag: op.T, Label: op.K})
	if op.X&flagDefer == 0 {
		dt := time.Second
		if op.N > 0 {
			dt = time.Duration(op.N) // explicit block distance (delay-period boundary probes)
		}
		p.tick(dt)
		p.block(on.Idx)
	}
}

// shadowAck returns a copy of ps carrying a made-up acknowledgement, used when a relayer
// submits an acknowledgement for a packet the destination never acknowledged.
func (p *Core) shadowAck(ps *PktState) *PktState {
	cp := *ps
	cp.Ack1 = channeltypes.NewResultAcknowledgement([]byte("forged")).Acknowledgement()
	return &cp
}

func (p *Core) execUpdate(op sim.Op) {
	r := p.route(op.P)
	if r == nil || r.Local {
		p.w.Noop()
		return
	}
	e := int(op.X & 1)
	on, of := r.Chain[e], r.Chain[1-e]
	if op.M < 2 || op.M > of.Height {
		p.w.Noop()
		return
	}
	signer := on.FreeAccount(8, len(on.Accounts))
	if signer == nil {
		p.block(on.Idx)
		signer = on.Relayer()
	}
	u, err := sim.MsgUpdateTo(on, r.Client[e], of, op.M, signer.String())
	if err != nil {
		p.w.Noop()
		return
	}
	on.Submit(&sim.TxSpec{Msgs: []sdk.Msg{u}, Signer: signer, Label: "upd"})
	if op.X&flagDefer == 0 {
		p.tick(time.Second)
		p.block(on.Idx)
	}
}

func (p *Core) execClose(op sim.Op) {
	r := p.route(op.P)
	if r == nil || r.V2 {
		p.w.Noop()
		return
	}
	e := int(op.X & 1)
	c := r.Chain[e]
	signer := c.FreeAccount(8, len(c.Accounts))
	if signer == nil {
		p.block(c.Idx)
		signer = c.Relayer()
	}
	c.Submit(&sim.TxSpec{Msgs: []sdk.Msg{channeltypes.NewMsgChannelCloseInit(r.Port[e], r.ID[e], signer.String())}, Signer: signer, Label: "close"})
	p.tick(time.Second)
	p.block(c.Idx)
}

func (p *Core) execCloseConfirm(op sim.Op) {
	r := p.route(op.P)
	if r == nil || r.V2 {
		p.w.Noop()
		return
	}
	e := int(op.X & 1)
	on, of := r.Chain[e], r.Chain[1-e]
	if op.M < 3 || op.M > of.Height || (!r.Local && op.M-1 < of.MinVersion) {
		p.w.Noop()
		return
	}
	signer := on.FreeAccount(8, len(on.Accounts))
	if signer == nil {
		p.block(on.Idx)
		signer = on.Relayer()
	}
	var msgs []sdk.Msg
	var proof []byte
	var ph clienttypes.Height
	if r.Local {
		proof, ph = []byte{0x01}, of.IBCHeight(op.M)
	} else {
		if !on.HasConsensusState(r.Client[e], of.IBCHeight(op.M)) {
			if u, err := sim.MsgUpdateTo(on, r.Client[e], of, op.M, signer.String()); err == nil {
				msgs = append(msgs, u)
			}
		}
		proof, ph = of.IBCProof(host.ChannelKey(r.Port[1-e], r.ID[1-e]), op.M)
	}
	msgs = append(msgs, channeltypes.NewMsgChannelCloseConfirm(r.Port[e], r.ID[e], proof, ph, signer.String()))
	on.Submit(&sim.TxSpec{Msgs: msgs, Signer: signer, Label: "closec"})
	p.tick(time.Second)
	p.block(on.Idx)
}

// execOpenConfirm relays the last handshake step of a half-open route (v1h, v1ho) to end 1.
func (p *Core) execOpenConfirm(op sim.Op) {
	r := p.route(op.P)
	if r == nil || r.V2 || r.Local || r.AckedAt == 0 {
		p.w.Noop()
		return
	}
	on, of := r.Chain[1], r.Chain[0]
	if op.M < 3 || op.M > of.Height || op.M-1 < of.MinVersion {
		p.w.Noop()
		return
	}
	signer := on.FreeAccount(8, len(on.Accounts))
	if signer == nil {
		p.block(on.Idx)
		signer = on.Relayer()
	}
	var msgs []sdk.Msg
	if !on.HasConsensusState(r.Client[1], of.IBCHeight(op.M)) {
		if u, err := sim.MsgUpdateTo(on, r.Client[1], of, op.M, signer.String()); err == nil {
			msgs = append(msgs, u)
		}
	}
	proof, ph := of.IBCProof(host.ChannelKey(r.Port[0], r.ID[0]), op.M)
	msgs = append(msgs, channeltypes.NewMsgChannelOpenConfirm(r.Port[1], r.ID[1], proof, ph, signer.String()))
	on.Submit(&sim.TxSpec{Msgs: msgs, Signer: signer, Label: "conf", Tag: -int64(op.P) - 1})
	p.tick(time.Second)
	p.block(on.Idx)
}

// execWriteAck lets the destination application write the acknowledgement of a packet it
// received asynchronously (or try to: repeated, premature, never-received).
func (p *Core) execWriteAck(op sim.Op) {
	ps := p.Pkts[op.T]
	if ps == nil || ps.SentAt == 0 {
		p.w.Noop()
		return
	}
	dst := ps.Dst
	ctx := dst.PreBlockCtx(p.chainTime(dst.Idx))
	reps := int(op.X)
	if reps < 1 {
		reps = 1
	}
	for i := 0; i < reps; i++ {
		cctx, write := ctx.CacheContext()
		var err error
		state := "acked"
		switch {
		case ps.RecvHeight == 0 && !ps.HasAck:
			state = "unreceived"
		case ps.AsyncOpen:
			state = "open"
		}
		defer func(i int) {
			res := "written"
			if err != nil {
				res = "refused"
			}
			p.w.Stats.NonTrivial(fmt.Sprintf("wack:v2=%v:%s:%s:rep%d", ps.V2, state, res, min64(int64(i), 2)))
		}(i)
		if ps.V2 && op.S == "bad" {
			// an application whose begin-block logic offers a malformed acknowledgement (two app
			// acks for one payload) and swallows the error: nothing is rolled back around the call
			bad := channeltypesv2.Acknowledgement{AppAcknowledgements: [][]byte{[]byte("a"), []byte("b")}}
			err = dst.App.IBCKeeper.ChannelKeeperV2.WriteAcknowledgement(ctx, ps.P2.DestinationClient, ps.P2.Sequence, bad)
			p.dirty = true
			p.w.Stats.Probe("async_ack_malformed_write_attempt")
			if err == nil {
				p.w.Violate("C11", "malformed-ack-written", "", fmt.Sprintf("%s: an acknowledgement with 2 app acks for 1 payload was written", ps.Pkt))
			}
			continue
		}
		if ps.V2 {
			ack := channeltypesv2.NewAcknowledgement([]byte(fmt.Sprintf("async-ack-%d-%d", ps.Tag, i)))
			if op.S == "fail" {
				ack = channeltypesv2.NewAcknowledgement(channeltypesv2.ErrorAcknowledgement[:])
			}
			err = dst.App.IBCKeeper.ChannelKeeperV2.WriteAcknowledgement(cctx, ps.P2.DestinationClient, ps.P2.Sequence, ack)
			if err == nil {
				write()
				p.dirty = true
				p.onAsyncAckWritten(ps, nil, &ack)
			}
		} else {
			var ack ibcexported.Acknowledgement = channeltypes.NewResultAcknowledgement([]byte(fmt.Sprintf("async-ack-%d-%d", ps.Tag, i)))
			if op.S == "fail" {
				ack = channeltypes.NewErrorAcknowledgement(fmt.Errorf("async failure"))
			}
			err = dst.App.IBCKeeper.ChannelKeeper.WriteAcknowledgement(cctx, ps.P1, ack)
			if err == nil {
				write()
				p.dirty = true
				p.onAsyncAckWritten(ps, ack.Acknowledgement(), nil)
			}
		}
		if err != nil {
			p.w.Stats.Probe("async_ack_write_refused")
		}
	}
	p.tick(time.Second)
	p.block(dst.Idx)
}

// ---- after every block ----------------------------------------------------------------------

// afterBlock resolves taps, moves the ghost model and runs the per-block oracles.
func (p *Core) afterBlock(ci int, res []*sim.TxResult) {
	w := p.w
	c := p.C[ci]
	p.dirtyNow, p.dirty = p.dirty, false
	okTx := map[string]bool{}
	for _, r := range res {
		if r.OK() {
			okTx[r.Spec.Hash] = true
		}
	}
	var taps []Tap
	for _, t := range p.taps {
		if t.Final && t.TxHash != "" && okTx[t.TxHash] {
			taps = append(taps, t)
		} else if !t.Final {
			w.Stats.Probe("tap_in_non_finalize_mode_discarded")
		} else {
			w.Stats.Probe("tap_of_reverted_tx_discarded")
		}
	}
	p.taps = p.taps[:0]

	// census and block diff
	before := p.snap[ci]
	after := c.Census(coreStores)
	p.snap[ci] = after
	diff := sim.Diff(before, after)

	// pre-block facts needed by the oracles (ghost state before this block's effects)
	pre := map[int64]PktState{}
	for _, r := range res {
		if ps := p.Pkts[r.Spec.Tag]; ps != nil {
			cp := *ps
			if !ps.V2 && ps.SentAt > 0 {
				cp.closedSrc = p.closed[chanKey(ps.Src.Idx, ps.P1.SourcePort, ps.P1.SourceChannel)]
				cp.closedDst = p.closed[chanKey(ps.Dst.Idx, ps.P1.DestinationPort, ps.P1.DestinationChannel)]
			}
			pre[ps.Tag] = cp
		}
	}

	// ghost transitions from committed transactions, in execution order
	for _, r := range res {
		p.applyTx(ci, r)
	}
	// application-visible history
	for _, t := range taps {
		p.applyTap(ci, t, res)
	}
	p.oracleBlock(ci, res, taps, diff, pre)
	if p.Opt.Tokens {
		p.tokAfterBlock(ci, res)
	}
	w.MixSig(fmt.Sprintf("b%d:%d:%d", ci, len(res), len(taps)))
}

func respResultV1(r *sim.TxResult, idx int, kind string) (channeltypes.ResponseResultType, bool) {
	switch kind {
	case "recv":
		var x channeltypes.MsgRecvPacketResponse
		if sim.UnpackResponse(r, idx, &x) == nil {
			return x.Result, true
		}
	case "ack":
		var x channeltypes.MsgAcknowledgementResponse
		if sim.UnpackResponse(r, idx, &x) == nil {
			return x.Result, true
		}
	case "tmo":
		var x channeltypes.MsgTimeoutResponse
		if sim.UnpackResponse(r, idx, &x) == nil {
			return x.Result, true
		}
	case "toc":
		var x channeltypes.MsgTimeoutOnCloseResponse
		if sim.UnpackResponse(r, idx, &x) == nil {
			return x.Result, true
		}
	}
	return 0, false
}

func respResultV2(r *sim.TxResult, idx int, kind string) (channeltypesv2.ResponseResultType, bool) {
	switch kind {
	case "recv":
		var x channeltypesv2.MsgRecvPacketResponse
		if sim.UnpackResponse(r, idx, &x) == nil {
			return x.Result, true
		}
	case "ack":
		var x channeltypesv2.MsgAcknowledgementResponse
		if sim.UnpackResponse(r, idx, &x) == nil {
			return x.Result, true
		}
	case "tmo":
		var x channeltypesv2.MsgTimeoutResponse
		if sim.UnpackResponse(r, idx, &x) == nil {
			return x.Result, true
		}
	}
	return 0, false
}

// txOutcome classifies a packet transaction: "success", "noop", "failed".
func txOutcome(r *sim.TxResult, v2 bool) string {
	if !r.OK() {
		return "failed"
	}
	idx := len(r.Spec.Msgs) - 1
	if v2 {
		res, ok := respResultV2(r, idx, r.Spec.Label)
		if ok && res == channeltypesv2.NOOP {
			return "noop"
		}
		return "success"
	}
	res, ok := respResultV1(r, idx, r.Spec.Label)
	if ok && res == channeltypes.NOOP {
		return "noop"
	}
	return "success"
}

// applyTx moves the ghost model for one committed transaction.
func (p *Core) applyTx(ci int, r *sim.TxResult) {
	w := p.w
	c := p.C[ci]
	ps := p.Pkts[r.Spec.Tag]
	switch r.Spec.Label {
	case "close", "closec":
		if !r.OK() {
			return
		}
		switch m := lastMsg(r).(type) {
		case *channeltypes.MsgChannelCloseInit:
			p.markClosed(ci, m.PortId, m.ChannelId, r.Height)
		case *channeltypes.MsgChannelCloseConfirm:
			p.markClosed(ci, m.PortId, m.ChannelId, r.Height)
		}
		w.Stats.Probe("channel_closed_by_handshake")
	case "conf":
		if rt := p.route(int(-r.Spec.Tag - 1)); rt != nil && r.OK() && rt.Half {
			rt.Half = false
			w.Stats.Probe("channel_confirmed_after_packets_were_sent")
		}
		return
	case "xfer":
		p.applyXfer(ci, r)
	case "donate":
		p.applyDonate(ci, r)
	case "atk":
		p.applyAttack(ci, r)
	case "grant":
		p.applyGrant(ci, r)
	case "send2":
		if ps == nil {
			return
		}
		if !r.OK() {
			p.onSendRefused(ps, r.Log)
			delete(p.Pkts, ps.Tag)
			return
		}
		var resp channeltypesv2.MsgSendPacketResponse
		sim.Must(sim.UnpackResponse(r, 0, &resp), "send response")
		ps.P2.Sequence = resp.Sequence
		ps.SentAt = r.Height
		ps.SentTm = c.LastTime
		p.Order = append(p.Order, ps.Tag)
		p.onSent(ps, r)
	case "recv", "ack", "tmo", "toc":
		if ps == nil {
			return
		}
		out := txOutcome(r, ps.V2)
		w.Stats.Probe(r.Spec.Label + "_" + out)
		if out != "success" && r.Spec.Label == "recv" && p.Routes[ps.Route].Half && ps.Dir == 0 {
			w.Stats.Probe("receive_refused_on_tryopen_channel")
		}
		if out != "success" {
			if out == "failed" {
				p.lastRefusal[ps.Tag] = fmt.Sprintf("%s-refused-%s/%d", r.Spec.Label, r.Space, r.Code)
			}
			return
		}
		defer func() {
			if ps.X != nil {
				p.tokApplyRelay(ci, r, ps, r.Spec.Label)
			}
		}()
		switch r.Spec.Label {
		case "recv":
			ps.RecvHeight = r.Height
			ps.RecvTime = c.LastTime
			if ps.V2 {
				if ack, ok := sim.AckV2FromEvents(r.Events); ok {
					ps.Ack2, ps.HasAck, ps.RecvWroteAck = ack, true, true
				} else {
					ps.AsyncOpen = true
				}
			} else {
				if ack, ok := sim.AckV1FromEvents(r.Events); ok {
					ps.Ack1, ps.HasAck, ps.RecvWroteAck = ack, true, true
				} else if !ps.HasAck {
					ps.AsyncOpen = true
				}
			}
		case "ack":
			ps.Done, ps.DoneHeight = "acked", r.Height
		case "tmo", "toc":
			ps.Done, ps.DoneHeight = "timedout", r.Height
			if ps.Ordered {
				p.closed[chanKey(ci, ps.P1.SourcePort, ps.P1.SourceChannel)] = true
				p.markClosed(ci, ps.P1.SourcePort, ps.P1.SourceChannel, r.Height)
			}
		}
		if r.Spec.Label == "recv" && ps.HasAck {
			ps.AckHeight = r.Height
		}
	}
}

func (p *Core) markClosed(ci int, port, ch string, h int64) {
	k := chanKey(ci, port, ch)
	if !p.closedAny[k] {
		p.closedAny[k] = true
		p.closeHeight[k] = h
	}
}

func (p *Core) onAsyncAckWritten(ps *PktState, ack1 []byte, ack2 *channeltypesv2.Acknowledgement) {
	w := p.w
	if ps.HasAck {
		w.Violate("C11", "second-ack-written", "", fmt.Sprintf("%s: application wrote a second acknowledgement for an already acknowledged packet and core accepted it", ps.Pkt))
		return
	}
	if ps.RecvHeight == 0 {
		if ps.V2 {
			w.Violate("C11", "ack-without-receive", "", fmt.Sprintf("%s: acknowledgement written for a packet that was never received", ps.Pkt))
			return
		}
		// v1 core does not tie WriteAcknowledgement to a receipt (the property demands it of
		// v2 only): the application acknowledged ahead of the receive; the model follows.
		w.Stats.Probe("v1_premature_ack_accepted")
	}
	ps.HasAck, ps.AsyncOpen = true, false
	ps.AckHeight = ps.Dst.Height + 1
	if ack2 != nil {
		ps.Ack2 = *ack2
	} else {
		ps.Ack1 = ack1
	}
	w.Stats.Probe("async_ack_written")
}

// applyTap records one committed application callback.
func (p *Core) applyTap(ci int, t Tap, res []*sim.TxResult) {
	w := p.w
	ps := p.Pkts[t.Tag]
	if ps == nil {
		if t.Kind != "send" {
			w.Violate("C05", "callback-for-unknown-packet", "", fmt.Sprintf("chain %d %s callback for data %q that no chain ever sent (id %s seq %d)", ci, t.Kind, t.Data, t.ID, t.Seq))
		}
		return
	}
	switch t.Kind {
	case "recv":
		if t.PIdx == 0 {
			ps.RecvCb++
		}
	case "ack":
		if t.PIdx == 0 {
			ps.AckCb++
		}
	case "tmo":
		if t.PIdx == 0 {
			ps.TmoCb++
		}
	case "resend":
		w.Stats.Probe("application_resent_from_timeout_callback")
		if ps.Ordered && !ps.V2 {
			// C14: by the time the application hears of the timeout the ORDERED channel is closed
			if t.OK {
				w.Violate("C14", "send-accepted-inside-timeout-callback", "", fmt.Sprintf("%s: the application sent a new packet (sequence %d) on %s from inside the timeout callback of an ORDERED channel, which that very timeout closes", ps.Pkt, t.Seq, t.ID))
			} else {
				w.Stats.Probe("resend_from_ordered_timeout_callback_refused")
			}
		}
	}
}

var _ = bytes.Equal
