package prof

import (
	"fmt"
	"time"

	"github.com/cosmos/gogoproto/proto"

	sdk "github.com/cosmos/cosmos-sdk/types"

	clienttypes "github.com/cosmos/ibc-go/v11/modules/core/02-client/types"
	connectiontypes "github.com/cosmos/ibc-go/v11/modules/core/03-connection/types"
	channeltypes "github.com/cosmos/ibc-go/v11/modules/core/04-channel/types"
	commitmenttypes "github.com/cosmos/ibc-go/v11/modules/core/23-commitment/types"
	host "github.com/cosmos/ibc-go/v11/modules/core/24-host"
	solomachine "github.com/cosmos/ibc-go/v11/modules/light-clients/06-solomachine"
	ibcmock "github.com/cosmos/ibc-go/v11/testing/mock"

	"verif/ibcsim/sim"
)

// ---- solo profile: one real chain whose counterparties are solo machines --------------------------
//
// Chain A hosts 2-3 06-solomachine light clients. The simulator plays every solo machine (it owns
// their keys, sequence-less: the machine signs whatever the scenario asks for and writes it into a
// ledger) and the relayer that carries signatures to the chain. Connection and channel handshakes
// and packet flow (mock application) run against the chain through ordinary transactions; every
// proof the chain checks is a solo machine signature. The faulty relayer replays earlier
// signatures after the sequence moved, presents signatures whose signed sequence / timestamp /
// diversifier / path / data / key differ from what the chain must check, corrupts signature bytes,
// and submits double-signing evidence.
//
// Oracle formulation: a direct sequential reference model (the chain executes one transaction per
// block, so there is nothing to linearise; porcupine is not used). See solo_oracles.go.

type SoloOptions struct {
	NumClients int
	SharedKey  bool     // client 1 is the same machine (same key) as client 0 under another diversifier
	NKeys      []int    // keys per client (1 = single key, >1 = n-of-n multisig)
	StartSeq   []uint64 // initial sequence per client
	StartTs    []uint64 // initial consensus timestamp per client
	Divs       []string // initial diversifier per client
	WFault     int      // percentage of proof operations preceded by a faulty twin
	WMisb      int      // weight of misbehaviour submissions
	FreezeFrom int      // first step at which a VALID misbehaviour may be drawn (0 = never)
	ZeroDelta  int      // percentage of honest signatures that reuse the consensus timestamp
}

func DefaultSoloOptions() SoloOptions {
	return SoloOptions{NumClients: 2, NKeys: []int{1, 1, 1}, StartSeq: []uint64{1, 1, 1}, StartTs: []uint64{10, 10, 10},
		Divs: []string{"alpha", "beta", "gamma"}, WFault: 55, WMisb: 6, FreezeFrom: 60, ZeroDelta: 45}
}

type soloClient struct {
	Idx     int
	ID      string // client id on the chain
	SoloCID string // identifier the solo machine uses for its client of the chain
	Family  string // key family (label prefix)
	NKeys   int
	Genesis *soloKeyset
	Divs    []string       // every diversifier the client ever had, oldest first
	MaxTs   uint64         // highest timestamp of a committed verification (reference model)
	SeqUsed map[uint64]int // sequence -> ledger index of the signature committed for it (reference model)
	Conns   []int64
	Chans   []int64
}

type soloConn struct {
	Tag    int64
	Cli    int
	ID     string
	SoloID string
}

type soloChan struct {
	Tag    int64
	Cli    int
	Conn   int64
	ID     string
	SoloID string
	Order  channeltypes.Order
}

type soloPkt struct {
	Tag     int64
	Chan    int64
	P       channeltypes.Packet
	ToChain bool
}

type Solo struct {
	w   *sim.World
	A   *sim.Chain
	Now time.Time
	Opt SoloOptions

	Cl     []*soloClient
	signer *soloSigner
	keys   map[string]*soloKeyset // packed public key -> key set

	conns   map[int64]*soloConn
	chans   map[int64]*soloChan
	pkts    map[int64]*soloPkt
	connSeq []int64
	chanSeq []int64
	pktSeq  []int64

	step      int
	lastFault *soloFaultMemo
	inSetup   bool
}

type soloFaultMemo struct {
	Kind  string
	Tag   int64
	Cli   int
	Name  string
	Probe string
}

func NewSolo(o SoloOptions) *Solo { return &Solo{Opt: o} }

func (p *Solo) Name() string { return "solo" }

const (
	soloPort      = ibcmock.PortID
	soloFarFuture = uint64(4102444800) * 1_000_000_000 // 2100-01-01 in ns
)

var soloProofHeight = clienttypes.NewHeight(0, 1<<40)

func soloConnID(i int64) string { return fmt.Sprintf("connection-solo-%d", i) }
func soloChanID(i int64) string { return fmt.Sprintf("channel-solo-%d", i) }

func (p *Solo) keyset(label string, n int) *soloKeyset {
	ks := newSoloKeyset(label, n)
	if old, ok := p.keys[ks.ID]; ok {
		return old
	}
	p.keys[ks.ID] = ks
	return ks
}

func (p *Solo) Setup(w *sim.World) {
	p.w = w
	p.signer = newSoloSigner()
	p.keys = map[string]*soloKeyset{}
	p.conns, p.chans, p.pkts = map[int64]*soloConn{}, map[int64]*soloChan{}, map[int64]*soloPkt{}
	p.A = sim.NewChain(0, sim.ChainConfig{ChainID: "simchain-1"}, w.Stats)
	w.Chains = []*sim.Chain{p.A}
	p.Now = p.A.LastTime
	o := p.Opt
	if o.NumClients < 1 {
		o.NumClients = 1
	}
	pick := func(i int, n int) int {
		if i < n {
			return i
		}
		return n - 1
	}
	for i := 0; i < o.NumClients; i++ {
		cl := &soloClient{Idx: i, SoloCID: fmt.Sprintf("client-on-solo-%d", i), Family: fmt.Sprintf("m%d", i), NKeys: 1, SeqUsed: map[uint64]int{}}
		if len(o.NKeys) > 0 {
			cl.NKeys = o.NKeys[pick(i, len(o.NKeys))]
		}
		if o.SharedKey && i == 1 {
			cl.Family, cl.NKeys = p.Cl[0].Family, p.Cl[0].NKeys
		}
		cl.Genesis = p.keyset(cl.Family+"/gen", cl.NKeys)
		div := fmt.Sprintf("div%d", i)
		if len(o.Divs) > 0 {
			div = o.Divs[pick(i, len(o.Divs))]
		}
		if o.SharedKey && i == 1 && div == p.Cl[0].Divs[0] {
			div += "-b"
		}
		seq, ts := uint64(1), uint64(10)
		if len(o.StartSeq) > 0 {
			seq = o.StartSeq[pick(i, len(o.StartSeq))]
		}
		if len(o.StartTs) > 0 {
			ts = o.StartTs[pick(i, len(o.StartTs))]
		}
		if seq == 0 {
			seq = 1
		}
		if ts == 0 {
			ts = 1
		}
		cl.Divs = []string{div}
		cl.MaxTs = ts
		cons := &solomachine.ConsensusState{PublicKey: cl.Genesis.Any, Diversifier: div, Timestamp: ts}
		cs := solomachine.NewClientState(seq, cons)
		signer := p.A.Accounts[1]
		msg, err := clienttypes.NewMsgCreateClient(cs, cons, signer.String())
		sim.Must(err, "solo MsgCreateClient")
		p.Now = p.Now.Add(time.Second)
		r := p.A.Block(p.Now, []*sim.TxSpec{{Msgs: []sdk.Msg{msg}, Signer: signer, Label: "create-solo-client"}})[0]
		if !r.OK() {
			sim.Failf("creating solo machine client %d failed: %s", i, r.Log)
		}
		id, ok := sim.EventAttr(r.Events, clienttypes.EventTypeCreateClient, clienttypes.AttributeKeyClientID)
		if !ok {
			sim.Failf("no client id in create_client events")
		}
		cl.ID = id
		p.Cl = append(p.Cl, cl)
		v := p.view(id)
		if !v.Found || v.Seq != seq || v.Ts != ts || v.Div != div || v.Key != cl.Genesis.ID || v.Frozen {
			sim.Failf("solo client %s was not stored as created: %+v", id, v)
		}
	}
	// honest bring-up through the ordinary operations (judged like every other operation): one
	// OPEN connection per client with two sibling unordered channels that share the solo machine's
	// channel identifier (so that packet proofs of one are pure replays on the other) and, for
	// client 0, an ordered channel.
	p.inSetup = true
	for i := range p.Cl {
		ct := w.Tag()
		p.Exec(w, sim.Op{K: "coi", P: i, T: ct})
		p.Exec(w, sim.Op{K: "coa", P: i, T: ct, S: "0"})
		for k := 0; k < 2; k++ {
			ht := w.Tag()
			p.Exec(w, sim.Op{K: "cht", P: i, T: ht, S: fmt.Sprintf("%d 0 U", ct)})
			p.Exec(w, sim.Op{K: "chc", P: i, T: ht})
		}
		if i == 0 {
			ht := w.Tag()
			p.Exec(w, sim.Op{K: "cht", P: i, T: ht, S: fmt.Sprintf("%d 1 O", ct), N: 1})
			p.Exec(w, sim.Op{K: "chc", P: i, T: ht})
		}
	}
	p.inSetup = false
	for _, cl := range p.Cl {
		// an incomplete bring-up is not fatal for one world (the oracles judged every step of it);
		// a batch in which honest traffic does not flow fails its required probes instead
		open := 0
		for _, t := range cl.Chans {
			if p.A.ChannelEnd(soloPort, p.chans[t].ID).State == channeltypes.OPEN {
				open++
			}
		}
		if open >= 2 {
			w.Stats.Probe("setup_two_open_sibling_channels")
		} else {
			w.Stats.Probe("setup_incomplete")
		}
	}
	p.lastFault = nil
}

// ---- ground truth access -------------------------------------------------------------------------

// soloView is the committed state of one solo machine client, read straight from the store.
type soloView struct {
	Found  bool
	Seq    uint64
	Ts     uint64
	Div    string
	Key    string
	Frozen bool
	Raw    string
}

func (p *Solo) view(clientID string) soloView {
	bz := p.A.State(ibcStore, host.FullClientStateKey(clientID))
	if bz == nil {
		return soloView{}
	}
	st, err := clienttypes.UnmarshalClientState(p.A.App.AppCodec(), bz)
	if err != nil {
		sim.Failf("client state of %s does not decode: %v", clientID, err)
	}
	cs, ok := st.(*solomachine.ClientState)
	if !ok || cs.ConsensusState == nil {
		sim.Failf("client %s is not a solo machine client", clientID)
	}
	return soloView{Found: true, Seq: cs.Sequence, Ts: cs.ConsensusState.Timestamp, Div: cs.ConsensusState.Diversifier,
		Key: anyID(cs.ConsensusState.PublicKey), Frozen: cs.IsFrozen, Raw: string(bz)}
}

func (p *Solo) views() []soloView {
	out := make([]soloView, len(p.Cl))
	for i, cl := range p.Cl {
		out[i] = p.view(cl.ID)
	}
	return out
}

func (p *Solo) connEnd(id string) (connectiontypes.ConnectionEnd, bool) {
	return p.A.App.IBCKeeper.ConnectionKeeper.GetConnection(p.A.QueryCtx(), id)
}

func (p *Solo) client(i int) *soloClient {
	if i < 0 || i >= len(p.Cl) {
		return nil
	}
	return p.Cl[i]
}

func (p *Solo) chainPrefix() commitmenttypes.MerklePrefix { return p.A.Prefix() }

// deliver commits a block holding exactly one transaction with msg.
func (p *Solo) deliver(label string, tag int64, signer *sim.Account, msg sdk.Msg) *sim.TxResult {
	p.Now = p.Now.Add(time.Second)
	return p.A.Block(p.Now, []*sim.TxSpec{{Msgs: []sdk.Msg{msg}, Signer: signer, Label: label, Tag: tag}})[0]
}

func mustMarshal(m proto.Message) []byte {
	bz, err := proto.Marshal(m)
	sim.Must(err, "marshal")
	return bz
}

// ---- operations ----------------------------------------------------------------------------------
//
// Proof-carrying operations share the fault fields: M = fault code (0 honest, see soloMutNames),
// X = fault parameter, C = index of the proof the fault applies to, N = timestamp increment of the
// honest claim.
//
//	blk  N=dt
//	coi  P=client T=newConn                      chain: MsgConnectionOpenInit (no proof)
//	coa  T=conn S=<soloConnIdx>                  MsgConnectionOpenAck   (membership: TRYOPEN end)
//	cot  P=client T=newConn S=<soloConnIdx>      MsgConnectionOpenTry   (membership: INIT end)
//	coc  T=conn                                  MsgConnectionOpenConfirm (membership: OPEN end)
//	cht  P=client T=newChan S="<conn> <soloChanIdx> <U|O>"  MsgChannelOpenTry (membership: INIT channel)
//	chc  T=chan                                  MsgChannelOpenConfirm  (membership: OPEN channel)
//	cls  T=chan                                  chain: MsgChannelCloseInit (no proof)
//	ccc  T=chan                                  MsgChannelCloseConfirm (membership: CLOSED channel)
//	snd  T=newPkt S=<chan>                       mock application sends a packet (no proof)
//	ack  T=pkt                                   MsgAcknowledgement     (membership: ack commitment)
//	tmo  T=pkt                                   MsgTimeout  (unordered: NON-membership of the receipt; ordered: membership of nextSequenceRecv)
//	toc  T=pkt                                   MsgTimeoutOnClose (two proofs: CLOSED channel, then as tmo)
//	rcv  T=newPkt S="<chan> <seq>"               MsgRecvPacket          (membership: packet commitment)
//	hdr  P=client X'=S="<keygen> <newDiv>"       MsgUpdateClient(Header)
//	mis  P=client S=<enc|raw|hdr> M=variant      MsgUpdateClient(Misbehaviour)

func (p *Solo) Exec(w *sim.World, op sim.Op) {
	p.step++
	switch op.K {
	case "blk":
		d := time.Duration(op.N)
		if d <= 0 {
			d = time.Second
		}
		before := p.views()
		p.Now = p.Now.Add(d)
		p.A.Block(p.Now, nil)
		p.judgeQuiet("blk", before)
	case "coi":
		p.execConnInit(op)
	case "cls":
		p.execCloseInit(op)
	case "snd":
		p.execSend(op)
	case "coa", "cot", "coc", "cht", "chc", "ccc", "ack", "tmo", "toc", "rcv":
		sub := p.prepare(op)
		if sub == nil {
			w.Noop()
			return
		}
		p.submitProofs(op, sub)
	case "hdr":
		p.execHeader(op)
	case "mis":
		p.execMisbehaviour(op)
	default:
		w.Noop()
	}
}

func (p *Solo) execConnInit(op sim.Op) {
	cl := p.client(op.P)
	if cl == nil || op.T == 0 || p.conns[op.T] != nil {
		p.w.Noop()
		return
	}
	signer := p.A.Relayer()
	before := p.views()
	msg := connectiontypes.NewMsgConnectionOpenInit(cl.ID, cl.SoloCID, p.chainPrefix(), nil, 0, signer.String())
	r := p.deliver("coi", op.T, signer, msg)
	p.judgeQuiet("coi", before)
	if !r.OK() {
		return
	}
	id, _ := sim.EventAttr(r.Events, connectiontypes.EventTypeConnectionOpenInit, connectiontypes.AttributeKeyConnectionID)
	p.addConn(&soloConn{Tag: op.T, Cli: cl.Idx, ID: id})
}

func (p *Solo) addConn(c *soloConn) {
	p.conns[c.Tag] = c
	p.connSeq = append(p.connSeq, c.Tag)
	p.Cl[c.Cli].Conns = append(p.Cl[c.Cli].Conns, c.Tag)
}

func (p *Solo) addChan(c *soloChan) {
	p.chans[c.Tag] = c
	p.chanSeq = append(p.chanSeq, c.Tag)
	p.Cl[c.Cli].Chans = append(p.Cl[c.Cli].Chans, c.Tag)
}

func (p *Solo) execCloseInit(op sim.Op) {
	ch := p.chans[op.T]
	if ch == nil {
		p.w.Noop()
		return
	}
	signer := p.A.Relayer()
	before := p.views()
	p.deliver("cls", op.T, signer, channeltypes.NewMsgChannelCloseInit(soloPort, ch.ID, signer.String()))
	p.judgeQuiet("cls", before)
}

func (p *Solo) execSend(op sim.Op) {
	var chTag int64
	fmt.Sscanf(op.S, "%d", &chTag)
	ch := p.chans[chTag]
	if ch == nil || op.T == 0 || p.pkts[op.T] != nil {
		p.w.Noop()
		return
	}
	cl := p.Cl[ch.Cli]
	v := p.view(cl.ID)
	before := p.views()
	p.Now = p.Now.Add(time.Second)
	ctx := p.A.PreBlockCtx(p.Now)
	cctx, write := ctx.CacheContext()
	th := clienttypes.NewHeight(0, v.Seq+1)
	seq, err := p.A.App.IBCKeeper.ChannelKeeper.SendPacket(cctx, soloPort, ch.ID, th, 0, ibcmock.MockPacketData)
	if err != nil {
		p.w.Noop()
		return
	}
	write()
	p.A.Block(p.Now, nil)
	p.judgeQuiet("snd", before)
	pk := channeltypes.NewPacket(ibcmock.MockPacketData, seq, soloPort, ch.ID, soloPort, ch.SoloID, th, 0)
	if p.A.State(ibcStore, host.PacketCommitmentKey(soloPort, ch.ID, seq)) == nil {
		sim.Failf("packet %d sent on %s left no commitment", seq, ch.ID)
	}
	p.pkts[op.T] = &soloPkt{Tag: op.T, Chan: ch.Tag, P: pk}
	p.pktSeq = append(p.pktSeq, op.T)
}

// soloNeed is one statement the chain must check with a solo machine signature.
type soloNeed struct {
	Path   []byte
	Data   []byte
	Absent bool
	What   string
}

// soloSub is a proof-carrying message under construction.
type soloSub struct {
	Kind  string
	Cli   *soloClient
	Tag   int64
	Needs []soloNeed
	Build func(signer string, proofs [][]byte) sdk.Msg
	OnOK  func(r *sim.TxResult)
	// Result extracts the NOOP marker of packet messages (nil = the message has none).
	Noop func(r *sim.TxResult) bool
}

func (p *Solo) connOf(tag int64) (*soloConn, connectiontypes.ConnectionEnd, bool) {
	c := p.conns[tag]
	if c == nil {
		return nil, connectiontypes.ConnectionEnd{}, false
	}
	end, ok := p.connEnd(c.ID)
	return c, end, ok
}

func (p *Solo) chanOf(tag int64) (*soloChan, channeltypes.Channel, connectiontypes.ConnectionEnd, bool) {
	ch := p.chans[tag]
	if ch == nil {
		return nil, channeltypes.Channel{}, connectiontypes.ConnectionEnd{}, false
	}
	end := p.A.ChannelEnd(soloPort, ch.ID)
	if end.State == channeltypes.UNINITIALIZED || len(end.ConnectionHops) != 1 {
		return nil, end, connectiontypes.ConnectionEnd{}, false
	}
	conn, ok := p.connEnd(end.ConnectionHops[0])
	return ch, end, conn, ok
}

// noopOf reports whether a packet message was answered NOOP (nothing verified was committed).
func noopOf(r *sim.TxResult, resp proto.Message) bool {
	if err := sim.UnpackResponse(r, 0, resp); err != nil {
		return false
	}
	switch x := resp.(type) {
	case *channeltypes.MsgAcknowledgementResponse:
		return x.Result == channeltypes.NOOP
	case *channeltypes.MsgTimeoutResponse:
		return x.Result == channeltypes.NOOP
	case *channeltypes.MsgTimeoutOnCloseResponse:
		return x.Result == channeltypes.NOOP
	case *channeltypes.MsgRecvPacketResponse:
		return x.Result == channeltypes.NOOP
	}
	return false
}

// prepare resolves the referents of a proof-carrying operation against the real state and lists
// what the chain will have to verify (derived from the message and the chain's own state, the
// way the counterparty of the handshake / packet protocol must have stored it).
func (p *Solo) prepare(op sim.Op) *soloSub {
	version := connectiontypes.GetCompatibleVersions()[0]
	switch op.K {
	case "cot":
		cl := p.client(op.P)
		if cl == nil || op.T == 0 || p.conns[op.T] != nil {
			return nil
		}
		var si int64
		fmt.Sscanf(op.S, "%d", &si)
		versions := connectiontypes.GetCompatibleVersions()
		want := connectiontypes.NewConnectionEnd(connectiontypes.INIT, cl.SoloCID,
			connectiontypes.NewCounterparty(cl.ID, "", p.chainPrefix()), versions, 0)
		return &soloSub{Kind: "cot", Cli: cl, Tag: op.T,
			Needs: []soloNeed{{Path: host.ConnectionKey(soloConnID(si)), Data: mustMarshal(&want), What: "connection INIT"}},
			Build: func(signer string, pr [][]byte) sdk.Msg {
				return connectiontypes.NewMsgConnectionOpenTry(cl.ID, soloConnID(si), cl.SoloCID, p.chainPrefix(), versions, 0, pr[0], soloProofHeight, signer)
			},
			OnOK: func(r *sim.TxResult) {
				id, _ := sim.EventAttr(r.Events, connectiontypes.EventTypeConnectionOpenTry, connectiontypes.AttributeKeyConnectionID)
				p.addConn(&soloConn{Tag: op.T, Cli: cl.Idx, ID: id, SoloID: soloConnID(si)})
			}}
	case "coa":
		c, end, ok := p.connOf(op.T)
		if !ok {
			return nil
		}
		var si int64
		fmt.Sscanf(op.S, "%d", &si)
		cl := p.Cl[c.Cli]
		want := connectiontypes.NewConnectionEnd(connectiontypes.TRYOPEN, end.Counterparty.ClientId,
			connectiontypes.NewCounterparty(end.ClientId, c.ID, p.chainPrefix()), []*connectiontypes.Version{version}, end.DelayPeriod)
		return &soloSub{Kind: "coa", Cli: cl, Tag: op.T,
			Needs: []soloNeed{{Path: host.ConnectionKey(soloConnID(si)), Data: mustMarshal(&want), What: "connection TRYOPEN"}},
			Build: func(signer string, pr [][]byte) sdk.Msg {
				return connectiontypes.NewMsgConnectionOpenAck(c.ID, soloConnID(si), pr[0], soloProofHeight, version, signer)
			},
			OnOK: func(*sim.TxResult) { c.SoloID = soloConnID(si) }}
	case "coc":
		c, end, ok := p.connOf(op.T)
		if !ok {
			return nil
		}
		cl := p.Cl[c.Cli]
		want := connectiontypes.NewConnectionEnd(connectiontypes.OPEN, end.Counterparty.ClientId,
			connectiontypes.NewCounterparty(end.ClientId, c.ID, p.chainPrefix()), end.Versions, end.DelayPeriod)
		return &soloSub{Kind: "coc", Cli: cl, Tag: op.T,
			Needs: []soloNeed{{Path: host.ConnectionKey(end.Counterparty.ConnectionId), Data: mustMarshal(&want), What: "connection OPEN"}},
			Build: func(signer string, pr [][]byte) sdk.Msg {
				return connectiontypes.NewMsgConnectionOpenConfirm(c.ID, pr[0], soloProofHeight, signer)
			}}
	case "cht":
		var ct, si int64
		var ord string
		fmt.Sscanf(op.S, "%d %d %s", &ct, &si, &ord)
		c, end, ok := p.connOf(ct)
		if !ok || op.T == 0 || p.chans[op.T] != nil {
			return nil
		}
		cl := p.Cl[c.Cli]
		order := channeltypes.UNORDERED
		if ord == "O" {
			order = channeltypes.ORDERED
		}
		want := channeltypes.NewChannel(channeltypes.INIT, order, channeltypes.NewCounterparty(soloPort, ""),
			[]string{end.Counterparty.ConnectionId}, ibcmock.Version)
		return &soloSub{Kind: "cht", Cli: cl, Tag: op.T,
			Needs: []soloNeed{{Path: host.ChannelKey(soloPort, soloChanID(si)), Data: mustMarshal(&want), What: "channel INIT"}},
			Build: func(signer string, pr [][]byte) sdk.Msg {
				return channeltypes.NewMsgChannelOpenTry(soloPort, ibcmock.Version, order, []string{c.ID}, soloPort, soloChanID(si), ibcmock.Version, pr[0], soloProofHeight, signer)
			},
			OnOK: func(r *sim.TxResult) {
				id, _ := sim.EventAttr(r.Events, channeltypes.EventTypeChannelOpenTry, channeltypes.AttributeKeyChannelID)
				p.addChan(&soloChan{Tag: op.T, Cli: cl.Idx, Conn: ct, ID: id, SoloID: soloChanID(si), Order: order})
			}}
	case "chc", "ccc":
		ch, end, conn, ok := p.chanOf(op.T)
		if !ok {
			return nil
		}
		cl := p.Cl[ch.Cli]
		state, what := channeltypes.OPEN, "channel OPEN"
		if op.K == "ccc" {
			state, what = channeltypes.CLOSED, "channel CLOSED"
		}
		want := channeltypes.NewChannel(state, end.Ordering, channeltypes.NewCounterparty(soloPort, ch.ID),
			[]string{conn.Counterparty.ConnectionId}, end.Version)
		return &soloSub{Kind: op.K, Cli: cl, Tag: op.T,
			Needs: []soloNeed{{Path: host.ChannelKey(end.Counterparty.PortId, end.Counterparty.ChannelId), Data: mustMarshal(&want), What: what}},
			Build: func(signer string, pr [][]byte) sdk.Msg {
				if op.K == "ccc" {
					return channeltypes.NewMsgChannelCloseConfirm(soloPort, ch.ID, pr[0], soloProofHeight, signer)
				}
				return channeltypes.NewMsgChannelOpenConfirm(soloPort, ch.ID, pr[0], soloProofHeight, signer)
			}}
	case "ack":
		pk := p.pkts[op.T]
		if pk == nil || pk.ToChain {
			return nil
		}
		ch, _, _, ok := p.chanOf(pk.Chan)
		if !ok {
			return nil
		}
		ack := ibcmock.MockAcknowledgement.Acknowledgement()
		return &soloSub{Kind: "ack", Cli: p.Cl[ch.Cli], Tag: op.T,
			Needs: []soloNeed{{Path: host.PacketAcknowledgementKey(pk.P.DestinationPort, pk.P.DestinationChannel, pk.P.Sequence),
				Data: channeltypes.CommitAcknowledgement(ack), What: "packet acknowledgement"}},
			Build: func(signer string, pr [][]byte) sdk.Msg {
				return channeltypes.NewMsgAcknowledgement(pk.P, ack, pr[0], soloProofHeight, signer)
			},
			Noop: func(r *sim.TxResult) bool { return noopOf(r, &channeltypes.MsgAcknowledgementResponse{}) }}
	case "tmo", "toc":
		pk := p.pkts[op.T]
		if pk == nil || pk.ToChain {
			return nil
		}
		ch, end, conn, ok := p.chanOf(pk.Chan)
		if !ok {
			return nil
		}
		var unrecv soloNeed
		if end.Ordering == channeltypes.ORDERED {
			unrecv = soloNeed{Path: host.NextSequenceRecvKey(pk.P.DestinationPort, pk.P.DestinationChannel),
				Data: sdk.Uint64ToBigEndian(pk.P.Sequence), What: "next sequence receive"}
		} else {
			unrecv = soloNeed{Path: host.PacketReceiptKey(pk.P.DestinationPort, pk.P.DestinationChannel, pk.P.Sequence), Absent: true, What: "receipt absence"}
		}
		if op.K == "tmo" {
			return &soloSub{Kind: "tmo", Cli: p.Cl[ch.Cli], Tag: op.T, Needs: []soloNeed{unrecv},
				Build: func(signer string, pr [][]byte) sdk.Msg {
					return channeltypes.NewMsgTimeout(pk.P, pk.P.Sequence, pr[0], soloProofHeight, signer)
				},
				Noop: func(r *sim.TxResult) bool { return noopOf(r, &channeltypes.MsgTimeoutResponse{}) }}
		}
		closed := channeltypes.NewChannel(channeltypes.CLOSED, end.Ordering, channeltypes.NewCounterparty(soloPort, ch.ID),
			[]string{conn.Counterparty.ConnectionId}, end.Version)
		return &soloSub{Kind: "toc", Cli: p.Cl[ch.Cli], Tag: op.T,
			Needs: []soloNeed{{Path: host.ChannelKey(end.Counterparty.PortId, end.Counterparty.ChannelId), Data: mustMarshal(&closed), What: "channel CLOSED"}, unrecv},
			Build: func(signer string, pr [][]byte) sdk.Msg {
				return channeltypes.NewMsgTimeoutOnClose(pk.P, pk.P.Sequence, pr[1], pr[0], soloProofHeight, signer)
			},
			Noop: func(r *sim.TxResult) bool { return noopOf(r, &channeltypes.MsgTimeoutOnCloseResponse{}) }}
	case "rcv":
		var ct int64
		var seq uint64
		fmt.Sscanf(op.S, "%d %d", &ct, &seq)
		ch, _, _, ok := p.chanOf(ct)
		if !ok || seq == 0 || op.T == 0 {
			return nil
		}
		pkt := channeltypes.NewPacket(ibcmock.MockPacketData, seq, soloPort, ch.SoloID, soloPort, ch.ID, clienttypes.ZeroHeight(), soloFarFuture)
		return &soloSub{Kind: "rcv", Cli: p.Cl[ch.Cli], Tag: op.T,
			Needs: []soloNeed{{Path: host.PacketCommitmentKey(soloPort, ch.SoloID, seq), Data: channeltypes.CommitPacket(pkt), What: "packet commitment"}},
			Build: func(signer string, pr [][]byte) sdk.Msg {
				return channeltypes.NewMsgRecvPacket(pkt, pr[0], soloProofHeight, signer)
			},
			OnOK: func(*sim.TxResult) {
				if p.pkts[op.T] == nil {
					p.pkts[op.T] = &soloPkt{Tag: op.T, Chan: ch.Tag, P: pkt, ToChain: true}
				}
			},
			Noop: func(r *sim.TxResult) bool { return noopOf(r, &channeltypes.MsgRecvPacketResponse{}) }}
	}
	return nil
}

// soloPresented is one proof as handed to the chain.
type soloPresented struct {
	SigData []byte
	ClaimTs uint64
	Need    soloNeed
}

// currentKeys returns the key set registered in the client's committed consensus state.
func (p *Solo) currentKeys(v soloView) *soloKeyset {
	ks := p.keys[v.Key]
	if ks == nil {
		sim.Failf("the chain holds a solo machine public key the simulator never created: %s", v.Key)
	}
	return ks
}

// honestTs is the timestamp an honest machine stamps its next signature with.
func (p *Solo) honestTs(cl *soloClient, v soloView, delta int64) uint64 {
	base := v.Ts
	if cl.MaxTs > base {
		base = cl.MaxTs
	}
	if delta < 0 {
		delta = 0
	}
	return base + uint64(delta)
}

func (p *Solo) submitProofs(op sim.Op, sub *soloSub) {
	w := p.w
	cl := sub.Cli
	v := p.view(cl.ID)
	ks := p.currentKeys(v)
	var mut *soloMut
	if op.M != 0 {
		mut = &soloMut{M: op.M, X: op.X, Proof: op.C % len(sub.Needs)}
	}
	var pres []soloPresented
	var proofs [][]byte
	run := p.honestTs(cl, v, op.N)
	name, pure, pureClass := "", false, ""
	for i, nd := range sub.Needs {
		want := signedFields{Seq: v.Seq + uint64(i), Ts: run, Div: v.Div, Path: nd.Path, Data: nd.Data}
		var sigData []byte
		claim := run
		if mut != nil && (mut.Proof == i || mut.M == soloMutSwap) {
			prev := run
			if i == 0 {
				prev = p.honestTs(cl, v, 0)
			}
			r, ok := p.faultyProof(cl, v, ks, want, prev, mut, sub.Kind, i)
			if !ok {
				w.Noop()
				return
			}
			sigData, claim, name, pure = r.SigData, r.ClaimTs, r.Name, r.Pure
			pureClass = needClass(nd)
		} else {
			sigData = p.signer.sign(cl.Idx, ks, want, sub.Kind).SigData
		}
		pres = append(pres, soloPresented{SigData: sigData, ClaimTs: claim, Need: nd})
		proofs = append(proofs, wrapProof(sigData, claim))
		if claim > run {
			run = claim
		}
	}
	signer := p.A.Relayer()
	msg := sub.Build(signer.String(), proofs)
	before := p.views()
	r := p.deliver(sub.Kind, sub.Tag, signer, msg)
	noop := r.OK() && sub.Noop != nil && sub.Noop(r)
	if name != "" {
		w.Stats.Fault("relay." + name)
	}
	p.judge(&soloOutcome{Kind: sub.Kind, Cli: cl, Before: before, Res: r, Noop: noop, Presented: pres,
		Fault: name, Pure: pure, PureClass: pureClass, Tag: sub.Tag, ZeroDelta: op.N == 0, Multi: len(ks.Privs) > 1})
	if r.OK() && !noop && sub.OnOK != nil {
		sub.OnOK(r)
	}
}

// ---- header updates ------------------------------------------------------------------------------

func (p *Solo) execHeader(op sim.Op) {
	w := p.w
	cl := p.client(op.P)
	if cl == nil {
		w.Noop()
		return
	}
	var gen int64
	newDiv := ""
	fmt.Sscanf(op.S, "%d %s", &gen, &newDiv)
	if newDiv == "-" {
		newDiv = ""
	}
	v := p.view(cl.ID)
	ks := p.currentKeys(v)
	newKs := ks
	if gen > 0 {
		newKs = p.keyset(fmt.Sprintf("%s/hdr/%d", cl.Family, gen), cl.NKeys)
	}
	ts := p.honestTs(cl, v, op.N)
	hdr := &solomachine.Header{Timestamp: ts, NewPublicKey: newKs.Any, NewDiversifier: newDiv}
	data := mustMarshal(&solomachine.HeaderData{NewPubKey: newKs.Any, NewDiversifier: newDiv})
	want := signedFields{Seq: v.Seq, Ts: ts, Div: v.Div, Path: []byte(solomachine.SentinelHeaderPath), Data: data}
	name, pure := "", false
	if op.M != 0 {
		mut := &soloMut{M: op.M, X: op.X, AltDivs: []string{newDiv}, AltKeys: []*soloKeyset{newKs}}
		r, ok := p.faultyProof(cl, v, ks, want, p.honestTs(cl, v, 0), mut, "hdr", 0)
		if !ok {
			w.Noop()
			return
		}
		hdr.Signature, hdr.Timestamp, name, pure = r.SigData, r.ClaimTs, r.Name, r.Pure
		if op.M == soloMutReplay && r.Rec != nil && r.Rec.Kind == "hdr" {
			// the relayer resubmits the old header exactly as it was
			var hd solomachine.HeaderData
			if proto.Unmarshal(r.Rec.F.Data, &hd) == nil && hd.NewPubKey != nil {
				hdr.NewPublicKey, hdr.NewDiversifier = hd.NewPubKey, hd.NewDiversifier
				pure = r.Rec.F.Div == v.Div && r.Rec.Keyset == ks && r.Rec.F.Ts >= p.honestTs(cl, v, 0) && r.Rec.F.Seq != v.Seq
			}
		}
	} else {
		hdr.Signature = p.signer.sign(cl.Idx, ks, want, "hdr").SigData
	}
	signer := p.A.Relayer()
	msg, err := clienttypes.NewMsgUpdateClient(cl.ID, hdr, signer.String())
	if err != nil {
		w.Noop()
		return
	}
	before := p.views()
	r := p.deliver("hdr", 0, signer, msg)
	if name != "" {
		w.Stats.Fault("relay." + name)
	}
	p.judge(&soloOutcome{Kind: "hdr", Cli: cl, Before: before, Res: r, Hdr: hdr, Fault: name, Pure: pure, PureClass: "header",
		Tag: int64(cl.Idx) + 1, ZeroDelta: op.N == 0, Multi: len(ks.Privs) > 1})
	if a := p.view(cl.ID); a.Div != v.Div {
		cl.Divs = append(cl.Divs, a.Div)
	}
}

func (p *Solo) Drain(w *sim.World) []sim.Op { return nil }

func (p *Solo) Finish(w *sim.World) {
	n := len(w.Log)
	if n > 24 {
		n = 24
	}
	if len(w.Viol) == 0 {
		var st []string
		for _, cl := range p.Cl {
			v := p.view(cl.ID)
			st = append(st, fmt.Sprintf("%s seq=%d ts=%d div=%q frozen=%v", cl.ID, v.Seq, v.Ts, v.Div, v.Frozen))
		}
		w.Stats.Sample(map[string]any{"profile": "solo", "seed": w.Cfg.Seed, "clients_at_end": st, "signatures_made": len(p.signer.proofs), "first_events": w.Log[:n]})
	}
}
