package prof

import (
	"bytes"
	"fmt"

	"github.com/cosmos/gogoproto/proto"

	"github.com/cosmos/cosmos-sdk/types/tx/signing"

	clienttypes "github.com/cosmos/ibc-go/v11/modules/core/02-client/types"
	connectiontypes "github.com/cosmos/ibc-go/v11/modules/core/03-connection/types"
	commitmenttypesv2 "github.com/cosmos/ibc-go/v11/modules/core/23-commitment/types/v2"
	host "github.com/cosmos/ibc-go/v11/modules/core/24-host"
	solomachine "github.com/cosmos/ibc-go/v11/modules/light-clients/06-solomachine"

	"verif/ibcsim/sim"
)

// ---- the faulty relayer --------------------------------------------------------------------------

const (
	soloMutReplay   = 1  // present a signature the chain already consumed
	soloMutSeq      = 2  // signature over another sequence
	soloMutTsSigned = 3  // signature over another timestamp than the one claimed
	soloMutTsPast   = 4  // consistently signed timestamp below the consensus timestamp
	soloMutDiv      = 5  // signature over another diversifier
	soloMutPath     = 6  // signature over another path
	soloMutData     = 7  // signature over other data (or over absence / presence)
	soloMutKey      = 8  // signature by a key that is not the registered one
	soloMutSigBytes = 9  // corrupted signature bytes / signature data
	soloMutSwap     = 10 // two-proof message: the signatures' sequences are exchanged
)

var soloMutNames = map[int64]string{soloMutReplay: "replay", soloMutSeq: "sequence", soloMutTsSigned: "timestamp", soloMutTsPast: "past",
	soloMutDiv: "diversifier", soloMutPath: "path", soloMutData: "data", soloMutKey: "key", soloMutSigBytes: "sigbytes", soloMutSwap: "swap"}

type soloMut struct {
	M, X    int64
	Proof   int
	AltDivs []string // further wrong diversifiers that make sense for this message
	AltKeys []*soloKeyset
}

type soloFaulty struct {
	SigData []byte
	ClaimTs uint64
	Name    string
	Pure    bool // replay whose only stale field is the sequence
	Rec     *proofRec
}

func absMod(x int64, n int) int {
	if n <= 0 {
		return 0
	}
	if x < 0 {
		x = -x
	}
	return int(x % int64(n))
}

// faultyProof produces what a faulty relayer presents instead of an honest signature over want.
// floor is the timestamp the chain will compare against (consensus timestamp, or the previous
// proof's timestamp inside a two-proof message).
func (p *Solo) faultyProof(cl *soloClient, v soloView, ks *soloKeyset, want signedFields, floor uint64, mut *soloMut, kind string, i int) (soloFaulty, bool) {
	name := soloMutNames[mut.M]
	signed := want
	signed.Path = append([]byte{}, want.Path...)
	signed.Data = append([]byte{}, want.Data...)
	if len(want.Data) == 0 {
		signed.Data = nil
	}
	key := ks
	out := soloFaulty{ClaimTs: want.Ts, Name: name}
	switch mut.M {
	case soloMutReplay:
		var a, b, c, d []*proofRec
		for _, r := range p.signer.proofs {
			if len(r.Used) == 0 {
				continue
			}
			if _, here := r.Used[cl.ID]; !here {
				d = append(d, r)
				continue
			}
			switch {
			case bytes.Equal(r.F.Path, want.Path) && bytes.Equal(r.F.Data, want.Data):
				a = append(a, r)
			case r.Kind == kind:
				b = append(b, r)
			default:
				c = append(c, r)
			}
		}
		var tier []*proofRec
		switch absMod(mut.X, 4) {
		case 3:
			tier = d
		case 2:
			tier = b
		}
		for _, t := range [][]*proofRec{a, b, c, d} {
			if len(tier) == 0 {
				tier = t
			}
		}
		if len(tier) == 0 {
			return out, false
		}
		// most recent candidates first: a fresh signature is the most tempting one to replay
		rec := tier[len(tier)-1-absMod(mut.X/4, len(tier))]
		out.SigData, out.ClaimTs, out.Rec = rec.SigData, rec.F.Ts, rec
		out.Pure = bytes.Equal(rec.F.Path, want.Path) && bytes.Equal(rec.F.Data, want.Data) && rec.F.Div == want.Div &&
			rec.Keyset == ks && rec.F.Ts >= floor && rec.F.Seq != want.Seq
		return out, true
	case soloMutSeq:
		ds := []int64{1, -1, 2, -2, 1000}
		d := ds[absMod(mut.X, len(ds))]
		if d < 0 && want.Seq < uint64(-d) {
			d = -d
		}
		signed.Seq = uint64(int64(want.Seq) + d)
	case soloMutSwap:
		if i == 0 {
			signed.Seq = want.Seq + 1
		} else {
			signed.Seq = want.Seq - 1
		}
	case soloMutTsSigned:
		switch absMod(mut.X, 3) {
		case 0:
			signed.Ts = want.Ts + 1
		case 1:
			if want.Ts < 2 {
				signed.Ts = want.Ts + 2
			} else {
				signed.Ts = want.Ts - 1
			}
		default:
			signed.Ts = want.Ts + 1000
		}
	case soloMutTsPast:
		sub := uint64(1 + absMod(mut.X, 3))
		if absMod(mut.X, 7) == 6 {
			sub = floor - 1
		}
		if sub == 0 || floor <= sub {
			return out, false
		}
		signed.Ts = floor - sub
		out.ClaimTs = signed.Ts
	case soloMutDiv:
		alts := []string{"", want.Div + "x", " " + want.Div}
		for _, o := range p.Cl {
			if o != cl {
				alts = append(alts, o.Divs[len(o.Divs)-1])
			}
		}
		if len(cl.Divs) > 1 {
			alts = append(alts, cl.Divs[len(cl.Divs)-2])
		}
		signed.Div = alts[absMod(mut.X/2, len(alts))]
		if len(mut.AltDivs) > 0 && absMod(mut.X, 2) == 0 {
			// e.g. a header signed under the diversifier it is about to install
			signed.Div = mut.AltDivs[absMod(mut.X/2, len(mut.AltDivs))]
		}
		if signed.Div == want.Div {
			signed.Div = want.Div + "y"
		}
	case soloMutPath:
		switch absMod(mut.X, 4) {
		case 0:
			signed.Path = append(signed.Path, '0')
		case 1:
			signed.Path = append([]byte("ibc/"), signed.Path...)
		case 2:
			mp := commitmenttypesv2.MerklePath{KeyPath: [][]byte{[]byte("ibc"), want.Path}}
			signed.Path = mustMarshal(&mp)
		default:
			signed.Path[len(signed.Path)-1] ^= 0x01
		}
	case soloMutData:
		if len(want.Data) == 0 {
			signed.Data = [][]byte{{0x01}, []byte("receipt"), {0x00}}[absMod(mut.X, 3)]
		} else {
			switch absMod(mut.X, 3) {
			case 0:
				signed.Data[len(signed.Data)-1] ^= 0x01
			case 1:
				signed.Data = nil // a signature over ABSENCE presented for presence
			default:
				signed.Data = append(signed.Data, 0x00)
			}
		}
	case soloMutKey:
		var alt *soloKeyset
		switch absMod(mut.X, 3) {
		case 0:
			alt = cl.Genesis
		case 1:
			for _, o := range p.Cl {
				if o != cl {
					alt = p.currentKeys(p.view(o.ID))
				}
			}
		}
		if len(mut.AltKeys) > 0 && absMod(mut.X, 2) == 0 {
			// e.g. a header signed by the key it is about to install
			alt = mut.AltKeys[absMod(mut.X/2, len(mut.AltKeys))]
		}
		if alt == nil || alt == ks {
			alt = p.keyset(fmt.Sprintf("rogue/%d", absMod(mut.X, 5)), len(ks.Privs))
		}
		key = alt
	case soloMutSigBytes:
		rec := p.signer.sign(cl.Idx, ks, want, kind)
		raws, _, _ := rawSigsOf(rec.SigData)
		sd := append([]byte{}, rec.SigData...)
		switch absMod(mut.X, 5) {
		case 0:
			if idx := bytes.Index(sd, raws[0]); idx >= 0 {
				sd[idx+len(raws[0])-1] ^= 0x01
			}
		case 1:
			sd = nil
		case 2:
			sd = []byte{0x18, 0x01} // decodes to signature data with no content
		case 3:
			// signature data of the other shape: a lone signature for a multisig key, a
			// multisignature (by unrelated keys) for a single key
			if len(raws) > 1 {
				sd = mustMarshal(signing.SignatureDataToProto(&signing.SingleSignatureData{Signature: raws[0]}))
			} else {
				sd = p.signer.sign(cl.Idx, p.keyset("shape/2", 2), want, kind).SigData
			}
		default:
			if idx := bytes.Index(sd, raws[0]); idx >= 0 {
				for k := 0; k < len(raws[0]); k++ {
					sd[idx+k] = 0
				}
			}
		}
		out.SigData = sd
		return out, true
	default:
		return out, false
	}
	rec := p.signer.sign(cl.Idx, key, signed, kind)
	out.SigData, out.Rec = rec.SigData, rec
	return out, true
}

// ---- misbehaviour --------------------------------------------------------------------------------
//
// S selects how the evidence paths are encoded:
//
//	enc  the path is a protobuf-encoded MerklePath (what the repo's own tests submit)
//	raw  the evidence are signatures of the kind the chain accepts as proofs (path = the raw store
//	     key the membership check signs); with X&2 signature one is a proof the chain itself
//	     accepted earlier and signature two contradicts it
//	hdr  two header signatures for one sequence installing different keys
//
// M selects a defect of the evidence (0 = two valid signatures over different data).
const (
	soloMisPastSeq  = 12
	soloMisFirstBad = 13
	soloMisSameData = 11
)

func (p *Solo) execMisbehaviour(op sim.Op) {
	w := p.w
	cl := p.client(op.P)
	if cl == nil {
		w.Noop()
		return
	}
	v := p.view(cl.ID)
	ks := p.currentKeys(v)
	seq := v.Seq
	if op.M == soloMisPastSeq {
		back := uint64(1 + absMod(op.X, 3))
		if seq <= back {
			w.Noop()
			return
		}
		seq -= back
	}
	ts := v.Ts + uint64(absMod(op.N, 1000))
	if ts == 0 {
		ts = 1
	}
	f1 := signedFields{Seq: seq, Ts: ts, Div: v.Div}
	f2 := signedFields{Seq: seq, Ts: ts + 1, Div: v.Div}
	var reuse *proofRec
	switch op.S {
	case "enc":
		mp := commitmenttypesv2.MerklePath{KeyPath: [][]byte{[]byte("ibc"), host.FullClientStateKey("07-tendermint-7")}}
		f1.Path, f2.Path = mustMarshal(&mp), mustMarshal(&mp)
		if op.X&1 == 1 {
			mp2 := commitmenttypesv2.MerklePath{KeyPath: [][]byte{[]byte("ibc"), host.FullConsensusStateKey("07-tendermint-7", clienttypes.NewHeight(0, 1))}}
			f2.Path = mustMarshal(&mp2)
		}
		f1.Data, f2.Data = []byte("client state as the machine sees it"), []byte("another client state for the same sequence")
	case "raw":
		path := host.ConnectionKey(soloConnID(0))
		e1 := connectiontypes.NewConnectionEnd(connectiontypes.INIT, cl.SoloCID, connectiontypes.NewCounterparty(cl.ID, "", p.chainPrefix()), connectiontypes.GetCompatibleVersions(), 0)
		e2 := connectiontypes.NewConnectionEnd(connectiontypes.INIT, cl.SoloCID, connectiontypes.NewCounterparty(cl.ID, "", p.chainPrefix()), connectiontypes.GetCompatibleVersions(), 77)
		f1.Path, f2.Path, f1.Data, f2.Data = path, path, mustMarshal(&e1), mustMarshal(&e2)
		if op.X&2 == 2 && op.M != soloMisPastSeq {
			for k := len(p.signer.proofs) - 1; k >= 0; k-- {
				r := p.signer.proofs[k]
				if _, used := r.Used[cl.ID]; used && r.Keyset == ks && r.F.Div == v.Div && !r.Absent && r.Kind != "hdr" {
					reuse = r
					break
				}
			}
			if reuse != nil {
				f1 = reuse.F
				f2 = signedFields{Seq: f1.Seq, Ts: f1.Ts + 1, Div: f1.Div, Path: f1.Path, Data: append(append([]byte{}, f1.Data...), 0x01)}
				seq = f1.Seq
			}
		}
	case "hdr":
		k1, k2 := p.keyset(cl.Family+"/fork/1", cl.NKeys), p.keyset(cl.Family+"/fork/2", cl.NKeys)
		f1.Path, f2.Path = []byte(solomachine.SentinelHeaderPath), []byte(solomachine.SentinelHeaderPath)
		f1.Data = mustMarshal(&solomachine.HeaderData{NewPubKey: k1.Any, NewDiversifier: v.Div})
		f2.Data = mustMarshal(&solomachine.HeaderData{NewPubKey: k2.Any, NewDiversifier: v.Div})
	default:
		w.Noop()
		return
	}
	c1, c2 := f1, f2 // what the evidence CLAIMS was signed
	k1, k2 := ks, ks
	corrupt := false
	switch op.M {
	case 0, soloMisPastSeq:
	case soloMutSeq:
		f2.Seq = seq + 1
	case soloMutTsSigned:
		f2.Ts += 5
	case soloMutDiv:
		f2.Div += "x"
	case soloMutPath:
		mp := commitmenttypesv2.MerklePath{KeyPath: [][]byte{[]byte("ibc"), []byte("some/other/key")}}
		c2.Path = mustMarshal(&mp)
	case soloMutData:
		c2.Data = append(append([]byte{}, f2.Data...), 0x02)
	case soloMutKey:
		k2 = p.keyset("rogue/9", len(ks.Privs))
	case soloMisFirstBad:
		k1 = p.keyset("rogue/9", len(ks.Privs))
	case soloMutSigBytes:
		corrupt = true
	case soloMisSameData:
		f2.Path, f2.Data = f1.Path, f1.Data
		c2.Path, c2.Data = f1.Path, f1.Data
	default:
		w.Noop()
		return
	}
	var s1, s2 []byte
	if reuse != nil {
		s1 = reuse.SigData
	} else {
		s1 = p.signer.sign(cl.Idx, k1, f1, "mis").SigData
	}
	s2 = p.signer.sign(cl.Idx, k2, f2, "mis").SigData
	if corrupt {
		raws, _, _ := rawSigsOf(s2)
		s2 = append([]byte{}, s2...)
		if idx := bytes.Index(s2, raws[0]); idx >= 0 {
			s2[idx+3] ^= 0x40
		}
	}
	mis := &solomachine.Misbehaviour{Sequence: seq,
		SignatureOne: &solomachine.SignatureAndData{Signature: s1, Path: c1.Path, Data: c1.Data, Timestamp: c1.Ts},
		SignatureTwo: &solomachine.SignatureAndData{Signature: s2, Path: c2.Path, Data: c2.Data, Timestamp: c2.Ts}}
	signer := p.A.Relayer()
	msg, err := clienttypes.NewMsgUpdateClient(cl.ID, mis, signer.String())
	if err != nil {
		w.Noop()
		return
	}
	before := p.views()
	r := p.deliver("mis", 0, signer, msg)
	name := ""
	if op.M != 0 && op.M != soloMisPastSeq {
		name = "mis-" + fmt.Sprint(op.M)
		w.Stats.Fault("relay.bad-evidence")
	}
	p.judge(&soloOutcome{Kind: "mis", Cli: cl, Before: before, Res: r, Mis: mis, MisFormat: op.S, Fault: name,
		MisPast: op.M == soloMisPastSeq, MisReal: reuse != nil})
}

var _ = proto.Marshal
var _ = sim.Failf
