package prof

import (
	"bytes"
	"fmt"

	solomachine "github.com/cosmos/ibc-go/v11/modules/light-clients/06-solomachine"

	"verif/ibcsim/sim"
)

// ---- C26 oracles: a sequential reference model over the signer's ledger -----------------------------
//
// The chain executes one transaction per block, so the history is already sequential and the
// reference model is applied step by step (no linearizability search). For every transaction the
// oracle reads the committed client state before and after (ground truth from the store) and asks
// the LEDGER — not the solo machine code — what the presented signatures really signed:
//
//	consumption   a committed message with k verifications advances the sequence by exactly k; the
//	              i-th verification is judged against sequence(before)+i            (clause 1)
//	exactness     each consumed verification is backed by a ledger signature of the registered key
//	              over exactly (sequence, claimed timestamp, registered diversifier, the path and
//	              data the chain had to check); a refusal changes nothing           (clauses 2, 3)
//	single use    a ledger signature is consumed at most once per client           (clause 2)
//	monotone time the consensus timestamp never decreases and no verification older than an
//	              earlier committed one is accepted                               (clause 4)
//	misbehaviour  two ledger signatures of the registered key over different (path, data) for one
//	              sequence freeze the client; evidence that is not that never freezes it; a frozen
//	              client accepts nothing and stays frozen                         (clause 5)

type soloOutcome struct {
	Kind      string
	Cli       *soloClient
	Before    []soloView
	Res       *sim.TxResult
	Noop      bool
	Presented []soloPresented
	Hdr       *solomachine.Header
	Mis       *solomachine.Misbehaviour
	MisFormat string
	MisPast   bool
	MisReal   bool
	Fault     string
	Pure      bool
	PureClass string
	Tag       int64
	ZeroDelta bool
	Multi     bool
}

const soloMisPathSig = "misbehaviour-of-proof-signatures-refused:path-not-merklepath"

func (p *Solo) violate(class, sig, detail string) {
	p.w.Violate("C26", class, sig, detail)
}

// judgeQuiet: a block without any solo machine message must leave every solo client untouched.
func (p *Solo) judgeQuiet(kind string, before []soloView) {
	p.lastFault = nil
	after := p.views()
	for i, cl := range p.Cl {
		if before[i].Raw != after[i].Raw {
			p.violate("unrelated-client-changed", "", fmt.Sprintf("client %s changed during %q, which carries no message for it: seq %d->%d ts %d->%d frozen %v->%v",
				cl.ID, kind, before[i].Seq, after[i].Seq, before[i].Ts, after[i].Ts, before[i].Frozen, after[i].Frozen))
		}
	}
}

func needClass(n soloNeed) string {
	if n.Absent {
		return "nonmembership"
	}
	return "membership"
}

func (p *Solo) judge(o *soloOutcome) {
	w := p.w
	after := p.views()
	cl := o.Cli
	b, a := o.Before[cl.Idx], after[cl.Idx]
	ok := o.Res.OK()
	memo := p.lastFault
	p.lastFault = nil
	what := o.Kind
	if o.Fault != "" {
		what += "/" + o.Fault
	}
	ctx := func() string {
		return fmt.Sprintf("%s on %s (before: seq=%d ts=%d div=%q frozen=%v; after: seq=%d ts=%d div=%q frozen=%v; tx ok=%v %s)",
			what, cl.ID, b.Seq, b.Ts, b.Div, b.Frozen, a.Seq, a.Ts, a.Div, a.Frozen, ok, firstLine(o.Res.Log))
	}

	for i, other := range p.Cl {
		if i != cl.Idx && o.Before[i].Raw != after[i].Raw {
			p.violate("unrelated-client-changed", "", fmt.Sprintf("client %s changed by a message for %s: %s", other.ID, cl.ID, ctx()))
		}
	}
	if a.Ts < b.Ts {
		p.violate("timestamp-decreased", "", "consensus timestamp decreased: "+ctx())
	}
	if b.Frozen && !a.Frozen {
		p.violate("frozen-client-unfrozen", "", "a frozen client became active again without recovery: "+ctx())
	}

	outcome := "refused"
	switch {
	case !ok:
		if a.Raw != b.Raw {
			p.violate("refused-with-state-change", "", "a refused message changed the client state: "+ctx())
		}
	case o.Noop:
		outcome = "noop"
		if a.Raw != b.Raw {
			p.violate("sequence-not-consumed", "", "a message answered NOOP (no verification committed) changed the client state: "+ctx())
		}
	default:
		outcome = "accepted"
		if b.Frozen {
			p.violate("frozen-client-accepted", "", "a frozen client accepted a message: "+ctx())
		}
	}

	switch {
	case o.Kind == "mis":
		p.judgeMisbehaviour(o, b, a, outcome, ctx)
	case outcome == "accepted":
		ks := p.currentKeys(b)
		type item struct {
			sig  []byte
			want signedFields
			cls  string
		}
		var items []item
		if o.Hdr != nil {
			data := mustMarshal(&solomachine.HeaderData{NewPubKey: o.Hdr.NewPublicKey, NewDiversifier: o.Hdr.NewDiversifier})
			items = append(items, item{o.Hdr.Signature, signedFields{Seq: b.Seq, Ts: o.Hdr.Timestamp, Div: b.Div, Path: []byte(solomachine.SentinelHeaderPath), Data: data}, "header"})
		}
		for i, pr := range o.Presented {
			items = append(items, item{pr.SigData, signedFields{Seq: b.Seq + uint64(i), Ts: pr.ClaimTs, Div: b.Div, Path: pr.Need.Path, Data: pr.Need.Data}, needClass(pr.Need)})
		}
		if d := a.Seq - b.Seq; d != uint64(len(items)) {
			p.violate("sequence-not-consumed", "", fmt.Sprintf("%d verification(s) were committed but the sequence moved by %d: %s", len(items), int64(d), ctx()))
		}
		floor := b.Ts
		if cl.MaxTs > floor {
			floor = cl.MaxTs
		}
		for i, it := range items {
			cls, why, fam := p.signer.judgeSignature(it.sig, ks, it.want)
			if cls != "" {
				p.violate("accepted-"+cls, "", fmt.Sprintf("verification %d (%s) of %s was accepted although %s", i, it.cls, ctx(), why))
			}
			if it.want.Ts < floor {
				p.violate("accepted-older-timestamp", "", fmt.Sprintf("verification %d of %s carries timestamp %d, older than %d already reached", i, ctx(), it.want.Ts, floor))
			}
			if it.want.Ts > floor {
				floor = it.want.Ts
			}
			if fam != nil {
				if at, used := fam.Used[cl.ID]; used {
					p.violate("signature-accepted-twice", "", fmt.Sprintf("signature #%d over %s, consumed at step %d, was accepted again: %s", fam.Idx, fam.F, at, ctx()))
				}
				fam.Used[cl.ID] = p.step
			}
			if prev, taken := cl.SeqUsed[it.want.Seq]; taken {
				p.violate("two-signatures-for-one-sequence", "", fmt.Sprintf("sequence %d already consumed signature #%d and now consumed another one: %s", it.want.Seq, prev, ctx()))
			}
			if fam != nil {
				cl.SeqUsed[it.want.Seq] = fam.Idx
			} else {
				cl.SeqUsed[it.want.Seq] = -1
			}
			w.Stats.Probe("accepted_" + it.cls)
			if it.want.Ts == b.Ts && i == 0 {
				w.Stats.Probe("accepted_equal_timestamp")
			}
		}
		if floor > cl.MaxTs {
			cl.MaxTs = floor
		}
		if len(o.Presented) == 2 {
			w.Stats.Probe("accepted_two_proof_message")
		}
		if o.Multi {
			w.Stats.Probe("accepted_multisig")
		}
		if o.Hdr != nil {
			if a.Key != b.Key {
				w.Stats.Probe("key_rotated")
			}
			if a.Div != b.Div {
				w.Stats.Probe("diversifier_rotated")
			}
		}
		if memo != nil && o.Fault == "" && memo.Kind == o.Kind && memo.Tag == o.Tag && memo.Cli == cl.Idx {
			w.Stats.Probe(memo.Probe)
		}
	case outcome == "refused" && o.Kind != "mis":
		pfx := "refused_"
		if o.Hdr != nil {
			pfx = "refused_hdr_"
		}
		switch {
		case b.Frozen && o.Fault == "":
			cls := "header"
			if o.Hdr == nil && len(o.Presented) > 0 {
				cls = needClass(o.Presented[0].Need)
			}
			w.Stats.Probe("frozen_refused_honest_" + cls)
		case !b.Frozen && o.Fault != "":
			w.Stats.Probe(pfx + o.Fault)
			if o.Pure {
				w.Stats.Probe("pure_replay_refused")
				w.Stats.Probe("pure_replay_refused_" + o.PureClass)
			}
			p.lastFault = &soloFaultMemo{Kind: o.Kind, Tag: o.Tag, Cli: cl.Idx, Name: o.Fault, Probe: "control_" + pfx[8:] + o.Fault}
		}
	}
	sig := fmt.Sprintf("solo:%s:%s", what, outcome)
	if b.Frozen {
		sig += ":frozen"
	}
	w.Stats.NonTrivial(sig)
	w.MixSig(sig)
}

// evidenceValid decides from the ledger whether the evidence is what the property calls
// misbehaviour: two signatures of the registered key, for the stated sequence and the registered
// diversifier, over the claimed timestamps, paths and data, the two (path, data) pairs differing.
func (p *Solo) evidenceValid(m *solomachine.Misbehaviour, b soloView) (bool, string) {
	if m.Sequence == 0 || m.SignatureOne == nil || m.SignatureTwo == nil {
		return false, "incomplete evidence"
	}
	ks := p.currentKeys(b)
	for i, s := range []*solomachine.SignatureAndData{m.SignatureOne, m.SignatureTwo} {
		if len(s.Data) == 0 || len(s.Path) == 0 || s.Timestamp == 0 || len(s.Signature) == 0 {
			return false, fmt.Sprintf("signature %d has an empty field", i+1)
		}
		want := signedFields{Seq: m.Sequence, Ts: s.Timestamp, Div: b.Div, Path: s.Path, Data: s.Data}
		if cls, why, _ := p.signer.judgeSignature(s.Signature, ks, want); cls != "" {
			return false, fmt.Sprintf("signature %d is not a signature over what the evidence claims (%s): %s", i+1, cls, why)
		}
	}
	if bytes.Equal(m.SignatureOne.Path, m.SignatureTwo.Path) && bytes.Equal(m.SignatureOne.Data, m.SignatureTwo.Data) {
		return false, "both signatures are over the same path and data"
	}
	if bytes.Equal(m.SignatureOne.Signature, m.SignatureTwo.Signature) {
		return false, "one signature presented twice"
	}
	return true, ""
}

func (p *Solo) judgeMisbehaviour(o *soloOutcome, b, a soloView, outcome string, ctx func() string) {
	w := p.w
	valid, why := p.evidenceValid(o.Mis, b)
	w.Stats.Probe("misbehaviour_submitted_" + o.MisFormat)
	if valid && !b.Frozen && o.MisFormat != "enc" {
		w.Stats.Probe("misbehaviour_of_proof_signatures_submitted")
		if o.MisReal {
			w.Stats.Probe("misbehaviour_contradicting_accepted_proof_submitted")
		}
	}
	switch outcome {
	case "accepted":
		if !valid {
			p.violate("misbehaviour-accepted-without-two-valid-signatures", "", fmt.Sprintf("misbehaviour was accepted although %s: %s", why, ctx()))
		}
		if !a.Frozen {
			p.violate("misbehaviour-did-not-freeze", "", "accepted misbehaviour left the client active: "+ctx())
		}
		if a.Seq != b.Seq {
			p.violate("sequence-not-consumed", "", "misbehaviour is not a verification but moved the sequence: "+ctx())
		}
		if valid && a.Frozen {
			w.Stats.Probe("misbehaviour_froze_client")
			if o.MisPast {
				w.Stats.Probe("misbehaviour_past_sequence_froze_client")
			}
		}
	default:
		switch {
		case valid && !b.Frozen:
			sig := ""
			if o.MisFormat != "enc" {
				sig = soloMisPathSig
			}
			p.violate("valid-misbehaviour-refused", sig, fmt.Sprintf("two valid signatures of the registered key over different data for sequence %d (evidence format %q, paths %s / %s) did not freeze the client: %s",
				o.Mis.Sequence, o.MisFormat, sim.PrettyKey(o.Mis.SignatureOne.Path), sim.PrettyKey(o.Mis.SignatureTwo.Path), ctx()))
		case !valid && !b.Frozen:
			w.Stats.Probe("misbehaviour_invalid_refused")
			if o.Fault != "" {
				w.Stats.Probe("misbehaviour_invalid_refused_" + o.Fault)
			}
		case b.Frozen:
			w.Stats.Probe("frozen_refused_misbehaviour")
		}
	}
}
