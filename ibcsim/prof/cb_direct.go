package prof

// Directly driven callbacks middleware (part of the callbacks profile, C40).
//
// The on-chain worlds run the middleware with the one maximum the test application is built with
// (1,000,000) and know the gas remaining at the callback only up to an upper bound. To cover every
// (remaining gas, user limit, chain maximum) triple EXACTLY - including the asynchronous
// write-acknowledgement entry points no transaction of the test application reaches - the "dir"
// operation builds a real v1 (modules/apps/callbacks) or v2 (modules/apps/callbacks/v2) middleware
// instance with a chosen maximum over stub neighbours (underlying application, ICS4 wrapper /
// write-ack wrapper, async packet store), hands it a real sdk.Context over the chain's committed
// state whose gas meter the harness created, and lets the same scripted contract run. The stub
// application consumes a chosen amount of gas, performs its own "application effect" (a bank
// send to a per-call sink) and notes the meter's remaining gas when it returns: that is the
// remaining gas at the callback, known without asking the code under test.
//
//	dir  C=chain P=0 v1 | 1 v2  M=entry point (0 send 1 ack 2 timeout 3 receive 4 async write-ack)
//	     N=chain maximum of this instance  X=gas limit of the context  T=tag
//	     S="<side spec>;<gas the stub application consumes>"

import (
	"fmt"
	"strconv"
	"strings"

	sdkmath "cosmossdk.io/math"

	storetypes "github.com/cosmos/cosmos-sdk/store/v2/types"
	sdk "github.com/cosmos/cosmos-sdk/types"

	ibccallbacks "github.com/cosmos/ibc-go/v11/modules/apps/callbacks"
	callbacktypes "github.com/cosmos/ibc-go/v11/modules/apps/callbacks/types"
	ibccallbacksv2 "github.com/cosmos/ibc-go/v11/modules/apps/callbacks/v2"
	transfertypes "github.com/cosmos/ibc-go/v11/modules/apps/transfer/types"
	clienttypes "github.com/cosmos/ibc-go/v11/modules/core/02-client/types"
	channeltypes "github.com/cosmos/ibc-go/v11/modules/core/04-channel/types"
	channeltypesv2 "github.com/cosmos/ibc-go/v11/modules/core/04-channel/v2/types"
	porttypes "github.com/cosmos/ibc-go/v11/modules/core/05-port/types"
	ibcexported "github.com/cosmos/ibc-go/v11/modules/core/exported"

	"verif/ibcsim/sim"
)

const (
	cbDirSend = 0
	cbDirAck  = 1
	cbDirTmo  = 2
	cbDirRecv = 3
	cbDirWAck = 4
)

var cbDirNames = [5]string{"send", "ack", "timeout", "recv", "async-write-ack"}

type cbDirect struct{ p *CB }

func newCBDirect(p *CB) *cbDirect { return &cbDirect{p: p} }

// ---- generator --------------------------------------------------------------------------------

var cbDirMaxes = []uint64{1, 777, 40_000, 250_000, 1_000_000, 3_000_000}

func (d *cbDirect) gen(w *sim.World) sim.Op {
	max := cbDirMaxes[w.Intn(len(cbDirMaxes))]
	s := cbSide{On: true}
	switch w.Intn(9) {
	case 0:
		s.NoLimit = true
	case 1:
		s.User = ""
	case 2:
		s.User = "0"
	case 3:
		s.User = strconv.FormatUint(max-1, 10)
	case 4:
		s.User = strconv.FormatUint(max, 10)
	case 5:
		s.User = strconv.FormatUint(max+1, 10)
	case 6:
		s.User = strconv.FormatUint(max/2, 10)
	case 7:
		s.User = "1"
	default:
		s.User = "18446744073709551615"
	}
	lc := cbCommitLimit(s, max)
	var rem uint64
	switch w.Pick(10, 6, 14, 12, 22, 12, 10, 14) {
	case 0:
		rem = 0
	case 1:
		rem = 1
	case 2:
		rem = lc / 2
	case 3:
		rem = lc - 1
	case 4:
		rem = lc
	case 5:
		rem = lc + 1
	case 6:
		rem = lc + 5000
	default:
		rem = 10*lc + 100_000
	}
	bound := min(rem, lc)
	var beh [4]byte
	letters := "oepgs"
	if bound >= 60_000 || w.Chance(0.25) {
		letters = "oepgsOEPGSOEPGS"
	}
	for i := range beh {
		beh[i] = letters[w.Intn(len(letters))]
	}
	s.Beh = string(beh[:])
	switch w.Intn(6) {
	case 0:
		s.Burn = 0
	case 1:
		s.Burn = bound / 2
	case 2:
		s.Burn = bound
	case 3:
		s.Burn = bound + 1
	case 4:
		if bound > 0 {
			s.Burn = bound - 1
		}
	default:
		s.Burn = uint64(w.Intn(70_000))
	}
	g0 := []uint64{0, 0, 1000, 50_000}[w.Intn(4)]
	variant := 0
	if !d.p.Opt.NoV2 && w.Chance(0.5) {
		variant = 1
	}
	return sim.Op{K: "dir", C: w.Intn(2), P: variant, M: int64(w.Intn(5)), N: int64(max), X: int64(rem + g0), T: w.Tag(), S: fmt.Sprintf("%s;%d", s, g0)}
}

// ---- environment of one direct call ------------------------------------------------------------

type cbDirEnv struct {
	c        *cbChain
	tag      int64
	g0       uint64
	payload  channeltypesv2.Payload
	appRan   bool
	rem      uint64 // gas remaining on the caller's meter when the stub neighbour returned
	calls    []*cbCall
	appSink  sdk.AccAddress
	contract sdk.AccAddress
}

func (e *cbDirEnv) pay(ctx sdk.Context, to sdk.AccAddress) error {
	return e.c.App.BankKeeper.SendCoins(ctx, e.c.Accounts[cbAccVault].Addr, to, sdk.NewCoins(sdk.NewCoin(cbContractDenom, sdkmath.NewInt(1))))
}

// neighbour is what every stub neighbour (application callback, ICS4 wrapper) does: the
// application's effect, free of gas, then g0 gas on the caller's meter.
func (e *cbDirEnv) neighbour(ctx sdk.Context) {
	if err := e.pay(ctx.WithGasMeter(storetypes.NewInfiniteGasMeter()), e.appSink); err != nil {
		sim.Failf("callbacks direct: application effect: %v", err)
	}
	ctx.GasMeter().ConsumeGas(e.g0, "stub application")
	e.appRan = true
	e.rem = ctx.GasMeter().GasRemaining()
}

func (e *cbDirEnv) run(ctx sdk.Context, typ int, addr string) error {
	rec := &cbCall{Chain: e.c.Idx, Type: typ, Addr: addr}
	e.calls = append(e.calls, rec)
	return cbRunScript(ctx, rec, e.c.Idx, typ, addr, func(ctx sdk.Context, sink sdk.AccAddress) error {
		e.contract = sink
		return e.pay(ctx, sink)
	})
}

// types.ContractKeeper
func (e *cbDirEnv) IBCSendPacketCallback(ctx sdk.Context, _, _ string, _ clienttypes.Height, _ uint64, _ []byte, contractAddress, _, _ string) error {
	return e.run(ctx, cbSend, contractAddress)
}

func (e *cbDirEnv) IBCOnAcknowledgementPacketCallback(ctx sdk.Context, _ channeltypes.Packet, _ []byte, _ sdk.AccAddress, contractAddress, _, _ string) error {
	return e.run(ctx, cbAck, contractAddress)
}

func (e *cbDirEnv) IBCOnTimeoutPacketCallback(ctx sdk.Context, _ channeltypes.Packet, _ sdk.AccAddress, contractAddress, _, _ string) error {
	return e.run(ctx, cbTmo, contractAddress)
}

func (e *cbDirEnv) IBCReceivePacketCallback(ctx sdk.Context, _ ibcexported.PacketI, _ ibcexported.Acknowledgement, contractAddress, _ string) error {
	return e.run(ctx, cbRecv, contractAddress)
}

var _ callbacktypes.ContractKeeper = (*cbDirEnv)(nil)

// v1 neighbours
type cbDirAppV1 struct {
	porttypes.IBCModule // channel handshake callbacks are never reached
	e                   *cbDirEnv
}

func (a cbDirAppV1) OnRecvPacket(ctx sdk.Context, _ string, _ channeltypes.Packet, _ sdk.AccAddress) ibcexported.Acknowledgement {
	a.e.neighbour(ctx)
	return channeltypes.NewResultAcknowledgement([]byte{1})
}

func (a cbDirAppV1) OnAcknowledgementPacket(ctx sdk.Context, _ string, _ channeltypes.Packet, _ []byte, _ sdk.AccAddress) error {
	a.e.neighbour(ctx)
	return nil
}

func (a cbDirAppV1) OnTimeoutPacket(ctx sdk.Context, _ string, _ channeltypes.Packet, _ sdk.AccAddress) error {
	a.e.neighbour(ctx)
	return nil
}

func (a cbDirAppV1) UnmarshalPacketData(_ sdk.Context, _, _ string, bz []byte) (any, string, error) {
	d, err := transfertypes.UnmarshalPacketData(bz, transfertypes.V1, "")
	return d, transfertypes.V1, err
}

type cbDirICS4 struct{ e *cbDirEnv }

func (i cbDirICS4) SendPacket(ctx sdk.Context, _, _ string, _ clienttypes.Height, _ uint64, _ []byte) (uint64, error) {
	i.e.neighbour(ctx)
	return 1, nil
}

func (i cbDirICS4) WriteAcknowledgement(ctx sdk.Context, _ ibcexported.PacketI, _ ibcexported.Acknowledgement) error {
	i.e.neighbour(ctx)
	return nil
}

func (i cbDirICS4) GetAppVersion(sdk.Context, string, string) (string, bool) {
	return transfertypes.V1, true
}

// v2 neighbours
type cbDirAppV2 struct{ e *cbDirEnv }

func (a cbDirAppV2) OnSendPacket(ctx sdk.Context, _, _ string, _ uint64, _ channeltypesv2.Payload, _ sdk.AccAddress) error {
	a.e.neighbour(ctx)
	return nil
}

func (a cbDirAppV2) OnRecvPacket(ctx sdk.Context, _, _ string, _ uint64, _ channeltypesv2.Payload, _ sdk.AccAddress) channeltypesv2.RecvPacketResult {
	a.e.neighbour(ctx)
	return channeltypesv2.RecvPacketResult{Status: channeltypesv2.PacketStatus_Success, Acknowledgement: []byte{1}}
}

func (a cbDirAppV2) OnTimeoutPacket(ctx sdk.Context, _, _ string, _ uint64, _ channeltypesv2.Payload, _ sdk.AccAddress) error {
	a.e.neighbour(ctx)
	return nil
}

func (a cbDirAppV2) OnAcknowledgementPacket(ctx sdk.Context, _, _ string, _ uint64, _ []byte, _ channeltypesv2.Payload, _ sdk.AccAddress) error {
	a.e.neighbour(ctx)
	return nil
}

func (a cbDirAppV2) UnmarshalPacketData(pl channeltypesv2.Payload) (any, error) {
	return transfertypes.UnmarshalPacketData(pl.Value, pl.Version, pl.Encoding)
}

type cbDirWAckV2 struct{ e *cbDirEnv }

func (x cbDirWAckV2) WriteAcknowledgement(ctx sdk.Context, _ string, _ uint64, _ channeltypesv2.Acknowledgement) error {
	x.e.neighbour(ctx)
	return nil
}

type cbDirChanV2 struct{ e *cbDirEnv }

func (x cbDirChanV2) GetAsyncPacket(_ sdk.Context, clientID string, seq uint64) (channeltypesv2.Packet, bool) {
	return channeltypesv2.NewPacket(seq, "07-tendermint-0", clientID, 1, x.e.payload), true
}

// ---- executor + oracle ----------------------------------------------------------------------

type cbDirResult struct {
	err      error
	panicked any
	ackOK    *bool
}

func (d *cbDirect) exec(op sim.Op) {
	w := d.p.w
	parts := strings.Split(op.S, ";")
	if len(parts) != 2 || op.C < 0 || op.C > 1 || op.P < 0 || op.P > 1 || op.M < 0 || op.M > 4 || op.N <= 0 || op.X < 0 || op.T <= 0 {
		w.Noop()
		return
	}
	side, ok := parseCBSide(parts[0])
	g0, err := strconv.ParseUint(parts[1], 10, 64)
	if !ok || !side.On || err != nil {
		w.Noop()
		return
	}
	c := d.p.C[op.C]
	max, r0, kind := uint64(op.N), uint64(op.X), int(op.M)
	typ := kind
	if kind == cbDirWAck {
		typ = cbRecv
	}
	env := &cbDirEnv{c: c, tag: op.T, g0: g0, appSink: cbSinkAddr(c.Idx, op.T, 9)}
	spec := cbSpec{}
	if typ == cbRecv {
		spec.Dst = side
	} else {
		spec.Src = side
	}
	user := c.Accounts[cbAccUserFrom].String()
	data := transfertypes.NewFungibleTokenPacketData("ufoo", "1", user, user, spec.Memo(op.T)).GetBytes()
	env.payload = channeltypesv2.NewPayload(transfertypes.PortID, transfertypes.PortID, transfertypes.V1, transfertypes.EncodingJSON, data)
	packet := channeltypes.NewPacket(data, 1, transfertypes.PortID, "channel-0", transfertypes.PortID, "channel-1", clienttypes.NewHeight(1, 1000), 0)
	relayer := c.Accounts[cbAccRelayer].Addr

	ctx := c.QueryCtx().WithGasMeter(storetypes.NewGasMeter(r0)).WithEventManager(sdk.NewEventManager())
	res := cbDirResult{}
	func() {
		defer func() { res.panicked = recover() }()
		if op.P == 0 {
			mw := ibccallbacks.NewIBCMiddleware(env, max)
			mw.SetICS4Wrapper(cbDirICS4{env})
			mw.SetUnderlyingApplication(cbDirAppV1{e: env})
			switch kind {
			case cbDirSend:
				_, res.err = mw.SendPacket(ctx, transfertypes.PortID, "channel-0", clienttypes.NewHeight(1, 1000), 0, data)
			case cbDirAck:
				res.err = mw.OnAcknowledgementPacket(ctx, transfertypes.V1, packet, []byte{1}, relayer)
			case cbDirTmo:
				res.err = mw.OnTimeoutPacket(ctx, transfertypes.V1, packet, relayer)
			case cbDirRecv:
				ack := mw.OnRecvPacket(ctx, transfertypes.V1, packet, relayer)
				okk := ack != nil && ack.Success()
				res.ackOK = &okk
			default:
				res.err = mw.WriteAcknowledgement(ctx, packet, channeltypes.NewResultAcknowledgement([]byte{1}))
			}
			return
		}
		mw := ibccallbacksv2.NewIBCMiddleware(cbDirAppV2{env}, cbDirWAckV2{env}, env, cbDirChanV2{env}, max)
		const srcCl, dstCl = "07-tendermint-0", "07-tendermint-1"
		switch kind {
		case cbDirSend:
			res.err = mw.OnSendPacket(ctx, srcCl, dstCl, 1, env.payload, relayer)
		case cbDirAck:
			res.err = mw.OnAcknowledgementPacket(ctx, srcCl, dstCl, 1, []byte{1}, env.payload, relayer)
		case cbDirTmo:
			res.err = mw.OnTimeoutPacket(ctx, srcCl, dstCl, 1, env.payload, relayer)
		case cbDirRecv:
			rr := mw.OnRecvPacket(ctx, srcCl, dstCl, 1, env.payload, relayer)
			okk := rr.Status == channeltypesv2.PacketStatus_Success
			res.ackOK = &okk
		default:
			res.err = mw.WriteAcknowledgement(ctx, dstCl, 1, channeltypesv2.NewAcknowledgement([]byte{1}))
		}
	}()
	d.judge(op, env, ctx, side, max, r0, kind, typ, res)
}

func (d *cbDirect) judge(op sim.Op, env *cbDirEnv, ctx sdk.Context, side cbSide, max, r0 uint64, kind, typ int, res cbDirResult) {
	w := d.p.w
	proto := cbProto(op.P == 1)
	name := cbDirNames[kind]
	what := fmt.Sprintf("directly driven %s middleware (chain maximum %d), %s entry point, memo gas_limit %q (absent=%v), context gas limit %d, stub application gas %d", proto, max, name, side.User, side.NoLimit, r0, env.g0)
	if !env.appRan {
		w.Stats.Probe("cbd_out_of_gas_before_callback")
		return
	}
	if len(env.calls) == 0 {
		w.Stats.Probe("cbd_callback_not_invoked")
		return
	}
	if len(env.calls) > 1 {
		sim.Failf("callbacks direct: %d contract calls in one entry point", len(env.calls))
	}
	c := env.calls[0]
	if c.Type != typ || c.Foreign {
		sim.Failf("callbacks direct: unexpected contract call %+v for %s", *c, name)
	}
	lc := cbCommitLimit(side, max)
	rem := env.rem
	bound := min(rem, lc)
	w.Stats.Probe("cbd_" + proto + "_call")
	if c.Used > bound {
		w.Violate(cbProp, "callback-gas-above-bound-direct", "", fmt.Sprintf("%s: the contract used %d gas (meter limit %d); remaining gas at the callback was %d and the committed limit is min(user, max) = %d, so the bound is %d", what, c.Used, c.Limit, rem, lc, bound))
		return
	}
	rel := "at"
	switch {
	case rem < lc:
		rel = "below"
	case rem > lc:
		rel = "above"
	}
	w.Stats.Probe("cbd_remaining_" + rel + "_committed_limit")
	w.Stats.NonTrivial(fmt.Sprintf("cbd:%s:%s:%s:%s", proto, name, c.Outcome, rel))
	if c.Used == bound && bound > 0 {
		w.Stats.Probe("cbd_contract_used_exactly_the_bound")
	}
	if max != cbChainMax {
		w.Stats.Probe("cbd_other_chain_maximum")
	}
	isOOGPanic := false
	if res.panicked != nil {
		_, isOOGPanic = res.panicked.(storetypes.ErrorOutOfGas)
	}
	bal := func(a sdk.AccAddress) int64 {
		if a == nil {
			return 0
		}
		return env.c.App.BankKeeper.GetBalance(ctx.WithGasMeter(storetypes.NewInfiniteGasMeter()), a, cbContractDenom).Amount.Int64()
	}
	starved := c.Outcome == "oog" && rem < lc
	failed := c.Outcome != "ok"
	switch kind {
	case cbDirAck, cbDirTmo, cbDirRecv:
		switch {
		case starved:
			if !isOOGPanic {
				w.Violate(cbProp, "committed-despite-relayer-starved-oog", "", fmt.Sprintf("%s: the contract ran out of gas with %d remaining < committed limit %d, which must abort the transaction with an out-of-gas panic; instead the entry point returned (err=%v, panic=%v)", what, rem, lc, res.err, res.panicked))
				return
			}
			w.Stats.Probe("cbd_relayer_starved_oog_panics")
		case failed:
			if res.panicked != nil || res.err != nil {
				w.Violate(cbProp, "lifecycle-broken", "", fmt.Sprintf("%s: the contract failed (%s, meter limit %d, remaining %d, committed limit %d) and the entry point did not return normally (err=%v, panic=%v)", what, c.Outcome, c.Limit, rem, lc, res.err, res.panicked))
				return
			}
			if bal(env.contract) != 0 {
				w.Violate(cbProp, "failed-callback-state-persisted", "", fmt.Sprintf("%s: the contract failed (%s) after paying its sink, and the payment is visible in the caller's context", what, c.Outcome))
				return
			}
			if kind == cbDirRecv {
				if res.ackOK == nil || *res.ackOK {
					w.Violate(cbProp, "dest-callback-failure-not-error-ack", "", fmt.Sprintf("%s: the contract failed (%s) but the receive result is a success", what, c.Outcome))
					return
				}
				w.Stats.Probe("cbd_dest_failure_error_ack")
			} else {
				if bal(env.appSink) != 1 {
					w.Violate(cbProp, "application-effects-differ", "", fmt.Sprintf("%s: the contract failed (%s) and the application's own effect is gone from the caller's context", what, c.Outcome))
					return
				}
				w.Stats.Probe("cbd_source_failure_lifecycle_continues")
			}
			if c.Wrote {
				w.Stats.Probe("cbd_failed_write_discarded")
			}
		default:
			if res.panicked == nil && res.err == nil && c.Wrote && bal(env.contract) == 1 {
				w.Stats.Probe("cbd_ok_write_persisted")
			}
		}
	case cbDirWAck:
		w.Stats.Probe("cbd_async_write_ack_callback")
	default:
		w.Stats.Probe("cbd_send_callback")
	}
}
