package prof

import (
	"bytes"
	"fmt"
	"strings"
	"time"

	sdk "github.com/cosmos/cosmos-sdk/types"

	clienttypes "github.com/cosmos/ibc-go/v11/modules/core/02-client/types"
	channeltypes "github.com/cosmos/ibc-go/v11/modules/core/04-channel/types"
	channeltypesv2 "github.com/cosmos/ibc-go/v11/modules/core/04-channel/v2/types"
	host "github.com/cosmos/ibc-go/v11/modules/core/24-host"
	ibcexported "github.com/cosmos/ibc-go/v11/modules/core/exported"

	"verif/ibcsim/sim"
)

const ibcStore = "ibc"

// ---- send-side oracles (C08) -----------------------------------------------------------------

// sendExpect is the model's verdict for a send about to execute: +1 accept, -1 refuse, 0 unknown.
type sendExpect struct {
	verdict int
	why     string
}

func (p *Core) sharedSeqKey(ps *PktState) string {
	// v1 sends on a channel and v2 sends on its alias draw from one counter
	if ps.V2 {
		return fmt.Sprintf("%d/%s", ps.Src.Idx, ps.P2.SourceClient)
	}
	return fmt.Sprintf("%d/%s", ps.Src.Idx, ps.P1.SourceChannel)
}

// guardSendV1 evaluates the specification's send-time guards on the real pre-state and
// remembers the verdict; onSent/onSendRefused compare it with what the chain did.
func (p *Core) guardSendV1(ps *PktState, r *Route, d int, th clienttypes.Height, ts uint64) {
	if !p.w.Armed("C08") && !p.w.Armed("C21") && !p.w.Armed("C14") {
		return
	}
	src := r.Chain[d]
	t := p.chainTime(src.Idx)
	ch := src.ChannelEnd(r.Port[d], r.ID[d])
	e := sendExpect{verdict: 1}
	switch {
	case ch.State != channeltypes.OPEN:
		e = sendExpect{-1, "channel not OPEN"}
	case th.IsZero() && ts == 0:
		e = sendExpect{-1, "no timeout"}
	default:
		st := src.ClientStatusAt(r.Client[d], t)
		if st != ibcexported.Active {
			e = sendExpect{-1, "client " + st.String()}
			break
		}
		lh, lts, err := src.ClientLatestAt(r.Client[d], t)
		if lh.IsZero() {
			e = sendExpect{-1, "zero client height"}
			break
		}
		if !th.IsZero() && lh.GTE(th) {
			e = sendExpect{-1, "timeout height passed on client"}
			break
		}
		if err != nil {
			e = sendExpect{0, "no timestamp"}
			break
		}
		if ts != 0 && lts >= ts {
			e = sendExpect{-1, "timeout timestamp passed on client"}
		}
	}
	ps.expect = e
}

// guardSendV2 is the same for IBC v2 (timeouts in seconds, 24h window).
func (p *Core) guardSendV2(ps *PktState, r *Route, d int, ts uint64) {
	src := r.Chain[d]
	t := p.chainTime(src.Idx)
	if !t.After(src.LastTime) {
		t = src.LastTime.Add(time.Nanosecond)
	}
	e := sendExpect{verdict: 1}
	tmo := time.Unix(int64(ts), 0)
	const maxDelta = 24 * time.Hour // ICS-04 v2: MAX_TIMEOUT_DELTA
	switch {
	case ts == 0:
		e = sendExpect{-1, "zero timeout"}
	case !tmo.After(t):
		e = sendExpect{-1, "timeout not after block time"}
	case tmo.After(t.Add(maxDelta)):
		e = sendExpect{-1, "timeout beyond max delta"}
	default:
		if r.Kind == "v2a" {
			// alias: underlying channel must exist; the property does not gate alias sends on channel state
		}
		st := src.ClientStatusAt(r.Client[d], t)
		if st != ibcexported.Active {
			e = sendExpect{-1, "client " + st.String()}
			break
		}
		lh, lts, err := src.ClientLatestAt(r.Client[d], t)
		if lh.IsZero() {
			e = sendExpect{-1, "zero client height"}
			break
		}
		if err != nil {
			e = sendExpect{0, "no timestamp"}
			break
		}
		if uint64(time.Unix(0, int64(lts)).Unix()) >= ts {
			e = sendExpect{-1, "timeout passed on client"}
		}
	}
	ps.expect = e
}

func (p *Core) onSent(ps *PktState, r *sim.TxResult) {
	w := p.w
	key := p.sharedSeqKey(ps)
	want := p.lastSend[key] + 1
	if ps.Seq() != want {
		w.Violate("C08", "non-consecutive-sequence", "", fmt.Sprintf("%s: send returned sequence %d, expected %d (counter shared by v1 and alias sends on %s)", ps.Pkt, ps.Seq(), want, key))
	}
	p.lastSend[key] = ps.Seq()
	p.sendsInBlock++
	if ps.expect.verdict < 0 {
		w.Violate("C08", "send-accepted-against-guard", "", fmt.Sprintf("%s: send accepted although the model says refuse: %s", ps.Pkt, ps.expect.why))
	}
	if !ps.V2 && p.closed[chanKey(ps.Src.Idx, ps.P1.SourcePort, ps.P1.SourceChannel)] {
		w.Violate("C14", "send-on-closed-ordered-channel", "", fmt.Sprintf("%s: send accepted after the ordered channel was closed by a timeout", ps.Pkt))
	}
	w.Stats.Probe("send_ok_" + p.Routes[ps.Route].Kind)
	w.MixSig("s" + p.Routes[ps.Route].Kind)
}

func (p *Core) onSendRefused(ps *PktState, why string) {
	w := p.w
	if ps.expect.verdict > 0 {
		w.Violate("C08", "send-refused-against-model", "", fmt.Sprintf("send on route %s dir %d refused (%s) although every guard of the model holds", p.Routes[ps.Route].Kind, ps.Dir, firstLine(why)))
	}
	if r := p.Routes[ps.Route]; !r.V2 && p.closed[chanKey(r.Chain[ps.Dir].Idx, r.Port[ps.Dir], r.ID[ps.Dir])] {
		w.Stats.NonTrivial("closed-ordered:send:refused")
		w.Stats.Probe("send_refused_on_channel_closed_by_timeout")
	}
	w.Stats.Probe("send_refused")
	w.Stats.NonTrivial("send-refused:" + p.Routes[ps.Route].Kind + ":" + ps.expect.why)
}

func firstLine(s string) string {
	if i := strings.IndexByte(s, '\n'); i >= 0 {
		s = s[:i]
	}
	if len(s) > 200 {
		s = s[:200]
	}
	return s
}

// ---- per-block oracles -----------------------------------------------------------------------

func proofHeightOf(msg sdk.Msg) clienttypes.Height {
	switch m := msg.(type) {
	case *channeltypes.MsgRecvPacket:
		return m.ProofHeight
	case *channeltypes.MsgAcknowledgement:
		return m.ProofHeight
	case *channeltypes.MsgTimeout:
		return m.ProofHeight
	case *channeltypes.MsgTimeoutOnClose:
		return m.ProofHeight
	case *channeltypesv2.MsgRecvPacket:
		return m.ProofHeight
	case *channeltypesv2.MsgAcknowledgement:
		return m.ProofHeight
	case *channeltypesv2.MsgTimeout:
		return m.ProofHeight
	}
	return clienttypes.Height{}
}

func lastMsg(r *sim.TxResult) sdk.Msg { return r.Spec.Msgs[len(r.Spec.Msgs)-1] }

// timeoutReached evaluates ICS-04: has (height h, time t) of the destination reached the
// packet's timeout?
func timeoutReached(ps *PktState, h int64, t time.Time) bool {
	if ps.V2 {
		return uint64(t.Unix()) >= ps.P2.TimeoutTimestamp
	}
	th, ts := ps.P1.TimeoutHeight, ps.P1.TimeoutTimestamp
	if !th.IsZero() && uint64(h) >= th.RevisionHeight {
		return true
	}
	if ts != 0 && uint64(t.UnixNano()) >= ts {
		return true
	}
	return false
}

func (p *Core) oracleBlock(ci int, res []*sim.TxResult, taps []Tap, diff []sim.Change, pre map[int64]PktState) {
	w := p.w
	c := p.C[ci]
	blockTime := c.LastTime

	// ---- application-visible counts (C01, C02, C03) ----
	for _, t := range taps {
		ps := p.Pkts[t.Tag]
		if ps == nil || t.PIdx != 0 {
			continue
		}
		r := p.Routes[ps.Route]
		switch t.Kind {
		case "recv":
			if ps.RecvCb > 1 {
				w.Violate("C01", "double-delivery", "", fmt.Sprintf("%s: destination application received the packet %d times", ps.Pkt, ps.RecvCb))
			}
			if ps.RecvCb > 1 {
				w.Violate("C30", "double-delivery", "", "")
			}
			if r.Ordered {
				k := fmt.Sprintf("r%d/%s", ci, t.ID)
				if t.Seq != p.lastRecv[k]+1 {
					w.Violate("C02", "ordered-receive-out-of-order", "", fmt.Sprintf("%s: ordered channel %s delivered sequence %d after %d", ps.Pkt, t.ID, t.Seq, p.lastRecv[k]))
				}
				p.lastRecv[k] = t.Seq
			}
			if ps.Done == "timedout" && ps.DoneHeight > 0 && (ps.Src != ps.Dst || true) {
				pr, had := pre[ps.Tag]
				if had && pr.Done == "timedout" {
					w.Violate("C04", "received-after-timeout", "", fmt.Sprintf("%s: executed on the destination after the source had already timed it out", ps.Pkt))
				}
			}
		case "ack":
			if r.Ordered {
				k := fmt.Sprintf("a%d/%s", ci, t.ID)
				if t.Seq != p.lastAck[k]+1 {
					w.Violate("C02", "ordered-ack-out-of-order", "", fmt.Sprintf("%s: ordered channel %s processed acknowledgement %d after %d", ps.Pkt, t.ID, t.Seq, p.lastAck[k]))
				}
				p.lastAck[k] = t.Seq
			}
		}
		if t.Kind == "ack" || t.Kind == "tmo" {
			if ps.AckCb+ps.TmoCb > 1 {
				w.Violate("C03", "second-terminal-callback", "", fmt.Sprintf("%s: sending application observed %d acknowledgements and %d timeouts", ps.Pkt, ps.AckCb, ps.TmoCb))
			}
		}
		// C06: the ack argument is what the destination application produced
		if t.Kind == "ack" {
			p.checkAckArg(ps, t)
		}
	}

	if len(res) == 1 && strings.HasPrefix(res[0].Spec.Label, "mut-") {
		p.oracleMut(ci, res[0], taps, diff, pre[res[0].Spec.Tag])
	}

	// ---- per transaction (C01 no-op, C03 no-op, C04, C05, C06, C09, C10, C14) ----
	allRedundant := len(res) > 0
	for _, r := range res {
		ps := p.Pkts[r.Spec.Tag]
		lbl := r.Spec.Label
		if ps == nil || (lbl != "recv" && lbl != "ack" && lbl != "tmo" && lbl != "toc") {
			allRedundant = false
			continue
		}
		pr := pre[ps.Tag]
		redundant := false
		switch lbl {
		case "recv":
			redundant = pr.RecvHeight > 0
		default:
			redundant = pr.Done != ""
		}
		if !redundant || len(r.Spec.Msgs) != 1 {
			allRedundant = false
		}
		out := txOutcome(r, ps.V2)
		if redundant {
			w.Stats.Probe("redundant_" + lbl + "_" + out)
			w.Stats.NonTrivial(fmt.Sprintf("redundant:%s:%s:%s:%s", p.Routes[ps.Route].Kind, lbl, out, pr.Done))
			if out == "success" {
				switch lbl {
				case "recv":
					w.Violate("C01", "redundant-receive-succeeded", "", fmt.Sprintf("%s: a receive of an already received packet returned SUCCESS", ps.Pkt))
				default:
					w.Violate("C03", "redundant-terminal-succeeded", "", fmt.Sprintf("%s: %s of a packet already %s returned SUCCESS", ps.Pkt, lbl, pr.Done))
				}
			}
			continue
		}
		p.checkDelay(ci, ps, r, lbl, out)
		if out != "success" {
			p.noteRefused(ci, ps, lbl, out, pr)
			p.checkFailedRecvKeepsNothing(ps, r, lbl, out, res, diff)
			continue
		}
		if !ps.V2 && lbl != "recv" && pr.closedSrc {
			w.Stats.NonTrivial("closed-ordered:" + lbl + ":success")
		}
		ph := proofHeightOf(lastMsg(r))
		switch lbl {
		case "recv":
			p.checkRecv(ci, ps, r, pr, ph, blockTime, res, diff)
		case "ack":
			p.checkAck(ci, ps, r, pr, ph)
		case "tmo", "toc":
			p.checkTimeout(ci, ps, r, pr, ph, blockTime, lbl)
		}
	}
	if allRedundant && !p.dirtyNow && len(diff) != 0 {
		prop := "C03"
		if res[0].Spec.Label == "recv" {
			prop = "C01"
		}
		w.Violate(prop, "redundant-relay-changed-state", "", fmt.Sprintf("block of %d redundant relay transactions on %s changed state: %s", len(res), c.ID, sim.ChangesString(diff)))
	}
	if allRedundant {
		w.Stats.Probe("block_of_only_redundant_relays")
	}

	// ---- C08: exactly one commitment per successful send ----
	if w.Armed("C08") {
		newCommits := 0
		for _, ch := range diff {
			if ch.Store == ibcStore && ch.Old == nil && ch.New != nil && isCommitmentKey(ch.Key) {
				newCommits++
			}
		}
		if newCommits != p.sendsInBlock {
			w.Violate("C08", "commitments-vs-sends", "", fmt.Sprintf("block %d of %s: %d successful sends but %d new packet commitments", c.Height, c.ID, p.sendsInBlock, newCommits))
		}
	}
	p.sendsInBlock = 0

	// ---- C03 / C11: store histories for packets touching this chain ----
	if w.AnyArmed("C03", "C11") {
		for _, tag := range p.Order {
			ps := p.Pkts[tag]
			if ps == nil {
				continue
			}
			if ps.Src.Idx == ci && ps.Done != "" && w.Armed("C03") {
				if v := c.State(ibcStore, ps.CommitmentKey()); v != nil {
					w.Violate("C03", "commitment-survives-terminal", "", fmt.Sprintf("%s: packet commitment still stored after the packet was %s", ps.Pkt, ps.Done))
				}
			}
			if ps.Dst.Idx == ci && w.Armed("C11") {
				v := c.State(ibcStore, ps.AckKey())
				if ps.ackSeen != nil && !bytes.Equal(v, ps.ackSeen) {
					w.Violate("C11", "ack-changed", "", fmt.Sprintf("%s: stored acknowledgement commitment changed from %x to %x", ps.Pkt, ps.ackSeen, v))
				}
				if v != nil && ps.ackSeen == nil {
					ps.ackSeen = v
					if ps.RecvHeight == 0 && ps.V2 {
						w.Violate("C11", "ack-without-receive", "", fmt.Sprintf("%s: acknowledgement stored for a packet that was never received", ps.Pkt))
					}
				}
				if ps.V2 {
					async := c.State(ibcStore, asyncKeyV2(ps.P2.DestinationClient, ps.P2.Sequence)) != nil
					if ps.AsyncOpen && !async {
						w.Violate("C11", "async-packet-lost", "", fmt.Sprintf("%s: asynchronously received packet is no longer retrievable before its acknowledgement was written", ps.Pkt))
					}
					if !ps.AsyncOpen && async {
						w.Violate("C11", "async-packet-not-removed", "", fmt.Sprintf("%s: async packet record still stored although the acknowledgement was written (or the receive was synchronous)", ps.Pkt))
					}
				}
			}
		}
	}
}

func asyncKeyV2(clientID string, seq uint64) []byte {
	return channeltypesv2.AsyncPacketKey(clientID, seq)
}

func isCommitmentKey(k string) bool {
	if strings.HasPrefix(k, "commitments/") {
		return true
	}
	// v2: <id> 0x01 <8 bytes>
	n := len(k)
	return n > 9 && k[n-9] == 0x01 && !strings.Contains(k[:n-9], "/")
}

// noteRefused records which interesting refusals this world produced (reach measures).
func (p *Core) noteRefused(ci int, ps *PktState, lbl, out string, pr PktState) {
	w := p.w
	kind := p.Routes[ps.Route].Kind
	if lbl == "recv" && ps.Ordered {
		k := fmt.Sprintf("r%d/%s", ci, ps.DstID())
		if ps.Seq() > p.lastRecv[k]+1 {
			w.Stats.NonTrivial(fmt.Sprintf("ooo:%s:%s:gap%d", kind, out, min64(3, int64(ps.Seq()-p.lastRecv[k]-1))))
			w.Stats.Probe("ordered_out_of_order_receive_refused")
		}
	}
	if lbl == "recv" && out == "failed" && pr.RecvHeight == 0 {
		if exp, _ := expectedRecvOutcome(ps); exp == "txfail" {
			w.Stats.NonTrivial(fmt.Sprintf("txfail:%s:%s", kind, strings.Join(ps.Behav, ",")))
			w.Stats.Probe("receive_tx_failed_as_scripted")
		}
	}
	if lbl == "ack" && ps.Ordered {
		k := fmt.Sprintf("a%d/%s", ci, ps.SrcID())
		if ps.Seq() > p.lastAck[k]+1 {
			w.Stats.NonTrivial(fmt.Sprintf("ooo-ack:%s:%s", kind, out))
			w.Stats.Probe("ordered_out_of_order_ack_refused")
		}
	}
	if (lbl == "tmo" || lbl == "toc") && pr.RecvHeight == 0 && pr.Done == "" {
		w.Stats.NonTrivial("early-refused:" + kind + ":" + lbl)
		w.Stats.Probe("timeout_refused")
	}
	if !ps.V2 {
		if (lbl == "recv" && pr.closedDst) || (lbl != "recv" && pr.closedSrc) {
			w.Stats.NonTrivial("closed-ordered:" + lbl + ":" + out)
			w.Stats.Probe("packet_message_refused_on_channel_closed_by_timeout")
		}
	}
}

func min64(a, b int64) int64 {
	if a < b {
		return a
	}
	return b
}

// checkFailedRecvKeepsNothing: a packet transaction that failed, or answered NOOP, must not have
// reached the application (taps of failed txs are dropped by construction) nor changed state.
func (p *Core) checkFailedRecvKeepsNothing(ps *PktState, r *sim.TxResult, lbl, out string, res []*sim.TxResult, diff []sim.Change) {
	if len(res) != 1 || len(r.Spec.Msgs) != 1 || p.dirtyNow {
		return
	}
	if len(diff) != 0 {
		prop := map[string]string{"recv": "C05", "ack": "C06", "tmo": "C04", "toc": "C04"}[lbl]
		p.w.Violate(prop, "refused-message-changed-state", "", fmt.Sprintf("%s: %s transaction ended %s but changed state: %s", ps.Pkt, lbl, out, sim.ChangesString(diff)))
	}
	p.w.Stats.Probe("refused_" + lbl + "_empty_diff_checked")
}

// checkRecv runs the receive-side oracles for a successful, non-redundant receive.
func (p *Core) checkRecv(ci int, ps *PktState, r *sim.TxResult, pr PktState, ph clienttypes.Height, blockTime time.Time, res []*sim.TxResult, diff []sim.Change) {
	w := p.w
	c := p.C[ci]
	rt := p.Routes[ps.Route]
	// C04: received strictly before the timeout, and never after a timeout
	if timeoutReached(ps, r.Height, blockTime) {
		w.Violate("C04", "receive-at-or-after-timeout", "", fmt.Sprintf("%s: received in block %d at %s although its timeout (%s / %d) had been reached", ps.Pkt, r.Height, blockTime.Format(time.RFC3339Nano), ps.P1.TimeoutHeight, tsOf(ps)))
		w.Violate("C05", "receive-at-or-after-timeout", "", fmt.Sprintf("%s: received in block %d although expired", ps.Pkt, r.Height))
	}
	if pr.Done == "timedout" {
		w.Violate("C04", "received-and-timed-out", "", fmt.Sprintf("%s: received on the destination after it was timed out on the source (block %d)", ps.Pkt, pr.DoneHeight))
	}
	// C05: ground truth on the counterparty at the proof height
	if w.Armed("C05") && !ps.Local {
		v := int64(ph.RevisionHeight) - 1
		got := ps.Src.StateAt(ibcStore, ps.CommitmentKey(), v)
		if !bytes.Equal(got, ps.Commitment()) {
			w.Violate("C05", "receive-without-commitment", "", fmt.Sprintf("%s: received with proof height %s, but the source state at version %d holds commitment %x, not %x", ps.Pkt, ph, v, got, ps.Commitment()))
		}
	}
	if w.Armed("C05") && !ps.V2 {
		if pr.closedDst {
			w.Violate("C05", "receive-on-closed-channel", "", fmt.Sprintf("%s: received on a channel end that is CLOSED", ps.Pkt))
		}
	}
	if w.Armed("C05") && !ps.V2 {
		// the v1 channel end must be OPEN when the receive executes: judged on the state before the
		// block, unless an earlier transaction of this very block confirmed the channel
		bz := c.StateAt(ibcStore, host.ChannelKey(ps.P1.DestinationPort, ps.P1.DestinationChannel), r.Height-1)
		var chn channeltypes.Channel
		if len(bz) > 0 && c.App.AppCodec().Unmarshal(bz, &chn) == nil && chn.State != channeltypes.OPEN && chn.State != channeltypes.CLOSED {
			opened := false
			for _, q := range res {
				if q == r {
					break
				}
				if q.OK() && q.Spec.Label == "conf" {
					opened = true
				}
			}
			if !opened {
				w.Violate("C05", "receive-on-channel-not-open", "", fmt.Sprintf("%s: received in block %d although the destination channel end %s/%s was %s", ps.Pkt, r.Height, ps.P1.DestinationPort, ps.P1.DestinationChannel, chn.State))
			}
		}
	}
	if !ps.V2 && pr.closedDst {
		w.Violate("C14", "receive-on-closed-ordered-channel", "", fmt.Sprintf("%s: received on an ordered channel end closed by a timeout", ps.Pkt))
	}
	if ps.X == nil && ps.RecvCb != 1 {
		w.Violate("C01", "receive-without-callback", "", fmt.Sprintf("%s: receive returned SUCCESS but the application callback ran %d times", ps.Pkt, ps.RecvCb))
	}

	// C09 / C10: what persisted
	if ps.X == nil && w.AnyArmed("C09", "C10") {
		p.checkRecvEffects(ci, ps, r, res, diff)
	}
	out := "sync"
	if ps.AsyncOpen {
		out = "async"
	}
	w.MixSig("r" + rt.Kind + out)
	_ = c
}

func tsOf(ps *PktState) uint64 {
	if ps.V2 {
		return ps.P2.TimeoutTimestamp
	}
	return ps.P1.TimeoutTimestamp
}

// expectedRecvOutcome is the specification-level outcome of executing the payload scripts.
//
//	"ok" (all succeed), "err" (error ack), "async", "txfail" (whole transaction must fail)
func expectedRecvOutcome(ps *PktState) (string, [][]byte) {
	n := len(ps.Behav)
	var acks [][]byte
	for i, bs := range ps.Behav {
		b := parseBehav(bs)
		switch b.kind {
		case "ok", "blob":
			if ps.V2 {
				acks = append(acks, []byte(fmt.Sprintf("ack-%d.%d", ps.Tag, i)))
			}
		case "async":
			if n > 1 {
				return "txfail", nil
			}
			return "async", nil
		case "panic", "sentinel":
			return "txfail", nil
		default:
			return "err", nil
		}
	}
	return "ok", acks
}

func (p *Core) checkRecvEffects(ci int, ps *PktState, r *sim.TxResult, res []*sim.TxResult, diff []sim.Change) {
	w := p.w
	c := p.C[ci]
	exp, acks := expectedRecvOutcome(ps)
	prop := "C09"
	if ps.V2 && len(ps.Behav) > 1 {
		prop = "C10"
	}
	if !w.Armed(prop) {
		if ps.V2 && w.Armed("C10") {
			prop = "C10"
		} else if w.Armed("C09") {
			prop = "C09"
		}
	}
	if exp == "txfail" {
		w.Violate(prop, "receive-succeeded-must-fail", "", fmt.Sprintf("%s: receive succeeded although the payload scripts %v demand that the whole transaction fails", ps.Pkt, ps.Behav))
		return
	}
	// markers that persisted for this packet
	got := map[string]bool{}
	pref := fmt.Sprintf("m/%d/", ps.Tag)
	for k := range p.snap[ci].KV[memMock] {
		if strings.HasPrefix(k, pref) {
			got[k] = true
		}
	}
	want := map[string]bool{}
	if exp == "ok" || exp == "async" {
		for i, bs := range ps.Behav {
			for j := 0; j < parseBehav(bs).writes; j++ {
				want[fmt.Sprintf("m/%d/%d/%d", ps.Tag, i, j)] = true
			}
		}
	}
	for k := range want {
		if !got[k] {
			w.Violate(prop, "app-state-lost", "", fmt.Sprintf("%s: outcome %s but application write %s did not persist", ps.Pkt, exp, k))
		}
	}
	for k := range got {
		if !want[k] {
			w.Violate(prop, "app-state-leaked", "", fmt.Sprintf("%s: outcome %s but application write %s persisted", ps.Pkt, exp, k))
		}
	}
	// acknowledgement content
	switch exp {
	case "async":
		if ps.RecvWroteAck {
			w.Violate(prop, "ack-written-for-async", "", fmt.Sprintf("%s: asynchronous receive wrote an acknowledgement", ps.Pkt))
		}
	case "err":
		if !ps.HasAck {
			w.Violate(prop, "error-ack-missing", "", fmt.Sprintf("%s: failed receive wrote no acknowledgement", ps.Pkt))
		} else if ps.V2 {
			if len(ps.Ack2.AppAcknowledgements) != 1 || !bytes.Equal(ps.Ack2.AppAcknowledgements[0], channeltypesv2.ErrorAcknowledgement[:]) {
				w.Violate(prop, "error-ack-shape", "", fmt.Sprintf("%s: failed receive wrote %d app acknowledgements instead of the single universal error acknowledgement", ps.Pkt, len(ps.Ack2.AppAcknowledgements)))
			}
		}
	case "ok":
		if !ps.HasAck {
			w.Violate(prop, "ack-missing", "", fmt.Sprintf("%s: successful receive wrote no acknowledgement", ps.Pkt))
		} else if ps.V2 {
			if len(ps.Ack2.AppAcknowledgements) != len(acks) {
				w.Violate(prop, "ack-shape", "", fmt.Sprintf("%s: %d app acknowledgements for %d payloads", ps.Pkt, len(ps.Ack2.AppAcknowledgements), len(acks)))
			} else {
				for i := range acks {
					if !bytes.Equal(acks[i], ps.Ack2.AppAcknowledgements[i]) {
						w.Violate(prop, "ack-order", "", fmt.Sprintf("%s: app acknowledgement %d is %q, expected %q", ps.Pkt, i, ps.Ack2.AppAcknowledgements[i], acks[i]))
					}
				}
			}
		}
	}
	// the stored ack commitment is the commitment of what the events announced
	if ps.HasAck {
		var wantC []byte
		if ps.V2 {
			wantC = channeltypesv2.CommitAcknowledgement(ps.Ack2)
		} else {
			wantC = channeltypes.CommitAcknowledgement(ps.Ack1)
		}
		if gotC := c.State(ibcStore, ps.AckKey()); !bytes.Equal(gotC, wantC) {
			w.Violate(prop, "ack-commitment-mismatch", "", fmt.Sprintf("%s: stored ack commitment %x differs from the commitment %x of the announced acknowledgement", ps.Pkt, gotC, wantC))
		}
	}
	// exact IBC-store write set of a single-transaction receive block
	if len(res) == 1 && len(r.Spec.Msgs) == 1 && !p.dirtyNow {
		allowed := map[string]bool{string(ps.AckKey()): true}
		if !ps.V2 && ps.Ordered {
			allowed[string(ps.NextSeqRecvKey())] = true
		} else {
			allowed[string(ps.ReceiptKey())] = true
		}
		if ps.V2 {
			allowed[string(asyncKeyV2(ps.P2.DestinationClient, ps.P2.Sequence))] = true
		}
		for _, ch := range diff {
			if ch.Store == ibcStore && !allowed[ch.Key] {
				w.Violate(prop, "unexpected-ibc-write", "", fmt.Sprintf("%s: receive wrote unexpected key %s", ps.Pkt, ch))
			}
		}
		// receipt / counter must be there
		if !ps.ReceivedAtVersion(c.Height) {
			w.Violate(prop, "receipt-missing", "", fmt.Sprintf("%s: receive succeeded but no receipt / counter advance is stored", ps.Pkt))
		}
		w.Stats.Probe("recv_exact_write_set_checked")
	}
	w.Stats.NonTrivial(fmt.Sprintf("recv-effects:%s:%s:%s", p.Routes[ps.Route].Kind, strings.Join(ps.Behav, ","), exp))
}

// checkAck: the acknowledgement was proven for exactly this packet.
func (p *Core) checkAck(ci int, ps *PktState, r *sim.TxResult, pr PktState, ph clienttypes.Height) {
	w := p.w
	if !ps.Local && w.Armed("C06") {
		v := int64(ph.RevisionHeight) - 1
		got := ps.Dst.StateAt(ibcStore, ps.AckKey(), v)
		var want []byte
		switch m := lastMsg(r).(type) {
		case *channeltypes.MsgAcknowledgement:
			want = channeltypes.CommitAcknowledgement(m.Acknowledgement)
			if !bytes.Equal(channeltypes.CommitPacket(m.Packet), ps.Commitment()) {
				w.Violate("C06", "ack-for-altered-packet", "", fmt.Sprintf("%s: acknowledgement processed for packet fields that differ from the ones sent", ps.Pkt))
			}
		case *channeltypesv2.MsgAcknowledgement:
			want = channeltypesv2.CommitAcknowledgement(m.Acknowledgement)
			if !bytes.Equal(channeltypesv2.CommitPacket(m.Packet), ps.Commitment()) {
				w.Violate("C06", "ack-for-altered-packet", "", fmt.Sprintf("%s: acknowledgement processed for packet fields that differ from the ones sent", ps.Pkt))
			}
		}
		if got == nil || !bytes.Equal(got, want) {
			w.Violate("C06", "ack-not-committed-by-counterparty", "", fmt.Sprintf("%s: acknowledgement accepted with proof height %s, but the destination state at version %d stores %x, not %x", ps.Pkt, ph, v, got, want))
		}
	}
	if ps.RecvHeight == 0 && !ps.HasAck {
		w.Violate("C06", "ack-of-unreceived-packet", "", fmt.Sprintf("%s: acknowledgement processed although the destination never received the packet", ps.Pkt))
	}
	if pr.Done == "timedout" {
		w.Violate("C03", "ack-after-timeout", "", fmt.Sprintf("%s: acknowledged after it had been timed out", ps.Pkt))
	}
	if !ps.V2 && pr.closedSrc {
		w.Violate("C14", "ack-on-closed-ordered-channel", "", fmt.Sprintf("%s: acknowledgement processed on an ordered channel end closed by a timeout", ps.Pkt))
	}
	if ps.X == nil && !p.Routes[ps.Route].OneWay && ps.AckCb != 1 {
		w.Violate("C03", "ack-without-callback", "", fmt.Sprintf("%s: acknowledgement SUCCESS but the callback ran %d times", ps.Pkt, ps.AckCb))
	}
	w.MixSig("a" + p.Routes[ps.Route].Kind)
}

// checkAckArg compares the acknowledgement the sending application saw with what the
// destination application produced.
func (p *Core) checkAckArg(ps *PktState, t Tap) {
	w := p.w
	if !w.AnyArmed("C06", "C10") {
		return
	}
	var want []byte
	if ps.V2 {
		if len(ps.Ack2.AppAcknowledgements) == 1 && bytes.Equal(ps.Ack2.AppAcknowledgements[0], channeltypesv2.ErrorAcknowledgement[:]) {
			want = channeltypesv2.ErrorAcknowledgement[:]
		} else if t.PIdx < len(ps.Ack2.AppAcknowledgements) {
			want = ps.Ack2.AppAcknowledgements[t.PIdx]
		}
	} else {
		want = ps.Ack1
	}
	if !bytes.Equal(want, t.Ack) {
		prop := "C06"
		if ps.V2 && len(ps.Behav) > 1 && w.Armed("C10") {
			prop = "C10"
		}
		w.Violate(prop, "ack-argument-differs", "", fmt.Sprintf("%s payload %d: sending application saw acknowledgement %q, destination produced %q", ps.Pkt, t.PIdx, t.Ack, want))
	}
}

// checkTimeout: C04 against the destination's real history.
func (p *Core) checkTimeout(ci int, ps *PktState, r *sim.TxResult, pr PktState, ph clienttypes.Height, blockTime time.Time, lbl string) {
	w := p.w
	c := p.C[ci]
	kind := p.Routes[ps.Route].Kind
	if pr.RecvHeight > 0 && (ps.Local || pr.RecvHeight < int64(ph.RevisionHeight)) {
		w.Violate("C04", "timeout-of-received-packet", "", fmt.Sprintf("%s: timed out on the source although the destination had received it in block %d (proof height %s)", ps.Pkt, pr.RecvHeight, ph))
	}
	if ps.Local {
		// loopback: the chain itself must have reached the timeout in the executing block
		if lbl == "tmo" && !timeoutReached(ps, r.Height, blockTime) {
			sig := ""
			if int64(ph.RevisionHeight) > r.Height {
				sig = "localhost-timeout-with-future-proof-height"
			}
			w.Violate("C04", "early-timeout-localhost", sig, fmt.Sprintf("%s: localhost timeout accepted in block %d at %s (proof height %s) before the chain reached the packet timeout %s / %d", ps.Pkt, r.Height, blockTime.Format(time.RFC3339Nano), ph, ps.P1.TimeoutHeight, ps.P1.TimeoutTimestamp))
		}
	} else {
		h := int64(ph.RevisionHeight)
		rec := ps.Dst.Headers[h]
		if rec == nil {
			w.Violate("C04", "timeout-at-unknown-height", "", fmt.Sprintf("%s: timeout accepted with proof height %s which the destination never produced", ps.Pkt, ph))
		} else {
			if ps.ReceivedAtVersion(h - 1) {
				w.Violate("C04", "timeout-of-received-packet", "", fmt.Sprintf("%s: timeout accepted at proof height %s although the destination state of version %d holds the receipt", ps.Pkt, ph, h-1))
			}
			if lbl == "tmo" && !timeoutReached(ps, h, rec.Header.Time) {
				w.Violate("C04", "early-timeout", "", fmt.Sprintf("%s: timeout accepted at proof height %s (destination time %s) before the packet timeout %s / %d", ps.Pkt, ph, rec.Header.Time.Format(time.RFC3339Nano), ps.P1.TimeoutHeight, tsOf(ps)))
			}
			if lbl == "toc" {
				bz := ps.Dst.StateAt(ibcStore, host.ChannelKey(ps.P1.DestinationPort, ps.P1.DestinationChannel), h-1)
				var chn channeltypes.Channel
				if err := ps.Dst.App.AppCodec().Unmarshal(bz, &chn); err != nil || chn.State != channeltypes.CLOSED {
					w.Violate("C04", "timeout-on-close-without-closed-channel", "", fmt.Sprintf("%s: timeout-on-close accepted at proof height %s but the destination channel end was %s", ps.Pkt, ph, chn.State))
				}
			}
		}
	}
	if ps.X == nil && !p.Routes[ps.Route].OneWay && ps.TmoCb != 1 {
		w.Violate("C03", "timeout-without-callback", "", fmt.Sprintf("%s: timeout SUCCESS but the callback ran %d times", ps.Pkt, ps.TmoCb))
	}
	if pr.Done == "acked" {
		w.Violate("C03", "timeout-after-ack", "", fmt.Sprintf("%s: timed out after it had been acknowledged", ps.Pkt))
	}
	if ps.Ordered && !ps.V2 {
		ch := c.ChannelEnd(ps.P1.SourcePort, ps.P1.SourceChannel)
		if ch.State != channeltypes.CLOSED {
			w.Violate("C14", "ordered-channel-open-after-timeout", "", fmt.Sprintf("%s: ordered channel end %s/%s is %s after the timeout", ps.Pkt, ps.P1.SourcePort, ps.P1.SourceChannel, ch.State))
		}
		w.Stats.Probe("ordered_timeout_closed_channel")
	}
	w.Stats.NonTrivial(fmt.Sprintf("timeout:%s:%s:recvd=%v", kind, lbl, pr.RecvHeight > 0))
	w.MixSig("t" + kind + lbl)
}

// Finish: end-state oracles after the drain.
func (p *Core) Finish(w *sim.World) {
	if p.Opt.Tokens {
		p.tokFinish()
	}
	for _, tag := range p.Order {
		ps := p.Pkts[tag]
		if ps == nil {
			continue
		}
		if ps.Done == "timedout" && ps.RecvCb > 0 {
			w.Violate("C04", "received-and-timed-out", "", fmt.Sprintf("%s: both executed on the destination (block %d) and timed out on the source (block %d)", ps.Pkt, ps.RecvHeight, ps.DoneHeight))
		}
		if ps.RecvCb > 1 {
			w.Violate("C01", "double-delivery", "", fmt.Sprintf("%s: delivered %d times", ps.Pkt, ps.RecvCb))
		}
	}
	// sample of what this world looked like
	n := len(w.Log)
	if n > 40 {
		n = 40
	}
	if len(w.Viol) == 0 && len(p.Order) > 2 {
		w.Stats.Sample(map[string]any{"profile": "core", "seed": w.Cfg.Seed, "packets": len(p.Order), "first_events": w.Log[:n]})
	}
}
