package prof

import (
	"crypto/sha256"
	"bytes"
	"fmt"
	"reflect"
	"strings"
	"time"

	"github.com/cosmos/gogoproto/proto"

	sdk "github.com/cosmos/cosmos-sdk/types"

	"verif/ibcsim/sim"
)

// ---- malicious relayer: field mutation of otherwise valid packet messages (C05, C06) ---------

type leaf struct {
	path string
	v    reflect.Value
	list bool // v is a slice of elements (structural mutations)
}

// leaves enumerates, by reflection, every mutable leaf of a message: strings, integers, byte
// strings, and every list (for drop / duplicate / swap). New message fields are picked up
// automatically.
func leaves(v reflect.Value, path string, out *[]leaf) {
	switch v.Kind() {
	case reflect.Ptr:
		if !v.IsNil() {
			leaves(v.Elem(), path, out)
		}
	case reflect.Struct:
		t := v.Type()
		for i := 0; i < v.NumField(); i++ {
			f := t.Field(i)
			if f.PkgPath != "" || strings.HasPrefix(f.Name, "XXX_") {
				continue
			}
			leaves(v.Field(i), path+"."+f.Name, out)
		}
	case reflect.Slice:
		if v.Type().Elem().Kind() == reflect.Uint8 {
			*out = append(*out, leaf{path: path, v: v})
			return
		}
		*out = append(*out, leaf{path: path + "[]", v: v, list: true})
		for i := 0; i < v.Len(); i++ {
			leaves(v.Index(i), fmt.Sprintf("%s[%d]", path, i), out)
		}
	case reflect.String, reflect.Uint64, reflect.Uint32, reflect.Int64, reflect.Int32, reflect.Bool:
		*out = append(*out, leaf{path: path, v: v})
	}
}

// mutateLeaf applies variant `n` of the mutation suited to the leaf's type. It returns a
// short description, or "" when the variant does not change the value.
func mutateLeaf(l leaf, n int, otherIDs []string) string {
	v := l.v
	if !v.CanSet() {
		return ""
	}
	if l.list {
		k := v.Len()
		switch n % 3 {
		case 0: // drop last
			if k == 0 {
				return ""
			}
			v.Set(v.Slice(0, k-1))
			return "drop-last"
		case 1: // duplicate last
			if k == 0 {
				return ""
			}
			v.Set(reflect.Append(v, v.Index(k-1)))
			return "dup-last"
		default: // swap first two
			if k < 2 {
				return ""
			}
			a, b := reflect.ValueOf(v.Index(0).Interface()), reflect.ValueOf(v.Index(1).Interface())
			v.Index(0).Set(b)
			v.Index(1).Set(a)
			return "swap01"
		}
	}
	switch v.Kind() {
	case reflect.String:
		s := v.String()
		switch n % 4 {
		case 0:
			v.SetString(s + "0")
			return "append0"
		case 1:
			if len(s) < 2 {
				return ""
			}
			v.SetString(s[:len(s)-1])
			return "chop"
		case 2:
			for _, o := range otherIDs {
				if o != s && sameShape(o, s) {
					v.SetString(o)
					return "other-id"
				}
			}
			return ""
		default:
			if s == "" {
				return ""
			}
			v.SetString("")
			return "empty"
		}
	case reflect.Uint64, reflect.Uint32:
		x := v.Uint()
		switch n % 4 {
		case 0:
			v.SetUint(x + 1)
			return "+1"
		case 1:
			if x == 0 {
				return ""
			}
			v.SetUint(x - 1)
			return "-1"
		case 2:
			if x == 0 {
				return ""
			}
			v.SetUint(0)
			return "zero"
		default:
			v.SetUint(x + 1000003)
			return "+big"
		}
	case reflect.Int64, reflect.Int32:
		v.SetInt(v.Int() + 1)
		return "+1"
	case reflect.Bool:
		v.SetBool(!v.Bool())
		return "flip"
	case reflect.Slice: // []byte
		b := append([]byte{}, v.Bytes()...)
		switch n % 7 {
		case 6:
			// other bytes whose SHA-256 digest starts with the same byte as the original's: slips
			// through any commitment layout that binds only part of a field's digest
			want := sha256.Sum256(b)
			for i := 0; i < 4096; i++ {
				cand := append(append([]byte{}, b...), []byte(fmt.Sprintf("~%d", i))...)
				if got := sha256.Sum256(cand); got[0] == want[0] {
					v.SetBytes(cand)
					return "same-digest-prefix"
				}
			}
			return ""
		case 0:
			if len(b) == 0 {
				return ""
			}
			b[0] ^= 0x01
			v.SetBytes(b)
			return "flip-first"
		case 1:
			if len(b) == 0 {
				return ""
			}
			b[len(b)-1] ^= 0x80
			v.SetBytes(b)
			return "flip-last"
		case 2:
			if len(b) < 3 {
				return ""
			}
			b[len(b)/2] ^= 0x10
			v.SetBytes(b)
			return "flip-mid"
		case 3:
			if len(b) == 0 {
				return ""
			}
			v.SetBytes(b[:len(b)-1])
			return "truncate"
		case 4:
			v.SetBytes(append(b, 0))
			return "append0"
		default:
			if len(b) == 0 {
				return ""
			}
			v.SetBytes([]byte{})
			return "empty"
		}
	}
	return ""
}

func sameShape(a, b string) bool {
	pa, pb := strings.LastIndex(a, "-"), strings.LastIndex(b, "-")
	if pa < 0 || pb < 0 {
		return pa < 0 && pb < 0
	}
	return a[:pa] == b[:pb]
}

// uncommittedLeaf lists the message fields the specification leaves outside the commitment
// and proof: changing them must NOT change the outcome. Only the relayer's own address.
func uncommittedLeaf(path string) bool { return path == ".Signer" }

func (p *Core) knownIDs() []string {
	var ids []string
	for _, r := range p.Routes {
		ids = append(ids, r.ID[0], r.ID[1], r.Client[0], r.Client[1], r.Port[0])
	}
	ids = append(ids, "mockv2A", "mockv2B", "transfer")
	return ids
}

// genMut picks a packet whose next honest step is a receive or an acknowledgement (or any
// packet, to replay at other lifecycle states) and a field mutation of that message.
func (p *Core) genMut() []sim.Op {
	w := p.w
	all := p.sentPkts()
	if len(all) == 0 {
		return nil
	}
	ps := all[w.Intn(len(all))]
	kind := "recv"
	if ps.HasAck && ps.RecvHeight > 0 && w.Chance(0.55) {
		kind = "ack"
	}
	if w.Armed("C06") && !w.Armed("C05") {
		if !(ps.HasAck && ps.RecvHeight > 0) {
			return nil
		}
		kind = "ack"
	}
	if w.Armed("C05") && !w.Armed("C06") {
		kind = "recv"
	}
	var of *sim.Chain
	var lo int64
	if kind == "recv" {
		of, lo = ps.Src, ps.SentAt+1
	} else {
		of, lo = ps.Dst, ps.AckHeight+1
	}
	var ops []sim.Op
	top := of.Height
	if ps.Local {
		lo, top = 3, of.Height
	} else if top < lo {
		ops, top = p.ensureProvable(of, lo-1)
	}
	if top < 3 {
		return nil
	}
	h := top
	// make sure the verifying client knows the proof height, in a separate transaction
	if !ps.Local {
		e := 1 - ps.Dir
		if kind == "ack" {
			e = ps.Dir
		}
		ops = append(ops, sim.Op{K: "upd", P: ps.Route, X: int64(e), M: h})
	}
	nl := int64(w.Intn(64))
	nv := int64(w.Intn(14))
	target := int64(0)
	if kind == "ack" && ps.V2 && len(ps.Ack2.AppAcknowledgements) > 1 && w.Chance(0.35) {
		// one app acknowledgement of a multi-payload list, any byte mutation incl. the digest-prefix one
		target = -(1 + 16*int64(w.Intn(len(ps.Ack2.AppAcknowledgements))) + int64(w.Intn(7)))
		w.Stats.Probe("mutation_aimed_at_one_app_ack_of_a_list")
	}
	x := int64(0)
	if w.Chance(0.15) {
		x = 1 + int64(w.Intn(4096)) // second field
	}
	n := nl*16 + nv
	if target != 0 {
		n, x = target, 0
	}
	return append(ops, sim.Op{K: "mut", T: ps.Tag, S: kind, N: n, M: h, X: x})
}

// execMut builds the honest message, mutates one (or two) reflected leaves and delivers it
// alone in a block.
func (p *Core) execMut(op sim.Op) {
	w := p.w
	ps := p.Pkts[op.T]
	if ps == nil || ps.SentAt == 0 || (op.S != "recv" && op.S != "ack") {
		w.Noop()
		return
	}
	on, of := ps.Dst, ps.Src
	if op.S == "ack" {
		on, of = ps.Src, ps.Dst
		if !ps.HasAck {
			w.Noop()
			return
		}
	}
	h := op.M
	if h < 3 || h > of.Height || (!ps.Local && h-1 < of.MinVersion) {
		w.Noop()
		return
	}
	if len(on.Mempool) > 0 {
		p.block(on.Idx)
	}
	signer := on.Relayer()
	var msg sdk.Msg
	if op.S == "recv" {
		msg = ps.RecvMsg(h, signer.String())
	} else {
		msg = ps.AckMsg(h, ps.Ack1, ps.Ack2, signer.String())
	}
	orig, _ := proto.Marshal(msg)
	// mutate a deep copy: the message built from the ghost packet shares its payload / data /
	// acknowledgement slices with the ghost, which must stay what was really sent
	if cp, ok := reflect.New(reflect.TypeOf(msg).Elem()).Interface().(proto.Message); ok && proto.Unmarshal(orig, cp) == nil {
		msg = cp.(sdk.Msg)
	} else {
		sim.Failf("cannot copy %T for mutation", msg)
	}
	var ls []leaf
	leaves(reflect.ValueOf(msg), "", &ls)
	if len(ls) == 0 {
		w.Noop()
		return
	}
	if ps.Local {
		// the localhost client has no heights: the proof is the sentinel and the proof height
		// carries no information (any height up to the chain's own is equivalent by design)
		var keep []leaf
		for _, l := range ls {
			if !strings.HasPrefix(l.path, ".ProofHeight") {
				keep = append(keep, l)
			}
		}
		ls = keep
	}
	li := int(op.N/16) % len(ls)
	vn := int(op.N % 16)
	if op.N < 0 {
		// targeted form: N = -(1 + 16*i + variant) aims at app acknowledgement i of a v2 ack list
		k := -op.N - 1
		vn = int(k % 16)
		want := fmt.Sprintf(".Acknowledgement.AppAcknowledgements[%d]", k/16)
		li = -1
		for i, l := range ls {
			if l.path == want {
				li = i
			}
		}
		if li < 0 {
			w.Noop()
			return
		}
	}
	desc := mutateLeaf(ls[li], vn, p.knownIDs())
	path := ls[li].path
	neutral := uncommittedLeaf(path)
	if desc == "" {
		w.Noop()
		return
	}
	if op.X > 0 {
		var all2, ls2 []leaf
		leaves(reflect.ValueOf(msg), "", &all2)
		for _, l := range all2 {
			if !ps.Local || !strings.HasPrefix(l.path, ".ProofHeight") {
				ls2 = append(ls2, l)
			}
		}
		l2 := int(op.X/16) % len(ls2)
		if d2 := mutateLeaf(ls2[l2], int(op.X%16), p.knownIDs()); d2 != "" {
			path += "+" + ls2[l2].path
			desc += "+" + d2
			neutral = neutral && uncommittedLeaf(ls2[l2].path)
		}
	}
	if now, _ := proto.Marshal(msg); bytes.Equal(now, orig) {
		w.Noop() // the two mutations cancelled out
		return
	}
	w.Stats.Fault("relay.mutate")
	p.mutInfo =fmt.Sprintf("%s %s %s", op.S, path, desc)
	p.mutNeutral = neutral
	on.Submit(&sim.TxSpec{Msgs: []sdk.Msg{msg}, Signer: signer, Tag: op.T, Label: "mut-" + op.S})
	p.tick(time.Second)
	p.block(on.Idx)
}

// oracleMut judges a block that carried one mutated message.
func (p *Core) oracleMut(ci int, r *sim.TxResult, taps []Tap, diff []sim.Change, pre PktState) {
	w := p.w
	ps := p.Pkts[r.Spec.Tag]
	if ps == nil {
		return
	}
	kind := strings.TrimPrefix(r.Spec.Label, "mut-")
	prop := "C05"
	if kind == "ack" {
		prop = "C06"
	}
	state := "fresh"
	switch {
	case pre.Done != "":
		state = pre.Done
	case kind == "recv" && pre.RecvHeight > 0:
		state = "received"
	case !ps.V2 && (pre.closedSrc || pre.closedDst || p.closedAny[chanKey(ci, ps.P1.DestinationPort, ps.P1.DestinationChannel)]):
		state = "closed"
	}
	out := "failed"
	if r.OK() {
		r2 := *r
		spec := *r.Spec
		spec.Label = kind
		r2.Spec = &spec
		out = txOutcome(&r2, ps.V2)
	}
	w.Stats.NonTrivial(fmt.Sprintf("mut:%s:%s:%s:%s", p.Routes[ps.Route].Kind, p.mutInfo, state, out))
	w.Stats.Probe("mutated_message_" + out)
	if p.mutNeutral {
		return // behaves as the unmutated message; judged by the ordinary oracles of its kind
	}
	if out == "success" {
		w.Violate(prop, "mutated-message-accepted", "", fmt.Sprintf("%s: %s message with mutation [%s] was accepted (packet state before: %s)", ps.Pkt, kind, p.mutInfo, state))
		return
	}
	for _, t := range taps {
		if t.TxHash == r.Spec.Hash {
			w.Violate(prop, "mutated-message-reached-application", "", fmt.Sprintf("%s: %s message with mutation [%s] reached the application (%s callback)", ps.Pkt, kind, p.mutInfo, t.Kind))
		}
	}
	if !p.dirtyNow && len(diff) != 0 {
		w.Violate(prop, "mutated-message-changed-state", "", fmt.Sprintf("%s: refused %s message with mutation [%s] changed state: %s", ps.Pkt, kind, p.mutInfo, sim.ChangesString(diff)))
	}
}
