package prof

import (
	"bytes"
	"crypto/ecdsa"
	"crypto/sha256"
	"encoding/binary"
	"fmt"
	"math/big"

	"github.com/ethereum/go-ethereum/crypto"

	"verif/ibcsim/sim"
)

// ---- reference model for C28 --------------------------------------------------------------------
//
// Everything in this file is written from the statement of the property and from the wire
// formats (Solidity ABI encoding, ECDSA over secp256k1); nothing here calls into
// modules/light-clients/attestations. The only shared primitives are hash functions
// (crypto/sha256, keccak256) and go-ethereum's ECDSA *verification* against a known public key
// (the code under test uses public-key *recovery*).

const (
	attTagState  byte = 0x01
	attTagPacket byte = 0x02
)

var (
	attCurveN     = crypto.S256().Params().N
	attCurveHalfN = new(big.Int).Rsh(crypto.S256().Params().N, 1)
)

// attTagged is the domain-separated signing input: sha256(tag || sha256(data)).
func attTagged(data []byte, tag byte) [32]byte {
	inner := sha256.Sum256(data)
	buf := make([]byte, 0, 33)
	buf = append(buf, tag)
	buf = append(buf, inner[:]...)
	return sha256.Sum256(buf)
}

// attHashScheme computes what a (possibly confused or malicious) attestor hashes before
// signing. Scheme 0 is the right one for the given use; every other scheme is a different
// message.
func attHashScheme(data []byte, useTag byte, scheme int) [32]byte {
	other := attTagPacket
	if useTag == attTagPacket {
		other = attTagState
	}
	switch scheme {
	case 0:
		return attTagged(data, useTag)
	case 1: // the other attestation type (state <-> packet)
		return attTagged(data, other)
	case 2: // legacy: no domain separation at all
		return sha256.Sum256(data)
	case 3: // tag prepended to the raw data, no inner hash
		return sha256.Sum256(append([]byte{useTag}, data...))
	case 4: // tag byte zero
		return attTagged(data, 0x00)
	case 5: // ethereum style hash of the raw data
		var out [32]byte
		copy(out[:], crypto.Keccak256(data))
		return out
	default: // an unassigned tag
		return attTagged(data, 0x03)
	}
}

// attKey is one simulated signer.
type attKey struct {
	Priv *ecdsa.PrivateKey
	Pub  []byte // 65-byte uncompressed public key
	Addr [20]byte
}

func newAttKey(i int) *attKey {
	seed := sha256.Sum256([]byte(fmt.Sprintf("verif-ibcsim/attestor/%d", i)))
	priv, err := crypto.ToECDSA(seed[:])
	sim.Must(err, "attestor key")
	k := &attKey{Priv: priv, Pub: crypto.FromECDSAPub(&priv.PublicKey)}
	copy(k.Addr[:], crypto.Keccak256(k.Pub[1:])[12:])
	return k
}

// attSigValidFor reports whether sig is a 65-byte signature whose (r,s) part is a valid ECDSA
// signature of hash under pub. High-s twins are valid signatures of the same signer, so s is
// folded to the lower half before the library check (which insists on low s).
func attSigValidFor(pub []byte, hash [32]byte, sig []byte) bool {
	if len(sig) != 65 {
		return false
	}
	rs := make([]byte, 64)
	copy(rs, sig[:64])
	s := new(big.Int).SetBytes(rs[32:])
	if s.Sign() == 0 {
		return false
	}
	if s.Cmp(attCurveHalfN) > 0 {
		s.Sub(attCurveN, s)
		s.FillBytes(rs[32:])
	}
	return crypto.VerifySignature(pub, hash[:], rs)
}

// attDistinctValid counts the configured attestors (pubs) for which the list carries at least
// one valid 65-byte signature over hash, and returns their positions.
func attDistinctValid(pubs [][]byte, hash [32]byte, sigs [][]byte) []int {
	var out []int
	for i, pub := range pubs {
		for _, sg := range sigs {
			if attSigValidFor(pub, hash, sg) {
				out = append(out, i)
				break
			}
		}
	}
	return out
}

// ---- ABI (head/tail) encoding of the two attestation payloads -----------------------------------

func attWord(v uint64) []byte {
	w := make([]byte, 32)
	binary.BigEndian.PutUint64(w[24:], v)
	return w
}

// attEncodeState is abi.encode(uint64 height, uint64 timestampSeconds).
func attEncodeState(height, tsSeconds uint64) []byte {
	return append(attWord(height), attWord(tsSeconds)...)
}

type attEntry struct {
	Path, Commitment [32]byte
}

// attEncodePacket is abi.encode(PacketAttestation{uint64 height; (bytes32 path, bytes32 commitment)[] packets}).
func attEncodePacket(height uint64, ents []attEntry) []byte {
	out := attWord(0x20)
	out = append(out, attWord(height)...)
	out = append(out, attWord(0x40)...)
	out = append(out, attWord(uint64(len(ents)))...)
	for _, e := range ents {
		out = append(out, e.Path[:]...)
		out = append(out, e.Commitment[:]...)
	}
	return out
}

// attReadU64 reads the 32-byte word at off as a uint64; ok is false when the word is out of
// range of the data or does not fit.
func attReadU64(data []byte, off uint64) (uint64, bool) {
	if off > uint64(len(data)) || uint64(len(data))-off < 32 {
		return 0, false
	}
	w := data[off : off+32]
	for _, b := range w[:24] {
		if b != 0 {
			return 0, false
		}
	}
	return binary.BigEndian.Uint64(w[24:]), true
}

// attDecodeState reads (height, timestampSeconds) from the head of the data; trailing bytes are
// ignored as ABI decoders do.
func attDecodeState(data []byte) (h, ts uint64, ok bool) {
	h, ok1 := attReadU64(data, 0)
	ts, ok2 := attReadU64(data, 32)
	return h, ts, ok1 && ok2
}

// attDecodePacket follows the ABI offsets of a tuple-wrapped PacketAttestation.
func attDecodePacket(data []byte) (h uint64, ents []attEntry, ok bool) {
	const lim = 1 << 20
	base, ok := attReadU64(data, 0)
	if !ok || base > lim {
		return 0, nil, false
	}
	h, ok = attReadU64(data, base)
	if !ok {
		return 0, nil, false
	}
	arrOff, ok := attReadU64(data, base+32)
	if !ok || arrOff > lim {
		return 0, nil, false
	}
	arr := base + arrOff
	n, ok := attReadU64(data, arr)
	if !ok || n > lim {
		return 0, nil, false
	}
	start := arr + 32
	if start > uint64(len(data)) || (uint64(len(data))-start)/64 < n {
		return 0, nil, false
	}
	for i := uint64(0); i < n; i++ {
		var e attEntry
		copy(e.Path[:], data[start+64*i:start+64*i+32])
		copy(e.Commitment[:], data[start+64*i+32:start+64*i+64])
		ents = append(ents, e)
	}
	return h, ents, true
}

// attHashedPath is the path under which a commitment must be attested: keccak256 of the key.
func attHashedPath(keyPath [][]byte) [32]byte {
	var out [32]byte
	copy(out[:], crypto.Keccak256(bytes.Join(keyPath, nil)))
	return out
}

// attMemberAttested: does the payload attest value (exactly 32 bytes) at the hashed path and at
// revision height h?
func attMemberAttested(payload []byte, h uint64, keyPath [][]byte, value []byte) (bool, string) {
	ph, ents, ok := attDecodePacket(payload)
	if !ok {
		return false, "payload is not a packet attestation"
	}
	if ph != h {
		return false, fmt.Sprintf("payload attests height %d, proof height is %d", ph, h)
	}
	if len(value) != 32 {
		return false, fmt.Sprintf("value has %d bytes", len(value))
	}
	hp := attHashedPath(keyPath)
	for _, e := range ents {
		if e.Path == hp && bytes.Equal(e.Commitment[:], value) {
			return true, ""
		}
	}
	return false, "no entry carries this commitment at keccak256(path)"
}

// attAbsenceAttested: is the hashed path attested at height h with nothing but zero commitments?
func attAbsenceAttested(payload []byte, h uint64, keyPath [][]byte) (bool, string) {
	ph, ents, ok := attDecodePacket(payload)
	if !ok {
		return false, "payload is not a packet attestation"
	}
	if ph != h {
		return false, fmt.Sprintf("payload attests height %d, proof height is %d", ph, h)
	}
	hp := attHashedPath(keyPath)
	var zero [32]byte
	found := false
	for _, e := range ents {
		if e.Path == hp {
			found = true
			if e.Commitment != zero {
				return false, "the path is attested with a non-zero commitment"
			}
		}
	}
	if !found {
		return false, "the path is not attested at all"
	}
	return true, ""
}

// attConflicts: does an attested timestamp (seconds) differ from a stored one (nanoseconds)?
// Computed over the integers, not modulo 2^64.
func attConflicts(tsSeconds, storedNanos uint64) bool {
	a := new(big.Int).Mul(new(big.Int).SetUint64(tsSeconds), big.NewInt(1_000_000_000))
	return a.Cmp(new(big.Int).SetUint64(storedNanos)) != 0
}

func attSecondsOverflow(tsSeconds uint64) bool {
	return tsSeconds > (^uint64(0))/1_000_000_000
}

func attBytes32(b []byte) [32]byte {
	var out [32]byte
	copy(out[:], b)
	return out
}
