package prof

// ---- callbacks profile (C40) ---------------------------------------------------------------
//
// Two real chains run modules/apps/callbacks/testing/simapp (ICS-20 transfer wrapped by the v1
// callbacks middleware on a channel, and by the v2 callbacks middleware on an IBC v2 client pair).
// Users send transfers whose memo asks for source and/or destination callbacks; the scripted
// contract (cb_contract.go) succeeds, errors, panics, exhausts its gas, with or without writing
// state first. Relayers deliver receive / acknowledgement / timeout messages in single-transaction
// blocks whose GAS LIMIT is chosen by a ladder relative to the gas the same message needs with a
// free callback (measured by a simulate-mode dry run) and to the committed callback limit.
//
// Operations (sim.Op):
//
//	snd  C=source chain P=route T=tag N=amount M=timeout kind (0 long, 1 short = will time out)
//	     + 10*sender  S=callback spec  X=gas code         MsgTransfer
//	rcv  T=tag N=second tag (two-message tx, 0 = none) X=gas code   MsgRecvPacket on the destination
//	ack  T=tag N=second tag X=gas code                             MsgAcknowledgement on the source
//	tmo  T=tag N=second tag X=gas code                             MsgTimeout on the source
//	blk  C=chain                                                  empty block
//	dir  ...                                                      directly driven middleware (cb_direct.go)
//
// gas code = rung + 8*offset:
//
//	rung 0 ample      base + chain max + 300000
//	rung 1 starved    base * (300 + offset%650)/1000      (cannot pay for the message itself)
//	rung 2 below      base + offset % committed limit     (callback gets less than the committed limit)
//	rung 3 around     base + committed limit + offset%8192 - 4096
//	rung 4 exact      previous aborted attempt's gas + (committed limit - limit it observed) + offset%5 - 2
//	rung 5 above      base + committed limit + 20000 + offset%100000

import (
	"encoding/json"
	"fmt"
	"strconv"
	"strings"
	"time"

	sdkmath "cosmossdk.io/math"

	sdk "github.com/cosmos/cosmos-sdk/types"

	abci "github.com/cometbft/cometbft/abci/types"
	cmtproto "github.com/cometbft/cometbft/proto/tendermint/types"

	transfertypes "github.com/cosmos/ibc-go/v11/modules/apps/transfer/types"
	clienttypes "github.com/cosmos/ibc-go/v11/modules/core/02-client/types"
	channeltypes "github.com/cosmos/ibc-go/v11/modules/core/04-channel/types"
	channeltypesv2 "github.com/cosmos/ibc-go/v11/modules/core/04-channel/v2/types"
	host "github.com/cosmos/ibc-go/v11/modules/core/24-host"
	hostv2 "github.com/cosmos/ibc-go/v11/modules/core/24-host/v2"
	ibctesting "github.com/cosmos/ibc-go/v11/testing"

	"verif/ibcsim/sim"
)

func cmtHeader(chainID string, h int64, t time.Time) cmtproto.Header {
	return cmtproto.Header{ChainID: chainID, Height: h, Time: t}
}

// cbChainMax is the maximum callback gas the callbacks test application is built with
// (modules/apps/callbacks/testing/simapp/app.go: maxCallbackGas). It is an assumption of the
// on-chain worlds; the directly driven middleware instances vary it.
const cbChainMax = uint64(1_000_000)

type CBOptions struct {
	WSnd, WRcv, WAck, WTmo, WBlk, WDir int
	MaxOpen                            int
	Multi                              int // percent of relays that carry two packet messages
	NoV2                               bool
}

func DefaultCBOptions() CBOptions {
	return CBOptions{WSnd: 30, WRcv: 26, WAck: 26, WTmo: 12, WBlk: 3, WDir: 22, MaxOpen: 6, Multi: 15}
}

type cbRoute struct {
	V2     bool
	ID     [2]string // channel id (v1) or client id (v2) by chain index
	Client [2]string // light client by chain index
}

type cbSide struct {
	On      bool
	Beh     string // four letters
	Burn    uint64
	User    string // gas_limit string of the memo
	NoLimit bool   // no gas_limit field at all
}

type cbSpec struct{ Src, Dst cbSide }

func (s cbSide) String() string {
	if !s.On {
		return "-"
	}
	u := s.User
	if s.NoLimit {
		u = "~"
	}
	return fmt.Sprintf("%s:%d:%s", s.Beh, s.Burn, u)
}

func (s cbSpec) String() string { return s.Src.String() + "|" + s.Dst.String() }

func parseCBSide(x string) (cbSide, bool) {
	if x == "-" {
		return cbSide{}, true
	}
	parts := strings.Split(x, ":")
	if len(parts) != 3 || len(parts[0]) != 4 {
		return cbSide{}, false
	}
	burn, err := strconv.ParseUint(parts[1], 10, 64)
	if err != nil {
		return cbSide{}, false
	}
	if _, ok := parseCBAddr("cbk/0/" + parts[0] + "/0"); !ok {
		return cbSide{}, false
	}
	s := cbSide{On: true, Beh: parts[0], Burn: burn, User: parts[2]}
	if parts[2] == "~" {
		s.User, s.NoLimit = "", true
	} else if parts[2] != "" {
		if _, err := strconv.ParseUint(parts[2], 10, 64); err != nil {
			return cbSide{}, false
		}
	}
	return s, true
}

func parseCBSpec(x string) (cbSpec, bool) {
	parts := strings.Split(x, "|")
	if len(parts) != 2 {
		return cbSpec{}, false
	}
	a, ok1 := parseCBSide(parts[0])
	b, ok2 := parseCBSide(parts[1])
	return cbSpec{Src: a, Dst: b}, ok1 && ok2
}

// cbCommitLimit is the model's committed callback limit, written from the property statement:
// the user-requested limit capped at the chain maximum; no request (absent, empty, zero) means
// the chain maximum.
func cbCommitLimit(s cbSide, max uint64) uint64 {
	if s.NoLimit || s.User == "" {
		return max
	}
	n, err := strconv.ParseUint(s.User, 10, 64)
	if err != nil || n == 0 || n > max {
		return max
	}
	return n
}

func (s cbSide) memoEntry(tag int64) map[string]any {
	var beh [4]byte
	copy(beh[:], s.Beh)
	e := map[string]any{"address": cbScript{Tag: tag, Beh: beh, Burn: s.Burn}.Addr()}
	if !s.NoLimit {
		e["gas_limit"] = s.User
	}
	return e
}

func (s cbSpec) Memo(tag int64) string {
	m := map[string]any{}
	if s.Src.On {
		m["src_callback"] = s.Src.memoEntry(tag)
	}
	if s.Dst.On {
		m["dest_callback"] = s.Dst.memoEntry(tag)
	}
	if len(m) == 0 {
		return ""
	}
	bz, err := json.Marshal(m)
	sim.Must(err, "memo")
	return string(bz)
}

type cbAttempt struct {
	Gas   uint64
	Limit uint64
}

type cbPkt struct {
	Tag      int64
	Route    int
	Src      int // source chain index
	V2       bool
	P1       channeltypes.Packet
	P2       channeltypesv2.Packet
	Amount   int64
	Sender   string
	Receiver string
	Spec     cbSpec
	SentAt   int64
	Timeout  time.Time
	Doomed   bool
	Recvd    bool
	RecvH    int64
	Ack1     []byte
	Ack2     channeltypesv2.Acknowledgement
	AckOK    bool
	Done     bool
	Last     [4]*cbAttempt // last attempt aborted for relayer-starved out-of-gas, per callback type
	Tries    int
}

func (k *cbPkt) Seq() uint64 {
	if k.V2 {
		return k.P2.Sequence
	}
	return k.P1.Sequence
}

func (k *cbPkt) String() string {
	v := "v1"
	if k.V2 {
		v = "v2"
	}
	return fmt.Sprintf("%s packet #%d (tag %d, source chain %d)", v, k.Seq(), k.Tag, k.Src)
}

type CB struct {
	Opt    CBOptions
	w      *sim.World
	C      [2]*cbChain
	clk    *cbClock
	Routes []*cbRoute
	Pkts   map[int64]*cbPkt
	Order  []int64
	dir    *cbDirect
}

func NewCB(o CBOptions) *CB { return &CB{Opt: o} }

func (p *CB) Name() string { return "callbacks" }

func (p *CB) Setup(w *sim.World) {
	p.w = w
	p.Pkts = map[int64]*cbPkt{}
	p.clk = &cbClock{Now: sim.GenesisTime.Add(5 * time.Second)}
	for i := 0; i < 2; i++ {
		p.C[i] = newCBChain(i, fmt.Sprintf("cbchain-%d", i+1), w.Stats)
	}
	a, b := p.C[0], p.C[1]
	ea, eb := cbNewClientPair(p.clk, a, b)
	cbOpenConnection(p.clk, ea, eb)
	chA, chB := cbOpenChannel(p.clk, ea, eb, transfertypes.PortID, transfertypes.V1)
	p.Routes = append(p.Routes, &cbRoute{ID: [2]string{chA, chB}, Client: [2]string{ea.ClientID, eb.ClientID}})
	if !p.Opt.NoV2 {
		va, vb := cbNewClientPair(p.clk, a, b)
		cbRegisterV2(p.clk, va, vb)
		p.Routes = append(p.Routes, &cbRoute{V2: true, ID: [2]string{va.ClientID, vb.ClientID}, Client: [2]string{va.ClientID, vb.ClientID}})
	}
	for _, c := range p.C {
		c.K.Take()
	}
	p.dir = newCBDirect(p)
}

func (p *CB) block(ci int) { p.C[ci].Block(p.clk.Tick(sim.DefaultBlockInterval), nil) }

// ---- generator --------------------------------------------------------------------------------

var cbUserLimits = []string{"~", "", "0", "30000", "60000", "120000", "400000", "999999", "1000000", "1000001", "5000000", "18446744073709551615"}

var cbBehLetters = "oepgsOEPGSOEPG"

func (p *CB) genSide(w *sim.World) cbSide {
	var beh [4]byte
	for i := range beh {
		// half of the scripts succeed in the send callback so that packets exist
		if i == cbSend && w.Chance(0.75) {
			beh[i] = "oO"[w.Intn(2)]
			continue
		}
		beh[i] = cbBehLetters[w.Intn(len(cbBehLetters))]
	}
	s := cbSide{On: true, Beh: string(beh[:])}
	u := cbUserLimits[w.Intn(len(cbUserLimits))]
	if u == "~" {
		s.NoLimit = true
	} else {
		s.User = u
	}
	lc := cbCommitLimit(s, cbChainMax)
	switch w.Pick(30, 15, 15, 12, 10, 10, 8) {
	case 0:
		s.Burn = 0
	case 1:
		s.Burn = uint64(w.Intn(3000))
	case 2:
		s.Burn = lc / 2
	case 3: // just inside the committed limit once the state write is paid for
		s.Burn = lc - lc/8
	case 4:
		s.Burn = lc - uint64(w.Intn(64))
	case 5:
		s.Burn = lc + 1 + uint64(w.Intn(5000))
	default:
		s.Burn = 3 * cbChainMax
	}
	return s
}

func (p *CB) genGasCode(w *sim.World, retry bool) int64 {
	var rung int
	if retry {
		rung = []int{4, 4, 4, 0, 5, 2, 3}[w.Intn(7)]
	} else {
		rung = []int{0, 1, 2, 2, 2, 3, 3, 5, 5, 2}[w.Pick(18, 5, 10, 10, 10, 10, 8, 8, 8, 13)]
	}
	return int64(rung) + 8*int64(w.Intn(1<<20))
}

func (p *CB) open() (unrecv, unacked, doomed []*cbPkt) {
	for _, t := range p.Order {
		k := p.Pkts[t]
		switch {
		case k.Done:
		case k.Doomed:
			doomed = append(doomed, k)
		case !k.Recvd:
			unrecv = append(unrecv, k)
		default:
			unacked = append(unacked, k)
		}
	}
	return
}

func (p *CB) pickPair(w *sim.World, cands []*cbPkt, typ int) (sim.Op, bool) {
	if len(cands) == 0 {
		return sim.Op{}, false
	}
	k := cands[w.Intn(len(cands))]
	op := sim.Op{T: k.Tag, X: p.genGasCode(w, k.Last[typ] != nil)}
	if w.Intn(100) < p.Opt.Multi {
		for _, o := range cands {
			if o != k && o.Route == k.Route && o.Src == k.Src {
				op.N = o.Tag
				break
			}
		}
	}
	return op, true
}

func (p *CB) Gen(w *sim.World) []sim.Op {
	unrecv, unacked, doomed := p.open()
	nOpen := len(unrecv) + len(unacked) + len(doomed)
	wSnd := p.Opt.WSnd
	if nOpen >= p.Opt.MaxOpen {
		wSnd = 0
	}
	for try := 0; try < 8; try++ {
		switch w.Pick(wSnd, p.Opt.WRcv, p.Opt.WAck, p.Opt.WTmo, p.Opt.WBlk, p.Opt.WDir) {
		case 0:
			spec := cbSpec{}
			switch w.Pick(40, 25, 30, 5) {
			case 0:
				spec.Src = p.genSide(w)
			case 1:
				spec.Dst = p.genSide(w)
			case 2:
				spec.Src, spec.Dst = p.genSide(w), p.genSide(w)
			}
			tmo := int64(0)
			if w.Chance(0.28) {
				tmo = 1
			}
			return []sim.Op{{K: "snd", C: w.Intn(2), P: w.Intn(len(p.Routes)), T: w.Tag(), N: int64(1 + w.Intn(1000)),
				M: tmo + 10*int64(w.Intn(4)), S: spec.String(), X: p.genGasCode(w, false)}}
		case 1:
			if op, ok := p.pickPair(w, unrecv, cbRecv); ok {
				op.K = "rcv"
				return []sim.Op{op}
			}
		case 2:
			if op, ok := p.pickPair(w, unacked, cbAck); ok {
				op.K = "ack"
				return []sim.Op{op}
			}
		case 3:
			if op, ok := p.pickPair(w, doomed, cbTmo); ok {
				op.K = "tmo"
				return []sim.Op{op}
			}
		case 4:
			return []sim.Op{{K: "blk", C: w.Intn(2)}}
		default:
			return []sim.Op{p.dir.gen(w)}
		}
	}
	return []sim.Op{{K: "blk", C: w.Intn(2)}}
}

func (p *CB) Drain(w *sim.World) []sim.Op {
	unrecv, unacked, doomed := p.open()
	for _, k := range unrecv {
		return []sim.Op{{K: "rcv", T: k.Tag}}
	}
	for _, k := range unacked {
		return []sim.Op{{K: "ack", T: k.Tag}}
	}
	for _, k := range doomed {
		return []sim.Op{{K: "tmo", T: k.Tag}}
	}
	return nil
}

func (p *CB) Finish(w *sim.World) {
	for _, t := range p.Order {
		if k := p.Pkts[t]; !k.Done && k.Tries > 0 {
			// an amply funded honest relay of every open packet has been attempted by Drain and
			// judged there; nothing more to say here
			w.Stats.Probe("cb_packet_left_open")
		}
	}
	for _, c := range p.C {
		w.MixSig(fmt.Sprintf("final/%s/%d/%x", c.ID, c.Height, c.App.LastCommitID().Hash))
	}
	w.Stats.SimTime += 2 * p.clk.Now.Sub(sim.GenesisTime)
	if len(w.Viol) == 0 {
		n := len(w.Log)
		if n > 24 {
			n = 24
		}
		w.Stats.Sample(map[string]any{"profile": "callbacks", "seed": w.Cfg.Seed, "packets": len(p.Order), "first_events": w.Log[:n]})
	}
}

// ---- executor ---------------------------------------------------------------------------------

func (p *CB) Exec(w *sim.World, op sim.Op) {
	switch op.K {
	case "snd":
		p.execSend(op)
	case "rcv":
		p.execRelay(cbRecv, op)
	case "ack":
		p.execRelay(cbAck, op)
	case "tmo":
		p.execRelay(cbTmo, op)
	case "blk":
		if op.C < 0 || op.C > 1 {
			w.Noop()
			return
		}
		p.block(op.C)
	case "dir":
		p.dir.exec(op)
	default:
		w.Noop()
	}
	w.MixSig(op.K)
}

// gasFor resolves a gas code against the dry-run gas of the message and the committed limit.
func cbGasFor(code int64, base, lc uint64, last *cbAttempt) (uint64, int) {
	if code < 0 {
		code = 0
	}
	rung, off := int(code&7), uint64(code>>3)
	if rung == 4 && (last == nil || last.Limit >= lc) {
		rung = 3
	}
	switch rung {
	case 1:
		return base * (300 + off%650) / 1000, rung
	case 2:
		return base + off%lc, rung
	case 3:
		g := base + lc + off%8192
		if g > 4096 {
			g -= 4096
		}
		return g, rung
	case 4:
		return last.Gas + (lc - last.Limit) + off%5 - 2, rung
	case 5:
		return base + lc + 20000 + off%100000, rung
	default:
		return base + cbChainMax + 300_000, 0
	}
}

func (p *CB) execSend(op sim.Op) {
	w := p.w
	spec, ok := parseCBSpec(op.S)
	if !ok || op.C < 0 || op.C > 1 || op.P < 0 || op.P >= len(p.Routes) || op.N <= 0 || op.T <= 0 || p.Pkts[op.T] != nil {
		w.Noop()
		return
	}
	rt := p.Routes[op.P]
	src, dst := p.C[op.C], p.C[1-op.C]
	sender := src.Accounts[cbAccUserFrom+int(op.M/10)%(cbAccUserTo-cbAccUserFrom)]
	receiver := dst.Accounts[cbAccUserFrom+int(op.T)%(cbAccUserTo-cbAccUserFrom)]
	doomed := op.M%10 == 1
	tmo := p.clk.Now.Add(6 * time.Hour)
	if doomed {
		tmo = p.clk.Now.Add(25 * time.Second)
	}
	tmo = tmo.Truncate(time.Second)
	ts := uint64(tmo.UnixNano())
	if rt.V2 {
		ts = uint64(tmo.Unix())
	}
	msg := transfertypes.NewMsgTransfer(transfertypes.PortID, rt.ID[op.C], sdk.NewCoin("ufoo", sdkmath.NewInt(op.N)),
		sender.String(), receiver.String(), clienttypes.ZeroHeight(), ts, spec.Memo(op.T))
	k := &cbPkt{Tag: op.T, Route: op.P, Src: op.C, V2: rt.V2, Amount: op.N, Sender: sender.String(), Receiver: receiver.String(), Spec: spec, Timeout: tmo, Doomed: doomed}
	p.deliver(src, cbSend, []*cbPkt{k}, sender, op.X, msg)
}

// execRelay delivers the receive / acknowledgement / timeout message(s) of one or two packets.
func (p *CB) execRelay(typ int, op sim.Op) {
	w := p.w
	eligible := func(k *cbPkt) bool {
		if k == nil || k.Done {
			return false
		}
		switch typ {
		case cbRecv:
			return !k.Recvd && !k.Doomed && p.clk.Now.Add(10*time.Minute).Before(k.Timeout)
		case cbAck:
			return k.Recvd
		default:
			return k.Doomed && !k.Recvd
		}
	}
	first := p.Pkts[op.T]
	if !eligible(first) {
		w.Noop()
		return
	}
	pkts := []*cbPkt{first}
	if second := p.Pkts[op.N]; op.N != op.T && eligible(second) && second.Route == first.Route && second.Src == first.Src {
		pkts = append(pkts, second)
		w.Stats.Probe("cb_two_message_relay")
	}
	rt := p.Routes[first.Route]
	src, dst := p.C[first.Src], p.C[1-first.Src]
	on, other := src, dst // chain that executes the message, chain that is proven
	if typ == cbRecv {
		on, other = dst, src
	}
	// the state to prove must be committed and one block old
	need := int64(0)
	for _, k := range pkts {
		switch typ {
		case cbRecv:
			need = max(need, k.SentAt+1)
		case cbAck:
			need = max(need, k.RecvH+1)
		default:
			if !p.clk.Now.After(k.Timeout.Add(2 * time.Second)) {
				p.clk.Now = k.Timeout.Add(2 * time.Second)
			}
			need = other.Height + 1 // a fresh block whose time is past the timeout
		}
	}
	for other.Height < need {
		p.block(other.Idx)
	}
	h := other.Height
	client := rt.Client[on.Idx]
	if int64(on.clientLatest(client).RevisionHeight) < h {
		rl := on.Accounts[cbAccRelayer]
		r := on.Deliver(p.clk.Tick(sim.DefaultBlockInterval), rl, 0, cbMsgUpdateTo(on, client, other, h, rl.String()))
		if !r.OK() {
			sim.Failf("callbacks: honest client update on %s failed: %s", on.ID, r.Log)
		}
	}
	relayer := on.Accounts[cbAccRelayer+1]
	var msgs []sdk.Msg
	for _, k := range pkts {
		msgs = append(msgs, p.relayMsg(typ, k, other, h, relayer.String()))
	}
	p.deliver(on, typ, pkts, relayer, op.X, msgs...)
}

func (p *CB) relayMsg(typ int, k *cbPkt, proven *cbChain, h int64, signer string) sdk.Msg {
	switch {
	case typ == cbRecv && k.V2:
		proof, ph := proven.IBCProof(hostv2.PacketCommitmentKey(k.P2.SourceClient, k.P2.Sequence), h)
		return channeltypesv2.NewMsgRecvPacket(k.P2, proof, ph, signer)
	case typ == cbRecv:
		proof, ph := proven.IBCProof(host.PacketCommitmentKey(k.P1.SourcePort, k.P1.SourceChannel, k.P1.Sequence), h)
		return channeltypes.NewMsgRecvPacket(k.P1, proof, ph, signer)
	case typ == cbAck && k.V2:
		proof, ph := proven.IBCProof(hostv2.PacketAcknowledgementKey(k.P2.DestinationClient, k.P2.Sequence), h)
		return channeltypesv2.NewMsgAcknowledgement(k.P2, k.Ack2, proof, ph, signer)
	case typ == cbAck:
		proof, ph := proven.IBCProof(host.PacketAcknowledgementKey(k.P1.DestinationPort, k.P1.DestinationChannel, k.P1.Sequence), h)
		return channeltypes.NewMsgAcknowledgement(k.P1, k.Ack1, proof, ph, signer)
	case k.V2:
		proof, ph := proven.IBCProof(hostv2.PacketReceiptKey(k.P2.DestinationClient, k.P2.Sequence), h)
		return channeltypesv2.NewMsgTimeout(k.P2, proof, ph, signer)
	default:
		proof, ph := proven.IBCProof(host.PacketReceiptKey(k.P1.DestinationPort, k.P1.DestinationChannel, k.P1.Sequence), h)
		return channeltypes.NewMsgTimeout(k.P1, 1, proof, ph, signer)
	}
}

// side returns the callback request of the memo that governs callback type typ.
func (k *cbPkt) side(typ int) cbSide {
	if typ == cbRecv {
		return k.Spec.Dst
	}
	return k.Spec.Src
}

// deliver measures the message with a dry run, resolves the gas code, executes the transaction
// alone in a block and hands everything to the oracles.
func (p *CB) deliver(on *cbChain, typ int, pkts []*cbPkt, signer *cbAccount, code int64, msgs ...sdk.Msg) {
	base, dryErr := on.DryRun(signer, msgs...)
	lc := cbChainMax
	if s := pkts[0].side(typ); s.On {
		lc = cbCommitLimit(s, cbChainMax)
	}
	gas, rung := cbGasFor(code, base, lc, pkts[0].Last[typ])
	if gas == 0 {
		gas = 1
	}
	before := p.snap(on)
	tx := &cbTx{Msgs: msgs, Signer: signer, Gas: gas}
	r := on.Block(p.clk.Tick(sim.DefaultBlockInterval), []*cbTx{tx})[0]
	calls := on.K.Take()
	after := p.snap(on)
	for _, k := range pkts {
		k.Tries++
	}
	p.w.Tracef("  %s of %v on %s: gas %d (rung %d, base %d, committed limit %d) -> code %d %s gasUsed %d, %d callback calls", cbTypeNames[typ], pkts, on.ID, gas, rung, base, lc, r.Code, r.Space, r.GasUsed, len(calls))
	// the world's signature follows the real chains: app hash and gas of every judged transaction
	p.w.MixSig(fmt.Sprintf("%s/%d/%x/%d/%d", on.ID, on.Height, on.App.LastCommitID().Hash, r.Code, r.GasUsed))
	if !r.OK() && !cbIsOutOfGas(r) {
		p.w.Tracef("  failure log: %.6000s", r.Log)
	}
	p.judge(&cbJudged{On: on, Typ: typ, Pkts: pkts, Res: r, Tx: tx, Gas: gas, Rung: rung, Base: base, DryErr: dryErr, Calls: calls, Before: before, After: after})
}

// parse helpers for what a committed transaction produced ---------------------------------------

func (p *CB) packetFromSend(k *cbPkt, r *cbRes) {
	if k.V2 {
		pk, err := ibctesting.ParseV2PacketFromEvents(r.Events)
		sim.Must(err, "parse v2 packet from transfer events")
		k.P2 = pk
	} else {
		pk, err := ibctesting.ParseV1PacketFromEvents(r.Events)
		sim.Must(err, "parse v1 packet from transfer events")
		k.P1 = pk
	}
}

// ackFromEvents finds the acknowledgement written for packet k in the events of a receive tx.
func cbAckFromEvents(k *cbPkt, r *cbRes) bool {
	for _, ev := range sim.EventsOfType(r.Events, channeltypes.EventTypeWriteAck) {
		if sim.Attr(ev, channeltypes.AttributeKeySequence) != strconv.FormatUint(k.Seq(), 10) {
			continue
		}
		if k.V2 {
			ack, ok := sim.AckV2FromEvents([]abci.Event{ev})
			if !ok || len(ack.AppAcknowledgements) == 0 {
				continue
			}
			k.Ack2 = ack
			k.AckOK = ack.Success()
			return true
		}
		bz, ok := sim.AckV1FromEvents([]abci.Event{ev})
		if !ok {
			continue
		}
		var ack channeltypes.Acknowledgement
		if err := transfertypes.ModuleCdc.UnmarshalJSON(bz, &ack); err != nil {
			sim.Failf("callbacks: undecodable v1 acknowledgement %q: %v", bz, err)
		}
		k.Ack1 = bz
		k.AckOK = ack.Success()
		return true
	}
	return false
}
