package prof

import (
	"fmt"
	"sort"
	"strings"
	"time"

	sdkmath "cosmossdk.io/math"

	sdk "github.com/cosmos/cosmos-sdk/types"

	ratelimittypes "github.com/cosmos/ibc-go/v11/modules/apps/rate-limiting/types"

	"verif/ibcsim/sim"
)

// ---- rate limiting (C41, C42) ------------------------------------------------------------------
//
// Reference model per (chain, denomination, channel-or-client id):
//
//	value   supply of the denomination when the window started
//	in/out  amounts accepted in the current window minus those undone in this window
//	pendS   sequences of sends charged in this window (an undo applies at most once, and only
//	        to a packet charged in the current window)
//
// accept a send iff  out - in + a <= value*send%/100   (value == 0: no limit)
// accept a recv iff  in - out + a <= value*recv%/100
//
// Windows: when the hourly epoch logic fires is observed, not predicted (the property fixes the
// accounting between resets); an observed begin-block change is accepted only if it is a full
// reset of that path. Administrative add/update/remove/reset are modelled from their messages.

type rlKey struct {
	ci    int
	denom string
	ch    string
}

type rlModel struct {
	send, recv sdkmath.Int
	dur        uint64
	value      sdkmath.Int
	in, out    sdkmath.Int
	pendS      map[uint64]bool
	pendR      map[uint64]bool
}

func (m *rlModel) reset(value sdkmath.Int) {
	m.value, m.in, m.out = value, sdkmath.ZeroInt(), sdkmath.ZeroInt()
	m.pendS, m.pendR = map[uint64]bool{}, map[uint64]bool{}
}

func exceeds(net, value, pct sdkmath.Int) bool {
	if value.IsZero() {
		return false
	}
	return net.GT(value.Mul(pct).Quo(sdkmath.NewInt(100)))
}

type rlObs struct {
	in, out, value sdkmath.Int
	send, recv     sdkmath.Int
	dur            uint64
}

func (p *Core) rlObserve(ci int) map[rlKey]rlObs {
	c := p.C[ci]
	out := map[rlKey]rlObs{}
	for _, r := range c.App.RateLimitKeeper.GetAllRateLimits(c.QueryCtx()) {
		out[rlKey{ci, r.Path.Denom, r.Path.ChannelOrClientId}] = rlObs{in: r.Flow.Inflow, out: r.Flow.Outflow, value: r.Flow.ChannelValue,
			send: r.Quota.MaxPercentSend, recv: r.Quota.MaxPercentRecv, dur: r.Quota.DurationHours}
	}
	return out
}

// epochDue reports whether the next block of chain ci at time t will start a new hour epoch
// (scheduling aid: such blocks are produced empty so that begin-block resets are isolated).
func (p *Core) epochDue(ci int, t time.Time) bool {
	c := p.C[ci]
	ep, err := c.App.RateLimitKeeper.GetHourEpoch(c.QueryCtx())
	if err != nil || ep.Duration == 0 {
		return false
	}
	return t.After(ep.EpochStartTime.Add(ep.Duration))
}

// rlIsolateEpochs produces empty blocks while an epoch start is due, so that the following
// block with transactions carries no begin-block rate-limit change.
func (p *Core) rlIsolateEpochs(ci int) {
	if !p.Opt.RateLimit {
		return
	}
	c := p.C[ci]
	if len(c.Mempool) == 0 {
		return
	}
	for i := 0; i < 64 && p.epochDue(ci, p.chainTime(ci)); i++ {
		saved := c.Mempool
		c.Mempool = nil
		p.taps = p.taps[:0]
		res := c.Block(p.chainTime(ci), nil)
		p.afterBlock(ci, res)
		c.Mempool = saved
		p.tick(time.Nanosecond)
		p.w.Stats.Probe("empty_block_isolating_rate_limit_epoch")
	}
}

func (p *Core) genRateAdmin() []sim.Op {
	w := p.w
	if !p.Opt.RateLimit {
		return nil
	}
	rs := p.xferRoutes()
	if len(rs) == 0 {
		return nil
	}
	ri := rs[w.Intn(len(rs))]
	r := p.Routes[ri]
	e := w.Intn(2)
	ci := r.Chain[e].Idx
	// existing limits on this chain
	var have []rlKey
	for k := range p.tok.rl {
		if k.ci == ci {
			have = append(have, k)
		}
	}
	sort.Slice(have, func(i, j int) bool { return have[i].denom+have[i].ch < have[j].denom+have[j].ch })
	kind := "add"
	if len(have) > 0 {
		kind = []string{"add", "add", "update", "reset", "remove"}[w.Intn(5)]
	}
	quota := func() (int64, int64) {
		if p.Opt.TightQuota {
			return int64(w.Intn(3)), int64(w.Intn(3)) // 0..2 % of a small voucher supply: frequently binding
		}
		return 100, 100
	}
	if kind != "add" {
		k := have[w.Intn(len(have))]
		s, rc := quota()
		return []sim.Op{{K: "rladm", C: ci, S: strings.Join([]string{kind, k.denom, k.ch}, ";"), N: s, M: rc, X: int64(1 + w.Intn(3))}}
	}
	idx := 2 + w.Intn(6)
	ds := p.heldDenoms(ci, idx)
	if len(ds) == 0 {
		return nil
	}
	// prefer vouchers: their small supply makes quotas bind
	denom := ds[w.Intn(len(ds))]
	for _, d := range ds {
		if strings.HasPrefix(d, "ibc/") && w.Chance(0.6) {
			denom = d
			break
		}
	}
	s, rc := quota()
	return []sim.Op{{K: "rladm", C: ci, S: strings.Join([]string{"add", denom, r.ID[e]}, ";"), N: s, M: rc, X: int64(1 + w.Intn(3))}}
}

// execRateAdmin runs a rate-limit administration message through the real gov module.
func (p *Core) execRateAdmin(op sim.Op) {
	w := p.w
	parts := strings.Split(op.S, ";")
	if op.C < 0 || op.C >= len(p.C) || len(parts) != 3 || !p.Opt.RateLimit {
		w.Noop()
		return
	}
	kind, denom, ch := parts[0], parts[1], parts[2]
	auth := sim.Authority()
	var msg sdk.Msg
	switch kind {
	case "add":
		m := ratelimittypes.NewMsgAddRateLimit(denom, ch, sdkmath.NewInt(op.N), sdkmath.NewInt(op.M), uint64(op.X))
		m.Signer = auth
		msg = m
	case "update":
		m := ratelimittypes.NewMsgUpdateRateLimit(denom, ch, sdkmath.NewInt(op.N), sdkmath.NewInt(op.M), uint64(op.X))
		m.Signer = auth
		msg = m
	case "remove":
		m := ratelimittypes.NewMsgRemoveRateLimit(denom, ch)
		m.Signer = auth
		msg = m
	case "reset":
		m := ratelimittypes.NewMsgResetRateLimit(denom, ch)
		m.Signer = auth
		msg = m
	default:
		w.Noop()
		return
	}
	k := rlKey{op.C, denom, ch}
	_, had := p.tok.rl[k]
	supplyBefore := p.tok.bank[op.C].get(supplyKey, denom)
	passed, why := p.gov(op.C, "rate limit "+kind, msg)
	w.Stats.NonTrivial(fmt.Sprintf("rladm:%s:had=%v:passed=%v", kind, had, passed))
	if !passed {
		w.Stats.Probe("rate_limit_admin_failed")
		w.Tracef("rate limit admin %s failed: %s", kind, why)
		return
	}
	supply := p.tok.bank[op.C].get(supplyKey, denom)
	_ = supplyBefore
	switch kind {
	case "add":
		m := &rlModel{send: sdkmath.NewInt(op.N), recv: sdkmath.NewInt(op.M), dur: uint64(op.X)}
		m.reset(supply)
		p.tok.rl[k] = m
	case "update":
		if m := p.tok.rl[k]; m != nil {
			// an update starts a new window with fresh quotas (flows zero, value = current supply)
			m.send, m.recv, m.dur = sdkmath.NewInt(op.N), sdkmath.NewInt(op.M), uint64(op.X)
			m.reset(supply)
		}
	case "remove":
		delete(p.tok.rl, k)
	case "reset":
		if m := p.tok.rl[k]; m != nil {
			m.reset(supply)
		}
	}
	w.Stats.Probe("rate_limit_admin_" + kind)
	p.rlCompare(op.C, "after administration")
}

// gov runs privileged messages through the real gov module on chain ci: proposal by the genesis
// delegator, yes vote, then a block after the voting period (the proposal executes in EndBlock).
func (p *Core) gov(ci int, title string, msgs ...sdk.Msg) (bool, string) {
	c := p.C[ci]
	g := c.Accounts[sim.AccGov]
	if len(c.Mempool) > 0 {
		p.block(ci)
	}
	one := func(label string, m sdk.Msg) *sim.TxResult {
		c.Submit(&sim.TxSpec{Msgs: []sdk.Msg{m}, Signer: g, Label: label})
		p.tick(time.Second)
		return p.block(ci)[0]
	}
	r := one("gov-submit", c.MsgGovProposal(title, msgs...))
	if !r.OK() {
		return false, "submit: " + firstLine(r.Log)
	}
	id, ok := sim.ProposalID(r)
	if !ok {
		return false, "no proposal id"
	}
	if r = one("gov-vote", c.MsgVoteYes(id)); !r.OK() {
		return false, "vote: " + firstLine(r.Log)
	}
	p.tick(c.GovVotingPeriod() + time.Second)
	p.dirty = true // the proposal's messages execute in EndBlock, outside any transaction
	p.govBlock = true
	p.block(ci)
	st, why := c.ProposalStatus(id)
	for i := 0; i < 8 && st.String() == "PROPOSAL_STATUS_VOTING_PERIOD"; i++ {
		// the chain's clock lags the world clock (skew, monotone clamp): give it more time
		p.tick(c.GovVotingPeriod())
		p.dirty = true
		p.block(ci)
		st, why = c.ProposalStatus(id)
	}
	p.govBlock = false
	if st.String() != "PROPOSAL_STATUS_PASSED" {
		return false, st.String() + ": " + why
	}
	return true, ""
}

// rlSend: a transfer was accepted on (denom, channel): charge the model.
func (p *Core) rlSend(ci int, ch, denom string, amt sdkmath.Int, seq uint64, ps *PktState) {
	m := p.tok.rl[rlKey{ci, denom, ch}]
	if m == nil {
		return
	}
	if exceeds(m.out.Sub(m.in).Add(amt), m.value, m.send) {
		p.w.Violate("C41", "send-accepted-over-quota", "", fmt.Sprintf("%s: send of %s %s on %s accepted although net outflow %s + %s exceeds %s%% of the channel value %s", ps.Pkt, amt, denom, ch, m.out.Sub(m.in), amt, m.send, m.value))
	}
	m.out = m.out.Add(amt)
	m.pendS[seq] = true
	p.w.Stats.Probe("rate_limited_send_charged")
}

// rlRecvAllowed: would the model accept this receive on (denom, channel)?
func (p *Core) rlRecvAllowed(ci int, ch, denom string, amt sdkmath.Int) (bool, *rlModel) {
	m := p.tok.rl[rlKey{ci, denom, ch}]
	if m == nil {
		return true, nil
	}
	return !exceeds(m.in.Sub(m.out).Add(amt), m.value, m.recv), m
}

// rlUndoSend: the packet was refunded: undo its charge if it was charged in this window.
func (p *Core) rlUndoSend(ci int, ch, denom string, amt sdkmath.Int, seq uint64) {
	m := p.tok.rl[rlKey{ci, denom, ch}]
	if m == nil {
		return
	}
	if m.pendS[seq] {
		m.out = m.out.Sub(amt)
		if m.out.IsNegative() {
			m.out = sdkmath.ZeroInt()
		}
		delete(m.pendS, seq)
		p.w.Stats.Probe("rate_limited_send_undone")
	} else {
		p.w.Stats.Probe("rate_limited_refund_of_packet_from_earlier_window")
	}
}

func (p *Core) rlAckSuccess(ci int, ch, denom string, seq uint64) {
	if m := p.tok.rl[rlKey{ci, denom, ch}]; m != nil {
		delete(m.pendS, seq)
	}
}

// rlCompare: observed rate-limit state of chain ci vs the model.
func (p *Core) rlCompare(ci int, when string) {
	w := p.w
	if !w.AnyArmed("C41", "C42") {
		return
	}
	obs := p.rlObserve(ci)
	var keys []rlKey
	seen := map[rlKey]bool{}
	for k := range obs {
		if !seen[k] {
			seen[k] = true
			keys = append(keys, k)
		}
	}
	for k := range p.tok.rl {
		if k.ci == ci && !seen[k] {
			seen[k] = true
			keys = append(keys, k)
		}
	}
	sort.Slice(keys, func(i, j int) bool { return keys[i].denom+"|"+keys[i].ch < keys[j].denom+"|"+keys[j].ch })
	for _, k := range keys {
		o, oh := obs[k]
		m := p.tok.rl[k]
		switch {
		case oh && m == nil:
			w.Violate("C41", "unexpected-rate-limit", "", fmt.Sprintf("%s %s: rate limit (%s, %s) exists but the model has none", p.C[ci].ID, when, k.denom, k.ch))
		case !oh && m != nil:
			w.Violate("C41", "rate-limit-vanished", "", fmt.Sprintf("%s %s: rate limit (%s, %s) is gone", p.C[ci].ID, when, k.denom, k.ch))
		case oh && m != nil:
			if !o.in.Equal(m.in) || !o.out.Equal(m.out) || !o.value.Equal(m.value) {
				d := fmt.Sprintf("%s %s: rate limit (%s, %s) records inflow %s outflow %s value %s; the accepted-minus-undone transfers of the current window give inflow %s outflow %s value %s", p.C[ci].ID, when, k.denom, k.ch, o.in, o.out, o.value, m.in, m.out, m.value)
				w.Violate("C41", "flow-differs-from-model", p.rlSig, d)
				w.Violate("C42", "flow-differs-from-model", p.rlSig, d)
			}
		}
	}
	w.Stats.Probe("rate_limit_state_compared")
}

// rlAfterBlock: an empty block may carry a begin-block window reset: accept full resets only.
func (p *Core) rlAfterBlock(ci int, res []*sim.TxResult) {
	if !p.Opt.RateLimit {
		return
	}
	w := p.w
	quiet := true // no transaction of this block can move a flow
	for _, r := range res {
		switch r.Spec.Label {
		case "gov-submit", "gov-vote", "upd", "donate":
		default:
			quiet = false
		}
	}
	if quiet {
		obs := p.rlObserve(ci)
		for k, m := range p.tok.rl {
			if k.ci != ci {
				continue
			}
			o, ok := obs[k]
			if !ok {
				continue
			}
			changed := !o.in.Equal(m.in) || !o.out.Equal(m.out) || !o.value.Equal(m.value)
			if !changed {
				continue
			}
			supply := p.tok.bank[ci].get(supplyKey, k.denom)
			if o.in.IsZero() && o.out.IsZero() && o.value.Equal(supply) {
				m.reset(supply)
				w.Stats.Probe("rate_limit_window_reset_observed")
				w.Stats.NonTrivial("rl-reset:dur=" + fmt.Sprint(m.dur))
			}
		}
	}
	if p.govBlock {
		return // the administrator of this block updates the model first, then compares
	}
	p.rlCompare(ci, fmt.Sprintf("after block %d", p.C[ci].Height))
}
