#!/bin/bash
# Builds the simulator binaries from /repo's current working tree (through the replace
# directive in ibcsim/go.mod). Offline: module cache only. Serialised with a lock so that
# concurrent checks do not race on the output file.
set -u
VERIF="$(cd "$(dirname "$0")" && pwd)"
WHAT="${1:-ibcsim}"
export GOFLAGS=-mod=mod GOPROXY=off
unset GOSUMDB GOTOOLCHAIN 2>/dev/null || true
mkdir -p "$VERIF/bin"
exec 9>"$VERIF/bin/.build.lock"
flock 9
case "$WHAT" in
  ibcsim)
    cd "$VERIF/ibcsim" || exit 2
    cp /repo/go.sum "$VERIF/ibcsim/go.sum.repo" 2>/dev/null || true
    # built in place: when nothing changed since the last build the go tool finds the binary up to
    # date and skips the (slow) link step; any change in /repo or here rebuilds
    go build -o "$VERIF/bin/ibcsim" ./cmd/ibcsim || exit 2
    ;;
  wasmsim)
    # separate module: 08-wasm is its own Go module (cgo, libwasmvm); serves C29
    cd "$VERIF/wasmsim" || exit 2
    go build -o "$VERIF/bin/wasmsim" . || exit 2
    ;;
  *) echo "unknown build target $WHAT" >&2; exit 2;;
esac
