#!/bin/bash
# tools/sweep.sh <seed> [tier] [ids...]: runs every registered check (or the given ones) once with
# VERIF_SEED=<seed> and prints one line per check; exit 1 if any check did not exit 0.
SEED="${1:-1}"; TIER="${2:-quick}"; shift 2 2>/dev/null
cd "$(dirname "$0")/.." || exit 2
IDS="$*"
[ -n "$IDS" ] || IDS=$(python3 -c "import json;print(' '.join(c['property_id'] for c in json.load(open('MANIFEST.json'))['checks']))")
BAD=0
for P in $IDS; do
  OUT=$(VERIF_SEED=$SEED ./check "$P" --tier "$TIER" 2>&1); RC=$?
  echo "seed=$SEED $P rc=$RC $(echo "$OUT" | grep -E "^$P (quick|thorough):" | tail -1)"
  if [ $RC -ne 0 ]; then BAD=1; echo "$OUT" | grep -E "VIOLATION|violation found|harness|required" | head -5; fi
done
exit $BAD
