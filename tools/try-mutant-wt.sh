#!/bin/bash
# tools/try-mutant-wt.sh <patch.diff> <prop> [<prop>...]
# Like try-mutant.sh but never touches /repo or /verif/evidence: the change is applied to a
# fresh scratch worktree of /repo, a scratch copy of the harness is pointed at it, built and
# run, and everything is removed afterwards. Safe to use while other jobs build against /repo.
# (The registered way - git -C /repo apply; ./check; git -C /repo checkout -- . - is
# try-mutant.sh; both build the same sources.)
# Environment: TIER (quick|thorough), WORLDS, SEED.
set -u
PATCH="$(readlink -f "$1")"; shift
ID="tmw-$$"
WT="/tmp/$ID"; H="/var/tmp/$ID"
cleanup() { git -C /repo worktree remove --force "$WT" >/dev/null 2>&1; rm -rf "$H" "$WT"; }
trap cleanup EXIT
git -C /repo worktree add --detach "$WT" HEAD >/dev/null 2>&1 || { echo "worktree failed" >&2; exit 2; }
git -C "$WT" apply "$PATCH" || { echo "patch does not apply" >&2; exit 2; }
mkdir -p "$H/evidence" "$H/replays"
cp -r /verif/ibcsim "$H/ibcsim"
cp /verif/known_findings.json "$H/"
sed -i "s#=> /repo\$#=> $WT#" "$H/ibcsim/go.mod"
export GOFLAGS=-mod=mod GOPROXY=off
unset GOSUMDB GOTOOLCHAIN 2>/dev/null || true
( cd "$H/ibcsim" && go build -o "$H/ibcsim.bin" ./cmd/ibcsim ) >"$H/build.log" 2>&1 || { echo "BUILD FAILED with patch: $(tail -3 "$H/build.log")"; exit 2; }
for P in "$@"; do
  OUT=$(VERIF_SEED="${SEED:-1}" "$H/ibcsim.bin" check -prop "$P" -tier "${TIER:-quick}" -verif "$H" ${WORLDS:+-worlds $WORLDS} 2>&1)
  RC=$?
  case $RC in
    1) echo "$P CAUGHT: $(echo "$OUT" | grep -m1 'violation found' | cut -c1-400)";;
    0) echo "$P MISSED";;
    *) echo "$P ERROR($RC): $(echo "$OUT" | tail -2 | tr '\n' ' ' | cut -c1-300)";;
  esac
done
