#!/bin/bash
# tools/try-mutant.sh <patch.diff> <prop> [<prop>...]
# Applies a seeded change to /repo's working tree, runs the quick checks of the given
# properties, and restores the tree. Prints one line per property: CAUGHT / MISSED / ERROR.
# Environment: TIER (quick|thorough), WORLDS (override number of worlds).
set -u
PATCH="$1"; shift
cd /repo || exit 2
if [ -n "$(git status --porcelain)" ]; then echo "/repo working tree is not clean" >&2; exit 2; fi
git apply "$PATCH" || { echo "patch does not apply" >&2; exit 2; }
trap 'git -C /repo checkout -- . ; git -C /repo clean -fdq -- modules testing 2>/dev/null' EXIT
cd /verif || exit 2
./build.sh ibcsim >/dev/null 2>&1 || { echo "BUILD FAILED with patch"; exit 2; }
for P in "$@"; do
  OUT=$(./bin/ibcsim check -prop "$P" -tier "${TIER:-quick}" ${WORLDS:+-worlds $WORLDS} 2>&1)
  RC=$?
  case $RC in
    1) echo "$P CAUGHT: $(echo "$OUT" | grep -m1 'violation found' | cut -c1-400)";;
    0) echo "$P MISSED";;
    *) echo "$P ERROR($RC): $(echo "$OUT" | tail -2 | tr '\n' ' ' | cut -c1-300)";;
  esac
done
