#!/usr/bin/env python3
"""tools/keep-mutant.py <prop> <n> <confirm-line> <caught-by text> [<note>]
Copies /tmp/mut-<prop>/out/<n>/{patch.diff,demo_test.go,meta.json} to /verif/seeded/<prop>-<n>/
and extends meta.json with what was confirmed and which checks catch it."""
import json, os, shutil, sys

prop, n, confirm, caught = sys.argv[1:5]
note = sys.argv[5] if len(sys.argv) > 5 else ""
src = f"/tmp/mut-{prop}/out/{n}"
dst = f"/verif/seeded/{prop}-{n}"
os.makedirs(dst, exist_ok=True)
for f in ("patch.diff", "demo_test.go"):
    shutil.copy(os.path.join(src, f), os.path.join(dst, f))
try:
    meta = json.load(open(os.path.join(src, "meta.json")))
except Exception:
    meta = {"property": prop}
meta["breaks_property"] = prop
meta["confirmed_by_me"] = confirm
meta["what_i_ran"] = [
    f"tools/confirm-mutant.sh /tmp/mut-{prop}/out/{n} /tmp/mut-{prop}  (scratch worktree: build, touched packages' tests, demo with/without the change)",
    f"tools/try-mutant.sh /verif/seeded/{prop}-{n}/patch.diff <checks>  (git -C /repo apply, quick checks, git -C /repo checkout -- .)",
]
meta["caught_by"] = caught
if note:
    meta["strengthening"] = note
json.dump(meta, open(os.path.join(dst, "meta.json"), "w"), indent=1)
print("kept", dst)
