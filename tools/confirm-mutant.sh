#!/bin/bash
# tools/confirm-mutant.sh <out-dir-with-patch+demo+meta> <scratch-worktree>
# Independently confirms a seeded change in a scratch worktree of /repo (never in /repo):
#   1. patch applies and the repository builds
#   2. the demonstration FAILS with the change
#   3. the existing tests of the touched packages and of their dependants in modules/core,
#      modules/apps and testing PASS with the change (the demo file excluded)
#   4. the demonstration PASSES without the change
# Prints CONFIRMED or NOT-CONFIRMED with the reason; leaves the worktree clean.
set -u
OUT="$1"; WT="$2"
export GOFLAGS=-mod=mod GOPROXY=off
cd "$WT" || exit 2
git checkout -q -- . ; git clean -fdq -- modules testing 2>/dev/null
DIR=$(python3 -c "import json,sys;print(json.load(open('$OUT/meta.json'))['demo']['dir'])" 2>/dev/null)
[ -n "$DIR" ] || { echo "NOT-CONFIRMED: no demo dir in meta.json"; exit 1; }
DIR="${DIR#./}"; DIR="${DIR%/}"
TOP=$(grep -o "^func Test[A-Za-z0-9_]*" "$OUT/demo_test.go" | sed 's/.* //' | paste -sd'|')
METH=$(grep -o "^func ([a-z]* \*[A-Za-z]*) Test[A-Za-z0-9_]*" "$OUT/demo_test.go" | sed 's/.* //' | paste -sd'|')
if [ -n "$METH" ]; then RUN="/^($METH)\$"; else RUN="^($TOP)\$"; fi
[ -n "$TOP$METH" ] || { echo "NOT-CONFIRMED: no test function in demo"; exit 1; }
cleanup() { git checkout -q -- . ; rm -f "$WT/$DIR/zz_demo_seeded_test.go"; }
trap cleanup EXIT
git apply "$OUT/patch.diff" || { echo "NOT-CONFIRMED: patch does not apply"; exit 1; }
go build ./... >/dev/null 2>&1 || { echo "NOT-CONFIRMED: does not build"; exit 1; }
# existing tests of the touched packages (without the demo)
PKGS=$(git diff --name-only | xargs -n1 dirname | sort -u | sed 's#^#./#' | paste -sd' ')
if ! go test -p 4 -count=1 -timeout 120m $PKGS ./modules/core/keeper/... ./modules/core/04-channel/... >"$OUT/confirm_existing.log" 2>&1; then
  echo "NOT-CONFIRMED: existing tests fail with the change (see confirm_existing.log)"; exit 1
fi
cp "$OUT/demo_test.go" "$WT/$DIR/zz_demo_seeded_test.go"
if go test -p 4 -count=1 -timeout 120m -run "$RUN" "./$DIR/" >"$OUT/confirm_demo_with.log" 2>&1; then
  echo "NOT-CONFIRMED: demo passes WITH the change"; exit 1
fi
grep -q "FAIL" "$OUT/confirm_demo_with.log" || { echo "NOT-CONFIRMED: demo did not run (build error?)"; exit 1; }
git checkout -q -- .
if ! go test -p 4 -count=1 -timeout 120m -run "$RUN" "./$DIR/" >"$OUT/confirm_demo_without.log" 2>&1; then
  echo "NOT-CONFIRMED: demo fails WITHOUT the change"; exit 1
fi
echo "CONFIRMED: builds; touched packages' tests pass; demo ($RUN in $DIR) fails with and passes without the change"
