#!/usr/bin/env python3
"""Regenerates /verif/MANIFEST.json from the table below (kept by hand, one entry per claimed
property) and validates it against the schema. Properties not in CLAIMED are listed under
not_applicable with their reason."""
import json, os, sys

HERE = os.path.dirname(os.path.dirname(os.path.abspath(__file__)))
props = [json.loads(l) for l in open(os.path.join(HERE, "properties.jsonl"))]

PURE = {
    "C07": "pure hash-layout functions of their arguments (CommitPacket/CommitAcknowledgement); no schedule, clock, fault, peer or history to simulate",
    "C17": "pure comparisons over 64-bit values; no schedule, clock, fault or history",
    "C18": "pure function of (proof, root, path, value); single call, single thread",
    "C34": "pure string/hash functions of the denomination path and identifiers",
    "C35": "pure codecs (round-trip / no-panic decoding); input generation only, nothing to schedule or fault",
    "C47": "pure stateless validation of input bytes; input generation only",
    "C48": "pure function of a registration list built once at app wiring; the only nondeterminism is Go's unpinnable map seed",
}
NOT_YET = "check not built yet in this framework (no claim is made; see DESIGN.md section 8 for the planned simulation)"

TRUST = ("Trusted: Cosmos SDK baseapp/store/IAVL, CometBFT light verification, ics23 as used by the real code; "
         "the harness chain driver, ghost model and store census (exercised by seeded-mutant sensitivity runs, DESIGN.md section 13). "
         "Seeded search: a clean batch is evidence within the stated bounds, not proof.")

# id -> (category, text, technique, design_ref)
CLAIMED = {
    "C01": ("exploration",
            "Seeded deterministic simulation of 2 real chains (testing/simapp) with scripted mock apps on v1 unordered/ordered channels, v2 clients, v2-over-alias and localhost; relayers duplicate, replay, reorder and race relay messages with real Merkle proofs at any height the run produced. Invariant after every block: receive callbacks committed per (destination id, sequence) <= 1; blocks made only of redundant receives have an empty store diff. Right level: the property quantifies over relay histories, which the simulator samples with controlled faults.",
            "deterministic simulation: seeded relay-fault schedules over real chains, callback taps + store diff oracle", "8 C01"),
}

checks = []
na = []
for p in props:
    i = p["id"]
    if i in CLAIMED:
        cat, text, tech, ref = CLAIMED[i]
        checks.append({
            "property_id": i,
            "quick_cmd": f"./check {i} --tier quick",
            "thorough_cmd": f"./check {i} --tier thorough",
            "evidence_file": f"/verif/evidence/{i}.json",
            "replay_cmd_template": f"./check {i} --replay {{path}}",
            "engine": "ibcsim",
            "level_claimed": {"category": cat, "text": text, "design_ref": "DESIGN.md section " + ref},
            "level_note": TRUST,
            "technique": tech,
        })
    else:
        na.append({"property_id": i, "reason": PURE.get(i, NOT_YET)})

base = json.load(open("/root/.vp/BASELINE.json"))
m = {
    "version": 1,
    "setup_cmd": "./setup.sh",
    "hooks": {
        "guard": "verif",
        "enable": "no hooks are needed: every fault and observation goes through existing seams (ABCI surface, header time, DB handle, gas limit, mock-app function fields); checks build /repo unmodified through a replace directive. The build tag `verif` is reserved and unused.",
        "baseline_off_cmd": base["cmd"],
        "source_commits": [],
        "add_only": True,
    },
    "engines": [{
        "name": "ibcsim",
        "path": "/verif/ibcsim",
        "serves_properties": [c["property_id"] for c in checks],
        "kind_free_text": "deterministic discrete-event simulator in Go: real chains (testing/simapp) driven through ABCI by a seeded scheduler that owns consensus, clocks, mempools, relayers, users and faults; one OS process per world batch; replay = recorded operation list; ddmin minimiser",
    }],
    "checks": checks,
    "not_applicable": na,
    "notes": "exit 2 = build/harness trouble, never a violation. known_findings.json lists genuine defects (open -> KNOWN-FINDING line, fixed -> suppresses nothing).",
}
out = os.path.join(HERE, "MANIFEST.json")
json.dump(m, open(out, "w"), indent=1)
try:
    import jsonschema
    jsonschema.validate(m, json.load(open("/root/.vp/MANIFEST.schema.json")))
    print("MANIFEST.json valid:", len(checks), "checks,", len(na), "not claimed")
except ImportError:
    print("MANIFEST.json written (jsonschema not available to validate)")
