#!/usr/bin/env python3
"""Regenerates /verif/MANIFEST.json from the table below (kept by hand, one entry per claimed
property) and validates it against the schema. Properties not in CLAIMED are listed under
not_applicable with their reason."""
import json, os, sys

HERE = os.path.dirname(os.path.dirname(os.path.abspath(__file__)))
props = [json.loads(l) for l in open(os.path.join(HERE, "properties.jsonl"))]

PURE = {
    "C07": "pure hash-layout functions of their arguments (CommitPacket/CommitAcknowledgement); no schedule, clock, fault, peer or history to simulate",
    "C17": "pure comparisons over 64-bit values; no schedule, clock, fault or history",
    "C18": "pure function of (proof, root, path, value); single call, single thread",
    "C34": "pure string/hash functions of the denomination path and identifiers",
    "C35": "pure codecs (round-trip / no-panic decoding); input generation only, nothing to schedule or fault",
    "C47": "pure stateless validation of input bytes; input generation only",
    "C48": "pure function of a registration list built once at app wiring; the only nondeterminism is Go's unpinnable map seed",
}
NOT_YET = "check not built yet in this framework (no claim is made; see DESIGN.md section 8 for the planned simulation)"

TRUST = ("Trusted: Cosmos SDK baseapp/store/IAVL, CometBFT light verification, ics23 as used by the real code; "
         "the harness chain driver, ghost model and store census (exercised by seeded-mutant sensitivity runs, DESIGN.md section 13). "
         "Seeded search: a clean batch is evidence within the stated bounds, not proof.")

# id -> (category, text, technique, design_ref)
CLAIMED = {
    "C01": ("exploration",
            "Seeded deterministic simulation of 2 real chains (testing/simapp) with scripted mock apps on v1 unordered/ordered channels, v2 clients, v2-over-alias and localhost; relayers duplicate, replay, reorder and race relay messages with real Merkle proofs at any height the run produced. Invariant after every block: receive callbacks committed per (destination id, sequence) <= 1; blocks made only of redundant receives have an empty store diff. Right level: the property quantifies over relay histories, which the simulator samples with controlled faults.",
            "deterministic simulation: seeded relay-fault schedules over real chains, callback taps + store diff oracle", "8 C01"),
    "C02": ("exploration",
            "Same simulator on ORDERED channels (tendermint-backed and localhost): relayers deliver later packets first, duplicate, replay and relay acks out of order. Invariant after every block: receive callbacks per ordered channel end run for sequences 1,2,3,... exactly; ack callbacks likewise. Sampled relay orders with out-of-order attempts confirmed committed (probes).",
            "deterministic simulation: seeded reordering/duplication of relays on ordered channels, callback-sequence oracle", "8 C02"),
    "C03": ("exploration",
            "Ack, timeout and timeout-on-close relays duplicated, replayed and raced (ack vs timeout vs receive at one simulated instant) on v1 ordered/unordered, v2, alias and localhost routes. Invariants: per sent packet at most one terminal callback; the commitment disappears with it and never returns; blocks made only of terminal relays for finished packets have an empty store diff.",
            "deterministic simulation: seeded races of ack/timeout relays, callback-count + commitment-history + store-diff oracle", "8 C03"),
    "C04": ("exploration",
            "Tight timeouts around the destination's next blocks, per-chain clock skew and jumps, early/stale/future proof heights, receive raced against timeout. Every accepted timeout is judged against the destination's REAL history kept by the simulator (state at the proof version, header time at the proof height; localhost: the executing block), every receive against the timeout at its block; nothing may be both received and timed out.",
            "deterministic simulation: clock skew/jumps + racing relays, ground-truth oracle over the destination's recorded history", "8 C04"),
    "C05": ("fault_enumeration",
            "Malicious-relayer mutation sweep inside the simulator: for valid pending receive messages one or two fields chosen by reflection over the whole message (so new fields are covered) are mutated and the message is delivered alone in a block, at every packet/channel/client state the run reaches; a mutated message must not succeed, must not reach the application and must leave an empty store diff. Honest receives are checked against ground truth (source really stores the commitment of exactly these fields at the proven version; destination block before the timeout; v1 channel end OPEN in the state the receive executes on, including channels whose confirmation is relayed late while packets are already in flight). The single-field sweep is enumerated by (leaf index, variant) draws and its coverage (distinct field x mutation x state) is reported; the universal claim over all inputs is sampled.",
            "deterministic simulation with a malicious-relayer fault model: reflective single/double field mutation of real relay messages, ground-truth + store-diff oracle", "8 C05"),
    "C06": ("fault_enumeration",
            "As C05 for acknowledgement messages (v1 ack bytes, v2 app-ack list order/length, packet fields, sequence, proof, height) and forged acks; honest acks are checked against the destination's real stored ack commitment at the proven version and the bytes handed to the sending application equal what the destination application produced.",
            "deterministic simulation with a malicious-relayer fault model: reflective mutation of acknowledgement messages, ground-truth oracle", "8 C06"),
    "C19": ("exploration",
            "Connections with delay periods and per-chain MaxExpectedTimePerBlock knobs incl. a pair beyond 2^53; the relayer updates the client then probes receive/ack/timeout exactly at processed-time+delay -1ns/+0/+1ns and processed-height+ceil(delay/perBlock) -1/+0/+1 (simulated clock makes 104-day delays free). Exact integer model over the processed time/height stored by the client: accepted => both delays passed; refused-for-delay => not both passed.",
            "deterministic simulation: simulated clock + block-count boundary probes, exact integer reference model", "8 C19"),
    "C27": ("exploration",
            "Localhost loopback traffic end to end plus, at seeded points, VerifyMembership/VerifyNonMembership for 09-localhost through the client router on a throw-away branch of the latest state with keys sampled from the store census, perturbed keys, wrong values and wrong proofs; verdicts must equal the census. Client operations addressed to 09-localhost must be refused with no state change.",
            "deterministic simulation: store-census reference model for localhost verification at seeded points of live histories", "8 C27"),
    "C12": ("exploration",
            "Handshake worlds: two real chains, several relayers submitting channel INIT/TRY/ACK/CONFIRM/CLOSE-INIT/CLOSE-CONFIRM for up to 7 concurrent handshakes in any order, repeated, with proofs at newest or stale heights; an attacker mutates identifiers (20-digit, leading-zero, upper-case sequences), orderings, versions, hops and ports. Object-free oracles: decoded channel ends after every block move only INIT->OPEN, TRYOPEN->OPEN, *->CLOSED (CLOSED terminal; ordering/hops/counterparty port immutable); every accepted TRY/ACK/CONFIRM/CLOSE-CONFIRM is justified by the counterparty's REAL end at the proven state version; two OPEN ends agree; v2 alias bookkeeping appears exactly at OPEN for UNORDERED channels.",
            "deterministic simulation: seeded interleavings of competing handshake relayers + identifier/field mutation, ground-truth justification oracle", "8 C12"),
    "C13": ("exploration",
            "As C12 for connections, with version lists from a grammar (unknown identifiers, feature subsets, duplicates, empty sets, unknown features), delay periods, handshakes over the localhost client and channel opens on connections lacking the requested ordering. Connection ends move only INIT/TRYOPEN->OPEN and never leave OPEN; every accepted step is justified by the counterparty's real end (state, client pair, delay, versions); the version stored at TRY equals the specification's pick computed independently; nothing over localhost is accepted; channels open only on single-version connections supporting their ordering.",
            "deterministic simulation: seeded handshake interleavings over a version-list grammar, independent negotiation model + ground-truth oracle", "8 C13"),
    "C15": ("exploration",
            "Long creation histories of clients, connections and channels on two chains incl. failed attempts, duplicate TRYs and restarts from the durable DB; every identifier handed out is unique per chain, passes the host validators and round-trips through Parse/Format; messages addressed to edge-shaped identifiers are refused.",
            "deterministic simulation: creation histories with failed attempts and restarts, identifier census oracle", "8 C15"),
    "C16": ("exploration",
            "Client operations (honest / forged / mutated headers, misbehaviour, recovery through the real gov module) on three clients next to connection, channel and v2 counterparty state: an accepted client message's store diff lies inside clients/<target>/, a refused one changes nothing there, a recovery changes no namespace but the subject's. (The key-space collision half over the whole identifier alphabet is an input property and is not claimed.)",
            "deterministic simulation: per-transaction store-diff confinement oracle over client-operation histories", "8 C16"),
    "C20": ("exploration",
            "Chain A hosts three tendermint clients (trusting 6 h / 40 h / 14 d) of chain B whose 4-10 validator keys the simulator owns: headers in any order, duplicates, gap filling, forks of stored heights signed by any power fraction, misbehaviour, clock walks that expire and prune old states. Store census every block: per (client, height) bytes go absent* value* absent*, removed only when expired; a different accepted header for a stored height leaves the value and freezes the client.",
            "deterministic simulation: Byzantine-validator header schedules + simulated clock, consensus-state history oracle on the store census", "8 C20"),
    "C21": ("exploration",
            "Same worlds: after every block the status query equals the property's definition evaluated on the raw stored state at that block's time (clock jumps aimed at expiry -2s..+2s), latest height never decreases; every consumer (update, v1/v2 send, connection init, channel init, packet receive at a stored height) is attempted at seeded points and none may succeed unless the model status is Active.",
            "deterministic simulation: simulated clock around expiry + freeze/recover faults, status reference model + consumer gating probes", "8 C21"),
    "C22": ("exploration",
            "Same worlds: census of every client namespace every block — exactly one processed-time, processed-height and iteration entry per consensus state and no orphans; ascending iteration equals the sorted heights; next/previous lookups return the true neighbours; a block prunes at most one state, the oldest, only if expired.",
            "deterministic simulation: update/prune histories, sorted-set reference model vs client-store census and real iterators", "8 C22"),
    "C23": ("exploration",
            "Same worlds with fully signed headers for heights between stored neighbours whose times are shifted (+-1 s, +10 min, -1 h): stored timestamps strictly increase with height after every block; an accepted header that would break this freezes the client and is not stored.",
            "deterministic simulation: validators signing headers with altered times in any submission order, monotonic-time invariant on the census", "8 C23"),
    "C24": ("fault_enumeration",
            "Every submitted header/misbehaviour is judged by an independent acceptance predicate (trusted validators hash, revision, height order, trusting period, clock drift, validator-set hash, commit-for-header, per-signature ed25519 verification giving >2/3 own power and >= trust level of trusted power) over honest headers, forks signed by 0, n/3, n/3+1, 2n/3, 2n/3+1, n of n validators, altered times, future heights, and honest headers with one field mutated by reflection. Accepted => predicate true; a client freezes on misbehaviour only if both headers pass and the pair is misbehaviour.",
            "deterministic simulation: Byzantine validator subsets + reflective header mutation, independent verification predicate", "8 C24"),
    "C25": ("exploration",
            "MsgRecoverClient for every ordered pair of three clients (Active/Expired/Frozen via clock jumps and misbehaviour; matching and differing parameters; higher and lower heights) through the REAL gov module. Succeeds only if subject not Active, substitute Active, strictly higher, same parameters; afterwards the subject is unfrozen at the substitute's latest height and consensus state; no other client namespace changes. The upgrade half of the property is NOT decided (no simulated chain upgrade).",
            "deterministic simulation: gov-driven recovery over client status histories, precondition model + post-state + confinement oracle", "8 C25"),
    "C26": ("exploration",
            "One real chain hosting 2-3 06-solomachine clients (single keys and n-of-n multisigs, a machine shared by two clients under different diversifiers) whose machines, keys and relayer the simulator plays: connection/channel handshakes and mock-application packet flow are proven by solo machine signatures; the faulty relayer replays earlier signatures after the sequence moved, signs for another sequence / timestamp / diversifier / path / data / key, corrupts signature bytes and submits double-signing evidence. Sequential reference model of each client (sequence, timestamp, key, diversifier, frozen): every committed verification consumed exactly one sequence and was signed by the registered key over exactly the bytes the chain had to check; no signature is accepted twice, no two signatures for one sequence; timestamps never decrease; refused messages change nothing; frozen clients accept nothing; valid double-signing evidence freezes (the repository's refusal of evidence built from signatures it accepts as proofs is the recorded finding).",
            "deterministic simulation: simulator-played solo machines with replay / wrong-field / corrupted signature faults, sequential client reference model", "8 C26"),
    "C28": ("exploration",
            "One real chain hosting 2-3 attestations light clients with their own attestor sets (3-7 secp256k1 keys owned by the simulator), quorums and IBC v2 counterparties; the attested chain is a simulated height/clock. The relayer assembles client updates, membership / non-membership proofs and v2 receive / ack / timeout messages whose proofs are attestations — honest, or broken in one or two dimensions (signers below quorum, duplicated, unknown, wrong-domain tag, malleable/corrupted bytes, other payload, other height, other path hash or commitment, zero-commitment for absence). Independent reference verifier (signature recovery, distinct configured signers >= quorum, payload decoding, height/timestamp binding, path hash and value match): accepted => reference accepts; a frozen client accepts nothing; a conflicting timestamp for a stored height freezes the client. Coverage of the (message kind x broken dimension) grid is reported.",
            "deterministic simulation: simulated attestor sets signing honest and broken attestations for every proof consumer, independent reference verifier", "8 C28"),
    "C39": ("exploration",
            "Two real chains joined by 2 or 11 IBC v2 client pairs; GMP calls reach the destination from user-signed MsgSendCall, from sends whose packet sender differs from / re-spells the signer, and from packets committed by a foreign application with arbitrary sender strings; (client, sender, salt) triples are drawn from families whose naive concatenations coincide; payloads hold 1-3 messages (sends from the derived account, from a victim, from another GMP account, multi-input sends, failing messages, nested calls); relays are duplicated and replayed. Oracles: one address per triple for the whole run and never shared by two triples (the recorded finding: senders differing only in UTF-8 continuation bytes share a store key); a payload executes only with the derived account as sole signer, completely or not at all (bank diff); no other account is debited; a send is accepted only for sender == signer.",
            "deterministic simulation: colliding-triple families + foreign-sender packet injection under relay faults, address census + bank-diff oracle", "8 C39"),
    "C29": ("exploration",
            "One real wasm test application (08-wasm testing/simapp; separate engine wasmsim because 08-wasm is its own Go module) with 3-6 wasm clients; each world runs 3-8 client recoveries through the REAL gov module (submit, vote, execute) on state already changed by earlier recoveries. The untrusted contract is the fault: a seeded script of <= 30 store operations (get/has/set/delete/copy/iterate/reverse-iterate over subject-prefixed, substitute-prefixed, unprefixed, near-miss, doubled, prefix-only, nil and empty keys; ranges with equal, different, missing and one-sided prefixes) executed by the scriptable mock VM against the ClientRecoveryStore it is really handed, ending ok / contract error / VM error / panic / forbidden response at a seeded position. Plain map reference model over full dumps of the ibc and 08-wasm stores: substitute store byte-identical, subject store equals the model (exactly the subject-prefixed writes and deletes), every read equals the model (prefix routing; inconsistent prefixes read as empty), no other key of either store changes, nothing persists after a failed or panicking recovery.",
            "deterministic simulation with an adversarial-contract fault model: seeded store-operation scripts run during gov-driven recovery, map reference model over full store dumps", "8 C29"),
    "C40": ("fault_enumeration",
            "Two real chains running the callbacks test application (modules/apps/callbacks/testing/simapp) joined by an ICS-20 v1 channel and an IBC v2 client pair; transfers carry src_callback / dest_callback memos with user gas limits absent, zero, below, at, above the chain maximum and 2^64-1; the scripted contract per callback type succeeds, errors, panics, burns all gas, or burns all gas and swallows the panic, optionally after writing state (a bank send to a sink account); the relayer's transaction gas limit is drawn from a ladder placed around the committed callback limit using a dry run of the same message (cannot pay the message, below / at / above the committed limit, exactly at it after an aborted attempt). In addition the real v1 and v2 middleware are driven directly over stub neighbours with chain maxima 1..3,000,000 where the remaining gas is known exactly and the async write-ack callback is reachable. Oracles: callback gas <= min(remaining, min(user limit, chain max)); a failing source ack/timeout callback leaves the packet completed with exactly the ICS-20 bank effect and nothing the callback wrote; out of gas on a meter below the committed limit aborts the whole transaction, nothing persists, and an amply funded retry commits; a failing destination callback gives an error acknowledgement with no bank/transfer state change. The coverage of the (callback type x contract behaviour x gas relation) grid is reported.",
            "deterministic simulation with scripted contract faults and a relayer gas ladder around the committed limit; gas-bound + bank/store-diff oracles", "8 C40"),
    "C43": ("exploration",
            "Token worlds of 3 real chains (line and mesh) with the real rate-limit -> packet-forward -> transfer stack, where transfers carry forward memos of 1-3 hops (next as object or JSON string; hops that go back over the arrival channel; timeouts none / 1-30 s / 1 h / 40 h; retries none or 0-2; final receiver valid / invalid / blocked; ~14% malformed or unroutable hops) for native coins, vouchers, unwinding and non-unwinding hops. The legs the middleware sends from inside a receive or timeout transaction are recognised from its send_packet events and become ordinary packets of the simulator, so the relay faults of the token worlds (duplicates, replays, races, early timeouts, delays) apply to every leg. Oracles: per-block bank diff against the ICS-20 model extended by hop predictions (arrival credit and departure debit of the intermediate account net zero; exact inverse when a forward fails for good), channel equations and tracked escrow on every chain; all-or-nothing judged when the origin leg settles and after the drain (delivered-and-refunded, acknowledged-without-delivery, neither, delivered-twice, never-terminated); the intermediate receive account holds nothing after every block; a failed forward leaves escrow, tracked escrow and voucher supply of each intermediate chain where they started; the denomination, amount and route of the next leg equal the model's; no more re-sends than the memo's retries.",
            "deterministic simulation: multi-hop forwards under relay faults and tight timeouts, ICS-20 + hop reference model (bank diff every block) and all-or-nothing judgement after a bounded drain", "8 C43"),
    "C46": ("fault_enumeration",
            "Two real chains with a 30 s gov voting period; up to 8 further tendermint clients per chain created by different accounts (short trusting periods so that some expire), a connection, a v1 channel and v2 counterparties. The run enumerates privileged and client-scoped messages — MsgRecoverClient, MsgIBCSoftwareUpgrade, MsgUpdateParams of 02-client / 03-connection / transfer / ICA host / ICA controller, rate-limit add / update / remove / reset, v2 MsgRegisterCounterparty, MsgUpdateClientConfig, MsgDeleteClientCreator, MsgCreateClient, MsgUpdateClient, v2 send / receive / acknowledgement / timeout with real proofs, connection and channel opens and v1 packets over a client — with every signer class (authority through a REAL proposal + vote + voting period; a message naming the authority or the creator but signed by someone else; a proposal that does not pass; creator; deleted creator; another client's creator; listed and unlisted relayers; strangers) at the configurations the run reaches (counterparty set or not, creator deleted, relayer allow list empty / non-empty, allowed-clients list with / without the client type), refused attempts followed by the same message from a permitted signer, replays. Reference table (message kind, signer class, configuration) -> allowed: success => allowed; permitted combinations with certainly valid arguments must succeed; any refusal leaves the complete ibc, upgrade, ratelimiting, transfer, icahost and icacontroller stores unchanged. Coverage of the grid is reported (65 required cells). Not decided: wasm code storage/removal/migration (08-wasm is not wired into testing/simapp) and MsgUpgradeClient under a relayer allow list (needs a real chain upgrade).",
            "deterministic simulation: privileged-message x signer-class x configuration enumeration through real governance, authorisation table + full store-diff oracle", "8 C46"),
    "C30": ("exploration",
            "2-3 real chains in a line or mesh of ICS-20 channels (v1, v2-over-alias, v2 clients) with the real rate-limit -> packet-forward -> transfer stack; users move natives (incl. '/'-segmented names) and vouchers over several hops and back under dropped/duplicated/replayed/reordered/raced relays, invalid and blocked receivers, tight timeouts, restarts. After EVERY block: real change of every bank balance and supply == sum of the ICS-20 reference model's predictions for the committed transactions; per channel end and escrowed denomination: escrow (net of donations) == voucher supply on the peer + in flight; native supplies constant.",
            "deterministic simulation: multi-chain token traffic under relay faults, ICS-20 reference model + cross-chain conservation equations on real bank state", "8 C30"),
    "C31": ("exploration",
            "Same token worlds plus direct donations to escrow accounts: after every block the queried total-escrow-for-denom equals the model ledger of IBC escrows minus releases (incl. refunds and unwinding receives), is >= 0 and <= the combined balance of the transfer escrow accounts.",
            "deterministic simulation: ledger reference model of tracked escrow vs queried state every block", "8 C31"),
    "C32": ("exploration",
            "Token worlds biased to failing transfers (invalid/blocked receivers, height and time timeouts, timeout raced against receive; native, voucher and '/'-named denominations; v1/alias/v2). Each refund transaction's real bank diff must be exactly +amount of the ORIGINAL denomination to the original sender and the reverse of the send on escrow/supply, exactly once; success acks change nothing; after faults stop and an honest relayer drains, no failed transfer is left unrefunded.",
            "deterministic simulation: fault-injected transfer failures, per-transaction bank-diff oracle + bounded-liveness drain", "8 C32"),
    "C33": ("exploration",
            "Token worlds biased to round trips over the same channel for native denominations drawn from a '/'-segment grammar (port-like, channel-like, client-like, hash-like segments): a returning voucher must be accepted and the origin must release exactly the original native from that channel's escrow (bank diff vs model); no return is stuck after the drain.",
            "deterministic simulation: round-trip workloads over a denomination grammar, bank-diff oracle + bounded-liveness drain", "8 C33"),
    "C36": ("exploration",
            "Token worlds where users grant ICS-20 transfer authorizations (channel allocations, per-denomination limits incl. unbounded, receiver allow lists, memo lists) and grantees execute transfers through authz MsgExec exactly at / one above / one below the remaining limit, with the entire-balance sentinel, receivers on and off the list, allowed and other memos, channels without allocation, interleaved with ordinary traffic and relay faults. An accepted exec must be allowed by the grant-ledger model; after every block the stored remaining limits equal granted-minus-accepted, exhausted allocations/grants are gone, refused execs leave the grant unchanged.",
            "deterministic simulation: seeded grantee request sequences around limit boundaries, grant-ledger reference model compared every block", "8 C36"),
    "C37": ("fault_enumeration",
            "Accounts worlds: controller chain A, host chain B (host allow list per world: *, bank only, bank+authz, bank+staking); owners register interchain accounts (ordered/unordered), relayers run handshakes, accounts are funded, owners send batches of 1-4 messages (sends from the interchain account, sends of ANOTHER account's coins, sends above the balance at send time, delegations of stake the account lacks, authz execs without grant) with the failing/unauthorised message at every position; relayers deliver, duplicate, replay. Model: a batch executes iff every type is allowed, every signer is the interchain account of that (connection, port) and every message succeeds in order; then all bank effects apply, else none. The host's real bank diff and the ack must agree with the model.",
            "deterministic simulation: batch shapes x failing positions x allow lists under relay faults, all-or-nothing bank-diff model", "8 C37"),
    "C38": ("exploration",
            "Same worlds with registrations, ordered channels closing on timeouts and re-registration, MsgSendTx signed by strangers, handshake steps started by the host side or with a wrong counterparty port. After every block: the active channel of a (connection, owner) changes only when the previous one is CLOSED; never two OPEN channels per owner; a reopened channel keeps ordering and metadata; the host's account address per (connection, port) never changes; stranger-signed MsgSendTx and foreign handshake steps are never accepted.",
            "deterministic simulation: registration / timeout-close / reopen histories with stranger and host-side attempts, active-channel invariants", "8 C38"),
    "C41": ("exploration",
            "Token worlds with rate limits administered through the REAL gov module (add/update/reset/remove, binding 0-2% quotas on small-supply vouchers), transfers both ways with success/error acks, timeouts, duplicates, replays, clock jumps across hour boundaries. After every block the stored inflow/outflow/channel value of every rate limit equals a reference model (accepted in the current window minus undone in it, each packet at most once; error-ack receives net zero); accept/refuse agrees with the quota. Window resets are observed (isolated in empty blocks, accepted only as full resets).",
            "deterministic simulation: simulated clock + gov-driven administration + relay faults, rate-limit reference model compared every block", "8 C41"),
    "C42": ("exploration",
            "Token worlds where every denomination in play gets a generous rate limit on the channels it moves over, so every movement is charged: the (denomination, channel) whose flow moved must be the one whose bank movement the ICS-20 model predicts (escrow/burn on send, mint/unescrow on receive), same amount, for natives, '/'-named natives, multi-hop vouchers and unwinding paths over v1/alias/v2.",
            "deterministic simulation: rate-limit flow diff vs ICS-20 bank-movement model per committed transfer", "8 C42"),
    "C44": ("exploration",
            "Core and token worlds (v1 ordered/unordered channels, v2 clients, v2-over-alias traffic, localhost, ICS-20 vouchers, rate limits, async packets, packets in every lifecycle state) in which a chain is hard-restarted at seeded points through genesis export/import (ModuleManager.ExportGenesis -> fresh application, InitialHeight = height+1) and the world continues on the restarted chain. The complete content of the ibc, transfer, ratelimiting, packetforward, icacontroller, icahost and gmp stores after the import must equal the content before the export, key by key; re-export must equal export. Genuine defects found here are listed in known_findings.json (alias-keyed v2 state dropped; import refuses equal client ids) and reported as KNOWN-FINDING; any other lost key is a violation.",
            "deterministic simulation: genesis export/import restart injected at seeded points of live histories, store-census equality oracle", "8 C44"),
    "C45": ("exploration",
            "Histories from the core, token, handshake and client worlds — with node restarts, lost commits (crash between FinalizeBlock and Commit, same block re-proposed) and genesis restarts — are executed in one OS process at GOMAXPROCS=1 and re-executed from the recorded operation list in a second fresh process at GOMAXPROCS=16 (new Go map seed): app hash after every block of every chain, per-module hashes of the exported genesis and module-ordered list queries must be identical; a block re-executed after a lost commit must give the same app hash.",
            "deterministic simulation: same recorded history replayed across processes / thread counts / map seeds and across crash-restart points, digest comparison", "8 C45"),
    "C49": ("exploration",
            "Token worlds with relays submitted by arbitrary accounts: per block every non-module account whose balance decreased signed a transaction of that block; credits from receive/ack/timeout go only to the packet's receiver or refund its original sender (bank diff vs model).",
            "deterministic simulation: per-block debit attribution against transaction signers + ICS-20 model", "8 C49"),
    "C08": ("exploration",
            "Interleaved v1 sends, v2 sends on the alias of the same channel and on plain clients (several users per block), timeouts on every guard boundary, clients expiring between sends, channels closing. Oracles: returned sequences per source id are 1,2,3,... (shared by v1 and alias); one new commitment key per successful send; accept/refuse equals the specification's guard predicate evaluated on the real pre-state.",
            "deterministic simulation: interleaved v1/alias/v2 sends with boundary timeouts, sequential counter model + guard predicate on real pre-state", "8 C08"),
    "C09": ("fault_enumeration",
            "Receives whose application script writes k=0..3 entries and then succeeds / fails / goes async / panics, on every mock route kind; the store diff of the receiving transaction must contain no application write after an error ack and exactly {receipt or receive counter, ack commitment} in the IBC store, all k writes after success/async, nothing after a panic. The (script x route kind) grid is enumerated by the generator; coverage of the grid is reported, not assumed.",
            "deterministic simulation with application-fault scripts (write-then-fail, panic, async); per-transaction store-diff oracle", "8 C09"),
    "C10": ("fault_enumeration",
            "IBC v2 packets with 1..3 payloads over two scripted v2 apps (clients and alias), each payload independently ok / fail / async / write-then-fail / sentinel-as-success. Oracle computes the specification outcome of the status vector (all-or-nothing writes, ack shape and order, tx failure for async-with-many or sentinel) and compares store diff, stored ack commitment and the acks handed to the sender's callbacks.",
            "deterministic simulation with per-payload application-fault scripts; status-vector outcome model vs store diff and ack", "8 C10"),
    "C11": ("exploration",
            "Applications write acknowledgements asynchronously: repeatedly, prematurely, for never-received sequences, long after a synchronous ack, interleaved with relays. Invariant every block: the stored ack commitment per (destination, sequence) is absent* then one constant value; second writes refused; v2 refuses writes without receipt; v2 async-packet record exists exactly from async receive to ack write.",
            "deterministic simulation: seeded async-ack write attempts interleaved with relays, store-history oracle", "8 C11"),
    "C14": ("exploration",
            "ORDERED channels with tight timeouts and several packets in flight; after a committed timeout the run keeps sending, receiving, acknowledging and timing out on that channel. Invariants: the sender's end is CLOSED right after the timeout; no later send / receive / ack on that end succeeds; other in-flight packets can still be timed out (honest drain closes the peer and uses timeout-on-close).",
            "deterministic simulation: ordered-channel timeouts followed by seeded packet messages, state + refusal oracle", "8 C14"),
}

checks = []
na = []
for p in props:
    i = p["id"]
    if i in CLAIMED:
        cat, text, tech, ref = CLAIMED[i]
        checks.append({
            "property_id": i,
            "quick_cmd": f"./check {i} --tier quick",
            "thorough_cmd": f"./check {i} --tier thorough",
            "evidence_file": f"/verif/evidence/{i}.json",
            "replay_cmd_template": f"./check {i} --replay {{path}}",
            "engine": "wasmsim" if i == "C29" else "ibcsim",
            "level_claimed": {"category": cat, "text": text, "design_ref": "DESIGN.md section " + ref},
            "level_note": TRUST,
            "technique": tech,
        })
    else:
        na.append({"property_id": i, "reason": PURE.get(i, NOT_YET)})

base = json.load(open("/root/.vp/BASELINE.json"))
m = {
    "version": 1,
    "setup_cmd": "./setup.sh",
    "hooks": {
        "guard": "verif",
        "enable": "no hooks are needed: every fault and observation goes through existing seams (ABCI surface, header time, DB handle, gas limit, mock-app function fields); checks build /repo unmodified through a replace directive. The build tag `verif` is reserved and unused.",
        "baseline_off_cmd": base["cmd"],
        "source_commits": [],
        "add_only": True,
    },
    "engines": [{
        "name": "ibcsim",
        "path": "/verif/ibcsim",
        "serves_properties": [c["property_id"] for c in checks if c["engine"] == "ibcsim"],
        "kind_free_text": "deterministic discrete-event simulator in Go: real chains (testing/simapp) driven through ABCI by a seeded scheduler that owns consensus, clocks, mempools, relayers, users and faults; one OS process per world batch; replay = recorded operation list; ddmin minimiser",
    }, {
        "name": "wasmsim",
        "path": "/verif/wasmsim",
        "serves_properties": [c["property_id"] for c in checks if c["engine"] == "wasmsim"],
        "kind_free_text": "same simulator framework (imports verif/ibcsim/sim for worlds, ops, workers, replay, minimiser, evidence) linked against the separate 08-wasm Go module: one real wasm test application driven through ABCI with real governance; the contract VM is the repository's scriptable MockWasmEngine",
    }],
    "checks": checks,
    "not_applicable": na,
    "notes": "exit 2 = build/harness trouble, never a violation. known_findings.json lists genuine defects (open -> KNOWN-FINDING line, fixed -> suppresses nothing).",
}
out = os.path.join(HERE, "MANIFEST.json")
json.dump(m, open(out, "w"), indent=1)
try:
    import jsonschema
    jsonschema.validate(m, json.load(open("/root/.vp/MANIFEST.schema.json")))
    print("MANIFEST.json valid:", len(checks), "checks,", len(na), "not claimed")
except ImportError:
    print("MANIFEST.json written (jsonschema not available to validate)")
