#!/usr/bin/env python3
"""Splices tools/design13.md (with the seeded-change table generated from /verif/seeded/*/meta.json
and the not-decided list from MANIFEST.json) into DESIGN.md between the section-13 markers."""
import glob, json, os, re

HERE = os.path.dirname(os.path.dirname(os.path.abspath(__file__)))
tmpl = open(os.path.join(HERE, "tools", "design13.md")).read()

rows = ["| Seeded change | What it breaks (needs to manifest) | Caught by | Strengthening it forced |", "|---|---|---|---|"]
def key(d):
    m = re.match(r".*/(C\d+)-(\d+)$", d)
    return (m.group(1), int(m.group(2)))
for d in sorted(glob.glob(os.path.join(HERE, "seeded", "C*-*")), key=key):
    try:
        m = json.load(open(os.path.join(d, "meta.json")))
    except Exception:
        continue
    def clip(s, n):
        s = " ".join(str(s).split()).replace("|", "/")
        return s if len(s) <= n else s[: n - 1] + "…"
    rows.append("| %s | %s | %s | %s |" % (os.path.basename(d), clip(m.get("summary", m.get("mechanism", "")), 260),
                                        clip(m.get("caught_by", ""), 160), clip(m.get("strengthening", "-"), 220)))
table = "\n".join(rows)

man = json.load(open(os.path.join(HERE, "MANIFEST.json")))
nd = []
for e in man["not_applicable"]:
    nd.append("* %s: %s" % (e["property_id"], e["reason"]))
tmpl = tmpl.replace("@@MUTANT_TABLE@@", table).replace("@@NOT_DECIDED@@", "\n".join(nd))

p = os.path.join(HERE, "DESIGN.md")
s = open(p).read()
B, E = "<!-- BEGIN-13 -->", "<!-- END-13 -->"
block = B + "\n" + tmpl.rstrip() + "\n\n" + "-" * 93 + "\n" + E + "\n\n"
if B in s:
    s = s[: s.index(B)] + block + s[s.index(E) + len(E):].lstrip("\n")
else:
    i = s.index("## Appendix A.")
    s = s[:i] + block + s[i:]
open(p, "w").write(s)
print("DESIGN.md section 13 regenerated:", len(rows) - 2, "seeded changes,", len(nd), "not decided")
